(** C14, envelope decoders: the checked twin (Model/EnvelopeChecked.v) never panics, equals the
    simple model (Model/Envelope.v) on every input, allocates at most the input size, and its
    scanning loops advance on every iteration. *)
From Acra Require Import Lib.Bytes Lib.Outcome Lib.GoSlice Lib.Sha256 Crypto.Interface Gen.Consts
  Model.Envelope Model.EnvelopeChecked Proofs.Envelope Proofs.EnvelopeHandlers Proofs.Scanner.
From Coq Require Import ZifyN ZifyNat ZifyBool.
Local Open Scope Z_scope.

Ltac uc := unfold_consts;
  unfold AB_REST_LEN_POS, AB_KEK_TYPE_POS, AB_KEY_ID_POS, AB_DATA_TYPE_POS, AB_DEK_LEN_POS, AB_ENC_KEY_POS in *.

(** * generic loop facts *)
Section Iterate.
Context {S R : Type} (step : S -> res (step_res S R)) (Inv : S -> Prop) (mu : S -> nat).

Lemma iterate_total :
  (forall s, Inv s -> step s <> Panic) ->
  (forall s s', Inv s -> step s = Ok (Continue s') -> Inv s') ->
  forall f s, Inv s -> iterate f step s <> Panic.
Proof.
  intros Hnp Hinv f. induction f as [|f IH]; intros s Hs; cbn [iterate]; [discriminate|].
  pose proof (Hnp s Hs) as Hp. destruct (step s) as [[s'|r]|e|] eqn:E; try discriminate; [|contradiction].
  apply IH. eapply Hinv; eassumption.
Qed.

(** progress => the result does not depend on the fuel once it exceeds the measure:
    [Err E_OUT_OF_FUEL] is never produced by the fuel bound itself *)
Lemma iterate_fuel :
  (forall s s', Inv s -> step s = Ok (Continue s') -> Inv s' /\ (mu s' < mu s)%nat) ->
  forall f1 f2 s, Inv s -> (mu s < f1)%nat -> (mu s < f2)%nat -> iterate f1 step s = iterate f2 step s.
Proof.
  intros Hstep f1. induction f1 as [|f1 IH]; intros f2 s Hs H1 H2; [lia|].
  destruct f2 as [|f2]; [lia|]. cbn [iterate].
  destruct (step s) as [[s'|r]|e|] eqn:E; try reflexivity.
  destruct (Hstep s s' Hs E) as [Hi Hm]. apply IH; [exact Hi| lia| lia].
Qed.

(** a loop that makes progress finishes within [mu s] + 1 iterations *)
Lemma iterate_terminates :
  (forall s s', Inv s -> step s = Ok (Continue s') -> Inv s' /\ (mu s' < mu s)%nat) ->
  forall f s, Inv s -> (mu s < f)%nat -> iterate f step s = Err E_OUT_OF_FUEL ->
  exists s', Inv s' /\ step s' = Err E_OUT_OF_FUEL.
Proof.
  intros Hstep f. induction f as [|f IH]; intros s Hs Hm; [lia|]. cbn [iterate].
  destruct (step s) as [[s'|r]|e|] eqn:E; try discriminate.
  - destruct (Hstep s s' Hs E) as [Hi Hlt]. intros H. apply (IH s' Hi); [lia| exact H].
  - intros [= ->]. exists s. split; assumption.
Qed.
End Iterate.

(** * constants *)
Lemma len_as_tag : len as_tag = zn AS_TAG_LEN. Proof. reflexivity. Qed.
Lemma as_min_z_eq : as_min_z = zn as_min. Proof. reflexivity. Qed.
Lemma len_sc_tag : len sc_tag = zn SC_TAG_SIZE. Proof. reflexivity. Qed.
Lemma len_nat s : len s = Z.of_nat (length s). Proof. reflexivity. Qed.

Lemma go_len_skipn n (s : bytes) : go_len s -> go_len (skipn n s).
Proof. unfold go_len, len. rewrite skipn_length. lia. Qed.
Lemma go_len_firstn n (s : bytes) : go_len s -> go_len (firstn n s).
Proof. unfold go_len, len. rewrite firstn_length. lia. Qed.

(** * AcraStruct *)
Lemma as_data_length_checked_eq (data : bytes) :
  (as_min <= length data)%nat -> as_data_length_checked data = Ok (as_data_length data).
Proof.
  intros H. unfold as_data_length_checked, as_data_length.
  change (as_min_z - zn AS_DATALEN_SIZE) with (Z.of_nat (as_min - AS_DATALEN_SIZE)).
  change as_min_z with (Z.of_nat as_min).
  rewrite gslice_nat by (uc; lia). cbn [bind].
  change (as_min - (as_min - AS_DATALEN_SIZE))%nat with AS_DATALEN_SIZE.
  rewrite le_u64_8 by (apply sub_length; uc; lia). reflexivity.
Qed.

(** the precondition is needed: the exported helper panics on short input (all callers check) *)
Lemma as_data_length_checked_short (data : bytes) :
  (length data < as_min)%nat -> as_data_length_checked data = Panic.
Proof.
  intros H. unfold as_data_length_checked.
  assert (gslice (as_min_z - zn AS_DATALEN_SIZE) as_min_z data = Panic) as ->; [|reflexivity].
  apply gslice_panic. rewrite as_min_z_eq. unfold zn, len. lia.
Qed.

Lemma as_validate_checked_eq (data : bytes) : as_validate_checked data = Ok (as_validate data).
Proof.
  unfold as_validate_checked, as_validate. rewrite as_min_z_eq. unfold zn at 1.
  destruct (Nat.ltb_spec (length data) as_min) as [Hl|Hl]; destruct (Z.ltb_spec (len data) (Z.of_nat as_min)) as [Hz|Hz];
    unfold len in Hz; try lia; [reflexivity|].
  rewrite len_as_tag. unfold zn. rewrite gslice_to_nat by (uc; lia). cbn [bind].
  destruct (negb (bytes_eqb (firstn AS_TAG_LEN data) as_tag)); [reflexivity|].
  rewrite as_data_length_checked_eq by exact Hl. cbn [bind].
  rewrite gslice_from_nat by exact Hl. cbn [bind].
  unfold len. rewrite skipn_length. destruct (Z.eqb _ _); reflexivity.
Qed.

Lemma as_decrypt_checked_eq C (data priv ctx : bytes) :
  as_decrypt_checked C data priv ctx = as_decrypt C data priv ctx.
Proof.
  unfold as_decrypt_checked, as_decrypt. rewrite as_validate_checked_eq. cbn [bind].
  destruct (as_validate data) eqn:Ev; [|reflexivity]. cbn [negb].
  apply as_validate_length in Ev as [Hl _].
  rewrite len_as_tag. unfold zn. rewrite gslice_from_nat by (uc; lia). cbn [bind].
  assert (length (skipn AS_TAG_LEN data) = length data - AS_TAG_LEN)%nat as Hi by apply skipn_length.
  rewrite gslice_to_nat by (uc; lia). cbn [bind].
  rewrite gslice_nat by (uc; lia). cbn [bind].
  change (as_key_block - AS_PUBKEY_LEN)%nat with AS_SMSG_LEN.
  destruct (msg_unwrap C priv _ _); [|reflexivity].
  rewrite gslice_nat by (uc; lia). cbn [bind].
  rewrite gslice_from_nat by (uc; lia). cbn [bind]. reflexivity.
Qed.

Lemma as_decrypt_rotated_checked_eq C (data : bytes) privs (ctx : bytes) :
  as_decrypt_rotated_checked C data privs ctx = as_decrypt_rotated C data privs ctx.
Proof.
  induction privs as [|p rest IH]; cbn [as_decrypt_rotated_checked as_decrypt_rotated]; [reflexivity|].
  rewrite as_decrypt_checked_eq. destruct (as_decrypt C data p ctx); try reflexivity.
  destruct rest; [reflexivity| exact IH].
Qed.

Lemma as_decrypt_simple_total C (data priv ctx : bytes) : as_decrypt C data priv ctx <> Panic.
Proof.
  unfold as_decrypt. destruct (negb _); [discriminate|]. destruct (msg_unwrap _ _ _ _); [|discriminate].
  destruct (cell_decrypt _ _ _ _); discriminate.
Qed.

Lemma as_decrypt_rotated_simple_total C (data : bytes) privs (ctx : bytes) :
  as_decrypt_rotated C data privs ctx <> Panic.
Proof.
  induction privs as [|p rest IH]; cbn [as_decrypt_rotated]; [discriminate|].
  pose proof (as_decrypt_simple_total C data p ctx). destruct (as_decrypt C data p ctx); try discriminate; [|contradiction].
  destruct rest; [discriminate| exact IH].
Qed.

(** ExtractAcraStruct: no counterpart in the simple model; specification + totality *)
Lemma as_extract_checked_spec (data : bytes) n s :
  as_extract_checked data = Ok (n, s) ->
  zn as_min <= n <= len data /\ s = firstn (Z.to_nat n) data /\ as_validate s = true.
Proof.
  unfold as_extract_checked. rewrite as_min_z_eq.
  destruct (Z.ltb_spec (len data) (zn as_min)) as [|Hl]; [discriminate|].
  rewrite as_data_length_checked_eq by (unfold len, zn in Hl; lia). cbn [bind].
  set (asl := int_add _ _).
  destruct (Z.ltb_spec asl 0) as [|H0]; [discriminate|]. destruct (Z.ltb_spec (len data) asl) as [|H1]; [discriminate|].
  cbn [orb]. rewrite gslice_to_ok by lia. cbn [bind]. rewrite as_validate_checked_eq. cbn [bind].
  destruct (as_validate (firstn (Z.to_nat asl) data)) eqn:Ev; [|discriminate]. cbn [negb bind].
  intros [= <- <-]. split; [|split; [reflexivity| exact Ev]].
  apply as_validate_length in Ev as [Hm _]. rewrite firstn_length in Hm. unfold zn. lia.
Qed.

Theorem as_extract_checked_total (data : bytes) : as_extract_checked data <> Panic.
Proof.
  unfold as_extract_checked. rewrite as_min_z_eq.
  destruct (Z.ltb_spec (len data) (zn as_min)) as [|Hl]; [discriminate|].
  rewrite as_data_length_checked_eq by (unfold len, zn in Hl; lia). cbn [bind].
  set (asl := int_add _ _).
  destruct (Z.ltb_spec asl 0) as [|H0]; [discriminate|]. destruct (Z.ltb_spec (len data) asl) as [|H1]; [discriminate|].
  cbn [orb]. rewrite gslice_to_ok by lia. cbn [bind]. rewrite as_validate_checked_eq. cbn [bind].
  destruct (as_validate _); discriminate.
Qed.

(** * AcraBlock *)
Definition zfst (p : nat * bytes) : Z * bytes := (Z.of_nat (fst p), snd p).

Lemma ab_extract_checked_eq (data : bytes) :
  go_len data -> ab_extract_checked data = res_map zfst (ab_extract data).
Proof.
  intros Hg. unfold go_len, MAXALLOC, len in Hg. unfold ab_extract_checked, ab_extract. unfold zn at 1.
  destruct (Nat.ltb_spec (length data) AB_MIN_SIZE) as [Hl|Hl]; destruct (Z.ltb_spec (len data) (Z.of_nat AB_MIN_SIZE)) as [Hz|Hz];
    unfold len in Hz; try lia; [reflexivity|].
  unfold zn. rewrite gslice_to_nat by (uc; lia). cbn [bind].
  change (gslice_to (Z.of_nat AB_TAG_SIZE) as_tag) with (Ok ab_tag). cbn [bind].
  rewrite gslice_nat by (uc; lia). cbn [bind].
  change (AB_REST_LEN_POS + AB_REST_LEN_SIZE - AB_REST_LEN_POS)%nat with AB_REST_LEN_SIZE.
  assert (length (sub AB_REST_LEN_POS AB_REST_LEN_SIZE data) = 8%nat) as H8 by (apply sub_length; uc; lia).
  rewrite le_u64_8 by exact H8. cbn [bind].
  pose proof (le_dec_8_lt _ H8) as Hlt. set (rest := le_dec _) in *.
  rewrite (gindex_nat AB_KEK_TYPE_POS) by (uc; lia). cbn [bind].
  rewrite (gindex_nat AB_DATA_TYPE_POS) by (uc; lia). cbn [bind].
  replace (u64_of_int (len data - Z.of_nat AB_TAG_SIZE)) with (N.of_nat (length data - AB_TAG_SIZE)).
  2:{ rewrite u64_of_int_small by (unfold len, TWO64; uc; lia). unfold len. unfold_consts. lia. }
  unfold backend_known, nthb.
  destruct (bytes_eqb (firstn AB_TAG_SIZE data) ab_tag && _ && _ && _) eqn:E; cbn [negb]; [|reflexivity].
  apply andb_true_iff in E as [E _]. apply andb_true_iff in E as [E _]. apply andb_true_iff in E as [_ E].
  apply andb_true_iff in E as [E1 E2]. apply N.leb_le in E1, E2.
  assert (u64_add (N.of_nat AB_TAG_SIZE) rest = N.of_nat (AB_TAG_SIZE + N.to_nat rest)) as ->.
  { unfold u64_add, TWO64N. rewrite N.mod_small by (uc; lia). lia. }
  rewrite nat_N_Z. rewrite gslice_to_nat by (uc; lia). cbn [bind res_map zfst fst snd].
  rewrite int_of_u64_small by (uc; lia). rewrite nat_N_Z. reflexivity.
Qed.

Lemma ab_extract_simple_total (data : bytes) : ab_extract data <> Panic.
Proof. apply ab_extract_total. Qed.

(** unconditional totality of the extractor (also for model lists longer than any Go slice) *)
Theorem ab_extract_checked_total (data : bytes) : ab_extract_checked data <> Panic.
Proof.
  unfold ab_extract_checked. unfold zn at 1.
  destruct (Z.ltb_spec (len data) (Z.of_nat AB_MIN_SIZE)) as [Hz|Hz]; [discriminate|].
  unfold len in Hz. unfold zn. rewrite gslice_to_nat by (uc; lia). cbn [bind].
  change (gslice_to (Z.of_nat AB_TAG_SIZE) as_tag) with (Ok ab_tag). cbn [bind].
  rewrite gslice_nat by (uc; lia). cbn [bind].
  change (AB_REST_LEN_POS + AB_REST_LEN_SIZE - AB_REST_LEN_POS)%nat with AB_REST_LEN_SIZE.
  assert (length (sub AB_REST_LEN_POS AB_REST_LEN_SIZE data) = 8%nat) as H8 by (apply sub_length; uc; lia).
  rewrite le_u64_8 by exact H8. cbn [bind].
  pose proof (le_dec_8_lt _ H8) as Hlt. set (rest := le_dec _) in *.
  rewrite (gindex_nat AB_KEK_TYPE_POS) by (uc; lia). cbn [bind].
  rewrite (gindex_nat AB_DATA_TYPE_POS) by (uc; lia). cbn [bind].
  destruct (bytes_eqb (firstn AB_TAG_SIZE data) ab_tag && _ && _ && _) eqn:E; cbn [negb]; [|discriminate].
  apply andb_true_iff in E as [E _]. apply andb_true_iff in E as [E _]. apply andb_true_iff in E as [_ E].
  apply andb_true_iff in E as [E1 E2]. apply N.leb_le in E1, E2.
  assert (Z.of_N (u64_add (N.of_nat AB_TAG_SIZE) rest) <= len data) as Hb.
  { unfold u64_of_int, TWO64 in E2. unfold u64_add, TWO64N, len in *. unfold_consts.
    assert (Z.of_N rest <= (Z.of_nat (length data) - Z.of_nat 4) mod 18446744073709551616) as E3 by lia.
    assert ((Z.of_nat (length data) - Z.of_nat 4) mod 18446744073709551616 <= Z.of_nat (length data) - Z.of_nat 4) as E4
      by (apply Z.mod_le; lia).
    assert ((N.of_nat 4 + rest) mod 18446744073709551616 <= N.of_nat 4 + rest)%N by (apply N.mod_le; lia). lia. }
  rewrite gslice_to_ok by lia. discriminate.
Qed.

Lemma ab_key_len_checked_eq (b : bytes) : (AB_MIN_SIZE <= length b)%nat ->
  ab_key_len_checked b = Ok (Z.of_N (le_dec (sub AB_DEK_LEN_POS AB_DEK_LEN_SIZE b))).
Proof.
  intros H. unfold ab_key_len_checked, zn. rewrite gslice_nat by (uc; lia). cbn [bind].
  change (AB_DEK_LEN_POS + AB_DEK_LEN_SIZE - AB_DEK_LEN_POS)%nat with AB_DEK_LEN_SIZE.
  rewrite le_u16_2 by (apply sub_length; uc; lia). reflexivity.
Qed.

Lemma ab_decrypt_checked_eq C (b : bytes) keys (ctx : bytes) :
  ab_decrypt_checked C b keys ctx = ab_decrypt C b keys ctx.
Proof.
  unfold ab_decrypt_checked, ab_decrypt. unfold zn at 1.
  destruct (Nat.ltb_spec (length b) AB_MIN_SIZE) as [Hl|Hl]; destruct (Z.ltb_spec (len b) (Z.of_nat AB_MIN_SIZE)) as [Hz|Hz];
    unfold len in Hz; try lia; [reflexivity|].
  rewrite ab_key_len_checked_eq by exact Hl. cbn [bind].
  set (v := le_dec _).
  replace (zn AB_MIN_SIZE + Z.of_N v) with (Z.of_nat (AB_MIN_SIZE + N.to_nat v)) by (unfold zn; lia).
  replace (zn AB_ENC_KEY_POS + Z.of_N v) with (Z.of_nat (AB_ENC_KEY_POS + N.to_nat v)) by (unfold zn; lia).
  destruct (Nat.ltb_spec (length b) (AB_MIN_SIZE + N.to_nat v)) as [Hk|Hk];
    destruct (Z.ltb_spec (len b) (Z.of_nat (AB_MIN_SIZE + N.to_nat v))) as [Hy|Hy]; unfold len in Hy; try lia; [reflexivity|].
  unfold zn. rewrite gslice_nat by (uc; lia). cbn [bind].
  replace (AB_ENC_KEY_POS + N.to_nat v - AB_ENC_KEY_POS)%nat with (N.to_nat v) by lia.
  rewrite gslice_from_nat by exact Hk. cbn [bind].
  unfold ab_kek_backend_checked, ab_data_backend_checked, zn.
  rewrite (gindex_nat AB_KEK_TYPE_POS) by (uc; lia). cbn [bind].
  rewrite (gindex_nat AB_DATA_TYPE_POS) by (uc; lia). cbn [bind].
  unfold backend_known, nthb.
  destruct (negb _); [reflexivity|].
  unfold ab_block_key_id_checked, zn.
  destruct (Z.ltb_spec (len b) (Z.of_nat (AB_KEY_ID_POS + AB_KEY_ID_SIZE))) as [Hq|Hq]; [unfold len in Hq; uc; lia|].
  rewrite gslice_nat by (uc; lia). cbn [bind].
  change (AB_KEY_ID_POS + AB_KEY_ID_SIZE - AB_KEY_ID_POS)%nat with AB_KEY_ID_SIZE. reflexivity.
Qed.

Lemma ab_decrypt_simple_total C (b : bytes) keys (ctx : bytes) : ab_decrypt C b keys ctx <> Panic.
Proof.
  unfold ab_decrypt. destruct (Nat.ltb _ _); [discriminate|]. destruct (Nat.ltb _ _); [discriminate|].
  destruct (negb _); [discriminate|]. destruct (ab_find_key _ _ _ _ _); [|discriminate].
  destruct (cell_decrypt _ _ _ _); discriminate.
Qed.

Theorem ab_decrypt_checked_total C (b : bytes) keys (ctx : bytes) : ab_decrypt_checked C b keys ctx <> Panic.
Proof. rewrite ab_decrypt_checked_eq. apply ab_decrypt_simple_total. Qed.

(** accessors: safe exactly under the length their callers establish *)
Lemma ab_key_len_checked_short (b : bytes) :
  (length b < AB_DEK_LEN_POS + AB_DEK_LEN_SIZE)%nat -> ab_key_len_checked b = Panic.
Proof.
  intros H. unfold ab_key_len_checked.
  assert (gslice (zn AB_DEK_LEN_POS) (zn (AB_DEK_LEN_POS + AB_DEK_LEN_SIZE)) b = Panic) as ->; [|reflexivity].
  apply gslice_panic. unfold zn, len. lia.
Qed.

Theorem ab_block_key_id_checked_total (b : bytes) : ab_block_key_id_checked b <> Panic.
Proof.
  unfold ab_block_key_id_checked. destruct (Z.ltb_spec (len b) (zn (AB_KEY_ID_POS + AB_KEY_ID_SIZE))) as [|H]; [discriminate|].
  unfold zn in *. unfold len in H. rewrite gslice_nat by lia. discriminate.
Qed.

(** * serialized container *)
Lemma sc_validate_checked_eq (data : bytes) : sc_validate_checked data = Ok (sc_validate data).
Proof.
  unfold sc_validate_checked, sc_validate. unfold zn at 1.
  destruct (Nat.leb_spec (length data) SC_MIN_SIZE) as [Hl|Hl]; destruct (Z.leb_spec (len data) (Z.of_nat SC_MIN_SIZE)) as [Hz|Hz];
    unfold len in Hz; try lia; [reflexivity|].
  rewrite len_sc_tag. unfold zn. rewrite gslice_to_nat by (uc; lia). cbn [bind].
  destruct (negb _); [reflexivity|].
  rewrite gindex_nat by (uc; lia). cbn [bind]. unfold nthb. destruct (known_envelope _); reflexivity.
Qed.

Lemma sc_validate_length (data : bytes) id : sc_validate data = Some id -> (SC_MIN_SIZE < length data)%nat.
Proof. unfold sc_validate. destruct (Nat.leb_spec (length data) SC_MIN_SIZE); [discriminate| intros _; assumption]. Qed.

Lemma match_old_checked_eq (data : bytes) : go_len data -> match_old_checked data = Ok (match_old data).
Proof.
  intros Hg. unfold match_old_checked, match_old. rewrite as_validate_checked_eq. cbn [bind].
  destruct (as_validate data) eqn:Ev.
  - apply as_validate_length in Ev as [Hl Hd]. rewrite as_data_length_checked_eq by exact Hl. cbn [bind].
    rewrite as_min_z_eq. unfold int_add, zn. rewrite wrap_int_small; [reflexivity|].
    rewrite Hd. unfold go_len, MAXALLOC, len in Hg. unfold TWO63. lia.
  - rewrite ab_extract_checked_eq by exact Hg. destruct (ab_extract data) as [[n b]| |] eqn:E; try reflexivity.
    exfalso. eapply ab_extract_total, E.
Qed.

Lemma match_old_nonneg (data : bytes) id n : match_old data = Some (id, n) -> 0 <= n <= len data.
Proof.
  unfold match_old. destruct (as_validate data) eqn:Ev.
  - apply as_validate_length in Ev as [Hl Hd]. intros [= <- <-]. rewrite Hd. unfold len. uc. lia.
  - destruct (ab_extract data) as [[m b]| |] eqn:E; try discriminate. intros [= <- <-].
    apply ab_extract_bounds in E. unfold len. lia.
Qed.

Lemma envelope_kind_checked_eq (data : bytes) : go_len data -> envelope_kind_checked data = Ok (envelope_kind data).
Proof.
  intros Hg. unfold envelope_kind_checked, envelope_kind. rewrite sc_validate_checked_eq. cbn [bind].
  destruct (sc_validate data); [reflexivity|]. rewrite match_old_checked_eq by exact Hg. cbn [bind].
  destruct (match_old data) as [[id n]|]; reflexivity.
Qed.

Lemma sc_len_field (data : bytes) : (SC_MIN_SIZE < length data)%nat ->
  (do lb <- gslice (len sc_tag) (len sc_tag + zn SC_LEN_SIZE) data; le_u64 lb)
  = Ok (le_dec (sub SC_TAG_SIZE SC_LEN_SIZE data)).
Proof.
  intros H. rewrite len_sc_tag. unfold zn. rewrite <- Nat2Z.inj_add. rewrite gslice_nat by (uc; lia). cbn [bind].
  change (SC_TAG_SIZE + SC_LEN_SIZE - SC_TAG_SIZE)%nat with SC_LEN_SIZE.
  rewrite le_u64_8 by (apply sub_length; uc; lia). reflexivity.
Qed.

Lemma bind_assoc {A B D} (r : res A) (f : A -> res B) (g : B -> res D) :
  bind (bind r f) g = bind r (fun x => bind (f x) g).
Proof. destruct r; reflexivity. Qed.

Lemma sc_internal_length_checked_eq (enc : bytes) :
  (SC_MIN_SIZE < length enc)%nat -> go_len enc ->
  sc_internal_length_checked enc = of_option E_GENERIC (sc_internal_length enc).
Proof.
  intros H Hg. unfold go_len, MAXALLOC, len in Hg. unfold sc_internal_length_checked, sc_internal_length.
  rewrite <- bind_assoc. rewrite sc_len_field by exact H. cbn [bind].
  set (l := le_dec _).
  change (u64_of_int (zn SC_MIN_SIZE)) with (N.of_nat SC_MIN_SIZE).
  replace (u64_of_int (len enc - zn SC_MIN_SIZE)) with (N.of_nat (length enc - SC_MIN_SIZE)).
  2:{ rewrite u64_of_int_small by (unfold len, zn, TWO64; uc; lia). unfold len, zn. uc. lia. }
  unfold u64_sub. change TWO64N with M64N.
  destruct (N.ltb_spec ((l + M64N - N.of_nat SC_MIN_SIZE) mod M64N) 0) as [Hn|Hn]; [lia|]. cbn [orb].
  destruct (N.ltb _ _); reflexivity.
Qed.

(** precondition needed: getSerializedContainerLength panics on data shorter than the length field
    (its only caller runs it after validateSerializedContainer) *)
Lemma sc_internal_length_checked_short (enc : bytes) :
  (length enc < SC_TAG_SIZE + SC_LEN_SIZE)%nat -> sc_internal_length_checked enc = Panic.
Proof.
  intros H. unfold sc_internal_length_checked.
  assert (gslice (len sc_tag) (len sc_tag + zn SC_LEN_SIZE) enc = Panic) as ->; [|reflexivity].
  apply gslice_panic. rewrite len_sc_tag. unfold zn, len. lia.
Qed.

Lemma sc_internal_length_bound (enc : bytes) n :
  sc_internal_length enc = Some n -> (n <= N.of_nat (length enc - SC_MIN_SIZE))%N.
Proof.
  unfold sc_internal_length. set (i := ((_ + _ - _) mod _)%N).
  destruct (N.ltb_spec (N.of_nat (length enc - SC_MIN_SIZE)) i); [discriminate|]. intros [= <-]. assumption.
Qed.

Definition alloc_of (r : res (bytes * byte * nat)) : nat := match r with Ok (_, _, a) => a | _ => O end.

Lemma sc_deserialize_alloc_checked_eq (enc : bytes) : go_len enc ->
  res_map fst (sc_deserialize_alloc_checked enc) = sc_deserialize enc /\
  (alloc_of (sc_deserialize_alloc_checked enc) <= length enc - SC_MIN_SIZE)%nat.
Proof.
  intros Hg. unfold sc_deserialize_alloc_checked, sc_deserialize. rewrite envelope_kind_checked_eq by exact Hg. cbn [bind].
  unfold envelope_kind. destruct (sc_validate enc) as [id|] eqn:Ev.
  2:{ destruct (match_old enc) as [[id n]|]; cbn; split; (reflexivity || lia). }
  pose proof (sc_validate_length _ _ Ev) as Hl.
  rewrite sc_internal_length_checked_eq by assumption.
  destruct (sc_internal_length enc) as [n|] eqn:En; cbn [of_option bind]; [|cbn; split; [reflexivity| lia]].
  apply sc_internal_length_bound in En. unfold go_len, MAXALLOC, len in Hg.
  rewrite int_of_u64_small by lia.
  rewrite gmake_ok by (unfold MAXALLOC; lia). cbn [bind].
  unfold zn. rewrite gslice_from_nat by lia. cbn [bind res_map fst alloc_of].
  replace (Z.to_nat (Z.of_N n)) with (N.to_nat n) by lia.
  rewrite gcopy_make by (rewrite skipn_length; lia). split; [reflexivity| lia].
Qed.

Lemma sc_deserialize_checked_eq (enc : bytes) : go_len enc -> sc_deserialize_checked enc = sc_deserialize enc.
Proof. intros Hg. apply (sc_deserialize_alloc_checked_eq enc Hg). Qed.

Lemma sc_deserialize_simple_total (enc : bytes) : sc_deserialize enc <> Panic.
Proof.
  unfold sc_deserialize. destruct (envelope_kind enc); try discriminate. destruct (sc_internal_length enc); discriminate.
Qed.

Lemma sc_extract_checked_eq (data : bytes) : go_len data -> sc_extract_checked data = res_map zfst (sc_extract data).
Proof.
  intros Hg. unfold sc_extract_checked, sc_extract. rewrite sc_validate_checked_eq. cbn [bind].
  destruct (sc_validate data) as [id|] eqn:Ev.
  - pose proof (sc_validate_length _ _ Ev) as Hl. rewrite <- bind_assoc. rewrite sc_len_field by exact Hl. cbn [bind].
    set (l := le_dec _). unfold go_len, MAXALLOC, len in Hg.
    change (u64_of_int (zn SC_MIN_SIZE)) with (N.of_nat SC_MIN_SIZE).
    change (len data) with (Z.of_nat (length data)). rewrite u64_of_int_nat by (unfold TWO64; lia).
    destruct (N.leb_spec l (N.of_nat SC_MIN_SIZE)) as [H1|H1]; [reflexivity|].
    destruct (N.ltb_spec (N.of_nat (length data)) l) as [H2|H2]; [reflexivity|]. cbn [orb res_map zfst fst snd].
    rewrite int_of_u64_small by lia. unfold zfst. cbn [fst snd]. rewrite N_nat_Z. reflexivity.
  - rewrite match_old_checked_eq by exact Hg. cbn [bind].
    destruct (match_old data) as [[id n]|] eqn:Em; [|reflexivity].
    apply match_old_nonneg in Em. destruct (sc_serialize data id); cbn [bind res_map]; try reflexivity.
    unfold zfst. cbn [fst snd]. rewrite Z2Nat.id by lia. reflexivity.
Qed.

(** * hmac/hash.go *)
Lemma extract_hash_checked_eq (data : bytes) :
  extract_hash_checked data = Ok (option_map fst (extract_hash data)).
Proof.
  unfold extract_hash_checked, extract_hash. destruct data as [|f r]; [reflexivity|].
  destruct (Z.eqb_spec (len (f :: r)) 0) as [H0|H0]; [unfold len in H0; cbn in H0; lia|].
  rewrite (gindex_nat 0) by (cbn; lia). cbn [bind nth].
  destruct (negb (byte_eqb f HMAC_FUNC_SHA256)); [reflexivity|].
  change 1 with (Z.of_nat 1). rewrite gslice_from_nat by (cbn; lia). cbn [bind skipn].
  unfold zn, len.
  destruct (Nat.ltb_spec (length (f :: r)) HMAC_HASH_SIZE) as [Hl|Hl];
    destruct (Z.ltb_spec (Z.of_nat (length r)) (Z.of_nat (HMAC_HASH_SIZE - 1))) as [Hz|Hz]; cbn [length] in Hl; unfold HMAC_HASH_SIZE in *; try lia;
    [reflexivity|].
  change (Z.of_nat (33 - 1) + Z.of_nat 1) with (Z.of_nat 33). rewrite gslice_to_nat by (cbn [length]; lia). reflexivity.
Qed.

Lemma extract_hash_and_data_checked_eq (data : bytes) :
  extract_hash_and_data_checked data = Ok (extract_hash data).
Proof.
  unfold extract_hash_and_data_checked. rewrite extract_hash_checked_eq. cbn [bind].
  unfold extract_hash. destruct data as [|f r]; [reflexivity|].
  destruct (negb _); [reflexivity|].
  destruct (Nat.ltb_spec (length (f :: r)) HMAC_HASH_SIZE) as [Hl|Hl]; [reflexivity|]. cbn [option_map fst].
  unfold len. rewrite firstn_length_le by exact Hl. rewrite gslice_from_nat by exact Hl. reflexivity.
Qed.

(** * handlers: compositions *)
Lemma go_len_le (a b : bytes) : (length a <= length b)%nat -> go_len b -> go_len a.
Proof. unfold go_len, len. lia. Qed.

Lemma sc_deserialize_length (enc i : bytes) id : sc_deserialize enc = Ok (i, id) -> (length i <= length enc)%nat.
Proof.
  unfold sc_deserialize. destruct (envelope_kind enc); try discriminate.
  - destruct (sc_internal_length enc); [|discriminate]. pose proof (skipn_length SC_MIN_SIZE enc) as Hs.
    set (sk := skipn SC_MIN_SIZE enc) in *. intros [= <- _]. rewrite firstn_length. lia.
  - intros [= <- _]. lia.
Qed.

Lemma handler_match_checked_eq id (data : bytes) : go_len data ->
  handler_match_checked id data = Ok (handler_match id data).
Proof.
  intros Hg. unfold handler_match_checked, handler_match. destruct (byte_eqb id ENVELOPE_ID_ACRASTRUCT).
  - apply as_validate_checked_eq.
  - rewrite ab_extract_checked_eq by exact Hg. destruct (ab_extract data) as [[n b]| |] eqn:E; try reflexivity.
    exfalso. eapply ab_extract_total, E.
Qed.

Lemma handler_decrypt_checked_eq C id ks (data : bytes) : go_len data ->
  handler_decrypt_checked C id ks data = handler_decrypt C id ks data.
Proof.
  intros Hg. unfold handler_decrypt_checked, handler_decrypt. destruct (byte_eqb id ENVELOPE_ID_ACRASTRUCT).
  - rewrite as_validate_checked_eq. cbn [bind]. destruct (negb _); [reflexivity|].
    destruct (is_nil _); [reflexivity|]. apply as_decrypt_rotated_checked_eq.
  - rewrite ab_extract_checked_eq by exact Hg. destruct (ab_extract data) as [[n b]| |]; cbn [res_map zfst fst snd]; try reflexivity.
    destruct (is_nil _); [reflexivity|]. rewrite ab_decrypt_checked_eq. reflexivity.
Qed.

Lemma decrypt_with_handler_checked_eq C id ks (data : bytes) : go_len data ->
  decrypt_with_handler_checked C id ks data = decrypt_with_handler C id ks data.
Proof.
  intros Hg. unfold decrypt_with_handler_checked, decrypt_with_handler. rewrite sc_deserialize_checked_eq by exact Hg.
  destruct (sc_deserialize data) as [[i e]| |] eqn:E; cbn [bind]; try reflexivity.
  assert (go_len i) as Hi by (eapply go_len_le; [eapply sc_deserialize_length, E| exact Hg]).
  rewrite handler_match_checked_eq by exact Hi. cbn [bind]. destruct (negb _); [reflexivity|].
  apply handler_decrypt_checked_eq, Hi.
Qed.

Lemma registry_process_checked_eq C ks (data : bytes) : go_len data ->
  registry_process_checked C ks data = registry_process C ks data.
Proof.
  intros Hg. unfold registry_process_checked, registry_process. rewrite envelope_kind_checked_eq by exact Hg. cbn [bind].
  destruct (envelope_kind data); try reflexivity; apply decrypt_with_handler_checked_eq, Hg.
Qed.

(** * EnvelopeDetector.OnColumn *)
Lemma cb_loop_eq cbs (c : bytes) : cb_loop cbs c = run_callbacks cbs c.
Proof.
  induction cbs as [|h rest IH]; cbn [cb_loop run_callbacks]; [reflexivity|].
  destruct (h c) as [p|e|]; [| |reflexivity].
  - destruct (bytes_eqb p c); cbn [negb]; [|reflexivity]. destruct rest; [reflexivity| exact IH].
  - destruct (N.eqb e E_DECRYPTION); [|reflexivity]. destruct rest; [reflexivity| exact IH].
Qed.

Lemma index_of_lt_strict (p s : bytes) j : p <> [] -> index_of p s = Some j -> (j < length s)%nat.
Proof.
  intros Hp H. destruct (index_of_some _ _ _ H) as [Hat _]. pose proof (index_of_lt _ _ _ H) as Hle.
  pose proof (starts_with_nonempty _ _ Hp Hat) as Hne.
  destruct (Nat.eq_dec j (length s)) as [->|]; [|lia]. rewrite skipn_all in Hne. contradiction.
Qed.

Lemma skipn_skipn {A} x y (l : list A) : skipn x (skipn y l) = skipn (x + y) l.
Proof.
  revert l; induction y as [|y IH]; intros l; [rewrite Nat.add_0_r; reflexivity|].
  rewrite Nat.add_succ_r. destruct l; [rewrite !skipn_nil; reflexivity|]. cbn [skipn]. apply IH.
Qed.

Lemma firstn_1_skipn (l : bytes) k : (k < length l)%nat -> firstn 1 (skipn k l) = [nth k l x00].
Proof.
  revert k; induction l as [|a l IH]; intros k H; [cbn in H; lia|].
  destruct k; [reflexivity|]. cbn [skipn nth]. apply IH. cbn in H. lia.
Qed.

(** one iteration in terms of the simple model's functions and a [nat] position *)
Definition oc_step_simple (cbs : list (bytes -> res bytes)) (inb out : bytes) (i : nat) (ch : bool)
  : res (step_res oc_state (bytes * bool)) :=
  let rest := skipn i inb in
  match index_of sc_tag rest with
  | None => Ok (Done (out ++ rest, ch))
  | Some j =>
      let out1 := out ++ firstn j rest in
      let r := skipn j rest in
      match sc_extract r with
      | Panic => Panic
      | Err _ => Ok (Continue (out1 ++ firstn 1 r, Z.of_nat (S (j + i)), ch))
      | Ok (n, c) =>
          match run_callbacks cbs c with
          | Panic => Panic
          | Err e => Err e
          | Ok None => Ok (Continue (out1 ++ firstn 1 r, Z.of_nat (S (j + i)), ch))
          | Ok (Some p) => Ok (Continue (out1 ++ p, Z.of_nat (n + (j + i)), true))
          end
      end
  end.

Lemma oc_step_eq cbs (inb out : bytes) (i : nat) ch :
  go_len inb -> (i <= length inb)%nat ->
  oc_step cbs inb (out, Z.of_nat i, ch) = oc_step_simple cbs inb out i ch.
Proof.
  intros Hg Hi. unfold oc_step, oc_step_simple.
  rewrite gslice_from_nat by exact Hi. cbn [bind].
  destruct (index_of sc_tag (skipn i inb)) as [j|] eqn:Ej; [|reflexivity].
  pose proof (index_of_lt_strict _ _ _ sc_tag_nonempty Ej) as Hj. rewrite skipn_length in Hj.
  unfold zn. rewrite <- Nat2Z.inj_add. rewrite gslice_nat by lia. cbn [bind].
  replace (j + i - i)%nat with j by lia. fold (sub i j inb). unfold sub at 1.
  rewrite gslice_from_nat by lia. cbn [bind].
  rewrite skipn_skipn.
  rewrite sc_extract_checked_eq by (apply go_len_skipn, Hg).
  rewrite (gindex_nat (j + i)) by lia. cbn [bind].
  rewrite firstn_1_skipn by lia.
  destruct (sc_extract (skipn (j + i) inb)) as [[n c]| |]; cbn [res_map zfst fst snd].
  - rewrite cb_loop_eq. destruct (run_callbacks cbs c) as [[p|]| |]; try reflexivity.
    + rewrite <- Nat2Z.inj_add. replace (j + i + n)%nat with (n + (j + i))%nat by lia. reflexivity.
    + replace (Z.of_nat (j + i) + 1) with (Z.of_nat (S (j + i))) by lia. reflexivity.
  - replace (Z.of_nat (j + i) + 1) with (Z.of_nat (S (j + i))) by lia. reflexivity.
  - reflexivity.
Qed.

(** (d) progress of one OnColumn iteration: the absolute index strictly increases and stays in range *)
Lemma oc_step_simple_progress cbs (inb out : bytes) i ch out' i' ch' :
  (i <= length inb)%nat -> oc_step_simple cbs inb out i ch = Ok (Continue (out', i', ch')) ->
  Z.of_nat i < i' <= len inb.
Proof.
  intros Hi. unfold oc_step_simple.
  destruct (index_of sc_tag (skipn i inb)) as [j|] eqn:Ej; [|discriminate].
  pose proof (index_of_lt_strict _ _ _ sc_tag_nonempty Ej) as Hj. rewrite skipn_length in Hj.
  destruct (sc_extract (skipn j (skipn i inb))) as [[n c]| |] eqn:Ee; [| |discriminate].
  - apply sc_extract_bounds in Ee. rewrite !skipn_length in Ee.
    destruct (run_callbacks cbs c) as [[p|]| |]; try discriminate; intros [= _ <- _]; unfold len; lia.
  - intros [= _ <- _]. unfold len. lia.
Qed.

Theorem oc_step_progress cbs (inb out : bytes) i ch out' i' ch' :
  go_len inb -> 0 <= i <= len inb ->
  oc_step cbs inb (out, i, ch) = Ok (Continue (out', i', ch')) -> i < i' <= len inb.
Proof.
  intros Hg Hi H. replace i with (Z.of_nat (Z.to_nat i)) in H |- * by lia.
  unfold len in Hi. rewrite oc_step_eq in H by (assumption || lia).
  eapply oc_step_simple_progress in H; [exact H| lia].
Qed.

Lemma oc_iterate_eq cbs (inb : bytes) : go_len inb -> forall f i out ch, (i <= length inb)%nat ->
  iterate f (oc_step cbs inb) (out, Z.of_nat i, ch) = scan f cbs (skipn i inb) out ch.
Proof.
  intros Hg f. induction f as [|f IH]; intros i out ch Hi; [reflexivity|]. cbn [iterate scan].
  rewrite oc_step_eq by assumption.
  pose proof (oc_step_simple_progress cbs inb out i ch) as Hp. unfold oc_step_simple in *.
  destruct (index_of sc_tag (skipn i inb)) as [j|] eqn:Ej; [|reflexivity].
  rewrite !skipn_skipn in *.
  destruct (sc_extract (skipn (j + i) inb)) as [[n c]| |] eqn:Ee; [| |reflexivity].
  - destruct (run_callbacks cbs c) as [[p|]| |]; try reflexivity.
    + specialize (Hp _ _ _ Hi eq_refl). unfold len in Hp. rewrite IH by lia. rewrite skipn_skipn. reflexivity.
    + specialize (Hp _ _ _ Hi eq_refl). unfold len in Hp. rewrite IH by lia. reflexivity.
  - specialize (Hp _ _ _ Hi eq_refl). unfold len in Hp. rewrite IH by lia. reflexivity.
Qed.

Theorem on_column_checked_eq cbs (inb : bytes) : go_len inb -> on_column_checked cbs inb = on_column cbs inb.
Proof.
  intros Hg. unfold on_column_checked, on_column.
  assert (((len inb <? zn SC_MIN_SIZE) || (Z.of_nat (length cbs) =? 0)) = (Nat.ltb (length inb) SC_MIN_SIZE || is_nil cbs)) as ->.
  { f_equal.
    - unfold len, zn. destruct (Nat.ltb_spec (length inb) SC_MIN_SIZE); destruct (Z.ltb_spec (Z.of_nat (length inb)) (Z.of_nat SC_MIN_SIZE)); lia || reflexivity.
    - destruct cbs; reflexivity. }
  destruct (_ || _); [reflexivity|].
  change 0 with (Z.of_nat 0). rewrite oc_iterate_eq by (assumption || lia). reflexivity.
Qed.

Theorem on_column_checked_total cbs (inb : bytes) :
  go_len inb -> (forall cb x, In cb cbs -> cb x <> Panic) -> on_column_checked cbs inb <> Panic.
Proof. intros Hg H. rewrite on_column_checked_eq by exact Hg. apply on_column_total, H. Qed.

(** the loop never stops because of the fuel: any fuel above the input length gives the same result *)
Theorem on_column_checked_fuel cbs (inb : bytes) f : go_len inb -> (length inb < f)%nat ->
  on_column_checked cbs inb =
  (if (len inb <? zn SC_MIN_SIZE) || (Z.of_nat (length cbs) =? 0) then Ok (inb, false)
   else iterate f (oc_step cbs inb) ([], 0, false)).
Proof.
  intros Hg Hf. unfold on_column_checked. destruct (_ || _); [reflexivity|].
  apply (iterate_fuel (oc_step cbs inb) (fun st => 0 <= snd (fst st) <= len inb)
           (fun st => Z.to_nat (len inb - snd (fst st)))).
  - intros [[o i] c] [[o' i'] c'] Hi Hs. cbn [fst snd] in *. apply oc_step_progress in Hs; [|assumption|assumption]. lia.
  - cbn [fst snd]. pose proof (len_nonneg inb). lia.
  - cbn [fst snd]. unfold len. lia.
  - cbn [fst snd]. unfold len. lia.
Qed.

(** (c) output bound.  If whatever the callbacks put in place of a candidate is at most [K] times
    as long as the bytes the candidate covers, the output is at most [K] times the input. *)
Section OutBound.
Variable cbs : list (bytes -> res bytes).
Variable K : nat.
Hypothesis HK : (1 <= K)%nat.
Hypothesis Hcb : forall (data : bytes) n c p, sc_extract data = Ok (n, c) -> run_callbacks cbs c = Ok (Some p) ->
  (length p <= K * n)%nat.

Lemma scan_out_bound f : forall (rest out : bytes) ch o c,
  scan f cbs rest out ch = Ok (o, c) -> (length o <= length out + K * length rest)%nat.
Proof.
  induction f as [|f IH]; intros rest out ch o c; cbn [scan]; [discriminate|].
  destruct (index_of sc_tag rest) as [j|] eqn:Ej.
  2:{ intros [= <- _]. rewrite app_length. nia. }
  pose proof (index_of_lt_strict _ _ _ sc_tag_nonempty Ej) as Hj.
  assert (length (firstn j rest) = j) as Hf by (rewrite firstn_length; lia).
  assert (length (skipn j rest) = length rest - j)%nat as Hs by apply skipn_length.
  assert (Hone : forall o c, scan f cbs (skipn 1 (skipn j rest)) ((out ++ firstn j rest) ++ firstn 1 (skipn j rest)) ch = Ok (o, c) ->
                 (length o <= length out + K * length rest)%nat).
  { intros o0 c0 H. apply IH in H. rewrite !app_length, Hf, skipn_length, Hs in H.
    rewrite firstn_length, Hs in H. nia. }
  destruct (sc_extract (skipn j rest)) as [[n cont]| |] eqn:Ee; [|apply Hone|discriminate].
  destruct (run_callbacks cbs cont) as [[p|]| |] eqn:Er; try discriminate; [|apply Hone].
  intros H. apply IH in H. pose proof (Hcb _ _ _ _ Ee Er) as Hp. apply sc_extract_bounds in Ee.
  rewrite !app_length, Hf, skipn_length, Hs in H. nia.
Qed.

Theorem on_column_checked_out_bound (inb out : bytes) ch :
  go_len inb -> on_column_checked cbs inb = Ok (out, ch) -> (length out <= K * length inb)%nat.
Proof.
  intros Hg. rewrite on_column_checked_eq by exact Hg. unfold on_column.
  destruct (_ || _); [intros [= <- _]; nia|]. intros H. apply scan_out_bound in H. cbn [length] in H. lia.
Qed.
End OutBound.

(** * ProcessAcraStructs / ProcessAcraBlocks *)
Lemma gslice_cases a b (s : bytes) : 0 <= a -> a <= b -> b <= len s ->
  exists r, gslice a b s = Ok r /\ len r = b - a.
Proof.
  intros H1 H2 H3. destruct (gslice a b s) as [r|e|] eqn:E.
  - exists r. split; [reflexivity| eapply gslice_length, E].
  - exfalso. eapply gslice_never_err, E.
  - exfalso. apply gslice_panic in E. lia.
Qed.
Lemma gslice_to_cases b (s : bytes) : 0 <= b <= len s -> exists r, gslice_to b s = Ok r /\ len r = b.
Proof. intros H. destruct (gslice_cases 0 b s) as (r & E & L); try lia. exists r. split; [exact E| lia]. Qed.
Lemma gslice_from_cases a (s : bytes) : 0 <= a <= len s ->
  exists r, gslice_from a s = Ok r /\ len r = len s - a /\ r = skipn (Z.to_nat a) s.
Proof.
  intros H. exists (skipn (Z.to_nat a) s). rewrite gslice_from_ok by lia. split; [reflexivity|].
  split; [|reflexivity]. unfold len. rewrite skipn_length. unfold len in H. lia.
Qed.
Lemma gindex_cases i (s : bytes) : 0 <= i < len s -> exists b, gindex i s = Ok b.
Proof. intros H. eexists. apply gindex_ok; lia. Qed.

Definition pas_inv (inb : bytes) (st : pas_state) : Prop :=
  let '(outb, i, oi) := st in 0 <= i <= len inb /\ 0 <= oi <= len outb.

(** one iteration never panics, keeps the invariant and strictly advances the absolute index *)
Definition step_ok (inb : bytes) (i : Z) (r : res (step_res pas_state bytes)) : Prop :=
  match r with
  | Panic => False
  | Ok (Continue st') => pas_inv inb st' /\ i < snd (fst st')
  | _ => True
  end.

Lemma as_tag_nonempty : as_tag <> []. Proof. discriminate. Qed.
Lemma ab_tag_nonempty : ab_tag <> []. Proof. discriminate. Qed.

Lemma pas_step_ok proc (inb : bytes) st :
  (forall x, proc x <> Panic) -> pas_inv inb st ->
  step_ok inb (snd (fst st)) (pas_step proc inb st).
Proof.
  intros Hproc. destruct st as [[outb i] oi]. intros [Hi Ho]. cbn [fst snd]. unfold pas_step.
  destruct (gslice_from_cases i inb Hi) as (rest & -> & Lr & Er). cbn [bind].
  destruct (index_of as_tag rest) as [j|] eqn:Ej.
  2:{ destruct (gslice_to_cases oi outb Ho) as (o & -> & Lo). cbn [bind].
      cbn. exact I. }
  pose proof (index_of_lt_strict _ _ _ as_tag_nonempty Ej) as Hj.
  assert (0 <= zn j < len rest) as Hj' by (unfold zn, len; lia). clear Hj.
  destruct (gslice_to_cases oi outb Ho) as (o & -> & Lo). cbn [bind].
  destruct (gslice_cases i (zn j + i) inb) as (mid & -> & Lm); try lia. cbn [bind].
  set (bti := zn j + i) in *.
  assert (0 <= bti < len inb) as Hb by (unfold bti; lia).
  destruct (gslice_from_cases bti inb ltac:(lia)) as (r1 & E1 & L1 & _). rewrite E1. cbn [bind].
  assert (len (o ++ mid) = oi + (bti - i)) as Lom by (rewrite len_app; lia).
  assert (Hbyte : step_ok inb i
     (do o2 <- gslice_to (oi + (bti - i)) (o ++ mid); do b <- gindex bti inb;
      Ok (Continue (o2 ++ [b], bti + 1, oi + (bti - i) + 1)))).
  { destruct (gslice_to_cases (oi + (bti - i)) (o ++ mid) ltac:(lia)) as (o2 & -> & L2). cbn [bind].
    destruct (gindex_cases bti inb Hb) as (b & ->). cbn [bind step_ok pas_inv fst snd].
    rewrite len_app. change (len [b]) with 1. lia. }
  destruct (Z.ltb_spec as_min_z (len r1)) as [Hlong|Hshort]; [|cbn [bind]; exact Hbyte].
  cbn [bind].
  rewrite as_data_length_checked_eq by (rewrite as_min_z_eq in Hlong; unfold zn, len in Hlong; lia). cbn [bind].
  set (asl := int_add _ _).
  destruct ((0 <? asl) && (asl <=? len r1)) eqn:Ec; [|cbn [bind]; exact Hbyte].
  apply andb_true_iff in Ec as [Ec1 Ec2]. apply Z.ltb_lt in Ec1. apply Z.leb_le in Ec2.
  destruct (gslice_cases bti (bti + asl) inb) as (s & -> & Ls); try lia. cbn [bind].
  pose proof (Hproc s) as Hp. destruct (proc s) as [pd|e|]; [|exact I|contradiction].
  destruct (gslice_to_cases (oi + (bti - i)) (o ++ mid) ltac:(lia)) as (o2 & -> & L2). cbn [bind step_ok pas_inv fst snd].
  rewrite len_app. pose proof (len_nonneg pd). lia.
Qed.

Lemma ab_extract_checked_bounds (data : bytes) n blk : go_len data ->
  ab_extract_checked data = Ok (n, blk) -> zn AB_MIN_SIZE <= n <= len data.
Proof.
  intros Hg. rewrite ab_extract_checked_eq by exact Hg.
  destruct (ab_extract data) as [[m b]| |] eqn:E; try discriminate. cbn [res_map zfst fst snd]. intros [= <- _].
  apply ab_extract_bounds in E. unfold zn, len. lia.
Qed.

Lemma pab_step_ok proc (inb : bytes) st :
  go_len inb -> (forall x, proc x <> Panic) -> pas_inv inb st ->
  step_ok inb (snd (fst st)) (pab_step proc inb st).
Proof.
  intros Hg Hproc. destruct st as [[outb i] oi]. intros [Hi Ho]. cbn [fst snd]. unfold pab_step.
  destruct (gslice_from_cases i inb Hi) as (rest & -> & Lr & Er). cbn [bind].
  destruct (index_of ab_tag rest) as [j|] eqn:Ej.
  2:{ destruct (gslice_to_cases oi outb Ho) as (o & -> & Lo). cbn [bind].
      cbn. exact I. }
  pose proof (index_of_lt_strict _ _ _ ab_tag_nonempty Ej) as Hj.
  assert (0 <= zn j < len rest) as Hj' by (unfold zn, len; lia). clear Hj.
  destruct (gslice_to_cases oi outb Ho) as (o & -> & Lo). cbn [bind].
  destruct (gslice_cases i (zn j + i) inb) as (mid & -> & Lm); try lia. cbn [bind].
  set (bti := zn j + i) in *.
  assert (0 <= bti < len inb) as Hb by (unfold bti; lia).
  destruct (gslice_from_cases bti inb ltac:(lia)) as (r1 & E1 & L1 & Er1). rewrite E1. cbn [bind].
  assert (len (o ++ mid) = oi + (bti - i)) as Lom by (rewrite len_app; lia).
  assert (Hbyte : step_ok inb i
     (do o2 <- gslice_to (oi + (bti - i)) (o ++ mid); do b <- gindex bti inb;
      Ok (Continue (o2 ++ [b], bti + 1, oi + (bti - i) + 1)))).
  { destruct (gslice_to_cases (oi + (bti - i)) (o ++ mid) ltac:(lia)) as (o2 & -> & L2). cbn [bind].
    destruct (gindex_cases bti inb Hb) as (b & ->). cbn [bind step_ok pas_inv fst snd].
    rewrite len_app. change (len [b]) with 1. lia. }
  destruct (Z.ltb_spec (zn AB_MIN_SIZE) (len r1)) as [Hlong|Hshort]; [|cbn [bind]; exact Hbyte].
  cbn [bind].
  assert (go_len r1) as Hg1 by (rewrite Er1; apply go_len_skipn, Hg).
  pose proof (ab_extract_checked_total r1) as Ht. pose proof (ab_extract_checked_bounds r1) as Hbd.
  destruct (ab_extract_checked r1) as [[n blk]|e|]; [|cbn [bind]; exact Hbyte|contradiction]. cbn [bind].
  specialize (Hbd n blk Hg1 eq_refl). unfold zn in Hbd.
  pose proof (Hproc blk) as Hp. destruct (proc blk) as [pd|e|]; [|exact I|contradiction].
  destruct (gslice_to_cases (oi + (bti - i)) (o ++ mid) ltac:(lia)) as (o2 & -> & L2). cbn [bind step_ok pas_inv fst snd].
  rewrite len_app. pose proof (len_nonneg pd). unfold AB_MIN_SIZE in Hbd. lia.
Qed.

Section ProcLoops.
Variable proc : bytes -> res bytes.
Hypothesis Hproc : forall x, proc x <> Panic.

Theorem pas_step_progress (inb : bytes) outb i oi outb' i' oi' :
  0 <= i <= len inb -> 0 <= oi <= len outb ->
  pas_step proc inb (outb, i, oi) = Ok (Continue (outb', i', oi')) -> i < i' <= len inb.
Proof.
  intros Hi Ho H. pose proof (pas_step_ok proc inb (outb, i, oi) Hproc (conj Hi Ho)) as Hs.
  rewrite H in Hs. cbn in Hs. lia.
Qed.

Theorem process_acrastructs_checked_total (inb outb : bytes) : process_acrastructs_checked proc inb outb <> Panic.
Proof.
  unfold process_acrastructs_checked. destruct (_ <? _); [discriminate|].
  apply (iterate_total (pas_step proc inb) (pas_inv inb)).
  - intros st Hst. pose proof (pas_step_ok proc inb st Hproc Hst) as Hs. destruct (pas_step proc inb st); [discriminate|discriminate|contradiction].
  - intros st st' Hst E. pose proof (pas_step_ok proc inb st Hproc Hst) as Hs. rewrite E in Hs. apply Hs.
  - cbn. pose proof (len_nonneg inb). pose proof (len_nonneg outb). lia.
Qed.

Theorem process_acrastructs_checked_fuel (inb outb : bytes) f : (length inb < f)%nat ->
  process_acrastructs_checked proc inb outb =
  (if len inb <? as_min_z then Ok (gcopy outb inb) else iterate f (pas_step proc inb) (outb, 0, 0)).
Proof.
  intros Hf. unfold process_acrastructs_checked. destruct (_ <? _); [reflexivity|].
  apply (iterate_fuel (pas_step proc inb) (pas_inv inb) (fun st => Z.to_nat (len inb - snd (fst st)))).
  - intros st st' Hst E. pose proof (pas_step_ok proc inb st Hproc Hst) as Hs. rewrite E in Hs. destruct Hs as [Hi Hlt].
    split; [exact Hi|]. destruct st' as [[o' i'] oi']. destruct st as [[o i] oi]. cbn [fst snd pas_inv] in *. lia.
  - cbn. pose proof (len_nonneg inb). pose proof (len_nonneg outb). lia.
  - cbn [fst snd]. unfold len. lia.
  - cbn [fst snd]. unfold len. lia.
Qed.

Theorem pab_step_progress (inb : bytes) outb i oi outb' i' oi' :
  go_len inb -> 0 <= i <= len inb -> 0 <= oi <= len outb ->
  pab_step proc inb (outb, i, oi) = Ok (Continue (outb', i', oi')) -> i < i' <= len inb.
Proof.
  intros Hg Hi Ho H. pose proof (pab_step_ok proc inb (outb, i, oi) Hg Hproc (conj Hi Ho)) as Hs.
  rewrite H in Hs. cbn in Hs. lia.
Qed.

Theorem process_acrablocks_checked_total (inb outb : bytes) : go_len inb -> process_acrablocks_checked proc inb outb <> Panic.
Proof.
  intros Hg. unfold process_acrablocks_checked. destruct (_ <? _); [discriminate|].
  apply (iterate_total (pab_step proc inb) (pas_inv inb)).
  - intros st Hst. pose proof (pab_step_ok proc inb st Hg Hproc Hst) as Hs. destruct (pab_step proc inb st); [discriminate|discriminate|contradiction].
  - intros st st' Hst E. pose proof (pab_step_ok proc inb st Hg Hproc Hst) as Hs. rewrite E in Hs. apply Hs.
  - cbn. pose proof (len_nonneg inb). pose proof (len_nonneg outb). lia.
Qed.

Theorem process_acrablocks_checked_fuel (inb outb : bytes) f : go_len inb -> (length inb < f)%nat ->
  process_acrablocks_checked proc inb outb =
  (if len inb <? zn AB_MIN_SIZE then Ok (gcopy outb inb) else iterate f (pab_step proc inb) (outb, 0, 0)).
Proof.
  intros Hg Hf. unfold process_acrablocks_checked. destruct (_ <? _); [reflexivity|].
  apply (iterate_fuel (pab_step proc inb) (pas_inv inb) (fun st => Z.to_nat (len inb - snd (fst st)))).
  - intros st st' Hst E. pose proof (pab_step_ok proc inb st Hg Hproc Hst) as Hs. rewrite E in Hs. destruct Hs as [Hi Hlt].
    split; [exact Hi|]. destruct st' as [[o' i'] oi']. destruct st as [[o i] oi]. cbn [fst snd pas_inv] in *. lia.
  - cbn. pose proof (len_nonneg inb). pose proof (len_nonneg outb). lia.
  - cbn [fst snd]. unfold len. lia.
  - cbn [fst snd]. unfold len. lia.
Qed.
End ProcLoops.

(** * totality corollaries (from the equalities: the simple model has no panicking operation) *)
Theorem as_data_length_checked_total (data : bytes) : (as_min <= length data)%nat -> as_data_length_checked data <> Panic.
Proof. intros H. rewrite as_data_length_checked_eq by exact H. discriminate. Qed.
Theorem as_validate_checked_total (data : bytes) : as_validate_checked data <> Panic.
Proof. rewrite as_validate_checked_eq. discriminate. Qed.
Theorem as_decrypt_checked_total C (data priv ctx : bytes) : as_decrypt_checked C data priv ctx <> Panic.
Proof. rewrite as_decrypt_checked_eq. apply as_decrypt_simple_total. Qed.
Theorem as_decrypt_rotated_checked_total C (data : bytes) privs (ctx : bytes) : as_decrypt_rotated_checked C data privs ctx <> Panic.
Proof. rewrite as_decrypt_rotated_checked_eq. apply as_decrypt_rotated_simple_total. Qed.
Theorem ab_key_len_checked_total (b : bytes) : (AB_MIN_SIZE <= length b)%nat -> ab_key_len_checked b <> Panic.
Proof. intros H. rewrite ab_key_len_checked_eq by exact H. discriminate. Qed.
Theorem sc_validate_checked_total (data : bytes) : sc_validate_checked data <> Panic.
Proof. rewrite sc_validate_checked_eq. discriminate. Qed.
Theorem match_old_checked_total (data : bytes) : match_old_checked data <> Panic.
Proof.
  unfold match_old_checked. rewrite as_validate_checked_eq. cbn [bind]. destruct (as_validate data) eqn:Ev.
  - apply as_validate_length in Ev as [Hl _]. rewrite as_data_length_checked_eq by exact Hl. discriminate.
  - pose proof (ab_extract_checked_total data). destruct (ab_extract_checked data) as [[n b]| |]; try discriminate. contradiction.
Qed.
Theorem envelope_kind_checked_total (data : bytes) : envelope_kind_checked data <> Panic.
Proof.
  unfold envelope_kind_checked. rewrite sc_validate_checked_eq. cbn [bind]. destruct (sc_validate data); [discriminate|].
  pose proof (match_old_checked_total data). destruct (match_old_checked data) as [[[id n]|]| |]; try discriminate. contradiction.
Qed.
Theorem sc_internal_length_checked_total (enc : bytes) : (SC_MIN_SIZE < length enc)%nat -> go_len enc ->
  sc_internal_length_checked enc <> Panic.
Proof. intros H Hg. rewrite sc_internal_length_checked_eq by assumption. destruct (sc_internal_length enc); discriminate. Qed.
Theorem sc_deserialize_checked_total (enc : bytes) : go_len enc -> sc_deserialize_checked enc <> Panic.
Proof. intros Hg. rewrite sc_deserialize_checked_eq by exact Hg. apply sc_deserialize_simple_total. Qed.
Theorem sc_extract_checked_total (data : bytes) : go_len data -> sc_extract_checked data <> Panic.
Proof.
  intros Hg. rewrite sc_extract_checked_eq by exact Hg. pose proof (sc_extract_total data).
  destruct (sc_extract data); try discriminate. contradiction.
Qed.
Theorem extract_hash_checked_total (data : bytes) : extract_hash_checked data <> Panic.
Proof. rewrite extract_hash_checked_eq. discriminate. Qed.
Theorem extract_hash_and_data_checked_total (data : bytes) : extract_hash_and_data_checked data <> Panic.
Proof. rewrite extract_hash_and_data_checked_eq. discriminate. Qed.

(** (c) allocation bound of DeserializeEncryptedData *)
Theorem sc_deserialize_alloc_bound (enc i : bytes) id a : go_len enc ->
  sc_deserialize_alloc_checked enc = Ok (i, id, a) -> (a <= length enc)%nat.
Proof.
  intros Hg H. pose proof (proj2 (sc_deserialize_alloc_checked_eq enc Hg)) as Hb. rewrite H in Hb. cbn in Hb. lia.
Qed.

(** handlers *)
Lemma handler_decrypt_simple_total C id ks (data : bytes) : handler_decrypt C id ks data <> Panic.
Proof.
  unfold handler_decrypt. destruct (byte_eqb id ENVELOPE_ID_ACRASTRUCT).
  - destruct (negb _); [discriminate|]. destruct (is_nil _); [discriminate|]. apply as_decrypt_rotated_simple_total.
  - pose proof (ab_extract_total data). destruct (ab_extract data) as [[n b]| |]; try discriminate; [|contradiction].
    destruct (is_nil _); [discriminate|]. pose proof (ab_decrypt_simple_total C b (ks_syms ks) []).
    destruct (ab_decrypt C b (ks_syms ks) []); try discriminate. contradiction.
Qed.
Lemma decrypt_with_handler_simple_total C id ks (data : bytes) : decrypt_with_handler C id ks data <> Panic.
Proof.
  unfold decrypt_with_handler. pose proof (sc_deserialize_simple_total data).
  destruct (sc_deserialize data) as [[i e]| |]; cbn [bind]; try discriminate; [|contradiction].
  destruct (negb _); [discriminate|]. apply handler_decrypt_simple_total.
Qed.
Lemma registry_process_simple_total C ks (data : bytes) : registry_process C ks data <> Panic.
Proof. unfold registry_process. destruct (envelope_kind data); try discriminate; apply decrypt_with_handler_simple_total. Qed.
Theorem decrypt_with_handler_checked_total C id ks (data : bytes) : go_len data -> decrypt_with_handler_checked C id ks data <> Panic.
Proof. intros Hg. rewrite decrypt_with_handler_checked_eq by exact Hg. apply decrypt_with_handler_simple_total. Qed.
Theorem registry_process_checked_total C ks (data : bytes) : go_len data -> registry_process_checked C ks data <> Panic.
Proof. intros Hg. rewrite registry_process_checked_eq by exact Hg. apply registry_process_simple_total. Qed.

(** the real callback list of the column decryptor never panics on Go-sized containers; on_column with it is total *)
Theorem on_column_checked_registry_total C ks (inb : bytes) : go_len inb ->
  on_column_checked [decrypt_handler (registry_process C ks)] inb <> Panic.
Proof.
  intros Hg. apply on_column_checked_total; [exact Hg|]. intros cb x [<-|[]]. unfold decrypt_handler.
  pose proof (registry_process_simple_total C ks x). destruct (registry_process C ks x); try discriminate. contradiction.
Qed.
