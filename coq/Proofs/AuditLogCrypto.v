(** SHA-256 / HMAC facts used by the audit-log proofs.  [sha256] is only unfolded to show that its
    output has 32 bytes; [hmac_sha256] is unfolded into its two [sha256] calls so that an HMAC
    "collision" under 32-byte keys is turned into an explicit SHA-256 collision.  Nothing is assumed
    about either function. *)
From Acra Require Import Lib.Bytes Lib.Outcome Lib.Sha256.

(** two distinct inputs with equal SHA-256 output *)
Definition sha_collision : Prop := exists a b : bytes, a <> b /\ sha256 a = sha256 b.

Lemma bytes_eq_dec (a b : bytes) : {a = b} + {a <> b}.
Proof.
  destruct (bytes_eqb a b) eqn:E; [left; apply bytes_eqb_eq; exact E| right; apply bytes_eqb_neq; exact E].
Qed.

Lemma sha_inj_or_collision (a b : bytes) : sha256 a = sha256 b -> a = b \/ sha_collision.
Proof.
  intros H. destruct (bytes_eq_dec a b) as [E|E]; [left; exact E| right; exists a, b; split; assumption].
Qed.

(** ** |sha256 m| = 32 *)
Lemma round_len st kw : length st = 8 -> length (round st kw) = 8.
Proof.
  intros H. do 8 (destruct st as [|? st]; [discriminate H|]). destruct st; [reflexivity| discriminate H].
Qed.

Lemma fold_round_len kws : forall st, length st = 8 -> length (fold_left round kws st) = 8.
Proof. induction kws as [|k kws IH]; intros st H; cbn [fold_left]; [exact H| apply IH, round_len, H]. Qed.

Lemma compress_len h b : length h = 8 -> length (compress h b) = 8.
Proof.
  intros H. unfold compress. rewrite map_length, combine_length, fold_round_len by exact H. rewrite H. reflexivity.
Qed.

Lemma blocks_len n : forall h bs, length h = 8 -> length (blocks h bs n) = 8.
Proof. induction n as [|n IH]; intros h bs H; cbn [blocks]; [exact H| apply IH, compress_len, H]. Qed.

Lemma flat_be4_len (l : list N) : length (flat_map (be_enc 4) l) = 4 * length l.
Proof.
  induction l as [|x l IH]; cbn [flat_map length]; [reflexivity|].
  rewrite app_length, be_enc_length, IH. lia.
Qed.

Lemma sha256_length (m : bytes) : length (sha256 m) = 32.
Proof. unfold sha256. rewrite flat_be4_len, blocks_len by reflexivity. reflexivity. Qed.

Lemma hmac_length (k m : bytes) : length (hmac_sha256 k m) = 32.
Proof. unfold hmac_sha256. apply sha256_length. Qed.

(** ** HMAC under 32-byte keys is injective in (key, message) up to an explicit SHA-256 collision *)
Lemma app_eq_len {A} (a a' b b' : list A) : length a = length a' -> a ++ b = a' ++ b' -> a = a' /\ b = b'.
Proof.
  revert a'; induction a as [|x a IH]; intros [|y a'] HL H; cbn in *; try discriminate.
  - split; [reflexivity| exact H].
  - inversion H; subst. destruct (IH a') as [-> ->]; [lia| assumption|]. split; reflexivity.
Qed.

Lemma map_bxor_inj (c : byte) (a b : bytes) : map (fun x => bxor x c) a = map (fun x => bxor x c) b -> a = b.
Proof.
  revert b; induction a as [|x a IH]; intros [|y b] H; cbn in *; try discriminate; [reflexivity|].
  inversion H as [[H1 H2]]. f_equal; [| apply IH, H2].
  rewrite <- (bxor_involutive x c), <- (bxor_involutive y c), H1. reflexivity.
Qed.

Lemma hmac_block_32 (k : bytes) : length k = 32 -> hmac_block k = k ++ repeat_bytes x00 32.
Proof. intros H. unfold hmac_block. rewrite H. change (64 <? 32) with false. cbv iota. rewrite H. reflexivity. Qed.

Lemma hmac_inj_or_collision (k1 k2 m1 m2 : bytes) :
  length k1 = 32 -> length k2 = 32 ->
  hmac_sha256 k1 m1 = hmac_sha256 k2 m2 -> (k1 = k2 /\ m1 = m2) \/ sha_collision.
Proof.
  intros L1 L2 H. unfold hmac_sha256 in H. rewrite !hmac_block_32 in H by assumption.
  apply sha_inj_or_collision in H as [H|H]; [|right; exact H].
  apply app_eq_len in H as [Ho Hi].
  2:{ rewrite !map_length, !app_length, L1, L2. reflexivity. }
  apply map_bxor_inj in Ho. apply app_inv_tail in Ho. subst k2.
  apply sha_inj_or_collision in Hi as [Hi|Hi]; [|right; exact Hi].
  apply app_inv_head in Hi. left. split; [reflexivity| exact Hi].
Qed.

(** aggregated check = sha256 (hmac …) *)
Lemma agg_inj_or_collision (k1 k2 m1 m2 : bytes) :
  length k1 = 32 -> length k2 = 32 ->
  sha256 (hmac_sha256 k1 m1) = sha256 (hmac_sha256 k2 m2) -> (k1 = k2 /\ m1 = m2) \/ sha_collision.
Proof.
  intros L1 L2 H. apply sha_inj_or_collision in H as [H|H]; [|right; exact H].
  apply hmac_inj_or_collision; assumption.
Qed.
