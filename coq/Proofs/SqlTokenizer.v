(** C14, SQL tokenizer: cursor invariant, totality (no Panic), progress and output bounds of every scanner
    of Model/SqlTokenizer.v, for ALL byte strings and all states satisfying the invariant. *)
From Coq Require Import List NArith ZArith Bool Lia.
From Coq Require Import ZifyN ZifyNat ZifyBool.
From Acra Require Import Lib.Bytes Lib.Outcome Lib.GoSlice Gen.Prec Gen.SqlKeywords Model.SqlTokenizer.
Import ListNotations.
Local Open Scope Z_scope.

(** * weakest-precondition style reasoning on [res] *)
Definition wp {A} (r : res A) (Q : A -> Prop) : Prop :=
  match r with Ok a => Q a | _ => False end.

Lemma wp_bind {A B} (r : res A) (k : A -> res B) (Q : B -> Prop) :
  wp r (fun a => wp (k a) Q) -> wp (bind r k) Q.
Proof. destruct r; cbn; auto. Qed.

Lemma wp_mono {A} (r : res A) (P Q : A -> Prop) :
  wp r P -> (forall a, P a -> Q a) -> wp r Q.
Proof. destruct r; cbn; auto. Qed.

Lemma wp_ok {A} (a : A) (Q : A -> Prop) : Q a -> wp (Ok a) Q.
Proof. auto. Qed.

Lemma wp_elim {A} (r : res A) (Q : A -> Prop) : wp r Q -> exists a, r = Ok a /\ Q a.
Proof. destruct r; cbn; intros H; try contradiction. eauto. Qed.

Lemma wp_intro {A} (r : res A) (Q : A -> Prop) a : r = Ok a -> Q a -> wp r Q.
Proof. intros -> H. exact H. Qed.

Lemma wp_not_panic {A} (r : res A) (Q : A -> Prop) : wp r Q -> r <> Panic.
Proof. destruct r; cbn; intros H; try contradiction; discriminate. Qed.

(** * the cursor invariant of one tokenizer *)
Definition frame (t : tkn) := (t_buf t, t_pvi t, t_feof t, t_multi t, t_dia t, t_ddef t, t_special t).

Definition inv1 (t : tkn) : Prop :=
  0 <= t_bufpos t <= len (t_buf t) /\
  (t_last t = c_eof -> t_bufpos t = len (t_buf t) /\ t_pos t = t_bufpos t + 1) /\
  (t_last t <> c_eof -> t_pos t = t_bufpos t) /\
  (t_pos t = 0 -> t_last t = 0%N) /\
  0 <= t_pvi t <= t_pos t.

Lemma inv1_pos_range t : inv1 t -> 0 <= t_pos t <= len (t_buf t) + 1.
Proof.
  intros (Hb & He & Hn & _). destruct (N.eq_dec (t_last t) c_eof) as [E|E].
  - destruct (He E). lia.
  - rewrite (Hn E). lia.
Qed.

Lemma inv1_fresh d dd sql : inv1 (fresh d dd sql).
Proof.
  unfold inv1, fresh; cbn. pose proof (len_nonneg sql).
  split; [lia|]. split; [intros E; discriminate E|]. split; [reflexivity|]. split; [reflexivity|lia].
Qed.

Lemma c_eof_val : c_eof = 256%N. Proof. reflexivity. Qed.
Lemma is_eof_true c : is_eof c = true <-> c = c_eof.
Proof. unfold is_eof. apply N.eqb_eq. Qed.
Lemma is_eof_false c : is_eof c = false <-> c <> c_eof.
Proof. unfold is_eof. apply N.eqb_neq. Qed.

(** * next *)
Definition NextPost (t t' : tkn) : Prop :=
  inv1 t' /\ frame t' = frame t /\ t_pos t <= t_pos t' <= t_pos t + 1 /\ 1 <= t_pos t' /\
  (t_last t <> c_eof -> t_pos t' = t_pos t + 1) /\
  (t_last t = c_eof -> t' = t).

Ltac fin := repeat split; auto; try lia; try congruence;
  try (intros; first [contradiction | lia | congruence]).

Lemma next_spec t : inv1 t -> wp (next t) (NextPost t).
Proof.
  intros Hi. pose proof (inv1_pos_range t Hi) as Hr. destruct Hi as (Hb & He & Hn & Hz & Hp).
  unfold next. destruct (Z.leb_spec (len (t_buf t)) (t_bufpos t)) as [Hge|Hlt].
  - destruct (is_eof (t_last t)) eqn:E.
    + apply is_eof_true in E. destruct (He E) as [E1 E2].
      cbn. unfold NextPost, inv1. fin.
    + apply is_eof_false in E. pose proof (Hn E) as E2.
      cbn. unfold NextPost, inv1, with_cur, frame; cbn. fin.
  - assert (E : t_last t <> c_eof) by (intros C; destruct (He C); lia).
    pose proof (Hn E) as E2.
    rewrite gindex_ok by lia. cbn. unfold NextPost, inv1, with_cur, frame; cbn.
    assert (Hb2 : b2n (nth (Z.to_nat (t_bufpos t)) (t_buf t) x00) <> c_eof).
    { pose proof (b2n_lt (nth (Z.to_nat (t_bufpos t)) (t_buf t) x00)). rewrite c_eof_val. lia. }
    fin.
Qed.

(** fuel that is enough for any loop whose every turn advances Position *)
Definition fuel_ok (fuel : nat) (t : tkn) : Prop := len (t_buf t) + 1 - t_pos t < Z.of_nat fuel.

Lemma fuel_ok_next fuel t t' :
  fuel_ok (S fuel) t -> t_buf t' = t_buf t -> t_pos t' = t_pos t + 1 -> fuel_ok fuel t'.
Proof. unfold fuel_ok. intros H Eb Ep. rewrite Eb, Ep. lia. Qed.

Lemma fuel_ok_mono fuel t t' :
  fuel_ok fuel t -> t_buf t' = t_buf t -> t_pos t <= t_pos t' -> fuel_ok fuel t'.
Proof. unfold fuel_ok. intros H Eb Ep. rewrite Eb. lia. Qed.

Lemma frame_buf t t' : frame t' = frame t -> t_buf t' = t_buf t.
Proof. unfold frame. intros H. inversion H. reflexivity. Qed.

(** result of a loop that copies what it consumes *)
Definition LoopPost (t : tkn) (acc : bytes) (r : tkn * bytes) : Prop :=
  let '(t', out) := r in
  inv1 t' /\ frame t' = frame t /\ t_pos t <= t_pos t' /\
  exists b, out = acc ++ b /\ len b = t_pos t' - t_pos t.

Lemma consume_next_spec t acc :
  inv1 t -> t_last t <> c_eof ->
  wp (consume_next t acc) (fun r => LoopPost t acc r /\ t_pos (fst r) = t_pos t + 1).
Proof.
  intros Hi Hne. unfold consume_next. apply is_eof_false in Hne. rewrite Hne. apply is_eof_false in Hne.
  apply wp_bind. eapply wp_mono; [apply next_spec; exact Hi|].
  intros t' (Hi' & Hf & Hp & H1 & Hadv & _). specialize (Hadv Hne).
  apply wp_ok. unfold LoopPost. cbn [fst]. split; [|lia]. split; [exact Hi'|]. split; [exact Hf|]. split; [lia|].
  exists [byte_of (t_last t)]. split; [reflexivity|]. unfold len; cbn. lia.
Qed.

Lemma scan_while_spec cond :
  cond c_eof = false ->
  forall fuel t acc, inv1 t -> fuel_ok fuel t ->
  wp (scan_while fuel cond t acc) (fun r => LoopPost t acc r /\ cond (t_last (fst r)) = false /\
      (cond (t_last t) = true -> t_pos t < t_pos (fst r))).
Proof.
  intros Hc. induction fuel as [|f IH]; intros t acc Hi Hf.
  - exfalso. pose proof (inv1_pos_range t Hi). unfold fuel_ok in Hf. lia.
  - cbn [scan_while]. destruct (cond (t_last t)) eqn:E.
    + assert (Hne : t_last t <> c_eof) by (intros C; rewrite C, Hc in E; discriminate).
      apply wp_bind. eapply wp_mono; [apply next_spec; exact Hi|].
      intros t' (Hi' & Hfr & Hp & H1 & Hadv & _). specialize (Hadv Hne).
      eapply wp_mono; [apply IH; [exact Hi'|eapply fuel_ok_next; eauto using frame_buf]|].
      intros [t2 out] [(Hi2 & Hfr2 & Hp2 & b & Eo & Lb) [Hc2 _]]. cbn [fst] in *.
      cbn [fst]. split; [|split; [exact Hc2|intros _; lia]]. unfold LoopPost.
      split; [exact Hi2|]. split; [congruence|]. split; [lia|].
      exists (byte_of (t_last t) :: b). split.
      * rewrite Eo, <- app_assoc. reflexivity.
      * unfold len in *. cbn [length]. lia.
    + apply wp_ok. cbn [fst]. split; [|split; [exact E|intros C; congruence]]. unfold LoopPost.
      split; [exact Hi|]. split; [reflexivity|]. split; [lia|].
      exists []. rewrite app_nil_r. split; [reflexivity|]. unfold len; cbn; lia.
Qed.

Lemma consume_while_spec cond :
  cond c_eof = false ->
  forall fuel t acc, inv1 t -> fuel_ok fuel t ->
  wp (consume_while fuel cond t acc) (fun r => LoopPost t acc r /\ cond (t_last (fst r)) = false /\
      (cond (t_last t) = true -> t_pos t < t_pos (fst r))).
Proof.
  intros Hc. induction fuel as [|f IH]; intros t acc Hi Hf.
  - exfalso. pose proof (inv1_pos_range t Hi). unfold fuel_ok in Hf. lia.
  - cbn [consume_while]. destruct (cond (t_last t)) eqn:E.
    + assert (Hne : t_last t <> c_eof) by (intros C; rewrite C, Hc in E; discriminate).
      apply wp_bind. eapply wp_mono; [apply consume_next_spec; assumption|].
      intros [t' acc'] [(Hi' & Hfr & Hp & b1 & Eo1 & Lb1) Hadv]. cbn [fst] in *.
      eapply wp_mono; [apply IH; [exact Hi'|eapply fuel_ok_next; eauto using frame_buf]|].
      intros [t2 out] [(Hi2 & Hfr2 & Hp2 & b & Eo & Lb) [Hc2 _]]. cbn [fst] in *.
      cbn [fst]. split; [|split; [exact Hc2|intros _; lia]]. unfold LoopPost.
      split; [exact Hi2|]. split; [congruence|]. split; [lia|].
      exists (b1 ++ b). split.
      * rewrite Eo, Eo1, <- app_assoc. reflexivity.
      * rewrite len_app. lia.
    + apply wp_ok. cbn [fst]. split; [|split; [exact E|intros C; congruence]]. unfold LoopPost.
      split; [exact Hi|]. split; [reflexivity|]. split; [lia|].
      exists []. rewrite app_nil_r. split; [reflexivity|]. unfold len; cbn; lia.
Qed.

(** * the scanners below Scan: totality, frame, progress, output length *)
Definition TokPost (base : Z) (t : tkn) (r : tokres) : Prop :=
  let '(t', tok, val) := r in
  inv1 t' /\ frame t' = frame t /\ t_pos t <= t_pos t' /\
  len val <= base + (t_pos t' - t_pos t) /\ tok <> TK_RESCAN.

Ltac wp_next Hi :=
  apply wp_bind; eapply wp_mono; [apply next_spec; exact Hi|];
  let t' := fresh "t" in let Hi' := fresh "Hi" in let Hf := fresh "Hfr" in let Hp := fresh "Hp" in
  let H1 := fresh "Hone" in let Ha := fresh "Hadv" in let Hs := fresh "Hstay" in
  intros t' (Hi' & Hf & Hp & H1 & Ha & Hs).

Ltac lens := unfold len in *; repeat rewrite app_length in *; cbn [length] in *; try lia.
Ltac tokne := first [ discriminate | (let X := fresh in intro X; vm_compute in X; discriminate X) ].
Ltac frame_tr := first [ assumption | reflexivity | congruence ].
Ltac fuel_tr :=
  first [ assumption
        | (eapply fuel_ok_mono; [eassumption | eauto using frame_buf; congruence | lia]) ].

Ltac tp :=
  apply wp_ok; unfold TokPost;
  split; [assumption|]; split; [frame_tr|]; split; [lia|]; split; [first [lia | lens]|first [assumption | tokne]].

Lemma mantissa_cond_eof base : (base <= 16)%N -> (digit_val c_eof <? base)%N = false.
Proof. intros H. change (digit_val c_eof) with 16%N. apply N.ltb_ge. exact H. Qed.

Lemma scan_mantissa_spec lf base t acc :
  (base <= 16)%N -> inv1 t -> fuel_ok lf t ->
  wp (scan_mantissa lf base t acc) (fun r => LoopPost t acc r /\
      ((digit_val (t_last t) <? base)%N = true -> t_pos t < t_pos (fst r))).
Proof.
  intros Hb Hi Hf. unfold scan_mantissa.
  eapply wp_mono; [apply (consume_while_spec (fun c => (digit_val c <? base)%N)); [apply mantissa_cond_eof; exact Hb|exact Hi|exact Hf]|].
  intros r [H [_ H2]]. split; [exact H|exact H2].
Qed.

Lemma kw_lookup_in m s id : kw_lookup m s = Some id -> exists k, In (k, id) m.
Proof.
  induction m as [|[k v] m IH]; cbn; [discriminate|].
  destruct (bytes_eqb k s).
  - intros [= <-]. exists k. left. reflexivity.
  - intros H. destruct (IH H) as [k' Hk]. exists k'. right. exact Hk.
Qed.
Lemma keywords_not_rescan : forallb (fun kv : bytes * Z => negb (snd kv =? TK_RESCAN)) KEYWORDS = true.
Proof. vm_compute. reflexivity. Qed.
Lemma kw_not_rescan s id : kw_lookup KEYWORDS s = Some id -> id <> TK_RESCAN.
Proof.
  intros H. destruct (kw_lookup_in _ _ _ H) as [k Hk].
  pose proof (proj1 (forallb_forall _ _) keywords_not_rescan _ Hk) as E. cbn [snd] in E.
  apply negb_true_iff, Z.eqb_neq in E. exact E.
Qed.
Lemma string_token_type_not_rescan c : string_token_type c <> TK_RESCAN.
Proof.
  unfold string_token_type, STRING_TOKEN_TYPE. cbn [assoc_nz].
  repeat match goal with |- context [if ?b then _ else _] => destruct b end; tokne.
Qed.

Lemma ident_cond_eof d sysvar :
  (is_letter c_eof || is_digit c_eof || (sysvar && is_carat d c_eof)) = false.
Proof. destruct d, sysvar; reflexivity. Qed.

Lemma to_lower_len s : len (to_lower s) = len s.
Proof. unfold len, to_lower. rewrite map_length. reflexivity. Qed.

Lemma scan_identifier_spec lf t first sysvar :
  inv1 t -> fuel_ok lf t -> wp (scan_identifier lf t first sysvar) (TokPost 1 t).
Proof.
  intros Hi Hf. unfold scan_identifier. apply wp_bind.
  eapply wp_mono; [apply (scan_while_spec _ (ident_cond_eof (t_dia t) sysvar)); [exact Hi|exact Hf]|].
  intros [t1 b] [(Hi1 & Hfr1 & Hp1 & b' & Eb & Lb) _].
  assert (Hl : len b <= 1 + (t_pos t1 - t_pos t)) by (subst b; lens).
  destruct (kw_lookup KEYWORDS (to_lower b)) as [id|] eqn:K.
  - pose proof (kw_not_rescan _ _ K). pose proof (to_lower_len b). tp.
  - pose proof (to_lower_len b). destruct (bytes_eqb (to_lower b) x_dual); tp.
Qed.

Lemma scan_hex_spec lf t : inv1 t -> fuel_ok lf t -> wp (scan_hex lf t) (TokPost 0 t).
Proof.
  intros Hi Hf. unfold scan_hex. apply wp_bind.
  eapply wp_mono; [apply scan_mantissa_spec; [lia|exact Hi|exact Hf]|].
  intros [t1 b] [(Hi1 & Hfr1 & Hp1 & b' & Eb & Lb) _].
  assert (Hl : len b <= t_pos t1 - t_pos t) by (subst b; lens).
  destruct (negb (t_last t1 =? 39)%N).
  - tp.
  - wp_next Hi1. destruct (negb (len b mod 2 =? 0)); tp.
Qed.

Lemma scan_bit_literal_spec lf t : inv1 t -> fuel_ok lf t -> wp (scan_bit_literal lf t) (TokPost 0 t).
Proof.
  intros Hi Hf. unfold scan_bit_literal. apply wp_bind.
  eapply wp_mono; [apply scan_mantissa_spec; [lia|exact Hi|exact Hf]|].
  intros [t1 b] [(Hi1 & Hfr1 & Hp1 & b' & Eb & Lb) _].
  assert (Hl : len b <= t_pos t1 - t_pos t) by (subst b; lens).
  destruct (negb (t_last t1 =? 39)%N).
  - tp.
  - wp_next Hi1. tp.
Qed.

Definition LoopLe (t : tkn) (acc : bytes) (t' : tkn) (out : bytes) : Prop :=
  inv1 t' /\ frame t' = frame t /\ t_pos t <= t_pos t' /\ len out <= len acc + (t_pos t' - t_pos t).

Lemma LoopPost_le t acc t' out : LoopPost t acc (t', out) -> LoopLe t acc t' out.
Proof.
  intros (Hi & Hfr & Hp & b & Eb & Lb). unfold LoopLe. subst out. rewrite len_app.
  split; [assumption|]. split; [assumption|]. split; lia.
Qed.

Ltac le4 := unfold LoopLe; split; [assumption|]; split; [frame_tr|]; split; [lia|]; first [lia | lens].

Ltac ne_eof E := let C := fresh in intro C; rewrite C in E; vm_compute in E; discriminate E.

Lemma ident_quote_eof d : ident_quote d c_eof = false.
Proof. destruct d; reflexivity. Qed.

Lemma lit_ident_loop_spec : forall fuel t acc qs, inv1 t -> fuel_ok fuel t ->
  wp (lit_ident_loop fuel t acc qs) (fun r => let '(t', out, _, _) := r in LoopLe t acc t' out).
Proof.
  induction fuel as [|f IH]; intros t acc qs Hi Hf.
  - exfalso. pose proof (inv1_pos_range t Hi). unfold fuel_ok in Hf. lia.
  - cbn [lit_ident_loop]. destruct qs as [q|].
    + destruct (ident_quote (t_dia t) (t_last t)) eqn:Q; cbn [negb].
      * assert (Hne : t_last t <> c_eof) by (intro C; rewrite C, ident_quote_eof in Q; discriminate).
        wp_next Hi. specialize (Hadv Hne).
        eapply wp_mono; [apply IH; [exact Hi0|eapply fuel_ok_next; eauto using frame_buf]|].
        intros [[[t2 out] qs2] e2] (Hi2 & Hfr2 & Hp2 & Hl2). unfold LoopLe. rewrite len_app in Hl2.
        split; [exact Hi2|]. split; [congruence|]. split; [lia|]. lens.
      * apply wp_ok. le4.
    + destruct (ident_quote (t_dia t) (t_last t)) eqn:Q.
      * assert (Hne : t_last t <> c_eof) by (intro C; rewrite C, ident_quote_eof in Q; discriminate).
        wp_next Hi. specialize (Hadv Hne).
        eapply wp_mono; [apply IH; [exact Hi0|eapply fuel_ok_next; eauto using frame_buf]|].
        intros [[[t2 out] qs2] e2] (Hi2 & Hfr2 & Hp2 & Hl2). unfold LoopLe.
        split; [exact Hi2|]. split; [congruence|]. split; [lia|]. lia.
      * destruct (is_eof (t_last t)) eqn:E.
        -- apply wp_ok. le4.
        -- apply is_eof_false in E. wp_next Hi. specialize (Hadv E).
           eapply wp_mono; [apply IH; [exact Hi0|eapply fuel_ok_next; eauto using frame_buf]|].
           intros [[[t2 out] qs2] e2] (Hi2 & Hfr2 & Hp2 & Hl2). unfold LoopLe. rewrite len_app in Hl2.
           split; [exact Hi2|]. split; [congruence|]. split; [lia|]. lens.
Qed.

Lemma scan_literal_identifier_spec lf t :
  inv1 t -> fuel_ok lf t -> wp (scan_literal_identifier lf t) (TokPost 0 t).
Proof.
  intros Hi Hf. unfold scan_literal_identifier. apply wp_bind.
  eapply wp_mono; [apply lit_ident_loop_spec; [exact Hi|exact Hf]|].
  intros [[[t1 b] qs] e] (Hi1 & Hfr1 & Hp1 & Hl). change (len []) with 0 in Hl.
  destruct e; [tp|]. destruct (len b =? 0); [tp|].
  destruct qs as [q|]; [|tp]. destruct (is_postgres (t_dia t)); [|tp].
  pose proof (string_token_type_not_rescan q). tp.
Qed.

Lemma bindvar_cond_eof : (is_letter c_eof || is_digit c_eof || (c_eof =? 46)%N) = false.
Proof. reflexivity. Qed.

Lemma scan_bind_var_spec lf t :
  inv1 t -> t_last t <> c_eof -> fuel_ok lf t ->
  wp (scan_bind_var lf t) (fun r => TokPost 0 t r /\ t_pos t < t_pos (fst (fst r))).
Proof.
  intros Hi Hne Hf. unfold scan_bind_var. wp_next Hi. specialize (Hadv Hne).
  apply wp_bind.
  apply (wp_mono _ (fun r => let '(t2, tok, b1) := r in
           inv1 t2 /\ frame t2 = frame t /\ t_pos t0 <= t_pos t2 /\ len b1 <= t_pos t2 - t_pos t /\ tok <> TK_RESCAN)).
  { destruct (t_last t0 =? 58)%N eqn:E.
    - assert (Hne0 : t_last t0 <> c_eof) by ne_eof E.
      wp_next Hi0. specialize (Hadv0 Hne0). apply wp_ok.
      split; [assumption|]. split; [congruence|]. split; [lia|]. split; [lens|tokne].
    - apply wp_ok. split; [assumption|]. split; [congruence|]. split; [lia|]. split; [lens|tokne]. }
  intros [[t2 tok] b1] (Hi2 & Hfr2 & Hp2 & Hl2 & Hk).
  destruct (negb (is_letter (t_last t2))).
  - apply wp_ok. cbn [fst]. split; [|lia]. unfold TokPost. split; [assumption|]. split; [congruence|]. split; [lia|]. split; [lia|tokne].
  - apply wp_bind.
    eapply wp_mono; [apply (scan_while_spec _ bindvar_cond_eof); [exact Hi2|fuel_tr]|].
    intros [t3 b] [(Hi3 & Hfr3 & Hp3 & b' & Eb & Lb) _]. apply wp_ok. cbn [fst]. split; [|lia].
    unfold TokPost. split; [assumption|]. split; [congruence|]. split; [lia|]. split; [subst b; rewrite len_app; lia|assumption].
Qed.

(** ** numbers *)
Lemma consume_next_le t acc :
  inv1 t -> t_last t <> c_eof ->
  wp (consume_next t acc) (fun r => LoopLe t acc (fst r) (snd r) /\ t_pos (fst r) = t_pos t + 1).
Proof.
  intros Hi Hne. eapply wp_mono; [apply consume_next_spec; assumption|].
  intros [t' out] [H E]. cbn [fst snd] in *. split; [apply LoopPost_le; exact H|exact E].
Qed.

Lemma LoopLe_trans t acc t1 b1 t2 b2 :
  LoopLe t acc t1 b1 -> LoopLe t1 b1 t2 b2 -> LoopLe t acc t2 b2.
Proof.
  intros (Hi1 & Hf1 & Hp1 & Hl1) (Hi2 & Hf2 & Hp2 & Hl2). unfold LoopLe.
  split; [assumption|]. split; [congruence|]. split; lia.
Qed.
Lemma LoopLe_refl t acc : inv1 t -> LoopLe t acc t acc.
Proof. intros Hi. unfold LoopLe. split; [assumption|]. split; [reflexivity|]. split; lia. Qed.

Lemma LoopLe_fuel fuel t acc t' out : fuel_ok fuel t -> LoopLe t acc t' out -> fuel_ok fuel t'.
Proof. intros Hf (_ & Hfr & Hp & _). eapply fuel_ok_mono; eauto using frame_buf. Qed.

Lemma scan_mantissa_le lf base t acc :
  (base <= 16)%N -> inv1 t -> fuel_ok lf t ->
  wp (scan_mantissa lf base t acc) (fun r => LoopLe t acc (fst r) (snd r) /\
      ((digit_val (t_last t) <? base)%N = true -> t_pos t < t_pos (fst r))).
Proof.
  intros Hb Hi Hf. eapply wp_mono; [apply scan_mantissa_spec; assumption|].
  intros [t' out] [H P]. cbn [fst snd]. split; [apply LoopPost_le; exact H|exact P].
Qed.

Lemma scan_exponent_spec lf t tok b :
  inv1 t -> fuel_ok lf t -> tok <> TK_RESCAN ->
  wp (scan_exponent lf t tok b) (fun r => let '(t', tok', b') := r in LoopLe t b t' b' /\ tok' <> TK_RESCAN).
Proof.
  intros Hi Hf Hk. unfold scan_exponent.
  destruct ((t_last t =? 101) || (t_last t =? 69))%N eqn:E.
  - assert (Hne : t_last t <> c_eof) by ne_eof E.
    apply wp_bind. eapply wp_mono; [apply consume_next_le; assumption|].
    intros [t1 b1] [L1 _]. cbn [fst snd] in L1.
    apply wp_bind.
    apply (wp_mono _ (fun r => LoopLe t1 b1 (fst r) (snd r))).
    { destruct ((t_last t1 =? 43) || (t_last t1 =? 45))%N eqn:E1.
      - assert (Hne1 : t_last t1 <> c_eof) by ne_eof E1.
        eapply wp_mono; [apply consume_next_le; [apply L1|assumption]|]. intros r [H _]. exact H.
      - apply wp_ok. cbn [fst snd]. apply LoopLe_refl. apply L1. }
    intros [t2 b2] L2. cbn [fst snd] in L2.
    pose proof (LoopLe_trans _ _ _ _ _ _ L1 L2) as L12.
    apply wp_bind. eapply wp_mono; [apply scan_mantissa_le; [lia|apply L2|eapply LoopLe_fuel; eassumption]|].
    intros [t3 b3] [L3 _]. cbn [fst snd] in L3. apply wp_ok.
    split; [eapply LoopLe_trans; eassumption|tokne].
  - apply wp_ok. split; [apply LoopLe_refl; assumption|assumption].
Qed.

Lemma number_exit_spec t0 acc t tok b :
  LoopLe t0 acc t b -> tok <> TK_RESCAN ->
  let '(t', tok', b') := number_exit (t, tok, b) in LoopLe t0 acc t' b' /\ tok' <> TK_RESCAN /\ t' = t.
Proof.
  intros L Hk. unfold number_exit. destruct (is_letter (t_last t)).
  - split; [exact L|]. split; [tokne|reflexivity].
  - split; [exact L|]. split; [assumption|reflexivity].
Qed.

Lemma is_digit_not_eof c : is_digit c = true -> c <> c_eof.
Proof. intros E C. rewrite C in E. discriminate E. Qed.

Lemma is_digit_mantissa10 c : is_digit c = true -> (digit_val c <? 10)%N = true.
Proof.
  unfold is_digit, digit_val. intros E. rewrite E. apply andb_true_iff in E. destruct E as [E1 E2].
  apply N.leb_le in E1, E2. apply N.ltb_lt. lia.
Qed.

Lemma scan_number_spec lf t sp :
  inv1 t -> fuel_ok lf t ->
  wp (scan_number lf t sp) (fun r => TokPost (if sp then 1 else 0) t r /\
      (sp = false -> is_digit (t_last t) = true -> t_pos t < t_pos (fst (fst r)))).
Proof.
  intros Hi Hf. unfold scan_number. destruct sp.
  - apply wp_bind. eapply wp_mono; [apply scan_mantissa_le; [lia|assumption|assumption]|].
    intros [t1 b1] [L1 _]. cbn [fst snd] in L1.
    apply wp_bind. eapply wp_mono; [apply scan_exponent_spec; [apply L1|eapply LoopLe_fuel; eassumption|tokne]|].
    intros [[t2 tok2] b2] [L2 K2]. apply wp_ok.
    pose proof (number_exit_spec _ _ _ _ _ (LoopLe_trans _ _ _ _ _ _ L1 L2) K2) as X.
    destruct (number_exit (t2, tok2, b2)) as [[t3 tok3] b3]. destruct X as ((Hi3 & Hfr3 & Hp3 & Hl3) & K3 & _).
    cbn [fst]. split; [|intros C; discriminate C]. unfold TokPost. change (len [x2e]) with 1 in Hl3.
    split; [assumption|]. split; [assumption|]. split; [lia|]. split; [lia|assumption].
  - (* the optional 0 / 0x prefix *)
    apply wp_bind.
    apply (wp_mono _ (fun r => let '(t1, b1, hex) := r in LoopLe t [] t1 b1 /\
              (is_digit (t_last t) = true -> hex = true \/ (t_last t =? 48)%N = true -> t_pos t < t_pos t1) /\
              (is_digit (t_last t) = true -> (t_last t =? 48)%N = false -> t1 = t))).
    { destruct (t_last t =? 48)%N eqn:E0.
      - assert (Hne : t_last t <> c_eof) by ne_eof E0.
        apply wp_bind. eapply wp_mono; [apply consume_next_le; assumption|].
        intros [t1 b1] [L1 P1]. cbn [fst snd] in L1, P1.
        destruct ((t_last t1 =? 120) || (t_last t1 =? 88))%N eqn:Ex.
        + assert (Hne1 : t_last t1 <> c_eof) by ne_eof Ex.
          apply wp_bind. eapply wp_mono; [apply consume_next_le; [apply L1|assumption]|].
          intros [t2 b2] [L2 P2]. cbn [fst snd] in L2, P2.
          apply wp_bind. eapply wp_mono; [apply scan_mantissa_le; [lia|apply L2|eapply LoopLe_fuel; [|eassumption]; eapply LoopLe_fuel; eassumption]|].
          intros [t3 b3] [L3 _]. cbn [fst snd] in L3. apply wp_ok.
          split; [eapply LoopLe_trans; [eapply LoopLe_trans|]; eassumption|].
          split; [intros _ _; destruct L2 as (_ & _ & ? & _); destruct L3 as (_ & _ & ? & _); lia|intros _ C; discriminate C].
        + apply wp_ok. split; [exact L1|]. split; [intros _ _; lia|intros _ C; discriminate C].
      - apply wp_ok. split; [apply LoopLe_refl; assumption|]. split; [intros _ [C|C]; discriminate C|reflexivity]. }
    intros [[t1 b1] hex] (L1 & P1 & Q1).
    destruct hex.
    + apply wp_ok.
      assert (K : TK_HEXNUM <> TK_RESCAN) by tokne.
      pose proof (number_exit_spec _ _ _ _ _ L1 K) as X.
      destruct (number_exit (t1, TK_HEXNUM, b1)) as [[t3 tok3] b3]. destruct X as ((Hi3 & Hfr3 & Hp3 & Hl3) & K3 & E3).
      cbn [fst]. change (len []) with 0 in Hl3. split.
      * unfold TokPost. split; [assumption|]. split; [assumption|]. split; [lia|]. split; [lia|assumption].
      * intros _ D. subst t3. apply P1; [exact D|left; reflexivity].
    + apply wp_bind. eapply wp_mono; [apply scan_mantissa_le; [lia|apply L1|eapply LoopLe_fuel; eassumption]|].
      intros [t2 b2] [L2 P2]. cbn [fst snd] in L2, P2.
      pose proof (LoopLe_trans _ _ _ _ _ _ L1 L2) as L12.
      apply wp_bind.
      apply (wp_mono _ (fun r => let '(t3, tok, b3) := r in LoopLe t2 b2 t3 b3 /\ tok <> TK_RESCAN)).
      { destruct (t_last t2 =? 46)%N eqn:Ed.
        - assert (Hne2 : t_last t2 <> c_eof) by ne_eof Ed.
          apply wp_bind. eapply wp_mono; [apply consume_next_le; [apply L2|assumption]|].
          intros [t3 b3] [L3 _]. cbn [fst snd] in L3.
          apply wp_bind. eapply wp_mono; [apply scan_mantissa_le; [lia|apply L3|eapply LoopLe_fuel; [|eassumption]; eapply LoopLe_fuel; eassumption]|].
          intros [t4 b4] [L4 _]. cbn [fst snd] in L4. apply wp_ok.
          split; [eapply LoopLe_trans; eassumption|tokne].
        - apply wp_ok. split; [apply LoopLe_refl; apply L2|tokne]. }
      intros [[t3 tok] b3] [L3 K3].
      pose proof (LoopLe_trans _ _ _ _ _ _ L12 L3) as L123.
      apply wp_bind. eapply wp_mono; [apply scan_exponent_spec; [apply L3|eapply LoopLe_fuel; eassumption|assumption]|].
      intros [[t4 tok4] b4] [L4 K4]. apply wp_ok.
      pose proof (number_exit_spec _ _ _ _ _ (LoopLe_trans _ _ _ _ _ _ L123 L4) K4) as X.
      destruct (number_exit (t4, tok4, b4)) as [[t5 tok5] b5]. destruct X as ((Hi5 & Hfr5 & Hp5 & Hl5) & K5 & E5).
      cbn [fst]. change (len []) with 0 in Hl5. split.
      * unfold TokPost. split; [assumption|]. split; [assumption|]. split; [lia|]. split; [lia|assumption].
      * intros _ D. subst t5.
        destruct L2 as (_ & _ & Hp2 & _). destruct L3 as (_ & _ & Hp3 & _). destruct L4 as (_ & _ & Hp4 & _).
        destruct (t_last t =? 48)%N eqn:E0.
        -- assert (t_pos t < t_pos t1) by (apply P1; [exact D|right; reflexivity]). lia.
        -- assert (t1 = t) by (apply Q1; [exact D|reflexivity]). subst t1.
           specialize (P2 (is_digit_mantissa10 _ D)). lia.
Qed.

Lemma scan_dollar_parameter_spec lf t :
  inv1 t -> fuel_ok lf t -> wp (scan_dollar_parameter lf t) (TokPost 1 t).
Proof.
  intros Hi Hf. unfold scan_dollar_parameter. apply wp_bind.
  eapply wp_mono; [apply scan_number_spec; assumption|].
  intros [[t1 tok] v] [(Hi1 & Hfr1 & Hp1 & Hl1 & K1) _].
  destruct (tok =? TK_INTEGRAL); [|tp]. apply wp_ok. unfold TokPost.
  split; [assumption|]. split; [assumption|]. split; [lia|]. split; [lens|tokne].
Qed.

(** ** comments *)
Lemma comment1_loop_spec : forall fuel t acc, inv1 t -> fuel_ok fuel t ->
  wp (comment1_loop fuel t acc) (fun r => LoopPost t acc r).
Proof.
  induction fuel as [|f IH]; intros t acc Hi Hf.
  - exfalso. pose proof (inv1_pos_range t Hi). unfold fuel_ok in Hf. lia.
  - cbn [comment1_loop]. destruct (is_eof (t_last t)) eqn:E.
    + apply wp_ok. unfold LoopPost. split; [assumption|]. split; [reflexivity|]. split; [lia|].
      exists []. rewrite app_nil_r. split; [reflexivity|]. lens.
    + apply is_eof_false in E. destruct (t_last t =? 10)%N.
      * eapply wp_mono; [apply consume_next_spec; assumption|]. intros r [H _]. exact H.
      * apply wp_bind. eapply wp_mono; [apply consume_next_spec; assumption|].
        intros [t1 acc1] [(Hi1 & Hfr1 & Hp1 & b1 & Eb1 & Lb1) P1]. cbn [fst] in P1.
        eapply wp_mono; [apply IH; [exact Hi1|eapply fuel_ok_next; eauto using frame_buf]|].
        intros [t2 out] (Hi2 & Hfr2 & Hp2 & b2 & Eb2 & Lb2). unfold LoopPost.
        split; [assumption|]. split; [congruence|]. split; [lia|].
        exists (b1 ++ b2). split; [subst; rewrite <- app_assoc; reflexivity|rewrite len_app; lia].
Qed.

Lemma scan_comment_type1_spec lf t prefix :
  inv1 t -> fuel_ok lf t -> wp (scan_comment_type1 lf t prefix) (TokPost (len prefix) t).
Proof.
  intros Hi Hf. unfold scan_comment_type1. apply wp_bind.
  eapply wp_mono; [apply comment1_loop_spec; assumption|].
  intros [t1 b] (Hi1 & Hfr1 & Hp1 & b' & Eb & Lb). apply wp_ok. unfold TokPost.
  split; [assumption|]. split; [assumption|]. split; [lia|]. split; [subst b; rewrite len_app; lia|tokne].
Qed.

Lemma comment2_loop_spec : forall fuel t acc, inv1 t -> fuel_ok fuel t ->
  wp (comment2_loop fuel t acc) (fun r => let '(t', out, closed) := r in
      LoopPost t acc (t', out) /\ (closed = true -> 2 <= t_pos t' - t_pos t)).
Proof.
  induction fuel as [|f IH]; intros t acc Hi Hf.
  - exfalso. pose proof (inv1_pos_range t Hi). unfold fuel_ok in Hf. lia.
  - cbn [comment2_loop]. destruct (t_last t =? 42)%N eqn:Es.
    + assert (Hne : t_last t <> c_eof) by ne_eof Es.
      apply wp_bind. eapply wp_mono; [apply consume_next_spec; assumption|].
      intros [t1 acc1] [(Hi1 & Hfr1 & Hp1 & b1 & Eb1 & Lb1) P1]. cbn [fst] in P1.
      destruct (t_last t1 =? 47)%N eqn:Esl.
      * assert (Hne1 : t_last t1 <> c_eof) by ne_eof Esl.
        apply wp_bind. eapply wp_mono; [apply consume_next_spec; assumption|].
        intros [t2 acc2] [(Hi2 & Hfr2 & Hp2 & b2 & Eb2 & Lb2) P2]. cbn [fst] in P2. apply wp_ok.
        split; [|intros _; lia]. unfold LoopPost.
        split; [assumption|]. split; [congruence|]. split; [lia|].
        exists (b1 ++ b2). split; [subst; rewrite <- app_assoc; reflexivity|rewrite len_app; lia].
      * eapply wp_mono; [apply IH; [exact Hi1|eapply fuel_ok_next; eauto using frame_buf]|].
        intros [[t2 out] closed] [(Hi2 & Hfr2 & Hp2 & b2 & Eb2 & Lb2) C2].
        split; [|intros C; specialize (C2 C); lia]. unfold LoopPost.
        split; [assumption|]. split; [congruence|]. split; [lia|].
        exists (b1 ++ b2). split; [subst; rewrite <- app_assoc; reflexivity|rewrite len_app; lia].
    + destruct (is_eof (t_last t)) eqn:E.
      * apply wp_ok. split; [|intros C; discriminate C]. unfold LoopPost.
        split; [assumption|]. split; [reflexivity|]. split; [lia|].
        exists []. rewrite app_nil_r. split; [reflexivity|]. lens.
      * apply is_eof_false in E.
        apply wp_bind. eapply wp_mono; [apply consume_next_spec; assumption|].
        intros [t1 acc1] [(Hi1 & Hfr1 & Hp1 & b1 & Eb1 & Lb1) P1]. cbn [fst] in P1.
        eapply wp_mono; [apply IH; [exact Hi1|eapply fuel_ok_next; eauto using frame_buf]|].
        intros [[t2 out] closed] [(Hi2 & Hfr2 & Hp2 & b2 & Eb2 & Lb2) C2].
        split; [|intros C; specialize (C2 C); lia]. unfold LoopPost.
        split; [assumption|]. split; [congruence|]. split; [lia|].
        exists (b1 ++ b2). split; [subst; rewrite <- app_assoc; reflexivity|rewrite len_app; lia].
Qed.

Lemma scan_comment_type2_spec lf t :
  inv1 t -> fuel_ok lf t -> wp (scan_comment_type2 lf t) (TokPost 2 t).
Proof.
  intros Hi Hf. unfold scan_comment_type2. apply wp_bind.
  eapply wp_mono; [apply comment2_loop_spec; assumption|].
  intros [[t1 b] closed] [(Hi1 & Hfr1 & Hp1 & b' & Eb & Lb) _].
  assert (Hl : len b <= 2 + (t_pos t1 - t_pos t)) by (subst b; rewrite len_app; change (len x_slash_star) with 2; lia).
  destruct closed; tp.
Qed.

(** ** ExtractMysqlComment never panics and returns no more than the comment body *)
Lemma utf8_decode_width s : (snd (utf8_decode s) <= length s)%nat.
Proof.
  unfold utf8_decode. destruct s as [|b0 r]; cbn [snd length]; [lia|].
  repeat match goal with
         | |- context [if ?c then _ else _] => destruct c; cbn [snd length]; try lia
         | |- context [match ?x with [] => _ | _ :: _ => _ end] => destruct x; cbn [snd length] in *; try lia
         end.
Qed.

Lemma skipn_len n (s : bytes) : (n <= length s)%nat -> len (skipn n s) = len s - Z.of_nat n.
Proof. intros H. unfold len. rewrite skipn_length. lia. Qed.

Lemma version_end_range : forall fuel s i cnt,
  let r := version_end fuel s i cnt in r = -1 \/ (i <= r <= i + len s).
Proof.
  induction fuel as [|f IH]; intros s i cnt; cbn [version_end]; [left; reflexivity|].
  destruct s as [|b0 s']; [left; reflexivity|].
  pose proof (utf8_decode_width (b0 :: s')) as W.
  destruct (utf8_decode (b0 :: s')) as [r w]. cbn [snd] in W.
  destruct (negb (uni_is_digit r) || (cnt + 1 =? 6)).
  - right. pose proof (len_nonneg (b0 :: s')). lia.
  - specialize (IH (skipn w (b0 :: s')) (i + Z.of_nat w) (cnt + 1)). cbv zeta in IH.
    rewrite skipn_len in IH by exact W. destruct IH as [E|E]; [left; exact E|right; lia].
Qed.

Lemma trim_left_len : forall fuel s, len (trim_left fuel s) <= len s.
Proof.
  induction fuel as [|f IH]; intros s; cbn [trim_left]; [pose proof (len_nonneg s); lens|].
  destruct s as [|b0 s']; [lia|].
  destruct (utf8_decode (b0 :: s')) as [r w]. destruct (uni_is_space r); [|lia].
  specialize (IH (skipn w (b0 :: s'))). unfold len in *. rewrite skipn_length in IH. lia.
Qed.

Lemma trim_right_len s : len (trim_right s) <= len s.
Proof.
  unfold trim_right.
  destruct ((0 <=? last_non_space (S (length s)) s (length s)) && _).
  - destruct (utf8_decode _) as [r wid]. unfold len. rewrite firstn_length. lia.
  - unfold len. rewrite firstn_length. lia.
Qed.

Lemma trim_space_len s : len (trim_space s) <= len s.
Proof.
  unfold trim_space. pose proof (trim_right_len (trim_left (S (length s)) s)). pose proof (trim_left_len (S (length s)) s). lia.
Qed.

Lemma extract_mysql_comment_spec sql :
  5 <= len sql -> wp (extract_mysql_comment sql) (fun inner => len inner + 5 <= len sql).
Proof.
  intros H5. unfold extract_mysql_comment.
  rewrite gslice_ok by lia. cbn [bind].
  set (body := sub (Z.to_nat 3) (Z.to_nat (len sql - 2 - 3)) sql).
  assert (Lb : len body = len sql - 5).
  { pose proof (gslice_length 3 (len sql - 2) sql body) as G. rewrite gslice_ok in G by lia. specialize (G eq_refl). lia. }
  pose proof (version_end_range (S (length body)) body 0 0) as R. cbv zeta in R.
  destruct (version_end (S (length body)) body 0 0 <? 0) eqn:E.
  - apply wp_ok. change (len []) with 0. lia.
  - apply Z.ltb_ge in E. destruct R as [R|R]; [lia|].
    rewrite gslice_ok by lia. cbn [bind]. rewrite gslice_from_ok by lia. cbn [bind]. apply wp_ok.
    pose proof (trim_space_len (skipn (Z.to_nat (version_end (S (length body)) body 0 0)) body)) as T.
    assert (len (skipn (Z.to_nat (version_end (S (length body)) body 0 0)) body) <= len body).
    { unfold len. rewrite skipn_length. lia. }
    lia.
Qed.

(** ** scanString *)
Lemma scan_ahead_spec : forall fuel buf delim bp ch,
  0 <= bp <= len buf -> len buf - bp < Z.of_nat fuel ->
  wp (scan_ahead fuel buf delim bp ch) (fun r => bp <= fst r <= len buf).
Proof.
  induction fuel as [|f IH]; intros buf delim bp ch Hb Hf; [lia|].
  cbn [scan_ahead]. destruct (Z.ltb_spec bp (len buf)) as [Hlt|Hge].
  - rewrite gindex_ok by lia. cbn [bind].
    destruct ((b2n (nth (Z.to_nat bp) buf x00) =? delim) || (b2n (nth (Z.to_nat bp) buf x00) =? 92))%N.
    + apply wp_ok. cbn [fst]. lia.
    + eapply wp_mono; [apply IH; lia|]. intros [bp' c'] H. cbn [fst] in *. lia.
  - apply wp_ok. cbn [fst]. lia.
Qed.

Lemma scan_string_plain_spec delim t acc :
  inv1 t -> t_last t <> c_eof ->
  wp (scan_string_plain delim t acc) (fun r =>
    match r with
    | inl (t2, acc2) => LoopLe t acc t2 acc2 /\ t_pos t < t_pos t2
    | inr (t1, acc2, _) => LoopLe t acc t1 acc2 /\ t_last t1 <> c_eof
    end).
Proof.
  intros Hi Hne. pose proof Hi as (Hb & He & Hn & Hz & Hp). pose proof (Hn Hne) as Epos.
  unfold scan_string_plain.
  destruct (negb (t_last t =? delim)%N && negb (t_last t =? 92)%N).
  - apply wp_bind. eapply wp_mono; [apply scan_ahead_spec; [lia|lens]|].
    intros [bp ch'] Hbp. cbn [fst] in Hbp.
    pose proof (gslice_length (t_bufpos t) bp (t_buf t)) as GL.
    rewrite gslice_ok in * by lia. cbn [bind]. specialize (GL _ eq_refl).
    set (seg := sub (Z.to_nat (t_bufpos t)) (Z.to_nat (bp - t_bufpos t)) (t_buf t)) in *.
    set (t1 := with_cur t bp (t_pos t + (bp - t_bufpos t)) (t_last t)).
    assert (Hi1 : inv1 t1).
    { unfold inv1, t1, with_cur; cbn. split; [lia|]. split; [intros C; contradiction|]. split; [intros _; lia|].
      split; [intros C; apply Hz; lia|lia]. }
    destruct (Z.leb_spec (len (t_buf t)) bp) as [Hend|Hmore].
    + wp_next Hi1. apply wp_ok. specialize (Hadv Hne).
      assert (Ep1 : t_pos t1 = bp) by (unfold t1, with_cur; cbn; lia).
      split; [|lia]. unfold LoopLe. split; [assumption|]. split; [rewrite Hfr; reflexivity|]. split; [lia|].
      rewrite !len_app. change (len [byte_of (t_last t)]) with 1. lia.
    + apply wp_ok. cbn [t_last with_cur]. split; [|exact Hne].
      unfold LoopLe. split.
      * unfold inv1, t1, with_cur; cbn. split; [lia|]. split; [intros C; contradiction|]. split; [intros _; lia|].
        split; [intros C; lia|lia].
      * split; [reflexivity|]. unfold t1, with_cur; cbn. split; [lia|].
        rewrite !len_app. change (len [byte_of (t_last t)]) with 1. lia.
  - apply wp_ok. split; [apply LoopLe_refl; assumption|assumption].
Qed.

Lemma scan_string_loop_spec delim typ : typ <> TK_RESCAN ->
  forall fuel t acc index, inv1 t -> fuel_ok fuel t ->
  wp (scan_string_loop fuel delim typ t acc index) (fun r => let '(t', tok, out) := r in
      LoopLe t acc t' out /\ tok <> TK_RESCAN).
Proof.
  intros Htyp. induction fuel as [|f IH]; intros t acc index Hi Hf.
  - exfalso. pose proof (inv1_pos_range t Hi). unfold fuel_ok in Hf. lia.
  - cbn [scan_string_loop]. destruct (is_eof (t_last t)) eqn:E.
    + apply wp_ok. split; [apply LoopLe_refl; assumption|tokne].
    + apply is_eof_false in E. apply wp_bind.
      eapply wp_mono; [apply scan_string_plain_spec; assumption|].
      intros [[t2 acc2]|[[t1 acc2] ch]].
      * intros [L P]. eapply wp_mono; [apply IH; [apply L|]|].
        { destruct L as (_ & Hfr & _ & _). unfold fuel_ok in *. rewrite (frame_buf _ _ Hfr). lia. }
        intros [[t3 tok] out] [L3 K]. split; [eapply LoopLe_trans; eassumption|assumption].
      * intros [L Hne1]. pose proof L as (Hi1 & Hfr1 & Hp1 & Hl1). unfold scan_string_special.
        wp_next Hi1. specialize (Hadv Hne1).
        assert (Fuel : forall t3, frame t3 = frame t0 -> t_pos t0 <= t_pos t3 -> fuel_ok f t3).
        { intros t3 F3 P3. unfold fuel_ok in *. rewrite (frame_buf _ _ F3), (frame_buf _ _ Hfr), (frame_buf _ _ Hfr1). lia. }
        assert (L0 : LoopLe t acc t0 acc2) by (unfold LoopLe; split; [assumption|]; split; [congruence|]; split; lia).
        destruct (ch =? 92)%N.
        -- destruct (is_eof (t_last t0)) eqn:E0.
           ++ apply wp_ok. split; [exact L0|tokne].
           ++ apply is_eof_false in E0.
              destruct ((index + 1 =? 0) && ((t_last t0 =? 120) || (t_last t0 =? 88))%N).
              ** wp_next Hi0. specialize (Hadv0 E0).
                 eapply wp_mono; [apply IH; [assumption|apply Fuel; [assumption|lia]]|].
                 intros [[t4 tok] out] [(Hi4 & Hfr4 & Hp4 & Hl4) K]. split; [|assumption].
                 unfold LoopLe. split; [assumption|]. split; [congruence|]. split; [lia|].
                 rewrite len_app in Hl4. change (len [byte_of ch; byte_of (t_last t0)]) with 2 in Hl4. lia.
              ** wp_next Hi0. specialize (Hadv0 E0).
                 eapply wp_mono; [apply IH; [assumption|apply Fuel; [assumption|lia]]|].
                 intros [[t4 tok] out] [(Hi4 & Hfr4 & Hp4 & Hl4) K]. split; [|assumption].
                 unfold LoopLe. split; [assumption|]. split; [congruence|]. split; [lia|].
                 rewrite len_app in Hl4. change (len [byte_of (sql_decode (t_last t0))]) with 1 in Hl4. lia.
        -- destruct ((ch =? delim)%N && negb (t_last t0 =? delim)%N).
           ++ apply wp_ok. split; [exact L0|assumption].
           ++ wp_next Hi0.
              eapply wp_mono; [apply IH; [assumption|apply Fuel; [assumption|lia]]|].
              intros [[t4 tok] out] [(Hi4 & Hfr4 & Hp4 & Hl4) K]. split; [|assumption].
              unfold LoopLe. split; [assumption|]. split; [congruence|]. split; [lia|].
              rewrite len_app in Hl4. change (len [byte_of ch]) with 1 in Hl4. lia.
Qed.

Lemma scan_string_spec lf t delim typ :
  typ <> TK_RESCAN -> inv1 t -> fuel_ok lf t -> wp (scan_string lf t delim typ) (TokPost 0 t).
Proof.
  intros Ht Hi Hf. unfold scan_string.
  eapply wp_mono; [apply scan_string_loop_spec; assumption|].
  intros [[t1 tok] out] [(Hi1 & Hfr1 & Hp1 & Hl1) K]. change (len []) with 0 in Hl1. unfold TokPost.
  split; [assumption|]. split; [assumption|]. split; [lia|]. split; [lia|assumption].
Qed.

(** * scan_body (scanToken without the nested tokenizer) *)
Definition frame2 (t : tkn) := (t_buf t, t_feof t, t_multi t, t_dia t, t_ddef t).
Definition p0 (t : tkn) : Z := Z.max (t_pos t) 1.

Lemma frame_frame2 t t' : frame t' = frame t -> frame2 t' = frame2 t.
Proof. unfold frame, frame2. intros H. inversion H. congruence. Qed.
Lemma frame_special t t' : frame t' = frame t -> t_special t' = t_special t.
Proof. unfold frame. intros H. inversion H. reflexivity. Qed.
Lemma frame_pvi t t' : frame t' = frame t -> t_pvi t' = t_pvi t.
Proof. unfold frame. intros H. inversion H. reflexivity. Qed.
Lemma frame_ddef t t' : frame t' = frame t -> t_ddef t' = t_ddef t.
Proof. unfold frame. intros H. inversion H. reflexivity. Qed.

Definition BodyPost (t : tkn) (r : tokres) : Prop :=
  let '(t', tok, val) := r in
  inv1 t' /\ frame2 t' = frame2 t /\ p0 t <= t_pos t' /\ (tok <> 0 -> p0 t < t_pos t') /\
  ((tok = TK_RESCAN /\ val = [] /\ t_pvi t' = t_pvi t /\
    exists sql, t_special t' = Some (fresh (t_ddef t) (t_ddef t) sql) /\ len sql + 5 <= t_pos t' - p0 t)
   \/ (tok <> TK_RESCAN /\ t_special t' = t_special t /\
       ((t_pvi t' = t_pvi t /\ len val <= t_pos t' - p0 t)
        \/ (t_pvi t' = t_pvi t + 1 /\ tok = TK_VALUE_ARG /\ val = pos_var (t_pvi t'))))).

Lemma tokpost_body t tk base r :
  frame tk = frame t -> 0 <= base -> p0 t + base <= t_pos tk ->
  TokPost base tk r ->
  (p0 t < t_pos tk \/ t_pos tk < t_pos (fst (fst r))) ->
  BodyPost t r.
Proof.
  intros Hfr Hb0 Hb. destruct r as [[t' tok] val]. intros (Hi & Hfr' & Hp & Hl & K) Pr. cbn [fst] in Pr.
  unfold BodyPost. split; [assumption|]. split; [apply frame_frame2; congruence|]. split; [lia|].
  split; [intros _; lia|]. right. split; [assumption|]. split; [apply frame_special; congruence|].
  left. split; [apply frame_pvi; congruence|lia].
Qed.

Lemma scan_mysql_specific_comment_spec lf t :
  inv1 t -> t_last t <> c_eof -> fuel_ok lf t ->
  wp (scan_mysql_specific_comment lf t) (fun r => let '(t', tok, val) := r in
     inv1 t' /\ frame2 t' = frame2 t /\ t_pvi t' = t_pvi t /\ t_pos t + 1 <= t_pos t' /\
     ((tok = TK_RESCAN /\ val = [] /\
       exists sql, t_special t' = Some (fresh (t_ddef t) (t_ddef t) sql) /\ len sql + 5 <= 2 + (t_pos t' - t_pos t))
      \/ (tok = TK_LEX_ERROR /\ t_special t' = t_special t /\ len val <= 2 + (t_pos t' - t_pos t)))).
Proof.
  intros Hi Hne Hf. unfold scan_mysql_specific_comment. wp_next Hi. specialize (Hadv Hne).
  apply wp_bind. eapply wp_mono; [apply comment2_loop_spec; [assumption|fuel_tr]|].
  intros [[t1 b] closed] [(Hi1 & Hfr1 & Hp1 & b' & Eb & Lb) C].
  assert (Lb2 : len b = 3 + (t_pos t1 - t_pos t0)) by (subst b; rewrite len_app; change (len x_mysql_comment_prefix) with 3; lia).
  assert (F : frame t1 = frame t) by congruence.
  destruct closed.
  - specialize (C eq_refl). apply wp_bind. eapply wp_mono; [apply extract_mysql_comment_spec; lia|].
    intros sql Hs. cbv beta in Hs. apply wp_ok.
    split; [exact Hi1|]. split; [apply (frame_frame2 _ _ F)|]. split; [apply (frame_pvi _ _ F)|]. split; [cbn; lia|].
    left. split; [reflexivity|]. split; [reflexivity|]. exists sql. cbn [t_special set_special t_pos t_ddef].
    rewrite (frame_ddef _ _ F). split; [reflexivity|lia].
  - apply wp_ok. split; [exact Hi1|]. split; [apply (frame_frame2 _ _ F)|]. split; [apply (frame_pvi _ _ F)|].
    split; [lia|]. right. split; [reflexivity|]. split; [apply (frame_special _ _ F)|lia].
Qed.

Lemma fuel_ok_big lf t tk :
  len (t_buf t) + 1 < Z.of_nat lf -> frame tk = frame t -> inv1 tk -> fuel_ok lf tk.
Proof.
  intros H F Hi. unfold fuel_ok. rewrite (frame_buf _ _ F). pose proof (inv1_pos_range tk Hi). lia.
Qed.

Lemma skip_cond_eof : (fun c => negb (c =? 59)%N && negb (is_eof c)) c_eof = false.
Proof. reflexivity. Qed.
Lemma blank_cond_eof : is_blank c_eof = false.
Proof. reflexivity. Qed.

Lemma skip_blank_spec lf t : inv1 t -> fuel_ok lf t ->
  wp (skip_blank lf t) (fun t' => inv1 t' /\ frame t' = frame t /\ t_pos t <= t_pos t').
Proof.
  intros Hi Hf. unfold skip_blank. apply wp_bind.
  eapply wp_mono; [apply (scan_while_spec _ blank_cond_eof); assumption|].
  intros [t1 b] [(Hi1 & Hfr1 & Hp1 & _) _]. apply wp_ok. split; [assumption|]. split; assumption.
Qed.
Lemma skip_statement_spec lf t : inv1 t -> fuel_ok lf t ->
  wp (skip_statement lf t) (fun t' => inv1 t' /\ frame t' = frame t /\ t_pos t <= t_pos t').
Proof.
  intros Hi Hf. unfold skip_statement. apply wp_bind.
  eapply wp_mono; [apply (scan_while_spec _ skip_cond_eof); assumption|].
  intros [t1 b] [(Hi1 & Hfr1 & Hp1 & _) _]. apply wp_ok. split; [assumption|]. split; assumption.
Qed.

Ltac use_ne t H := repeat match goal with Ha : t_last t <> c_eof -> _ |- _ => specialize (Ha H) end.
Ltac learn E :=
  match type of E with
  | is_eof (t_last ?t) = false =>
      let H := fresh "Hne" in assert (H : t_last t <> c_eof) by (apply is_eof_false; exact E); use_ne t H
  | context [t_last ?t] =>
      first [ (let H := fresh "Hne" in assert (H : t_last t <> c_eof) by ne_eof E; use_ne t H) | idtac ]
  | _ => idtac
  end.
Ltac nxt :=
  match goal with
  | |- wp (bind (next ?t) _) _ =>
      match goal with Hi : inv1 t |- _ => wp_next Hi end;
      try match goal with Hn : t_last t <> c_eof, Ha : t_last t <> c_eof -> _ |- _ => specialize (Ha Hn) end
  end.
Ltac ifs :=
  match goal with
  | |- wp (if ?c then _ else _) _ => let E := fresh "E" in destruct c eqn:E; learn E
  end.
Ltac tokne' := first [ tokne | (unfold tokc, TK_RESCAN; lia) ].
Ltac leaf :=
  apply wp_ok; unfold BodyPost, p0;
  split; [assumption|]; split; [apply frame_frame2; congruence|]; split; [lia|];
  split; [first [ (intros _; lia) | (let X := fresh in intro X; exfalso; apply X; reflexivity) ]|];
  right; split; [tokne'|]; split; [apply frame_special; congruence|];
  left; split; [apply frame_pvi; congruence|lens].
Ltac fuel_big := eapply fuel_ok_big; [eassumption|congruence|assumption].
(** a scanner [lem] called in state [tk] after at least [base] characters of this token were consumed *)
Ltac sub_scan lem base :=
  eapply wp_mono; [apply lem; [assumption|fuel_big]|];
  let r := fresh "r" in let H := fresh "H" in
  intros r H; eapply (tokpost_body _ _ base); [ | | |exact H| ]; [congruence|lia|unfold p0; lia|left; unfold p0; lia].

Lemma scan_body_spec lf t :
  inv1 t -> len (t_buf t) + 1 < Z.of_nat lf -> wp (scan_body lf t) (BodyPost t).
Proof.
  intros Hi Hlf. unfold scan_body. unfold p0 in *.
  (* the first read *)
  apply wp_bind.
  apply (wp_mono _ (fun ta => inv1 ta /\ frame ta = frame t /\ Z.max (t_pos t) 1 <= t_pos ta)).
  { destruct (t_last t =? 0)%N eqn:E0.
    - assert (Hne : t_last t <> c_eof) by ne_eof E0.
      eapply wp_mono; [apply next_spec; assumption|]. intros ta (Hia & Hfa & Hpa & H1 & Hadv & _).
      specialize (Hadv Hne). split; [assumption|]. split; [assumption|lia].
    - apply wp_ok. split; [assumption|]. split; [reflexivity|].
      pose proof (inv1_pos_range t Hi). destruct Hi as (_ & _ & _ & Hz & _). apply N.eqb_neq in E0.
      assert (t_pos t <> 0) by (intro C; apply E0, Hz, C). lia. }
  intros ta (Hia & Hfa & Hpa).
  destruct (t_feof ta).
  { apply wp_bind. eapply wp_mono; [apply skip_statement_spec; [assumption|fuel_big]|].
    intros ts (His & Hfs & Hps). unfold p0. leaf. }
  apply wp_bind. eapply wp_mono; [apply skip_blank_spec; [assumption|fuel_big]|].
  intros tb (Hib & Hfb & Hpb). cbv zeta. unfold p0.
  assert (Fb : frame tb = frame t) by congruence.
  ifs.
  { (* letter *)
    nxt. ifs; [nxt; sub_scan scan_hex_spec 0|].
    ifs; [nxt; sub_scan scan_bit_literal_spec 0|].
    ifs.
    - nxt. eapply wp_mono; [apply scan_string_spec; [tokne|assumption|fuel_big]|].
      intros r H; eapply (tokpost_body _ _ 0); [ | | |exact H| ]; [congruence|lia|unfold p0; lia|left; unfold p0; lia].
    - eapply wp_mono; [apply scan_identifier_spec; [assumption|fuel_big]|].
      intros r H; eapply (tokpost_body _ _ 1); [ | | |exact H| ]; [congruence|lia|unfold p0; lia|left; unfold p0; lia]. }
  ifs.
  { (* digit *)
    eapply wp_mono; [apply scan_number_spec; [assumption|fuel_big]|].
    intros r [H P]. eapply (tokpost_body _ _ 0); [ | | |exact H| ]; [congruence|lia|unfold p0; lia|right; apply P; [reflexivity|assumption]]. }
  ifs.
  { (* ':' *)
    eapply wp_mono; [apply scan_bind_var_spec; [assumption|assumption|fuel_big]|].
    intros r [H P]. eapply (tokpost_body _ _ 0); [ | | |exact H| ]; [congruence|lia|unfold p0; lia|right; exact P]. }
  ifs; [unfold p0; leaf|].
  nxt. cbv zeta.
  ifs; [unfold p0; leaf|].
  ifs; [unfold p0; leaf|].
  ifs; [ifs; [nxt|]; unfold p0; leaf|].
  ifs; [ifs; [nxt|]; unfold p0; leaf|].
  ifs.
  { (* '?' *)
    apply wp_ok. unfold BodyPost, p0. cbn [t_pos set_pvi t_pvi t_special].
    split.
    { pose proof (frame_pvi _ _ Hfr) as Epv. destruct Hib as (_ & _ & _ & _ & Fb5).
      destruct Hi0 as (A & B & C & D & F). unfold inv1; cbn [t_bufpos t_buf t_last t_pos t_pvi set_pvi].
      split; [exact A|]. split; [exact B|]. split; [exact C|]. split; [exact D|]. lia. }
    split; [change (frame2 t0 = frame2 t); apply frame_frame2; congruence|]. split; [lia|]. split; [intros _; lia|].
    right. split; [tokne|]. split; [apply frame_special; congruence|].
    right. split; [rewrite (frame_pvi t0 t) by congruence; reflexivity|]. split; reflexivity. }
  ifs.
  { ifs; [|unfold p0; leaf].
    eapply wp_mono; [apply scan_number_spec; [assumption|fuel_big]|].
    intros r [H _]. eapply (tokpost_body _ _ 1); [ | | |exact H| ]; [congruence|lia|unfold p0; lia|left; unfold p0; lia]. }
  ifs.
  { (* '/' *)
    ifs.
    - nxt. eapply wp_mono; [apply scan_comment_type1_spec; [assumption|fuel_big]|].
      intros r H; eapply (tokpost_body _ _ 2); [ | | |exact H| ]; [congruence|lia|unfold p0; lia|left; unfold p0; lia].
    - ifs; [|unfold p0; leaf].
      nxt. ifs.
      + eapply wp_mono; [apply scan_mysql_specific_comment_spec; [assumption|assumption|fuel_big]|].
        intros [[t' tok] val] (Hi' & Hf2 & Hpv & Hp' & Alt). unfold BodyPost, p0.
        assert (F1 : frame t1 = frame t) by congruence.
        split; [assumption|]. split; [rewrite Hf2; apply frame_frame2; exact F1|]. split; [lia|]. split; [intros _; lia|].
        destruct Alt as [(Et & Ev & sql & Es & Hs)|(Et & Es & Hl)].
        * left. split; [assumption|]. split; [assumption|]. split; [rewrite Hpv; apply frame_pvi; exact F1|].
          exists sql. rewrite <- (frame_ddef _ _ F1). split; [exact Es|lia].
        * right. split; [rewrite Et; tokne|]. split; [rewrite Es; apply frame_special; exact F1|].
          left. split; [rewrite Hpv; apply frame_pvi; exact F1|lia].
      + eapply wp_mono; [apply scan_comment_type2_spec; [assumption|fuel_big]|].
        intros r H; eapply (tokpost_body _ _ 2); [ | | |exact H| ]; [congruence|lia|unfold p0; lia|left; unfold p0; lia]. }
  ifs.
  { eapply wp_mono; [apply scan_comment_type1_spec; [assumption|fuel_big]|].
    intros r H; eapply (tokpost_body _ _ 1); [ | | |exact H| ]; [congruence|lia|unfold p0; lia|left; unfold p0; lia]. }
  ifs.
  { (* '-' *)
    ifs.
    - nxt. eapply wp_mono; [apply scan_comment_type1_spec; [assumption|fuel_big]|].
      intros r H; eapply (tokpost_body _ _ 2); [ | | |exact H| ]; [congruence|lia|unfold p0; lia|left; unfold p0; lia].
    - ifs; [|unfold p0; leaf]. nxt. ifs; [nxt|]; unfold p0; leaf. }
  ifs.
  { (* '<' *)
    ifs; [nxt; unfold p0; leaf|]. ifs; [nxt; unfold p0; leaf|].
    ifs; [|unfold p0; leaf]. nxt. ifs; [nxt|]; unfold p0; leaf. }
  ifs.
  { ifs; [nxt; unfold p0; leaf|]. ifs; [nxt|]; unfold p0; leaf. }
  ifs.
  { ifs; [nxt|]; unfold p0; leaf. }
  ifs.
  { eapply wp_mono; [apply scan_dollar_parameter_spec; [assumption|fuel_big]|].
    intros r H; eapply (tokpost_body _ _ 1); [ | | |exact H| ]; [congruence|lia|unfold p0; lia|left; unfold p0; lia]. }
  ifs.
  { eapply wp_mono; [apply scan_literal_identifier_spec; [assumption|fuel_big]|].
    intros r H; eapply (tokpost_body _ _ 0); [ | | |exact H| ]; [congruence|lia|unfold p0; lia|left; unfold p0; lia]. }
  ifs.
  { eapply wp_mono; [apply scan_string_spec; [apply string_token_type_not_rescan|assumption|fuel_big]|].
    intros r H; eapply (tokpost_body _ _ 0); [ | | |exact H| ]; [congruence|lia|unfold p0; lia|left; unfold p0; lia]. }
  unfold p0; leaf.
Qed.
