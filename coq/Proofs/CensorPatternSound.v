(** Soundness of the implemented pattern matcher w.r.t. the documented relation (WHERE placeholder read as
    the code reads it): [meq where_pat q p = Ok true -> inst true p q = true] for well-shaped trees.
    The proof goes kind by kind; for every plain struct comparator it unfolds the field table of the model and
    the ALL-FIELDS rule of [inst], so a field that the matcher does not compare (and that is not declared
    presentation-only in [ignorable]) makes this file fail to compile. *)
From Coq Require Import List Bool NArith Arith Lia.
From Acra Require Import Lib.Bytes Lib.Outcome Model.CensorPattern Proofs.CensorTree.
Import ListNotations.

Lemma meq_unfold wp q pk pl pcs :
  meq wp q (T pk pl pcs) =
  body wp q (T pk pl pcs) (fun _ => subs (meq wp) pcs (tkids q)) (fun lp => pairwise (meq wp) lp pcs (tkids q))
    (fun _ => tuple (meq wp) pcs (tkids q)).
Proof. reflexivity. Qed.

Lemma is_empty_nil (b : bytes) : is_empty b = true -> b = [].
Proof. destruct b; [reflexivity | discriminate]. Qed.

Lemma wf_nil t : wf t = true -> is_nil t = true -> t = tnil.
Proof.
  destruct t as [k l cs]. intros Hw Hn. apply is_nil_kind in Hn. cbn in Hn. subst k.
  cbn in Hw. rewrite !andb_true_iff in Hw. destruct Hw as [_ [Hc Hl]].
  destruct cs; [|discriminate]. cbn in Hl. apply is_empty_nil in Hl. subst. reflexivity.
Qed.

Lemma inst_tnil wt q : inst wt tnil q = is_nil q || (slice_kind (tkind q) && (length (tkids q) =? 0)).
Proof. reflexivity. Qed.

Definition SoundAt (p : tree) : Prop :=
  forall q, wf p = true -> wf q = true -> meq where_pat q p = Ok true -> inst true p q = true.

Lemma fld_sound pl q p r :
  fld pl q p r = Ok true ->
  wf p = true -> wf q = true ->
  (pl = PList -> is_nil q || slice_kind (tkind q) = true) ->
  (r = Ok true -> inst true p q = true) ->
  inst true p q = true.
Proof.
  intros H Hp Hq Hl Hr. destruct pl; cbn in H.
  - destruct (is_nil p) eqn:Np, (is_nil q) eqn:Nq; cbn in H; try discriminate; auto.
    apply wf_nil in Np; auto. subst p. rewrite inst_tnil, Nq. reflexivity.
  - destruct (is_nil p || is_nil q); [discriminate | auto].
  - destruct (is_nil p || is_nil q); [discriminate | auto].
  - destruct (is_nil p) eqn:Np; auto.
    apply wf_nil in Np; auto. subst p. rewrite inst_tnil. injection H as H.
    specialize (Hl eq_refl). apply orb_true_iff in Hl. destruct Hl as [->| ->]; [reflexivity|].
    rewrite H. cbn. apply orb_true_r.
  - auto.
Qed.


Lemma deep_sound q p :
  tree_eqb q p = true -> wf p = true -> is_nil p || is_k K_Comments p = true -> inst true p q = true.
Proof.
  intros H Hp Hk. apply tree_eqb_eq in H. subst q. apply orb_true_iff in Hk. destruct Hk as [Hk|Hk].
  - apply wf_nil in Hk; auto. subst p. reflexivity.
  - destruct p as [k l cs]. apply kind_eqb_eq in Hk. cbn in Hk. subst k. cbn [inst]. apply tree_eqb_refl.
Qed.

Lemma lab_sound q p :
  lab_eqb q p = true -> wf p = true -> wf q = true -> is_k K_bool p = true -> is_k K_bool q = true ->
  inst true p q = true.
Proof.
  intros H Hp Hq Kp Kq. destruct p as [k l cs], q as [k' l' cs'].
  apply kind_eqb_eq in Kp, Kq. cbn in Kp, Kq. subst k k'.
  cbn in Hp, Hq. rewrite !andb_true_iff in Hp, Hq. destruct Hp as [_ [Hp _]], Hq as [_ [Hq _]].
  destruct cs; [|discriminate]. destruct cs'; [|discriminate].
  unfold lab_eqb in H. cbn in H. cbn. rewrite H. reflexivity.
Qed.

Ltac bsplit := repeat match goal with
  | H : _ && _ = true |- _ => apply andb_true_iff in H; destruct H
  | H : true = true |- _ => clear H
  end.

Ltac explode := repeat match goal with
  | H : (length ?l =? S _) = true |- _ => destruct l; [discriminate H|]; cbn [length Nat.eqb] in H
  | H : (length ?l =? 0) = true |- _ => destruct l; [clear H | discriminate H]
  | H : length ?l = S _ |- _ => destruct l; [discriminate H|]; cbn [length] in H; apply Nat.succ_inj in H
  | H : length ?l = 0 |- _ => destruct l; [clear H | discriminate H]
  | H : Forall _ (_ :: _) |- _ => pose proof (Forall_inv H); apply Forall_inv_tail in H
  | H : Forall _ [] |- _ => clear H
  end.

Ltac split_H H := repeat match type of H with
  | context [fld ?pl ?d ?c ?r] => let E := fresh "E" in destruct (fld pl d c r) as [[|]| |] eqn:E; try discriminate H
  | context [tree_eqb ?d ?c] => let E := fresh "E" in destruct (tree_eqb d c) eqn:E; try discriminate H
  | context [lab_eqb ?d ?c] => let E := fresh "E" in destruct (lab_eqb d c) eqn:E; try discriminate H
  end.

Ltac use_facts := repeat match goal with
  | E : fld ?pl ?d ?c _ = Ok true, IH : SoundAt ?c |- _ =>
      let F := fresh "F" in
      assert (F : inst true c d = true)
        by (apply (fld_sound _ _ _ _ E); [assumption | assumption | try discriminate; intros _; assumption | apply IH; assumption]);
      clear E
  | E : tree_eqb ?d ?c = true |- _ =>
      let F := fresh "F" in
      assert (F : inst true c d = true) by (apply deep_sound; assumption); clear E
  | E : lab_eqb ?d ?c = true |- _ =>
      let F := fresh "F" in
      assert (F : inst true c d = true) by (apply lab_sound; assumption); clear E
  end.


Lemma wf_unfold k lab cs :
  wf (T k lab cs) =
  forallb wf cs &&
  (if leaf_kind k then is_empty_list cs && (negb (kind_eqb k K_nil) || is_empty lab)
   else if list_kind k then
     is_empty lab && forallb (fun c => negb (slice_kind (tkind c))) cs &&
     match list_pol k with
     | Some PGuard | None => true
     | Some _ => forallb (fun c => negb (is_nil c)) cs
     end
   else if kind_is_slice k then is_empty lab
   else
     is_empty lab && Nat.eqb (length cs) (length (kind_fields k)) &&
     match struct_spec k with
     | Some sp => forallb (entry_ok (T k lab cs)) sp
     | None => true
     end &&
     match k with
     | K_SQLVal => is_unknown_val (T k lab cs) || is_nil (kid 3 (T k lab cs))
     | _ => true
     end).
Proof. reflexivity. Qed.

Lemma inst_unfold wt pk pl pcs s :
  inst wt (T pk pl pcs) s =
    let p0 := T pk pl pcs in
    let generic := fun _ : unit =>
      kind_eqb (tkind s) pk && bytes_eqb (tlab s) pl && inst_kids (inst wt) wt pk 0 pcs (tkids s) false in
    match pk with
    | K_nil => is_nil s || (slice_kind (tkind s) && Nat.eqb (length (tkids s)) 0)
    | K_string => is_k K_string s && fold_eqb (tlab s) pl
    | K_ColIdent => is_k K_ColIdent s && (is_column_ph p0 || colident_eqb s p0)
    | K_SQLVal =>
        if is_value_ph p0 || is_list_ph p0 then value_class s
        else is_k K_SQLVal s &&
             (if is_unknown_val s || is_unknown_val p0 then tree_eqb s p0      (* cast of NULL / DEFAULT: identical *)
              else lab_eqb (kid 0 s) (kid 0 p0) && lab_eqb (kid 1 s) (kid 1 p0) && lab_eqb (kid 2 s) (kid 2 p0)
                   && tree_eqb (kid 3 s) (kid 3 p0))                        (* same type, value, cast *)
    | K_ColName =>
        if is_k K_ColName s then generic tt
        else column_like s && is_column_ph (kid 1 p0)
    | K_AliasedExpr =>
        if is_k K_AliasedExpr s then generic tt
        else is_k K_StarExpr s && is_k K_ColName (kid 0 p0) && is_column_ph (kid 1 (kid 0 p0))
    | K_Subquery =>
        is_k K_Subquery s && (is_subquery_ph p0 || generic tt)
    | K_Union | K_Select | K_Insert | K_Update | K_Delete =>
        is_k pk s &&
        ((match stmt_ph pk with Some c => tree_eqb p0 c | None => false end) || generic tt)
    | K_ValTuple => is_k K_ValTuple s && inst_tuple (inst wt) pcs (tkids s)
    | K_SelectExprs | K_Returning =>
        if is_star_list pcs then is_k pk s || is_nil s
        else if is_nil s then Nat.eqb (length pcs) 0 else generic tt
    | K_Comments => tree_eqb s p0
    | _ =>
        if deep_stmt pk then tree_eqb s p0
        else if slice_kind pk && is_nil s then Nat.eqb (length pcs) 0
        else generic tt
    end.
Proof. reflexivity. Qed.

Ltac open_same H := match type of H with
  | (if negb ?s then _ else _) = _ => let Hs := fresh "Hs" in destruct s eqn:Hs; cbn [negb] in H; [|discriminate H]
  end.

Ltac kind_subst := repeat match goal with
  | H : kind_eqb _ _ = true |- _ => apply kind_eqb_eq in H; cbn [tkind] in H; subst
  end.

Ltac labels := repeat match goal with
  | H : is_empty _ = true |- _ => apply is_empty_nil in H; subst
  end.

Ltac finish :=
  rewrite inst_unfold; cbn -[inst is_where_ph];
  repeat match goal with
   | H : Ok true = Ok true |- _ => clear H
   | H : Ok ?b = Ok true |- _ => injection H as H
   | H : where_pat ?c = Ok true |- _ =>
       let W := fresh "W" in assert (W : is_where_ph c = true) by (unfold is_where_ph; rewrite H; reflexivity); clear H
   end;
  repeat match goal with W : is_where_ph ?c = true |- context [is_where_ph ?c] => rewrite W end;
  repeat match goal with |- context [is_where_ph ?c] => let W := fresh "W" in destruct (is_where_ph c) eqn:W end;
  cbn -[inst];
  repeat match goal with F : ?x = true |- context [?x] => rewrite F end;
  rewrite ?orb_true_r; cbn -[inst];
  try reflexivity; try assumption.

Ltac stageA q H := open_same H; bsplit; destruct q as [?qk ?ql ?qcs]; cbn [tkind tkids] in *; kind_subst.
Ltac stageB Hp Hq := cbn in Hp; bsplit; explode; cbn [length] in *; explode; cbn in Hq; bsplit.
Ltac stageC H :=
  cbn [run_spec kid nth subs tkids fst snd] in H; split_H H;
  cbn [forallb] in *; bsplit; labels; use_facts; finish.

(* plain struct comparator on a concrete kind *)
Ltac plain_tac q Hp Hq H := stageA q H; stageB Hp Hq; stageC H.

(* statement with a whole-statement placeholder in front *)
Ltac stmt_tac q Hp Hq H :=
  stageA q H;
  match type of H with (if ?c then _ else _) = _ =>
    let Eph := fresh "Eph" in destruct c eqn:Eph;
    [ rewrite inst_unfold; cbn -[inst tree_eqb]; rewrite Eph; reflexivity
    | stageB Hp Hq; stageC H ]
  end.

(* comparator with a fall-back when the query node is of another kind *)
Ltac fallback_tac q Hp Hq H :=
  match type of H with (if negb ?c then _ else _) = _ =>
    let Hkq := fresh "Hkq" in destruct c eqn:Hkq; cbn [negb] in H;
    [ plain_tac q Hp Hq H
    | injection H as H; rewrite inst_unfold; cbn beta zeta iota; rewrite Hkq; exact H ]
  end.

Lemma no_ignorable_list k : list_kind k = true -> forall i, ignorable k i = false.
Proof. destruct k; cbn; try discriminate; reflexivity. Qed.

Lemma no_where_list k : list_kind k = true -> where_idx k = None.
Proof. destruct k; cbn; try discriminate; reflexivity. Qed.

Lemma pairwise_sound k lp : list_kind k = true -> lp <> PList ->
  forall pcs qcs i,
  Forall SoundAt pcs -> forallb wf pcs = true -> forallb wf qcs = true ->
  length qcs = length pcs ->
  pairwise (meq where_pat) lp pcs qcs = Ok true ->
  inst_kids (inst true) true k i pcs qcs false = true.
Proof.
  intros Hk Hlp. induction pcs as [|p1 ps IHps]; intros [|q1 qs] i IH Hp Hq Hlen H; try discriminate; [reflexivity|].
  cbn [pairwise] in H. cbn [inst_kids]. rewrite (no_ignorable_list k Hk), (no_where_list k Hk). cbn [orb andb opt_nat_is].
  cbn [forallb] in Hp, Hq. bsplit. explode.
  destruct (fld lp q1 p1 (meq where_pat q1 p1)) as [[|]| |] eqn:E; try discriminate H.
  rewrite (fld_sound _ _ _ _ E); auto. cbn [andb]. apply IHps; auto.
Qed.

Lemma sqlval_list_ph_sound p q :
  is_k K_SQLVal p = true -> is_list_ph p = true -> inst true p q = true -> value_class q = true.
Proof.
  intros Hk Hl H. destruct p as [k l cs]. apply kind_eqb_eq in Hk. cbn in Hk. subst k.
  rewrite inst_unfold in H. cbn beta zeta iota in H. rewrite Hl, orb_true_r in H. exact H.
Qed.

Lemma tuple_rest_sound p1 : SoundAt p1 -> wf p1 = true -> is_k K_SQLVal p1 = true -> is_list_ph p1 = true ->
  forall qs, forallb wf qs = true ->
  tuple_rest (fun q => fld PGuard q p1 (meq where_pat q p1)) qs = Ok true ->
  forallb value_class qs = true.
Proof.
  intros IH Hp Hk Hl. induction qs as [|q1 qs IHqs]; intros Hq H; [reflexivity|].
  cbn [tuple_rest] in H. cbn [forallb] in *. bsplit.
  destruct (fld PGuard q1 p1 (meq where_pat q1 p1)) as [[|]| |] eqn:E; try discriminate H.
  rewrite (sqlval_list_ph_sound p1 q1 Hk Hl), IHqs; auto.
  apply (fld_sound _ _ _ _ E); auto. discriminate.
Qed.

Lemma tuple_sound : forall pcs qcs,
  Forall SoundAt pcs -> forallb wf pcs = true -> forallb wf qcs = true ->
  tuple (meq where_pat) pcs qcs = Ok true ->
  inst_tuple (inst true) pcs qcs = true.
Proof.
  induction pcs as [|p1 ps IHps]; intros [|q1 qs] IH Hp Hq H; cbn [tuple] in H; try discriminate; [reflexivity|].
  cbn [forallb] in Hp, Hq. bsplit. explode.
  destruct (fld PGuard q1 p1 (meq where_pat q1 p1)) as [[|]| |] eqn:E; try discriminate H.
  assert (F : inst true p1 q1 = true) by (apply (fld_sound _ _ _ _ E); auto; discriminate).
  cbn [inst_tuple]. destruct ps as [|p2 ps].
  - destruct (is_k K_SQLVal p1 && is_list_ph p1) eqn:Eph.
    + apply andb_true_iff in Eph. destruct Eph as [Hk Hl].
      rewrite (sqlval_list_ph_sound p1 q1 Hk Hl F). cbn [andb].
      destruct qs as [|q2 qs]; [reflexivity|]. apply (tuple_rest_sound p1); auto.
    + destruct qs; [|discriminate H]. rewrite F. reflexivity.
  - rewrite F. cbn [andb]. apply IHps; auto.
Qed.

Ltac by_inj H := injection H as H; rewrite inst_unfold; cbn beta zeta iota; cbn [deep_stmt]; exact H.


Lemma leaf_kind_not_list k : list_kind k = true -> leaf_kind k = false.
Proof. destruct k; cbn; try discriminate; reflexivity. Qed.

Lemma forallb_nth (l : list tree) i : forallb wf l = true -> wf (nth i l tnil) = true.
Proof.
  revert i. induction l as [|x l IHl]; intros [|i] H; try reflexivity; cbn [forallb] in H; apply andb_true_iff in H; destruct H; cbn [nth]; auto.
Qed.

Lemma wf_kids k l cs : wf (T k l cs) = true -> forallb wf cs = true.
Proof. rewrite wf_unfold. intro H. apply andb_true_iff in H. apply H. Qed.

Lemma list_sound k lp pl pcs q :
  list_pol k = Some lp -> lp <> PList -> deep_stmt k = false ->
  Forall SoundAt pcs -> wf (T k pl pcs) = true -> wf q = true ->
  is_k k q || (slice_kind k && is_nil q) = true -> (length (tkids q) =? length pcs) = true ->
  pairwise (meq where_pat) lp pcs (tkids q) = Ok true ->
  (if slice_kind k && is_nil q then Nat.eqb (length pcs) 0
   else kind_eqb (tkind q) k && bytes_eqb (tlab q) pl && inst_kids (inst true) true k 0 pcs (tkids q) false) = true.
Proof.
  intros Hlp Hne Hd IH Hp Hq Hkq Hlen H.
  assert (Hlk : list_kind k = true) by (unfold list_kind; rewrite Hlp; reflexivity).
  destruct (slice_kind k && is_nil q) eqn:Nq.
  - apply andb_true_iff in Nq. destruct Nq as [_ Nq].
    apply wf_nil in Nq; auto. subst q. cbn [tkids length] in Hlen. rewrite Nat.eqb_sym. exact Hlen.
  - rewrite orb_false_r in Hkq. unfold is_k in Hkq. rewrite Hkq. cbn [andb].
    pose proof (wf_kids _ _ _ Hp) as Hpk.
    rewrite wf_unfold, (leaf_kind_not_list k Hlk), Hlk in Hp. bsplit. labels.
    destruct q as [qk ql qcs]. cbn [tkind tkids tlab] in *. apply kind_eqb_eq in Hkq. subst qk.
    pose proof (wf_kids _ _ _ Hq) as Hqk.
    rewrite wf_unfold, (leaf_kind_not_list k Hlk), Hlk in Hq. bsplit. labels. cbn [bytes_eqb andb].
    apply (pairwise_sound k lp); auto. apply Nat.eqb_eq; auto.
Qed.

Lemma lab_eqb_refl t : lab_eqb t t = true.
Proof. apply bytes_eqb_refl. Qed.

Lemma sqlval_sound pl pcs q :
  wf (T K_SQLVal pl pcs) = true -> wf q = true ->
  (let p := T K_SQLVal pl pcs in
   if negb (is_k K_SQLVal q) then Ok (value_like q && (is_value_ph p || is_list_ph p)) else
   if is_value_ph p || is_list_ph p then Ok true else
   if is_unknown_val q || is_unknown_val p
   then Ok (tree_eqb q p)
   else Ok (lab_eqb (kid 0 q) (kid 0 p) && lab_eqb (kid 1 q) (kid 1 p) && lab_eqb (kid 2 q) (kid 2 p))) = Ok true ->
  inst true (T K_SQLVal pl pcs) q = true.
Proof.
  intros Hp Hq H. rewrite inst_unfold. cbn beta zeta iota in *.
  set (p := T K_SQLVal pl pcs) in *.
  destruct (is_k K_SQLVal q) eqn:Hkq; destruct (is_value_ph p || is_list_ph p) eqn:Eph; cbn [negb] in H.
  - unfold value_class. rewrite Hkq. reflexivity.
  - cbn [andb]. destruct (is_unknown_val q || is_unknown_val p) eqn:Eu; injection H as H.
    + exact H.
    + rewrite H. cbn [andb]. apply orb_false_iff in Eu. destruct Eu as [Eq Ep].
      pose proof (wf_kids _ _ _ Hp) as Hpk.
      destruct q as [qk ql qcs]. pose proof (wf_kids _ _ _ Hq) as Hqk.
      apply kind_eqb_eq in Hkq. cbn [tkind] in Hkq. subst qk.
      unfold p in *. rewrite wf_unfold in Hp, Hq. cbn [leaf_kind list_kind list_pol kind_is_slice] in Hp, Hq. bsplit.
      rewrite Ep in *. rewrite Eq in *. cbn [orb] in *.
      repeat match goal with N : is_nil (kid 3 ?t) = true |- _ =>
        apply wf_nil in N; [rewrite N | unfold kid; cbn [tkids]; apply forallb_nth; assumption] end.
      reflexivity.
  - injection H as H. rewrite andb_true_r in H. unfold value_class. rewrite H. apply orb_true_r.
  - rewrite andb_false_r in H. discriminate.
Qed.

Ltac leaf_tac q Hp Hq H :=
  injection H as H; bsplit; destruct q as [?qk ?ql ?qcs]; cbn [tkind tkids] in *; kind_subst;
  cbn in Hp, Hq; bsplit;
  repeat match goal with E : is_empty_list ?l = true |- _ => destruct l; [clear E|discriminate E] end;
  cbn [length] in *; explode;
  rewrite inst_unfold; cbn;
  match goal with E : lab_eqb _ _ = true |- _ => unfold lab_eqb in E; cbn [tlab] in E; rewrite E end; reflexivity.

Ltac list_tac q Hp Hq H IH :=
  match type of H with (if negb ?c then _ else _) = _ => let Hkq := fresh "Hkq" in destruct c eqn:Hkq; cbn [negb] in H; [|discriminate H] end;
  match type of H with (if negb ?c then _ else _) = _ => let Hlen := fresh "Hlen" in destruct c eqn:Hlen; cbn [negb] in H; [|discriminate H] end;
  rewrite inst_unfold; cbn beta zeta iota; cbn [deep_stmt];
  eapply list_sound; eauto; try reflexivity; discriminate.

Ltac starlist_tac k q pcs Hp Hq H IH :=
  match type of H with (if negb ?c then _ else _) = _ =>
    let Hkq := fresh "Hkq" in destruct c eqn:Hkq; cbn [negb] in H; [|discriminate H];
    rewrite inst_unfold; cbn beta zeta iota;
    destruct (is_star_list pcs) eqn:Estar; [exact Hkq|];
    match type of H with (if negb ?c2 then _ else _) = _ =>
      let Hlen := fresh "Hlen" in destruct c2 eqn:Hlen; cbn [negb] in H; [|discriminate H] end;
    match goal with |- (if is_nil ?q' then ?a else ?b) = true =>
      change ((if slice_kind k && is_nil q' then a else b) = true) end;
    eapply list_sound; eauto; try reflexivity; discriminate
  end.


Ltac nullval_tac q Hp Hq H :=
  injection H as H; apply tree_eqb_eq in H; subst q;
  cbn in Hp; bsplit; explode; labels; rewrite inst_unfold; cbn; reflexivity.

Ltac tuple_tac q Hp Hq H IH :=
  match type of H with (if negb ?c then _ else _) = _ =>
    let Hkq := fresh "Hkq" in destruct c eqn:Hkq; cbn [negb] in H; [|discriminate H];
    rewrite inst_unfold; cbn beta zeta iota; rewrite Hkq; cbn [andb];
    apply tuple_sound; [exact IH | exact (wf_kids _ _ _ Hp) | destruct q; exact (wf_kids _ _ _ Hq) | exact H]
  end.

Ltac subquery_tac q Hp Hq H :=
  stageA q H; stageB Hp Hq; stageC H;
  try (unfold is_subquery_ph in *; cbn [kid nth tkids] in *;
       match goal with E : tree_eqb _ _ = true |- _ => rewrite E end; reflexivity).

Ltac dispatch k q pcs Hp Hq H IH :=
  lazymatch k with
  | K_string => by_inj H
  | K_ColIdent => by_inj H
  | K_Comments => by_inj H
  | K_Set => by_inj H | K_DBDDL => by_inj H | K_DDL => by_inj H | K_Show => by_inj H | K_Use => by_inj H
  | K_Begin => by_inj H | K_Commit => by_inj H | K_Rollback => by_inj H | K_OtherRead => by_inj H | K_OtherAdmin => by_inj H
  | K_bool => leaf_tac q Hp Hq H | K_int => leaf_tac q Hp Hq H | K_bytes => leaf_tac q Hp Hq H
  | K_BoolVal => leaf_tac q Hp Hq H | K_ListArg => leaf_tac q Hp Hq H
  | K_NullVal => nullval_tac q Hp Hq H
  | K_SQLVal => apply sqlval_sound; assumption
  | K_ColName => fallback_tac q Hp Hq H
  | K_AliasedExpr => fallback_tac q Hp Hq H
  | K_Subquery => subquery_tac q Hp Hq H
  | K_Union => stmt_tac q Hp Hq H | K_Select => stmt_tac q Hp Hq H | K_Insert => stmt_tac q Hp Hq H
  | K_Update => stmt_tac q Hp Hq H | K_Delete => stmt_tac q Hp Hq H
  | K_ValTuple => tuple_tac q Hp Hq H IH
  | K_SelectExprs => starlist_tac K_SelectExprs q pcs Hp Hq H IH
  | K_Returning => starlist_tac K_Returning q pcs Hp Hq H IH
  | K_TableExprs => list_tac q Hp Hq H IH | K_GroupBy => list_tac q Hp Hq H IH | K_Values => list_tac q Hp Hq H IH
  | K_OrderBy => list_tac q Hp Hq H IH | K_OnDup => list_tac q Hp Hq H IH | K_UpdateExprs => list_tac q Hp Hq H IH
  | K_list => list_tac q Hp Hq H IH | K_Columns => list_tac q Hp Hq H IH | K_Partitions => list_tac q Hp Hq H IH
  | _ => first [ solve [destruct (negb _) in H; discriminate H] | plain_tac q Hp Hq H ]
  end.

Lemma meq_sound_all : forall p, SoundAt p.
Proof.
  induction p as [pk pl pcs IH] using tree_ind'.
  intros q Hp Hq H. rewrite meq_unfold in H. unfold body in H. cbn [tkind tkids] in H.
  destruct pk; cbn [struct_spec stmt_ph list_pol slice_kind] in H.
  all: match goal with Hp : wf (T ?k _ _) = true |- _ => dispatch k q pcs Hp Hq H IH end.
Qed.

(** the matcher accepts only instances (the WHERE placeholder read as the code reads it) *)
Lemma match_impl_sound p s :
  wf p = true -> wf s = true -> match_impl p s = Ok true -> instance_of_loose p s = true.
Proof.
  unfold match_impl, instance_of_loose. intros Hp Hs H.
  destruct (top_kind (tkind p)); [|discriminate]. apply meq_sound_all; assumption.
Qed.
