(** C13_statements, round trip, part 6: select expressions, function calls, CASE, CONVERT, INTERVAL. *)
From Acra Require Import Lib.Bytes Gen.Prec Gen.SqlWords Model.SqlStmt Model.SqlStmtParse
  Proofs.SqlStmtUnfold Proofs.SqlStmtFacts Proofs.SqlStmtEqns Proofs.SqlStmtHeads Proofs.SqlStmtRT1 Proofs.SqlStmtRT2 Proofs.SqlStmtRT3
  Proofs.SqlStmtRT4 Proofs.SqlStmtRT5.
From Coq Require Import Arith Lia.

Section RT.
Variable pg : bool.
Notation Cst := (Cst pg). Notation Ust := (Ust pg). Notation Ast := (Ast pg). Notation Pe := (Pe pg).
Notation Dst := (Dst pg). Notation Pxs := (Pxs pg). Notation Pse := (Pse pg). Notation Pses := (Pses pg).
Notation Ssel := (Ssel pg). Notation Pws := (Pws pg). Notation Poe := (Poe pg).

Ltac KL := unfold K in *; lia.
Ltac fuel f := destruct f as [|f]; [KL|].
Ltac napp := repeat (progress (rewrite <- ?app_assoc; cbn [app])).

Lemma case_SStar q : Pse (SStar q).
Proof.
  intros Hwf rest Hh Ha f Hf. rewrite wf_selexpr_SStar in Hwf. split_andb. leb_hyps.
  rewrite print_selexpr_SStar. rewrite need_selexpr_SStar in Hf. fuel f. rewrite pselexpr_S.
  destruct q as [|a [|b [|c q]]]; cbn [length] in *; try lia; cbn [forallb] in *; split_andb; cbn [qual_toks app].
  - reflexivity.
  - destruct (wf_id_tok_shape pg a ltac:(assumption)) as [[va [-> ->]]|[va [-> [-> Hp]]]]; cbn [star_head tok_id]; [reflexivity|].
    rewrite Hp. reflexivity.
  - destruct (wf_id_tok_shape pg a ltac:(assumption)) as [[va [-> ->]]|[va [-> [-> Hp]]]];
    destruct (wf_id_tok_shape pg b ltac:(assumption)) as [[vb [-> ->]]|[vb [-> [-> Hp']]]]; cbn [star_head tok_id];
      try rewrite Hp; try rewrite Hp'; reflexivity.
Qed.

Lemma as_alias_none tid rest : expect_w W_as rest = None -> as_alias tid rest = Some (no_id, rest).
Proof.
  intros H. destruct rest as [|[| | | | |w|] rest]; try reflexivity. destruct w; try reflexivity.
  rewrite expect_w_hit in H. discriminate H.
Qed.

Lemma case_SAliased x a : Pe x -> Pse (SAliased x a).
Proof.
  intros [Cx _] Hwf rest Hh Ha f Hf. rewrite wf_selexpr_SAliased in Hwf. split_andb.
  rewrite print_selexpr_SAliased. rewrite need_selexpr_SAliased in Hf. fuel f. rewrite pselexpr_S.
  rewrite <- app_assoc.
  assert (Hgs : gstop (alias_toks pg a ++ rest) = true)
    by (unfold alias_toks; destruct (id_empty a); [eapply stops_gstop; exact Hh|reflexivity]).
  rewrite (no_star pg x ltac:(assumption) _ Hgs).
  match goal with H : wf_oalias pg a = true |- _ => unfold wf_oalias in H; apply Bool.orb_true_iff in H as [H|H] end.
  - destruct a as [[| |] [|? ?]]; try discriminate. unfold alias_toks. cbn [id_empty app].
    rewrite (pexpr_of_C pg x rest f Cx) by first [assumption | KL]. rewrite (as_alias_none _ rest Ha). reflexivity.
  - unfold alias_toks. rewrite (alias_nonempty pg a) by assumption. cbn [app].
    rewrite (pexpr_of_C pg x (TW W_as :: id_tok pg a :: rest) f Cx) by first [assumption | reflexivity | KL].
    cbn [as_alias]. rewrite (wf_alias_tok pg a) by assumption. reflexivity.
Qed.

Lemma case_SNil : Pses SNil.
Proof. intros _ H. congruence. Qed.

Lemma case_SCons x xs : Pse x -> Pses xs -> Pses (SCons x xs).
Proof.
  intros Px IH Hwf _ rest Hh Hc Ha f Hf. rewrite wf_selexprs_SCons in Hwf. split_andb.
  rewrite need_selexprs_SCons in Hf. fuel f. rewrite pselexprs_S. destruct xs as [|y ys].
  - rewrite print_selexprs_SCons. rewrite (Px ltac:(assumption) rest Hh Ha f) by KL. rewrite Hc. reflexivity.
  - rewrite print_selexprs_SCons2. rewrite <- app_assoc. cbn [app].
    rewrite (Px ltac:(assumption) (TP PComma :: print_selexprs pg (SCons y ys) ++ rest)) by first [reflexivity | KL].
    rewrite (expect_p_hit PComma). rewrite (IH ltac:(assumption) ltac:(discriminate) rest Hh Hc Ha f) by KL. reflexivity.
Qed.

(** first token of a select-expression list: a star form or an expression start *)
Lemma selexprs_head xs rest : wf_selexprs pg xs = true -> xs <> SNil ->
  exists t0 r, print_selexprs pg xs ++ rest = t0 :: r /\ (estart t0 = true \/ t0 = TP PStar).
Proof.
  destruct xs as [|x xs]; [congruence|]. intros Hwf _. rewrite wf_selexprs_SCons in Hwf. split_andb.
  assert (Hx : exists t0 r, print_selexpr pg x = t0 :: r /\ (estart t0 = true \/ t0 = TP PStar)).
  { destruct x as [q|e a].
    - rewrite print_selexpr_SStar. rewrite wf_selexpr_SStar in *. split_andb. destruct q as [|a q]; cbn [qual_toks app].
      + eexists; eexists; split; [reflexivity|right; reflexivity].
      + cbn [forallb] in *. split_andb. eexists; eexists; split; [reflexivity|left; apply estart_id_tok; assumption].
    - rewrite print_selexpr_SAliased. rewrite wf_selexpr_SAliased in *. split_andb.
      destruct (print_head pg e ltac:(assumption)) as [t0 [r [-> Hs]]]. eexists; eexists; split; [reflexivity|left; exact Hs]. }
  destruct Hx as [t0 [r [E Hs]]].
  destruct xs; [rewrite print_selexprs_SCons|rewrite print_selexprs_SCons2]; rewrite E; eexists; eexists; (split; [reflexivity|exact Hs]).
Qed.

Lemma func_wf_ok q n d args : wf pg (EFunc q n d args) = true ->
  exists cls, fname_class n = Some cls /\ fclass_ok cls d args = true.
Proof.
  rewrite wf_EFunc. intros H. split_andb. destruct (fname_class n) as [cls|]; [|discriminate].
  exists cls. split; [reflexivity|]. unfold fclass_ok.
  destruct cls as [|[[?|?|]|[?|?|]|]]; try assumption; try discriminate; destruct args; try assumption; try discriminate.
Qed.

(** the argument list after name '(' *)
Lemma pfargs_ok q n cls d args rest f :
  Pses args -> wf_selexprs pg args = true -> fclass_ok cls d args = true ->
  (d = true -> args <> SNil) ->
  S (S (need_selexprs args)) <= f ->
  pfargs pg f q n cls ((if d then [TW W_distinct] else []) ++ print_selexprs pg args ++ TP PRParen :: rest)
  = Some (EFunc q n d args, rest).
Proof.
  intros IH Hwf Hc Hd Hf. destruct f as [|f]; [lia|]. rewrite pfargs_S.
  destruct d.
  - cbn [app fargs_head]. specialize (Hd eq_refl).
    rewrite (IH Hwf Hd (TP PRParen :: rest)) by first [reflexivity | lia].
    rewrite (expect_p_hit PRParen). rewrite Hc. reflexivity.
  - cbn [app]. destruct args as [|x xs].
    + rewrite print_selexprs_SNil. cbn [app fargs_head]. rewrite Hc. reflexivity.
    + destruct (selexprs_head (SCons x xs) (TP PRParen :: rest) Hwf ltac:(discriminate)) as [t0 [r [E Hs]]].
      replace (fargs_head (print_selexprs pg (SCons x xs) ++ TP PRParen :: rest))
        with (FHArgs (print_selexprs pg (SCons x xs) ++ TP PRParen :: rest)).
      2:{ rewrite E. destruct Hs as [Hs| ->]; [|reflexivity].
          destruct t0 as [| | | |p|w|]; try reflexivity; [destruct p|destruct w]; try reflexivity; discriminate Hs. }
      rewrite (IH Hwf ltac:(discriminate) (TP PRParen :: rest)) by first [reflexivity | lia].
      rewrite (expect_p_hit PRParen). rewrite Hc. reflexivity.
Qed.

Lemma fclass_distinct cls args : fclass_ok cls true args = true -> args <> SNil.
Proof. destruct cls as [|[[?|?|]|[?|?|]|]]; destruct args; try discriminate; intros _; discriminate. Qed.

Lemma case_EFunc q n d args : Pses args -> Pe (EFunc q n d args).
Proof.
  intros IH. apply P_of_D; [reflexivity|reflexivity| |exact I].
  intros Hwf rest Hg f Hf. destruct (func_wf_ok q n d args Hwf) as [cls [Hc Hok]].
  rewrite wf_EFunc in Hwf. split_andb. rewrite print_EFunc, need_EFunc in *.
  assert (Hd : d = true -> args <> SNil) by (intros ->; eapply fclass_distinct; exact Hok).
  destruct f as [|[|f]]; try KL. rewrite patom_S.
  rewrite <- !app_assoc. cbn [app].
  match goal with H : is_no_id q || wf_id pg q = true |- _ => apply Bool.orb_true_iff in H as [Hq|Hq] end.
  - (* no qualifier *)
    destruct q as [[| |] [|? ?]]; try discriminate Hq. cbn [id_empty app]. napp.
    destruct (is_keyword n) eqn:Ek.
    + destruct (fname_kw_head pg n cls (((if d then [TW W_distinct] else []) ++ print_selexprs pg args ++ TP PRParen :: rest)) Hc Ek) as [-> ->].
      apply pfargs_ok; try assumption. KL.
    + assert (Hp : plain_ident n = true).
      { unfold fname_class in Hc. rewrite Ek in Hc. destruct (plain_ident n); [reflexivity|discriminate Hc]. }
      assert (cls = 0%N) by (unfold fname_class in Hc; rewrite Ek, Hp in Hc; inversion Hc; reflexivity). subst cls.
      rewrite (rawid_tok n Hp). cbn [atom_head pcol]. rewrite (expect_p_hit PLParen).
      apply pfargs_ok; try assumption. KL.
  - (* table_id '.' name '(' ... ')' *)
    rewrite (id_nonempty pg q Hq). cbn [app]. napp.
    match goal with H : is_no_id q || _ = true |- _ => apply Bool.orb_true_iff in H as [H|H] end;
      [destruct q as [[| |] [|? ?]]; discriminate|]. split_andb. negb_hyps. subst d.
    rewrite (rawid_tok n) by assumption. rewrite (atom_head_id pg q _ Hq).
    unfold pcol. cbn [tok_id]. rewrite (expect_p_hit PLParen).
    assert (cls = 0%N).
    { unfold fname_class in Hc. match goal with H : plain_ident n = true |- _ => pose proof H as Hp; unfold plain_ident in H end.
      split_andb. negb_hyps. replace (is_keyword n) with false in Hc by (symmetry; assumption).
      rewrite Hp in Hc. inversion Hc. reflexivity. } subst cls.
    cbn [app]. destruct args as [|x xs].
    + rewrite print_selexprs_SNil. cbn [app head_w expect_w].
      apply (pfargs_ok q n 0%N false SNil rest (S f)); try assumption. rewrite need_selexprs_SNil. KL.
    + destruct (selexprs_head (SCons x xs) (TP PRParen :: rest) ltac:(assumption) ltac:(discriminate)) as [t0 [r [E Hs]]].
      replace (head_w W_distinct (print_selexprs pg (SCons x xs) ++ TP PRParen :: rest)) with false.
      2:{ rewrite E. destruct Hs as [Hs| ->]; [|reflexivity]. symmetry. apply estart_head_w; [exact Hs|reflexivity]. }
      apply (pfargs_ok q n 0%N false (SCons x xs) rest (S f)); try assumption. KL.
Qed.

(* ---------- CASE ---------- *)
Lemma case_NoE : Poe NoE. Proof. exact I. Qed.
Lemma case_SomeE x : Pe x -> Poe (SomeE x). Proof. intros [C _]. exact C. Qed.

Lemma case_WNil : Pws WNil.
Proof. intros _ rest _ Hw f Hf. fuel f. rewrite print_whens_WNil. cbn [app]. rewrite pwhens_S, Hw. reflexivity. Qed.

Lemma whens_rest_hard ws rest : hard rest = true -> hard (print_whens pg ws ++ rest) = true.
Proof. intros H. destruct ws; [exact H|]. rewrite print_whens_WCons. reflexivity. Qed.

Lemma case_WCons c v ws : Pe c -> Pe v -> Pws ws -> Pws (WCons c v ws).
Proof.
  intros [Cc _] [Cv _] IH Hwf rest Hh Hw f Hf. rewrite wf_whens_WCons in Hwf. split_andb.
  rewrite print_whens_WCons. rewrite need_whens_WCons in Hf. fuel f. napp.
  rewrite pwhens_S, expect_w_hit.
  rewrite (pexpr_of_C pg c (TW W_then :: print pg v ++ print_whens pg ws ++ rest) f Cc) by first [assumption | reflexivity | KL].
  rewrite expect_w_hit.
  rewrite (pexpr_of_C pg v (print_whens pg ws ++ rest) f Cv) by first [assumption | apply whens_rest_hard; exact Hh | KL].
  rewrite (IH ltac:(assumption) rest Hh Hw f) by KL. reflexivity.
Qed.

Lemma case_ECase x ws el : Poe x -> Pws ws -> Poe el -> Pe (ECase x ws el).
Proof.
  intros Px Pw Pl. apply P_of_D; [reflexivity|reflexivity| |exact I].
  intros Hwf rest Hg f Hf. rewrite wf_ECase in Hwf. split_andb. rewrite print_ECase, need_ECase in *.
  fuel f. rewrite patom_S. cbn [atom_head app]. napp.
  assert (Hend : hard (print_oexpr pg [TW W_else] el ++ TW W_end :: rest) = true)
    by (destruct el; [rewrite print_oexpr_NoE|rewrite print_oexpr_SomeE]; reflexivity).
  assert (Hnw : expect_w W_when (print_oexpr pg [TW W_else] el ++ TW W_end :: rest) = None)
    by (destruct el; [rewrite print_oexpr_NoE|rewrite print_oexpr_SomeE]; reflexivity).
  assert (Hws : pwhens pg f (print_whens pg ws ++ print_oexpr pg [TW W_else] el ++ TW W_end :: rest)
                = Some (ws, print_oexpr pg [TW W_else] el ++ TW W_end :: rest))
    by (apply Pw; [assumption|apply Hend|apply Hnw|KL]).
  assert (Hel : popt (pexpr pg f 0) W_else (print_oexpr pg [TW W_else] el ++ TW W_end :: rest) = Some (el, TW W_end :: rest)).
  { destruct el as [|z].
    - rewrite print_oexpr_NoE. reflexivity.
    - rewrite print_oexpr_SomeE. napp. unfold popt. rewrite expect_w_hit.
      cbn [SqlStmtRT1.Poe] in Pl. rewrite wf_oexpr_SomeE in *. rewrite need_oexpr_SomeE in *.
      rewrite (pexpr_of_C pg z (TW W_end :: rest) f Pl) by first [assumption | reflexivity | KL]. reflexivity. }
  destruct x as [|y].
  - rewrite print_oexpr_NoE. cbn [app]. destruct ws as [|c v ws']; [discriminate|].
    replace (head_w W_when (print_whens pg (WCons c v ws') ++ print_oexpr pg [TW W_else] el ++ TW W_end :: rest)) with true
      by (rewrite print_whens_WCons; reflexivity).
    rewrite Hws, Hel. rewrite expect_w_hit. reflexivity.
  - rewrite print_oexpr_SomeE. napp.
    cbn [SqlStmtRT1.Poe] in Px. rewrite wf_oexpr_SomeE in *. rewrite need_oexpr_SomeE in *.
    destruct (print_head pg y ltac:(assumption)) as [t0 [r0 [E Hs]]].
    replace (head_w W_when (print pg y ++ print_whens pg ws ++ print_oexpr pg [TW W_else] el ++ TW W_end :: rest)) with false
      by (rewrite E; symmetry; apply estart_head_w; [exact Hs|reflexivity]).
    rewrite (pexpr_of_C pg y _ f Px) by first [assumption | apply whens_rest_hard; apply Hend | KL].
    rewrite Hws. destruct ws as [|c v ws']; [discriminate|]. rewrite Hel. rewrite expect_w_hit. reflexivity.
Qed.

(* ---------- CONVERT ---------- *)
Lemma pctype_ok ty rest : wf_ctype ty = true -> pctype (ctype_toks ty ++ TP PRParen :: rest) = Some (ty, TP PRParen :: rest).
Proof.
  destruct ty as [ty len scale]. unfold wf_ctype. intros H. split_andb.
  destruct (ctype_class ty) as [cls|] eqn:Ec; [|discriminate].
  pose proof (ctype_class_name ty cls Ec) as Hn.
  destruct len as [l|]; [destruct scale as [s|]|].
  - cbn [ctype_toks app pctype]. rewrite Hn, Ec.
    destruct cls as [|[[?|?|]|[?|?|]|]]; try discriminate; reflexivity.
  - cbn [ctype_toks app pctype]. rewrite Hn, Ec.
    destruct cls as [|[[?|?|]|[?|?|]|]]; try discriminate; reflexivity.
  - assert (scale = None) by (destruct scale; [destruct cls as [|[[?|?|]|[?|?|]|]]; discriminate|reflexivity]). subst scale.
    cbn [ctype_toks app pctype]. rewrite Hn, Ec. reflexivity.
Qed.

Lemma case_EConvert x ty : Pe x -> Pe (EConvert x ty).
Proof.
  intros [Cx _]. apply P_of_D; [reflexivity|reflexivity| |exact I].
  intros Hwf rest Hg f Hf. rewrite wf_EConvert in Hwf. split_andb. rewrite print_EConvert, need_EConvert in *.
  fuel f. rewrite patom_S. cbn [atom_head app]. napp.
  rewrite (pexpr_of_C pg x (TP PComma :: ctype_toks ty ++ TP PRParen :: rest) f Cx) by first [assumption | reflexivity | KL].
  rewrite (expect_p_hit PComma). rewrite pctype_ok by assumption. rewrite (expect_p_hit PRParen). reflexivity.
Qed.

Lemma case_EConvertUsing x cs : Pe x -> Pe (EConvertUsing x cs).
Proof.
  intros [Cx _]. apply P_of_D; [reflexivity|reflexivity| |exact I].
  intros Hwf rest Hg f Hf. rewrite wf_EConvertUsing in Hwf. split_andb. rewrite print_EConvertUsing, need_EConvertUsing in *.
  fuel f. rewrite patom_S. cbn [atom_head app]. napp.
  rewrite (rawid_tok cs) by assumption.
  rewrite (pexpr_of_C pg x (TW W_using :: TId cs :: TP PRParen :: rest) f Cx) by first [assumption | reflexivity | KL].
  reflexivity.
Qed.

(* ---------- INTERVAL ---------- *)
Lemma str_first_nolit t r : match t with TLit _ _ => false | _ => true end = true -> str_first (t :: r) = false.
Proof. destruct t; try reflexivity; discriminate. Qed.
Lemma raw_tok_nolit n : match raw_tok n with TLit _ _ => false | _ => true end = true.
Proof. unfold raw_tok, kw_tok. destruct (is_keyword n); [destruct (assoc_word (lower n) WORDS)|]; reflexivity. Qed.
Lemma id_tok_nolit i : wf_id pg i = true -> match id_tok pg i with TLit _ _ => false | _ => true end = true.
Proof. intros H. destruct (wf_id_tok_shape pg i H) as [[v [-> _]]|[v [-> _]]]; reflexivity. Qed.

(** the printed operand of a MySQL INTERVAL does not start with a cast-less string literal *)
Lemma interval_head x : wf pg x = true -> starts_str x = false -> forall r, gstop r = true ->
  str_first (print pg x ++ r) = false.
Proof.
  induction x; intros Hwf Hs r Hg; cbn [starts_str] in Hs.
  - rewrite wf_EAnd in Hwf. split_andb. rewrite print_EAnd, <- app_assoc. apply IHx1; [assumption|assumption|reflexivity].
  - rewrite wf_EOr in Hwf. split_andb. rewrite print_EOr, <- app_assoc. apply IHx1; [assumption|assumption|reflexivity].
  - rewrite print_ENot. reflexivity.
  - rewrite wf_ECmp in Hwf. split_andb. rewrite print_ECmp, <- app_assoc. apply IHx1; [assumption|assumption|destruct op; reflexivity].
  - rewrite wf_ECmpEsc in Hwf. split_andb. rewrite print_ECmpEsc, <- app_assoc. apply IHx1; [assumption|assumption|destruct op; reflexivity].
  - rewrite wf_ERange in Hwf. split_andb. rewrite print_ERange, <- app_assoc. apply IHx1; [assumption|assumption|destruct neg; reflexivity].
  - rewrite wf_EIs in Hwf. split_andb. rewrite print_EIs, <- app_assoc. apply IHx; [assumption|assumption|destruct s; reflexivity].
  - rewrite print_EExists. reflexivity.
  - rewrite wf_EBin in Hwf. split_andb. rewrite print_EBin, <- app_assoc. apply IHx1; [assumption|assumption|destruct op; reflexivity].
  - rewrite print_EUn. destruct op; reflexivity.
  - rewrite wf_ECollate in Hwf. split_andb. rewrite print_ECollate, <- app_assoc. apply IHx; [assumption|assumption|reflexivity].
  - rewrite print_ELit, <- app_assoc. unfold lit_toks. destruct (N.eqb t VT_StrVal) eqn:Et.
    + apply N.eqb_eq in Et. subst t. cbn [app]. destruct casts as [|c cs]; [discriminate Hs|]. reflexivity.
    + destruct (is_int t); [destruct v as [|c v]; [|destruct (byte_eqb c x_minus)]|]; cbn [app]; try reflexivity;
        unfold str_first; rewrite Et; destruct (map TCast casts ++ r) as [|[| | | | | |] ?]; reflexivity.
  - rewrite print_ENull. reflexivity.
  - rewrite print_EBool. destruct b; reflexivity.
  - rewrite print_EDefault. reflexivity.
  - rewrite wf_ECol in Hwf. rewrite print_ECol. unfold wf_col, col_toks in *. split_andb.
    destruct q as [|a q]; cbn [qual_toks app forallb] in *; split_andb; apply str_first_nolit; apply id_tok_nolit; assumption.
  - rewrite print_EParen. reflexivity.
  - rewrite print_ETuple. reflexivity.
  - rewrite print_ESubq. reflexivity.
  - rewrite wf_EFunc in Hwf. split_andb. rewrite print_EFunc. destruct (id_empty q) eqn:Eq; cbn [app].
    + apply str_first_nolit. apply raw_tok_nolit.
    + match goal with H : is_no_id q || wf_id pg q = true |- _ => apply Bool.orb_true_iff in H as [H|H] end;
        [destruct q as [[| |] [|? ?]]; discriminate|]. apply str_first_nolit. apply id_tok_nolit. assumption.
  - rewrite print_ECase. reflexivity.
  - rewrite print_EConvert. reflexivity.
  - rewrite print_EConvertUsing. reflexivity.
  - rewrite print_EInterval. reflexivity.
  - rewrite print_EValuesFunc. reflexivity.
Qed.

Lemma atom_head_interval_my ts1 : pg = false ->
  atom_head pg (TW W_interval :: ts1) = if str_first ts1 then AHNone else AHInterval ts1.
Proof. intros H. unfold atom_head. rewrite H. reflexivity. Qed.
Lemma atom_head_interval_pg v r : pg = true ->
  atom_head pg (TW W_interval :: TLit VT_StrVal v :: r) = AHIntervalPg v r.
Proof. intros H. unfold atom_head. rewrite H. reflexivity. Qed.

Lemma case_EInterval x u : Pe x -> Pe (EInterval x u).
Proof.
  intros [Cx _]. apply P_of_D; [reflexivity|reflexivity| |exact I].
  intros Hwf rest Hg f Hf. rewrite wf_EInterval in Hwf. split_andb. rewrite print_EInterval, need_EInterval in *.
  fuel f. rewrite patom_S. destruct u as [|c u].
  - (* PostgreSQL: interval '...' *)
    split_andb. destruct x as [| | | | | | | | | | |t v cs| | | | | | | | | | | | |]; try discriminate.
    cbn [str_lit] in *. destruct cs; [|discriminate].
    match goal with H : N.eqb t VT_StrVal = true |- _ => apply N.eqb_eq in H; subst t end.
    rewrite print_ELit. cbn [lit_toks is_int N.eqb VT_StrVal VT_IntVal Pos.eqb map app].
    rewrite atom_head_interval_pg by assumption. reflexivity.
  - split_andb. negb_hyps. destruct (unit_tok (c :: u) ltac:(assumption)) as [Hr Hu]. rewrite Hr.
    napp. rewrite atom_head_interval_my by assumption.
    rewrite (interval_head x) by first [assumption | reflexivity].
    assert (Hv : L_VAL <= level x) by (apply is_v_level; assumption).
    rewrite (pval_of_C pg x L_VAL (TKw (c :: u) :: rest) f Cx); try assumption; [rewrite Hu; reflexivity| | |KL].
    + reflexivity.
    + reflexivity.
Qed.
End RT.
