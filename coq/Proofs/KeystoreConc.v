(** Concurrent keystore writers (C17): lock discipline lemmas (general) and an exhaustive
    check, computed inside Coq, of every interleaving of two writers. *)
From Acra Require Import Lib.Bytes Lib.Outcome Gen.KswConsts Model.KeystoreWrite Model.RunKeystoreWrite Proofs.KeystoreWrite.
Local Open Scope Z_scope.

(** * The lock excludes *)
Lemma lock_excl_blocks i j c : (c = BLock \/ c = BRLock) -> lock_step j c (LExcl i) = None.
Proof. intros [->| ->]; reflexivity. Qed.

Lemma lock_shared_blocks_writer hs j : lock_step j BLock (LShared hs) = None.
Proof. reflexivity. Qed.

(** a handle whose next call is Lock/RLock cannot step while another handle holds the exclusive lock *)
Theorem blocked_while_locked g i j h :
  g_lock g = LExcl i -> nth_error (g_hs g) j = Some h ->
  (head_call (settled h) = Some BLock \/ head_call (settled h) = Some BRLock \/ head_call (settled h) = None) ->
  gstep g j = None.
Proof.
  intros Hl Hn Hh. unfold gstep. rewrite Hn. unfold head_call in Hh.
  destruct (hd_cur (settled h)) as [[a|c k]|]; try reflexivity.
  rewrite Hl. destruct Hh as [H|[H|H]]; inversion H; subst; reflexivity.
Qed.

(** every write operation is: nothing (its precondition on the in-memory ring failed), or a
    section that starts by taking the exclusive lock *)
Theorem ring_op_head h o :
  h_log h = [] -> (exists r, ring_op h o = Done r) \/ (exists k, ring_op h o = Call BLock k).
Proof.
  intro Hlog. unfold ring_op.
  destruct (prepare h o) as [[txs s]|e|] eqn:Ep; [|left; eauto|left; eauto].
  right. unfold with_txs. rewrite fold_push_tx, Hlog. cbn [app]. unfold sync_key_ring. cbn [h_log].
  assert (Hne : txs <> []).
  { destruct o; cbn [prepare] in Ep;
      repeat match type of Ep with
             | context [match ?x with _ => _ end] => destruct x; try discriminate
             end; inversion Ep; discriminate. }
  destruct txs as [|t txs]; [congruence|].
  unfold write_key_ring, locked, call. cbn [pbind]. eexists. reflexivity.
Qed.

(** * Exhaustive interleavings of two writers (bounded; computed) *)
Fixpoint inter (fuel a b : nat) : list (list nat) :=
  match fuel with
  | O => [[]]
  | S fuel' =>
      match a, b with
      | O, O => [[]]
      | _, _ =>
          (match a with O => [] | S a' => map (cons 0%nat) (inter fuel' a' b) end) ++
          (match b with O => [] | S b' => map (cons 1%nat) (inter fuel' a b') end)
      end
  end.

Definition fair_tail : list nat :=
  [0; 1; 0; 1; 0; 1; 0; 1; 0; 1; 0; 1; 0; 1; 0; 1; 0; 1; 0; 1; 0; 1; 0; 1]%nat.

Fixpoint iota_eqb (a : Z) (l : list Z) : bool :=
  match l with [] => true | x :: t => Z.eqb x a && iota_eqb (a + 1) t end.

Definition ring_ok_b (r : ring) : bool :=
  iota_eqb KSW_FIRST_SEQNUM (map k_seq (r_keys r)) &&
  (Z.eqb (r_cur r) KSW_NO_KEY || match key_with_seqnum r (r_cur r) with Some _ => true | None => false end).

(** what any reader's Get of a ring file would return at this moment verifies and is well formed *)
Definition wf_b (st : storage) : bool :=
  forallb (fun e => match e with
                    | (FRing _, CRing true r) => ring_ok_b r
                    | (FRing _, _) => false
                    | _ => true
                    end) st.

(** seqnums of ring [rid] in [st] extend those of [r0] *)
Fixpoint prefix_b (a b : list Z) : bool :=
  match a, b with
  | [], _ => true
  | x :: a', y :: b' => Z.eqb x y && prefix_b a' b'
  | _, [] => false
  end.
Definition grows_b (rid : N) (r0 : ring) (st : storage) : bool :=
  match lookup (FRing rid) st with
  | Some (CRing true r) => prefix_b (map k_seq (r_keys r0)) (map k_seq (r_keys r))
  | _ => false
  end.

(** run a schedule checking [chk] in every intermediate global state *)
Fixpoint grun_check (chk : gstate -> bool) (g : gstate) (sched : list nat) : bool * gstate :=
  match sched with
  | [] => (chk g, g)
  | i :: rest =>
      match gstep g i with
      | Some g' => let (b, gf) := grun_check chk g' rest in (chk g && b, gf)
      | None => grun_check chk g rest
      end
  end.

Definition obs_handle (h : handle) : bytes :=
  enc_nat (length (hd_todo (settled h))) ++ flat_map enc_res (rev (hd_out (settled h))) ++ enc_ring (h_data (hd_ring (settled h))).

Definition serial2 (st : storage) (h0 h1 : hring) (o0 o1 : wop) (first0 : bool) : list bytes :=
  if first0 then
    let '(st1, h0', r0) := run_op_serial st h0 o0 in
    let '(st2, h1', r1) := run_op_serial st1 h1 o1 in
    [enc_storage st2; enc_nat 0 ++ enc_res r0 ++ enc_ring (h_data h0'); enc_nat 0 ++ enc_res r1 ++ enc_ring (h_data h1')]
  else
    let '(st1, h1', r1) := run_op_serial st h1 o1 in
    let '(st2, h0', r0) := run_op_serial st1 h0 o0 in
    [enc_storage st2; enc_nat 0 ++ enc_res r0 ++ enc_ring (h_data h0'); enc_nat 0 ++ enc_res r1 ++ enc_ring (h_data h1')].

(** one schedule of one configuration:
    (i) every intermediate storage is well formed and only extends the seqnums (readers, seqnums),
    (ii) the final storage, results and in-memory rings equal those of one of the two serial orders *)
Definition sched_ok (st : storage) (rid : N) (r0 : ring) (h0 h1 : hring) (o0 o1 : wop) (sched : list nat) : bool :=
  let g0 := mk_g st LFree [mk_handle h0 [o0] None []; mk_handle h1 [o1] None []] in
  let r := grun_check (fun g => wf_b (g_st g) && grows_b rid r0 (g_st g)) g0 (sched ++ fair_tail) in
  let o := enc_storage (g_st (snd r)) :: map obs_handle (g_hs (snd r)) in
  fst r && (list_bytes_eqb o (serial2 st h0 h1 o0 o1 true) || list_bytes_eqb o (serial2 st h0 h1 o0 o1 false)).

(** EVERY interleaving of the two operations' back-end calls *)
Definition conf_ok (st : storage) (rid : N) (r0 : ring) (h0 h1 : hring) (o0 o1 : wop) : bool :=
  forallb (sched_ok st rid r0 h0 h1 o0 o1) (inter 10 5 5).

Definition c17_ring : ring := mk_ring [mk_kent 1 2 5; mk_kent 2 1 6] 1.
Definition c17_stale : ring := mk_ring [mk_kent 1 1 5] (-1).
Definition c17_st : storage := [(FRing 1, CRing true c17_ring)].
Definition c17_alphabet : list wop :=
  [WAdd 7; WAdd 9; WSetCurrent 1; WSetCurrent 2; WSetCurrent 3; WSetState 1 3; WSetState 2 2; WSetState 2 4; WDestroy 1; WDestroy 2].

Lemma forallb3_unpack (alpha : list wop) (scheds : list (list nat)) (F : wop -> wop -> list nat -> bool) :
  forallb (fun a => forallb (fun b => forallb (fun s => F a b s) scheds) alpha) alpha = true ->
  forall a b s, In a alpha -> In b alpha -> In s scheds -> F a b s = true.
Proof.
  intros H a b s Ha Hb Hs.
  rewrite forallb_forall in H. specialize (H a Ha). cbv beta in H.
  rewrite forallb_forall in H. specialize (H b Hb). cbv beta in H.
  rewrite forallb_forall in H. exact (H s Hs).
Qed.

Definition c17_both (o0 o1 : wop) (sched : list nat) : bool :=
  sched_ok c17_st 1 c17_ring (mk_hring 1 c17_ring []) (mk_hring 1 c17_ring []) o0 o1 sched &&
  sched_ok c17_st 1 c17_ring (mk_hring 1 c17_ring []) (mk_hring 1 c17_stale []) o0 o1 sched.

Lemma list_bytes_eqb_eq a : forall b, list_bytes_eqb a b = true -> a = b.
Proof.
  induction a as [|x a IH]; intros [|y b] H; cbn [list_bytes_eqb] in H; try discriminate; [reflexivity|].
  apply andb_true_iff in H as [H1 H2]. apply bytes_eqb_eq in H1. apply IH in H2. congruence.
Qed.

Lemma sched_ok_spec st rid r0 h0 h1 o0 o1 sched :
  sched_ok st rid r0 h0 h1 o0 o1 sched = true ->
  let g0 := mk_g st LFree [mk_handle h0 [o0] None []; mk_handle h1 [o1] None []] in
  let r := grun_check (fun g => wf_b (g_st g) && grows_b rid r0 (g_st g)) g0 (sched ++ fair_tail) in
  fst r = true /\
  let o := enc_storage (g_st (snd r)) :: map obs_handle (g_hs (snd r)) in
  (o = serial2 st h0 h1 o0 o1 true \/ o = serial2 st h0 h1 o0 o1 false).
Proof.
  intro H. unfold sched_ok in H. cbv zeta in *.
  apply andb_true_iff in H as [Hinv Hser]. split; [exact Hinv|].
  apply orb_true_iff in Hser as [E|E]; apply list_bytes_eqb_eq in E; [left|right]; exact E.
Qed.

Theorem writers_serializable_bounded :
  forall o0 o1 sched,
    In o0 c17_alphabet -> In o1 c17_alphabet -> In sched (inter 10 5 5) ->
    c17_both o0 o1 sched = true.
Proof.
  apply (forallb3_unpack c17_alphabet (inter 10 5 5) c17_both).
  vm_cast_no_check (eq_refl true).
Qed.
