(** Concurrent keystore writers (C17): lock discipline lemmas (general) and an exhaustive check,
    computed inside Coq, of EVERY schedule of bounded configurations of handles: writers on an
    existing ring (in-sync and stale snapshots) and handles racing on the CREATION of a ring
    (OpenKeyRingRW / generate on a ring that does not exist yet). *)
From Acra Require Import Lib.Bytes Lib.Outcome Gen.KswConsts Model.KeystoreWrite Model.RunKeystoreWrite Proofs.KeystoreWrite.
Local Open Scope Z_scope.

(** * The lock excludes *)
Lemma lock_excl_blocks i j c : (c = BLock \/ c = BRLock) -> lock_step j c (LExcl i) = None.
Proof. intros [->| ->]; reflexivity. Qed.

Lemma lock_shared_blocks_writer hs j : lock_step j BLock (LShared hs) = None.
Proof. reflexivity. Qed.

(** a handle whose next call is Lock/RLock cannot step while another handle holds the exclusive lock *)
Theorem blocked_while_locked g i j h :
  g_lock g = LExcl i -> nth_error (g_hs g) j = Some h ->
  (head_call (settled h) = Some BLock \/ head_call (settled h) = Some BRLock \/ head_call (settled h) = None) ->
  gstep g j = None.
Proof.
  intros Hl Hn Hh. unfold gstep. rewrite Hn. unfold head_call in Hh.
  destruct (hd_cur (settled h)) as [[a|c k]|]; try reflexivity.
  rewrite Hl. destruct Hh as [H|[H|H]]; inversion H; subst; reflexivity.
Qed.

(** every write operation is: nothing (its precondition on the in-memory ring failed), or a
    section that starts by taking the exclusive lock *)
Theorem ring_op_head h o :
  h_log h = [] -> (exists r, ring_op h o = Done r) \/ (exists k, ring_op h o = Call BLock k).
Proof.
  intro Hlog. unfold ring_op.
  destruct (prepare h o) as [[txs s]|e|] eqn:Ep; [|left; eauto|left; eauto].
  right. unfold with_txs. rewrite fold_push_tx, Hlog. cbn [app]. unfold sync_key_ring. cbn [h_log].
  assert (Hne : txs <> []).
  { destruct o; cbn [prepare] in Ep;
      repeat match type of Ep with
             | context [match ?x with _ => _ end] => destruct x; try discriminate
             end; inversion Ep; discriminate. }
  destruct txs as [|t txs]; [congruence|].
  unfold write_key_ring, locked, call. cbn [pbind]. eexists. reflexivity.
Qed.

(** OpenKeyRingRW - also when the ring does not exist and is created - starts by taking the
    EXCLUSIVE lock: the existence check (Get) is made under the lock that covers the creation *)
Theorem open_head rid : exists k, open_key_ring_rw rid = Call BLock k.
Proof. unfold open_key_ring_rw, locked, call. cbn [pbind]. eexists. reflexivity. Qed.

(** so does every operation a handle can run *)
Theorem hop_prog_head hr o :
  match hr with Some h => h_log h = [] | None => True end ->
  (exists r, hop_prog hr o = Done r) \/ (exists k, hop_prog hr o = Call BLock k).
Proof.
  intro Hlog. destruct o as [w|rid|rid ord|rid]; cbn [hop_prog].
  - destruct hr as [h|]; [|left; eauto].
    destruct (ring_op_head h w Hlog) as [[r E]|[k E]]; rewrite E; cbn [pbind]; [left|right]; eauto.
  - right. destruct (open_head rid) as [k E]. rewrite E. cbn [pbind]. eauto.
  - right. unfold gen_key. destruct (open_head rid) as [k E]. rewrite E. cbn [pbind]. eauto.
  - right. unfold destroy_current. destruct (open_head rid) as [k E]. rewrite E. cbn [pbind]. eauto.
Qed.

(** * EVERY schedule of a finite configuration (computed) *)

(** the successors of a global state: one per handle that can step *)
Definition succs (n : nat) (g : gstate) : list gstate :=
  flat_map (fun i => match gstep g i with Some g' => [g'] | None => [] end) (seq 0 n).

(** [chk] in every reachable state, [stp] on every step, [fin] in every terminal state; [false]
    when the fuel (= maximal number of steps of a run) does not suffice *)
Fixpoint all_runs (fuel n : nat) (chk : gstate -> bool) (stp : gstate -> gstate -> bool)
         (fin : gstate -> bool) (g : gstate) : bool :=
  match fuel with
  | O => false
  | S f =>
      chk g &&
      match succs n g with
      | [] => fin g
      | l => forallb (fun g' => stp g g' && all_runs f n chk stp fin g') l
      end
  end.

Lemma set_nth_length {A} (x : A) : forall l i, length (set_nth i x l) = length l.
Proof. induction l as [|y l IH]; intros [|i]; cbn [set_nth length]; auto. Qed.

Lemma gstep_length g i g' : gstep g i = Some g' -> length (g_hs g') = length (g_hs g) /\ (i < length (g_hs g))%nat.
Proof.
  unfold gstep. destruct (nth_error (g_hs g) i) as [h0|] eqn:En; [|discriminate].
  assert (Hi : (i < length (g_hs g))%nat) by (apply nth_error_Some; congruence).
  destruct (hd_cur (settled h0)) as [[a|c k]|]; try discriminate.
  destruct (lock_step i c (g_lock g)); [|discriminate].
  destruct (do_call c (g_st g)) as [v st']. intro H. inversion H; subst. cbn [g_hs].
  rewrite set_nth_length. auto.
Qed.

Lemma in_succs n g i g' : gstep g i = Some g' -> (i < n)%nat -> In g' (succs n g).
Proof.
  intros H Hi. unfold succs. apply in_flat_map. exists i. split.
  - apply in_seq. lia.
  - rewrite H. left. reflexivity.
Qed.

Lemma succs_nil n g : (forall i, gstep g i = None) -> succs n g = [].
Proof.
  intro H. unfold succs. induction (seq 0 n) as [|i l IH]; cbn [flat_map]; [reflexivity|].
  rewrite H, IH. reflexivity.
Qed.

Lemma in_succs_inv n g g' : In g' (succs n g) -> exists i, gstep g i = Some g'.
Proof.
  unfold succs. intro H. apply in_flat_map in H as [i [_ H]].
  destruct (gstep g i) as [g1|] eqn:E; [|contradiction].
  destruct H as [H|[]]. subst. eauto.
Qed.

Lemma succs_terminal n g : length (g_hs g) = n -> succs n g = [] -> forall i, gstep g i = None.
Proof.
  intros Hn Hs i. destruct (gstep g i) as [g1|] eqn:E; [|reflexivity].
  destruct (gstep_length _ _ _ E) as [_ Hi]. rewrite Hn in Hi.
  pose proof (in_succs n g i g1 E Hi) as Hin. rewrite Hs in Hin. contradiction.
Qed.

(** soundness: what [all_runs] has checked holds along EVERY schedule, of any length *)
Lemma all_runs_sound n chk stp fin : forall sched fuel g,
  length (g_hs g) = n -> all_runs fuel n chk stp fin g = true ->
  chk (grun g sched) = true /\
  (forall i g', gstep (grun g sched) i = Some g' -> stp (grun g sched) g' = true) /\
  ((forall i, gstep (grun g sched) i = None) -> fin (grun g sched) = true).
Proof.
  induction sched as [|i rest IH]; intros fuel g Hn Hr.
  - cbn [grun]. destruct fuel as [|f]; [discriminate|]. cbn [all_runs] in Hr.
    apply andb_true_iff in Hr as [Hc Hr]. split; [exact Hc|]. split.
    + intros i g' Hs. destruct (gstep_length _ _ _ Hs) as [_ Hi]. rewrite Hn in Hi.
      pose proof (in_succs n g i g' Hs Hi) as Hin.
      destruct (succs n g) as [|x l] eqn:El; [contradiction|].
      rewrite forallb_forall in Hr. specialize (Hr g' Hin).
      apply andb_true_iff in Hr as [Hr _]. exact Hr.
    + intro Hterm. rewrite (succs_nil n g Hterm) in Hr. exact Hr.
  - cbn [grun]. destruct (gstep g i) as [g1|] eqn:Es; [|apply (IH fuel g Hn Hr)].
    destruct fuel as [|f]; [discriminate|]. cbn [all_runs] in Hr.
    apply andb_true_iff in Hr as [_ Hr].
    destruct (gstep_length _ _ _ Es) as [Hl Hi]. rewrite Hn in Hi, Hl.
    pose proof (in_succs n g i g1 Es Hi) as Hin.
    destruct (succs n g) as [|x l] eqn:El; [contradiction|].
    rewrite forallb_forall in Hr. specialize (Hr g1 Hin).
    apply andb_true_iff in Hr as [_ Hr]. apply (IH f g1 Hl Hr).
Qed.

(** * What is checked *)
Fixpoint iota_eqb (a : Z) (l : list Z) : bool :=
  match l with [] => true | x :: t => Z.eqb x a && iota_eqb (a + 1) t end.

Definition ring_ok_b (r : ring) : bool :=
  iota_eqb KSW_FIRST_SEQNUM (map k_seq (r_keys r)) &&
  (Z.eqb (r_cur r) KSW_NO_KEY || match key_with_seqnum r (r_cur r) with Some _ => true | None => false end).

(** what any reader's Get of a ring file would return at this moment verifies and is well formed *)
Definition wf_b (st : storage) : bool :=
  forallb (fun e => match e with
                    | (FRing _, CRing true r) => ring_ok_b r
                    | (FRing _, _) => false
                    | _ => true
                    end) st.

Fixpoint prefix_b (a b : list Z) : bool :=
  match a, b with
  | [], _ => true
  | x :: a', y :: b' => Z.eqb x y && prefix_b a' b'
  | _, [] => false
  end.

(** one step: every stored ring is still stored and verifying and its seqnums are only extended
    (committed keys never disappear; a ring file is never replaced by an empty ring) *)
Definition mono_b (st st' : storage) : bool :=
  forallb (fun e => match e with
                    | (FRing rid, CRing true r) =>
                        match lookup (FRing rid) st' with
                        | Some (CRing true r') => prefix_b (map k_seq (r_keys r)) (map k_seq (r_keys r'))
                        | _ => false
                        end
                    | _ => true
                    end) st.

Definition obs_g (g : gstate) : list bytes := enc_storage (g_st g) :: map obs_handle (g_hs g).

(** the serial reference: every order in which the handles can run their operations ONE WHOLE
    OPERATION AT A TIME ([sstep]); the observations (storage, results, in-memory rings) at the end *)
Definition ssuccs (n : nat) (g : gstate) : list gstate :=
  flat_map (fun i => match sstep g i with Some g' => [g'] | None => [] end) (seq 0 n).

Fixpoint serial_outs (fuel n : nat) (g : gstate) : list (list bytes) :=
  match fuel with
  | O => []
  | S f => match ssuccs n g with [] => [obs_g g] | l => flat_map (serial_outs f n) l end
  end.

Definition c17_fuel : nat := 100.
Definition c17_sfuel : nat := 16.

Definition conf_ok (st : storage) (hs : list handle) : bool :=
  let g0 := mk_g st LFree hs in
  let outs := serial_outs c17_sfuel (length hs) g0 in
  all_runs c17_fuel (length hs)
           (fun g => wf_b (g_st g))
           (fun g g' => mono_b (g_st g) (g_st g'))
           (fun g => existsb (list_bytes_eqb (obs_g g)) outs) g0.

(** the property of a configuration, for EVERY schedule [sched] (any length, any order):
    (i) the storage reached has only complete, verifying, well-formed rings (readers, seqnums);
    (ii) whatever step comes next keeps every stored ring and only extends its seqnums;
    (iii) when nobody can step any more, the storage, the operations' results and the in-memory
          rings are those of one of the serial executions (whole operations, some order) *)
Definition runs_ok (st : storage) (hs : list handle) : Prop :=
  forall sched,
    let g := grun (mk_g st LFree hs) sched in
    wf_b (g_st g) = true /\
    (forall i g', gstep g i = Some g' -> mono_b (g_st g) (g_st g') = true) /\
    ((forall i, gstep g i = None) ->
     In (obs_g g) (serial_outs c17_sfuel (length hs) (mk_g st LFree hs))).

Lemma list_bytes_eqb_eq a : forall b, list_bytes_eqb a b = true -> a = b.
Proof.
  induction a as [|x a IH]; intros [|y b] H; cbn [list_bytes_eqb] in H; try discriminate; [reflexivity|].
  apply andb_true_iff in H as [H1 H2]. apply bytes_eqb_eq in H1. apply IH in H2. congruence.
Qed.

Lemma conf_ok_sound st hs : conf_ok st hs = true -> runs_ok st hs.
Proof.
  intros H sched. unfold conf_ok in H. cbv zeta in H.
  destruct (all_runs_sound _ _ _ _ sched _ (mk_g st LFree hs) eq_refl H) as (H1 & H2 & H3).
  cbv zeta. split; [exact H1|]. split; [exact H2|].
  intro Hterm. specialize (H3 Hterm). apply existsb_exists in H3 as [o [Hin Heq]].
  apply list_bytes_eqb_eq in Heq. rewrite Heq. exact Hin.
Qed.

(** * The configurations *)
Definition c17_ring : ring := mk_ring [mk_kent 1 2 5; mk_kent 2 1 6] 1.
Definition c17_stale : ring := mk_ring [mk_kent 1 1 5] (-1).
Definition c17_st : storage := [(FRing 1, CRing true c17_ring)].
Definition c17_alphabet : list wop :=
  [WAdd 7; WAdd 9; WSetCurrent 1; WSetCurrent 2; WSetCurrent 3; WSetState 1 3; WSetState 2 2; WSetState 2 4; WDestroy 1; WDestroy 2].

(** (1) two writers holding a key ring object of the existing ring (in sync / stale), one operation each *)
Definition c17_snapshots : list hring := [mk_hring 1 c17_ring []; mk_hring 1 c17_stale []].
Definition c17_writer (h : hring) (o : wop) : handle := mk_handle (Some h) [HRing o] None [].

(** (2), (3) handles WITHOUT a key ring object racing on ring 1 which does not exist yet: the
    store is empty, holds another ring, or holds the temporary file of an interrupted creation *)
Definition fresh (p : list hop) : handle := mk_handle None p None [].
Definition c17_creation_short (a : N) : list (list hop) :=
  [ [HOpen 1];
    [HOpen 1; HRing (WAdd a)];
    [HOpen 1; HRing (WAdd a); HRing (WSetCurrent 1)];
    [HGen 1 a];
    [HDestroyCur 1] ].
Definition c17_creation_long (a b : N) : list (list hop) :=
  [ [HOpen 1; HRing (WAdd a); HRing (WSetCurrent 2); HRing (WAdd b)];
    [HGen 1 a; HGen 1 b] ].
Definition c17_creation_progs (a b : N) : list (list hop) := c17_creation_short a ++ c17_creation_long a b.
Definition c17_fresh_storages : list storage :=
  [ []; [(FRing 2, CRing true c17_ring)]; [(FRingNew 1, CRing false c17_ring)] ].
Definition c17_creation_progs3 (a : N) : list (list hop) :=
  [ [HOpen 1]; [HOpen 1; HRing (WAdd a)]; [HGen 1 a] ].
Definition c17_creation_progs3b (a : N) : list (list hop) :=
  [ [HOpen 1]; [HOpen 1; HRing (WAdd a)] ].

Lemma forallb3_unpack {A B C} (la : list A) (lb : list B) (lc : list C) (F : A -> B -> C -> bool) :
  forallb (fun a => forallb (fun b => forallb (fun c => F a b c) lc) lb) la = true ->
  forall a b c, In a la -> In b lb -> In c lc -> F a b c = true.
Proof.
  intros H a b c Ha Hb Hc.
  rewrite forallb_forall in H. specialize (H a Ha). cbv beta in H.
  rewrite forallb_forall in H. specialize (H b Hb). cbv beta in H.
  rewrite forallb_forall in H. exact (H c Hc).
Qed.

Definition c17_existing_F (o0 o1 : wop) (h1 : hring) : bool :=
  conf_ok c17_st [c17_writer (mk_hring 1 c17_ring []) o0; c17_writer h1 o1].
Definition c17_creation_F (st : storage) (p0 p1 : list hop) : bool := conf_ok st [fresh p0; fresh p1].
Definition c17_creation3_F (p0 p1 p2 : list hop) : bool := conf_ok [] [fresh p0; fresh p1; fresh p2].

Lemma c17_existing_all_true :
  forall o0 o1 h1, In o0 c17_alphabet -> In o1 c17_alphabet -> In h1 c17_snapshots -> c17_existing_F o0 o1 h1 = true.
Proof. apply (forallb3_unpack c17_alphabet c17_alphabet c17_snapshots c17_existing_F). vm_cast_no_check (eq_refl true). Qed.

Lemma c17_creation_all_true :
  forall st p0 p1, In st c17_fresh_storages -> In p0 (c17_creation_short 7) -> In p1 (c17_creation_short 17) ->
    c17_creation_F st p0 p1 = true.
Proof. apply (forallb3_unpack c17_fresh_storages (c17_creation_short 7) (c17_creation_short 17) c17_creation_F). vm_cast_no_check (eq_refl true). Qed.

Lemma c17_creation_long_all_true :
  forall st p0 p1, In st [ ([] : storage) ] -> In p0 (c17_creation_long 7 8) -> In p1 (c17_creation_progs 17 18) ->
    c17_creation_F st p0 p1 = true.
Proof. apply (forallb3_unpack [ ([] : storage) ] (c17_creation_long 7 8) (c17_creation_progs 17 18) c17_creation_F). vm_cast_no_check (eq_refl true). Qed.

Lemma c17_creation3_all_true :
  forall p0 p1 p2, In p0 (c17_creation_progs3 7) -> In p1 (c17_creation_progs3 17) -> In p2 (c17_creation_progs3b 27) ->
    c17_creation3_F p0 p1 p2 = true.
Proof. apply (forallb3_unpack (c17_creation_progs3 7) (c17_creation_progs3 17) (c17_creation_progs3b 27) c17_creation3_F). vm_cast_no_check (eq_refl true). Qed.

(** Bounds: (1) two writers x one operation of [c17_alphabet] each, in-sync or stale key ring
    objects of an existing ring; (2) two handles without a key ring object racing on the creation of
    ring 1, programs of [c17_creation_short] (OpenKeyRingRW [+AddKey [+SetCurrent]], generate,
    destroy-current), store empty / holding another ring / holding the temporary file of an
    interrupted creation; (2') the same with the longer programs of [c17_creation_long] (second
    AddKey, two generate calls) from the empty store; (3) THREE handles racing on the creation.
    NOT bounded: the schedule - [runs_ok] quantifies over every list of handle indices. *)
Theorem writers_serializable_bounded :
  (forall o0 o1 h1, In o0 c17_alphabet -> In o1 c17_alphabet -> In h1 c17_snapshots ->
     runs_ok c17_st [c17_writer (mk_hring 1 c17_ring []) o0; c17_writer h1 o1]) /\
  (forall st p0 p1, In st c17_fresh_storages -> In p0 (c17_creation_short 7) -> In p1 (c17_creation_short 17) ->
     runs_ok st [fresh p0; fresh p1]) /\
  (forall p0 p1, In p0 (c17_creation_long 7 8) -> In p1 (c17_creation_progs 17 18) ->
     runs_ok [] [fresh p0; fresh p1]) /\
  (forall p0 p1 p2, In p0 (c17_creation_progs3 7) -> In p1 (c17_creation_progs3 17) -> In p2 (c17_creation_progs3b 27) ->
     runs_ok [] [fresh p0; fresh p1; fresh p2]).
Proof.
  split; [|split; [|split]].
  - intros o0 o1 h1 H0 H1 Hh. apply conf_ok_sound. exact (c17_existing_all_true o0 o1 h1 H0 H1 Hh).
  - intros st p0 p1 Hst H0 H1. apply conf_ok_sound. exact (c17_creation_all_true st p0 p1 Hst H0 H1).
  - intros p0 p1 H0 H1. apply conf_ok_sound. exact (c17_creation_long_all_true [] p0 p1 (or_introl eq_refl) H0 H1).
  - intros p0 p1 p2 H0 H1 H2. apply conf_ok_sound. exact (c17_creation3_all_true p0 p1 p2 H0 H1 H2).
Qed.
