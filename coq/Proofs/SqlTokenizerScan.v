(** C14, SQL tokenizer: Scan (with the nested tokenizer of MySQL version comments) never panics, every
    token-returning call strictly lowers the remaining-input measure [mu], token bytes are bounded by the
    input consumed; the invariant holds in every state reachable from a fresh tokenizer; tokenizing n bytes
    takes at most n+1 calls. *)
From Coq Require Import List NArith ZArith Bool Lia.
From Coq Require Import ZifyN ZifyNat ZifyBool.
From Acra Require Import Lib.Bytes Lib.Outcome Lib.GoSlice Gen.Prec Gen.SqlKeywords Model.SqlTokenizer Proofs.SqlTokenizer.
Import ListNotations.
Local Open Scope Z_scope.

(** * invariant and measure of a tokenizer with its nested ones *)
Fixpoint inv (t : tkn) : Prop :=
  match t with
  | Tkn b bp p l pv fe m d dd sp =>
      inv1 (Tkn b bp p l pv fe m d dd sp) /\
      match sp with Some s => inv s /\ len (t_buf s) + 5 <= p | None => True end
  end.
Lemma inv_unfold t :
  inv t <-> inv1 t /\ match t_special t with Some s => inv s /\ len (t_buf s) + 5 <= t_pos t | None => True end.
Proof. destruct t; reflexivity. Qed.

Definition rem (t : tkn) : Z := len (t_buf t) + 1 - Z.max (t_pos t) 1.
Fixpoint mu (t : tkn) : Z :=
  match t with
  | Tkn b _ p _ _ _ _ _ _ sp => (len b + 1 - Z.max p 1) + match sp with Some s => 1 + mu s | None => 0 end
  end.
Lemma mu_unfold t : mu t = rem t + match t_special t with Some s => 1 + mu s | None => 0 end.
Proof. destruct t; reflexivity. Qed.

Lemma rem_nonneg t : inv1 t -> 0 <= rem t.
Proof. intros Hi. pose proof (inv1_pos_range t Hi). pose proof (len_nonneg (t_buf t)). unfold rem. lia. Qed.

Lemma mu_nonneg : forall t, inv t -> 0 <= mu t.
Proof.
  fix IH 1. intros t H. apply inv_unfold in H. rewrite mu_unfold. destruct H as [H1 H2].
  pose proof (rem_nonneg t H1).
  destruct t as [b bp p l pv fe m d dd [s|]]; cbn [t_special] in *.
  - destruct H2 as [H2 _]. specialize (IH s H2). lia.
  - lia.
Qed.

Lemma mu_le_size : forall t, mu t <= Z.of_nat (depth_size t).
Proof.
  fix IH 1. intros [b bp p l pv fe m d dd [s|]]; cbn [mu depth_size].
  - specialize (IH s). unfold len. lia.
  - unfold len. lia.
Qed.

Lemma inv_fresh d dd sql : inv (fresh d dd sql).
Proof. apply inv_unfold. split; [apply inv1_fresh|exact I]. Qed.
Lemma mu_fresh d dd sql : mu (fresh d dd sql) = len sql.
Proof. cbn. lia. Qed.

Lemma frame2_buf t t' : frame2 t' = frame2 t -> t_buf t' = t_buf t.
Proof. unfold frame2. intros H. inversion H. reflexivity. Qed.

(** * Scan *)
Definition is_pos_var (t : tkn) (tok : Z) (val : bytes) : Prop :=
  tok = TK_VALUE_ARG /\ exists k, 0 < k <= len (t_buf t) + 1 /\ val = pos_var k.

Definition ScanPost (t : tkn) (r : tokres) : Prop :=
  let '(t', tok, val) := r in
  inv t' /\ frame2 t' = frame2 t /\ mu t' <= mu t /\ (tok <> 0 -> mu t' < mu t) /\ tok <> TK_RESCAN /\
  (len val <= mu t - mu t' \/ is_pos_var t tok val).

Lemma inv1_set_special t s : inv1 t -> inv1 (set_special t s).
Proof. intros H. exact H. Qed.

Lemma loop_fuel_big t : len (t_buf t) + 1 < Z.of_nat (loop_fuel t).
Proof. unfold loop_fuel, len. lia. Qed.

(** the part of [scan] after the nested tokenizer, for a tokenizer without one *)
Lemma scan_tail_spec f (IH : forall t, inv t -> mu t < Z.of_nat f -> wp (scan f t) (ScanPost t)) t0 :
  inv1 t0 -> t_special t0 = None -> rem t0 < Z.of_nat (S f) ->
  wp (do (t1, tok, val) <- scan_body (loop_fuel t0) t0;
      if tok =? TK_RESCAN then scan f t1 else Ok (t1, tok, val))
     (fun r => let '(t', tok, val) := r in
        inv t' /\ frame2 t' = frame2 t0 /\ mu t' <= rem t0 /\ (tok <> 0 -> mu t' < rem t0) /\ tok <> TK_RESCAN /\
        (len val <= rem t0 - mu t' \/ is_pos_var t0 tok val)).
Proof.
  intros Hi Hs Hf. apply wp_bind.
  eapply wp_mono; [apply scan_body_spec; [exact Hi|apply loop_fuel_big]|].
  intros [[t1 tok] val] (Hi1 & Hf2 & Hp & Hprog & Alt). unfold p0 in *.
  pose proof (inv1_pos_range t1 Hi1) as R1.
  assert (Eb : t_buf t1 = t_buf t0) by (apply frame2_buf; exact Hf2).
  destruct Alt as [(Et & Ev & Epv & sql & Es & Hl)|(Kt & Es & Alt)].
  - (* a version comment: rescan with the nested tokenizer *)
    subst tok. change (TK_RESCAN =? TK_RESCAN) with true. cbv iota.
    assert (Hinv1 : inv t1).
    { apply inv_unfold. split; [exact Hi1|]. rewrite Es. split; [apply inv_fresh|]. cbn [t_buf fresh]. lia. }
    assert (Hmu1 : mu t1 <= rem t0 - 4).
    { rewrite mu_unfold, Es, mu_fresh. unfold rem. rewrite Eb. lia. }
    eapply wp_mono; [apply IH; [exact Hinv1|lia]|].
    intros [[t' tok'] val'] (Hi' & Hf' & Hm' & Hpr' & K' & Hl').
    split; [exact Hi'|]. split; [congruence|]. split; [lia|]. split; [intros _; lia|]. split; [exact K'|].
    destruct Hl' as [Hl'|(Ek & k & Hk & Ev')]; [left; lia|].
    right. split; [exact Ek|]. exists k. rewrite <- Eb. split; assumption.
  - destruct (tok =? TK_RESCAN) eqn:Et; [apply Z.eqb_eq in Et; contradiction|].
    apply wp_ok.
    assert (Hm : mu t1 = rem t1) by (rewrite mu_unfold, Es, Hs; lia).
    assert (Hr : rem t1 = len (t_buf t0) + 1 - t_pos t1) by (unfold rem; rewrite Eb; lia).
    split; [apply inv_unfold; split; [exact Hi1|rewrite Es, Hs; exact I]|].
    split; [exact Hf2|]. split; [unfold rem in *; lia|]. split; [intros Hne; specialize (Hprog Hne); unfold rem in *; lia|].
    split; [exact Kt|].
    destruct Alt as [[Epv Hl]|(Epv & Etk & Ev)].
    + left. unfold rem in *. lia.
    + right. split; [exact Etk|]. exists (t_pvi t1). destruct Hi1 as (_ & _ & _ & _ & Hpv).
      destruct Hi as (_ & _ & _ & _ & Hpv0). rewrite <- Eb. split; [lia|exact Ev].
Qed.

Lemma scan_spec : forall fuel t, inv t -> mu t < Z.of_nat fuel -> wp (scan fuel t) (ScanPost t).
Proof.
  induction fuel as [|f IH]; intros t Hi Hf.
  - exfalso. pose proof (mu_nonneg t Hi). lia.
  - cbn [scan]. pose proof Hi as Hi'. apply inv_unfold in Hi'. destruct Hi' as [Hi1 Hsp].
    pose proof (rem_nonneg t Hi1) as Hr.
    destruct (t_special t) as [s|] eqn:Es.
    + destruct Hsp as [His Hsl]. pose proof (mu_nonneg s His) as Hms.
      assert (Hmu : mu t = rem t + 1 + mu s) by (rewrite mu_unfold, Es; lia).
      apply wp_bind. apply wp_bind.
      eapply wp_mono; [apply IH; [exact His|lia]|].
      intros [[s' tok] val] (His' & Hf2' & Hm' & Hpr' & K' & Hl').
      destruct (negb (tok =? 0)) eqn:E0.
      * (* the nested tokenizer's token is returned *)
        apply negb_true_iff, Z.eqb_neq in E0. specialize (Hpr' E0). cbn [wp].
        assert (Hmu' : mu (set_special t (Some s')) = rem t + 1 + mu s') by (rewrite mu_unfold; change (t_special (set_special t (Some s'))) with (Some s'); change (rem (set_special t (Some s'))) with (rem t); cbv iota; lia).
        split.
        { apply inv_unfold. split; [exact Hi1|]. cbn [t_special set_special t_pos].
          split; [exact His'|]. rewrite (frame2_buf _ _ Hf2'). exact Hsl. }
        split; [reflexivity|]. split; [lia|]. split; [intros _; lia|]. split; [exact K'|].
        destruct Hl' as [Hl'|(Ek & k & Hk & Ev')]; [left; lia|].
        right. split; [exact Ek|]. exists k. split; [|exact Ev'].
        pose proof (inv1_pos_range t Hi1). lia.
      * (* the nested tokenizer is exhausted: specialComment = nil, go on *)
        cbn [wp].
        assert (Hi0 : inv1 (set_special t None)) by exact Hi1.
        eapply wp_mono; [apply (scan_tail_spec f IH (set_special t None)); [exact Hi0|reflexivity|change (rem (set_special t None)) with (rem t); lia]|].
        change (rem (set_special t None)) with (rem t). change (frame2 (set_special t None)) with (frame2 t).
        intros [[t' tok'] val'] (Hi'' & Hf'' & Hm'' & Hpr'' & K'' & Hl'').
        split; [exact Hi''|]. split; [exact Hf''|]. split; [lia|]. split; [intros _; lia|]. split; [exact K''|].
        destruct Hl'' as [Hl''|Hl'']; [left; lia|right; exact Hl''].
    + apply wp_bind. cbn [wp].
      assert (Hmu : mu t = rem t) by (rewrite mu_unfold, Es; lia).
      eapply wp_mono; [apply (scan_tail_spec f IH t); [exact Hi1|exact Es|lia]|].
      intros [[t' tok'] val'] (Hi'' & Hf'' & Hm'' & Hpr'' & K'' & Hl'').
      split; [exact Hi''|]. split; [exact Hf''|]. split; [lia|]. split; [intros Hne; specialize (Hpr'' Hne); lia|].
      split; [exact K''|]. destruct Hl'' as [Hl''|Hl'']; [left; lia|right; exact Hl''].
Qed.

Lemma scan_fuel_enough t : mu t < Z.of_nat (scan_fuel t).
Proof. unfold scan_fuel. pose proof (mu_le_size t). lia. Qed.

Theorem Scan_spec t : inv t -> wp (Scan t) (ScanPost t).
Proof. intros Hi. apply scan_spec; [exact Hi|apply scan_fuel_enough]. Qed.

(** * states reachable from a fresh tokenizer *)
Inductive reachable (d dd : dialect) (sql : bytes) : tkn -> Prop :=
| R_fresh : reachable d dd sql (fresh d dd sql)
| R_scan t t' tok val : reachable d dd sql t -> Scan t = Ok (t', tok, val) -> reachable d dd sql t'
| R_feof t b : reachable d dd sql t -> reachable d dd sql (set_feof t b)           (* the grammar's forceEOF *)
| R_multi t b : reachable d dd sql t -> reachable d dd sql (set_multi t b)         (* ParseNext *)
| R_error t t' : reachable d dd sql t -> error_resync t = Ok t' -> reachable d dd sql t'   (* Tokenizer.Error *)
| R_reset t : reachable d dd sql t -> reachable d dd sql (reset t).                (* Tokenizer.reset *)

Lemma inv_same_cursor t t' :
  inv t -> t_buf t' = t_buf t -> t_bufpos t' = t_bufpos t -> t_pos t' = t_pos t -> t_last t' = t_last t ->
  t_pvi t' = t_pvi t -> t_special t' = t_special t -> inv t'.
Proof.
  intros H Eb Ebp Ep El Epv Es. apply inv_unfold in H. apply inv_unfold. destruct H as [H1 H2].
  split.
  - unfold inv1 in *. rewrite Eb, Ebp, Ep, El, Epv. exact H1.
  - rewrite Es, Ep. exact H2.
Qed.

Lemma error_resync_spec t : inv t -> wp (error_resync t) (fun t' => inv t' /\ frame t' = frame t /\ t_pos t <= t_pos t').
Proof.
  intros Hi. pose proof Hi as Hi'. apply inv_unfold in Hi'. destruct Hi' as [Hi1 Hsp].
  unfold error_resync. destruct (negb (t_last t =? 59)%N).
  - eapply wp_mono; [apply skip_statement_spec; [exact Hi1|eapply fuel_ok_big; [apply loop_fuel_big|reflexivity|exact Hi1]]|].
    intros t' (Hi' & Hfr & Hp). split; [|split; assumption].
    apply inv_unfold. split; [exact Hi'|]. rewrite (frame_special _ _ Hfr).
    destruct (t_special t) as [s|]; [|exact I]. destruct Hsp as [A B]. split; [exact A|lia].
  - apply wp_ok. split; [exact Hi|]. split; [reflexivity|lia].
Qed.

Lemma reset_inv t : inv t -> inv (reset t).
Proof.
  intros H. apply inv_unfold in H. destruct H as [H1 _]. apply inv_unfold. split; [|exact I].
  pose proof (inv1_pos_range t H1). destruct H1 as (A & B & C & D & E). unfold inv1, reset; cbn.
  split; [exact A|]. split; [exact B|]. split; [exact C|]. split; [exact D|lia].
Qed.

Theorem reachable_inv d dd sql t : reachable d dd sql t -> inv t /\ t_buf t = sql.
Proof.
  induction 1 as [|t t' tok val _ [IH Eb] Hs|t b _ [IH Eb]|t b _ [IH Eb]|t t' _ [IH Eb] He|t _ [IH Eb]].
  - split; [apply inv_fresh|reflexivity].
  - pose proof (Scan_spec t IH) as W. rewrite Hs in W. destruct W as (Hi' & Hf2 & _).
    split; [exact Hi'|]. rewrite (frame2_buf _ _ Hf2). exact Eb.
  - split; [|exact Eb]. eapply inv_same_cursor; [exact IH|reflexivity..].
  - split; [|exact Eb]. eapply inv_same_cursor; [exact IH|reflexivity..].
  - pose proof (error_resync_spec t IH) as W. rewrite He in W. destruct W as (Hi' & Hfr & _).
    split; [exact Hi'|]. rewrite (frame_buf _ _ Hfr). exact Eb.
  - split; [apply reset_inv; exact IH|exact Eb].
Qed.

(** * (1) totality: no call on a reachable state panics (or runs out of model fuel) *)
Theorem Scan_total d dd sql t :
  reachable d dd sql t -> exists t' tok val, Scan t = Ok (t', tok, val).
Proof.
  intros R. destruct (reachable_inv _ _ _ _ R) as [Hi _].
  destruct (wp_elim _ _ (Scan_spec t Hi)) as [[[t' tok] val] [E _]]. eauto.
Qed.

Theorem error_resync_total d dd sql t :
  reachable d dd sql t -> exists t', error_resync t = Ok t'.
Proof.
  intros R. destruct (reachable_inv _ _ _ _ R) as [Hi _].
  destruct (wp_elim _ _ (error_resync_spec t Hi)) as [t' [E _]]. eauto.
Qed.

(** * (2) progress *)
Theorem Scan_progress t t' tok val :
  inv t -> Scan t = Ok (t', tok, val) -> mu t' <= mu t /\ (tok <> 0 -> mu t' < mu t) /\ 0 <= mu t'.
Proof.
  intros Hi E. pose proof (Scan_spec t Hi) as W. rewrite E in W. destruct W as (Hi' & _ & Hm & Hp & _).
  split; [exact Hm|]. split; [exact Hp|apply mu_nonneg; exact Hi'].
Qed.

(** without a version comment in play the measure is the distance of Position from the end of the input *)
Theorem Scan_advances_position t t' tok val :
  inv t -> Scan t = Ok (t', tok, val) -> t_special t = None -> t_special t' = None -> tok <> 0 ->
  Z.max (t_pos t) 1 < t_pos t' <= len (t_buf t) + 1.
Proof.
  intros Hi E Hs Hs' Hne. pose proof (Scan_spec t Hi) as W. rewrite E in W.
  destruct W as (Hi' & Hf2 & _ & Hp & _). specialize (Hp Hne).
  rewrite !mu_unfold, Hs, Hs' in Hp. unfold rem in Hp. rewrite (frame2_buf _ _ Hf2) in Hp.
  apply inv_unfold in Hi'. destruct Hi' as [Hi1' _]. pose proof (inv1_pos_range t' Hi1') as R.
  rewrite (frame2_buf _ _ Hf2) in R. lia.
Qed.

(** * (2)/(3) the whole token stream *)
Definition total_len (l : list (Z * bytes)) : Z := fold_right (fun x a => len (snd x) + a) 0 l.

Lemma dec_digits_len : forall fuel n acc, len (dec_digits fuel n acc) <= Z.of_nat fuel + len acc.
Proof.
  induction fuel as [|f IH]; intros n acc; cbn [dec_digits]; [lia|].
  destruct (n / 10 =? 0)%N.
  - unfold len; cbn [length]. lia.
  - specialize (IH (n / 10)%N (n2b (48 + n mod 10) :: acc)). unfold len in *; cbn [length] in *. lia.
Qed.

Lemma log2_N_Z n : Z.of_N (N.log2 n) = Z.log2 (Z.of_N n).
Proof. destruct n as [|[p|p|]]; reflexivity. Qed.

Lemma pos_var_len k : 0 < k -> len (pos_var k) <= 3 + Z.log2 k.
Proof.
  intros Hk. unfold pos_var. rewrite len_app. change (len [x3a; x76]) with 2.
  unfold dec_z. destruct (Z.ltb_spec k 0); [lia|].
  pose proof (dec_digits_len (dec_fuel (Z.to_N k)) (Z.to_N k) []) as D. change (len []) with 0 in D.
  unfold dec_fuel in D. rewrite Nat2Z.inj_succ, N_nat_Z in D.
  assert (Z.of_N (N.log2 (Z.to_N k)) = Z.log2 k).
  { rewrite log2_N_Z, Z2N.id by lia. reflexivity. }
  unfold dec_fuel. lia.
Qed.

(** the most a positional-variable token can take for an input of [n] bytes *)
Definition pv_bound (n : Z) : Z := 3 + Z.log2 (n + 1).

Definition tok_ok (n m : Z) (x : Z * bytes) : Prop :=
  fst x <> 0 /\ (len (snd x) <= n \/ (fst x = TK_VALUE_ARG /\ len (snd x) <= pv_bound m)).

Lemma is_pos_var_len t tok val : is_pos_var t tok val -> tok = TK_VALUE_ARG /\ len val <= pv_bound (len (t_buf t)).
Proof.
  intros (Ek & k & Hk & Ev). split; [exact Ek|]. subst val. pose proof (pos_var_len k ltac:(lia)).
  unfold pv_bound. assert (Z.log2 k <= Z.log2 (len (t_buf t) + 1)) by (apply Z.log2_le_mono; lia). lia.
Qed.

Lemma tokenize_spec : forall calls t, inv t -> mu t < Z.of_nat calls ->
  wp (tokenize calls t) (fun l =>
     Z.of_nat (length l) <= mu t /\
     Forall (tok_ok (mu t) (len (t_buf t))) l /\
     total_len l <= mu t + pv_bound (len (t_buf t)) * Z.of_nat (length l)).
Proof.
  induction calls as [|c IH]; intros t Hi Hc.
  - exfalso. pose proof (mu_nonneg t Hi). lia.
  - cbn [tokenize]. apply wp_bind. eapply wp_mono; [apply Scan_spec; exact Hi|].
    intros [[t' tok] val] (Hi' & Hf2 & Hm & Hp & K & Hl).
    pose proof (mu_nonneg t' Hi') as Hn'. pose proof (len_nonneg (t_buf t)) as Hb.
    assert (Hpv : 0 <= pv_bound (len (t_buf t))) by (unfold pv_bound; pose proof (Z.log2_nonneg (len (t_buf t) + 1)); lia).
    destruct (tok =? 0) eqn:E0.
    + apply wp_ok. cbn [length total_len fold_right]. split; [pose proof (mu_nonneg t Hi); lia|]. split; [constructor|].
      pose proof (mu_nonneg t Hi). lia.
    + apply Z.eqb_neq in E0. specialize (Hp E0). apply wp_bind.
      eapply wp_mono; [apply IH; [exact Hi'|lia]|].
      intros rest (Hlen & Hall & Htot). apply wp_ok. rewrite (frame2_buf _ _ Hf2) in *.
      cbn [length total_len fold_right snd]. fold (total_len rest).
      split; [lia|]. split.
      * constructor.
        -- split; [exact E0|]. cbn [fst snd]. destruct Hl as [Hl|Hl]; [left; lia|].
           right. apply is_pos_var_len in Hl. exact Hl.
        -- eapply Forall_impl; [|exact Hall]. intros [tk v] [A B]. split; [exact A|]. cbn [fst snd] in *.
           destruct B as [B|B]; [left; lia|right; exact B].
      * destruct Hl as [Hl|Hl].
        -- nia.
        -- apply is_pos_var_len in Hl. destruct Hl as [_ Hl]. nia.
Qed.

(** tokenizing an input of n bytes: at most n+1 calls of Scan, at most n tokens, bounded token bytes *)
Theorem tokenize_fresh d dd sql :
  exists l, tokenize (S (length sql)) (fresh d dd sql) = Ok l /\
            (length l <= length sql)%nat /\
            Forall (tok_ok (len sql) (len sql)) l /\
            total_len l <= len sql + pv_bound (len sql) * len sql.
Proof.
  pose proof (tokenize_spec (S (length sql)) (fresh d dd sql) (inv_fresh d dd sql)) as W.
  rewrite mu_fresh in W. specialize (W ltac:(unfold len; lia)).
  destruct (wp_elim _ _ W) as [l [E (A & B & C)]]. exists l. split; [exact E|].
  cbn [t_buf fresh] in *.
  split; [unfold len in A; lia|]. split; [exact B|].
  assert (0 <= pv_bound (len sql)) by (unfold pv_bound; pose proof (Z.log2_nonneg (len sql + 1)); lia).
  unfold len in *. nia.
Qed.

(** corollaries in the form used by Properties/C14_tokenizer.v *)
Theorem Scan_never_panics d dd sql t : reachable d dd sql t -> Scan t <> Panic /\ Scan t <> Err E_OUT_OF_FUEL.
Proof.
  intros R. destruct (Scan_total _ _ _ _ R) as (t' & tok & val & E). rewrite E. split; discriminate.
Qed.

Theorem Scan_bounds t t' tok val :
  inv t -> Scan t = Ok (t', tok, val) ->
  t_buf t' = t_buf t /\
  (len val <= mu t - mu t' \/ (tok = TK_VALUE_ARG /\ len val <= pv_bound (len (t_buf t)))).
Proof.
  intros Hi E. pose proof (Scan_spec t Hi) as W. rewrite E in W. destruct W as (_ & Hf2 & _ & _ & _ & Hl).
  split; [apply frame2_buf; exact Hf2|]. destruct Hl as [Hl|Hl]; [left; exact Hl|right; apply is_pos_var_len; exact Hl].
Qed.

(** the nested tokenizer of a version comment is no bigger than the comment, which lies behind Position *)
Theorem nested_tokenizer_bounded d dd sql t s :
  reachable d dd sql t -> t_special t = Some s -> len (t_buf s) + 5 <= t_pos t /\ t_pos t <= len sql + 1.
Proof.
  intros R Es. destruct (reachable_inv _ _ _ _ R) as [Hi Eb]. apply inv_unfold in Hi. destruct Hi as [Hi1 Hs].
  rewrite Es in Hs. destruct Hs as [_ Hl]. pose proof (inv1_pos_range t Hi1). rewrite Eb in *. lia.
Qed.
