(** Proofs about Model/DerV2Ext.v: the parser is a left inverse of the serializer
    (asn1.UnmarshalEncryptedKeys (EncryptedKeys.Marshal rings) = rings in SET OF order). *)
From Coq Require Import List NArith ZArith Bool Lia.
From Acra Require Import Lib.Bytes Lib.Outcome Crypto.Interface Gen.X18Consts Model.DerV2Ext.
Import ListNotations.
Local Open Scope N_scope.

Definition fits32 (c : bytes) : Prop := N.of_nat (length c) < 4294967296.

Lemma b2n_n2b_small n : n < 256 -> b2n (n2b n) = n.
Proof. intros H. rewrite b2n_n2b. now apply N.mod_small. Qed.

Lemma len_octets_bound n : n < 4294967296 -> n < 256 ^ N.of_nat (len_octets n).
Proof.
  intros H. unfold len_octets.
  destruct (n <? 256) eqn:E1; [apply N.ltb_lt in E1; exact E1|].
  destruct (n <? 65536) eqn:E2; [apply N.ltb_lt in E2; exact E2|].
  destruct (n <? 16777216) eqn:E3; [apply N.ltb_lt in E3; exact E3|].
  exact H.
Qed.
Lemma len_octets_range n : (1 <= len_octets n <= 4)%nat.
Proof. unfold len_octets. destruct (n <? 256), (n <? 65536), (n <? 16777216); lia. Qed.

Lemma read_len_der_len n rest : n < 4294967296 -> read_len (der_len n ++ rest) = Some (n, rest).
Proof.
  intros H. unfold der_len.
  destruct (n <? 128) eqn:E.
  - apply N.ltb_lt in E. cbn [app read_len]. rewrite b2n_n2b_small by lia.
    apply N.ltb_lt in E. now rewrite E.
  - apply N.ltb_ge in E. pose proof (len_octets_range n) as Hr.
    cbn [app read_len]. rewrite b2n_n2b_small by lia.
    replace (128 + N.of_nat (len_octets n) <? 128) with false by (symmetry; apply N.ltb_ge; lia).
    replace (N.to_nat (128 + N.of_nat (len_octets n) - 128)) with (len_octets n) by lia.
    replace (Nat.eqb (len_octets n) 0) with false by (symmetry; apply Nat.eqb_neq; lia).
    replace (Nat.ltb 4 (len_octets n)) with false by (symmetry; apply Nat.ltb_ge; lia).
    replace (Nat.ltb (length (be_enc (len_octets n) n ++ rest)) (len_octets n)) with false
      by (symmetry; apply Nat.ltb_ge; rewrite app_length, be_enc_length; lia).
    cbn [orb]. rewrite firstn_app_len' by (now rewrite be_enc_length).
    rewrite skipn_app_len' by (now rewrite be_enc_length).
    rewrite be_dec_enc_small by (now apply len_octets_bound). reflexivity.
Qed.

Lemma read_tlv_tlv t c rest : fits32 c -> read_tlv (tlv t c ++ rest) = Some (t, c, rest).
Proof.
  intros H. unfold tlv, read_tlv. cbn [app]. rewrite <- app_assoc, read_len_der_len by exact H.
  replace (N.of_nat (length (c ++ rest)) <? N.of_nat (length c)) with false
    by (symmetry; apply N.ltb_ge; rewrite app_length; lia).
  rewrite Nat2N.id, firstn_app_len, skipn_app_len. reflexivity.
Qed.

Lemma expect_tlv t c rest : fits32 c -> expect t (tlv t c ++ rest) = Some (c, rest).
Proof. intros H. unfold expect. rewrite read_tlv_tlv by exact H. now rewrite byte_eqb_refl. Qed.
Lemma expect_tlv' t c : fits32 c -> expect t (tlv t c) = Some (c, []).
Proof. intros H. rewrite <- (app_nil_r (tlv t c)). now apply expect_tlv. Qed.

Lemma tlv_length t c : (length c < length (tlv t c))%nat.
Proof. unfold tlv. cbn [length]. rewrite app_length. lia. Qed.
Lemma fits32_le a b : (length a <= length b)%nat -> fits32 b -> fits32 a.
Proof. unfold fits32. lia. Qed.

(** ---------------- INTEGER ---------------- *)
Definition int64 (z : Z) : Prop := (- 2 ^ 63 <= z < 2 ^ 63)%Z.

Lemma int_len_aux_spec fuel : forall n z,
  (1 <= n)%nat -> (n + fuel = 8)%nat -> int64 z ->
  (forall m, (1 <= m < n)%nat -> fits m z = false) ->
  fits (int_len_aux fuel n z) z = true /\ (1 <= int_len_aux fuel n z <= 8)%nat.
Proof.
  induction fuel as [|f IH]; intros n z Hn Hsum Hz Hprev; cbn [int_len_aux].
  - assert (n = 8%nat) by lia. subst n. split; [|lia].
    unfold fits, int64 in *. cbn. apply andb_true_iff. split; [apply Z.leb_le | apply Z.ltb_lt]; lia.
  - destruct (fits n z) eqn:E; [split; [exact E | lia]|].
    apply IH; try lia; [exact Hz|]. intros m Hm. destruct (Nat.eq_dec m n); [now subst | apply Hprev; lia].
Qed.
Lemma int_len_spec z : int64 z -> fits (int_len z) z = true /\ (1 <= int_len z <= 8)%nat.
Proof. intros H. unfold int_len. apply int_len_aux_spec; try lia; exact H. Qed.

Lemma int_content_length z : length (int_content z) = int_len z.
Proof. unfold int_content. apply be_enc_length. Qed.

Lemma int_value_content z : int64 z -> int_value (int_content z) = z.
Proof.
  intros Hz. destruct (int_len_spec z Hz) as [Hf Hr].
  unfold int_value. rewrite int_content_length. unfold int_content.
  set (n := int_len z) in *. set (w := (8 * Z.of_nat n)%Z).
  assert (Hw : (0 < w)%Z) by (unfold w; lia).
  assert (Hpow : (2 ^ w = 2 * 2 ^ (w - 1))%Z) by (rewrite <- Z.pow_succ_r by lia; f_equal; lia).
  assert (Hpos : (0 < 2 ^ (w - 1))%Z) by (apply Z.pow_pos_nonneg; lia).
  unfold fits in Hf. fold w in Hf. apply andb_true_iff in Hf. destruct Hf as [Hlo Hhi].
  apply Z.leb_le in Hlo. apply Z.ltb_lt in Hhi.
  assert (Hmod : (0 <= z mod 2 ^ w < 2 ^ w)%Z) by (apply Z.mod_pos_bound; lia).
  rewrite be_dec_enc_small.
  2:{ replace (256 ^ N.of_nat n) with (Z.to_N (2 ^ w)).
      - apply Z2N.inj_lt; lia.
      - unfold w. rewrite Z.pow_mul_r by lia. change (2 ^ 8)%Z with 256%Z.
        rewrite Z2N.inj_pow by lia. rewrite <- nat_N_Z, N2Z.id. reflexivity. }
  rewrite Z2N.id by lia.
  destruct (Z_lt_ge_dec z 0) as [Hneg|Hnn].
  - assert (Hm : (z mod 2 ^ w = z + 2 ^ w)%Z).
    { symmetry. apply Z.mod_unique_pos with (q := (-1)%Z); lia. }
    rewrite Hm. replace (z + 2 ^ w <? 2 ^ (w - 1))%Z with false by (symmetry; apply Z.ltb_ge; lia). lia.
  - rewrite Z.mod_small by lia. replace (z <? 2 ^ (w - 1))%Z with true by (symmetry; apply Z.ltb_lt; lia). reflexivity.
Qed.

Lemma int_content_fits z : int64 z -> fits32 (int_content z).
Proof. intros H. unfold fits32. rewrite int_content_length. destruct (int_len_spec z H). lia. Qed.

(** ---------------- optional context-tagged fields ---------------- *)
Definition no_tag (k : N) (rest : bytes) : Prop :=
  match read_tlv rest with
  | Some (t, _, _) => byte_eqb (t_ctx k) t = false
  | None => True
  end.

Lemma expect_opt_der k b rest : fits32 b -> no_tag k rest -> expect_opt k (der_opt k b ++ rest) = (b, rest).
Proof.
  intros Hf Hn. unfold der_opt. destruct b as [|b0 b'].
  - cbn [is_nil app]. unfold expect_opt. unfold no_tag in Hn.
    destruct (read_tlv rest) as [[[t c] r]|]; [now rewrite Hn | reflexivity].
  - cbn [is_nil]. unfold expect_opt. rewrite read_tlv_tlv by exact Hf. now rewrite byte_eqb_refl.
Qed.
Lemma no_tag_nil k : no_tag k [].
Proof. exact I. Qed.
Lemma no_tag_opt k k' b rest :
  byte_eqb (t_ctx k) (t_ctx k') = false -> fits32 b -> no_tag k rest -> no_tag k (der_opt k' b ++ rest).
Proof.
  intros Ht Hf Hn. unfold der_opt. destruct b as [|b0 b']; [exact Hn|].
  cbn [is_nil]. unfold no_tag. now rewrite read_tlv_tlv by exact Hf.
Qed.

Definition wf_kdata (d : kdata) : Prop :=
  int64 (kd_format d) /\ fits32 (kd_pub d) /\ fits32 (kd_priv d) /\ fits32 (kd_sym d).

Definition kdata_content (d : kdata) : bytes :=
  tlv T_INTEGER (int_content (kd_format d)) ++ der_opt TAG_PUBLIC (kd_pub d) ++
  der_opt TAG_PRIVATE (kd_priv d) ++ der_opt TAG_SYMMETRIC (kd_sym d).

Lemma parse_kdata_content d : wf_kdata d -> parse_kdata (kdata_content d) = Some d.
Proof.
  intros [Hf [Hp [Hr Hs]]]. unfold parse_kdata, kdata_content.
  rewrite expect_tlv by (now apply int_content_fits).
  rewrite int_value_content by exact Hf.
  rewrite expect_opt_der;
    [| exact Hp | apply no_tag_opt; [reflexivity | exact Hr |]; rewrite <- (app_nil_r (der_opt _ _));
                  apply no_tag_opt; [reflexivity | exact Hs | apply no_tag_nil]].
  rewrite expect_opt_der;
    [| exact Hr | rewrite <- (app_nil_r (der_opt _ _)); apply no_tag_opt; [reflexivity | exact Hs | apply no_tag_nil]].
  rewrite <- (app_nil_r (der_opt TAG_SYMMETRIC (kd_sym d))).
  rewrite expect_opt_der by (exact Hs || apply no_tag_nil).
  cbn [is_nil]. now destruct d.
Qed.

(** ---------------- sequences of elements ---------------- *)
Lemma parse_many_cons {A} (p : bytes -> option A) f s :
  s <> [] ->
  parse_many p (S f) s =
  match expect T_SEQ s with
  | Some (c, rest) =>
      match p c, parse_many p f rest with
      | Some x, Some xs => Some (x :: xs)
      | _, _ => None
      end
  | None => None
  end.
Proof. destruct s; [contradiction | reflexivity]. Qed.

Lemma parse_many_ok {A} (p : bytes -> option A) (L : list (bytes * A)) : forall fuel,
  (length L <= fuel)%nat ->
  Forall (fun ev => exists c, fst ev = tlv T_SEQ c /\ fits32 c /\ p c = Some (snd ev)) L ->
  parse_many p fuel (concat (map fst L)) = Some (map snd L).
Proof.
  induction L as [|[e v] L IH]; intros fuel Hfuel HF.
  - cbn. destruct fuel; reflexivity.
  - inversion HF as [|? ? [c [He [Hc Hp]]] HF']; subst. cbn [fst snd] in *.
    cbn [map concat fst snd]. rewrite He.
    destruct fuel as [|f]; [cbn in Hfuel; lia|].
    rewrite parse_many_cons by (unfold tlv; discriminate).
    rewrite expect_tlv by exact Hc. rewrite Hp.
    rewrite IH; [reflexivity | cbn in Hfuel; lia | exact HF'].
Qed.

Lemma concat_length_ge {A} (L : list (bytes * A)) :
  Forall (fun ev => fst ev <> []) L -> (length L <= length (concat (map fst L)))%nat.
Proof.
  induction 1 as [|[e v] L He _ IH]; cbn [map concat length]; [lia|].
  rewrite app_length. cbn [fst] in *. destruct e as [|e0 e']; [congruence|]. cbn [length]. lia.
Qed.

Lemma tlv_not_nil t c : tlv t c <> [].
Proof. discriminate. Qed.

Lemma in_ins {A} (x y : bytes * A) l : In x (ins y l) <-> x = y \/ In x l.
Proof.
  induction l as [|z l IH]; cbn [ins].
  - cbn. intuition.
  - destruct (bytes_leb (fst y) (fst z)).
    + cbn. intuition.
    + cbn [In]. rewrite IH. intuition.
Qed.
Lemma in_isort {A} (x : bytes * A) l : In x (isort l) <-> In x l.
Proof.
  induction l as [|y l IH]; cbn [isort fold_right]; [tauto|].
  fold (isort l). rewrite in_ins, IH. cbn. intuition.
Qed.

(** elements of a SET OF: each pair of the sorted list is (enc x, x) for an x of the original list *)
Lemma set_of_elements {A} (enc : A -> bytes) (l : list A) :
  Forall (fun ev => fst ev = enc (snd ev) /\ In (snd ev) l) (set_of enc l).
Proof.
  apply Forall_forall. intros [e v] Hin. unfold set_of in Hin.
  assert (H : In (e, v) (map (fun x => (enc x, x)) l)) by (now apply (proj1 (in_isort _ _))).
  apply (proj1 (in_map_iff _ _ _)) in H. destruct H as [x [Hx Hl]]. inversion Hx; subst. cbn. auto.
Qed.

(** ---------------- keys ---------------- *)
Definition key_content (k : rkey) : bytes :=
  tlv T_INTEGER (int_content (k_seq k)) ++ tlv T_INTEGER (int_content (k_state k)) ++
  tlv T_UTCTIME (k_since k) ++ tlv T_UTCTIME (k_until k) ++
  tlv T_SET (concat (map fst (set_of der_kdata (k_data k)))).

Definition wf_rkey (k : rkey) : Prop :=
  int64 (k_seq k) /\ int64 (k_state k) /\ fits32 (k_since k) /\ fits32 (k_until k) /\
  Forall wf_kdata (k_data k) /\ fits32 (key_content k).

Lemma der_kdata_eq d : der_kdata d = tlv T_SEQ (kdata_content d).
Proof. reflexivity. Qed.
Lemma der_key_eq k : der_key k = tlv T_SEQ (key_content k).
Proof. reflexivity. Qed.

Lemma in_concat_length {A} (L : list (bytes * A)) ev : In ev L -> (length (fst ev) <= length (concat (map fst L)))%nat.
Proof.
  induction L as [|y L IH]; [contradiction|]. intros [->|H]; cbn [map concat]; rewrite app_length; [lia|].
  specialize (IH H). lia.
Qed.

Lemma parse_key_content k : wf_rkey k -> parse_key (key_content k) = Some (sorted_data k).
Proof.
  intros [Hs [Hst [Hsi [Hun [Hd Hfit]]]]]. unfold parse_key, key_content in *.
  rewrite expect_tlv by (now apply int_content_fits).
  rewrite expect_tlv by (now apply int_content_fits).
  rewrite expect_tlv by exact Hsi. rewrite expect_tlv by exact Hun.
  set (L := set_of der_kdata (k_data k)) in *.
  assert (Hset : fits32 (concat (map fst L))).
  { eapply fits32_le; [|exact Hfit]. repeat rewrite app_length.
    pose proof (tlv_length T_SET (concat (map fst L))). lia. }
  rewrite expect_tlv' by exact Hset. cbn [is_nil].
  assert (HL : Forall (fun ev => exists c, fst ev = tlv T_SEQ c /\ fits32 c /\ parse_kdata c = Some (snd ev)) L).
  { pose proof (set_of_elements der_kdata (k_data k)) as HE. fold L in HE.
    apply Forall_forall. intros ev Hin. rewrite Forall_forall in HE. destruct (HE ev Hin) as [He Hin'].
    exists (kdata_content (snd ev)). split; [exact He|]. split.
    - eapply fits32_le; [|exact Hset]. pose proof (in_concat_length L ev Hin) as Hlen.
      rewrite He, der_kdata_eq in Hlen. pose proof (tlv_length T_SEQ (kdata_content (snd ev))). lia.
    - apply parse_kdata_content. rewrite Forall_forall in Hd. now apply Hd. }
  rewrite parse_many_ok; [|apply concat_length_ge | exact HL].
  - rewrite int_value_content by exact Hs. rewrite int_value_content by exact Hst. reflexivity.
  - eapply Forall_impl; [|exact HL]. intros ev [c [He _]] Hnil. exact (tlv_not_nil _ _ (eq_trans (eq_sym He) Hnil)).
Qed.

(** ---------------- rings ---------------- *)
Definition ring_content (r : ring) : bytes :=
  tlv T_OCTETS (r_purpose r) ++ tlv T_SEQ (concat (map der_key (r_keys r))) ++
  tlv T_INTEGER (int_content (r_current r)).

Definition wf_ring (r : ring) : Prop :=
  int64 (r_current r) /\ Forall wf_rkey (r_keys r) /\ fits32 (ring_content r).

Lemma der_ring_eq r : der_ring r = tlv T_SEQ (ring_content r).
Proof. reflexivity. Qed.

Lemma parse_ring_content r : wf_ring r -> parse_ring (ring_content r) = Some (sorted_ring r).
Proof.
  intros [Hc [Hk Hfit]]. unfold parse_ring, ring_content in *.
  assert (Hp : fits32 (r_purpose r)).
  { eapply fits32_le; [|exact Hfit]. repeat rewrite app_length. pose proof (tlv_length T_OCTETS (r_purpose r)). lia. }
  assert (Hks : fits32 (concat (map der_key (r_keys r)))).
  { eapply fits32_le; [|exact Hfit]. repeat rewrite app_length.
    pose proof (tlv_length T_SEQ (concat (map der_key (r_keys r)))). lia. }
  rewrite expect_tlv by exact Hp. rewrite expect_tlv by exact Hks.
  rewrite expect_tlv' by (now apply int_content_fits). cbn [is_nil].
  set (L := map (fun k => (der_key k, k)) (r_keys r)).
  assert (E1 : map der_key (r_keys r) = map fst L) by (unfold L; rewrite map_map; reflexivity).
  assert (E2 : map sorted_data (r_keys r) = map snd (map (fun ev => (fst ev, sorted_data (snd ev))) L))
    by (unfold L; rewrite !map_map; reflexivity).
  assert (E3 : map fst L = map fst (map (fun ev => (fst ev, sorted_data (snd ev))) L))
    by (rewrite map_map; reflexivity).
  rewrite E1 in *. rewrite E3 in *.
  set (L' := map (fun ev => (fst ev, sorted_data (snd ev))) L) in *.
  assert (HL : Forall (fun ev => exists c, fst ev = tlv T_SEQ c /\ fits32 c /\ parse_key c = Some (snd ev)) L').
  { apply Forall_forall. intros ev Hin. unfold L', L in Hin. rewrite map_map in Hin.
    apply in_map_iff in Hin. destruct Hin as [k [Hev Hin]]. subst ev. cbn [fst snd].
    exists (key_content k). split; [reflexivity|]. rewrite Forall_forall in Hk. pose proof (Hk k Hin) as Hwk.
    split; [apply Hwk | now apply parse_key_content]. }
  rewrite parse_many_ok; [|apply concat_length_ge | exact HL].
  - rewrite int_value_content by exact Hc. unfold sorted_ring. now rewrite E2.
  - eapply Forall_impl; [|exact HL]. intros ev [c [He _]] Hnil. exact (tlv_not_nil _ _ (eq_trans (eq_sym He) Hnil)).
Qed.

(** ---------------- the bundle plaintext: EncryptedKeys ---------------- *)
Definition wf_rings (rs : list ring) : Prop := Forall wf_ring rs /\ fits32 (der_rings rs).

Theorem parse_der_rings rs : wf_rings rs -> parse_rings (der_rings rs) = Some (sorted_rings rs).
Proof.
  intros [Hr Hfit]. unfold parse_rings, der_rings in *.
  set (L := set_of der_ring rs) in *.
  assert (Hset : fits32 (tlv T_SET (concat (map fst L)))).
  { eapply fits32_le; [|exact Hfit]. pose proof (tlv_length T_SEQ (tlv T_SET (concat (map fst L)))). lia. }
  assert (Hcat : fits32 (concat (map fst L))).
  { eapply fits32_le; [|exact Hset]. pose proof (tlv_length T_SET (concat (map fst L))). lia. }
  rewrite expect_tlv' by exact Hset. cbn [is_nil].
  rewrite expect_tlv' by exact Hcat. cbn [is_nil].
  set (L' := map (fun ev => (fst ev, sorted_ring (snd ev))) L).
  assert (E1 : map fst L = map fst L') by (unfold L'; rewrite map_map; reflexivity).
  assert (E2 : sorted_rings rs = map snd L') by (unfold sorted_rings, L'; fold L; rewrite !map_map; reflexivity).
  rewrite E1 in *. rewrite E2.
  assert (HL : Forall (fun ev => exists c, fst ev = tlv T_SEQ c /\ fits32 c /\ parse_ring c = Some (snd ev)) L').
  { pose proof (set_of_elements der_ring rs) as HE. fold L in HE.
    apply Forall_forall. intros ev Hin. unfold L' in Hin. apply in_map_iff in Hin.
    destruct Hin as [ev0 [Hev Hin0]]. subst ev. cbn [fst snd].
    rewrite Forall_forall in HE. destruct (HE ev0 Hin0) as [He Hin'].
    exists (ring_content (snd ev0)). split; [exact He|].
    rewrite Forall_forall in Hr. pose proof (Hr _ Hin') as Hwr.
    split; [apply Hwr | now apply parse_ring_content]. }
  apply parse_many_ok; [apply concat_length_ge | exact HL].
  eapply Forall_impl; [|exact HL]. intros ev [c [He _]] Hnil. exact (tlv_not_nil _ _ (eq_trans (eq_sym He) Hnil)).
Qed.
