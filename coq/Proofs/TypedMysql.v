(** C19 proofs, MySQL side: little-endian two's complement, the decision table of the MySQL type-aware
    processors for every setting, protocol, reveal function and value; the column definition; the row. *)
From Acra Require Import Lib.Bytes Lib.Outcome Gen.TypedConsts Gen.TypedMysqlConsts Model.Typed Model.MysqlWire
  Model.TypedMysql Proofs.TypedInt Proofs.Typed Proofs.MysqlWire.
From Coq Require Import ZifyN ZifyNat ZifyBool.
Local Open Scope N_scope.

(** * little endian = reversed big endian *)
Lemma le_of_int_rev w z : le_of_int w z = rev (be_of_int w z).
Proof. unfold le_of_int, be_of_int, be_enc. rewrite rev_involutive. reflexivity. Qed.

Lemma int_of_le_rev (bs : bytes) : int_of_le bs = int_of_be (rev bs).
Proof. unfold int_of_le, int_of_be, be_dec. rewrite rev_involutive, rev_length. reflexivity. Qed.

Lemma le_of_int_length w z : length (le_of_int w z) = w.
Proof. unfold le_of_int. apply le_enc_length. Qed.

Lemma int_of_le_of_int4 z : (-2147483648 <= z < 2147483648)%Z -> int_of_le (le_of_int 4 z) = z.
Proof. intros H. rewrite int_of_le_rev, le_of_int_rev, rev_involutive. apply int_of_be_of_int4, H. Qed.

Lemma int_of_le_of_int8 z :
  (-9223372036854775808 <= z < 9223372036854775808)%Z -> int_of_le (le_of_int 8 z) = z.
Proof. intros H. rewrite int_of_le_rev, le_of_int_rev, rev_involutive. apply int_of_be_of_int8, H. Qed.

Lemma le_of_int_of_le4 (bs : bytes) : length bs = 4%nat -> le_of_int 4 (int_of_le bs) = bs.
Proof.
  intros L. rewrite int_of_le_rev, le_of_int_rev, be_of_int_of_be4 by (rewrite rev_length; exact L).
  apply rev_involutive.
Qed.

Lemma le_of_int_of_le8 (bs : bytes) : length bs = 8%nat -> le_of_int 8 (int_of_le bs) = bs.
Proof.
  intros L. rewrite int_of_le_rev, le_of_int_rev, be_of_int_of_be8 by (rewrite rev_length; exact L).
  apply rev_involutive.
Qed.

Lemma int_of_le_range4 (bs : bytes) : length bs = 4%nat -> (-2147483648 <= int_of_le bs < 2147483648)%Z.
Proof. intros L. rewrite int_of_le_rev. apply int_of_be_range4. rewrite rev_length. exact L. Qed.

Lemma int_of_le_range8 (bs : bytes) :
  length bs = 8%nat -> (-9223372036854775808 <= int_of_le bs < 9223372036854775808)%Z.
Proof. intros L. rewrite int_of_le_rev. apply int_of_be_range8. rewrite rev_length. exact L. Qed.

(** * Specification vocabulary *)

(** [p] is a value of the declared kind (integer kinds: an integer literal of the declared width) *)
Definition my_is_value (k : tykind) (p : bytes) : bool :=
  match k with
  | TInt4 | TInt8 => match parse_int (int_bits k) p with Some _ => true | None => false end
  | _ => true
  end.

(** [p] encoded as the declared kind in the protocol: text protocol = length-encoded string of the text;
    binary protocol = little-endian fixed width for the integer kinds, length-encoded string otherwise *)
Definition my_typed_repr (k : tykind) (binary : bool) (p : bytes) : bytes :=
  match k with
  | TInt4 | TInt8 =>
      match parse_int (int_bits k) p with
      | Some z => if binary then le_of_int (int_width k) z else lenenc p
      | None => lenenc p
      end
  | _ => lenenc p
  end.

(** the configured default encoded as the kind (bytes columns: the default is given in base64) *)
Definition my_default_repr (k : tykind) (binary : bool) (d : bytes) : bytes :=
  match k with
  | TBytea => match b64_decode d with Some v => lenenc v | None => [] end
  | _ => my_typed_repr k binary d
  end.

(** Go's Type.IsBinaryType: the column types that can hold a ciphertext *)
Definition my_is_binary_type (t : N) : bool :=
  ((MY_T_TINYBLOB <=? t) && (t <=? MY_T_BLOB)) || (t =? MY_T_VARSTRING) || (t =? MY_T_STRING) || (t =? MY_T_VARCHAR).

(** the well-formed one-column data row holding [raw] in a column of a binary type *)
Definition my_row_prefix (binary : bool) : bytes := if binary then [x00; x00] else [].
Definition my_row_of (binary : bool) (raw : bytes) : bytes := my_row_prefix binary ++ lenenc raw.

(** * the registered encoders *)
Lemma my_encoder_for_ids id k :
  my_encoder_for id = Some k ->
  (id = 3 /\ k = TInt4) \/ (id = 8 /\ k = TInt8) \/ (id = 252 /\ k = TBytea) \/ (id = 254 /\ k = TText).
Proof.
  unfold my_encoder_for, encoder_for, MY_ENCODERS. cbn [lookup].
  destruct (N.eqb_spec 3 id) as [<-|_]; [cbn; intros [= <-]; auto|].
  destruct (N.eqb_spec 8 id) as [<-|_]; [cbn; intros [= <-]; auto|].
  destruct (N.eqb_spec 252 id) as [<-|_]; [cbn; intros [= <-]; auto 6|].
  destruct (N.eqb_spec 254 id) as [<-|_]; [cbn; intros [= <-]; auto 6|].
  discriminate.
Qed.

Lemma my_encoder_for_lookup id k :
  my_encoder_for id = Some k -> exists c, lookup id MY_ENCODERS = Some c /\ kind_of_code c = Some k.
Proof.
  unfold my_encoder_for, encoder_for. destruct (lookup id MY_ENCODERS) as [c|]; [|discriminate].
  intros H. exists c. split; [reflexivity| exact H].
Qed.

Lemma my_step_typed s k binary dec (data : bytes) :
  my_encoder_for (s_type_id s) = Some k ->
  my_encode_step s binary dec data = my_type_encode k s binary dec data.
Proof.
  intros Hk. destruct (my_encoder_for_lookup _ _ Hk) as (c & Hl & Hc).
  unfold my_encode_step. rewrite Hl, Hc. reflexivity.
Qed.

Lemma my_int_class_of_kind id k :
  my_encoder_for id = Some k -> is_int_kind k = true -> my_int_class id = Some (int_bits k, int_width k).
Proof.
  intros Hk Hi. destruct (my_encoder_for_ids _ _ Hk) as [[-> ->]|[[-> ->]|[[-> ->]|[-> ->]]]];
    try discriminate; reflexivity.
Qed.

Lemma my_binary_type_cases t :
  my_is_binary_type t = true -> t = 15 \/ t = 249 \/ t = 250 \/ t = 251 \/ t = 252 \/ t = 253 \/ t = 254.
Proof.
  unfold my_is_binary_type, MY_T_TINYBLOB, MY_T_BLOB, MY_T_VARSTRING, MY_T_STRING, MY_T_VARCHAR. intros H.
  apply orb_true_iff in H as [H|H]; [|apply N.eqb_eq in H; lia].
  apply orb_true_iff in H as [H|H]; [|apply N.eqb_eq in H; lia].
  apply orb_true_iff in H as [H|H]; [|apply N.eqb_eq in H; lia].
  apply andb_true_iff in H as [H1 H2]. apply N.leb_le in H1, H2. lia.
Qed.

Lemma my_reencode_binary_type t (data : bytes) :
  my_is_binary_type t = true -> my_reencode_binary t data = Ok (lenenc data).
Proof.
  intros H. destruct (my_binary_type_cases t H) as [->|[->|[->|[->|[->|[->| ->]]]]]]; reflexivity.
Qed.

Lemma my_decode_binary_type ci (data : bytes) :
  my_is_binary_type (ci_origin ci) = true -> my_decode_binary ci data = Ok data.
Proof.
  intros H. unfold my_decode_binary.
  destruct (my_binary_type_cases _ H) as [E|[E|[E|[E|[E|[E|E]]]]]]; rewrite E; reflexivity.
Qed.

Lemma my_extract_binary_type cd (raw : bytes) :
  cd_changed cd = true -> my_is_binary_type (cd_origin cd) = true -> N.of_nat (length raw) < 2^63 ->
  my_extract 2 (x00 :: x00 :: lenenc raw) cd = Ok raw.
Proof.
  intros Hc H Hl. unfold my_extract. rewrite Hc.
  assert (E : forall t, my_is_binary_type t = true ->
            (t =? MY_T_NULL) = false /\ my_int_class t = None /\ my_is_float t = false /\ my_is_lenenc_type t = true).
  { intros t Ht. destruct (my_binary_type_cases t Ht) as [->|[->|[->|[->|[->|[->| ->]]]]]]; repeat split; reflexivity. }
  destruct (E _ H) as (E1 & E2 & E3 & E4). rewrite E1, E2, E3, E4.
  replace (2 <=? length (x00 :: x00 :: lenenc raw))%nat with true by (symmetry; apply Nat.leb_le; cbn [length]; lia).
  change (skipn 2 (x00 :: x00 :: lenenc raw)) with (lenenc raw).
  unfold lenenc. rewrite <- (app_nil_r (put_lenenc_string (Some raw))).
  rewrite mysql_lenenc_string_roundtrip by exact Hl. reflexivity.
Qed.

(** * EncodeOnFail *)
Lemma my_encode_default_valid k binary (d : bytes) :
  validate_default k d = true -> my_encode_default k binary d = Ok (Some (my_default_repr k binary d)).
Proof.
  intros Hv. unfold my_encode_default, my_default_repr, my_typed_repr. unfold validate_default in Hv.
  destruct k.
  - destruct (parse_int (int_bits TInt4) d); [reflexivity| discriminate].
  - destruct (parse_int (int_bits TInt8) d); [reflexivity| discriminate].
  - reflexivity.
  - destruct (b64_decode d); [reflexivity| discriminate].
Qed.

Lemma my_on_fail_default k s binary (d : bytes) :
  s_policy s = PDefault -> s_default s = Some d -> validate_default k d = true ->
  my_encode_on_fail k s binary = Ok (Some (my_default_repr k binary d)).
Proof.
  intros Hp Hd Hv. unfold my_encode_on_fail. rewrite Hp, Hd. apply my_encode_default_valid, Hv.
Qed.

(** * Encoder processor *)

(** revealed value that is a value of the kind: delivered typed, no roll-back *)
Lemma my_encoder_revealed s k ci (p : bytes) :
  my_encoder_for (s_type_id s) = Some k -> p <> [] -> my_is_value k p = true ->
  my_encoder s ci true p = Ok (false, my_typed_repr k (ci_binary ci) p).
Proof.
  intros Hk Hp Hv. destruct p as [|b r]; [congruence|].
  unfold my_encoder. rewrite (my_step_typed s k _ _ _ Hk).
  unfold my_type_encode, my_typed_repr, my_is_value in *.
  destruct k.
  - destruct (parse_int (int_bits TInt4) (b :: r)); [reflexivity| discriminate].
  - destruct (parse_int (int_bits TInt8) (b :: r)); [reflexivity| discriminate].
  - reflexivity.
  - reflexivity.
Qed.

(** revealed value that is no integer of the declared width, binary protocol: the statement is refused *)
Lemma my_encoder_revealed_nonint_binary s k ci (p : bytes) :
  my_encoder_for (s_type_id s) = Some k -> p <> [] -> my_is_value k p = false ->
  ci_binary ci = true -> ci_type ci = s_type_id s ->
  my_encoder s ci true p = Err E_GENERIC.
Proof.
  intros Hk Hp Hv Hb Ht. destruct p as [|b r]; [congruence|].
  assert (Hi : is_int_kind k = true) by (destruct k; try reflexivity; discriminate).
  unfold my_encoder. rewrite (my_step_typed s k _ _ _ Hk), Hb, Ht.
  pose proof (my_int_class_of_kind _ _ Hk Hi) as Hc.
  assert (Hn : (s_type_id s =? MY_T_NULL) = false).
  { destruct (my_encoder_for_ids _ _ Hk) as [[-> _]|[[-> _]|[[-> _]|[-> _]]]]; reflexivity. }
  unfold my_type_encode, my_is_value in *.
  destruct k; try discriminate.
  - destruct (parse_int (int_bits TInt4) (b :: r)) eqn:E; [discriminate|].
    unfold my_reencode_binary. rewrite Hn, Hc, E. reflexivity.
  - destruct (parse_int (int_bits TInt8) (b :: r)) eqn:E; [discriminate|].
    unfold my_reencode_binary. rewrite Hn, Hc, E. reflexivity.
Qed.

(** the same value in the text protocol: handed through (known finding mysql-int-column-plaintext-not-integer) *)
Lemma my_encoder_revealed_nonint_text s k ci (p : bytes) :
  my_encoder_for (s_type_id s) = Some k -> p <> [] -> my_is_value k p = false -> ci_binary ci = false ->
  my_encoder s ci true p = Ok (false, lenenc p).
Proof.
  intros Hk Hp Hv Hb. destruct p as [|b r]; [congruence|].
  unfold my_encoder. rewrite (my_step_typed s k _ _ _ Hk), Hb.
  unfold my_type_encode, my_is_value in *.
  destruct k; try discriminate.
  - destruct (parse_int (int_bits TInt4) (b :: r)); [discriminate| reflexivity].
  - destruct (parse_int (int_bits TInt8) (b :: r)); [discriminate| reflexivity].
Qed.

(** a stored plain integer literal of the declared width passes typed, whatever the policy *)
Lemma my_encoder_int_literal s k ci dec (c : bytes) z :
  my_encoder_for (s_type_id s) = Some k -> is_int_kind k = true -> parse_int (int_bits k) c = Some z ->
  my_encoder s ci dec c = Ok (false, if ci_binary ci then le_of_int (int_width k) z else lenenc c).
Proof.
  intros Hk Hi Hz. destruct c as [|b r]; [destruct k; discriminate|].
  unfold my_encoder. rewrite (my_step_typed s k _ _ _ Hk). unfold my_type_encode.
  destruct k; try discriminate; rewrite Hz; reflexivity.
Qed.

(** what Encode does with an unrevealed value that is not a plain integer literal *)
Lemma my_type_encode_unrevealed k s binary (c : bytes) :
  (is_int_kind k = true -> parse_int (int_bits k) c = None) ->
  my_type_encode k s binary false c = my_unrevealed k s binary.
Proof.
  intros Hn. unfold my_type_encode. destruct k; try reflexivity; rewrite Hn by reflexivity; reflexivity.
Qed.

(** unrevealed value: the policy decides; "ciphertext" keeps the bytes and asks for the roll-back *)
Lemma my_encoder_unrevealed s k ci (c : bytes) :
  my_encoder_for (s_type_id s) = Some k -> c <> [] ->
  (is_int_kind k = true -> parse_int (int_bits k) c = None) ->
  (ci_binary ci = true -> my_is_binary_type (ci_origin ci) = true) ->
  my_encoder s ci false c =
  match s_policy s with
  | PEmpty | PCiphertext => Ok (true, lenenc c)
  | PDefault =>
      match s_default s with
      | Some d => match my_encode_default k (ci_binary ci) d with
                  | Ok (Some v) => Ok (false, v)
                  | Ok None => Ok (true, lenenc c)
                  | Err e => Err e
                  | Panic => Panic
                  end
      | None => Ok (true, lenenc c)
      end
  | PError => Err E_ENCODING
  | PBad => Err E_GENERIC
  end.
Proof.
  intros Hk Hc Hn Ho. destruct c as [|b r]; [congruence|].
  unfold my_encoder. rewrite (my_step_typed s k _ _ _ Hk), (my_type_encode_unrevealed _ _ _ _ Hn).
  assert (Hconv : (if ci_binary ci then do v <- my_reencode_binary (ci_origin ci) (b :: r); Ok (true, v)
                   else Ok (true, lenenc (b :: r))) = Ok (true, lenenc (b :: r))).
  { destruct (ci_binary ci); [|reflexivity]. rewrite my_reencode_binary_type by (apply Ho; reflexivity). reflexivity. }
  unfold my_unrevealed, my_encode_on_fail.
  destruct (s_policy s).
  - cbn. exact Hconv.
  - cbn. exact Hconv.
  - destruct (s_default s) as [d|]; [|cbn; exact Hconv].
    assert (Hd : forall e, my_encode_default k (ci_binary ci) d = Err e -> (e =? E_CONVERT) = false).
    { unfold my_encode_default. intros e. destruct k.
      - destruct (parse_int _ d); [discriminate| intros [= <-]; reflexivity].
      - destruct (parse_int _ d); [discriminate| intros [= <-]; reflexivity].
      - discriminate.
      - destruct (b64_decode d); discriminate. }
    destruct (my_encode_default k (ci_binary ci) d) as [[v|]|e|] eqn:E.
    + reflexivity.
    + cbn. exact Hconv.
    + rewrite (Hd e eq_refl). reflexivity.
    + reflexivity.
  - reflexivity.
  - reflexivity.
Qed.

(** * Decoder processor *)
Lemma my_decoder_binary_type s ci (stored : bytes) :
  (ci_binary ci = true -> my_is_binary_type (ci_origin ci) = true) ->
  my_decoder s ci stored = Ok stored.
Proof.
  intros Ho. unfold my_decoder, my_type_decode.
  replace (match my_encoder_for (s_type_id s) with Some _ => None | None => None end) with (@None bytes)
    by (destruct (my_encoder_for (s_type_id s)); reflexivity).
  destruct (ci_binary ci); [|reflexivity]. apply my_decode_binary_type, Ho. reflexivity.
Qed.

(** * Column definition *)
Lemma lor_ldiff f m : N.lor (N.ldiff f m) m = N.lor f m.
Proof.
  apply N.bits_inj; intros n. rewrite !N.lor_spec, N.ldiff_spec.
  destruct (N.testbit f n), (N.testbit m n); reflexivity.
Qed.

Lemma land_ldiff f m : N.land (N.ldiff f m) m = 0.
Proof.
  apply N.bits_inj; intros n. rewrite N.land_spec, N.ldiff_spec, N.bits_0.
  destruct (N.testbit f n), (N.testbit m n); reflexivity.
Qed.

Lemma land_16 f : N.land f 16 <> 16 -> N.land f 16 = 0.
Proof.
  intros H. destruct (N.testbit f 4) eqn:E.
  - exfalso. apply H. apply N.bits_inj; intros n. rewrite N.land_spec.
    change 16 with (2 ^ 4). rewrite N.pow2_bits_eqb.
    destruct (N.eqb_spec 4 n) as [<-|]; [rewrite E; reflexivity| apply andb_false_r].
  - apply N.bits_inj; intros n. rewrite N.land_spec, N.bits_0.
    change 16 with (2 ^ 4). rewrite N.pow2_bits_eqb.
    destruct (N.eqb_spec 4 n) as [<-|]; [rewrite E; reflexivity| apply andb_false_r].
Qed.

(** the flags after the rewrite: the BLOB flag is dropped for the integer and string types, nothing else moves *)
Definition my_new_flag (k : tykind) (fl : N) : N :=
  match k with
  | TBytea => fl
  | _ => if N.land fl MY_BLOB_FLAG =? MY_BLOB_FLAG then N.ldiff fl MY_BLOB_FLAG else fl
  end.

Lemma my_update_field_eq s k cd0 :
  my_encoder_for (s_type_id s) = Some k ->
  exists cs len dec,
    lookup3 (s_type_id s) MY_TYPE_CONFIGS = Some (cs, len, dec) /\
    my_update_field (Some s) cd0 = mk_cd (s_type_id s) (cd_type cd0) true cs len (my_new_flag k (cd_flag cd0)) dec.
Proof.
  intros Hk. destruct (my_encoder_for_lookup _ _ Hk) as (c & Hl & _).
  unfold my_update_field. rewrite Hl.
  destruct (my_encoder_for_ids _ _ Hk) as [[E ->]|[[E ->]|[[E ->]|[E ->]]]]; rewrite E;
    do 3 eexists; (split; [reflexivity|]); unfold my_new_flag;
    cbn -[N.land N.ldiff N.eqb]; try rewrite andb_true_r; try rewrite andb_false_r; reflexivity.
Qed.

Lemma my_update_field_typed s k cd0 :
  my_encoder_for (s_type_id s) = Some k ->
  let cd := my_update_field (Some s) cd0 in
  cd_type cd = s_type_id s /\ cd_origin cd = cd_type cd0 /\ cd_changed cd = true /\
  lookup3 (s_type_id s) MY_TYPE_CONFIGS = Some (cd_charset cd, cd_length cd, cd_decimal cd) /\
  N.lor (cd_flag cd) MY_BLOB_FLAG = N.lor (cd_flag cd0) MY_BLOB_FLAG /\
  (k <> TBytea -> N.land (cd_flag cd) MY_BLOB_FLAG = 0).
Proof.
  intros Hk. destruct (my_update_field_eq s k cd0 Hk) as (cs & len & dec & Hc & E).
  cbv zeta. rewrite E. cbn [cd_type cd_origin cd_changed cd_charset cd_length cd_decimal cd_flag].
  repeat split; try assumption.
  - unfold my_new_flag. destruct k; try reflexivity;
      (destruct (N.land (cd_flag cd0) MY_BLOB_FLAG =? MY_BLOB_FLAG); [apply lor_ldiff| reflexivity]).
  - intros Hb. unfold my_new_flag.
    destruct k; try congruence;
      (destruct (N.eqb_spec (N.land (cd_flag cd0) MY_BLOB_FLAG) MY_BLOB_FLAG) as [Hf|Hf];
       [apply land_ldiff| apply land_16, Hf]).
Qed.

(** * The outcome matrix *)
Theorem mysql_typed_outcome_matrix s k binary (reveal : bytes -> option bytes) (raw : bytes) cd0 :
  my_encoder_for (s_type_id s) = Some k ->
  my_is_binary_type (cd_type cd0) = true ->
  raw <> [] ->
  let cd := my_update_field (Some s) cd0 in
  let cell := my_cell s (ci_of binary cd) reveal raw in
  match reveal raw with
  | Some p =>
      p <> [] -> (binary = false -> my_is_value k p = true) ->
      if my_is_value k p then cell = Ok (false, my_typed_repr k binary p) else cell = Err E_GENERIC
  | None =>
      (is_int_kind k = true -> parse_int (int_bits k) raw = None) ->
      match s_policy s with
      | PEmpty | PCiphertext => cell = Ok (true, lenenc raw)
      | PDefault =>
          match s_default s with
          | Some d => validate_default k d = true -> cell = Ok (false, my_default_repr k binary d)
          | None => cell = Ok (true, lenenc raw)
          end
      | PError => cell = Err E_ENCODING
      | PBad => cell = Err E_GENERIC
      end
  end
  /\ cd_type cd = s_type_id s /\ cd_origin cd = cd_type cd0
  /\ (forall conv : bool, cd_type (my_rollback conv cd) = if conv then cd_type cd0 else s_type_id s).
Proof.
  intros Hk Hb Hr. destruct (my_update_field_typed s k cd0 Hk) as (Ht & Ho & Hc & _).
  cbv zeta in *. set (cd := my_update_field (Some s) cd0) in *.
  assert (Hci : ci_binary (ci_of binary cd) = true -> my_is_binary_type (ci_origin (ci_of binary cd)) = true).
  { intros _. cbn [ci_of ci_origin]. rewrite Ho. exact Hb. }
  split; [|split; [exact Ht|split; [exact Ho|]]].
  2:{ intros [|]; unfold my_rollback; cbn [cd_type]; [exact Ho| exact Ht]. }
  unfold my_cell. rewrite (my_decoder_binary_type s _ raw Hci). cbn [bind].
  destruct (reveal raw) as [p|].
  - intros Hp Hside. destruct (my_is_value k p) eqn:Hv.
    + rewrite (my_encoder_revealed s k _ p Hk Hp Hv). reflexivity.
    + destruct binary.
      * apply (my_encoder_revealed_nonint_binary s k _ p Hk Hp Hv); [reflexivity| exact Ht].
      * specialize (Hside eq_refl). congruence.
  - intros Hn. rewrite (my_encoder_unrevealed s k _ raw Hk Hr Hn Hci). cbn [ci_of ci_binary].
    destruct (s_policy s); try reflexivity.
    destruct (s_default s) as [d|]; [|reflexivity].
    intros Hv. rewrite (my_encode_default_valid k binary d Hv). reflexivity.
Qed.

(** the one-column row around the cell: process{Text,Binary}DataRow hand the stored bytes to the processors and
    put the delivered cell behind the unchanged header; the column definition is rolled back iff asked *)
Theorem mysql_row_delivers_cell s k binary (reveal : bytes -> option bytes) (raw : bytes) cd0 :
  my_encoder_for (s_type_id s) = Some k ->
  my_is_binary_type (cd_type cd0) = true ->
  N.of_nat (length raw) < 2^63 ->
  let cd := my_update_field (Some s) cd0 in
  my_row s binary cd0 reveal (my_row_of binary raw) =
  with_prefix (my_row_prefix binary) cd (my_cell s (ci_of binary cd) reveal raw).
Proof.
  intros Hk Hb Hl. destruct (my_update_field_typed s k cd0 Hk) as (Ht & Ho & Hc & _).
  cbv zeta in *. set (cd := my_update_field (Some s) cd0) in *.
  unfold my_row. fold cd. destruct binary; unfold my_row_of, my_row_prefix.
  - change ([x00; x00] ++ lenenc raw) with (x00 :: x00 :: lenenc raw).
    unfold my_binary_row.
    change (b2n x00 =? MY_EOF_PACKET) with false. change (b2n x00 =? MY_OK_PACKET) with true.
    change (N.land (b2n x00) 4 =? 0) with true. cbv beta iota. cbn [negb].
    rewrite my_extract_binary_type by (try assumption; rewrite Ho; exact Hb).
    cbn [bind]. reflexivity.
  - cbn [app]. unfold my_text_row, lenenc.
    rewrite <- (app_nil_r (put_lenenc_string (Some raw))) at 1.
    rewrite mysql_lenenc_string_roundtrip by exact Hl. cbn [bind fst]. reflexivity.
Qed.

(** * never partial *)
Definition my_whole_of (x v : bytes) : Prop :=
  v = lenenc x \/ exists bits w z, parse_int bits x = Some z /\ v = le_of_int w z.
Definition my_default_of (s : setting) (binary : bool) (v : bytes) : Prop :=
  exists k d, s_default s = Some d /\ my_encode_default k binary d = Ok (Some v).
Definition my_seen_of (stored seen : bytes) : Prop :=
  seen = stored \/ exists w, (w <= length stored)%nat /\ seen = print_int (int_of_le (firstn w stored)).

Lemma my_reencode_whole t (data v : bytes) : my_reencode_binary t data = Ok v -> my_whole_of data v.
Proof.
  unfold my_reencode_binary. destruct (t =? MY_T_NULL); [discriminate|].
  destruct (my_int_class t) as [[bits w]|].
  - destruct (parse_int bits data) as [z|] eqn:E; [|discriminate].
    intros [= <-]. right. exists bits, w, z. split; [exact E| reflexivity].
  - destruct (my_is_float t); [discriminate|]. intros [= <-]. left. reflexivity.
Qed.

Lemma my_on_fail_some k s binary (v : bytes) :
  my_encode_on_fail k s binary = Ok (Some v) -> my_default_of s binary v.
Proof.
  unfold my_encode_on_fail, my_default_of. destruct (s_policy s); try discriminate.
  destruct (s_default s) as [d|]; [|discriminate]. intros H. exists k, d. split; [reflexivity| exact H].
Qed.

Lemma my_type_encode_whole k s binary dec (data v : bytes) :
  my_type_encode k s binary dec data = Ok (Some v) ->
  my_whole_of data v \/ (dec = false /\ my_default_of s binary v).
Proof.
  assert (Hu : my_unrevealed k s binary = Ok (Some v) -> my_default_of s binary v).
  { unfold my_unrevealed. destruct (my_encode_on_fail k s binary) as [[v0|]|e|] eqn:E; try discriminate.
    intros [= <-]. apply (my_on_fail_some k), E. }
  unfold my_type_encode. destruct k.
  - destruct (parse_int (int_bits TInt4) data) as [z|] eqn:E.
    + intros [= <-]. left. destruct binary; [right; exists (int_bits TInt4), (int_width TInt4), z; auto| left; reflexivity].
    + destruct dec; [discriminate|]. intros H. right. auto.
  - destruct (parse_int (int_bits TInt8) data) as [z|] eqn:E.
    + intros [= <-]. left. destruct binary; [right; exists (int_bits TInt8), (int_width TInt8), z; auto| left; reflexivity].
    + destruct dec; [discriminate|]. intros H. right. auto.
  - destruct dec; [intros [= <-]; left; left; reflexivity| intros H; right; auto].
  - destruct dec; [intros [= <-]; left; left; reflexivity| intros H; right; auto].
Qed.

Lemma my_encoder_whole s ci dec (data : bytes) conv (v : bytes) :
  my_encoder s ci dec data = Ok (conv, v) ->
  my_whole_of data v \/ (dec = false /\ my_default_of s (ci_binary ci) v).
Proof.
  destruct data as [|b r]; [intros [= <- <-]; left; left; reflexivity|].
  unfold my_encoder.
  destruct (my_encode_step s (ci_binary ci) dec (b :: r)) as [[v0|]|e|] eqn:E.
  - intros [= <- <-]. unfold my_encode_step in E.
    destruct (lookup (s_type_id s) MY_ENCODERS) as [c|]; [|discriminate].
    destruct (kind_of_code c) as [k|]; [|discriminate].
    apply (my_type_encode_whole k), E.
  - destruct (ci_binary ci).
    + destruct (my_reencode_binary (ci_type ci) (b :: r)) as [v1| |] eqn:E1; try discriminate.
      intros [= <- <-]. left. apply (my_reencode_whole _ _ _ E1).
    + intros [= <- <-]. left. left. reflexivity.
  - destruct (e =? E_CONVERT); [|discriminate]. destruct (ci_binary ci).
    + destruct (my_reencode_binary (ci_origin ci) (b :: r)) as [v1| |] eqn:E1; try discriminate.
      intros [= <- <-]. left. apply (my_reencode_whole _ _ _ E1).
    + intros [= <- <-]. left. left. reflexivity.
  - discriminate.
Qed.

Lemma my_decoder_seen s ci (stored seen : bytes) : my_decoder s ci stored = Ok seen -> my_seen_of stored seen.
Proof.
  unfold my_decoder, my_type_decode.
  replace (match my_encoder_for (s_type_id s) with Some _ => None | None => None end) with (@None bytes)
    by (destruct (my_encoder_for (s_type_id s)); reflexivity).
  destruct (ci_binary ci); [|intros [= <-]; left; reflexivity].
  unfold my_decode_binary.
  destruct (my_int_class _) as [[bits w]|].
  - destruct (Nat.ltb_spec (length stored) w) as [Hlt|Hge]; intros [= <-]; [left; reflexivity|].
    right. exists w. split; [exact Hge| reflexivity].
  - destruct (my_is_float _); [discriminate|]. intros [= <-]. left. reflexivity.
Qed.

Theorem mysql_never_partial s ci (reveal : bytes -> option bytes) (stored : bytes) conv (v : bytes) :
  my_cell s ci reveal stored = Ok (conv, v) ->
  exists seen : bytes,
    my_decoder s ci stored = Ok seen /\ my_seen_of stored seen /\
    match reveal seen with
    | Some p => my_whole_of p v
    | None => my_whole_of seen v \/ my_default_of s (ci_binary ci) v
    end.
Proof.
  unfold my_cell. destruct (my_decoder s ci stored) as [seen| |] eqn:Ed; try discriminate.
  cbn [bind]. intros H. exists seen. split; [reflexivity|]. split; [apply (my_decoder_seen _ _ _ _ Ed)|].
  destruct (reveal seen) as [p|].
  - destruct (my_encoder_whole _ _ _ _ _ _ H) as [Hw|[Hf _]]; [exact Hw| discriminate].
  - destruct (my_encoder_whole _ _ _ _ _ _ H) as [Hw|[_ Hd]]; [left; exact Hw| right; exact Hd].
Qed.

(** * integers: text <-> little-endian binary *)
Theorem mysql_int_binary_roundtrip k z :
  is_int_kind k = true ->
  (- Z.of_N (2 ^ (int_bits k - 1)) <= z < Z.of_N (2 ^ (int_bits k - 1)))%Z ->
  parse_int (int_bits k) (print_int z) = Some z /\
  int_of_le (le_of_int (int_width k) z) = z /\
  length (le_of_int (int_width k) z) = int_width k /\
  my_typed_repr k true (print_int z) = le_of_int (int_width k) z /\
  print_int (int_of_le (le_of_int (int_width k) z)) = print_int z.
Proof.
  intros Hi Hr. destruct k; try discriminate.
  - change (2 ^ (int_bits TInt4 - 1)) with 2147483648 in Hr.
    assert (Hp := parse_print_int32 z ltac:(lia)). assert (Hb := int_of_le_of_int4 z ltac:(lia)).
    split; [exact Hp|]. split; [exact Hb|]. split; [apply le_of_int_length|].
    cbn [int_bits int_width] in *.
    split; [|rewrite Hb; reflexivity].
    unfold my_typed_repr. cbn [int_bits int_width]. rewrite Hp. reflexivity.
  - change (2 ^ (int_bits TInt8 - 1)) with 9223372036854775808 in Hr.
    assert (Hp := parse_print_int64 z ltac:(lia)). assert (Hb := int_of_le_of_int8 z ltac:(lia)).
    split; [exact Hp|]. split; [exact Hb|]. split; [apply le_of_int_length|].
    cbn [int_bits int_width] in *.
    split; [|rewrite Hb; reflexivity].
    unfold my_typed_repr. cbn [int_bits int_width]. rewrite Hp. reflexivity.
Qed.

(** processors: a binary cell of an integer column (LONG for int32, LONGLONG for int64) is decoded to the decimal
    text of its value and encoded back to the same bytes, whatever the policy and the reveal flag *)
Theorem mysql_int_binary_cell_roundtrip s k ci (bs : bytes) :
  my_encoder_for (s_type_id s) = Some k -> is_int_kind k = true -> length bs = int_width k ->
  ci_binary ci = true -> ci_origin ci = s_type_id s ->
  exists t : bytes,
    my_decoder s ci bs = Ok t /\ t = print_int (int_of_le bs) /\
    parse_int (int_bits k) t = Some (int_of_le bs) /\
    forall dec, my_encoder s ci dec t = Ok (false, bs).
Proof.
  intros Hk Hi Hl Hb Ho.
  pose proof (my_int_class_of_kind _ _ Hk Hi) as Hc.
  assert (Hnz : (s_type_id s =? 0) = false).
  { destruct (my_encoder_for_ids _ _ Hk) as [[-> _]|[[-> _]|[[-> _]|[-> _]]]]; reflexivity. }
  exists (print_int (int_of_le bs)).
  assert (Hp : parse_int (int_bits k) (print_int (int_of_le bs)) = Some (int_of_le bs)).
  { destruct k; try discriminate.
    - apply parse_print_int32, int_of_le_range4, Hl.
    - apply parse_print_int64, int_of_le_range8, Hl. }
  split; [|split; [reflexivity|split; [exact Hp|]]].
  - unfold my_decoder, my_type_decode. rewrite Hk, Hb. unfold my_decode_binary. rewrite Ho, Hnz, Hc, Hl.
    rewrite Nat.ltb_irrefl. rewrite <- Hl, firstn_all. reflexivity.
  - intros dec. rewrite (my_encoder_int_literal s k ci dec _ _ Hk Hi Hp), Hb. f_equal. f_equal.
    destruct k; try discriminate; [apply le_of_int_of_le4| apply le_of_int_of_le8]; exact Hl.
Qed.

(** * a default accepted by Init always encodes *)
Theorem mysql_default_always_encodes i s (d : bytes) :
  my_init i = Ok s -> s_default s = Some d ->
  exists k, my_encoder_for (s_type_id s) = Some k /\
    (forall binary, my_encode_on_fail k s binary = Ok (Some (my_default_repr k binary d))) /\
    (is_int_kind k = true ->
       exists z, parse_int (int_bits k) d = Some z /\
                 my_default_repr k false d = lenenc d /\
                 my_default_repr k true d = le_of_int (int_width k) z /\
                 length (my_default_repr k true d) = int_width k /\
                 int_of_le (my_default_repr k true d) = z) /\
    (k = TText -> utf8_valid d = true /\ forall binary, my_default_repr k binary d = lenenc d) /\
    (k = TBytea -> exists v, b64_decode d = Some v /\ forall binary, my_default_repr k binary d = lenenc v).
Proof.
  intros Hi Hd. destruct (init_validates _ _ _ _ Hi) as (_ & _ & _ & _ & Hall).
  destruct (Hall d Hd) as (Hp & k & Hk & Hv).
  exists k. split; [exact Hk|]. split; [intros binary; apply my_on_fail_default; assumption|].
  unfold validate_default in Hv.
  split; [|split].
  - intros Hik. destruct k; try discriminate.
    + destruct (parse_int (int_bits TInt4) d) as [z|] eqn:E; [|discriminate]. exists z.
      pose proof (parse_int_range _ _ _ E) as Hr. change (2 ^ (int_bits TInt4 - 1)) with 2147483648 in Hr.
      unfold my_default_repr, my_typed_repr. rewrite E.
      split; [reflexivity|]. split; [reflexivity|]. split; [reflexivity|].
      split; [apply le_of_int_length| apply int_of_le_of_int4; lia].
    + destruct (parse_int (int_bits TInt8) d) as [z|] eqn:E; [|discriminate]. exists z.
      pose proof (parse_int_range _ _ _ E) as Hr. change (2 ^ (int_bits TInt8 - 1)) with 9223372036854775808 in Hr.
      unfold my_default_repr, my_typed_repr. rewrite E.
      split; [reflexivity|]. split; [reflexivity|]. split; [reflexivity|].
      split; [apply le_of_int_length| apply int_of_le_of_int8; lia].
  - intros ->. split; [exact Hv| intros binary; reflexivity].
  - intros ->. destruct (b64_decode d) as [v|] eqn:E; [|discriminate]. exists v. split; [reflexivity|].
    intros binary. unfold my_default_repr. rewrite E. reflexivity.
Qed.

(** * the finding boundaries: witnesses *)
Definition my_s_int4_error : setting := mk_setting 3 PError None true true.
Definition my_cd_blob : coldef := mk_cd 252 0 false 63 65535 144 0.
Definition my_lit_2_31 : bytes := Eval vm_compute in print_int 2147483648%Z.

(** known finding mysql-int-column-plaintext-not-integer: text protocol, the revealed 2147483648 of an int32
    column is delivered verbatim in a column described as LONG, policy [error] notwithstanding; the binary
    protocol refuses the same value with a statement error *)
Lemma mysql_owner_nonint_plaintext_refuted :
  exists (s : setting) (cd0 : coldef) (raw p : bytes),
    let cd := my_update_field (Some s) cd0 in
    my_encoder_for (s_type_id s) = Some TInt4 /\ s_policy s = PError /\ my_is_binary_type (cd_type cd0) = true /\
    raw <> [] /\ p <> [] /\ my_is_value TInt4 p = false /\
    my_cell s (ci_of false cd) (fun _ => Some p) raw = Ok (false, lenenc p) /\
    cd_type (my_rollback false cd) = MY_T_LONG /\
    my_cell s (ci_of true cd) (fun _ => Some p) raw = Err E_GENERIC.
Proof.
  exists my_s_int4_error, my_cd_blob, [x25], my_lit_2_31. vm_compute.
  repeat split; try reflexivity; discriminate.
Qed.

(** finding mysql-binary-empty-value-in-int-column: binary protocol, an empty stored value of an int32 column is
    delivered as the single byte 00 in a column described as LONG (4 bytes promised), no roll-back *)
Lemma mysql_binary_empty_value_refuted :
  exists (s : setting) (cd0 : coldef) (v : bytes),
    let cd := my_update_field (Some s) cd0 in
    my_encoder_for (s_type_id s) = Some TInt4 /\ my_is_binary_type (cd_type cd0) = true /\
    my_row s true cd0 (fun _ => None) (my_row_of true []) = Ok ([x00; x00] ++ v, cd) /\
    cd_type cd = MY_T_LONG /\ length v <> 4%nat.
Proof.
  exists (mk_setting 3 PCiphertext None true true), my_cd_blob, [x00]. vm_compute.
  repeat split; try reflexivity; discriminate.
Qed.

(** finding mysql-binary-mixed-rows-type-rollback: binary protocol, one result set of an int32 column under the
    ciphertext policy: the reader's own row (revealed "7") is delivered as 4 little-endian bytes, the row of another
    client stays ciphertext and rolls the column type back to BLOB for the WHOLE result set; under that final
    definition the first row's cell is not a length-encoded string any more (a client reads length 7, 3 bytes left) *)
Definition my_s_int4_cipher : setting := mk_setting 3 PCiphertext None true true.
Definition my_mixed_o1 : bytes := Eval vm_compute in [x00; x00] ++ le_of_int 4 7.
Definition my_mixed_o2 : bytes := Eval vm_compute in [x00; x00] ++ lenenc [x25; x26].
Definition my_mixed_cd : coldef := Eval vm_compute in my_rollback true (my_update_field (Some my_s_int4_cipher) my_cd_blob).
Lemma mysql_mixed_rows_refuted :
  exists (s : setting) (cd0 : coldef) (raw1 raw2 o1 o2 : bytes) (cd : coldef),
    my_encoder_for (s_type_id s) = Some TInt4 /\ s_policy s = PCiphertext /\ my_is_binary_type (cd_type cd0) = true /\
    my_result_set s true cd0 [((fun _ => Some [x37]), my_row_of true raw1); ((fun _ => None), my_row_of true raw2)]
      = Ok ([o1; o2], cd) /\
    o1 = [x00; x00] ++ le_of_int 4 7 /\ o2 = [x00; x00] ++ lenenc raw2 /\
    cd_type cd = cd_type cd0 /\
    my_extract 2 o1 cd = Err E_EOF.
Proof.
  exists my_s_int4_cipher, my_cd_blob, [x25; x25; x25], [x25; x26], my_mixed_o1, my_mixed_o2, my_mixed_cd.
  vm_compute. repeat split; reflexivity.
Qed.

(** * result sets: the column definition after any number of rows *)
Lemma my_rollback_cases conv cd : my_rollback conv cd = cd \/ my_rollback conv cd = my_rollback true cd.
Proof. destruct conv; [right| left]; reflexivity. Qed.

Lemma my_rollback_idem cd : my_rollback true (my_rollback true cd) = my_rollback true cd.
Proof. reflexivity. Qed.

Lemma with_prefix_cd pre cd r (o : bytes) cd' :
  with_prefix pre cd r = Ok (o, cd') -> cd' = cd \/ cd' = my_rollback true cd.
Proof.
  unfold with_prefix. destruct r as [[conv v]| |]; try discriminate. cbn [bind fst snd].
  intros [= _ <-]. apply my_rollback_cases.
Qed.

Lemma my_text_row_cd s cd rv (row o : bytes) cd' :
  my_text_row s cd rv row = Ok (o, cd') -> cd' = cd \/ cd' = my_rollback true cd.
Proof.
  unfold my_text_row. destruct (lenenc_string row) as [[v n]| |]; try discriminate. cbn [bind fst snd].
  destruct v as [value|]; [apply with_prefix_cd| intros [= _ <-]; left; reflexivity].
Qed.

Lemma my_binary_row_cd s cd rv (row o : bytes) cd' :
  my_binary_row s cd rv row = Ok (o, cd') -> cd' = cd \/ cd' = my_rollback true cd.
Proof.
  unfold my_binary_row. destruct row as [|b0 r]; [discriminate|].
  destruct (b2n b0 =? MY_EOF_PACKET); [intros [= _ <-]; left; reflexivity|].
  destruct (b2n b0 =? MY_OK_PACKET); cbn [negb]; [|discriminate].
  destruct r as [|bm r']; [discriminate|].
  destruct (N.land (b2n bm) 4 =? 0); [|intros [= _ <-]; left; reflexivity].
  destruct (my_extract 2 (b0 :: bm :: r') cd) as [value| |]; try discriminate. cbn [bind].
  apply with_prefix_cd.
Qed.

Lemma my_rows_from_cd s binary rs : forall cd (outs : list bytes) cdf,
  my_rows_from s binary cd rs = Ok (outs, cdf) ->
  length outs = length rs /\ (cdf = cd \/ cdf = my_rollback true cd).
Proof.
  induction rs as [|[rv row] rest IH]; intros cd outs cdf; cbn [my_rows_from].
  - intros [= <- <-]. split; [reflexivity| left; reflexivity].
  - destruct (if binary then my_binary_row s cd rv row else my_text_row s cd rv row) as [[o cd1]| |] eqn:E1;
      try discriminate. cbn [bind snd fst].
    destruct (my_rows_from s binary cd1 rest) as [[tl cd2]| |] eqn:E2; try discriminate. cbn [bind fst snd].
    intros [= <- <-]. destruct (IH _ _ _ E2) as [Hl Hc]. split; [cbn [length]; congruence|].
    assert (H1 : cd1 = cd \/ cd1 = my_rollback true cd).
    { destruct binary; [apply (my_binary_row_cd _ _ _ _ _ _ E1)| apply (my_text_row_cd _ _ _ _ _ _ E1)]. }
    destruct H1 as [->| ->]; [exact Hc|]. right. destruct Hc as [->| ->]; reflexivity.
Qed.

(** whatever the rows (any number, well formed or not, any reveal functions): every row is answered and the
    column definition sent after them is the rewritten one, or the rewritten one with the type rolled back to
    the database's own type — nothing else moves *)
Theorem mysql_result_set_definition s k binary cd0 (rs : list ((bytes -> option bytes) * bytes)) (outs : list bytes) cdf :
  my_encoder_for (s_type_id s) = Some k ->
  my_result_set s binary cd0 rs = Ok (outs, cdf) ->
  let cd := my_update_field (Some s) cd0 in
  length outs = length rs /\
  (cd_type cdf = s_type_id s \/ cd_type cdf = cd_type cd0) /\
  cd_origin cdf = cd_type cd0 /\ cd_changed cdf = true /\
  cd_charset cdf = cd_charset cd /\ cd_length cdf = cd_length cd /\ cd_flag cdf = cd_flag cd /\ cd_decimal cdf = cd_decimal cd.
Proof.
  intros Hk H. destruct (my_update_field_typed s k cd0 Hk) as (Ht & Ho & Hc & _). cbv zeta in *.
  unfold my_result_set in H. destruct (my_rows_from_cd _ _ _ _ _ _ H) as [Hl [->| ->]].
  - repeat split; auto.
  - unfold my_rollback. cbn [cd_type cd_origin cd_changed cd_charset cd_length cd_flag cd_decimal].
    repeat split; auto.
Qed.
