(** Witnesses for Proofs/AuditLogJsonInj.v: the canonical form with top-level strings as raw bytes (seeded
    change m60) is not injective where the modelled one is; non-vacuity of the injectivity theorem. *)
From Coq Require Import String.
From Acra Require Import Lib.Bytes Lib.Outcome Lib.Sha256 Gen.AuditLogConsts Gen.AuditLogCanon Model.AuditLog
  Model.AuditLogJsonNum Model.AuditLogJson Model.AuditLogJsonCanon
  Proofs.AuditLogCrypto Proofs.AuditLogParse Proofs.AuditLog Proofs.AuditLogJsonMap Proofs.AuditLogJson
  Proofs.AuditLogJsonWitness Proofs.AuditLogJsonInj.

Definition ubits : N := Eval vm_compute in match parse_float (js "1790176222.319") with Some b => b | None => 0%N end.
Definition jstr (x : string) : jv := JStr (js x).

(** the same entry with two values as strings / as the boolean and the number they spell *)
Definition m_strings : list (bytes * jv) := [(js "granted", jstr "false"); (js "unixTime", jstr "1790176222.319")].
Definition m_typed : list (bytes * jv) := [(js "granted", JBool false); (js "unixTime", JNum (NumF ubits))].
(** one message holding  D D note D  / two members *)
Definition m_one : list (bytes * jv) :=
  [(js "msg", JStr (js "transfer approved" ++ AL_JSON_DELIM ++ AL_JSON_DELIM ++ js "note" ++ AL_JSON_DELIM ++ js "rolled back"))].
Definition m_two : list (bytes * jv) := [(js "msg", jstr "transfer approved"); (js "note", jstr "rolled back")].
(** a string and the object it spells *)
Definition m_text : list (bytes * jv) := [(js "v", jstr "{""a"":1}")].
Definition m_obj : list (bytes * jv) := [(js "v", JObj [(js "a", JNum (NumF 4607182418800017408))])].

Lemma wfm_witnesses : WFM false m_strings /\ WFM false m_typed /\ WFM false m_one /\ WFM false m_two /\
  WFM false m_text /\ WFM false m_obj.
Proof.
  repeat split; try reflexivity; repeat constructor; try reflexivity.
Qed.

(** top-level strings as raw bytes (getBytes with the string fast path of seeded change m60): maps of decoded
    values whose names are free of the token, DIFFERENT, with the same canonical bytes — a boolean and a number
    retyped, a member split off a string, an object flattened to text; the modelled form tells each pair apart *)
Theorem conv_raw_not_injective :
  (WFM false m_strings /\ WFM false m_typed /\ names_free m_strings = true /\ names_free m_typed = true /\
   m_strings <> m_typed /\ conv_raw m_strings = conv_raw m_typed /\ conv_b m_strings <> conv_b m_typed) /\
  (WFM false m_one /\ WFM false m_two /\ names_free m_one = true /\ names_free m_two = true /\
   m_one <> m_two /\ conv_raw m_one = conv_raw m_two /\ conv_b m_one <> conv_b m_two) /\
  (WFM false m_text /\ WFM false m_obj /\ names_free m_text = true /\ names_free m_obj = true /\
   m_text <> m_obj /\ conv_raw m_text = conv_raw m_obj /\ conv_b m_text <> conv_b m_obj).
Proof.
  destruct wfm_witnesses as (W1 & W2 & W3 & W4 & W5 & W6).
  assert (forall a b : list (bytes * jv), WFM false a -> WFM false b ->
            names_free a = true -> names_free b = true ->
            bytes_eqb (conv_b a) (conv_b b) = false -> conv_raw a = conv_raw b ->
            WFM false a /\ WFM false b /\ names_free a = true /\ names_free b = true /\
            a <> b /\ conv_raw a = conv_raw b /\ conv_b a <> conv_b b) as T.
  { intros a b Wa Wb Fa Fb N R. apply bytes_eqb_neq in N. repeat (split; [assumption|]).
    split; [intros E; apply N; rewrite E; reflexivity|]. split; [exact R| exact N]. }
  split; [|split].
  - apply (T _ _ W1 W2); vm_compute; reflexivity.
  - apply (T _ _ W3 W4); vm_compute; reflexivity.
  - apply (T _ _ W5 W6); vm_compute; reflexivity.
Qed.

(** non-vacuity of [json_canonical_injective_float64]: two different JSON texts (members in another order, a
    number respelled, a repeated name) with names free of the token and the same canonical bytes *)
Definition w_inj_1 : wv := WObj [mem "n" (wnum "1.0"); mem "msg" (wstr "a""b"); mem "v" (WArr [WNull; WObj [mem "delimiter" (wnum "1e3")]])].
Definition w_inj_2 : wv := WObj [mem "v" (WArr [WNull; WObj [mem "delimiter" (wnum "1000")]]); mem "n" (wnum "7"); mem "msg" (wstr "a""b"); mem "n" (wnum "1")].
Definition m_inj_1 : list (bytes * jv) := Eval vm_compute in match decode_top false w_inj_1 with Some m => m | None => [] end.
Definition m_inj_2 : list (bytes * jv) := Eval vm_compute in match decode_top false w_inj_2 with Some m => m | None => [] end.
Example json_canonical_injective_example :
  w_inj_1 <> w_inj_2 /\ w_ok false w_inj_1 = true /\ w_ok false w_inj_2 = true /\
  decode_top false w_inj_1 = Some m_inj_1 /\ decode_top false w_inj_2 = Some m_inj_2 /\
  names_free m_inj_1 = true /\ names_free m_inj_2 = true /\ conv_b m_inj_1 = conv_b m_inj_2 /\ List.length m_inj_1 = 3.
Proof.
  split; [intros E; injection E as E _; discriminate E|]. repeat split; vm_compute; reflexivity.
Qed.

(** * the chain over the raw-string form: a CHANGED entry verifies with the correct key *)
Definition ev_raw : list jbev :=
  [ JBEntry (entry "Access check" [mem "client_id" (wstr "alice"); mem "granted" (wstr "false"); mem "unixTime" (wstr "1790176222.319")]);
    JBEntry (entry "next" []) ].
Definition out_raw := Eval vm_compute in write_json_with conv_raw false (calc_new jK) ev_raw.
Definition out_mod := Eval vm_compute in write_json_b false (calc_new jK) ev_raw.
(** the first written line with `granted` and `unixTime` retyped (string -> the boolean / number it spells),
    every other member — the integrity value included — kept *)
Definition retype (m : list (bytes * jv)) : list (bytes * jv) :=
  aset (js "granted") (JBool false) (aset (js "unixTime") (JNum (NumF ubits)) m).
Definition line_raw_retyped : wv := Eval vm_compute in to_wire (JObj (retype (nth 0 out_raw []))).
Definition line_mod_retyped : wv := Eval vm_compute in to_wire (JObj (retype (nth 0 out_mod []))).

Theorem json_raw_string_retype_accepted :
  (* the log written and verified over the raw-string form: intact accepted, and so is the retyped line *)
  verify_json_with conv_raw false jK (wire_lines out_raw) = VAccept /\
  verify_json_with conv_raw false jK (WLine line_raw_retyped :: skipn 1 (wire_lines out_raw)) = VAccept /\
  decode_top false line_raw_retyped <> decode_top false (to_wire (JObj (nth 0 out_raw []))) /\
  w_ok false line_raw_retyped = true /\
  (* the same history and the same edit over the modelled form: reported at the edited line *)
  verify_json_b false jK (wire_lines out_mod) = VAccept /\
  verify_json_b false jK (WLine line_mod_retyped :: skipn 1 (wire_lines out_mod)) = VFail 0 C_MISMATCH.
Proof.
  split; [vm_compute; reflexivity|]. split; [vm_compute; reflexivity|].
  split; [intros E; vm_compute in E; discriminate E|].
  repeat split; vm_compute; reflexivity.
Qed.
