(** Reduction versions of the protect / reveal round trip: instead of a premise "no other key
    offered at reveal time decrypts", the conclusions carry an explicit forgery witness (a key in
    the offered list, different from the protecting one, that the primitive accepts).  The key
    list offered at reveal time is arbitrary. *)
From Coq Require Import List NArith ZArith Bool Lia.
From Acra Require Import Lib.Bytes Lib.Outcome Lib.Sha256 Crypto.Interface Gen.Consts Model.Envelope
  Proofs.Envelope Proofs.EnvelopeHandlers Proofs.EnvelopeChecked.
Import ListNotations.

(** keysets with one field filled (convertible with ks_only_* of Model/KeyDataExt.v) *)
Definition rk_privs (l : list bytes) : keyset :=
  {| ks_pub := None; ks_privs := l; ks_syms := []; ks_hmac := None |}.
Definition rk_syms (l : list bytes) : keyset :=
  {| ks_pub := None; ks_privs := []; ks_syms := l; ks_hmac := None |}.
Definition rk_hmac (k : option bytes) : keyset :=
  {| ks_pub := None; ks_privs := []; ks_syms := []; ks_hmac := k |}.

Lemma bytes_eq_dec (a b : bytes) : a = b \/ a <> b.
Proof.
  destruct (bytes_eqb a b) eqn:E.
  - left. apply bytes_eqb_eq, E.
  - right. apply bytes_eqb_neq, E.
Qed.

(** split a list at the FIRST occurrence of an element *)
Lemma in_split_first (key : bytes) (keys : list bytes) :
  In key keys -> exists before after, keys = before ++ key :: after /\ ~ In key before.
Proof.
  induction keys as [|k keys IH]; intros Hin; [destruct Hin|].
  destruct (bytes_eq_dec k key) as [Ek|Nk].
  - subst k. exists [], keys. split; [reflexivity| intros []].
  - destruct Hin as [Hin|Hin]; [contradiction|].
    destruct (IH Hin) as (before & after & E & Hnot).
    exists (k :: before), after. split; [rewrite E; reflexivity|].
    intros [H|H]; [apply Nk, H| apply Hnot, H].
Qed.

Section RevealReduction.
Variable C : crypto.
Hypothesis HC : Correct C.

(** * 1. generic list lemmas, AcraStruct *)
Lemma as_rotated_ok_inv (v : bytes) (privs : list bytes) (ctx y : bytes) :
  as_decrypt_rotated C v privs ctx = Ok y ->
  exists p, In p privs /\ as_decrypt C v p ctx = Ok y.
Proof.
  induction privs as [|p rest IH]; cbn [as_decrypt_rotated]; intros Hrot; [discriminate|].
  destruct (as_decrypt C v p ctx) as [z|e|] eqn:E.
  - injection Hrot as ->. exists p. split; [left; reflexivity| exact E].
  - destruct rest as [|q rest]; [discriminate|].
    destruct (IH Hrot) as (p' & Hin & Hp'). exists p'. split; [right; exact Hin| exact Hp'].
  - discriminate.
Qed.

Lemma as_rotated_in_or_forgery (v priv : bytes) (privs : list bytes) (ctx x : bytes) :
  as_decrypt C v priv ctx = Ok x -> In priv privs ->
  as_decrypt_rotated C v privs ctx = Ok x
  \/ exists p y, In p privs /\ as_decrypt C v p ctx = Ok y /\ y <> x.
Proof.
  intros Hok. induction privs as [|p rest IH]; intros Hin; [destruct Hin|].
  cbn [as_decrypt_rotated].
  pose proof (as_decrypt_simple_total C v p ctx) as Hnp.
  destruct (as_decrypt C v p ctx) as [z|e|] eqn:E.
  - destruct (bytes_eq_dec z x) as [Ez|Nz].
    + left. rewrite Ez. reflexivity.
    + right. exists p, z. split; [left; reflexivity|]. split; [exact E| exact Nz].
  - destruct Hin as [Hin|Hin].
    + subst p. rewrite Hok in E. discriminate.
    + destruct rest as [|q rest]; [destruct Hin|].
      destruct (IH Hin) as [Hl|(p' & y & Hin' & Hp' & Hne)].
      * left. exact Hl.
      * right. exists p', y. split; [right; exact Hin'|]. split; [exact Hp'| exact Hne].
  - contradiction.
Qed.

(** * 2. AcraStruct protect / reveal with an arbitrary list of private keys *)
Theorem as_protect_reveal ks tape x sb :
  looks_protected ENVELOPE_ID_ACRASTRUCT x = false -> x <> [] -> (N.of_nat (length x) < MAXMSG)%N ->
  good_as_tape tape -> length sb = SEED_LEN -> ks_pub ks = Some (pub_of C sb) ->
  exists v inner, encrypt_with_handler C ENVELOPE_ID_ACRASTRUCT ks tape x = Ok v
    /\ v = sc_layout inner ENVELOPE_ID_ACRASTRUCT
    /\ as_decrypt C inner (priv_of C sb) [] = Ok x
    /\ forall privs,
       (In (priv_of C sb) privs ->
          decrypt_with_handler C ENVELOPE_ID_ACRASTRUCT (rk_privs privs) v = Ok x
          \/ exists p y, In p privs /\ as_decrypt C inner p [] = Ok y /\ y <> x)
       /\ ((exists e, decrypt_with_handler C ENVELOPE_ID_ACRASTRUCT (rk_privs privs) v = Err e)
           \/ exists p y, In p privs /\ as_decrypt C inner p [] = Ok y
                          /\ decrypt_with_handler C ENVELOPE_ID_ACRASTRUCT (rk_privs privs) v = Ok y).
Proof.
  intros Hnp Hx Hlen Htape Hsb Hpub.
  destruct (as_roundtrip C HC tape x sb [] Htape Hsb Hx Hlen) as (inner & Hc & Hval & Hil & Hdec).
  assert (inner <> []) as Hine by (intros ->; cbn [length] in Hil; unfold_consts; lia).
  assert (N.of_nat (length inner) < 4294967296)%N as Hismall
      by (rewrite Hil; unfold_consts; lia).
  exists (sc_layout inner ENVELOPE_ID_ACRASTRUCT), inner.
  unfold looks_protected in Hnp. apply orb_false_iff in Hnp as [Hnm Hnr].
  split.
  { unfold encrypt_with_handler. rewrite Hnm, Hnr. cbn [orb].
    unfold handler_encrypt. rewrite byte_eqb_refl.
    unfold handler_match in Hnm. rewrite byte_eqb_refl in Hnm. rewrite Hnm, Hpub, Hc. cbn [bind].
    apply sc_serialize_ok, Hine. }
  split; [reflexivity|]. split; [exact Hdec|].
  destruct (container_roundtrip inner ENVELOPE_ID_ACRASTRUCT [] Hine known_as Hismall) as [Hd _].
  rewrite app_nil_r in Hd.
  intros privs.
  assert (Hdw : privs <> [] ->
                decrypt_with_handler C ENVELOPE_ID_ACRASTRUCT (rk_privs privs) (sc_layout inner ENVELOPE_ID_ACRASTRUCT)
                = as_decrypt_rotated C inner privs []).
  { intros Hne. unfold decrypt_with_handler. rewrite Hd. cbn [bind].
    unfold handler_match, handler_decrypt. rewrite byte_eqb_refl, Hval. cbn [negb rk_privs ks_privs].
    rewrite (is_nil_false _ Hne). reflexivity. }
  split.
  - intros Hin.
    assert (privs <> []) as Hne by (intros ->; destruct Hin).
    rewrite (Hdw Hne). apply (as_rotated_in_or_forgery inner (priv_of C sb)); assumption.
  - destruct privs as [|p0 privs0].
    + left. exists E_GENERIC. unfold decrypt_with_handler. rewrite Hd. cbn [bind].
      unfold handler_match, handler_decrypt. rewrite byte_eqb_refl, Hval. reflexivity.
    + assert (p0 :: privs0 <> []) as Hne by discriminate.
      rewrite (Hdw Hne).
      pose proof (as_decrypt_rotated_simple_total C inner (p0 :: privs0) []) as Hnp.
      destruct (as_decrypt_rotated C inner (p0 :: privs0) []) as [y|e|] eqn:E.
      * right. destruct (as_rotated_ok_inv _ _ _ _ E) as (p & Hin & Hp).
        exists p, y. split; [exact Hin|]. split; [exact Hp| reflexivity].
      * left. exists e. reflexivity.
      * contradiction.
Qed.

(** * 4. searchable hash: the comparison uses exactly the key that is offered *)
Lemma hmac_sha256_length k d : length (hmac_sha256 k d) = 32.
Proof. unfold hmac_sha256. apply sha256_length. Qed.

Theorem hmac_search_uses_given_key kold kcur data data' :
  exists h, extract_hash (generate_hmac kold data) = Some (h, []) /\
    (hash_is_equal h data' (rk_hmac (Some kcur)) = true <-> hmac_sha256 kcur data' = hmac_sha256 kold data).
Proof.
  exists (generate_hmac kold data).
  pose proof (hmac_sha256_length kold data) as Hl.
  split.
  - unfold extract_hash, generate_hmac. rewrite byte_eqb_refl. cbn [negb length].
    rewrite Hl. unfold HMAC_HASH_SIZE. cbn [Nat.ltb Nat.leb].
    replace 33 with (length (HMAC_FUNC_SHA256 :: hmac_sha256 kold data)) at 1 2 by (cbn [length]; rewrite Hl; reflexivity).
    rewrite skipn_all. rewrite firstn_all. reflexivity.
  - unfold hash_is_equal, generate_hmac. cbn [rk_hmac ks_hmac skipn].
    rewrite bytes_eqb_eq. split; intros H; symmetry; exact H.
Qed.

Theorem hmac_search_no_key h data' : hash_is_equal h data' (rk_hmac None) = false.
Proof. reflexivity. Qed.

(** * 1. generic list lemmas, AcraBlock *)
Lemma ab_find_key_some_inv (keys : list bytes) (ctx id ek dk : bytes) :
  ab_find_key C keys ctx id ek = Some dk ->
  exists k', In k' keys /\ bytes_eqb (ab_key_id k' ctx) id = true /\ cell_decrypt C k' ctx ek = Some dk.
Proof.
  induction keys as [|k keys IH]; cbn [ab_find_key]; intros Hf; [discriminate|].
  destruct (bytes_eqb (ab_key_id k ctx) id) eqn:Eid.
  - destruct (cell_decrypt C k ctx ek) as [dk0|] eqn:Ecd.
    + injection Hf as ->. exists k. split; [left; reflexivity|]. split; [exact Eid| exact Ecd].
    + destruct (IH Hf) as (k' & Hin & Hid & Hcd). exists k'. split; [right; exact Hin|]. split; assumption.
  - destruct (IH Hf) as (k' & Hin & Hid & Hcd). exists k'. split; [right; exact Hin|]. split; assumption.
Qed.

(** every key tried before the first occurrence of [key] is skipped, or one of them is a witness *)
Lemma ab_before_forall_or_forgery (key ctx ek : bytes) (before : list bytes) :
  ~ In key before ->
  Forall (fun k => bytes_eqb (ab_key_id k ctx) (ab_key_id key ctx) = false
                   \/ cell_decrypt C k ctx ek = None) before
  \/ exists k' dk, In k' before /\ k' <> key /\ bytes_eqb (ab_key_id k' ctx) (ab_key_id key ctx) = true
                   /\ cell_decrypt C k' ctx ek = Some dk.
Proof.
  induction before as [|k before IH]; intros Hnot; [left; constructor|].
  assert (k <> key) as Hk by (intros E; apply Hnot; left; exact E).
  assert (~ In key before) as Hnot' by (intros H; apply Hnot; right; exact H).
  destruct (IH Hnot') as [Hall|(k' & dk & Hin & Hne & Hid & Hcd)].
  - destruct (bytes_eqb (ab_key_id k ctx) (ab_key_id key ctx)) eqn:Eid.
    + destruct (cell_decrypt C k ctx ek) as [dk|] eqn:Ecd.
      * right. exists k, dk. split; [left; reflexivity|]. split; [exact Hk|]. split; [exact Eid| exact Ecd].
      * left. constructor; [right; exact Ecd| exact Hall].
    + left. constructor; [left; exact Eid| exact Hall].
  - right. exists k', dk. split; [right; exact Hin|]. split; [exact Hne|]. split; assumption.
Qed.

Lemma ab_in_or_forgery (L key ctx ek data : bytes) (keys : list bytes) :
  (forall before after,
     Forall (fun k => bytes_eqb (ab_key_id k ctx) (ab_key_id key ctx) = false
                      \/ cell_decrypt C k ctx ek = None) before ->
     ab_decrypt C L (before ++ key :: after) ctx = Ok data) ->
  In key keys ->
  ab_decrypt C L keys ctx = Ok data
  \/ exists k' dk, In k' keys /\ k' <> key /\ bytes_eqb (ab_key_id k' ctx) (ab_key_id key ctx) = true
                   /\ cell_decrypt C k' ctx ek = Some dk.
Proof.
  intros Hrt Hin.
  destruct (in_split_first key keys Hin) as (before & after & E & Hnot). subst keys.
  destruct (ab_before_forall_or_forgery key ctx ek before Hnot) as [Hall|(k' & dk & Hin' & Hne & Hid & Hcd)].
  - left. apply Hrt, Hall.
  - right. exists k', dk. split; [apply in_or_app; left; exact Hin'|]. split; [exact Hne|]. split; assumption.
Qed.

(** decryption of a well-formed block is the key search followed by the data cell *)
Lemma ab_decrypt_layout (key ctx ek ed : bytes) (keys : list bytes) :
  (N.of_nat (length ek) < 65536)%N ->
  ab_decrypt C (ab_layout key ctx ek ed) keys ctx =
  match ab_find_key C keys ctx (ab_key_id key ctx) ek with
  | None => Err E_GENERIC
  | Some dk => of_option E_GENERIC (cell_decrypt C dk ctx ed)
  end.
Proof.
  intros Hsmall.
  pose proof (ab_layout_length key ctx ek ed) as HL.
  destruct (ab_layout_split key ctx ek ed) as (hd4 & l8 & kid2 & l2 & E & Hhd & H4 & H8 & Hk2 & H2 & El8 & Ekid & El2).
  unfold ab_decrypt. set (L := ab_layout key ctx ek ed) in *.
  rewrite HL. destruct (Nat.ltb_spec (AB_MIN_SIZE + length ek + length ed) AB_MIN_SIZE); [lia|].
  assert (sub AB_DEK_LEN_POS AB_DEK_LEN_SIZE L = l2) as ->.
  { rewrite E. replace (hd4 ++ l8 ++ [AB_KEK_TYPE_SECURE_CELL] ++ kid2 ++ [AB_DATA_TYPE_SECURE_CELL] ++ l2 ++ ek ++ ed)
      with ((hd4 ++ l8 ++ [AB_KEK_TYPE_SECURE_CELL] ++ kid2 ++ [AB_DATA_TYPE_SECURE_CELL]) ++ l2 ++ ek ++ ed)
      by (rewrite <- !app_assoc; reflexivity).
    apply sub_app_mid; [rewrite !app_length, H4, H8, Hk2| rewrite H2]; reflexivity. }
  rewrite El2, le_dec_enc_small by (replace (256 ^ N.of_nat 2)%N with 65536%N by reflexivity; exact Hsmall).
  rewrite Nat2N.id.
  destruct (Nat.ltb_spec (AB_MIN_SIZE + length ek + length ed) (AB_MIN_SIZE + length ek)); [lia|].
  assert (nthb AB_KEK_TYPE_POS L = AB_KEK_TYPE_SECURE_CELL) as ->.
  { rewrite E. replace (hd4 ++ l8 ++ [AB_KEK_TYPE_SECURE_CELL] ++ kid2 ++ [AB_DATA_TYPE_SECURE_CELL] ++ l2 ++ ek ++ ed)
      with ((hd4 ++ l8) ++ AB_KEK_TYPE_SECURE_CELL :: (kid2 ++ [AB_DATA_TYPE_SECURE_CELL] ++ l2 ++ ek ++ ed))
      by (rewrite <- !app_assoc; reflexivity).
    apply nthb_app_at. rewrite app_length, H4, H8. reflexivity. }
  assert (nthb AB_DATA_TYPE_POS L = AB_DATA_TYPE_SECURE_CELL) as ->.
  { rewrite E. replace (hd4 ++ l8 ++ [AB_KEK_TYPE_SECURE_CELL] ++ kid2 ++ [AB_DATA_TYPE_SECURE_CELL] ++ l2 ++ ek ++ ed)
      with ((hd4 ++ l8 ++ [AB_KEK_TYPE_SECURE_CELL] ++ kid2) ++ AB_DATA_TYPE_SECURE_CELL :: (l2 ++ ek ++ ed))
      by (rewrite <- !app_assoc; reflexivity).
    apply nthb_app_at. rewrite !app_length, H4, H8, Hk2. reflexivity. }
  rewrite !byte_eqb_refl. cbn [andb negb].
  assert (sub AB_ENC_KEY_POS (length ek) L = ek) as ->.
  { rewrite E. replace (hd4 ++ l8 ++ [AB_KEK_TYPE_SECURE_CELL] ++ kid2 ++ [AB_DATA_TYPE_SECURE_CELL] ++ l2 ++ ek ++ ed)
      with ((hd4 ++ l8 ++ [AB_KEK_TYPE_SECURE_CELL] ++ kid2 ++ [AB_DATA_TYPE_SECURE_CELL] ++ l2) ++ ek ++ ed)
      by (rewrite <- !app_assoc; reflexivity).
    apply sub_app_mid; [rewrite !app_length, H4, H8, Hk2, H2|]; reflexivity. }
  assert (skipn (AB_MIN_SIZE + length ek) L = ed) as ->.
  { rewrite E. replace (hd4 ++ l8 ++ [AB_KEK_TYPE_SECURE_CELL] ++ kid2 ++ [AB_DATA_TYPE_SECURE_CELL] ++ l2 ++ ek ++ ed)
      with ((hd4 ++ l8 ++ [AB_KEK_TYPE_SECURE_CELL] ++ kid2 ++ [AB_DATA_TYPE_SECURE_CELL] ++ l2 ++ ek) ++ ed)
      by (rewrite <- !app_assoc; reflexivity).
    apply skipn_app_len'. rewrite !app_length, H4, H8, Hk2, H2. cbn [length]. unfold AB_MIN_SIZE. lia. }
  assert (sub AB_KEY_ID_POS AB_KEY_ID_SIZE L = kid2) as ->.
  { rewrite E. replace (hd4 ++ l8 ++ [AB_KEK_TYPE_SECURE_CELL] ++ kid2 ++ [AB_DATA_TYPE_SECURE_CELL] ++ l2 ++ ek ++ ed)
      with ((hd4 ++ l8 ++ [AB_KEK_TYPE_SECURE_CELL]) ++ kid2 ++ ([AB_DATA_TYPE_SECURE_CELL] ++ l2 ++ ek ++ ed))
      by (rewrite <- !app_assoc; reflexivity).
    apply sub_app_mid; [rewrite !app_length, H4, H8| rewrite Hk2]; reflexivity. }
  rewrite Ekid. reflexivity.
Qed.

Lemma ab_ok_inv (key ctx ek ed y : bytes) (keys : list bytes) :
  (N.of_nat (length ek) < 65536)%N ->
  ab_decrypt C (ab_layout key ctx ek ed) keys ctx = Ok y ->
  exists k' dk, In k' keys /\ bytes_eqb (ab_key_id k' ctx) (ab_key_id key ctx) = true
                /\ cell_decrypt C k' ctx ek = Some dk /\ cell_decrypt C dk ctx ed = Some y.
Proof.
  intros Hsmall Hok. rewrite (ab_decrypt_layout key ctx ek ed keys Hsmall) in Hok.
  destruct (ab_find_key C keys ctx (ab_key_id key ctx) ek) as [dk|] eqn:Ef; [|discriminate].
  destruct (ab_find_key_some_inv _ _ _ _ _ Ef) as (k' & Hin & Hid & Hcd).
  exists k', dk. split; [exact Hin|]. split; [exact Hid|]. split; [exact Hcd|].
  destruct (cell_decrypt C dk ctx ed) as [z|]; cbn [of_option] in Hok; [|discriminate].
  injection Hok as ->. reflexivity.
Qed.

(** * 3. AcraBlock protect / reveal with an arbitrary list of symmetric keys *)
Theorem ab_protect_reveal ks tape x key rest :
  looks_protected ENVELOPE_ID_ACRABLOCK x = false -> x <> [] -> (N.of_nat (length x) < MAXMSG)%N ->
  good_ab_tape tape -> key <> [] -> ks_syms ks = key :: rest ->
  exists v ek ed, encrypt_with_handler C ENVELOPE_ID_ACRABLOCK ks tape x = Ok v
    /\ v = sc_layout (ab_layout key [] ek ed) ENVELOPE_ID_ACRABLOCK
    /\ forall keys,
       (In key keys ->
          decrypt_with_handler C ENVELOPE_ID_ACRABLOCK (rk_syms keys) v = Ok x
          \/ exists k' dk, In k' keys /\ k' <> key /\ bytes_eqb (ab_key_id k' []) (ab_key_id key []) = true
                           /\ cell_decrypt C k' [] ek = Some dk)
       /\ ((exists e, decrypt_with_handler C ENVELOPE_ID_ACRABLOCK (rk_syms keys) v = Err e)
           \/ exists k' dk, In k' keys /\ bytes_eqb (ab_key_id k' []) (ab_key_id key []) = true
                            /\ cell_decrypt C k' [] ek = Some dk).
Proof.
  intros Hnp Hx Hlen Htape Hkey Hsyms.
  destruct (ab_roundtrip C HC tape x key [] Htape Hkey Hx Hlen) as (ek & ed & Hc & Hekl & Hedl & Hdec).
  exists (sc_layout (ab_layout key [] ek ed) ENVELOPE_ID_ACRABLOCK), ek, ed.
  set (inner := ab_layout key [] ek ed) in *.
  assert (length inner = AB_MIN_SIZE + length ek + length ed) as Hil by apply ab_layout_length.
  assert (inner <> []) as Hine by (intros E0; rewrite E0 in Hil; cbn [length] in Hil; unfold_consts; lia).
  assert (N.of_nat (length inner) < 4294967296)%N as Hismall
      by (rewrite Hil, Hekl, Hedl; unfold_consts; lia).
  assert (Hext : ab_extract inner = Ok (length inner, inner)).
  { rewrite (app_nil_r' inner) at 1. apply ab_extract_layout.
    rewrite Hekl, Hedl. unfold_consts. lia. }
  assert (Heksmall : (N.of_nat (length ek) < 65536)%N) by (rewrite Hekl; unfold_consts; lia).
  assert (Hab_ne : byte_eqb ENVELOPE_ID_ACRABLOCK ENVELOPE_ID_ACRASTRUCT = false) by reflexivity.
  unfold looks_protected in Hnp. apply orb_false_iff in Hnp as [Hnm Hnr].
  split.
  { unfold encrypt_with_handler. rewrite Hnm, Hnr. cbn [orb].
    unfold handler_encrypt. rewrite Hab_ne.
    unfold handler_match in Hnm. rewrite Hab_ne in Hnm. rewrite Hnm, Hsyms, Hc. cbn [bind].
    apply sc_serialize_ok, Hine. }
  split; [reflexivity|].
  destruct (container_roundtrip inner ENVELOPE_ID_ACRABLOCK [] Hine known_ab Hismall) as [Hd _].
  rewrite app_nil_r in Hd.
  assert (Hm : handler_match ENVELOPE_ID_ACRABLOCK inner = true).
  { unfold handler_match. rewrite Hab_ne, Hext. reflexivity. }
  intros keys.
  assert (Hdw : keys <> [] ->
                decrypt_with_handler C ENVELOPE_ID_ACRABLOCK (rk_syms keys) (sc_layout inner ENVELOPE_ID_ACRABLOCK)
                = match ab_decrypt C inner keys [] with
                  | Ok y => Ok y
                  | Err _ => Err E_DECRYPTION
                  | Panic => Panic
                  end).
  { intros Hne. unfold decrypt_with_handler. rewrite Hd. cbn [bind]. rewrite Hm. cbn [negb].
    unfold handler_decrypt. rewrite Hab_ne, Hext. cbn [rk_syms ks_syms].
    destruct keys as [|k0 keys0]; [contradiction| reflexivity]. }
  split.
  - intros Hin.
    assert (keys <> []) as Hne by (intros ->; destruct Hin).
    rewrite (Hdw Hne).
    destruct (ab_in_or_forgery inner key [] ek x keys Hdec Hin) as [Hok|Hw].
    + left. replace (ab_decrypt C inner keys []) with (@Ok bytes x) by (symmetry; exact Hok). reflexivity.
    + right. exact Hw.
  - destruct keys as [|k0 keys0].
    + left. exists E_GENERIC. unfold decrypt_with_handler. rewrite Hd. cbn [bind]. rewrite Hm. cbn [negb].
      unfold handler_decrypt. rewrite Hab_ne, Hext. reflexivity.
    + assert (k0 :: keys0 <> []) as Hne by discriminate.
      rewrite (Hdw Hne).
      pose proof (ab_decrypt_simple_total C inner (k0 :: keys0) []) as Hnpanic.
      destruct (ab_decrypt C inner (k0 :: keys0) []) as [y|e|] eqn:E.
      * right. destruct (ab_ok_inv key [] ek ed y (k0 :: keys0) Heksmall E) as (k' & dk & Hin & Hid & Hcd & _).
        exists k', dk. split; [exact Hin|]. split; [exact Hid| exact Hcd].
      * left. exists E_DECRYPTION. reflexivity.
      * contradiction.
Qed.

End RevealReduction.

Print Assumptions ab_in_or_forgery.
Print Assumptions ab_ok_inv.
Print Assumptions ab_protect_reveal.

Print Assumptions as_rotated_ok_inv.
Print Assumptions as_rotated_in_or_forgery.
Print Assumptions as_protect_reveal.
Print Assumptions hmac_search_uses_given_key.
Print Assumptions hmac_search_no_key.
