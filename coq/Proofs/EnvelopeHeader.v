(** The declared length of the serialized container (header field at offset 3, 8 bytes little endian):
    DeserializeEncryptedData accepts a value carrying the container tag and a known envelope id exactly when
    the declared length frames a part of it, and what an edit of that field can achieve. *)
From Acra Require Import Lib.Bytes Lib.Outcome Lib.Sha256 Crypto.Interface Gen.Consts Model.Envelope Proofs.Envelope.
From Coq Require Import ZifyN ZifyNat ZifyBool.

(** the declared length as the code reads it *)
Definition sc_declared (v : bytes) : N := le_dec (sub SC_TAG_SIZE SC_LEN_SIZE v).

(** Go slices are shorter than 2^63 *)
Definition sc_go_len (v : bytes) : Prop := (N.of_nat (length v) < 9223372036854775808)%N.

Lemma sc_declared_lt v : (sc_declared v < M64N)%N.
Proof.
  unfold sc_declared. pose proof (le_dec_lt (sub SC_TAG_SIZE SC_LEN_SIZE v)) as H.
  assert (length (sub SC_TAG_SIZE SC_LEN_SIZE v) <= 8) as Hl.
  { unfold sub. rewrite firstn_length. unfold SC_LEN_SIZE. lia. }
  assert (256 ^ N.of_nat (length (sub SC_TAG_SIZE SC_LEN_SIZE v)) <= 256 ^ 8)%N as Hp.
  { apply N.pow_le_mono_r; lia. }
  change (256 ^ 8)%N with M64N in Hp. lia.
Qed.

Lemma sc_internal_length_iff enc n :
  sc_go_len enc -> SC_MIN_SIZE <= length enc ->
  (sc_internal_length enc = Some n <->
   (12 <= sc_declared enc /\ sc_declared enc <= N.of_nat (length enc) /\ n = sc_declared enc - 12)%N).
Proof.
  intros Hgo Hmin. unfold sc_internal_length. fold (sc_declared enc).
  pose proof (sc_declared_lt enc) as Hd. unfold sc_go_len in Hgo. unfold SC_MIN_SIZE, M64N in *.
  set (d := sc_declared enc) in *. clearbody d.
  change (N.of_nat 12) with 12%N.
  destruct (N.ltb_spec (N.of_nat (length enc - 12)) ((d + 18446744073709551616 - 12) mod 18446744073709551616)) as [Hlt|Hge].
  - split; [discriminate|]. intros (H1 & H2 & _). exfalso.
    replace (d + 18446744073709551616 - 12)%N with ((d - 12) + 1 * 18446744073709551616)%N in Hlt by lia.
    rewrite N.mod_add in Hlt by lia. rewrite N.mod_small in Hlt by lia. lia.
  - destruct (N.ltb_spec d 12) as [Hs|Hs].
    + exfalso. rewrite N.mod_small in Hge by lia. lia.
    + replace (d + 18446744073709551616 - 12)%N with ((d - 12) + 1 * 18446744073709551616)%N in * by lia.
      rewrite N.mod_add in * by lia. rewrite N.mod_small in * by lia.
      split.
      * intros H. inversion H. lia.
      * intros (_ & _ & ->). reflexivity.
Qed.

(** DeserializeEncryptedData on anything that carries the tag and a known envelope id *)
Theorem sc_deserialize_new_iff enc id inner id' :
  sc_go_len enc -> sc_validate enc = Some id ->
  (sc_deserialize enc = Ok (inner, id') <->
   ((12 <= sc_declared enc)%N /\ (sc_declared enc <= N.of_nat (length enc))%N /\ id' = id /\
    inner = firstn (N.to_nat (sc_declared enc - 12)) (skipn SC_MIN_SIZE enc))).
Proof.
  intros Hgo Hv.
  assert (SC_MIN_SIZE <= length enc) as Hmin.
  { unfold sc_validate in Hv. destruct (Nat.leb_spec (length enc) SC_MIN_SIZE); [discriminate|lia]. }
  unfold sc_deserialize, envelope_kind. rewrite Hv.
  destruct (sc_internal_length enc) as [n|] eqn:Hi.
  - apply (sc_internal_length_iff enc n Hgo Hmin) in Hi. destruct Hi as (H1 & H2 & ->).
    split.
    + intros H. inversion H. auto.
    + intros (_ & _ & -> & ->). reflexivity.
  - split; [discriminate|]. intros (H1 & H2 & _). exfalso.
    assert (sc_internal_length enc = Some (sc_declared enc - 12)%N) as Hs
      by (apply sc_internal_length_iff; auto).
    congruence.
Qed.

Theorem sc_deserialize_new_rejects enc id :
  sc_go_len enc -> sc_validate enc = Some id ->
  ((sc_declared enc < 12)%N \/ (N.of_nat (length enc) < sc_declared enc)%N) ->
  sc_deserialize enc = Err E_GENERIC.
Proof.
  intros Hgo Hv Hbad.
  unfold sc_deserialize, envelope_kind. rewrite Hv.
  destruct (sc_internal_length enc) as [n|] eqn:Hi; [|reflexivity].
  assert (SC_MIN_SIZE <= length enc) as Hmin.
  { unfold sc_validate in Hv. destruct (Nat.leb_spec (length enc) SC_MIN_SIZE); [discriminate|lia]. }
  apply (sc_internal_length_iff enc n Hgo Hmin) in Hi. lia.
Qed.

Lemma handler_match_nil id : handler_match id [] = false.
Proof. unfold handler_match. destruct (byte_eqb id ENVELOPE_ID_ACRASTRUCT); vm_compute; reflexivity. Qed.

Section Entry.
Variable C : crypto.

(** the reveal entry points accept such a value only when 12 < declared <= len, and then they worked on
    exactly the declared frame *)
Theorem decrypt_with_handler_declared id0 id ks enc y :
  sc_go_len enc -> sc_validate enc = Some id0 ->
  decrypt_with_handler C id ks enc = Ok y ->
  (12 < sc_declared enc)%N /\ (sc_declared enc <= N.of_nat (length enc))%N /\
  let inner := firstn (N.to_nat (sc_declared enc - 12)) (skipn SC_MIN_SIZE enc) in
  handler_match id inner = true /\ handler_decrypt C id ks inner = Ok y.
Proof.
  intros Hgo Hv Hd. unfold decrypt_with_handler in Hd.
  destruct (sc_deserialize enc) as [[inner id']|e|] eqn:Hs; cbn [bind] in Hd; try discriminate.
  apply (sc_deserialize_new_iff enc id0 inner id' Hgo Hv) in Hs. destruct Hs as (H1 & H2 & -> & Hin).
  destruct (handler_match id inner) eqn:Hm; cbn [negb] in Hd; [|discriminate].
  assert (sc_declared enc <> 12%N) as Hne.
  { intros E. rewrite E in Hin. cbn in Hin. subst inner. rewrite handler_match_nil in Hm. discriminate. }
  cbv zeta. rewrite <- Hin. repeat split; auto. lia.
Qed.

Theorem registry_process_declared id0 ks enc y :
  sc_go_len enc -> sc_validate enc = Some id0 ->
  registry_process C ks enc = Ok y ->
  (12 < sc_declared enc)%N /\ (sc_declared enc <= N.of_nat (length enc))%N.
Proof.
  intros Hgo Hv Hp. unfold registry_process, envelope_kind in Hp. rewrite Hv in Hp.
  destruct (decrypt_with_handler_declared id0 id0 ks enc y Hgo Hv Hp) as (H1 & H2 & _). auto.
Qed.
End Entry.

Theorem registry_match_declared id0 enc :
  sc_go_len enc -> sc_validate enc = Some id0 ->
  registry_match enc = true ->
  (12 < sc_declared enc)%N /\ (sc_declared enc <= N.of_nat (length enc))%N.
Proof.
  intros Hgo Hv Hm. unfold registry_match in Hm.
  destruct (sc_deserialize enc) as [[inner id']|e|] eqn:Hs; try discriminate.
  apply (sc_deserialize_new_iff enc id0 inner id' Hgo Hv) in Hs. destruct Hs as (H1 & H2 & -> & Hin).
  assert (sc_declared enc <> 12%N) as Hne.
  { intros E. rewrite E in Hin. cbn in Hin. subst inner. rewrite handler_match_nil in Hm. discriminate. }
  lia.
Qed.

(** ** an edit of the length field of an honest container *)
Definition sc_relen (d : N) (enc : bytes) (id : byte) : bytes :=
  sc_tag ++ le_enc SC_LEN_SIZE d ++ [id] ++ enc.

Lemma sc_relen_honest enc id : sc_relen (N.of_nat (SC_MIN_SIZE + length enc)) enc id = sc_layout enc id.
Proof. reflexivity. Qed.

Lemma sc_relen_length d enc id : length (sc_relen d enc id) = SC_MIN_SIZE + length enc.
Proof. unfold sc_relen. rewrite !app_length, sc_tag_length, le_enc_length. cbn. lia. Qed.

Lemma sc_validate_relen d enc id :
  enc <> [] -> known_envelope id = true -> sc_validate (sc_relen d enc id) = Some id.
Proof.
  intros He Hid. unfold sc_validate. rewrite sc_relen_length.
  destruct enc as [|e0 enc]; [contradiction|].
  destruct (Nat.leb_spec (SC_MIN_SIZE + length (e0 :: enc)) SC_MIN_SIZE); [cbn [length] in *; lia|].
  unfold sc_relen.
  rewrite (firstn_app_len' SC_TAG_SIZE) by (symmetry; apply sc_tag_length).
  rewrite bytes_eqb_refl. cbn [negb].
  replace (sc_tag ++ le_enc SC_LEN_SIZE d ++ [id] ++ e0 :: enc)
    with ((sc_tag ++ le_enc SC_LEN_SIZE d) ++ id :: (e0 :: enc))
    by (rewrite <- !app_assoc; reflexivity).
  rewrite nthb_app_at by (rewrite app_length, sc_tag_length, le_enc_length; reflexivity).
  rewrite Hid. reflexivity.
Qed.

Lemma sc_declared_relen d enc id : (d < M64N)%N -> sc_declared (sc_relen d enc id) = d.
Proof.
  intros Hd. unfold sc_declared, sc_relen.
  rewrite sub_app_mid by (try (symmetry; apply sc_tag_length); rewrite le_enc_length; reflexivity).
  apply le_dec_enc_small. exact Hd.
Qed.

Lemma sc_relen_skip d enc id : skipn SC_MIN_SIZE (sc_relen d enc id) = enc.
Proof.
  unfold sc_relen.
  replace (sc_tag ++ le_enc SC_LEN_SIZE d ++ [id] ++ enc) with ((sc_tag ++ le_enc SC_LEN_SIZE d ++ [id]) ++ enc)
    by (rewrite <- !app_assoc; reflexivity).
  apply skipn_app_len'. rewrite !app_length, sc_tag_length, le_enc_length. reflexivity.
Qed.

(** the exact outcome for every value of the field *)
Theorem sc_deserialize_relen d enc id :
  enc <> [] -> known_envelope id = true -> (d < M64N)%N -> (N.of_nat (length enc) < 4294967296)%N ->
  sc_deserialize (sc_relen d enc id) =
  if (12 <=? d)%N && (d <=? N.of_nat (SC_MIN_SIZE + length enc))%N
  then Ok (firstn (N.to_nat (d - 12)) enc, id) else Err E_GENERIC.
Proof.
  intros He Hid Hd Hlen.
  assert (sc_go_len (sc_relen d enc id)) as Hgo.
  { unfold sc_go_len. rewrite sc_relen_length. unfold SC_MIN_SIZE. lia. }
  pose proof (sc_validate_relen d enc id He Hid) as Hv.
  destruct (N.leb_spec 12 d) as [H1|H1]; cbn [andb].
  - destruct (N.leb_spec d (N.of_nat (SC_MIN_SIZE + length enc))) as [H2|H2].
    + apply (sc_deserialize_new_iff _ id _ _ Hgo Hv).
      rewrite (sc_declared_relen d enc id Hd), sc_relen_length, sc_relen_skip. auto.
    + apply (sc_deserialize_new_rejects _ id Hgo Hv).
      rewrite (sc_declared_relen d enc id Hd), sc_relen_length. right. lia.
  - apply (sc_deserialize_new_rejects _ id Hgo Hv).
    rewrite (sc_declared_relen d enc id Hd). left. lia.
Qed.

(** any edit of the field to another value: rejected, or the internal container handed to the envelope
    handler is a PROPER prefix of the honest one *)
Theorem sc_length_edit d enc id :
  enc <> [] -> known_envelope id = true -> (d < M64N)%N -> (N.of_nat (length enc) < 4294967296)%N ->
  d <> N.of_nat (SC_MIN_SIZE + length enc) ->
  sc_deserialize (sc_relen d enc id) = Err E_GENERIC \/
  exists inner, sc_deserialize (sc_relen d enc id) = Ok (inner, id) /\
    inner = firstn (N.to_nat (d - 12)) enc /\ length inner < length enc /\
    (12 <= d)%N /\ (d < N.of_nat (SC_MIN_SIZE + length enc))%N.
Proof.
  intros He Hid Hd Hlen Hne. rewrite (sc_deserialize_relen d enc id He Hid Hd Hlen).
  destruct (N.leb_spec 12 d) as [H1|H1]; cbn [andb]; [|left; reflexivity].
  destruct (N.leb_spec d (N.of_nat (SC_MIN_SIZE + length enc))) as [H2|H2]; [|left; reflexivity].
  right. eexists. split; [reflexivity|]. split; [reflexivity|].
  rewrite firstn_length. unfold SC_MIN_SIZE in *. lia.
Qed.

(** at the entry point: a successful reveal of the edited value had 12 < d < honest and opened a proper prefix *)
Theorem decrypt_with_handler_length_edit (C : crypto) d enc id id' ks y :
  enc <> [] -> known_envelope id = true -> (d < M64N)%N -> (N.of_nat (length enc) < 4294967296)%N ->
  d <> N.of_nat (SC_MIN_SIZE + length enc) ->
  decrypt_with_handler C id' ks (sc_relen d enc id) = Ok y ->
  (12 < d)%N /\ (d < N.of_nat (SC_MIN_SIZE + length enc))%N /\
  let inner := firstn (N.to_nat (d - 12)) enc in
  length inner < length enc /\ handler_match id' inner = true /\ handler_decrypt C id' ks inner = Ok y.
Proof.
  intros He Hid Hd Hlen Hne Hdec.
  assert (sc_go_len (sc_relen d enc id)) as Hgo.
  { unfold sc_go_len. rewrite sc_relen_length. unfold SC_MIN_SIZE. lia. }
  pose proof (sc_validate_relen d enc id He Hid) as Hv.
  destruct (decrypt_with_handler_declared C id id' ks _ y Hgo Hv Hdec) as (H1 & H2 & H3).
  rewrite (sc_declared_relen d enc id Hd) in *. rewrite sc_relen_length in H2. rewrite sc_relen_skip in H3.
  cbv zeta in *. destruct H3 as (H3 & H4).
  repeat split; auto; try (rewrite firstn_length); unfold SC_MIN_SIZE in *; lia.
Qed.
