(** Proofs for the recovery theorems of the keystore v2 write path (C08_recovery). *)
From Acra Require Import Lib.Bytes Lib.Outcome Gen.KswConsts Model.KeystoreWrite Model.KeystoreTx Proofs.KeystoreWrite.
Local Open Scope Z_scope.

(** * Several faults per operation: the invariant method carries over unchanged *)
Lemma execm_safeq {A} (I : storage -> Prop) (Q : A -> storage -> Prop) (p : prog A) :
  forall fs st k, I st -> safeq I Q p st ->
    match execm p fs st k with
    | Ret a st' _ => I st' /\ Q a st'
    | Crash st' => I st'
    end.
Proof.
  induction p as [a|c cont IH]; intros fs st k HI Hs; cbn [execm].
  - split; assumption.
  - cbn [safeq] in Hs. destruct Hs as (H1 & H2 & H3 & H4 & H5).
    destruct (fault_at k fs) as [[| | | |]|]; try (apply IH; assumption); assumption.
Qed.

Lemma execm_safe {A} (I : storage -> Prop) (Q : A -> storage -> Prop) (p : prog A) fs st k :
  I st -> safeq I Q p st -> I (after_m (execm p fs st k)).
Proof.
  intros HI Hs. pose proof (execm_safeq I Q p fs st k HI Hs) as H.
  destruct (execm p fs st k); cbn [after_m]; tauto.
Qed.

(** one fault = the interpreter of Model/KeystoreWrite.v *)
Lemma execm_single {A} (p : prog A) : forall kf kind st k,
  execm p [(kf, kind)] st k = exec p (Some (kf, kind)) st k.
Proof.
  induction p as [a|c cont IH]; intros kf kind st k; cbn [execm exec fault_at]; [reflexivity|].
  rewrite Nat.eqb_sym. destruct (Nat.eqb k kf).
  - destruct kind; try reflexivity; apply IH.
  - apply IH.
Qed.

Lemma execm_none {A} (p : prog A) : forall st k, execm p [] st k = exec p None st k.
Proof.
  induction p as [a|c cont IH]; intros st k; cbn [execm exec fault_at]; [reflexivity|apply IH].
Qed.

Lemma safeq_and {A} (I : storage -> Prop) (Q1 Q2 : A -> storage -> Prop) (p : prog A) :
  forall st, safeq I Q1 p st -> safeq I Q2 p st -> safeq I (fun a s => Q1 a s /\ Q2 a s) p st.
Proof.
  induction p as [a|c cont IH]; intros st H1 H2; cbn [safeq] in *.
  - split; assumption.
  - destruct H1 as (A1 & A2 & A3 & A4 & A5). destruct H2 as (_ & _ & B3 & B4 & B5).
    repeat split; auto.
Qed.

(** * Rollback undoes Apply (general txlog_rolled_back) *)
Lemma upd_last_flag ks s f :
  snd (upd_last ks s f) = match find_key_rev (rev ks) s with Some _ => true | None => false end.
Proof.
  induction ks as [|k ks IH]; cbn [upd_last rev]; [reflexivity|].
  destruct (upd_last ks s f) as [t d]. cbn [snd] in IH. rewrite find_key_rev_app.
  destruct d.
  - cbn [snd]. destruct (find_key_rev (rev ks) s); [reflexivity|discriminate].
  - destruct (find_key_rev (rev ks) s); [discriminate|]. cbn [find_key_rev].
    destruct (Z.eqb (k_seq k) s); reflexivity.
Qed.

Lemma upd_last_none ks s f : find_key_rev (rev ks) s = None -> upd_last ks s f = (ks, false).
Proof.
  induction ks as [|a ks IH]; intro Hnone; cbn [upd_last]; [reflexivity|].
  cbn [rev] in Hnone. rewrite find_key_rev_app in Hnone.
  destruct (find_key_rev (rev ks) s) eqn:E1; [discriminate|].
  cbn [find_key_rev] in Hnone. destruct (Z.eqb (k_seq a) s) eqn:E2; [discriminate|].
  rewrite (IH eq_refl). cbv beta iota. rewrite ?E2. reflexivity.
Qed.

Lemma upd_last_undo ks s f g :
  pres f ->
  (forall k, find_key_rev (rev ks) s = Some k -> g (f k) = k) ->
  fst (upd_last (fst (upd_last ks s f)) s g) = ks.
Proof.
  intros Hf. induction ks as [|k ks IH]; intro Hg; [reflexivity|].
  cbn [upd_last]. pose proof (upd_last_flag ks s f) as Hfl.
  cbn [rev] in Hg. 
  destruct (upd_last ks s f) as [t d] eqn:Eu. cbn [snd] in Hfl. cbn [fst] in IH.
  destruct d.
  - cbn [fst upd_last].
    assert (Hg' : forall k0, find_key_rev (rev ks) s = Some k0 -> g (f k0) = k0).
    { intros k0 Hk0. apply Hg. rewrite find_key_rev_app, Hk0. reflexivity. }
    specialize (IH Hg').
    pose proof (upd_last_flag t s g) as Hfl2.
    assert (Hseq : map k_seq t = map k_seq ks).
    { pose proof (upd_last_seqs ks s f Hf) as H. rewrite Eu in H. exact H. }
    assert (Hfind : forall l l', map k_seq l = map k_seq l' ->
              (match find_key_rev l s with Some _ => true | None => false end) =
              (match find_key_rev l' s with Some _ => true | None => false end)).
    { induction l as [|a l IHl]; intros [|b l'] Hm; try discriminate; [reflexivity|].
      cbn [map] in Hm. inversion Hm as [[Ha Hl]]. cbn [find_key_rev]. rewrite Ha.
      destruct (Z.eqb (k_seq b) s); [reflexivity|apply IHl; exact Hl]. }
    assert (Hrev : map k_seq (rev t) = map k_seq (rev ks)) by (rewrite !map_rev, Hseq; reflexivity).
    rewrite (Hfind _ _ Hrev), <- Hfl in Hfl2.
    destruct (upd_last t s g) as [t2 d2]. cbn [snd] in Hfl2. cbn [fst] in IH. subst d2 t2.
    reflexivity.
  - assert (Hnone : find_key_rev (rev ks) s = None) by (destruct (find_key_rev (rev ks) s); [discriminate|reflexivity]).
    pose proof (upd_last_none ks s f Hnone) as Hn1. rewrite Eu in Hn1. inversion Hn1; subst t.
    pose proof (upd_last_none ks s g Hnone) as Hn2.
    destruct (Z.eqb (k_seq k) s) eqn:Ek.
    + cbn [fst upd_last]. rewrite Hn2. cbv beta iota. rewrite Hf, Ek. cbn [fst].
      rewrite Hg; [reflexivity|]. rewrite find_key_rev_app, Hnone. cbn [find_key_rev]. rewrite Ek. reflexivity.
    + cbn [fst upd_last]. rewrite Hn2. cbv beta iota. rewrite Ek. reflexivity.
Qed.

Lemma upd_key_undo r s f g k :
  pres f -> key_with_seqnum r s = Some k -> g (f k) = k -> upd_key (upd_key r s f) s g = r.
Proof.
  intros Hf Hk Hg. unfold upd_key. cbn [r_keys r_cur]. destruct r as [ks cur]. cbn [r_keys r_cur] in *.
  f_equal. apply upd_last_undo; [exact Hf|].
  intros k0 Hk0. unfold key_with_seqnum in Hk. cbn [r_keys] in Hk. rewrite Hk in Hk0. inversion Hk0; subst. exact Hg.
Qed.

Lemma apply_tx_rollback r t r' t' : apply_tx r t = Ok (r', t') -> rollback_tx r' t' = r.
Proof.
  intro H. destruct t as [old new|s old new|k|s b]; cbn [apply_tx] in H.
  - destruct (negb (r_cur r =? old)) eqn:E1; [discriminate|].
    destruct (negb (old =? KSW_NO_KEY) && match key_with_seqnum r old with Some _ => false | None => true end) eqn:E2; [discriminate|].
    destruct (key_with_seqnum r new) as [kn|] eqn:En; [|discriminate].
    inversion H; subst r' t'; clear H. cbn [rollback_tx].
    change (key_with_seqnum {| r_keys := r_keys r; r_cur := new |} new) with (key_with_seqnum r new).
    change (key_with_seqnum {| r_keys := r_keys r; r_cur := new |} old) with (key_with_seqnum r old).
    rewrite En, E2. cbn [r_keys]. apply negb_false_iff, Z.eqb_eq in E1. subst old. destruct r; reflexivity.
  - destruct (key_with_seqnum r s) as [k|] eqn:Ek; [|discriminate].
    destruct (negb (k_state k =? old)%N) eqn:E1; [discriminate|].
    inversion H; subst r' t'; clear H. cbn [rollback_tx].
    apply negb_false_iff, N.eqb_eq in E1.
    eapply upd_key_undo; [intro; reflexivity | exact Ek |]. cbn [k_seq k_ord]. subst old. destruct k; reflexivity.
  - destruct (key_with_seqnum r (k_seq k)); [discriminate|].
    inversion H; subst r' t'; clear H. cbn [rollback_tx r_keys r_cur]. rewrite removelast_last. destruct r; reflexivity.
  - destruct (key_with_seqnum r s) as [k|] eqn:Ek; [|discriminate].
    inversion H; subst r' t'; clear H. cbn [rollback_tx].
    eapply upd_key_undo; [intro; reflexivity | exact Ek |]. cbn [k_seq k_state]. destruct k; reflexivity.
Qed.

Lemma apply_tx_no_panic r t : apply_tx r t <> Panic.
Proof.
  destruct t as [old new|s old new|k|s b]; cbn [apply_tx];
    repeat match goal with |- context [match ?x with _ => _ end] => destruct x end; discriminate.
Qed.

(** applyPendingTX: on success, rolling the applied transactions back gives the ring it started
    from; on failure it has already been rolled back to it. The log keeps its length. *)
Lemma apply_pending_rollback : forall log r ap r0 r' log' ap' e,
  rollback_all r ap = r0 ->
  apply_pending r ap log = (r', log', ap', e) ->
  length log' = (length ap + length log)%nat /\
  match e with
  | None => rollback_all r' ap' = r0
  | Some _ => r' = r0
  end.
Proof.
  induction log as [|t log IH]; intros r ap r0 r' log' ap' e Hrb H; cbn [apply_pending] in H.
  - inversion H; subst. rewrite rev_length. split; [cbn; lia|reflexivity].
  - destruct (apply_tx r t) as [[r1 t1]|e1|] eqn:Et.
    + destruct (IH r1 (t1 :: ap) r0 r' log' ap' e) as [Hl He]; [|exact H|].
      * cbn [rollback_all]. rewrite (apply_tx_rollback _ _ _ _ Et). exact Hrb.
      * split; [cbn [length] in *; lia|exact He].
    + inversion H; subst. split; [rewrite app_length, rev_length; cbn; lia|reflexivity].
    + exfalso. exact (apply_tx_no_panic r t Et).
Qed.

Lemma pop_all_log h n :
  length (h_log h) = n -> h_log (fold_left (fun h0 (_ : tx) => pop_tx h0) (repeat (TxSetCurrent 0 0) n) h) = [] .
Proof.
  revert h. induction n as [|n IH]; intros h Hl; cbn [repeat fold_left].
  - destruct (h_log h); [reflexivity|discriminate].
  - apply IH. unfold pop_tx. cbn [h_log].
    destruct (rev_case (h_log h)) as [E|[l [x E]]]; rewrite E in *; [discriminate|].
    rewrite removelast_last. rewrite app_length in Hl. cbn in Hl. lia.
Qed.

Lemma pop_all h : forall (txs : list tx),
  (length (h_log h) <= length txs)%nat ->
  fold_left (fun h0 (_ : tx) => pop_tx h0) txs h = mk_hring (h_path h) (h_data h) [].
Proof.
  intro txs. revert h. induction txs as [|t txs IH]; intros h Hl; cbn [fold_left].
  - destruct h as [p d l]. cbn in *. destruct l; [reflexivity|cbn in Hl; lia].
  - rewrite IH; unfold pop_tx; cbn [h_path h_data h_log]; [reflexivity|].
    destruct (rev_case (h_log h)) as [E|[l [x E]]]; rewrite E in *; [cbn; lia|].
    rewrite removelast_last. rewrite app_length in Hl. cbn in Hl. cbn. lia.
Qed.

(** * What an update of a key ring object returns, under every fault schedule *)

(** writeKeyRing: on success nothing is pending, the object shows the stored ring, and that ring is
    the committed update; otherwise the object shows what it showed before or the stored ring *)
Definition wk_post (st0 : storage) (h : hring) (ra : res unit * hring) (st' : storage) : Prop :=
  h_path (snd ra) = h_path h /\
  match fst ra with
  | Ok _ => h_log (snd ra) = [] /\ stored_ring st' (h_path h) = Some (h_data (snd ra)) /\
            upd_P st0 (h_path h) (h_log h) (h_data (snd ra))
  | _ => (length (h_log (snd ra)) <= length (h_log h))%nat /\
         (h_data (snd ra) = h_data h \/ stored_ring st' (h_path h) = Some (h_data (snd ra)))
  end.

Ltac wkfin :=
  repeat match goal with
  | |- step_inv _ _ _ _ => assumption
  | |- True => exact I
  | |- wk_post _ _ _ _ => unfold wk_post; cbn [fst snd h_path h_log h_data err_of]
  | |- _ /\ _ => split
  | |- _ = _ => reflexivity
  | |- (_ <= _)%nat => first [apply le_n | lia]
  | |- _ \/ _ => first [left; reflexivity | right; assumption]
  end.

Lemma write_key_ring_safe2 st0 h :
  wf st0 ->
  (forall r, stored_ring st0 (h_path h) = Some r -> Forall (add_pre (length (r_keys r))) (h_log h)) ->
  safeq (step_inv (h_path h) (upd_P st0 (h_path h) (h_log h)) st0) (wk_post st0 h) (write_key_ring h) st0.
Proof.
  intros Hwf Hpre. pose proof (step_inv_refl (h_path h) (upd_P st0 (h_path h) (h_log h)) st0 Hwf) as HI.
  unfold write_key_ring, locked, pull, call.
  cbn [pbind safeq do_call torn_call fst snd err_of].
  wkfin.
  destruct (lookup (FRing (h_path h)) st0) as [c|] eqn:El.
  - destruct (Hwf _ _ El) as [r [-> Hok]].
    assert (Hs : stored_ring st0 (h_path h) = Some r) by (unfold stored_ring; rewrite El; reflexivity).
    cbn [pbind safeq do_call torn_call fst snd err_of].
    destruct (apply_pending r [] (h_log h)) as [[[r' log'] ap] [e|]] eqn:Eap.
    + destruct (apply_pending_rollback (h_log h) r [] r _ _ _ _ eq_refl Eap) as [Hlen Hr]. subst r'.
      cbn [pbind safeq do_call torn_call fst snd err_of]. cbn [length] in Hlen.
      wkfin; rewrite Hlen; apply le_n.
    + destruct (apply_pending_ok _ _ _ _ _ _ Hok (Hpre r Hs) Eap) as (Hok' & _ & _).
      destruct (apply_pending_rollback (h_log h) r [] r _ _ _ _ eq_refl Eap) as [Hlen Hr]. cbn [length] in Hlen.
      assert (HP : upd_P st0 (h_path h) (h_log h) r') by (exists r, log', ap; split; [exact Hs|exact Eap]).
      eapply safeq_bind with
        (Q := fun (ra : res unit * hring) st' =>
                match fst ra with
                | Ok _ => snd ra = mk_hring (h_path h) r' [] /\ lookup (FRing (h_path h)) st' = Some (CRing true r')
                | _ => snd ra = mk_hring (h_path h) r log' /\ lookup (FRing (h_path h)) st' = lookup (FRing (h_path h)) st0
                end); [exact HI | |].
      * eapply safeq_bind; [exact HI | apply push_safe; [exact HI | exact Hok' | exact HP] |].
        intros w st' _ Hw. destruct w; cbn [safeq fst snd]; cbn [push_post] in Hw; rewrite ?Hr; (split; [reflexivity|exact Hw]).
      * intros [res hr] st' HI' HQ. cbn [fst snd] in HQ.
        cbn [safeq do_call torn_call fst snd]. 
        destruct res; destruct HQ as [-> HQ]; 
          (assert (Hst' : stored_ring st' (h_path h) = Some r' \/ stored_ring st' (h_path h) = Some r)
             by (unfold stored_ring; rewrite HQ, ?El; auto));
          unfold wk_post; cbn [fst snd h_path h_log h_data err_of];
          pose proof HI' as (W & O & T);
          repeat split; try assumption; try reflexivity; try (rewrite Hlen; apply le_n); try (cbn [length]; lia);
          try (unfold stored_ring; rewrite HQ, ?El; reflexivity);
          try (right; unfold stored_ring; rewrite HQ, ?El; reflexivity).
  - cbn [pbind safeq do_call torn_call fst snd err_of]. wkfin.
Qed.

(** a ring-level operation (AddKey/SetCurrent/SetState/DestroyKey) on an object without pending
    transactions: afterwards NOTHING is pending (general txlog_rolled_back) *)
Definition op_post2 {R} (st0 : storage) (h : hring) (txs : list tx) (ra : res R * hring) (st' : storage) : Prop :=
  h_path (snd ra) = h_path h /\ h_log (snd ra) = [] /\
  match fst ra with
  | Ok _ => stored_ring st' (h_path h) = Some (h_data (snd ra)) /\ upd_P st0 (h_path h) txs (h_data (snd ra))
  | _ => h_data (snd ra) = h_data h \/ stored_ring st' (h_path h) = Some (h_data (snd ra))
  end.

Lemma ring_op_safe2 st h o txs s :
  wf st -> h_log h = [] -> snap_ok h st -> prepare h o = Ok (txs, s) ->
  safeq (step_inv (h_path h) (upd_P st (h_path h) txs) st)
        (fun ra st' => op_post2 st h txs ra st' /\ (forall v, fst ra = Ok v -> v = s)) (ring_op h o) st.
Proof.
  intros Hwf Hlog [Hc Hlen] Hp.
  destruct (prepare_pre h o txs s _ Hc (le_n _) Hp) as [_ Hne].
  unfold ring_op. rewrite Hp. unfold with_txs. rewrite fold_push_tx, Hlog. cbn [app].
  unfold sync_key_ring. cbn [h_log]. destruct txs as [|t txs]; [congruence|].
  set (h1 := mk_hring (h_path h) (h_data h) (t :: txs)).
  assert (Hpre : forall r, stored_ring st (h_path h1) = Some r -> Forall (add_pre (length (r_keys r))) (h_log h1)).
  { intros r Hs. exact (proj1 (prepare_pre h o (t :: txs) s _ Hc (Hlen r Hs) Hp)). }
  pose proof (write_key_ring_safe2 st h1 Hwf Hpre) as Hw. cbn [h_path h_log h1] in Hw. fold h1 in Hw.
  eapply safeq_bind with (Q := @op_post2 unit st h (t :: txs)); [apply step_inv_refl; exact Hwf | |].
  - eapply safeq_bind; [apply step_inv_refl; exact Hwf | exact Hw |].
    intros [res hr] st' _ HQ. unfold wk_post in HQ. cbn [fst snd h_path h_log h_data h1] in HQ.
    cbn [safeq fst snd]. unfold op_post2. destruct HQ as [Hpath HQ].
    destruct res; cbn [fst snd err_of].
    + destruct HQ as (Hl & Hs & HP). repeat split; assumption.
    + destruct HQ as (Hl & Hd). rewrite pop_all by exact Hl. cbn [h_path h_log h_data]. repeat split; assumption.
    + destruct HQ as (Hl & Hd). rewrite pop_all by exact Hl. cbn [h_path h_log h_data]. repeat split; assumption.
  - intros [res hr] st' _ HQ. cbn [safeq fst snd]. unfold op_post2 in *. cbn [fst snd] in *.
    destruct res; cbn [fst snd err_of]; (split; [exact HQ|]); intros v Hv; inversion Hv; reflexivity.
Qed.

Theorem ring_op_multi st h o fs txs s :
  wf st -> h_log h = [] -> snap_ok h st -> prepare h o = Ok (txs, s) ->
  match execm (ring_op h o) fs st 0 with
  | Ret ra st' _ => step_inv (h_path h) (upd_P st (h_path h) txs) st st' /\ op_post2 st h txs ra st' /\
                    (forall v, fst ra = Ok v -> v = s)
  | Crash st' => step_inv (h_path h) (upd_P st (h_path h) txs) st st'
  end.
Proof.
  intros Hwf Hlog Hsnap Hp.
  apply (execm_safeq (step_inv (h_path h) (upd_P st (h_path h) txs) st)
           (fun ra st' => op_post2 st h txs ra st' /\ (forall v, fst ra = Ok v -> v = s)));
    [apply step_inv_refl; exact Hwf|].
  eapply ring_op_safe2; eassumption.
Qed.

(** * Import of a key ring: one locked update replacing keys and current *)
Lemma set_keys_write_safe rid P st0 st newr :
  step_inv rid P st0 st -> ring_ok newr -> P newr ->
  safeq (step_inv rid P st0)
        (fun (w : res unit) st' => match w with Ok _ => lookup (FRing rid) st' = Some (CRing true newr) | _ => True end)
        (set_keys_write rid newr) st.
Proof.
  intros HI Hok HP. pose proof HI as (Hwf & _ & _).
  unfold set_keys_write, locked, pull, call.
  cbn [pbind safeq do_call torn_call fst snd err_of].
  spl.
  destruct (lookup (FRing rid) st) as [c|] eqn:El.
  - destruct (Hwf _ _ El) as [r [-> Hokr]].
    cbn [pbind safeq do_call torn_call fst snd err_of].
    eapply safeq_bind with
      (Q := fun (ra : res unit * unit) st' =>
              match fst ra with Ok _ => lookup (FRing rid) st' = Some (CRing true newr) | _ => True end); [exact HI | |].
    + eapply safeq_bind with
        (Q := fun (ra : res unit * unit) st' =>
                match fst ra with Ok _ => lookup (FRing rid) st' = Some (CRing true newr) | _ => True end); [exact HI | |].
      * eapply safeq_bind; [exact HI | apply push_safe; [exact HI | exact Hok | exact HP] |].
        intros w st' _ Hw. destruct w; cbn [safeq fst snd]; [|exact I|exact I].
        cbn [push_post] in Hw. exact Hw.
      * intros [res u] st' HI' HQ. cbn [fst snd] in HQ.
        cbn [pbind safeq do_call torn_call fst snd]. spl.
        all: destruct res; cbn [fst snd err_of]; try exact I; exact HQ.
    + intros [res u] st' HI' HQ. cbn [safeq fst snd] in *. exact HQ.
  - cbn [pbind safeq do_call torn_call fst snd err_of]. spl.
Qed.

Lemma step_inv_mono rid (P P' : ring -> Prop) st0 st :
  (forall r, P r -> P' r) -> step_inv rid P st0 st -> step_inv rid P' st0 st.
Proof.
  intros HPP (Hwf & Hoth & Hthis). split; [exact Hwf|]. split; [exact Hoth|].
  destruct Hthis as [H|(r' & Hl & HP)]; [left; exact H|right; exists r'; split; [exact Hl|apply HPP; exact HP]].
Qed.

(** the ring file of an imported ring: its old self, (if it did not exist) the empty ring that
    openKeyRing creates first, or the complete imported ring *)
Definition imp_ring_P (st0 : storage) (rid : N) (newr : ring) (r' : ring) : Prop :=
  (lookup (FRing rid) st0 = None /\ r' = empty_ring) \/ r' = newr.

Lemma imp_set_stage rid newr st0 st :
  step_inv rid (imp_ring_P st0 rid newr) st0 st -> ring_ok newr ->
  safeq (step_inv rid (imp_ring_P st0 rid newr) st0) (fun _ _ => True) (set_keys_write rid newr) st.
Proof.
  intros HI Hok. eapply safeq_weaken; [|apply set_keys_write_safe; [exact HI | exact Hok | right; reflexivity]].
  intros; exact I.
Qed.

Lemma imp_open_stage rid newr st :
  wf st -> ring_ok newr ->
  safeq (step_inv rid (imp_ring_P st rid newr) st) (fun _ _ => True)
    (exe o <- open_key_ring_rw rid;
     match fst o with Ok _ => set_keys_write rid newr | e' => Done (err_of e') end) st.
Proof.
  intros Hwf Hok.
  eapply safeq_bind with (Q := fun _ _ => True); [apply step_inv_refl; exact Hwf | |].
  - eapply safeq_weaken; [intros; exact I|].
    eapply safeq_mono_inv; [|apply open_safe; exact Hwf].
    intros s Hs. eapply step_inv_mono; [|exact Hs]. intros r [Hn He]. left. split; assumption.
  - intros [res h] st1 HI1 _. cbn [fst]. destruct res; cbn [safeq]; try exact I.
    apply imp_set_stage; assumption.
Qed.

Lemma import_ring_safe rid newr d st :
  wf st -> ring_ok newr ->
  safeq (step_inv rid (imp_ring_P st rid newr) st) (fun _ _ => True) (import_ring rid newr d) st.
Proof.
  intros Hwf Hok. pose proof (step_inv_refl rid (imp_ring_P st rid newr) st Hwf) as HI.
  pose proof (imp_open_stage rid newr st Hwf Hok) as Hopen.
  pose proof (imp_set_stage rid newr st st HI Hok) as Hset.
  unfold import_ring, read_key_ring, locked, pull, call.
  cbn [pbind safeq do_call torn_call fst snd err_of h_path h_log].
  change (E_IO =? E_NOTEXIST)%N with false. cbn iota.
  cbn [pbind safeq do_call torn_call fst snd err_of h_path h_log].
  destruct (lookup (FRing rid) st) as [c|] eqn:El.
  - destruct (Hwf _ _ El) as [r [-> Hokr]].
    cbn [pbind safeq do_call torn_call fst snd err_of h_path h_log].
    change (E_IO =? E_NOTEXIST)%N with false. cbn iota.
    destruct d; cbn [safeq]; spl; try exact Hset.
  - cbn [pbind safeq do_call torn_call fst snd err_of h_path h_log].
    change (E_IO =? E_NOTEXIST)%N with false. change (E_NOTEXIST =? E_NOTEXIST)%N with true. cbn iota.
    spl; try exact Hopen.
Qed.

(** ImportKeyRings: every ring file is its old self, a freshly created empty ring, or the complete
    imported ring of that name; no ring outside the container is touched *)
Definition imp_inv (l : list (N * ring)) (st0 st : storage) : Prop :=
  wf st /\
  forall x, lookup (FRing x) st = lookup (FRing x) st0 \/
            exists r', lookup (FRing x) st = Some (CRing true r') /\
                       ((lookup (FRing x) st0 = None /\ r' = empty_ring) \/ In (x, r') l).

Lemma imp_inv_refl l st : wf st -> imp_inv l st st.
Proof. intro H. split; [exact H|]. intro x. left. reflexivity. Qed.

Lemma imp_inv_step L st0 st rid newr s :
  imp_inv L st0 st -> In (rid, newr) L ->
  step_inv rid (imp_ring_P st rid newr) st s -> imp_inv L st0 s.
Proof.
  intros [Hwf Hall] Hin (Hwfs & Hoth & Hthis). split; [exact Hwfs|].
  intro x. destruct (N.eq_dec x rid) as [->|Hne].
  - destruct Hthis as [Heq|(r' & Hl & HP)].
    + rewrite Heq. apply Hall.
    + destruct HP as [[Hn ->]| ->].
      * destruct (Hall rid) as [Hs|(r2 & Hs & _)]; [|congruence].
        right. exists empty_ring. split; [exact Hl|]. left. split; [congruence|reflexivity].
      * right. exists newr. split; [exact Hl|]. right. exact Hin.
  - rewrite (Hoth x Hne). apply Hall.
Qed.

Lemma import_rings_safe L d st0 : forall l st,
  imp_inv L st0 st -> incl l L -> Forall (fun p => ring_ok (snd p)) l ->
  safeq (imp_inv L st0) (fun _ _ => True) (import_rings l d) st.
Proof.
  induction l as [|[rid newr] l IH]; intros st HI Hincl Hok; cbn [import_rings safeq]; [exact I|].
  inversion Hok as [|? ? Hok1 Hok2]; subst. cbn [snd] in Hok1.
  eapply safeq_bind with (Q := fun _ _ => True); [exact HI | |].
  - eapply safeq_mono_inv; [|apply import_ring_safe; [exact (proj1 HI)|exact Hok1]].
    intros s Hs. eapply imp_inv_step; [exact HI | apply Hincl; left; reflexivity | exact Hs].
  - intros r st1 HI1 _. destruct r; cbn [safeq]; try exact I.
    apply IH; [exact HI1 | intros y Hy; apply Hincl; right; exact Hy | exact Hok2].
Qed.

(** * Read-only operations leave the storage alone, whatever fails *)
Definition ro_call (c : bcall) : Prop :=
  match c with
  | BLock | BUnlock | BRLock | BRUnlock | BGet _ | BStat _ | BList => True
  | _ => False
  end.

Fixpoint ro_prog {A} (p : prog A) : Prop :=
  match p with
  | Done _ => True
  | Call c k => ro_call c /\ forall v, ro_prog (k v)
  end.

Lemma ro_safe {A} (p : prog A) st : ro_prog p -> safeq (fun s => s = st) (fun _ _ => True) p st.
Proof.
  induction p as [a|c k IH]; intro H; cbn [safeq]; [exact I|].
  destruct H as [Hc Hk].
  assert (E1 : snd (do_call c st) = st) by (destruct c; cbn in Hc; try contradiction; reflexivity).
  assert (E2 : torn_call c st = st) by (destruct c; cbn in Hc; try contradiction; reflexivity).
  rewrite E1, E2. repeat split; try reflexivity; apply IH; apply Hk.
Qed.

Lemma ro_bind {A B} (p : prog A) (g : A -> prog B) :
  ro_prog p -> (forall a, ro_prog (g a)) -> ro_prog (pbind p g).
Proof.
  induction p as [a|c k IH]; intros Hp Hg; cbn [pbind ro_prog]; [apply Hg|].
  destruct Hp as [Hc Hk]. split; [exact Hc|]. intro v. apply IH; [apply Hk|exact Hg].
Qed.

Lemma ro_open_key_ring rid : ro_prog (open_key_ring rid).
Proof.
  unfold open_key_ring, read_key_ring, locked, pull, call. cbn [pbind ro_prog ro_call].
  split; [exact I|]. intros [v| |]; cbn [pbind ro_prog ro_call]; try exact I.
  split; [exact I|]. intro g. cbn [pbind ro_prog ro_call]. split; [exact I|]. intro u. exact I.
Qed.

Lemma ro_list_loop : forall rids acc, ro_prog (list_keys_loop rids acc).
Proof.
  induction rids as [|rid rids IH]; intro acc; cbn [list_keys_loop ro_prog]; [exact I|].
  apply ro_bind; [apply ro_open_key_ring|].
  intros [res h]. cbn [fst snd]. destruct res; cbn [ro_prog]; try exact I.
  destruct (current_key h) as [cs| |]; [|apply IH|apply IH].
  destruct (key_with_seqnum (h_data h) cs) as [kc|]; [destruct (N.eqb (k_state kc) KSW_DESTROYED); apply IH|exact I].
Qed.

Lemma ro_list_keys : ro_prog list_keys.
Proof.
  unfold list_keys. apply ro_bind.
  - unfold list_key_rings, locked, call. cbn [pbind ro_prog ro_call].
    split; [exact I|]. intros [v| |]; cbn [pbind ro_prog ro_call]; try exact I.
    split; [exact I|]. intro g. cbn [pbind ro_prog ro_call]. split; [exact I|]. intro u. exact I.
  - intros [l| |]; cbn [ro_prog]; try exact I. apply ro_list_loop.
Qed.

(** * Nothing readable is lost: the relation carried through histories *)

(** [rt]: rings an import was told to replace; [kt]: keys an operation was told to write
    (SetState/DestroyKey/destroy current). Every other readable key keeps its value, every ring stays
    a verifiable ring, seqnums of rings that are not replaced only grow. *)
Definition keeps (rt : N -> Prop) (kt : N -> Z -> Prop) (st0 st : storage) : Prop :=
  wf st /\
  forall rid r, stored_ring st0 rid = Some r ->
    exists r', stored_ring st rid = Some r' /\
      (~ rt rid ->
         (exists ext, seqs r' = seqs r ++ ext) /\
         forall s v, ~ kt rid s -> key_value r s = Ok v -> key_value r' s = Ok v).

Lemma keeps_refl rt kt st : wf st -> keeps rt kt st st.
Proof.
  intro H. split; [exact H|]. intros rid r Hr. exists r. split; [exact Hr|]. intros _.
  split; [exists []; rewrite app_nil_r; reflexivity|auto].
Qed.

Lemma keeps_trans rt1 kt1 rt2 kt2 a b c :
  keeps rt1 kt1 a b -> keeps rt2 kt2 b c ->
  keeps (fun x => rt1 x \/ rt2 x) (fun x s => kt1 x s \/ kt2 x s) a c.
Proof.
  intros [_ H1] [Hw2 H2]. split; [exact Hw2|]. intros rid r Hr.
  destruct (H1 rid r Hr) as (r1 & Hs1 & K1). destruct (H2 rid r1 Hs1) as (r2 & Hs2 & K2).
  exists r2. split; [exact Hs2|]. intro Hn.
  destruct K1 as [[e1 He1] Hv1]; [tauto|]. destruct K2 as [[e2 He2] Hv2]; [tauto|].
  split; [exists (e1 ++ e2); rewrite He2, He1, app_assoc; reflexivity|].
  intros s v Hk Hv. apply Hv2; [tauto|]. apply Hv1; [tauto|exact Hv].
Qed.

Lemma keeps_weaken (rt rt' : N -> Prop) (kt kt' : N -> Z -> Prop) a b :
  (forall x, rt x -> rt' x) -> (forall x s, kt x s -> kt' x s) -> keeps rt kt a b -> keeps rt' kt' a b.
Proof.
  intros Hr Hk [Hw H]. split; [exact Hw|]. intros rid r Hs. destruct (H rid r Hs) as (r' & Hs' & K).
  exists r'. split; [exact Hs'|]. intro Hn. destruct K as [He Hv]; [auto|]. split; [exact He|].
  intros s v Hnk. apply Hv. auto.
Qed.

(** one ring evolves, except for the keys in [T] *)
Definition evolvesT (rid : N) (T : Z -> Prop) (st0 st : storage) : Prop :=
  wf st /\
  (forall x, x <> rid -> lookup (FRing x) st = lookup (FRing x) st0) /\
  (forall r, stored_ring st0 rid = Some r ->
     exists r', stored_ring st rid = Some r' /\ (exists ext, seqs r' = seqs r ++ ext) /\
                forall s v, ~ T s -> key_value r s = Ok v -> key_value r' s = Ok v).

Lemma evolves_evolvesT rid T st0 st : evolves rid st0 st -> evolvesT rid T st0 st.
Proof.
  intros (Hw & Ho & Hr). split; [exact Hw|]. split; [exact Ho|].
  intros r Hs. destruct (Hr r Hs) as (r' & Hs' & He & Hv). exists r'. split; [exact Hs'|]. split; [exact He|].
  intros s v _. apply Hv.
Qed.

Lemma evolvesT_refl rid T st : wf st -> evolvesT rid T st st.
Proof. intro H. apply evolves_evolvesT, evolves_refl, H. Qed.

Lemma evolvesT_trans rid T a b c : evolvesT rid T a b -> evolvesT rid T b c -> evolvesT rid T a c.
Proof.
  intros (_ & Ho1 & Hr1) (Hw2 & Ho2 & Hr2). split; [exact Hw2|]. split.
  - intros x Hx. rewrite Ho2, Ho1 by exact Hx. reflexivity.
  - intros r Hr. destruct (Hr1 r Hr) as (r1 & Hs1 & [e1 He1] & Hv1).
    destruct (Hr2 r1 Hs1) as (r2 & Hs2 & [e2 He2] & Hv2).
    exists r2. split; [exact Hs2|]. split; [exists (e1 ++ e2); rewrite He2, He1, app_assoc; reflexivity|auto].
Qed.

Lemma evolvesT_keeps rid T st0 st :
  evolvesT rid T st0 st -> keeps (fun _ => False) (fun x s => x = rid /\ T s) st0 st.
Proof.
  intros (Hw & Ho & Hr). split; [exact Hw|]. intros x r Hs.
  destruct (N.eq_dec x rid) as [->|Hne].
  - destruct (Hr r Hs) as (r' & Hs' & He & Hv). exists r'. split; [exact Hs'|]. intros _. split; [exact He|].
    intros s v Hn. apply Hv. intro HT. apply Hn. split; [reflexivity|exact HT].
  - exists r. split; [unfold stored_ring in *; rewrite (Ho x Hne); exact Hs|]. intros _.
    split; [exists []; rewrite app_nil_r; reflexivity|auto].
Qed.

(** a locked update: only the keys its transactions target may change *)
Lemma step_evolvesT rid st st' txs (T : Z -> Prop) :
  wf st -> (forall t s, In t txs -> tx_target t = Some s -> T s) ->
  (forall r, stored_ring st rid = Some r -> Forall (add_pre (length (r_keys r))) txs) ->
  step_inv rid (upd_P st rid txs) st st' -> evolvesT rid T st st'.
Proof.
  intros Hwf Hnt Hpre (Hwf' & Hoth & Hthis). split; [exact Hwf'|]. split; [exact Hoth|].
  intros r Hr. destruct Hthis as [Heq|(r' & Hl & (r0 & log & ap & Hs0 & Hap))].
  - exists r. split; [unfold stored_ring in *; rewrite Heq; exact Hr|].
    split; [exists []; rewrite app_nil_r; reflexivity|auto].
  - rewrite Hr in Hs0. inversion Hs0; subst r0.
    assert (Hok : ring_ok r).
    { apply stored_ring_lookup in Hr. destruct (Hwf _ _ Hr) as (r1 & E & Hok). inversion E; subst. exact Hok. }
    destruct (apply_pending_ok _ _ _ _ _ _ Hok (Hpre r Hr) Hap) as (_ & Hext & Hval).
    exists r'. split; [apply stored_ring_lookup; exact Hl|]. split; [exact Hext|].
    intros s v HnT Hv. apply Hval; [|exact Hv]. intros t Hin Ht. apply HnT. eapply Hnt; eassumption.
Qed.

Lemma safeq_bind2 {A B} (I1 I : storage -> Prop) (Q : A -> storage -> Prop) (Q' : B -> storage -> Prop)
      (p : prog A) (g : A -> prog B) :
  forall st,
    I1 st -> safeq I1 Q p st -> (forall s, I1 s -> I s) ->
    (forall a st', I1 st' -> Q a st' -> safeq I Q' (g a) st') ->
    safeq I Q' (pbind p g) st.
Proof.
  induction p as [a|c cont IH]; intros st H1 Hp HII Hg; cbn [pbind safeq].
  - cbn [safeq] in Hp. apply Hg; assumption.
  - cbn [safeq] in Hp. destruct Hp as (A1 & A2 & A3 & A4 & A5). repeat split; auto.
Qed.

(** the key an operation on a key ring object is told to write *)
Definition wop_key (o : wop) : option Z :=
  match o with WSetState s _ | WDestroy s => Some s | _ => None end.

Lemma prepare_targets h o txs s0 :
  prepare h o = Ok (txs, s0) -> forall t s, In t txs -> tx_target t = Some s -> wop_key o = Some s.
Proof.
  intro Hp. destruct o as [ord|s1|s1 st1|s1]; cbn [prepare] in Hp.
  - inversion Hp; subst. intros t s [<-|[]]; discriminate.
  - inversion Hp; subst. intros t s [<-|[]]; discriminate.
  - destruct (key_with_seqnum (h_data h) s1); [|discriminate]. destruct (negb _); [discriminate|].
    inversion Hp; subst. intros t s [<-|[]] Ht; exact Ht.
  - destruct (key_with_seqnum (h_data h) s1); [|discriminate]. destruct (negb _); [discriminate|].
    inversion Hp; subst. intros t s [<-|[<-|[]]] Ht; exact Ht.
Qed.

(** a ring-level operation on a (possibly stale) object *)
Lemma ring_op_evolvesT st h o txs s st' :
  wf st -> snap_ok h st -> prepare h o = Ok (txs, s) ->
  step_inv (h_path h) (upd_P st (h_path h) txs) st st' ->
  evolvesT (h_path h) (fun k => wop_key o = Some k) st st'.
Proof.
  intros Hwf [Hc Hlen] Hp Hst. eapply step_evolvesT; [exact Hwf | | | exact Hst].
  - intros t k Hin Ht. eapply prepare_targets; eassumption.
  - intros r Hr. exact (proj1 (prepare_pre h o txs s _ Hc (Hlen r Hr) Hp)).
Qed.

(** destroy current: open (creates a missing ring), CurrentKey, DestroyKey *)
Definition cur_of (st : storage) (rid : N) (s : Z) : Prop :=
  exists r, stored_ring st rid = Some r /\ r_cur r = s.

Theorem destroy_current_safe rid st :
  wf st -> safeq (evolvesT rid (cur_of st rid) st) (fun _ _ => True) (destroy_current rid) st.
Proof.
  intro Hwf. unfold destroy_current.
  eapply safeq_bind2 with (I1 := step_inv rid (open_P st rid) st) (Q := sync_post rid);
    [apply step_inv_refl; exact Hwf | apply open_safe; exact Hwf | |].
  - intros s Hs. apply evolves_evolvesT. apply open_evolves; assumption.
  - intros [res h] st1 HI1 HQ. unfold sync_post in HQ. cbn [fst snd] in *.
    destruct res; cbn [safeq]; try exact I. destruct HQ as (Hp & Hlog & Hs).
    pose proof HI1 as (Hwf1 & Hoth1 & Hthis1).
    assert (Hev1 : evolvesT rid (cur_of st rid) st st1) by (apply evolves_evolvesT, open_evolves; assumption).
    unfold current_key. destruct (Z.eqb_spec (r_cur (h_data h)) KSW_NO_KEY) as [E|E]; cbn [safeq]; [exact I|].
    destruct (prepare h (WDestroy (r_cur (h_data h)))) as [[txs s0]|e|] eqn:Eprep.
    + eapply safeq_bind with (Q := fun _ _ => True); [exact Hev1 | | intros; exact I].
      eapply safeq_weaken; [intros; exact I|].
      pose proof (sync_snap_ok st1 h rid Hwf1 Hp Hs) as Hsnap. subst rid.
      eapply safeq_mono_inv; [|eapply ring_op_safe; eassumption].
      intros s2 Hs2. eapply evolvesT_trans; [exact Hev1|].
      pose proof (ring_op_evolvesT st1 h _ txs s0 s2 Hwf1 Hsnap Eprep Hs2) as Hev2.
      destruct Hev2 as (W & O & R). split; [exact W|]. split; [exact O|].
      intros r Hr. destruct (R r Hr) as (r' & Hs' & He & Hv). exists r'. split; [exact Hs'|]. split; [exact He|].
      intros k v Hn. apply Hv. intro Hk. cbn [wop_key] in Hk. inversion Hk; subst k. apply Hn.
      (* the current key of the ring at the start *)
      destruct Hthis1 as [Heq|(r1 & Hl1 & (Hnone & ->))].
      * exists (h_data h). split; [|reflexivity]. unfold stored_ring in *. rewrite <- Heq. exact Hs.
      * apply stored_ring_lookup in Hs. rewrite Hl1 in Hs. inversion Hs as [Hd]. rewrite <- Hd in E. 
        exfalso. apply E. reflexivity.
    + unfold ring_op. rewrite Eprep. cbn [pbind safeq]. exact I.
    + unfold ring_op. rewrite Eprep. cbn [pbind safeq]. exact I.
Qed.

(** * The directory back end's open protocol under faults *)
Fixpoint osafe {A} (I : dmeta -> Prop) (Q : A -> dmeta -> Prop) (p : oprog A) (m : dmeta) : Prop :=
  match p with
  | ODone a => Q a m
  | OCall c k =>
      I (snd (do_ocall c m)) /\ I (torn_ocall c m) /\
      osafe I Q (k (fst (do_ocall c m))) (snd (do_ocall c m)) /\
      osafe I Q (k (Err E_IO)) m /\
      osafe I Q (k (Err E_IO)) (torn_ocall c m)
  end.

Lemma oexec_osafe {A} (I : dmeta -> Prop) (Q : A -> dmeta -> Prop) (p : oprog A) :
  forall fs m k, I m -> osafe I Q p m ->
    match oexec p fs m k with
    | (Some a, m') => I m' /\ Q a m'
    | (None, m') => I m'
    end.
Proof.
  induction p as [a|c cont IH]; intros fs m k HI Hs; cbn [oexec].
  - split; assumption.
  - cbn [osafe] in Hs. destruct Hs as (H1 & H2 & H3 & H4 & H5).
    destruct (fault_at k fs) as [[| | | |]|]; try (apply IH; assumption); assumption.
Qed.

(** the version file never holds foreign content, and a complete version file stays complete *)
Definition dm_good (m : dmeta) : Prop := dm_version m <> Some VOther.
Definition dm_inv (m0 m : dmeta) : Prop :=
  dm_good m /\ (dm_version m0 = Some VFull -> dm_version m = Some VFull).

Lemma open_rw_fixed_osafe m :
  dm_good m -> osafe (dm_inv m) (fun _ _ => True) (open_dir_rw true) m.
Proof.
  unfold dm_good, dm_inv. destruct m as [root [[| |]|] tmps lock]; destruct root; cbn; intro H;
    try (exfalso; apply H; reflexivity);
    repeat split; try discriminate; try reflexivity; auto.
Qed.

Theorem open_rw_fixed_safe m fs :
  dm_good m -> dm_inv m (snd (oexec (open_dir_rw true) fs m 0)).
Proof.
  intro H. assert (HI : dm_inv m m) by (split; [exact H|auto]).
  pose proof (oexec_osafe (dm_inv m) (fun _ _ => True) (open_dir_rw true) fs m 0 HI (open_rw_fixed_osafe m H)) as Hx.
  destruct (oexec (open_dir_rw true) fs m 0) as [[a|] m']; cbn [snd]; tauto.
Qed.

Lemma open_ro_osafe m :
  dm_good m -> osafe (dm_inv m) (fun _ _ => True) open_dir_ro m.
Proof.
  unfold dm_good, dm_inv. destruct m as [root [[| |]|] tmps lock]; destruct root; cbn; intro H;
    try (exfalso; apply H; reflexivity);
    repeat split; try discriminate; try reflexivity; auto.
Qed.

(** after whatever happened, a fault-free read-write open succeeds and leaves a complete version file *)
Theorem open_rw_fixed_recovers m :
  dm_good m ->
  exists m', oexec (open_dir_rw true) [] m 0 = (Some (Ok tt), m') /\
             dm_root m' = true /\ dm_version m' = Some VFull /\ dm_lock m' = true.
Proof.
  unfold dm_good. destruct m as [root [[| |]|] tmps lock]; destruct root; cbn; intro H;
    try (exfalso; apply H; reflexivity); eexists; repeat split.
Qed.

(** the ORIGINAL createVersionFile: a crash right after the exclusive create (or a failed write)
    leaves a version file that makes every later open fail, read-write or read-only, for ever *)
Definition dm_stuck : dmeta := snd (oexec (open_dir_rw false) [(3%nat, KCrashAfter)] dm_empty 0).

Theorem open_unfixed_stuck :
  dm_version dm_stuck = Some VPart /\
  oexec (open_dir_rw false) [] dm_stuck 0 = (Some (Err E_BADVERSION), dm_stuck) /\
  oexec open_dir_ro [] dm_stuck 0 = (Some (Err E_BADVERSION), dm_stuck) /\
  snd (oexec (open_dir_rw false) [(4%nat, KErr)] dm_empty 0) = dm_stuck /\
  (exists m', oexec (open_dir_rw true) [] dm_stuck 0 = (Some (Ok tt), m') /\ dm_version m' = Some VFull).
Proof. vm_compute. repeat split. eexists. split; reflexivity. Qed.

(** * One operation with any fault schedule *)
Definition rop_pre (st : storage) (o : rop) : Prop :=
  match o with
  | RRing h _ => h_log h = [] /\ snap_ok h st
  | RImport l _ => Forall (fun p => ring_ok (snd p)) l
  | _ => True
  end.

Definition rop_after (st : storage) (o : rop) (fs : fsched) : storage :=
  after_m (execm (rop_prog o) fs st 0).

(** rings the operation may replace / keys it is told to write *)
Definition rop_rt (o : rop) (x : N) : Prop :=
  match o with RImport l _ => In x (map fst l) | _ => False end.
Definition rop_kt (st : storage) (o : rop) (x : N) (s : Z) : Prop :=
  match o with
  | RRing h w => x = h_path h /\ wop_key w = Some s
  | RDestroyCur rid => x = rid /\ cur_of st rid s
  | _ => False
  end.

Lemma safeq_discard {A} (J : storage -> Prop) (Q : A -> storage -> Prop) (p : prog A) st :
  J st -> safeq J Q p st -> safeq J (fun _ _ => True) (exe _ <- p; Done tt) st.
Proof. intros HI Hp. eapply safeq_bind; [exact HI | exact Hp | intros; exact I]. Qed.

Lemma imp_inv_keeps l st0 st :
  imp_inv l st0 st -> keeps (fun x => In x (map fst l)) (fun _ _ => False) st0 st.
Proof.
  intros [Hwf Hall]. split; [exact Hwf|]. intros rid r Hr.
  destruct (Hall rid) as [Heq|(r' & Hl & HP)].
  - exists r. split; [unfold stored_ring in *; rewrite Heq; exact Hr|]. intros _.
    split; [exists []; rewrite app_nil_r; reflexivity|auto].
  - exists r'. split; [apply stored_ring_lookup; exact Hl|]. intro Hn. exfalso.
    destruct HP as [[Hnone _]|Hin].
    + apply stored_ring_lookup in Hr. congruence.
    + apply Hn. change rid with (fst (rid, r')). apply in_map. exact Hin.
Qed.

Theorem rop_keeps st o fs :
  wf st -> rop_pre st o -> keeps (rop_rt o) (rop_kt st o) st (rop_after st o fs).
Proof.
  intros Hwf Hpre. unfold rop_after. destruct o as [rid|h w|rid ord|rid|l d|]; cbn [rop_prog rop_rt rop_kt].
  - (* open *)
    eapply keeps_weaken; [| |apply (evolvesT_keeps rid (fun _ => False))]; [tauto | cbn; tauto |].
    apply evolves_evolvesT. apply open_evolves; [exact Hwf|].
    eapply execm_safe; [apply step_inv_refl; exact Hwf|].
    eapply safeq_discard; [apply step_inv_refl; exact Hwf | apply open_safe; exact Hwf].
  - (* ring-level operation on a possibly stale object *)
    destruct Hpre as [Hlog Hsnap].
    destruct (prepare h w) as [[txs s]|e|] eqn:Ep.
    + eapply keeps_weaken; [| |apply (evolvesT_keeps (h_path h) (fun k => wop_key w = Some k))]; [tauto | cbn; tauto |].
      eapply ring_op_evolvesT; [exact Hwf | exact Hsnap | exact Ep |].
      eapply execm_safe; [apply step_inv_refl; exact Hwf|].
      eapply safeq_discard; [apply step_inv_refl; exact Hwf | eapply ring_op_safe; eassumption].
    + unfold ring_op. rewrite Ep. cbn [pbind execm after_m]. apply keeps_refl. exact Hwf.
    + unfold ring_op. rewrite Ep. cbn [pbind execm after_m]. apply keeps_refl. exact Hwf.
  - (* generate / import a key / save a key pair *)
    eapply keeps_weaken; [| |apply (evolvesT_keeps rid (fun _ => False))]; [tauto | cbn; tauto |].
    apply evolves_evolvesT.
    eapply execm_safe; [apply evolves_refl; exact Hwf|].
    eapply safeq_discard; [apply evolves_refl; exact Hwf | apply gen_key_safe; exact Hwf].
  - (* destroy current *)
    eapply keeps_weaken; [| |apply (evolvesT_keeps rid (cur_of st rid))]; [tauto | cbn; tauto |].
    eapply execm_safe; [apply evolvesT_refl; exact Hwf|].
    eapply safeq_discard; [apply evolvesT_refl; exact Hwf | apply destroy_current_safe; exact Hwf].
  - (* import of key rings *)
    apply imp_inv_keeps.
    eapply execm_safe; [apply imp_inv_refl; exact Hwf|].
    eapply safeq_discard; [apply imp_inv_refl; exact Hwf|].
    apply import_rings_safe; [apply imp_inv_refl; exact Hwf | apply incl_refl | exact Hpre].
  - (* listing *)
    assert (E : after_m (execm (exe _ <- list_keys; Done tt) fs st 0) = st).
    { eapply (execm_safe (fun s => s = st)); [reflexivity|].
      eapply safeq_discard; [reflexivity | apply ro_safe, ro_list_keys]. }
    rewrite E. apply keeps_refl. exact Hwf.
Qed.

(** * Histories: operations with fault schedules, and re-opening the store (itself with faults) *)
Inductive hstep :=
| HOp (o : rop) (fs : fsched)
| HReopen (fs : fsched).         (* a new process opens the directory; may itself fail or die *)

Definition hstate := (dmeta * storage)%type.

Definition hstep_run (ms : hstate) (x : hstep) : hstate :=
  match x with
  | HOp o fs => (fst ms, rop_after (snd ms) o fs)
  | HReopen fs => (snd (oexec (open_dir_rw true) fs (fst ms) 0), snd ms)
  end.

Definition hist_run (ms : hstate) (h : list hstep) : hstate := fold_left hstep_run h ms.

Fixpoint hist_pre (st : storage) (h : list hstep) : Prop :=
  match h with
  | [] => True
  | HOp o fs :: t => rop_pre st o /\ hist_pre (rop_after st o fs) t
  | HReopen _ :: t => hist_pre st t
  end.

Fixpoint hist_rt (h : list hstep) (x : N) : Prop :=
  match h with
  | [] => False
  | HOp o _ :: t => rop_rt o x \/ hist_rt t x
  | HReopen _ :: t => hist_rt t x
  end.

Fixpoint hist_kt (st : storage) (h : list hstep) (x : N) (s : Z) : Prop :=
  match h with
  | [] => False
  | HOp o fs :: t => rop_kt st o x s \/ hist_kt (rop_after st o fs) t x s
  | HReopen _ :: t => hist_kt st t x s
  end.

Theorem history_keeps : forall h m st,
  wf st -> dm_good m -> hist_pre st h ->
  keeps (hist_rt h) (hist_kt st h) st (snd (hist_run (m, st) h)) /\
  dm_good (fst (hist_run (m, st) h)) /\
  (dm_version m = Some VFull -> dm_version (fst (hist_run (m, st) h)) = Some VFull).
Proof.
  induction h as [|x h IH]; intros m st Hwf Hm Hpre; cbn [hist_run fold_left fst snd].
  - split; [apply keeps_refl; exact Hwf|]. split; [exact Hm|auto].
  - destruct x as [o fs|fs]; cbn [hstep_run fst snd hist_pre hist_rt hist_kt] in *.
    + destruct Hpre as [Hp1 Hp2].
      pose proof (rop_keeps st o fs Hwf Hp1) as K1.
      destruct (IH m (rop_after st o fs) (proj1 K1) Hm Hp2) as (K2 & G & V).
      split; [|split; assumption].
      exact (keeps_trans _ _ _ _ _ _ _ K1 K2).
    + destruct (open_rw_fixed_safe m fs Hm) as [G1 V1].
      destruct (IH (snd (oexec (open_dir_rw true) fs m 0)) st Hwf G1 Hpre) as (K2 & G & V).
      split; [exact K2|]. split; [exact G|]. intro Hv. apply V, V1, Hv.
Qed.

(** * The composite "generate" leaves the ring in one of FOUR states, whatever fails *)
Definition gen_r0 (st : storage) (rid : N) : ring :=
  match stored_ring st rid with Some r => r | None => empty_ring end.
Definition gen_key_ent (st : storage) (rid ord : N) : kent :=
  mk_kent (next_seqnum (gen_r0 st rid)) KSW_PREACTIVE ord.
Definition gen_r1 (st : storage) (rid ord : N) : ring :=
  mk_ring (r_keys (gen_r0 st rid) ++ [gen_key_ent st rid ord]) (r_cur (gen_r0 st rid)).
Definition gen_r2 (st : storage) (rid ord : N) : ring :=
  mk_ring (r_keys (gen_r1 st rid ord)) (next_seqnum (gen_r0 st rid)).
(** the ring file: (created) without the new key | with the key, not current | with the key current *)
Definition gen_P (st : storage) (rid ord : N) (r' : ring) : Prop :=
  r' = gen_r0 st rid \/ r' = gen_r1 st rid ord \/ r' = gen_r2 st rid ord.

Lemma upd_P_add st rid k r r' :
  stored_ring st rid = Some r -> upd_P st rid [TxAddKey k] r' -> r' = mk_ring (r_keys r ++ [k]) (r_cur r).
Proof.
  intros Hs (r0 & log & ap & Hs0 & Hap). rewrite Hs in Hs0. inversion Hs0; subst r0.
  cbn [apply_pending apply_tx] in Hap. destruct (key_with_seqnum r (k_seq k)); inversion Hap; reflexivity.
Qed.

Lemma upd_P_setcur st rid old new r r' :
  stored_ring st rid = Some r -> upd_P st rid [TxSetCurrent old new] r' -> r' = mk_ring (r_keys r) new.
Proof.
  intros Hs (r0 & log & ap & Hs0 & Hap). rewrite Hs in Hs0. inversion Hs0; subst r0.
  cbn [apply_pending apply_tx] in Hap.
  destruct (negb (r_cur r =? old)); [inversion Hap|].
  destruct (negb (old =? KSW_NO_KEY) && _); [inversion Hap|].
  destruct (key_with_seqnum r new); inversion Hap; reflexivity.
Qed.

Theorem gen_key_states rid ord st :
  wf st -> safeq (step_inv rid (gen_P st rid ord) st) (fun _ _ => True) (gen_key rid ord) st.
Proof.
  intro Hwf. unfold gen_key.
  eapply safeq_bind2 with (I1 := step_inv rid (open_P st rid) st) (Q := sync_post rid);
    [apply step_inv_refl; exact Hwf | apply open_safe; exact Hwf | |].
  - intros s Hs. eapply step_inv_mono; [|exact Hs]. intros r [Hn ->]. left.
    unfold gen_r0, stored_ring. rewrite Hn. reflexivity.
  - intros [res h] st1 HI1 HQ. unfold sync_post in HQ. cbn [fst snd] in *.
    destruct res; cbn [safeq]; try exact I. destruct HQ as (Hp & Hlog & Hs).
    pose proof HI1 as (Hwf1 & Hoth1 & Hthis1).
    (* the object shows r0 *)
    assert (Hd : h_data h = gen_r0 st rid).
    { unfold gen_r0. destruct Hthis1 as [Heq|(r1 & Hl1 & (Hnone & ->))].
      - unfold stored_ring in *. rewrite <- Heq. rewrite Hs. reflexivity.
      - apply stored_ring_lookup in Hs. rewrite Hl1 in Hs. inversion Hs as [Hd].
        unfold stored_ring. rewrite Hnone. reflexivity. }
    pose proof (sync_snap_ok st1 h rid Hwf1 Hp Hs) as Hsnap1.
    assert (Hprep1 : prepare h (WAdd ord) = Ok ([TxAddKey (gen_key_ent st rid ord)], next_seqnum (gen_r0 st rid))).
    { cbn [prepare]. unfold gen_key_ent. rewrite Hd. reflexivity. }
    assert (Hlk1 : lookup (FRing rid) st1 = lookup (FRing rid) st \/ lookup (FRing rid) st1 = Some (CRing true (gen_r0 st rid))).
    { destruct Hthis1 as [Heq|(r1 & Hl1 & (Hnone & ->))]; [left; exact Heq|right].
      rewrite Hl1. unfold gen_r0, stored_ring. rewrite Hnone. reflexivity. }
    eapply safeq_bind2 with (I1 := step_inv rid (upd_P st1 rid [TxAddKey (gen_key_ent st rid ord)]) st1)
                            (Q := fun ra st' => op_post2 st1 h [TxAddKey (gen_key_ent st rid ord)] ra st' /\
                                                (forall v, fst ra = Ok v -> v = next_seqnum (gen_r0 st rid)));
      [apply step_inv_refl; exact Hwf1 | subst rid; eapply ring_op_safe2; eassumption | |].
    + (* stage 2 states *)
      intros s (Hw2 & Ho2 & Ht2). split; [exact Hw2|]. split; [intros x Hx; rewrite Ho2, Hoth1 by exact Hx; reflexivity|].
      destruct Ht2 as [Heq|(r' & Hl & HP)].
      * rewrite Heq. destruct Hlk1 as [E|E]; [left; exact E|right]. exists (gen_r0 st rid). split; [exact E|left; reflexivity].
      * right. exists r'. split; [exact Hl|]. right. left.
        rewrite (upd_P_add st1 rid _ _ r' Hs HP), Hd. reflexivity.
    + intros [res2 h2] st2 HI2 [HQ2 Hval]. unfold op_post2 in HQ2. cbn [fst snd] in *.
      destruct res2 as [s2| |]; cbn [safeq]; try exact I.
      specialize (Hval s2 eq_refl). subst s2.
      destruct HQ2 as (Hp2 & Hlog2 & Hs2 & HP2). rewrite Hp in Hp2, Hs2, HP2.
      pose proof HI2 as (Hwf2 & Hoth2 & _).
      assert (Hd2 : h_data h2 = gen_r1 st rid ord).
      { rewrite (upd_P_add st1 rid _ _ _ Hs HP2), Hd. reflexivity. }
      pose proof (sync_snap_ok st2 h2 rid Hwf2 Hp2 Hs2) as Hsnap2.
      eapply safeq_bind with (Q := fun _ _ => True); [ | | intros; exact I].
      * split; [exact Hwf2|]. split; [intros x Hx; rewrite Hoth2, Hoth1 by exact Hx; reflexivity|].
        right. exists (gen_r1 st rid ord). split; [apply stored_ring_lookup; rewrite Hs2, Hd2; reflexivity|right; left; reflexivity].
      * eapply safeq_weaken; [intros; exact I|].
        assert (Hprep3 : prepare h2 (WSetCurrent (next_seqnum (gen_r0 st rid))) = Ok ([TxSetCurrent (r_cur (h_data h2)) (next_seqnum (gen_r0 st rid))], next_seqnum (gen_r0 st rid))) by reflexivity.
        eapply safeq_mono_inv; [|subst rid; eapply ring_op_safe; try eassumption].
        intros s (Hw3 & Ho3 & Ht3). rewrite Hp2 in *. split; [exact Hw3|].
        split; [intros x Hx; rewrite Ho3, Hoth2, Hoth1 by exact Hx; reflexivity|].
        right. destruct Ht3 as [Heq|(r' & Hl & HP)].
        -- exists (gen_r1 st rid ord). split; [rewrite Heq; apply stored_ring_lookup; rewrite Hs2, Hd2; reflexivity|right; left; reflexivity].
        -- exists r'. split; [exact Hl|]. right. right.
           rewrite (upd_P_setcur st2 rid _ _ _ r' Hs2 HP), Hd2. unfold gen_r2.
           rewrite ?Hp. reflexivity.
Qed.

Theorem gen_key_multi rid ord st fs :
  wf st -> step_inv rid (gen_P st rid ord) st (after_m (execm (gen_key rid ord) fs st 0)).
Proof.
  intro Hwf. eapply execm_safe; [apply step_inv_refl; exact Hwf | apply gen_key_states; exact Hwf].
Qed.

(** * Leftover temporaries are harmless *)

(** well-formedness looks at ring files only: any set of leftover "<ring>.keyring.new" files, with any
    content, is allowed by every theorem that assumes [wf] *)
Lemma wf_ring_files st st' :
  (forall x, lookup (FRing x) st' = lookup (FRing x) st) -> wf st -> wf st'.
Proof. intros He Hwf x c Hl. rewrite He in Hl. apply Hwf in Hl. exact Hl. Qed.

Lemma wf_put_temp st n c : wf st -> wf (put (FRingNew n) c st).
Proof. apply wf_ring_files. intro x. apply lk_put_new. Qed.

(** whenever the write of a ring file reports success - whatever faults happened on the way, and
    whatever temporary was lying around - the ring file is the new ring and no temporary is left *)
Lemma push_cleans rid r' st :
  safeq (fun _ => True)
        (fun (w : res unit) st' => w = Ok tt ->
           lookup (FRing rid) st' = Some (CRing true r') /\ lookup (FRingNew rid) st' = None)
        (push rid r') st.
Proof.
  assert (HN : forall S c, lookup (FRingNew rid) (put (FRing rid) c (remove (FRingNew rid) S)) = None).
  { intros S c. rewrite lookup_put, lookup_remove. cbn [fname_eqb]. rewrite N.eqb_refl. reflexivity. }
  assert (HR : forall S c, lookup (FRing rid) (put (FRing rid) c (remove (FRingNew rid) S)) = Some c).
  { intros S c. rewrite lookup_put, fname_eqb_refl. reflexivity. }
  unfold push, call. cbn [pbind safeq do_call torn_call tear].
  destruct (lookup (FRingNew rid) st) as [c0|] eqn:En; cbn [fst snd].
  - change (E_EXIST =? E_EXIST)%N with true. change (E_IO =? E_EXIST)%N with false.
    cbn [pbind safeq do_call torn_call]. rewrite En. cbn [fst snd pbind safeq do_call torn_call tear].
    rewrite !lk_new_remove. cbn [fst snd pbind safeq do_call torn_call err_of].
    rewrite !lk_new_put. cbn [fst snd pbind safeq do_call torn_call err_of].
    repeat split; try exact I; try (match goal with H : _ = Ok tt |- _ => discriminate H end); first [apply HR | apply HN].
  - change (E_IO =? E_EXIST)%N with false. cbn [pbind safeq do_call torn_call]. rewrite ?En.
    cbn [fst snd pbind safeq do_call torn_call tear err_of].
    rewrite !lk_new_put. cbn [fst snd pbind safeq do_call torn_call err_of].
    repeat split; try exact I; try (match goal with H : _ = Ok tt |- _ => discriminate H end); first [apply HR | apply HN].
Qed.

Theorem push_multi_cleans rid r' st fs k :
  match execm (push rid r') fs st k with
  | Ret (Ok _) st' _ => lookup (FRing rid) st' = Some (CRing true r') /\ lookup (FRingNew rid) st' = None
  | _ => True
  end.
Proof.
  pose proof (execm_safeq (fun _ => True) _ (push rid r') fs st k I (push_cleans rid r' st)) as H.
  destruct (execm (push rid r') fs st k) as [[[]| |] st' k'|st']; try exact I. apply H. reflexivity.
Qed.

(** * Concrete instances (non-vacuity) *)
Definition ex_imp_ring : ring := mk_ring [mk_kent 1 1 9; mk_kent 2 KSW_PREACTIVE 10] 1.

Lemma ex_imp_ring_ok : ring_ok ex_imp_ring.
Proof. split; [reflexivity | right; eexists; reflexivity]. Qed.

(** a history on [ex_st] (ring 1 with two keys and a stale torn temporary): a generate dies after the
    Put of its AddKey; the reopen dies while writing the version file; a second reopen; an import of
    two rings (overwrite) whose first Put fails and whose Unlock fails too; destroy current of ring 1 *)
Definition ex_hist : list hstep :=
  [ HOp (RGen 1 7) [(7%nat, KCrashAfter)];
    HReopen [(4%nat, KTorn)];
    HReopen [];
    HOp (RImport [(2%N, ex_imp_ring); (1%N, ex_imp_ring)] DOverwrite) [(9%nat, KErrTorn); (10%nat, KErr)];
    HOp (RDestroyCur 1) [(5%nat, KErr); (9%nat, KCrashBefore)] ].
