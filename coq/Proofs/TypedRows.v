(** C19 proofs, row level: the result-format rule of the extended protocol as the proxy implements it, and the
    column loop of handleQueryDataPacket: every cell of a delivered row is the per-cell outcome (Model/Typed.v
    [pg_cell], Proofs/Typed.v decision table) under the format the rule assigns to ITS column. *)
From Acra Require Import Lib.Bytes Lib.Outcome Gen.TypedConsts Gen.TypedRowsConsts Model.Typed Model.TypedRows
  Proofs.TypedInt Proofs.Typed.
From Coq Require Import ZifyN ZifyNat ZifyBool.
Local Open Scope N_scope.

(** * Specification: PostgreSQL's rule for the result-format codes of a Bind message
    ("zero: all result columns use text; one: the code applies to all result columns; or the number of result
    columns"; codes: 0 = text, 1 = binary).  [None] = simple protocol (no Bind): text.
    [pg_result_binary fmts i = None]: the codes assign no format to column [i]. *)
Definition code_binary (c : N) : option bool :=
  if c =? 0 then Some false else if c =? 1 then Some true else None.

Definition pg_result_binary (fmts : option (list N)) (i : nat) : option bool :=
  match fmts with
  | None => Some false
  | Some [] => Some false
  | Some [c] => code_binary c
  | Some codes => match nth_error codes i with Some c => code_binary c | None => None end
  end.

(** the error GetParameterFormatByIndex reports when the codes assign no format *)
Definition pg_format_error (codes : list N) (i : nat) : N :=
  match codes with
  | _ :: _ :: _ => match nth_error codes i with None => E_NOT_ENOUGH_FORMATS | Some _ => E_UNKNOWN_FORMAT end
  | _ => E_UNKNOWN_FORMAT
  end.

Definition fmt_of (b : bool) : N := if b then DATA_FORMAT_BINARY else DATA_FORMAT_TEXT.

(** the generated constants are the ones of the protocol, and BoundValueFormat / dataFormat* agree *)
Lemma format_consts :
  BIND_FORMAT_TEXT = 0 /\ BIND_FORMAT_BINARY = 1 /\ BOUND_TEXT = DATA_FORMAT_TEXT /\ BOUND_BINARY = DATA_FORMAT_BINARY /\
  (DATA_FORMAT_TEXT =? DATA_FORMAT_BINARY) = false /\ EMPTY_SETTING_BINOP = true.
Proof. repeat split; reflexivity. Qed.

Lemma fmt_of_binary b : (fmt_of b =? DATA_FORMAT_BINARY) = b.
Proof. destruct b; reflexivity. Qed.

Lemma code_format (c : N) :
  (if c =? BIND_FORMAT_TEXT then Ok BOUND_TEXT
   else if c =? BIND_FORMAT_BINARY then Ok BOUND_BINARY else Err E_UNKNOWN_FORMAT)
  = match code_binary c with Some b => Ok (fmt_of b) | None => Err E_UNKNOWN_FORMAT end.
Proof.
  unfold code_binary. change BIND_FORMAT_TEXT with 0. change BIND_FORMAT_BINARY with 1.
  destruct (c =? 0); [reflexivity|]. destruct (c =? 1); reflexivity.
Qed.

(** GetParameterFormatByIndex IS the rule *)
Lemma format_by_index_spec (i : nat) (codes : list N) :
  format_by_index i codes =
  match pg_result_binary (Some codes) i with
  | Some b => Ok (fmt_of b)
  | None => Err (pg_format_error codes i)
  end.
Proof.
  destruct codes as [|c0 [|c1 r]].
  - reflexivity.
  - unfold format_by_index. cbn [Outcome.bind]. rewrite code_format.
    cbn [pg_result_binary pg_format_error]. destruct (code_binary c0); reflexivity.
  - unfold format_by_index. cbn [pg_result_binary pg_format_error].
    destruct (nth_error (c0 :: c1 :: r) i) as [c|]; cbn [Outcome.bind]; [|reflexivity].
    rewrite code_format. destruct (code_binary c); reflexivity.
Qed.

(** the format the column loop takes for column [k] *)
Definition loop_format (fmts : option (list N)) (k : nat) : res N :=
  match fmts with Some codes => format_by_index k codes | None => Ok DATA_FORMAT_TEXT end.

Lemma loop_format_spec fmts k f :
  loop_format fmts k = Ok f -> pg_result_binary fmts k = Some (f =? DATA_FORMAT_BINARY).
Proof.
  destruct fmts as [codes|]; cbn [loop_format].
  - rewrite format_by_index_spec. destruct (pg_result_binary (Some codes) k) as [b|]; [|discriminate].
    intros H. inversion H. rewrite fmt_of_binary. reflexivity.
  - intros H. inversion H. reflexivity.
Qed.

Lemma loop_format_err fmts k e :
  loop_format fmts k = Err e -> pg_result_binary fmts k = None /\ (e = E_NOT_ENOUGH_FORMATS \/ e = E_UNKNOWN_FORMAT).
Proof.
  destruct fmts as [codes|]; cbn [loop_format]; [|discriminate].
  rewrite format_by_index_spec. destruct (pg_result_binary (Some codes) k) as [b|]; [discriminate|].
  intros H. inversion H. split; [reflexivity|].
  unfold pg_format_error. destruct codes as [|c0 [|c1 r]]; auto. destruct (nth_error (c0 :: c1 :: r) k); auto.
Qed.

Lemma loop_format_no_panic fmts k : loop_format fmts k <> Panic.
Proof.
  destruct fmts as [codes|]; cbn [loop_format]; [|discriminate].
  rewrite format_by_index_spec. destruct (pg_result_binary (Some codes) k); discriminate.
Qed.

(** * The column loop *)

(** what [row_cells] says about column [j] of the row it delivers *)
Definition cell_ok (fmts : option (list N)) (reveal : nat -> bytes -> option bytes) (i : nat) (c : column)
  (o : option (option bytes)) : Prop :=
  match col_cell c with
  | None => o = Some None
  | Some data =>
      exists (b : bool) (v : bytes),
        pg_result_binary fmts i = Some b /\
        pg_cell (setting_or_empty (col_setting c)) b (reveal i) data = Ok v /\
        o = Some (Some v)
  end.

Lemma row_cells_unfold fmts reveal k c rest :
  row_cells fmts reveal k (c :: rest) =
  match col_cell c with
  | None => do tl <- row_cells fmts reveal (S k) rest; Ok (None :: tl)
  | Some data =>
      do f <- loop_format fmts k;
      do v <- pg_cell (setting_or_empty (col_setting c)) (f =? DATA_FORMAT_BINARY) (reveal k) data;
      do tl <- row_cells fmts reveal (S k) rest;
      Ok (Some v :: tl)
  end.
Proof. reflexivity. Qed.

Lemma row_cells_spec fmts reveal : forall (cols : list column) (k : nat) (out : list (option bytes)),
  row_cells fmts reveal k cols = Ok out ->
  length out = length cols /\
  forall (j : nat) (c : column), nth_error cols j = Some c -> cell_ok fmts reveal (k + j) c (nth_error out j).
Proof.
  induction cols as [|a cols IH]; intros k out H.
  - cbn in H. inversion H. split; [reflexivity|]. intros j c Hj. destruct j; discriminate.
  - rewrite row_cells_unfold in H. destruct (col_cell a) as [data|] eqn:Hc.
    + destruct (loop_format fmts k) as [f| |] eqn:Hf; cbn [Outcome.bind] in H; try discriminate.
      destruct (pg_cell (setting_or_empty (col_setting a)) (f =? DATA_FORMAT_BINARY) (reveal k) data) as [v| |] eqn:Hp;
        cbn [Outcome.bind] in H; try discriminate.
      destruct (row_cells fmts reveal (S k) cols) as [tl| |] eqn:Hr; cbn [Outcome.bind] in H; try discriminate.
      inversion H; subst out. destruct (IH (S k) tl Hr) as [Hl Hn].
      split; [cbn [length]; rewrite Hl; reflexivity|].
      intros j c Hj. destruct j as [|j].
      * cbn in Hj. inversion Hj; subst c. unfold cell_ok. rewrite Hc. rewrite Nat.add_0_r.
        exists (f =? DATA_FORMAT_BINARY), v. split; [apply loop_format_spec; exact Hf|]. split; [exact Hp|reflexivity].
      * cbn in Hj. replace (k + S j)%nat with (S k + j)%nat by lia. cbn [nth_error]. apply Hn. exact Hj.
    + destruct (row_cells fmts reveal (S k) cols) as [tl| |] eqn:Hr; cbn [Outcome.bind] in H; try discriminate.
      inversion H; subst out. destruct (IH (S k) tl Hr) as [Hl Hn].
      split; [cbn [length]; rewrite Hl; reflexivity|].
      intros j c Hj. destruct j as [|j].
      * cbn in Hj. inversion Hj; subst c. unfold cell_ok. rewrite Hc. reflexivity.
      * cbn in Hj. replace (k + S j)%nat with (S k + j)%nat by lia. cbn [nth_error]. apply Hn. exact Hj.
Qed.

Lemma handle_data_row_cells fmts reveal cols out :
  handle_data_row fmts reveal cols = Ok out -> row_cells fmts reveal 0 cols = Ok out.
Proof.
  unfold handle_data_row.
  destruct (match fmts with Some codes => get_result_formats codes | None => Ok [BOUND_TEXT] end) as [cf| |];
    cbn [Outcome.bind]; try discriminate.
  destruct (parse_formats 0 cols cf) as [u| |]; cbn [Outcome.bind]; try discriminate. auto.
Qed.

(** every cell of a delivered row: NULL stays NULL, any other cell is its own per-cell outcome under the
    format the protocol rule gives to ITS column; the row has as many cells as the database sent *)
Theorem rows_cellwise fmts reveal cols out :
  handle_data_row fmts reveal cols = Ok out ->
  length out = length cols /\
  forall (i : nat) (c : column), nth_error cols i = Some c -> cell_ok fmts reveal i c (nth_error out i).
Proof.
  intros H. apply handle_data_row_cells in H. destruct (row_cells_spec fmts reveal cols 0 out H) as [Hl Hn].
  split; [exact Hl|]. intros i c Hi. exact (Hn i c Hi).
Qed.

(** never a partial row: when one column fails (error policy, undecodable cell, a format code that assigns
    nothing to the column) NO row is delivered *)
Theorem rows_never_partial fmts reveal cols i c data :
  nth_error cols i = Some c -> col_cell c = Some data ->
  (forall b v, pg_result_binary fmts i = Some b ->
               pg_cell (setting_or_empty (col_setting c)) b (reveal i) data <> Ok v) ->
  forall out, handle_data_row fmts reveal cols <> Ok out.
Proof.
  intros Hi Hc Hbad out H. destruct (rows_cellwise _ _ _ _ H) as [_ Hn].
  specialize (Hn i c Hi). unfold cell_ok in Hn. rewrite Hc in Hn.
  destruct Hn as [b [v [Hb [Hp _]]]]. exact (Hbad b v Hb Hp).
Qed.

(** * Typed protected column at any position: the decision table of C19_typed_outcome_matrix, per column *)
Theorem rows_typed_outcome fmts reveal cols out i c s k (raw : bytes) b :
  handle_data_row fmts reveal cols = Ok out ->
  nth_error cols i = Some c -> col_setting c = Some s ->
  pg_result_binary fmts i = Some b ->
  col_cell c = Some (wire_of b raw) ->
  pg_encoder_for (s_type_id s) = Some k -> s_binop s = true -> s_type_aware s = true ->
  raw <> [] ->
  (is_int_kind k = true -> b = true -> length raw <> 4%nat /\ length raw <> 8%nat) ->
  match reveal i raw with
  | Some p => p <> [] -> nth_error out i = Some (Some (typed_repr k b p))
  | None =>
      (is_int_kind k = true -> parse_int (int_bits k) raw = None) ->
      match s_policy s with
      | PEmpty | PCiphertext => nth_error out i = Some (Some (cipher_repr k b raw))
      | PDefault =>
          match s_default s with
          | Some d => validate_default k d = true -> nth_error out i = Some (Some (default_repr k b d))
          | None => nth_error out i = Some (Some (cipher_repr k b raw))
          end
      | PError | PBad => False      (* a row with such a cell is never delivered *)
      end
  end.
Proof.
  intros H Hi Hs Hb Hc Hk Hbin Hta Hraw Hlen.
  destruct (rows_cellwise _ _ _ _ H) as [_ Hn]. specialize (Hn i c Hi). unfold cell_ok in Hn.
  rewrite Hc in Hn. destruct Hn as [b' [v [Hb' [Hp Ho]]]].
  rewrite Hb in Hb'. inversion Hb'; subst b'. rewrite Hs in Hp. cbn [setting_or_empty] in Hp.
  destruct (typed_outcome_matrix_pg s k b (reveal i) raw 0 Hk Hbin Hta Hraw Hlen) as [M _].
  destruct (reveal i raw) as [p|].
  - intros Hpne. rewrite (M Hpne) in Hp. inversion Hp; subst v. exact Ho.
  - intros Hlit. specialize (M Hlit). destruct (s_policy s).
    + rewrite M in Hp. inversion Hp; subst v. exact Ho.
    + rewrite M in Hp. inversion Hp; subst v. exact Ho.
    + destruct (s_default s) as [d|].
      * intros Hv. rewrite (M Hv) in Hp. inversion Hp; subst v. exact Ho.
      * rewrite M in Hp. inversion Hp; subst v. exact Ho.
    + rewrite M in Hp. discriminate.
    + rewrite M in Hp. discriminate.
Qed.

(** the same column under the error policy: the statement gets the error, no row *)
Theorem rows_error_policy fmts reveal cols i c s k (raw : bytes) b :
  nth_error cols i = Some c -> col_setting c = Some s ->
  pg_result_binary fmts i = Some b ->
  col_cell c = Some (wire_of b raw) ->
  pg_encoder_for (s_type_id s) = Some k -> s_binop s = true -> s_type_aware s = true ->
  raw <> [] ->
  (is_int_kind k = true -> b = true -> length raw <> 4%nat /\ length raw <> 8%nat) ->
  reveal i raw = None ->
  (is_int_kind k = true -> parse_int (int_bits k) raw = None) ->
  s_policy s = PError ->
  forall out, handle_data_row fmts reveal cols <> Ok out.
Proof.
  intros Hi Hs Hb Hc Hk Hbin Hta Hraw Hlen Hrev Hlit Hpol.
  apply (rows_never_partial fmts reveal cols i c (wire_of b raw) Hi Hc).
  intros b' v Hb'. rewrite Hb in Hb'. inversion Hb'; subst b'. rewrite Hs. cbn [setting_or_empty].
  destruct (typed_outcome_matrix_pg s k b (reveal i) raw 0 Hk Hbin Hta Hraw Hlen) as [M _].
  rewrite Hrev in M. specialize (M Hlit). rewrite Hpol in M. rewrite M. discriminate.
Qed.

(** * Columns without setting *)
Lemma empty_setting_no_encoder : pg_encoder_for (s_type_id empty_setting) = None.
Proof. reflexivity. Qed.

Lemma cell_unprotected (b : bool) (data v : bytes) :
  (decode_escaped data <> Ok [] \/ data = []) ->
  pg_cell empty_setting b (fun _ => None) data = Ok v -> v = data.
Proof.
  intros Hne. unfold pg_cell, pg_decoder. rewrite empty_setting_no_encoder.
  change (s_binop empty_setting) with true. cbv iota. unfold decode_escaped_step.
  destruct (decode_escaped data) as [d|e|] eqn:Hd; cbn [Outcome.bind].
  - unfold pg_encoder. destruct d as [|x d].
    + destruct Hne as [Hne|Hne]; [congruence|]. intros H. inversion H. subst data. reflexivity.
    + rewrite empty_setting_no_encoder. cbn [c_decrypted c_encoded ctx0]. intros H. inversion H. reflexivity.
  - destruct (e =? E_OCTAL); cbn [Outcome.bind]; [|discriminate].
    unfold pg_encoder. destruct data as [|x data].
    + intros H. inversion H. reflexivity.
    + rewrite empty_setting_no_encoder. cbn [c_decrypted c_encoded ctx0]. intros H. inversion H. reflexivity.
  - discriminate.
Qed.

(** a column without setting in which there is nothing to reveal comes back byte for byte, whatever the codes,
    the position and the other columns; the side condition is the exact boundary (see the witnesses in
    Properties/C19_rows.v): the substitute setting is a "binary data operation", so the cell goes through
    utils.DecodeEscaped in BOTH formats *)
Theorem rows_unprotected_unchanged fmts reveal cols out i c (data : bytes) :
  handle_data_row fmts reveal cols = Ok out ->
  nth_error cols i = Some c -> col_setting c = None -> col_cell c = Some data ->
  (forall d, reveal i d = None) ->
  (decode_escaped data <> Ok [] \/ data = []) ->
  nth_error out i = Some (Some data).
Proof.
  intros H Hi Hs Hc Hrev Hne.
  destruct (rows_cellwise _ _ _ _ H) as [_ Hn]. specialize (Hn i c Hi). unfold cell_ok in Hn.
  rewrite Hc in Hn. destruct Hn as [b [v [_ [Hp Ho]]]]. rewrite Hs in Hp. cbn [setting_or_empty] in Hp.
  assert (Hp' : pg_cell empty_setting b (fun _ => None) data = Ok v).
  { rewrite <- Hp. unfold pg_cell. destruct (pg_decoder empty_setting b ctx0 data) as [[c0 d]| |]; cbn [Outcome.bind]; try reflexivity.
    rewrite (Hrev d). reflexivity. }
  rewrite (cell_unprotected b data v Hne Hp') in Ho. exact Ho.
Qed.

(** NULL cells are never touched *)
Theorem rows_null_kept fmts reveal cols out i c :
  handle_data_row fmts reveal cols = Ok out ->
  nth_error cols i = Some c -> col_cell c = None -> nth_error out i = Some None.
Proof.
  intros H Hi Hc. destruct (rows_cellwise _ _ _ _ H) as [_ Hn]. specialize (Hn i c Hi).
  unfold cell_ok in Hn. rewrite Hc in Hn. exact Hn.
Qed.

(** * When is a row delivered at all: the codes must assign a format to every column the proxy looks at *)
Lemma result_formats_ok : forall (todo codes : list N) (i : nat),
  (forall j, (j < length todo)%nat -> exists b, pg_result_binary (Some codes) (i + j) = Some b) ->
  exists fs, result_formats_from i todo codes = Ok fs /\ length fs = length todo /\
             forall j f, nth_error fs j = Some f -> exists b, pg_result_binary (Some codes) (i + j) = Some b /\ f = fmt_of b.
Proof.
  induction todo as [|t todo IH]; intros codes i Hall.
  - exists []. split; [reflexivity|]. split; [reflexivity|]. intros j f Hj. destruct j; discriminate.
  - destruct (Hall 0%nat) as [b0 Hb0]; [cbn; lia|]. rewrite Nat.add_0_r in Hb0.
    destruct (IH codes (S i)) as [fs [Hfs [Hl Hn]]].
    { intros j Hj. destruct (Hall (S j)) as [b Hb]; [cbn; lia|]. exists b. replace (S i + j)%nat with (i + S j)%nat by lia. exact Hb. }
    exists (fmt_of b0 :: fs). cbn [result_formats_from]. rewrite format_by_index_spec, Hb0. cbn [Outcome.bind]. rewrite Hfs. cbn [Outcome.bind].
    split; [reflexivity|]. split; [cbn [length]; rewrite Hl; reflexivity|].
    intros j f Hj. destruct j as [|j].
    + cbn in Hj. inversion Hj. exists b0. rewrite Nat.add_0_r. split; [exact Hb0|reflexivity].
    + cbn in Hj. destruct (Hn j f Hj) as [b [Hb Hf]]. exists b. replace (i + S j)%nat with (S i + j)%nat by lia. split; assumption.
Qed.

Lemma one_code_all_columns (c : N) (i j : nat) : format_by_index i [c] = format_by_index j [c].
Proof. rewrite !format_by_index_spec. reflexivity. Qed.

Lemma code_binary_fmt_of b : code_binary (fmt_of b) = Some b.
Proof. destruct b; reflexivity. Qed.

Lemma loop_format_ok fmts k b : pg_result_binary fmts k = Some b -> loop_format fmts k = Ok (fmt_of b).
Proof.
  destruct fmts as [codes|]; cbn [loop_format].
  - intros H. rewrite format_by_index_spec, H. reflexivity.
  - cbn. intros H. inversion H. reflexivity.
Qed.

Lemma parse_formats_ok : forall (cols : list column) (fs : list N) (i : nat),
  (forall j, (j < length cols)%nat -> exists b, pg_result_binary (Some fs) (i + j) = Some b) ->
  parse_formats i cols fs = Ok tt.
Proof.
  induction cols as [|a cols IH]; intros fs i Hall; [reflexivity|].
  cbn [parse_formats]. destruct (Hall 0%nat) as [b Hb]; [cbn; lia|]. rewrite Nat.add_0_r in Hb.
  rewrite format_by_index_spec, Hb. cbn [Outcome.bind]. apply IH.
  intros j Hj. destruct (Hall (S j)) as [b' Hb']; [cbn; lia|]. exists b'.
  replace (S i + j)%nat with (i + S j)%nat by lia. exact Hb'.
Qed.

Lemma row_cells_ok (fmts : option (list N)) (reveal : nat -> bytes -> option bytes) : forall (cols : list column) (k : nat),
  (forall j c data b, nth_error cols j = Some c -> col_cell c = Some data -> pg_result_binary fmts (k + j)%nat = Some b ->
                      exists v, pg_cell (setting_or_empty (col_setting c)) b (reveal (k + j)%nat) data = Ok v) ->
  (forall j, (j < length cols)%nat -> exists b, pg_result_binary fmts (k + j)%nat = Some b) ->
  exists out, row_cells fmts reveal k cols = Ok out.
Proof.
  induction cols as [|a cols IH]; intros k Hcell Hfmt; [exists []; reflexivity|].
  destruct (IH (S k)) as [tl Htl].
  { intros j c data b Hj Hc Hb. replace (S k + j)%nat with (k + S j)%nat in * by lia. exact (Hcell (S j) c data b Hj Hc Hb). }
  { intros j Hj. destruct (Hfmt (S j)) as [b Hb]; [cbn; lia|]. exists b. replace (S k + j)%nat with (k + S j)%nat by lia. exact Hb. }
  rewrite row_cells_unfold. destruct (col_cell a) as [data|] eqn:Hc.
  - destruct (Hfmt 0%nat) as [b Hb]; [cbn; lia|]. rewrite Nat.add_0_r in Hb.
    rewrite (loop_format_ok _ _ _ Hb). cbn [Outcome.bind]. rewrite fmt_of_binary.
    destruct (Hcell 0%nat a data b) as [v Hv]; [reflexivity|exact Hc|rewrite Nat.add_0_r; exact Hb|].
    rewrite Nat.add_0_r in Hv. rewrite Hv. cbn [Outcome.bind]. rewrite Htl. cbn [Outcome.bind]. eexists; reflexivity.
  - rewrite Htl. cbn [Outcome.bind]. eexists; reflexivity.
Qed.

(** the converted list GetResultFormats hands to parseColumns assigns a format wherever the codes do *)
Lemma converted_assigns (codes fs : list N) :
  length fs = length codes ->
  (forall j f, nth_error fs j = Some f -> exists b, pg_result_binary (Some codes) j = Some b /\ f = fmt_of b) ->
  forall i b, pg_result_binary (Some codes) i = Some b -> exists b', pg_result_binary (Some fs) i = Some b'.
Proof.
  intros Hl Hn i b Hb.
  destruct codes as [|c0 [|c1 r]]; destruct fs as [|f0 [|f1 fr]]; try discriminate Hl.
  - exists false. reflexivity.
  - destruct (Hn 0%nat f0 eq_refl) as [b0 [_ Hf0]]. subst f0. exists b0. cbn [pg_result_binary]. apply code_binary_fmt_of.
  - cbn [pg_result_binary] in Hb |- *.
    destruct (nth_error (c0 :: c1 :: r) i) as [c|] eqn:Hc; [|discriminate].
    assert (Hi : (i < length (f0 :: f1 :: fr))%nat) by (rewrite Hl; apply nth_error_Some; congruence).
    destruct (nth_error (f0 :: f1 :: fr) i) as [f|] eqn:Hf; [|apply nth_error_None in Hf; lia].
    destruct (Hn i f Hf) as [b' [_ Hfb]]. subst f. exists b'. apply code_binary_fmt_of.
Qed.

Theorem rows_delivered fmts reveal cols :
  (forall i, (i < length cols)%nat -> exists b, pg_result_binary fmts i = Some b) ->
  (forall codes i, fmts = Some codes -> (i < length codes)%nat -> exists b, pg_result_binary fmts i = Some b) ->
  (forall i c data b, nth_error cols i = Some c -> col_cell c = Some data -> pg_result_binary fmts i = Some b ->
                      exists v, pg_cell (setting_or_empty (col_setting c)) b (reveal i) data = Ok v) ->
  exists out, handle_data_row fmts reveal cols = Ok out.
Proof.
  intros Hcols Hcodes Hcell. unfold handle_data_row.
  assert (Hcf : exists cf, match fmts with Some codes => get_result_formats codes | None => Ok [BOUND_TEXT] end = Ok cf /\
                           forall i b, pg_result_binary fmts i = Some b -> exists b', pg_result_binary (Some cf) i = Some b').
  { destruct fmts as [codes|].
    - destruct (result_formats_ok codes codes 0%nat) as [fs [Hfs [Hl Hn]]].
      { intros j Hj. exact (Hcodes codes j eq_refl Hj). }
      exists fs. split; [exact Hfs|]. apply converted_assigns; assumption.
    - exists [BOUND_TEXT]. split; [reflexivity|]. intros i b _. exists false. reflexivity. }
  destruct Hcf as [cf [Hcf Hconv]]. rewrite Hcf. cbn [Outcome.bind].
  rewrite parse_formats_ok.
  - cbn [Outcome.bind]. apply row_cells_ok.
    + intros j c data b Hj Hc Hb. exact (Hcell j c data b Hj Hc Hb).
    + intros j Hj. exact (Hcols j Hj).
  - intros j Hj. destruct (Hcols j Hj) as [b Hb]. exact (Hconv j b Hb).
Qed.

Theorem rows_unprotected_hexlike_refuted :
  exists (d1 d2 : bytes),
    handle_data_row (Some []) (fun _ _ => None) [mk_col None (Some d1)] = Ok [Some []] /\ d1 <> [] /\
    handle_data_row (Some [1]) (fun _ _ => None) [mk_col None (Some d2)] = Err E_HEX.
Proof.
  exists [x5c; x78], [x5c; x78; x5a; x5a]. vm_compute. repeat split; congruence.
Qed.
