(** Concrete witnesses for the C18 extension (stand-in crypto): non-vacuity of the export/import
    theorems, the refutation witness of the known finding v1-migrate-rotated-keys-not-carried, and the
    pinned (pre-repair) behaviour of the defects repaired by patches/fix_v2_import_destroyed_key.diff,
    fix_migrate_poison_sym_context.diff. *)
From Coq Require Import List NArith ZArith Bool Lia.
From Acra Require Import Lib.Bytes Lib.Outcome Crypto.Interface Crypto.Stub Gen.KsConsts Gen.X18Consts
  Model.KeyAtRest Model.Backup Model.DerV2Ext Model.KeyRingV2Ext Model.MigrateV2Ext Model.BundleV2Ext
  Proofs.DerV2Ext Proofs.KeyRingV2Ext Proofs.ExportImportV2Ext Proofs.HistoryV2Ext.
Import ListNotations.

Definition w_master1 := repeat_bytes x07 32.
Definition w_master2 := repeat_bytes x09 32.
Definition w_nonce (b : byte) := repeat_bytes b 12.
Definition w_path_sym : bytes := RING_STORAGE_SYM_PRE ++ [x63; x6c; x69; x65; x6e; x74] ++ RING_STORAGE_SYM_POST.
Definition w_path_pair : bytes := RING_STORAGE_PRE ++ [x63; x6c; x69; x65; x6e; x74] ++ RING_STORAGE_POST.
Definition w_t1 : bytes := [x32; x31; x30; x31; x30; x31; x30; x30; x30; x30; x30; x30; x5a].  (* 210101000000Z *)
Definition w_t2 : bytes := [x32; x32; x30; x31; x30; x31; x30; x30; x30; x30; x30; x30; x5a].  (* 220101000000Z *)
Definition w_sym (b : byte) : kdata := {| kd_format := FORMAT_SYMMETRIC; kd_pub := []; kd_priv := []; kd_sym := repeat_bytes b 32 |}.
Definition w_pair (b : byte) : kdata :=
  {| kd_format := FORMAT_KEYPAIR; kd_pub := repeat_bytes b 45; kd_priv := repeat_bytes b 44 ++ [x01]; kd_sym := [] |}.

(** a source history: two rings, a rotation, a destroyed key, a state change *)
Definition w_ops : list rop :=
  [RAddKey w_path_sym w_t1 w_t2 [w_sym x41]; RSetCurrent w_path_sym 1;
   RAddKey w_path_sym w_t1 w_t2 [w_sym x42]; RSetCurrent w_path_sym 2;
   RAddKey w_path_pair w_t1 w_t2 [w_pair x43]; RSetCurrent w_path_pair 1;
   RDestroy w_path_sym 1; RAddKey w_path_sym w_t1 w_t2 [w_sym x44]; RSetState w_path_pair 1 2].
Definition w_tape : list bytes := map w_nonce [x01; x02; x03; x04; x05; x06].
Definition w_src : backend := h_b (run_rops Stub w_master1 {| h_b := []; h_tape := w_tape |} w_ops).
(** a target that already holds one of the rings (other content) and an unrelated ring *)
Definition w_tgt : backend :=
  h_b (run_rops Stub w_master2 {| h_b := []; h_tape := map w_nonce [x11; x12] |}
         [RAddKey w_path_sym w_t1 w_t2 [w_sym x51]; RAddKey RING_AUDIT_LOG w_t1 w_t2 [w_sym x52]]).
Definition w_paths := [w_path_pair; w_path_sym].
Definition w_exported : res (list ring) := export_rings Stub w_master1 w_src EXPORT_PRIVATE_KEYS w_paths.
Definition w_import : imp :=
  match w_exported with
  | Ok rs => import_rings Stub w_master2 deleg_overwrite w_tgt (map w_nonce [x21; x22; x23; x24]) (sorted_rings rs)
  | _ => imp_fail w_tgt [] (Err 0%N)
  end.

Definition w_check : bool :=
  match w_exported with
  | Ok rs =>
      (Nat.eqb (length rs) 2) &&
      (match im_res w_import with Ok _ => true | _ => false end) &&
      (match parse_rings (der_rings rs) with Some rs' => Nat.eqb (length rs') 2 | None => false end)
  | _ => false
  end.
Lemma w_check_true : w_check = true.
Proof. vm_compute. reflexivity. Qed.

(** the getters of the rotated / destroyed ring agree, concretely *)
Definition w_queries (v : vring) :=
  (g_current v, g_all_keys v, g_state v 1, g_symmetric v 1 FORMAT_SYMMETRIC, g_symmetric v 2 FORMAT_SYMMETRIC,
   g_symmetric v 3 FORMAT_SYMMETRIC, g_since v 2).
Lemma w_getters_agree :
  option_map w_queries (store_view Stub w_master2 (im_b w_import) w_path_sym) =
  option_map w_queries (store_view Stub w_master1 w_src w_path_sym) /\
  option_map w_queries (store_view Stub w_master1 w_src w_path_sym) =
  Some (Ok 2%Z, [3%Z; 2%Z; 1%Z], Ok STATE_DESTROYED, Err E_KEY_DESTROYED, Ok (repeat_bytes x42 32),
        Ok (repeat_bytes x44 32), Ok w_t1).
Proof. split; vm_compute; reflexivity. Qed.

Lemma w_unrelated_untouched : b_get RING_AUDIT_LOG (im_b w_import) = b_get RING_AUDIT_LOG w_tgt /\ b_get RING_AUDIT_LOG w_tgt <> None.
Proof. split; vm_compute; [reflexivity | discriminate]. Qed.

Lemma w_ops_ok : Forall op_ok w_ops.
Proof.
  unfold w_ops. repeat constructor; cbn; try lia; unfold tiny, MAXMSG; vm_compute; reflexivity.
Qed.

(** ---------------- the pinned copyKey (before fix_v2_import_destroyed_key) ---------------- *)
Definition copy_key_pinned (C : crypto) (master path : bytes) (tape : list bytes) (k : rkey) : res rkey * list bytes :=
  if time_after (k_since k) (k_until k) then (Err E_CRYPTOPERIOD, tape) else
  if is_nil (k_data k) then (Err E_NO_KEY_DATA, tape) else
  copy_key C master path tape k.

Lemma destroyed_marker_pinned_refuted :
  exists (r : ring) (k : rkey),
    export_ring Stub w_master1 w_src EXPORT_PRIVATE_KEYS w_path_sym = Ok r /\ In k (r_keys r) /\
    k_state k = STATE_DESTROYED /\
    fst (copy_key_pinned Stub w_master2 w_path_sym [] k) = Err E_NO_KEY_DATA /\
    fst (copy_key Stub w_master2 w_path_sym [] k) = Ok k.
Proof.
  destruct (export_ring Stub w_master1 w_src EXPORT_PRIVATE_KEYS w_path_sym) as [r|e|] eqn:E;
    [|vm_compute in E; discriminate|vm_compute in E; discriminate].
  exists r, {| k_seq := 1; k_state := STATE_DESTROYED; k_since := w_t1; k_until := w_t2; k_data := [] |}.
  split; [reflexivity|]. vm_compute in E. inversion E; subst. clear E.
  split; [left; reflexivity|]. repeat split.
Qed.

(** ---------------- migration ---------------- *)
Definition w_id : bytes := [x63; x6c; x69; x65; x6e; x74; x5f; x31].   (* client_1 *)
Definition w_v1_sym_name : bytes := V1_SLASH ++ w_id ++ V1_SUF_STORAGE_SYM.
Definition w_hist_name : bytes :=
  w_v1_sym_name ++ SUFFIX_OLD ++ V1_SLASH ++
  [x32; x30; x32; x31; x2d; x30; x33; x2d; x30; x34; x54; x30; x35; x3a; x30; x36; x3a; x30; x30].  (* 2021-03-04T05:06:00 *)
Definition w_cur_key := repeat_bytes x61 32.
Definition w_old_key := repeat_bytes x62 32.
Definition w_file (path key : bytes) (n : byte) : xfile :=
  {| xf_path := path; xf_data := seal_enc Stub w_master1 w_id (w_nonce n) key; xf_private_perm := true |}.
Definition w_aux (_ : bytes) : bytes * bytes * bytes := (w_t1, w_t2, w_nonce x31).

(** without history: the key arrives and the migration reports success *)
Definition w_files_plain : list xfile := [w_file w_v1_sym_name w_cur_key x01].
Lemma migrate_plain_example :
  let r := migrate_from Stub w_master1 w_master2 w_aux w_files_plain [] in
  mg_ok r = true /\
  option_map (fun v => (g_current v, g_all_keys v, g_symmetric v 1 FORMAT_SYMMETRIC))
             (store_view Stub w_master2 (mg_b r) (RING_STORAGE_SYM_PRE ++ w_id ++ RING_STORAGE_SYM_POST))
  = Some (Ok 1%Z, [1%Z], Ok w_cur_key).
Proof. split; vm_compute; reflexivity. Qed.

(** with one rotated key: both files are genuine keys of client_1 under the v1 master key, yet the
    migration fails and the v2 ring holds only the current one *)
Definition w_files_rotated : list xfile := [w_file w_v1_sym_name w_cur_key x01; w_file w_hist_name w_old_key x02].
Lemma migrate_rotated_keys_refuted :
  exists files,
    Forall (fun f => exists key, cell_decrypt Stub w_master1 w_id (xf_data f) = Some key) files /\
    length files = 2%nat /\
    let r := migrate_from Stub w_master1 w_master2 w_aux files [] in
    mg_ok r = false /\ mg_expected r = 2%nat /\ mg_imported r = 1%nat /\
    option_map (fun v => g_all_keys v)
               (store_view Stub w_master2 (mg_b r) (RING_STORAGE_SYM_PRE ++ w_id ++ RING_STORAGE_SYM_POST)) = Some [1%Z].
Proof.
  exists w_files_rotated. split.
  - repeat constructor; eexists; vm_compute; reflexivity.
  - split; [reflexivity|]. vm_compute. repeat split.
Qed.

(** the pinned classifier context of the poison symmetric key (before fix_migrate_poison_sym_context) *)
Lemma poison_sym_context_pinned_refuted :
  x_ctx (classify (V1_SLASH ++ V1_POISON_NAME ++ V1_SUF_SYM)) = V1_POISON_NAME ++ V1_SUF_SYM /\
  V1_POISON_NAME ++ V1_SUF_SYM <> V1_POISON_NAME.
Proof. split; vm_compute; [reflexivity | discriminate]. Qed.
