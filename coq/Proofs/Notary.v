(** C07 (key-ring tamper evidence) and C18 (bundle authenticity): Model/Notary.v. *)
From Acra Require Import Lib.Bytes Lib.Outcome Crypto.Interface Gen.KsConsts Model.Path Model.KeyAtRest Model.Notary.

Section NotaryProofs.
  Variable mac : bytes -> bytes -> bytes.

  Lemma verify_sigs_ok_inv algs sigs payload ctx v :
    verify_sigs mac algs sigs payload ctx v = Ok tt ->
    v = true \/ exists oid sg key, In (oid, sg) sigs /\ find_alg algs oid = Some key /\
                                   sg = mac key (mac_input ctx payload).
  Proof.
    revert v. induction sigs as [|[oid sg] r IH]; intros v; cbn [verify_sigs].
    - destruct v; [left; reflexivity| discriminate].
    - destruct (find_alg algs oid) as [key|] eqn:Hf.
      + destruct (alg_verify mac key sg payload ctx) eqn:Hv; [|discriminate].
        intros _. right. exists oid, sg, key. split; [left; reflexivity|]. split; [exact Hf|].
        unfold alg_verify, alg_sign in Hv. apply bytes_eqb_eq in Hv. symmetry. exact Hv.
      + intros H. apply IH in H as [H|(o & s & k & Hin & Hk & Hs)]; [left; exact H|].
        right. exists o, s, k. split; [right; exact Hin| split; assumption].
  Qed.

  (** what an accepted ring file proves: some presented signature is the MAC, under a key of the
      notary, of EXACTLY (signature context of this path ++ ": " ++ the whole payload) *)
  Theorem ring_verify_sound algs sigs path payload :
    verify_ring mac algs sigs path payload = Ok tt ->
    exists oid sg key, In (oid, sg) sigs /\ find_alg algs oid = Some key /\
      sg = mac key (V2_SIG_CTX_BEFORE_PATH ++ path ++ SIG_SEPARATOR ++ payload).
  Proof.
    unfold verify_ring. intros H. apply verify_sigs_ok_inv in H as [H|(o & s & k & H1 & H2 & H3)]; [discriminate|].
    exists o, s, k. split; [exact H1| split; [exact H2|]].
    rewrite H3. unfold mac_input, ring_sig_ctx. rewrite <- app_assoc. reflexivity.
  Qed.

  (** tamper evidence as a reduction: [signed] = the MAC inputs the honest keystore ever signed.
      A ring file (any payload bytes, stored under any path) is accepted only if exactly that
      (path, payload) was signed — or a MAC forgery is exhibited: a valid tag for a never-signed message. *)
  Definition mac_forgery (algs sigs : list (bytes * bytes)) (signed : list bytes) : Prop :=
    exists oid tag key msg, In (oid, tag) sigs /\ find_alg algs oid = Some key /\
                            tag = mac key msg /\ ~ In msg signed.

  Theorem ring_tamper_detected algs sigs path payload (signed : list bytes) :
    verify_ring mac algs sigs path payload = Ok tt ->
    In (mac_input (ring_sig_ctx path) payload) signed \/ mac_forgery algs sigs signed.
  Proof.
    unfold verify_ring. intros H. apply verify_sigs_ok_inv in H as [H|(o & s & k & H1 & H2 & H3)]; [discriminate|].
    destruct (in_dec (list_eq_dec Byte.byte_eq_dec) (mac_input (ring_sig_ctx path) payload) signed) as [Hin|Hn].
    - left. exact Hin.
    - right. exists o, s, k, (mac_input (ring_sig_ctx path) payload). repeat split; assumption.
  Qed.

  (** a signed ring verifies under the same path (single algorithm, as NewSCellSuite builds) *)
  Theorem ring_sign_verify oid key path payload :
    verify_ring mac [(oid, key)] (sign_ring mac [(oid, key)] path payload) path payload = Ok tt.
  Proof.
    unfold verify_ring, sign_ring, sign_data. cbn [map fst snd verify_sigs find_alg].
    rewrite bytes_eqb_refl. unfold alg_verify. rewrite bytes_eqb_refl. reflexivity.
  Qed.

  (** signatures of unknown algorithms are ignored exactly as coded: alone they do not suffice *)
  Theorem unknown_algorithms_do_not_verify algs sigs path payload :
    (forall oid sg, In (oid, sg) sigs -> find_alg algs oid = None) ->
    verify_ring mac algs sigs path payload = Err E_NO_SIGNATURE.
  Proof.
    unfold verify_ring. generalize (ring_sig_ctx path) as ctx. intros ctx H.
    induction sigs as [|[oid sg] r IH]; cbn [verify_sigs]; [reflexivity|].
    rewrite (H oid sg) by (left; reflexivity). apply IH. intros o s Hin. apply (H o s). right. exact Hin.
  Qed.

  (** ---- C18, v2 bundle ---- *)
  Theorem bundle_sealed_v2 enc_key nonce ser t :
    bundle_term enc_key nonce ser = Some t -> t = Sealed enc_key V2_EXPORT_CTX nonce ser.
  Proof.
    unfold bundle_term, key_encrypt. destruct (is_nil enc_key || is_nil ser); [discriminate|].
    intros [= <-]. reflexivity.
  Qed.

  (** opening a bundle succeeds only with a valid MAC over (export context, whole payload) and a
      ciphertext that opens under the access encryption key with the export context *)
  Theorem open_bundle_sound C algs sigs enc_key payload enc ser :
    open_bundle mac C algs sigs enc_key payload enc = Ok ser ->
    (exists oid sg key, In (oid, sg) sigs /\ find_alg algs oid = Some key /\
        sg = mac key (mac_input V2_EXPORT_CTX payload)) /\
    cell_decrypt C enc_key V2_EXPORT_CTX enc = Some ser.
  Proof.
    unfold open_bundle.
    destruct (verify_sigs mac algs sigs payload V2_EXPORT_CTX false) as [[]| |] eqn:Hv; try discriminate.
    destruct (cell_decrypt C enc_key V2_EXPORT_CTX enc) as [x|] eqn:Hd; [|discriminate].
    intros [= <-]. split; [|reflexivity].
    apply verify_sigs_ok_inv in Hv as [Hv|Hv]; [discriminate| exact Hv].
  Qed.

  (** round trip of the bundle layer (Correct C): what was sealed and signed opens to the same bytes *)
  Theorem bundle_round_trip C oid sign_key enc_key nonce ser payload :
    Correct C -> enc_key <> [] -> ser <> [] -> length nonce = NONCE_LEN ->
    (N.of_nat (length ser) < MAXMSG)%N ->
    open_bundle mac C [(oid, sign_key)] (sign_data mac [(oid, sign_key)] payload V2_EXPORT_CTX) enc_key payload
                (seal_enc C enc_key V2_EXPORT_CTX nonce ser) = Ok ser.
  Proof.
    intros HC Hk Hs Hn Hl. unfold open_bundle, sign_data. cbn [map fst snd verify_sigs find_alg].
    rewrite bytes_eqb_refl. unfold alg_verify. rewrite bytes_eqb_refl.
    unfold cell_decrypt. rewrite (is_nil_false _ Hk).
    assert (Hne : seal_enc C enc_key V2_EXPORT_CTX nonce ser <> []).
    { intros E. pose proof (seal_len C HC enc_key V2_EXPORT_CTX nonce ser Hn) as L. rewrite E in L. cbn in L. discriminate. }
    rewrite (is_nil_false _ Hne). cbn [orb].
    rewrite (seal_rt C HC) by assumption. reflexivity.
  Qed.
End NotaryProofs.
