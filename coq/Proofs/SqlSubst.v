(** C13: replacing one literal of a well-formed tree by an admissible literal ([subst_ok]) gives a
    well-formed tree in which exactly that leaf changed; hence the edited tree prints to a token
    stream that parses back to itself. *)
From Acra Require Import Lib.Bytes Gen.Prec Model.SqlExpr Proofs.SqlExpr Proofs.SqlRoundtrip.
From Coq Require Import Arith Lia.

(* ---------- the nested list walks of [subst]/[lit_at], named ---------- *)
Definition subst_list (p : list nat) (t' : N) (v' : bytes) : nat -> list expr -> option (list expr) :=
  fix ns (i : nat) (l : list expr) {struct l} : option (list expr) :=
    match l, i with
    | [], _ => None
    | x :: l', O => omap (fun y => y :: l') (subst p t' v' x)
    | x :: l', S i' => omap (cons x) (ns i' l')
    end.

Definition lit_at_list (p : list nat) : nat -> list expr -> option (N * bytes) :=
  fix ns (i : nat) (l : list expr) {struct l} : option (N * bytes) :=
    match l, i with
    | [], _ => None
    | x :: _, O => lit_at p x
    | _ :: l', S i' => ns i' l'
    end.

Lemma subst_tuple i p t' v' xs : subst (i :: p) t' v' (ETuple xs) = omap ETuple (subst_list p t' v' i xs).
Proof. reflexivity. Qed.
Lemma subst_func i p t' v' n xs : subst (i :: p) t' v' (EFunc n xs) = omap (EFunc n) (subst_list p t' v' i xs).
Proof. reflexivity. Qed.
Lemma lit_at_tuple i p xs : lit_at (i :: p) (ETuple xs) = lit_at_list p i xs.
Proof. reflexivity. Qed.
Lemma lit_at_func i p n xs : lit_at (i :: p) (EFunc n xs) = lit_at_list p i xs.
Proof. reflexivity. Qed.
Lemma subst_cmp1 p t' v' op l r : subst (1 :: p) t' v' (ECmp op l r) = omap (fun r' => ECmp op l r') (subst p t' v' r).
Proof. reflexivity. Qed.
Lemma lit_at_cmp1 p op l r : lit_at (1 :: p) (ECmp op l r) = lit_at p r.
Proof. reflexivity. Qed.

Lemma subst_list_0 p t' v' x l : subst_list p t' v' 0 (x :: l) = omap (fun y => y :: l) (subst p t' v' x).
Proof. reflexivity. Qed.
Lemma subst_list_S p t' v' i x l : subst_list p t' v' (S i) (x :: l) = omap (cons x) (subst_list p t' v' i l).
Proof. reflexivity. Qed.
Lemma lit_at_list_0 p x l : lit_at_list p 0 (x :: l) = lit_at p x.
Proof. reflexivity. Qed.
Lemma lit_at_list_S p i x l : lit_at_list p (S i) (x :: l) = lit_at_list p i l.
Proof. reflexivity. Qed.

(* ---------- the invariant ---------- *)
(** [x'] is [x] with the literal [(told, vold)] at [p] replaced by [(t', v')] *)
Definition Rel (p : list nat) (told : N) (vold : bytes) (t' : N) (v' : bytes) (x x' : expr) : Prop :=
  wf x' = true /\ level x' = level x /\ (is_intlit x' = true -> is_intlit x = true) /\
  lit_at p x' = Some (t', v') /\ subst p told vold x' = Some x.

Definition Inv (x : expr) : Prop :=
  forall p told vold t' v',
    wf x = true -> lit_at p x = Some (told, vold) -> subst_ok told t' v' = true ->
    exists x', subst p t' v' x = Some x' /\ Rel p told vold t' v' x x'.

(** the right operand of IN is a tuple that need not be [wf] itself (one element is allowed there),
    so the induction carries the invariant of a tuple's elements as well *)
Definition PInv (e : expr) : Prop :=
  Inv e /\ match e with ETuple xs => Forall Inv xs | _ => True end.

Lemma subst_list_ok xs :
  Forall Inv xs ->
  forall p i told vold t' v',
    forallb wf xs = true -> lit_at_list p i xs = Some (told, vold) -> subst_ok told t' v' = true ->
    exists xs', subst_list p t' v' i xs = Some xs' /\ forallb wf xs' = true /\ length xs' = length xs /\
                lit_at_list p i xs' = Some (t', v') /\ subst_list p told vold i xs' = Some xs.
Proof.
  induction 1 as [|x xs Hx Hxs IH]; intros p i told vold t' v' Hwf HL HO.
  - destruct i; discriminate HL.
  - cbn [forallb] in Hwf. apply andb_prop in Hwf as [Hwx Hwxs]. destruct i as [|i].
    + rewrite lit_at_list_0 in HL.
      destruct (Hx _ _ _ _ _ Hwx HL HO) as (x' & Hs & Hw' & _ & _ & Hla & Hbk).
      exists (x' :: xs). rewrite !subst_list_0, Hs, Hbk, lit_at_list_0. cbn [omap forallb length].
      rewrite Hw', Hwxs. repeat split; assumption.
    + rewrite lit_at_list_S in HL.
      destruct (IH _ _ _ _ _ _ Hwxs HL HO) as (xs' & Hs & Hw' & Hlen & Hla & Hbk).
      exists (x :: xs'). rewrite !subst_list_S, Hs, Hbk, lit_at_list_S. cbn [omap forallb length].
      rewrite Hw', Hwx, Hlen. repeat split; assumption.
Qed.

(* ---------- tactics for the one-child-changes cases ---------- *)
Ltac split_wf H := cbn [wf] in H; repeat (let H' := fresh "Hc" in apply andb_prop in H as [H H']).

Ltac conj_true := repeat (apply andb_true_intro; split); try assumption; try reflexivity.

(** use the induction hypothesis of the child the path descends into, then rebuild the parent
    around the changed child *)
Ltac descend IH :=
  let x' := fresh "x'" in let Hs := fresh "Hs" in let Hw' := fresh "Hw'" in let Hlv := fresh "Hlv" in
  let Hil := fresh "Hil" in let Hla := fresh "Hla" in let Hbk := fresh "Hbk" in
  match goal with
  | Hx : wf ?x = true, HL : lit_at _ ?x = Some _, HO : subst_ok _ _ _ = true |- _ =>
      destruct (IH _ _ _ _ _ Hx HL HO) as (x' & Hs & Hw' & Hlv & Hil & Hla & Hbk)
  end;
  eexists; split; [cbn [subst]; rewrite Hs; reflexivity|];
  unfold Rel; cbn [wf level is_intlit lit_at subst]; unfold is_v in *; rewrite ?Hlv, Hw', Hbk;
  split; [conj_true|split; [reflexivity|split; [discriminate|split; [exact Hla|reflexivity]]]].

Lemma Forall_PInv xs : Forall PInv xs -> Forall Inv xs.
Proof. intros H. eapply Forall_impl; [|exact H]. intros a Ha. exact (proj1 Ha). Qed.

Lemma PInv_all : forall e, PInv e.
Proof.
  induction e using expr_ind'; (split; [|try exact I]);
    try (intros [|i p] told vold t' v' Hwf HL HO; [discriminate HL|];
         lazymatch goal with
         | _ : lit_at _ (ETuple _) = _ |- _ => fail
         | _ : lit_at _ (EFunc _ _) = _ |- _ => fail
         | _ => idtac
         end;
         destruct i as [|[|[|i]]]; cbn [lit_at] in HL; try discriminate HL).
  - (* EAnd *) split_wf Hwf. descend (proj1 IHe1).
  - split_wf Hwf. descend (proj1 IHe2).
  - (* EOr *) split_wf Hwf. descend (proj1 IHe1).
  - split_wf Hwf. descend (proj1 IHe2).
  - (* ENot *) split_wf Hwf. descend (proj1 IHe).
  - (* ECmp, left *) split_wf Hwf. descend (proj1 IHe1).
  - (* ECmp, right *)
    split_wf Hwf. destruct (is_in o) eqn:Ein.
    + destruct e2; try discriminate Hc. destruct IHe2 as [_ Hxs].
      apply andb_prop in Hc as [Hne Hwxs].
      destruct p as [|j q]; [discriminate HL|]. rewrite lit_at_tuple in HL.
      destruct (subst_list_ok _ Hxs _ _ _ _ _ _ Hwxs HL HO) as (xs' & Hs & Hw' & Hlen & Hla & Hbk).
      exists (ECmp o e1 (ETuple xs')). rewrite subst_cmp1, subst_tuple, Hs. split; [reflexivity|].
      unfold Rel. rewrite subst_cmp1, lit_at_cmp1, subst_tuple, lit_at_tuple, Hbk.
      cbn [wf level is_intlit omap]. rewrite Ein, Hw', Hwf, Hc0.
      split; [|split; [reflexivity|split; [discriminate|split; [exact Hla|reflexivity]]]].
      destruct xs, xs'; try discriminate Hne; try discriminate Hlen. reflexivity.
    + apply andb_prop in Hc as [Hw2 Hv2]. descend (proj1 IHe2). rewrite Ein. conj_true.
  - (* ECmpEsc *) split_wf Hwf. descend (proj1 IHe1).
  - split_wf Hwf. descend (proj1 IHe2).
  - split_wf Hwf. descend (proj1 IHe3).
  - (* ERange *) split_wf Hwf. descend (proj1 IHe1).
  - split_wf Hwf. descend (proj1 IHe2).
  - split_wf Hwf. descend (proj1 IHe3).
  - (* EIs *) split_wf Hwf. descend (proj1 IHe).
  - (* EBin *) split_wf Hwf. descend (proj1 IHe1).
  - split_wf Hwf. descend (proj1 IHe2).
  - (* EUn *)
    split_wf Hwf. descend (proj1 IHe).
    destruct o; try reflexivity;
      (destruct (is_intlit x') eqn:E; [rewrite (Hil eq_refl) in Hc; discriminate Hc|reflexivity]).
  - (* ELit *)
    intros [|i p] told vold t' v' Hwf HL HO; [|discriminate HL].
    cbn [lit_at] in HL. injection HL as -> ->.
    unfold subst_ok in HO. apply andb_prop in HO as [Hwl Hint].
    exists (ELit t' v'). split; [reflexivity|]. unfold Rel. cbn [wf level is_intlit lit_at subst].
    split; [exact Hwl|split; [reflexivity|split; [|split; reflexivity]]].
    intros E. rewrite E in Hint. exact Hint.
  - (* EParen *) split_wf Hwf. descend (proj1 IHe).
  - (* ETuple *)
    apply Forall_PInv in H.
    intros [|i p] told vold t' v' Hwf HL HO; [discriminate HL|].
    cbn [wf] in Hwf. apply andb_prop in Hwf as [Hlen2 Hwxs]. rewrite lit_at_tuple in HL.
    destruct (subst_list_ok _ H _ _ _ _ _ _ Hwxs HL HO) as (xs' & Hs & Hw' & Hlen & Hla & Hbk).
    exists (ETuple xs'). rewrite subst_tuple, Hs. split; [reflexivity|].
    unfold Rel. rewrite subst_tuple, lit_at_tuple, Hbk. cbn [wf level is_intlit omap].
    rewrite Hlen, Hlen2, Hw'.
    split; [reflexivity|split; [reflexivity|split; [discriminate|split; [exact Hla|reflexivity]]]].
  - apply Forall_PInv. exact H.
  - (* EFunc *)
    apply Forall_PInv in H.
    intros [|i p] told vold t' v' Hwf HL HO; [discriminate HL|].
    cbn [wf] in Hwf. rewrite lit_at_func in HL.
    destruct (subst_list_ok _ H _ _ _ _ _ _ Hwf HL HO) as (xs' & Hs & Hw' & Hlen & Hla & Hbk).
    exists (EFunc n xs'). rewrite subst_func, Hs. split; [reflexivity|].
    unfold Rel. rewrite subst_func, lit_at_func, Hbk. cbn [wf level is_intlit omap].
    split; [exact Hw'|split; [reflexivity|split; [discriminate|split; [exact Hla|reflexivity]]]].
Qed.

(* ---------- the statements ---------- *)
Theorem wf_closed_under_substitution :
  forall e path told vold t' v',
    wf e = true -> lit_at path e = Some (told, vold) -> subst_ok told t' v' = true ->
    exists e', subst path t' v' e = Some e' /\ wf e' = true /\
               lit_at path e' = Some (t', v') /\
               subst path told vold e' = Some e.
Proof.
  intros e path told vold t' v' Hwf HL HO.
  destruct (proj1 (PInv_all e) _ _ _ _ _ Hwf HL HO) as (e' & Hs & Hw' & _ & _ & Hla & Hbk).
  exists e'. repeat split; assumption.
Qed.

Corollary subst_then_print_parses_back :
  forall e path told vold t' v',
    wf e = true -> lit_at path e = Some (told, vold) -> subst_ok told t' v' = true ->
    exists e', subst path t' v' e = Some e' /\ parse (print e') = Some e' /\
               lit_at path e' = Some (t', v') /\ subst path told vold e' = Some e.
Proof.
  intros e path told vold t' v' Hwf HL HO.
  destruct (wf_closed_under_substitution e path told vold t' v' Hwf HL HO) as (e' & Hs & Hw' & Hla & Hbk).
  exists e'. repeat split; try assumption. apply print_parse_roundtrip. exact Hw'.
Qed.
