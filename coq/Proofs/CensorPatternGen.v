(** Generalisation of a statement (placeholders at any selection of generalisable positions):
    the result is an instance pattern of the statement, keeps the shape the matcher relies on, and is therefore
    matched by the implemented matcher. *)
From Coq Require Import List Bool NArith Arith Lia.
From Acra Require Import Lib.Bytes Lib.Outcome Model.CensorPattern Proofs.CensorTree Proofs.CensorPatternSound
  Proofs.CensorPatternTotal Proofs.CensorPatternComplete.
Import ListNotations.

(** * Facts about the placeholder constants (by computation) *)

Lemma ph_facts :
  is_value_ph PAT_VALUE = true /\ is_list_ph PAT_LIST_OF_VALUES = true /\ is_column_ph PAT_COLUMN = true /\
  is_where_ph PAT_WHERE = true /\ is_column_ph (kid 1 PAT_COLUMN_EXPR) = true /\
  is_k K_ColName (kid 0 PAT_COLUMN_ITEM) = true /\ is_column_ph (kid 1 (kid 0 PAT_COLUMN_ITEM)) = true /\
  is_k K_StarExpr PAT_STAR = true.
Proof. vm_compute. repeat split; reflexivity. Qed.

Lemma ph_kinds :
  tkind PAT_VALUE = K_SQLVal /\ tkind PAT_LIST_OF_VALUES = K_SQLVal /\ tkind PAT_COLUMN = K_ColIdent /\
  tkind PAT_COLUMN_EXPR = K_ColName /\ tkind PAT_COLUMN_ITEM = K_AliasedExpr /\ tkind PAT_WHERE = K_Where /\
  tkind PAT_STAR = K_StarExpr.
Proof. vm_compute. repeat split; reflexivity. Qed.

Lemma stmt_ph_kind k c : stmt_ph k = Some c -> tkind c = k.
Proof. destruct k; cbn; intro H; try discriminate H; injection H as <-; reflexivity. Qed.

Lemma ph_wf :
  wf PAT_VALUE = true /\ wf PAT_LIST_OF_VALUES = true /\ wf PAT_COLUMN = true /\ wf PAT_COLUMN_EXPR = true /\
  wf PAT_COLUMN_ITEM = true /\ wf PAT_WHERE = true /\ wf PAT_STAR = true /\ wf PAT_SUBQUERY_SELECT = true /\
  wf PAT_UNION = true /\ wf PAT_SELECT = true /\ wf PAT_INSERT = true /\ wf PAT_UPDATE = true /\ wf PAT_DELETE = true.
Proof. vm_compute. repeat split; reflexivity. Qed.

Lemma ph_supported :
  supported PAT_VALUE = true /\ supported PAT_LIST_OF_VALUES = true /\ supported PAT_COLUMN = true /\
  supported PAT_COLUMN_EXPR = true /\ supported PAT_COLUMN_ITEM = true /\ supported PAT_WHERE = true /\
  supported PAT_STAR = true /\ supported PAT_SUBQUERY_SELECT = true /\
  supported PAT_UNION = true /\ supported PAT_SELECT = true /\ supported PAT_INSERT = true /\
  supported PAT_UPDATE = true /\ supported PAT_DELETE = true.
Proof. vm_compute. repeat split; reflexivity. Qed.

(** * Unfolding *)

Lemma generalise_unfold sel path k l cs :
  generalise sel path (T k l cs) =
    let s0 := T k l cs in
    let rebuilt := if atomic k then s0 else T k l (gen_kids sel (generalise sel) k path None 0 cs) in
    match sel path with
    | GNone => rebuilt
    | GValue => if value_class s0 then PAT_VALUE else rebuilt
    | GColumn =>
        if is_k K_ColIdent s0 then PAT_COLUMN
        else if column_like s0 then PAT_COLUMN_EXPR
        else if is_k K_StarExpr s0 then PAT_COLUMN_ITEM
        else rebuilt
    | GOther =>
        match k with
        | K_Subquery => T K_Subquery [] [PAT_SUBQUERY_SELECT]
        | K_SelectExprs | K_Returning => T k [] [PAT_STAR]
        | _ => match stmt_ph k with Some c => c | None => rebuilt end
        end
    | GList n =>
        if is_k K_ValTuple s0 && (1 <=? n) && (n <=? length cs) && forallb value_class (skipn (length cs - n) cs)
        then T k l (gen_kids sel (generalise sel) k path (Some (length cs - n)) 0 cs)
        else rebuilt
    end.
Proof. reflexivity. Qed.

(** * Reflexivity of the documented relation on the nodes that are kept as they are *)

Lemma colident_eqb_refl c : colident_eqb c c = true.
Proof. apply bytes_eqb_refl. Qed.

Lemma fold_eqb_refl b : fold_eqb b b = true.
Proof. apply bytes_eqb_refl. Qed.

Lemma inst_refl_atomic k l cs : atomic k = true -> wf (T k l cs) = true -> inst false (T k l cs) (T k l cs) = true.
Proof.
  intros Ha Hw. rewrite inst_unfold. cbn beta zeta.
  destruct k; cbn in Ha; try discriminate Ha; cbn [deep_stmt slice_kind andb];
    try (apply tree_eqb_refl).
  - (* nil *) reflexivity.
  - (* string *) unfold is_k. cbn [tkind tlab]. rewrite kind_eqb_refl, fold_eqb_refl. reflexivity.
  - (* bytes *) cbn in Hw. bsplit. destruct cs; [|discriminate]. cbn. rewrite bytes_eqb_refl. reflexivity.
  - (* bool *) cbn in Hw. bsplit. destruct cs; [|discriminate]. cbn. rewrite bytes_eqb_refl. reflexivity.
  - (* int *) cbn in Hw. bsplit. destruct cs; [|discriminate]. cbn. rewrite bytes_eqb_refl. reflexivity.
  - (* BoolVal *) cbn in Hw. bsplit. destruct cs; [|discriminate]. cbn. rewrite bytes_eqb_refl. reflexivity.
  - (* ColIdent *) unfold is_k. cbn [tkind]. rewrite kind_eqb_refl, colident_eqb_refl, orb_true_r. reflexivity.
  - (* ListArg *) cbn in Hw. bsplit. destruct cs; [|discriminate]. cbn. rewrite bytes_eqb_refl. reflexivity.
  - (* NullVal *) cbn in Hw. bsplit. explode. cbn. labels. reflexivity.
  - (* SQLVal *)
    destruct (is_value_ph _ || is_list_ph _); [reflexivity|].
    unfold is_k. cbn [tkind]. rewrite kind_eqb_refl. cbn [andb].
    rewrite tree_eqb_refl, !lab_eqb_refl, tree_eqb_refl. destruct (_ || _); reflexivity.
Qed.

(** * The generalisation is an instance pattern of the statement *)

Lemma where_field_ok k l cs i :
  wf (T k l cs) = true -> opt_nat_is (where_idx k) i = true ->
  is_nil (nth i cs tnil) || is_k K_Where (nth i cs tnil) = true.
Proof.
  intros Hw Hi. destruct k; cbn [where_idx opt_nat_is] in Hi; try discriminate Hi;
    apply Nat.eqb_eq in Hi; subst i;
    rewrite wf_unfold in Hw;
    cbn [leaf_kind list_kind list_pol kind_is_slice struct_spec forallb entry_ok fst snd kid tkids] in Hw; bsplit; assumption.
Qed.

Section GenInst.
  Variable sel : list nat -> gsel.

  Definition InstAt (c : tree) : Prop := forall p, inst false (generalise sel p c) c = true.

  Lemma inst_kids_gen k path : forall cs i,
    (forall j, opt_nat_is (where_idx k) (i + j) = true ->
               is_nil (nth j cs tnil) || is_k K_Where (nth j cs tnil) = true) ->
    Forall InstAt cs ->
    inst_kids (inst false) false k i (gen_kids sel (generalise sel) k path None i cs) cs false = true.
  Proof.
    induction cs as [|c cs IHcs]; intros i Hwh Hall; [reflexivity|].
    cbn [gen_kids inst_kids opt_nat_is]. cbn [andb].
    assert (Hrest : inst_kids (inst false) false k (S i) (gen_kids sel (generalise sel) k path None (S i) cs) cs false = true).
    { apply IHcs; [|eapply Forall_inv_tail; eauto]. intros j Hj. apply (Hwh (S j)). rewrite Nat.add_succ_r. exact Hj. }
    pose proof (Hwh 0) as Hw0. rewrite Nat.add_0_r in Hw0. cbn [nth] in Hw0.
    destruct (ignorable k i) eqn:Eig; cbn [orb]; [exact Hrest|].
    destruct (opt_nat_is (where_idx k) i) eqn:Ewi; cbn [andb].
    - destruct ((is_nil c || is_k K_Where c) && is_gother (sel (path ++ [i]))) eqn:Ec.
      + destruct ph_facts as (_ & _ & _ & Hw & _). rewrite Hw. apply andb_true_iff in Ec. destruct Ec as [Ec _].
        rewrite Ec, Hrest. reflexivity.
      + destruct (is_where_ph (generalise sel (path ++ [i]) c)).
        * rewrite Hw0, Hrest; reflexivity.
        * rewrite (Forall_inv Hall), Hrest. reflexivity.
    - rewrite (Forall_inv Hall), Hrest. reflexivity.
  Qed.

  Lemma sqlval_list_ph_inst p q :
    is_k K_SQLVal p = true -> is_list_ph p = true -> inst false p q = true -> value_class q = true.
  Proof.
    intros Hk Hl H. destruct p as [k l cs]. apply kind_eqb_eq in Hk. cbn in Hk. subst k.
    rewrite inst_unfold in H. cbn beta zeta iota in H. rewrite Hl, orb_true_r in H. exact H.
  Qed.

  Lemma gen_kids_valtuple path cut i cs :
    gen_kids sel (generalise sel) K_ValTuple path cut i cs =
    match cs with
    | [] => []
    | c :: tl => if opt_nat_is cut i then [PAT_LIST_OF_VALUES]
                 else generalise sel (path ++ [i]) c :: gen_kids sel (generalise sel) K_ValTuple path cut (S i) tl
    end.
  Proof. destruct cs; reflexivity. Qed.

  Lemma inst_tuple_gen path : forall cs i, Forall InstAt cs ->
    inst_tuple (inst false) (gen_kids sel (generalise sel) K_ValTuple path None i cs) cs = true.
  Proof.
    induction cs as [|c cs IHcs]; intros i Hall; [reflexivity|].
    rewrite gen_kids_valtuple. cbn [opt_nat_is inst_tuple].
    pose proof (Forall_inv Hall path) as Hc. pose proof (Forall_inv Hall (path ++ [i])) as Hci.
    destruct cs as [|c2 cs].
    - cbn [gen_kids]. destruct (is_k K_SQLVal _ && is_list_ph _) eqn:E.
      + apply andb_true_iff in E. destruct E as [E1 E2]. rewrite (sqlval_list_ph_inst _ _ E1 E2 Hci). reflexivity.
      + rewrite Hci. reflexivity.
    - rewrite gen_kids_valtuple. cbn [opt_nat_is]. rewrite Hci. cbn [andb].
      specialize (IHcs (S i) (Forall_inv_tail Hall)). rewrite gen_kids_valtuple in IHcs. cbn [opt_nat_is] in IHcs.
      exact IHcs.
  Qed.

  Lemma inst_tuple_cut path m : forall cs i, i <= m -> m < i + length cs -> Forall InstAt cs ->
    forallb value_class (skipn (m - i) cs) = true ->
    inst_tuple (inst false) (gen_kids sel (generalise sel) K_ValTuple path (Some m) i cs) cs = true.
  Proof.
    induction cs as [|c cs IHcs]; intros i Hle Hlt Hall Hv; [cbn in Hlt; lia|].
    rewrite gen_kids_valtuple. cbn [opt_nat_is].
    destruct (Nat.eqb i m) eqn:Eim.
    - apply Nat.eqb_eq in Eim. subst m. rewrite Nat.sub_diag in Hv. cbn [skipn] in Hv.
      cbn [inst_tuple]. destruct ph_facts as (_ & Hl & _). destruct ph_kinds as (_ & Hk & _).
      unfold is_k. rewrite Hk, kind_eqb_refl, Hl. cbn [andb]. cbn [forallb] in Hv. exact Hv.
    - apply Nat.eqb_neq in Eim. cbn [length] in Hlt.
      assert (Hv' : forallb value_class (skipn (m - S i) cs) = true).
      { replace (m - i) with (S (m - S i)) in Hv by lia. exact Hv. }
      destruct cs as [|c2 cs]; [cbn in Hlt; lia|].
      specialize (IHcs (S i) ltac:(lia) ltac:(cbn [length] in *; lia) (Forall_inv_tail Hall) Hv').
      cbn [inst_tuple]. rewrite gen_kids_valtuple in *. 
      destruct (opt_nat_is (Some m) (S i)); rewrite (Forall_inv Hall (path ++ [i])); cbn [andb]; exact IHcs.
  Qed.

  Lemma inst_rebuild path k l cs :
    atomic k = false -> wf (T k l cs) = true -> Forall InstAt cs ->
    inst false (T k l (gen_kids sel (generalise sel) k path None 0 cs)) (T k l cs) = true.
  Proof.
    intros Ha Hw Hall.
    assert (Hk : inst_kids (inst false) false k 0 (gen_kids sel (generalise sel) k path None 0 cs) cs false = true).
    { apply inst_kids_gen; auto. intros j Hj. cbn [Nat.add] in Hj. eapply where_field_ok; eauto. }
    pose proof (inst_tuple_gen path cs 0 Hall) as Ht.
    rewrite inst_unfold. cbn beta zeta. cbn [tkind tlab tkids].
    destruct k; cbn in Ha; try discriminate Ha;
      cbn -[inst inst_kids inst_tuple is_star_list bytes_eqb gen_kids];
      rewrite ?bytes_eqb_refl, ?Hk, ?Ht, ?orb_true_r; try reflexivity;
      destruct (is_star_list _); reflexivity.
  Qed.
End GenInst.

Lemma Forall_wf_kids (P : tree -> Prop) cs :
  forallb wf cs = true -> Forall (fun c => wf c = true -> P c) cs -> Forall P cs.
Proof.
  induction cs as [|c cs IH]; intros Hw Hall; [constructor|].
  cbn [forallb] in Hw. apply andb_true_iff in Hw. destruct Hw as [Hc Hcs].
  constructor; [exact (Forall_inv Hall Hc) | exact (IH Hcs (Forall_inv_tail Hall))].
Qed.

Lemma value_class_not_column_name s : value_class s = true -> is_k K_ColName s = false.
Proof.
  destruct s as [k l cs]. unfold value_class, value_like, is_k. cbn [tkind].
  destruct k; cbn; intro H; try discriminate H; reflexivity.
Qed.

Lemma stmt_ph_inst k c l cs : stmt_ph k = Some c -> inst false c (T k l cs) = true.
Proof.
  destruct k; cbn [stmt_ph]; intro H; try discriminate H; injection H as <-.
  - unfold PAT_DELETE. rewrite inst_unfold. cbn beta zeta iota. cbn [stmt_ph]. unfold PAT_DELETE.
    rewrite tree_eqb_refl. reflexivity.
  - unfold PAT_INSERT. rewrite inst_unfold. cbn beta zeta iota. cbn [stmt_ph]. unfold PAT_INSERT.
    rewrite tree_eqb_refl. reflexivity.
  - unfold PAT_SELECT. rewrite inst_unfold. cbn beta zeta iota. cbn [stmt_ph]. unfold PAT_SELECT.
    rewrite tree_eqb_refl. reflexivity.
  - unfold PAT_UNION. rewrite inst_unfold. cbn beta zeta iota. cbn [stmt_ph]. unfold PAT_UNION.
    rewrite tree_eqb_refl. reflexivity.
  - unfold PAT_UPDATE. rewrite inst_unfold. cbn beta zeta iota. cbn [stmt_ph]. unfold PAT_UPDATE.
    rewrite tree_eqb_refl. reflexivity.
Qed.

(** a generalisation of a statement is a pattern the statement is an instance of (documented relation) *)
Lemma gen_inst sel : forall s, wf s = true -> forall path, inst false (generalise sel path s) s = true.
Proof.
  induction s as [k l cs IH] using tree_ind'. intros Hw path.
  assert (Hall : Forall (InstAt sel) cs).
  { apply (Forall_wf_kids (InstAt sel) cs (wf_kids _ _ _ Hw)).
    eapply Forall_impl; [|exact IH]. intros c Hc Hwc p. exact (Hc Hwc p). }
  assert (Hreb : inst false (if atomic k then T k l cs else T k l (gen_kids sel (generalise sel) k path None 0 cs))
                   (T k l cs) = true).
  { destruct (atomic k) eqn:Ha; [apply inst_refl_atomic | apply inst_rebuild]; assumption. }
  rewrite generalise_unfold. cbn beta zeta.
  destruct ph_facts as (Fv & Fl & Fc & Fw & Fce & Fci1 & Fci2 & Fst).
  destruct (sel path) as [| | | |n].
  - exact Hreb.
  - destruct (value_class (T k l cs)) eqn:Ev; [|exact Hreb].
    unfold PAT_VALUE. rewrite inst_unfold. cbn beta zeta iota.
    change (T K_SQLVal _ _) with PAT_VALUE. rewrite Fv. exact Ev.
  - destruct (is_k K_ColIdent (T k l cs)) eqn:E1.
    { unfold PAT_COLUMN. rewrite inst_unfold. cbn beta zeta iota. change (T K_ColIdent _ _) with PAT_COLUMN.
      rewrite Fc, E1. reflexivity. }
    destruct (column_like (T k l cs)) eqn:E2.
    { unfold PAT_COLUMN_EXPR. rewrite inst_unfold. cbn beta zeta iota. change (T K_ColName _ _) with PAT_COLUMN_EXPR.
      assert (E3 : is_k K_ColName (T k l cs) = false).
      { unfold column_like, is_k in *. cbn [tkind] in *. destruct k; cbn in E2; try discriminate E2; reflexivity. }
      rewrite E3, E2, Fce. reflexivity. }
    destruct (is_k K_StarExpr (T k l cs)) eqn:E3; [|exact Hreb].
    unfold PAT_COLUMN_ITEM. rewrite inst_unfold. cbn beta zeta iota. change (T K_AliasedExpr _ _) with PAT_COLUMN_ITEM.
    assert (E4 : is_k K_AliasedExpr (T k l cs) = false).
    { unfold is_k in *. cbn [tkind] in *. destruct k; cbn in E3; try discriminate E3; reflexivity. }
    rewrite E4, E3, Fci1, Fci2. reflexivity.
  - destruct k; try exact Hreb; try (apply stmt_ph_inst; reflexivity).
    + (* Returning *) rewrite inst_unfold. cbn beta zeta iota. cbn [is_star_list]. rewrite Fst. reflexivity.
    + (* SelectExprs *) rewrite inst_unfold. cbn beta zeta iota. cbn [is_star_list]. rewrite Fst. reflexivity.
    + (* Subquery *) rewrite inst_unfold. cbn beta zeta iota. unfold is_subquery_ph. cbn [kid tkids nth].
      rewrite tree_eqb_refl. reflexivity.
  - destruct (is_k K_ValTuple (T k l cs) && (1 <=? n) && (n <=? length cs)
              && forallb value_class (skipn (length cs - n) cs)) eqn:E; [|exact Hreb].
    bsplit. kind_subst.
    rewrite inst_unfold. cbn beta zeta iota. unfold is_k. cbn [tkind tkids]. rewrite kind_eqb_refl. cbn [andb].
    match goal with A : (1 <=? n) = true, B : (n <=? length cs) = true |- _ =>
      apply Nat.leb_le in A; apply Nat.leb_le in B end.
    apply inst_tuple_cut; auto; try lia. rewrite Nat.sub_0_r. assumption.
Qed.

(** * The generalisation keeps the shape the matcher relies on *)

Lemma ph_wf2 :
  wf (T K_Subquery [] [PAT_SUBQUERY_SELECT]) = true /\ wf (T K_SelectExprs [] [PAT_STAR]) = true /\
  wf (T K_Returning [] [PAT_STAR]) = true /\
  supported (T K_Subquery [] [PAT_SUBQUERY_SELECT]) = true /\ supported (T K_SelectExprs [] [PAT_STAR]) = true /\
  supported (T K_Returning [] [PAT_STAR]) = true.
Proof. vm_compute. repeat split; reflexivity. Qed.

(** what [wf] looks at in a child: nil, slice, comments, bool, WHERE clause, or anything else *)
Inductive kcl := CNil | CSlice | CComments | CBool | CWhere | COther.

Definition kclass (k : kind) : kcl :=
  match k with
  | K_nil => CNil
  | K_Comments => CComments
  | K_bool => CBool
  | K_Where => CWhere
  | _ => if slice_kind k then CSlice else COther
  end.

Definition entry_cl (c : fcmp) (x : kcl) : bool :=
  match c with
  | FM PFalse | FM PPanic | FM PVal => match x with CNil | CSlice => false | _ => true end
  | FLab => match x with CBool => true | _ => false end
  | FM PList => match x with CNil | CSlice => true | _ => false end
  | FDeep => match x with CNil | CComments => true | _ => false end
  | FWhere => match x with CNil | CWhere => true | _ => false end
  | FM PGuard => match x with CSlice => false | _ => true end
  end.

Lemma entry_ok_class t e : entry_ok t e = entry_cl (snd e) (kclass (tkind (kid (fst e) t))).
Proof.
  unfold entry_ok, is_nil, is_k. set (kk := tkind (kid (fst e) t)).
  destruct (snd e) as [pl| | |]; [destruct pl|..]; destruct kk; reflexivity.
Qed.

Lemma nil_class c : is_nil c = match kclass (tkind c) with CNil => true | _ => false end.
Proof. unfold is_nil. destruct (tkind c); reflexivity. Qed.

Lemma slice_class c : slice_kind (tkind c) = match kclass (tkind c) with CSlice => true | _ => false end.
Proof. destruct (tkind c); reflexivity. Qed.

Lemma where_entry k sp i c :
  struct_spec k = Some sp -> In (i, c) sp -> opt_nat_is (where_idx k) i = true -> c = FWhere.
Proof.
  destruct k; cbn [struct_spec where_idx opt_nat_is]; intros Hs Hin Hi; try discriminate Hi;
    injection Hs as <-; cbn [In] in Hin;
    repeat (destruct Hin as [Hin|Hin];
            [injection Hin as <- <-; cbn in Hi; first [discriminate Hi | reflexivity]|]);
    contradiction.
Qed.

Section GenWf.
  Variable sel : list nat -> gsel.

  Lemma gen_kclass path s : kclass (tkind (generalise sel path s)) = kclass (tkind s).
  Proof.
    destruct s as [k l cs]. rewrite generalise_unfold. cbn beta zeta.
    assert (Hreb : forall x, kclass (tkind (if atomic k then T k l cs else T k l x)) = kclass (tkind (T k l cs)))
      by (intro x; destruct (atomic k); reflexivity).
    destruct (sel path) as [| | | |n].
    - apply Hreb.
    - destruct (value_class (T k l cs)) eqn:E; [|apply Hreb].
      unfold value_class, value_like, is_k in E. cbn [tkind] in *. destruct k; cbn in E; try discriminate E; reflexivity.
    - destruct (is_k K_ColIdent (T k l cs)) eqn:E1.
      { unfold is_k in E1. cbn [tkind] in *. destruct k; cbn in E1; try discriminate E1; reflexivity. }
      destruct (column_like (T k l cs)) eqn:E2.
      { unfold column_like, is_k in E2. cbn [tkind] in *. destruct k; cbn in E2; try discriminate E2; reflexivity. }
      destruct (is_k K_StarExpr (T k l cs)) eqn:E3; [|apply Hreb].
      unfold is_k in E3. cbn [tkind] in *. destruct k; cbn in E3; try discriminate E3; reflexivity.
    - destruct k; try apply Hreb; reflexivity.
    - destruct (_ && _); [reflexivity | apply Hreb].
  Qed.

  Lemma gen_kids_length k path : forall cs i,
    length (gen_kids sel (generalise sel) k path None i cs) = length cs.
  Proof. induction cs as [|c cs IH]; intro i; cbn [gen_kids opt_nat_is length]; [reflexivity | rewrite IH; reflexivity]. Qed.

  (** class of child j of the rebuilt node: the class of the old child, or a WHERE clause in the WHERE field
      in place of nil / a WHERE clause *)
  Lemma gen_kids_class k path : forall cs i j,
    kclass (tkind (nth j (gen_kids sel (generalise sel) k path None i cs) tnil)) = kclass (tkind (nth j cs tnil)) \/
    (opt_nat_is (where_idx k) (i + j) = true /\
     kclass (tkind (nth j (gen_kids sel (generalise sel) k path None i cs) tnil)) = CWhere).
  Proof.
    induction cs as [|c cs IH]; intros i j.
    - left. destruct j; reflexivity.
    - cbn [gen_kids opt_nat_is]. destruct j as [|j]; cbn [nth].
      + rewrite Nat.add_0_r.
        destruct (opt_nat_is (where_idx k) i && (is_nil c || is_k K_Where c) && is_gother (sel (path ++ [i]))) eqn:E.
        * right. bsplit. split; [assumption | reflexivity].
        * left. apply gen_kclass.
      + rewrite Nat.add_succ_r. apply (IH (S i) j).
  Qed.

  Lemma entry_ok_rebuilt k l cs path sp e :
    struct_spec k = Some sp -> In e sp ->
    entry_ok (T k l cs) e = true ->
    entry_ok (T k l (gen_kids sel (generalise sel) k path None 0 cs)) e = true.
  Proof.
    intros Hs Hin H. rewrite entry_ok_class in *. unfold kid in *. cbn [tkids] in *.
    destruct (gen_kids_class k path cs 0 (fst e)) as [Hc | [Hi Hc]]; rewrite Hc; [exact H|].
    cbn [Nat.add] in Hi. destruct e as [i c]. cbn [fst snd] in *.
    rewrite (where_entry k sp i c Hs Hin Hi). reflexivity.
  Qed.

  Definition WfAt (c : tree) : Prop := wf c = true -> forall p, wf (generalise sel p c) = true.

  Lemma wf_pat_where : wf PAT_WHERE = true.
  Proof. apply ph_wf. Qed.

  Lemma wf_gen_kids k path cut : forall cs i,
    Forall WfAt cs -> forallb wf cs = true ->
    forallb wf (gen_kids sel (generalise sel) k path cut i cs) = true.
  Proof.
    induction cs as [|c cs IH]; intros i Hall Hw; [reflexivity|].
    cbn [forallb] in Hw. apply andb_true_iff in Hw. destruct Hw as [Hc Hcs].
    cbn [gen_kids]. destruct (opt_nat_is cut i).
    - cbn [forallb]. destruct ph_wf as (_ & -> & _). reflexivity.
    - cbn [forallb]. rewrite (IH (S i) (Forall_inv_tail Hall) Hcs).
      destruct (opt_nat_is (where_idx k) i && _ && _); [rewrite wf_pat_where | rewrite (Forall_inv Hall Hc)]; reflexivity.
  Qed.

  (** list nodes: elements keep being non-slices / non-nil *)
  Lemma class_gen_kids (f : kcl -> bool) k path cut : where_idx k = None ->
    f COther = true ->
    forall cs i,
    forallb (fun c => f (kclass (tkind c))) cs = true ->
    forallb (fun c => f (kclass (tkind c))) (gen_kids sel (generalise sel) k path cut i cs) = true.
  Proof.
    intros Hk Hf. induction cs as [|c cs IH]; intros i H; [reflexivity|].
    cbn [forallb] in H. apply andb_true_iff in H. destruct H as [Hc Hcs].
    cbn [gen_kids]. rewrite Hk. cbn [opt_nat_is andb]. destruct (opt_nat_is cut i); cbn [forallb].
    - destruct ph_kinds as (_ & -> & _). cbn. rewrite Hf. reflexivity.
    - rewrite gen_kclass, Hc, (IH (S i) Hcs). reflexivity.
  Qed.
End GenWf.

Lemma forallb_eq {A} (f g : A -> bool) l : (forall x, f x = g x) -> forallb f l = forallb g l.
Proof. intro H. induction l as [|x l IH]; cbn [forallb]; [reflexivity | rewrite H, IH; reflexivity]. Qed.

Lemma atomic_leaf k : leaf_kind k = true -> atomic k = true.
Proof. intro H. unfold atomic. rewrite H. reflexivity. Qed.

Lemma atomic_deep k : deep_stmt k = true -> atomic k = true.
Proof. intro H. unfold atomic. rewrite H. apply orb_true_iff. left. apply orb_true_r. Qed.

Lemma not_atomic_sqlval k (a : bool) : atomic k = false -> match k with K_SQLVal => a | _ => true end = true.
Proof. destruct k; cbn; intro H; try discriminate H; reflexivity. Qed.

Lemma stmt_ph_wf k c : stmt_ph k = Some c -> wf c = true /\ supported c = true.
Proof.
  destruct ph_wf as (_ & _ & _ & _ & _ & _ & _ & _ & W1 & W2 & W3 & W4 & W5).
  destruct ph_supported as (_ & _ & _ & _ & _ & _ & _ & _ & S1 & S2 & S3 & S4 & S5).
  destruct k; cbn [stmt_ph]; intro H; try discriminate H; injection H as <-; split; assumption.
Qed.

Section GenWf2.
  Variable sel : list nat -> gsel.

  Lemma wf_list_node k l cs cs' :
    list_kind k = true -> wf (T k l cs) = true ->
    forallb wf cs' = true ->
    (forall f : kcl -> bool, f COther = true ->
        forallb (fun c => f (kclass (tkind c))) cs = true -> forallb (fun c => f (kclass (tkind c))) cs' = true) ->
    wf (T k l cs') = true.
  Proof.
    intros Hlk Hw Hw' Hcl. rewrite wf_unfold in *. rewrite (leaf_kind_not_list k Hlk), Hlk in *. bsplit.
    rewrite Hw'. cbn [andb].
    match goal with E : is_empty l = true |- _ => rewrite E end. cbn [andb].
    assert (Hs : forallb (fun c => negb (slice_kind (tkind c))) cs' = true).
    { rewrite (forallb_eq _ (fun c => (fun x => match x with CSlice => false | _ => true end) (kclass (tkind c)))).
      - apply (Hcl (fun x => match x with CSlice => false | _ => true end)); [reflexivity|].
        rewrite <- (forallb_eq (fun c => negb (slice_kind (tkind c)))); [assumption|].
        intro c. rewrite slice_class. destruct (kclass (tkind c)); reflexivity.
      - intro c. rewrite slice_class. destruct (kclass (tkind c)); reflexivity. }
    rewrite Hs. cbn [andb].
    assert (Hn : forallb (fun c => negb (is_nil c)) cs = true -> forallb (fun c => negb (is_nil c)) cs' = true).
    { intro Hnn. rewrite (forallb_eq _ (fun c => (fun x => match x with CNil => false | _ => true end) (kclass (tkind c)))).
      - apply (Hcl (fun x => match x with CNil => false | _ => true end)); [reflexivity|].
        rewrite <- (forallb_eq (fun c => negb (is_nil c))); [assumption|].
        intro c. rewrite nil_class. destruct (kclass (tkind c)); reflexivity.
      - intro c. rewrite nil_class. destruct (kclass (tkind c)); reflexivity. }
    destruct (list_pol k) as [[]|]; auto.
  Qed.

  Lemma gen_wf : forall s, WfAt sel s.
  Proof.
    induction s as [k l cs IH] using tree_ind'. intros Hw path.
    pose proof (wf_kids _ _ _ Hw) as Hwk.
    assert (Hreb : wf (if atomic k then T k l cs else T k l (gen_kids sel (generalise sel) k path None 0 cs)) = true).
    { destruct (atomic k) eqn:Ha; [exact Hw|].
      pose proof (wf_gen_kids sel k path None cs 0 IH Hwk) as Hk'.
      destruct (list_kind k) eqn:Hlk.
      - apply (wf_list_node k l cs); auto. intros f Hf H.
        apply class_gen_kids; auto. apply no_where_list; assumption.
      - rewrite wf_unfold in *. rewrite Hlk in *.
        destruct (leaf_kind k) eqn:Hl; [rewrite (atomic_leaf k Hl) in Ha; discriminate Ha|].
        destruct (kind_is_slice k) eqn:Hsl.
        { bsplit. rewrite Hk'. cbn [andb]. assumption. }
        bsplit. rewrite Hk'. cbn [andb].
        match goal with E : is_empty l = true |- _ => rewrite E end.
        rewrite gen_kids_length.
        match goal with E : (length cs =? _) = true |- _ => rewrite E end. cbn [andb].
        rewrite (not_atomic_sqlval k _ Ha), andb_true_r.
        destruct (struct_spec k) as [sp|] eqn:Hs; [|reflexivity].
        apply forallb_forall. intros e Hin.
        apply (entry_ok_rebuilt sel k l cs path sp e Hs Hin).
        match goal with E : forallb (entry_ok _) sp = true |- _ => exact (proj1 (forallb_forall _ _) E e Hin) end. }
    rewrite generalise_unfold. cbn beta zeta.
    destruct ph_wf as (W1 & W2 & W3 & W4 & W5 & W6 & W7 & _).
    destruct ph_wf2 as (X1 & X2 & X3 & _).
    destruct (sel path) as [| | | |n].
    - exact Hreb.
    - destruct (value_class _); [exact W1 | exact Hreb].
    - destruct (is_k K_ColIdent _); [exact W3|]. destruct (column_like _); [exact W4|].
      destruct (is_k K_StarExpr _); [exact W5 | exact Hreb].
    - destruct k; try exact Hreb; try assumption; cbn [stmt_ph]; apply (stmt_ph_wf _ _ eq_refl).
    - destruct (is_k K_ValTuple (T k l cs) && _ && _ && _) eqn:E; [|exact Hreb].
      bsplit. kind_subst.
      apply (wf_list_node K_ValTuple l cs); auto.
      + apply wf_gen_kids; auto.
      + intros f Hf H. apply class_gen_kids; auto.
  Qed.

  Lemma supported_unfold k l cs : supported (T k l cs) = comparable k && (deep_stmt k || forallb supported cs).
  Proof. reflexivity. Qed.

  Definition SupAt (c : tree) : Prop := supported c = true -> forall p, supported (generalise sel p c) = true.

  Lemma supported_gen_kids k path cut : forall cs i,
    Forall SupAt cs -> forallb supported cs = true ->
    forallb supported (gen_kids sel (generalise sel) k path cut i cs) = true.
  Proof.
    induction cs as [|c cs IH]; intros i Hall Hw; [reflexivity|].
    cbn [forallb] in Hw. apply andb_true_iff in Hw. destruct Hw as [Hc Hcs].
    cbn [gen_kids]. destruct (opt_nat_is cut i).
    - cbn [forallb]. destruct ph_supported as (_ & -> & _). reflexivity.
    - cbn [forallb]. rewrite (IH (S i) (Forall_inv_tail Hall) Hcs).
      destruct (opt_nat_is (where_idx k) i && _ && _);
        [destruct ph_supported as (_ & _ & _ & _ & _ & -> & _) | rewrite (Forall_inv Hall Hc)]; reflexivity.
  Qed.

  Lemma gen_supported : forall s, SupAt s.
  Proof.
    induction s as [k l cs IH] using tree_ind'. intros Hs path.
    assert (Hreb : forall cut,
      supported (if atomic k then T k l cs else T k l (gen_kids sel (generalise sel) k path cut 0 cs)) = true).
    { intro cut. destruct (atomic k) eqn:Ha; [exact Hs|].
      rewrite supported_unfold in *. bsplit.
      match goal with E : comparable k = true |- _ => rewrite E end. cbn [andb].
      destruct (deep_stmt k) eqn:Hd; [reflexivity|]. cbn [orb] in *.
      apply supported_gen_kids; assumption. }
    rewrite generalise_unfold. cbn beta zeta.
    destruct ph_supported as (S1 & S2 & S3 & S4 & S5 & S6 & S7 & _).
    destruct ph_wf2 as (_ & _ & _ & X1 & X2 & X3).
    destruct (sel path) as [| | | |n].
    - apply Hreb.
    - destruct (value_class _); [exact S1 | apply Hreb].
    - destruct (is_k K_ColIdent _); [exact S3|]. destruct (column_like _); [exact S4|].
      destruct (is_k K_StarExpr _); [exact S5 | apply Hreb].
    - destruct k; try apply Hreb; try assumption; cbn [stmt_ph]; apply (stmt_ph_wf _ _ eq_refl).
    - destruct (is_k K_ValTuple (T k l cs) && _ && _ && _) eqn:E; [|apply Hreb].
      bsplit. kind_subst. specialize (Hreb (Some (length cs - n))). exact Hreb.
  Qed.

  Lemma gen_top_kind path s : top_kind (tkind s) = true -> tkind (generalise sel path s) = tkind s.
  Proof.
    destruct s as [k l cs]. cbn [tkind]. intro Ht. rewrite generalise_unfold. cbn beta zeta.
    destruct (sel path); destruct k; cbn in Ht; try discriminate Ht; reflexivity.
  Qed.
End GenWf2.

(** * The theorem: every generalisation of a statement matches it *)

Theorem generalisation_matches_all sel s :
  wf s = true -> supported s = true -> top_kind (tkind s) = true ->
  match_impl (generalise sel [] s) s = Ok true.
Proof.
  intros Hw Hs Ht. apply match_impl_complete.
  - rewrite gen_top_kind; assumption.
  - apply gen_wf; assumption.
  - assumption.
  - apply gen_supported; assumption.
  - apply gen_inst; assumption.
Qed.
