(** C03: every successful reveal is justified by AEAD openings of exactly the bytes at the declared
    positions under a key of the revealing client; hence a modified value reveals to the original or the
    underlying AEAD was forged (explicit witness).  No unforgeability assumption is made. *)
From Acra Require Import Lib.Bytes Lib.Outcome Lib.Sha256 Crypto.Interface Gen.Consts Model.Envelope
  Proofs.Envelope Proofs.EnvelopeHandlers Proofs.Scanner.
From Coq Require Import ZifyN ZifyNat ZifyBool.

Section Tamper.
Variable C : crypto.

(** the byte ranges an AcraBlock's header declares *)
Definition ab_ksz (b : bytes) : nat := N.to_nat (le_dec (sub AB_DEK_LEN_POS AB_DEK_LEN_SIZE b)).
Definition ab_ek (b : bytes) : bytes := sub AB_ENC_KEY_POS (ab_ksz b) b.
Definition ab_ed (b : bytes) : bytes := skipn (AB_MIN_SIZE + ab_ksz b) b.

Lemma ab_find_key_sound (keys : list bytes) (ctx kid ek dk : bytes) :
  ab_find_key C keys ctx kid ek = Some dk ->
  exists k, In k keys /\ bytes_eqb (ab_key_id k ctx) kid = true /\ cell_decrypt C k ctx ek = Some dk.
Proof.
  induction keys as [|k keys IH]; cbn [ab_find_key]; [discriminate|].
  destruct (bytes_eqb (ab_key_id k ctx) kid) eqn:Ek.
  - destruct (cell_decrypt C k ctx ek) as [d|] eqn:Ed.
    + intros [= <-]. exists k. split; [left; reflexivity| split; assumption].
    + intros H. destruct (IH H) as (k' & Hin & H1 & H2). exists k'. split; [right; exact Hin| split; assumption].
  - intros H. destruct (IH H) as (k' & Hin & H1 & H2). exists k'. split; [right; exact Hin| split; assumption].
Qed.

Theorem ab_reveal_sound (b : bytes) (keys : list bytes) (ctx y : bytes) :
  ab_decrypt C b keys ctx = Ok y ->
  AB_MIN_SIZE + ab_ksz b <= length b /\
  exists k dk, In k keys /\
    bytes_eqb (ab_key_id k ctx) (sub AB_KEY_ID_POS AB_KEY_ID_SIZE b) = true /\
    cell_decrypt C k ctx (ab_ek b) = Some dk /\
    cell_decrypt C dk ctx (ab_ed b) = Some y.
Proof.
  unfold ab_decrypt, ab_ek, ab_ed, ab_ksz.
  destruct (Nat.ltb_spec (length b) AB_MIN_SIZE); [discriminate|].
  set (ksz := N.to_nat (le_dec (sub AB_DEK_LEN_POS AB_DEK_LEN_SIZE b))).
  destruct (Nat.ltb_spec (length b) (AB_MIN_SIZE + ksz)); [discriminate|].
  destruct (negb _); [discriminate|].
  destruct (ab_find_key C keys ctx _ _) as [dk|] eqn:Ef; [|discriminate].
  destruct (cell_decrypt C dk ctx _) as [m|] eqn:Ed; [|discriminate].
  cbn [of_option]. intros [= <-]. split; [lia|].
  destruct (ab_find_key_sound _ _ _ _ _ Ef) as (k & Hin & Hid & Hk).
  exists k, dk. repeat split; assumption.
Qed.

Theorem as_reveal_sound (v priv ctx y : bytes) :
  as_decrypt C v priv ctx = Ok y ->
  as_validate v = true /\
  exists sk, msg_unwrap C priv (firstn AS_PUBKEY_LEN (skipn AS_TAG_LEN v))
                          (sub AS_PUBKEY_LEN AS_SMSG_LEN (skipn AS_TAG_LEN v)) = Some sk /\
             cell_decrypt C sk ctx (skipn (as_key_block + AS_DATALEN_SIZE) (skipn AS_TAG_LEN v)) = Some y.
Proof.
  unfold as_decrypt. destruct (as_validate v); [|discriminate]. cbn [negb].
  destruct (msg_unwrap C priv _ _) as [sk|] eqn:Eu; [|discriminate].
  destruct (cell_decrypt C sk ctx _) as [m|] eqn:Ed; [|discriminate].
  cbn [of_option]. intros [= <-]. split; [reflexivity|]. exists sk. split; [reflexivity| exact Ed].
Qed.

Lemma as_rotated_sound (v : bytes) (privs : list bytes) (ctx y : bytes) :
  as_decrypt_rotated C v privs ctx = Ok y -> exists p, In p privs /\ as_decrypt C v p ctx = Ok y.
Proof.
  induction privs as [|p rest IH]; cbn [as_decrypt_rotated]; [discriminate|].
  destruct (as_decrypt C v p ctx) as [x|e|] eqn:E.
  - intros [= <-]. exists p. split; [left; reflexivity| exact E].
  - destruct rest as [|q rest']; [discriminate|]. intros H. destruct (IH H) as (p' & Hin & Hp).
    exists p'. split; [right; exact Hin| exact Hp].
  - discriminate.
Qed.

(** ** honest openings and forgeries *)
Inductive opening :=
| OSeal (k c ct m : bytes)          (* seal_dec k c ct = Some m *)
| OWrap (priv pub ct m : bytes).    (* unwrap priv pub ct = Some m *)

Definition opening_eqb (a b : opening) : bool :=
  match a, b with
  | OSeal k c ct m, OSeal k' c' ct' m' => bytes_eqb k k' && bytes_eqb c c' && bytes_eqb ct ct' && bytes_eqb m m'
  | OWrap p q ct m, OWrap p' q' ct' m' => bytes_eqb p p' && bytes_eqb q q' && bytes_eqb ct ct' && bytes_eqb m m'
  | _, _ => false
  end.

Lemma opening_eqb_eq a b : opening_eqb a b = true <-> a = b.
Proof.
  destruct a, b; cbn [opening_eqb]; try (split; [discriminate| intros H; discriminate]).
  - rewrite !andb_true_iff, !bytes_eqb_eq. split; [intros [[[-> ->] ->] ->]; reflexivity| intros [= -> -> -> ->]; auto].
  - rewrite !andb_true_iff, !bytes_eqb_eq. split; [intros [[[-> ->] ->] ->]; reflexivity| intros [= -> -> -> ->]; auto].
Qed.

Definition valid_opening (o : opening) : Prop :=
  match o with
  | OSeal k c ct m => cell_decrypt C k c ct = Some m
  | OWrap p q ct m => msg_unwrap C p q ct = Some m
  end.

Definition honest (H : list opening) (o : opening) : bool := existsb (opening_eqb o) H.

(** a forgery: the primitive opened something that is not among the honestly produced ciphertexts *)
Definition Forgery (H : list opening) : Prop := exists o, valid_opening o /\ honest H o = false.

Lemma honest_or_forgery (H : list opening) (o : opening) :
  valid_opening o -> honest H o = true \/ Forgery H.
Proof. intros Hv. destruct (honest H o) eqn:E; [left; reflexivity| right; exists o; split; assumption]. Qed.

Lemma honest_in (H : list opening) (o : opening) : honest H o = true <-> In o H.
Proof.
  unfold honest. rewrite existsb_exists. split.
  - intros (o' & Hin & He). apply opening_eqb_eq in He. subst. exact Hin.
  - intros Hin. exists o. split; [exact Hin| apply opening_eqb_eq; reflexivity].
Qed.

(** ** a modified AcraBlock reveals the original or the AEAD was forged *)
Theorem ab_tamper_detected (key dek ek ed x ctx : bytes) (keys : list bytes) (b' y : bytes) :
  let H := [OSeal key ctx ek dek; OSeal dek ctx ed x] in
  ~ In dek keys ->                      (* the data key is fresh: not one of the client's keys *)
  ab_decrypt C b' keys ctx = Ok y ->
  (y = x /\ ab_ek b' = ek /\ ab_ed b' = ed) \/ Forgery H.
Proof.
  intros H Hfresh Hdec.
  destruct (ab_reveal_sound _ _ _ _ Hdec) as (_ & k & dk & Hin & _ & Hk & Hd).
  destruct (honest_or_forgery H (OSeal k ctx (ab_ek b') dk) Hk) as [H1|]; [|right; assumption].
  destruct (honest_or_forgery H (OSeal dk ctx (ab_ed b') y) Hd) as [H2|]; [|right; assumption].
  apply honest_in in H1, H2. left.
  destruct H1 as [H1|[H1|[]]]; inversion H1; subst.
  - destruct H2 as [H2|[H2|[]]]; inversion H2; subst.
    + (* dek = key, and key ∈ keys *) exfalso. apply Hfresh. exact Hin.
    + repeat split; reflexivity.
  - exfalso. apply Hfresh. exact Hin.
Qed.

(** ** the same for the asymmetric envelope *)
Theorem as_tamper_detected (priv pub ek sk ed x ctx v' y : bytes) :
  let H := [OWrap priv pub ek sk; OSeal sk ctx ed x] in
  as_decrypt C v' priv ctx = Ok y ->
  (y = x /\ skipn (as_key_block + AS_DATALEN_SIZE) (skipn AS_TAG_LEN v') = ed) \/ Forgery H.
Proof.
  intros H Hdec.
  destruct (as_reveal_sound _ _ _ _ Hdec) as (_ & sk' & Hu & Hd).
  destruct (honest_or_forgery H (OWrap priv _ _ sk') Hu) as [H1|]; [|right; assumption].
  destruct (honest_or_forgery H (OSeal sk' ctx _ y) Hd) as [H2|]; [|right; assumption].
  apply honest_in in H1, H2. left.
  destruct H1 as [H1|[H1|[]]]; inversion H1; subst.
  destruct H2 as [H2|[H2|[]]]; inversion H2; subst. split; reflexivity.
Qed.

(** ** splices: with honest values [vs] of one client (fresh, pairwise distinct data keys), whatever bytes
    are revealed, key block and data block both come from the SAME honest value, or a forgery is exhibited *)
Record honest_ab := { hv_key : bytes; hv_dek : bytes; hv_ek : bytes; hv_ed : bytes; hv_x : bytes }.

Definition openings_of (ctx : bytes) (vs : list honest_ab) : list opening :=
  flat_map (fun v => [OSeal (hv_key v) ctx (hv_ek v) (hv_dek v); OSeal (hv_dek v) ctx (hv_ed v) (hv_x v)]) vs.

Lemma in_openings_of ctx vs o :
  In o (openings_of ctx vs) ->
  exists v, In v vs /\ (o = OSeal (hv_key v) ctx (hv_ek v) (hv_dek v) \/ o = OSeal (hv_dek v) ctx (hv_ed v) (hv_x v)).
Proof.
  unfold openings_of. rewrite in_flat_map. intros (v & Hin & [Ho|[Ho|[]]]); exists v; split; auto.
Qed.

Theorem ab_splice_detected (ctx : bytes) (vs : list honest_ab) (keys : list bytes) (b' y : bytes) :
  (forall v, In v vs -> ~ In (hv_dek v) keys) ->
  (forall v w, In v vs -> In w vs -> hv_dek v <> hv_key w) ->
  (forall v w, In v vs -> In w vs -> hv_dek v = hv_dek w -> v = w) ->
  ab_decrypt C b' keys ctx = Ok y ->
  (exists v, In v vs /\ ab_ek b' = hv_ek v /\ ab_ed b' = hv_ed v /\ y = hv_x v) \/ Forgery (openings_of ctx vs).
Proof.
  intros Hfresh Hsep Hdistinct Hdec.
  destruct (ab_reveal_sound _ _ _ _ Hdec) as (_ & k & dk & Hin & _ & Hk & Hd).
  set (H := openings_of ctx vs).
  destruct (honest_or_forgery H (OSeal k ctx (ab_ek b') dk) Hk) as [H1|]; [|right; assumption].
  destruct (honest_or_forgery H (OSeal dk ctx (ab_ed b') y) Hd) as [H2|]; [|right; assumption].
  apply honest_in in H1, H2. apply in_openings_of in H1, H2.
  destruct H1 as (v & Hv & [E1|E1]); inversion E1; subst.
  2:{ exfalso. eapply Hfresh; [exact Hv| exact Hin]. }
  destruct H2 as (w & Hw & [E2|E2]); inversion E2; subst.
  - exfalso. eapply (Hsep v w); eassumption.
  - assert (v = w) as -> by (apply Hdistinct; assumption).
    left. exists w. repeat split; try assumption; reflexivity.
Qed.


(** ** entry-point level: what a successful DecryptWithHandler / Process / translator decrypt rests on *)
Theorem handler_reveal_sound (id : byte) (ks : keyset) (v' y : bytes) :
  decrypt_with_handler C id ks v' = Ok y ->
  exists inner id', sc_deserialize v' = Ok (inner, id') /\ handler_match id inner = true /\
    ((byte_eqb id ENVELOPE_ID_ACRASTRUCT = true /\ exists p, In p (ks_privs ks) /\ as_decrypt C inner p [] = Ok y) \/
     (byte_eqb id ENVELOPE_ID_ACRASTRUCT = false /\ exists n block, ab_extract inner = Ok (n, block) /\
        ab_decrypt C block (ks_syms ks) [] = Ok y)).
Proof.
  unfold decrypt_with_handler. destruct (sc_deserialize v') as [[inner id']|e|] eqn:Ed; try discriminate.
  cbn [bind]. destruct (handler_match id inner) eqn:Hm; [|discriminate]. cbn [negb].
  intros Hd. exists inner, id'. split; [reflexivity|]. split; [exact Hm|].
  unfold handler_decrypt in Hd. destruct (byte_eqb id ENVELOPE_ID_ACRASTRUCT) eqn:Eid.
  - left. split; [reflexivity|]. destruct (as_validate inner); [|discriminate]. cbn [negb] in Hd.
    destruct (is_nil (ks_privs ks)); [discriminate|]. apply as_rotated_sound in Hd. exact Hd.
  - right. split; [reflexivity|]. destruct (ab_extract inner) as [[n block]|e|] eqn:Ea; try discriminate.
    destruct (is_nil (ks_syms ks)); [discriminate|].
    destruct (ab_decrypt C block (ks_syms ks) []) as [x|e|] eqn:Eb; try discriminate.
    exists n, block. split; [reflexivity|]. rewrite <- Hd. exact Eb.
Qed.

(** composed: a modified serialized AcraBlock container, revealed through the registry entry point,
    yields the original plaintext of the honest value whose two ciphertext blocks it carries, or a forgery *)
Theorem container_tamper_detected_ab (ks : keyset) (key dek ek ed x v' y : bytes) :
  let H := [OSeal key [] ek dek; OSeal dek [] ed x] in
  ~ In dek (ks_syms ks) ->
  decrypt_with_handler C ENVELOPE_ID_ACRABLOCK ks v' = Ok y ->
  y = x \/ Forgery H.
Proof.
  intros H Hfresh Hd. destruct (handler_reveal_sound _ _ _ _ Hd) as (inner & id' & _ & _ & [[Hid _]|[_ (n & block & _ & Hb)]]).
  - discriminate.
  - destruct (ab_tamper_detected key dek ek ed x [] (ks_syms ks) block y Hfresh Hb) as [[-> _]|Hf]; [left; reflexivity| right; exact Hf].
Qed.

Theorem container_tamper_detected_as (ks : keyset) (pub ek sk ed x v' y : bytes) :
  (forall p, In p (ks_privs ks) ->
     forall inner, as_decrypt C inner p [] = Ok y ->
       y = x \/ Forgery [OWrap p pub ek sk; OSeal sk [] ed x]) ->
  decrypt_with_handler C ENVELOPE_ID_ACRASTRUCT ks v' = Ok y ->
  y = x \/ exists p, In p (ks_privs ks) /\ Forgery [OWrap p pub ek sk; OSeal sk [] ed x].
Proof.
  intros Hall Hd. destruct (handler_reveal_sound _ _ _ _ Hd) as (inner & id' & _ & _ & [[_ (p & Hin & Hp)]|[Hid _]]).
  - destruct (Hall p Hin inner Hp) as [->|Hf]; [left; reflexivity| right; exists p; split; assumption].
  - discriminate.
Qed.

(** ** searchable values: a swapped hash is detected, or an HMAC collision is exhibited *)
Theorem hash_swap_detected (id : byte) (ks : keyset) (hk data y y' : bytes) :
  ks_hmac ks = Some hk ->
  tr_decrypt_searchable C id ks data (Some (generate_hmac hk y')) = Ok y ->
  y = y' \/ (y <> y' /\ hmac_sha256 hk y = hmac_sha256 hk y').
Proof.
  intros Hk. unfold tr_decrypt_searchable.
  assert (length (generate_hmac hk y') = HMAC_HASH_SIZE) as Hl.
  { unfold generate_hmac, hmac_sha256. cbn [length]. rewrite sha256_length. reflexivity. }
  assert (extract_hash (generate_hmac hk y' ++ data) = Some (generate_hmac hk y', data)) as ->.
  { unfold extract_hash. unfold generate_hmac at 1. cbn [app]. rewrite byte_eqb_refl. cbn [negb].
    change (HMAC_FUNC_SHA256 :: hmac_sha256 hk y' ++ data) with (generate_hmac hk y' ++ data).
    rewrite app_length, Hl. destruct (Nat.ltb_spec (HMAC_HASH_SIZE + length data) HMAC_HASH_SIZE); [lia|].
    rewrite firstn_app_len', skipn_app_len' by (symmetry; exact Hl). reflexivity. }
  destruct (decrypt_with_handler C id ks data) as [dec|e|]; try discriminate.
  unfold hash_is_equal. rewrite Hk. cbn [generate_hmac skipn].
  destruct (bytes_eqb (hmac_sha256 hk y') (hmac_sha256 hk dec)) eqn:E; [|discriminate].
  intros [= <-]. apply bytes_eqb_eq in E.
  destruct (bytes_eqb dec y') eqn:E2; [left; apply bytes_eqb_eq; exact E2|].
  right. split; [apply bytes_eqb_neq; exact E2| symmetry; exact E].
Qed.

(** ** column processing hands a damaged value to the client unchanged *)
Theorem damaged_column_unchanged (ks : keyset) (inb : bytes) :
  (forall c, exists e, registry_process C ks c = Err e) ->
  on_column (column_cbs C ks) inb = Ok (inb, false).
Proof.
  intros Hfail. apply on_column_passthrough. intros c. unfold column_cbs. cbn [run_callbacks].
  unfold decrypt_handler. destruct (Hfail c) as [e He]. rewrite He, bytes_eqb_refl. reflexivity.
Qed.

(** the column scanner never panics when its processor does not *)
Theorem column_never_panics (ks : keyset) (inb : bytes) :
  (forall c, registry_process C ks c <> Panic) -> on_column (column_cbs C ks) inb <> Panic.
Proof.
  intros Hp. apply on_column_total. intros cb x [<-|[]]. unfold decrypt_handler.
  specialize (Hp x). destruct (registry_process C ks x); [discriminate| discriminate| contradiction].
Qed.

End Tamper.
