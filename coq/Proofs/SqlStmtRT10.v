(** C13_statements, round trip, part 10: table expressions. *)
From Acra Require Import Lib.Bytes Gen.Prec Gen.SqlWords Model.SqlStmt Model.SqlStmtParse
  Proofs.SqlStmtUnfold Proofs.SqlStmtFacts Proofs.SqlStmtEqns Proofs.SqlStmtHeads Proofs.SqlStmtRT1 Proofs.SqlStmtRT2 Proofs.SqlStmtRT3
  Proofs.SqlStmtRT4 Proofs.SqlStmtRT5 Proofs.SqlStmtRT6 Proofs.SqlStmtRT7 Proofs.SqlStmtRT8 Proofs.SqlStmtRT9.
From Coq Require Import Arith Lia.

Section RT.
Variable pg : bool.
Notation Cst := (Cst pg). Notation Pe := (Pe pg). Notation Ssel := (Ssel pg). Notation Psel := (Psel pg).
Notation Pts := (Pts pg). Notation Tst := (Tst pg). Notation Fst := (Fst pg). Notation Pt := (Pt pg). Notation Pjc := (Pjc pg).

Ltac KL := unfold K in *; lia.
Ltac fuel f := destruct f as [|f]; [KL|].
Ltac napp := repeat (progress (rewrite <- ?app_assoc; cbn [app])).

Lemma tstop_parts t rest : tstop t rest = true ->
  hard rest = true /\ expect_w W_as rest = None
  /\ (open_on t = true -> expect_w W_on rest = None) /\ (open_using t = true -> expect_w W_using rest = None).
Proof.
  unfold tstop. intros H. split_andb. split; [assumption|split; [|split]].
  - destruct (expect_w W_as rest); [discriminate|reflexivity].
  - intros Ho. match goal with H : negb (open_on t) || _ = true |- _ => rewrite Ho in H; cbn [negb orb] in H end.
    destruct (expect_w W_on rest); [discriminate|reflexivity].
  - intros Ho. match goal with H : negb (open_using t) || _ = true |- _ => rewrite Ho in H; cbn [negb orb] in H end.
    destruct (expect_w W_using rest); [discriminate|reflexivity].
Qed.

Lemma T_of_F t : is_factor t = true -> Fst t -> Tst t.
Proof.
  intros Hfa HF Hwf rest R a Hst Hk f Hf. pose proof I.
  assert (Hn : K <= need_texpr t) by (destruct t; rewrite ?need_texpr_TTable, ?need_texpr_TSubq, ?need_texpr_TParen, ?need_texpr_TJoin; KL).
  fuel f. rewrite ptref_S. rewrite (HF Hwf Hfa rest Hst f) by KL. apply Hk. KL.
Qed.

Lemma ptname_ok' q n r : wf_tname pg q n = true -> nodot r = true -> ptname pg (tname_toks pg q n ++ r) = Some (q, n, r).
Proof.
  unfold wf_tname, tname_toks. intros H Hg. split_andb.
  match goal with H : is_no_id q || wf_id pg q = true |- _ => apply Bool.orb_true_iff in H as [Hq|Hq] end.
  - destruct q as [[| |] [|? ?]]; try discriminate Hq. cbn [id_empty app]. unfold ptname.
    rewrite (wf_id_tok pg n) by assumption.
    destruct r as [|[| | | |p| |] r]; try reflexivity. destruct p; try reflexivity. discriminate Hg.
  - rewrite (id_nonempty pg q Hq). cbn [app]. unfold ptname.
    rewrite (wf_id_tok pg q Hq), (wf_id_tok pg n) by assumption. reflexivity.
Qed.
Lemma ptname_ok q n r : wf_tname pg q n = true -> gstop r = true -> ptname pg (tname_toks pg q n ++ r) = Some (q, n, r).
Proof. intros H Hg. apply ptname_ok'; [exact H|apply gstop_nodot; exact Hg]. Qed.

Lemma as_talias_ok a rest : wf_otalias pg a = true -> expect_w W_as rest = None ->
  as_alias (tok_talias pg) (alias_toks pg a ++ rest) = Some (a, rest).
Proof.
  unfold wf_otalias. intros H Ha. apply Bool.orb_true_iff in H as [H|H].
  - destruct a as [[| |] [|? ?]]; try discriminate. unfold alias_toks. cbn [id_empty app]. apply as_alias_none. exact Ha.
  - unfold alias_toks. rewrite (talias_nonempty pg a H). cbn [app as_alias]. rewrite (wf_talias_tok pg a H). reflexivity.
Qed.

Lemma tname_head q n r : wf_tname pg q n = true -> exists i r0, tname_toks pg q n ++ r = id_tok pg i :: r0 /\ wf_id pg i = true.
Proof.
  unfold wf_tname, tname_toks. intros H. split_andb.
  match goal with H : is_no_id q || wf_id pg q = true |- _ => apply Bool.orb_true_iff in H as [Hq|Hq] end.
  - destruct q as [[| |] [|? ?]]; try discriminate Hq. cbn [id_empty app]. eexists; eexists; split; [reflexivity|assumption].
  - rewrite (id_nonempty pg q Hq). cbn [app]. eexists; eexists; split; [reflexivity|assumption].
Qed.
Lemma id_tok_not_lparen i r : wf_id pg i = true -> expect_p PLParen (id_tok pg i :: r) = None.
Proof. intros H. destruct (wf_id_tok_shape pg i H) as [[v [-> _]]|[v [-> _]]]; reflexivity. Qed.

Lemma case_TTable q n a : Pt (TTable q n a).
Proof.
  assert (HF : Fst (TTable q n a)).
  { intros Hwf _ rest Hst f Hf. rewrite wf_texpr_TTable in Hwf. split_andb. rewrite need_texpr_TTable in Hf.
    destruct (tstop_parts _ _ Hst) as [Hh [Ha _]].
    rewrite print_texpr_TTable. napp. fuel f. rewrite ptfactor_S.
    destruct (tname_head q n (alias_toks pg a ++ rest) ltac:(assumption)) as [i [r0 [E Hi]]].
    rewrite E, (id_tok_not_lparen i r0 Hi), <- E.
    rewrite ptname_ok; [|assumption|].
    - rewrite as_talias_ok by assumption. reflexivity.
    - unfold alias_toks. destruct (id_empty a); [eapply stops_gstop; exact Hh|reflexivity]. }
  split; [apply T_of_F; [reflexivity|exact HF]|exact HF].
Qed.

Lemma case_TSubq s a : Psel s -> Pt (TSubq s a).
Proof.
  intros [Ss _].
  assert (HF : Fst (TSubq s a)).
  { intros Hwf _ rest Hst f Hf. rewrite wf_texpr_TSubq in Hwf. split_andb. negb_hyps. rewrite need_texpr_TSubq in Hf.
    destruct (tstop_parts _ _ Hst) as [Hh [Ha _]].
    rewrite print_texpr_TSubq. napp. fuel f. rewrite ptfactor_S, (expect_p_hit PLParen).
    destruct (sel_head pg s ltac:(assumption)) as [r0 E]. rewrite E. cbn [app]. rewrite head_w_hit.
    change (TW W_select :: r0 ++ TP PRParen :: alias_toks pg a ++ rest) with ((TW W_select :: r0) ++ TP PRParen :: alias_toks pg a ++ rest).
    rewrite <- E. rewrite (subq_ok pg s _ f Ss) by first [assumption | KL]. rewrite (expect_p_hit PRParen).
    rewrite as_talias_ok; [|unfold wf_otalias; rewrite Bool.orb_true_iff; right; assumption|assumption].
    rewrite (talias_nonempty pg a) by assumption. reflexivity. }
  split; [apply T_of_F; [reflexivity|exact HF]|exact HF].
Qed.

(** first token of a table expression list: an identifier or '(' *)
Lemma texpr_head t r : wf_texpr pg t = true -> head_w W_select (print_texpr pg t ++ r) = false.
Proof.
  revert r. induction t; intros r Hwf.
  - rewrite wf_texpr_TTable in Hwf. split_andb. rewrite print_texpr_TTable. napp.
    destruct (tname_head q n (alias_toks pg a ++ r) ltac:(assumption)) as [i [r0 [E Hi]]]. rewrite E.
    destruct (wf_id_tok_shape pg i Hi) as [[v [-> _]]|[v [-> _]]]; reflexivity.
  - rewrite print_texpr_TSubq. reflexivity.
  - rewrite print_texpr_TParen. reflexivity.
  - rewrite wf_texpr_TJoin in Hwf. split_andb. rewrite print_texpr_TJoin. napp. apply IHt1. assumption.
Qed.
Lemma texprs_head ts r : wf_texprs pg ts = true -> ts <> TNil -> head_w W_select (print_texprs pg ts ++ r) = false.
Proof.
  destruct ts as [|t ts]; [congruence|]. intros Hwf _. rewrite wf_texprs_TCons in Hwf. split_andb.
  destruct ts; [rewrite print_texprs_TCons|rewrite print_texprs_TCons2; napp]; apply texpr_head; assumption.
Qed.

Lemma case_TParen ts : Pts ts -> Pt (TParen ts).
Proof.
  intros IH.
  assert (HF : Fst (TParen ts)).
  { intros Hwf _ rest Hst f Hf. rewrite wf_texpr_TParen in Hwf. split_andb. rewrite need_texpr_TParen in Hf.
    assert (Hne : ts <> TNil) by (destruct ts; [discriminate|discriminate]).
    rewrite print_texpr_TParen. napp. fuel f. rewrite ptfactor_S, (expect_p_hit PLParen).
    rewrite (texprs_head ts _ ltac:(assumption) Hne).
    rewrite (IH ltac:(assumption) Hne (TP PRParen :: rest)); [|unfold tsstop; cbn; rewrite !Bool.orb_true_r; reflexivity|KL].
    rewrite (expect_p_hit PRParen). reflexivity. }
  split; [apply T_of_F; [reflexivity|exact HF]|exact HF].
Qed.

Lemma case_JNone : Pjc JNone. Proof. exact I. Qed.
Lemma case_JOn x : Pe x -> Pjc (JOn x). Proof. intros [C _]. exact C. Qed.
Lemma case_JUsing cols : Pjc (JUsing cols). Proof. exact I. Qed.

Lemma join_head_toks k ts : join_head (jk_toks k ++ ts) = Some (k, ts).
Proof. destruct k; reflexivity. Qed.

Lemma pidents_ok cols r : forallb (wf_id pg) cols = true -> cols <> [] ->
  pidents (tok_id pg) (idlist_toks pg cols ++ TP PRParen :: r) = Some (cols, r).
Proof.
  induction cols as [|c cols IH]; [congruence|]. intros Hwf _. cbn [forallb] in Hwf. split_andb.
  destruct cols as [|c' cols'].
  - cbn [idlist_toks app pidents]. rewrite (wf_id_tok pg c) by assumption. reflexivity.
  - change (idlist_toks pg (c :: c' :: cols')) with (id_tok pg c :: TP PComma :: idlist_toks pg (c' :: cols')).
    cbn [app]. unfold pidents at 1. fold (pidents (tok_id pg)).
    rewrite (wf_id_tok pg c) by assumption. rewrite (IH ltac:(assumption) ltac:(discriminate)). reflexivity.
Qed.

(** the join condition after the right operand *)
Lemma pjcond_ok c usng rest f :
  Pjc c -> wf_jcond pg c = true -> hard rest = true ->
  (match c with JUsing _ => usng = true | _ => True end) ->
  (c = JNone -> expect_w W_on rest = None /\ (usng = true -> expect_w W_using rest = None)) ->
  S (S (need_jcond c)) <= f ->
  pjcond pg f usng (print_jcond pg c ++ rest) = Some (c, rest).
Proof.
  intros Pc Hwf Hh Hu Hn Hf. destruct f as [|f]; [lia|]. rewrite pjcond_S. destruct c as [|x|cols].
  - rewrite print_jcond_JNone. cbn [app]. destruct (Hn eq_refl) as [H1 H2].
    unfold jcond_head. destruct rest as [|[| | | | |w|] rest']; try reflexivity.
    destruct w; try reflexivity.
    + rewrite expect_w_hit in H1. discriminate H1.
    + destruct usng; [rewrite expect_w_hit in H2; discriminate (H2 eq_refl)|].
      destruct rest' as [|[| | | |p| |] ?]; try reflexivity. destruct p; reflexivity.
  - rewrite print_jcond_JOn. cbn [app jcond_head]. rewrite wf_jcond_JOn in Hwf. rewrite need_jcond_JOn in Hf.
    cbn [SqlStmtRT1.Pjc] in Pc. rewrite (pexpr_of_C pg x rest f Pc) by first [assumption | lia]. reflexivity.
  - rewrite print_jcond_JUsing. rewrite wf_jcond_JUsing in Hwf. split_andb. subst usng.
    unfold columns_toks. napp. cbn [jcond_head].
    rewrite pidents_ok; [reflexivity|assumption|destruct cols; [discriminate|discriminate]].
Qed.

Lemma jcond_rest_tstop r c rest : hard rest = true -> wf_jcond pg c = true ->
  (c = JNone -> tstop r rest = true) ->
  (match c with JOn _ => open_on r = false | JUsing _ => open_using r = false | JNone => True end) ->
  tstop r (print_jcond pg c ++ rest) = true.
Proof.
  intros Hh Hwf Hn Ho. destruct c as [|x|cols].
  - rewrite print_jcond_JNone. apply Hn. reflexivity.
  - rewrite print_jcond_JOn. unfold tstop. rewrite Ho. cbn. rewrite ?Bool.orb_true_r. reflexivity.
  - rewrite print_jcond_JUsing. unfold tstop. rewrite Ho. cbn. rewrite ?Bool.orb_true_r. reflexivity.
Qed.
End RT.
