(** C15: poison records raise the alarm, nothing else does.
    The traced scanner of Model/Poison.v erases to the scanner of Model/Envelope.v, so every C01
    theorem about delivered bytes carries over; the theorems here are about the events. *)
From Acra Require Import Lib.Bytes Lib.Outcome Lib.Sha256 Crypto.Interface Gen.Consts Gen.MaskConsts
  Model.Envelope Model.Poison Proofs.Envelope Proofs.EnvelopeHandlers Proofs.Scanner Proofs.Containers.
From Coq Require Import ZifyN ZifyNat ZifyBool.

Lemma skipn_add {A} b : forall (l : list A) a, skipn a (skipn b l) = skipn (a + b) l.
Proof.
  induction b as [|b IH]; intros l a; [rewrite Nat.add_0_r; reflexivity|].
  destruct l as [|y l]; [rewrite !skipn_nil; reflexivity|].
  rewrite Nat.add_succ_r. cbn [skipn]. apply IH.
Qed.

(** * erasure: forgetting the events gives exactly [Envelope.scan] / [Envelope.on_column] *)
Lemma erase_lift cbs : map erase (map lift cbs) = cbs.
Proof. induction cbs as [|cb l IH]; [reflexivity|]. cbn [map]. rewrite IH. reflexivity. Qed.

Lemma run_callbacks_erase cbs c : snd (run_callbacks_ev cbs c) = run_callbacks (map erase cbs) c.
Proof.
  induction cbs as [|cb l IH]; [reflexivity|]. cbn [run_callbacks_ev map run_callbacks].
  unfold erase at 1. destruct (cb c) as [ev r]. cbn [snd].
  destruct r as [p|e|]; [| |reflexivity].
  - destruct (bytes_eqb p c); [exact IH| reflexivity].
  - destruct (N.eqb e E_DECRYPTION); [exact IH| reflexivity].
Qed.

Lemma scan_erase cbs f : forall rest out ch,
  snd (scan_ev f cbs rest out ch) = scan f (map erase cbs) rest out ch.
Proof.
  induction f as [|f IH]; intros rest out ch; [reflexivity|]. cbn [scan_ev scan].
  destruct (index_of sc_tag rest) as [i|]; [|reflexivity].
  destruct (sc_extract (skipn i rest)) as [[n c]| |]; [|apply IH|reflexivity].
  rewrite <- run_callbacks_erase. destruct (run_callbacks_ev cbs c) as [ev rc]. cbn [snd].
  destruct rc as [[p|]|e|]; try reflexivity; cbn [prepend snd]; apply IH.
Qed.

Theorem on_column_erase cbs inb : snd (on_column_ev cbs inb) = on_column (map erase cbs) inb.
Proof.
  unfold on_column_ev, on_column.
  assert (is_nil (map erase cbs) = is_nil cbs) as -> by (destruct cbs; reflexivity).
  destruct (_ || _); [reflexivity| apply scan_erase].
Qed.

(** callbacks without effects cause no events *)
Lemma run_callbacks_lift_events cbs c : fst (run_callbacks_ev (map lift cbs) c) = [].
Proof.
  induction cbs as [|cb l IH]; [reflexivity|]. cbn [map run_callbacks_ev]. unfold lift at 1.
  destruct (cb c) as [p|e|]; [| |reflexivity].
  - destruct (bytes_eqb p c); [exact IH| reflexivity].
  - destruct (N.eqb e E_DECRYPTION); [exact IH| reflexivity].
Qed.

Lemma scan_lift_events cbs f : forall rest out ch, fst (scan_ev f (map lift cbs) rest out ch) = [].
Proof.
  induction f as [|f IH]; intros rest out ch; [reflexivity|]. cbn [scan_ev].
  destruct (index_of sc_tag rest) as [i|]; [|reflexivity].
  destruct (sc_extract (skipn i rest)) as [[n c]| |]; [|apply IH|reflexivity].
  pose proof (run_callbacks_lift_events cbs c) as Hev.
  destruct (run_callbacks_ev (map lift cbs) c) as [ev rc]. cbn [fst] in Hev. subst ev.
  destruct rc as [[p|]|e|]; try reflexivity; cbn [prepend fst app]; apply IH.
Qed.

Lemma on_column_lift cbs inb : on_column_ev (map lift cbs) inb = ([], on_column cbs inb).
Proof.
  rewrite (surjective_pairing (on_column_ev (map lift cbs) inb)).
  rewrite on_column_erase, erase_lift. f_equal.
  unfold on_column_ev. destruct (_ || _); [reflexivity| apply scan_lift_events].
Qed.

Section Detector.
Variable C : crypto.

(** * detector absent: no event, and the delivered bytes are C01's *)
Theorem callbacks_off_no_effect cb_err pk proc col :
  on_column_ev (proxy_chain C false cb_err pk proc) col = ([], on_column [decrypt_handler proc] col).
Proof. unfold proxy_chain. cbn [app]. apply (on_column_lift [decrypt_handler proc]). Qed.

(** the detector's own guard: a storage without callbacks behaves as an absent detector on every container *)
Lemma detector_without_callbacks cb_err pk c : poison_detector C false cb_err pk c = ([], Ok c).
Proof. reflexivity. Qed.

(** * detector present: it never changes what is delivered (unless the callbacks themselves fail) *)
Lemma detector_returns_container pk c : erase (poison_detector C true false pk) c = Ok c.
Proof.
  unfold erase, poison_detector, poison_opens. cbn [negb].
  pose proof (registry_process_total C (poison_keyset pk) c) as Ht.
  destruct (registry_process C (poison_keyset pk) c); [reflexivity| reflexivity| contradiction].
Qed.

Lemma scan_detector_transparent pk cbs f : forall rest out ch,
  scan f (erase (poison_detector C true false pk) :: cbs) rest out ch = scan f cbs rest out ch.
Proof.
  induction f as [|f IH]; intros rest out ch; [reflexivity|]. cbn [scan].
  destruct (index_of sc_tag rest) as [i|]; [|reflexivity].
  destruct (sc_extract (skipn i rest)) as [[n c]| |]; [|apply IH|reflexivity].
  cbn [run_callbacks]. rewrite detector_returns_container, bytes_eqb_refl.
  destruct (run_callbacks cbs c) as [[p|]|e|]; try reflexivity; apply IH.
Qed.

Theorem detector_transparent pk ecbs col :
  ecbs <> [] ->
  snd (on_column_ev (poison_detector C true false pk :: ecbs) col) = snd (on_column_ev ecbs col).
Proof.
  intros Hne. rewrite !on_column_erase. cbn [map]. unfold on_column.
  assert (is_nil (map erase ecbs) = false) as -> by (destruct ecbs; [contradiction| reflexivity]).
  cbn [is_nil]. destruct (_ || _); [reflexivity| apply scan_detector_transparent].
Qed.

(** * detection *)
(** the detector on a container a poison key opens *)
Lemma detector_fires cb_err pk c d :
  poison_opens C pk c = Ok d ->
  poison_detector C true cb_err pk c = ([Callback], if cb_err then Err E_GENERIC else Ok c).
Proof. intros H. unfold poison_detector. cbn [negb]. rewrite H. reflexivity. Qed.

Lemma run_callbacks_detects cb_err pk cbs c d :
  poison_opens C pk c = Ok d ->
  exists evs r, run_callbacks_ev (poison_detector C true cb_err pk :: cbs) c = (Callback :: evs, r).
Proof.
  intros H. cbn [run_callbacks_ev]. rewrite (detector_fires cb_err pk c d H).
  destruct cb_err.
  - cbn. eauto.
  - rewrite bytes_eqb_refl. unfold prepend. cbn [app]. eauto.
Qed.

(** any envelope a poison key opens, after a quiet prefix and before any suffix, with any callbacks after
    the detector: the first event of the column is the callback run *)
Theorem poison_detected cb_err pk cbs (p v s : bytes) id inner d :
  is_envelope id inner v -> poison_opens C pk (v ++ s) = Ok d -> quiet p (v ++ s) ->
  exists evs r, on_column_ev (poison_detector C true cb_err pk :: cbs) (p ++ v ++ s) = (Callback :: evs, r).
Proof.
  intros He Hop Hq. pose proof He as (Ev & Hne & Hk & Hl & Hm).
  assert (length v = SC_MIN_SIZE + length inner) as Hv by (eapply envelope_length, He).
  unfold on_column_ev. cbn [is_nil].
  assert (Nat.ltb (length (p ++ v ++ s)) SC_MIN_SIZE = false) as ->
    by (apply Nat.ltb_ge; rewrite !app_length; lia).
  cbn [orb scan_ev].
  assert (starts_with sc_tag (v ++ s) = true) as Hst.
  { rewrite Ev. unfold sc_layout. rewrite <- !app_assoc. apply starts_with_app. }
  rewrite (index_of_first sc_tag (p ++ v ++ s) (length p));
    [| rewrite app_length; lia | rewrite skipn_app_len; exact Hst | exact Hq].
  rewrite skipn_app_len, firstn_app_len.
  assert (sc_extract (v ++ s) = Ok (length v, v ++ s)) as ->
    by (rewrite Ev; apply (container_roundtrip inner id s Hne Hk Hl)).
  destruct (run_callbacks_detects cb_err pk cbs (v ++ s) d Hop) as (evs & r & ->).
  destruct r as [[x|]|e|]; unfold prepend; cbn [fst snd app]; eauto.
Qed.

(** * no false alarm: every callback run exhibits a successful opening under a poison key *)
Lemma run_callbacks_witness has cb_err pk cbs c :
  In Callback (fst (run_callbacks_ev (poison_detector C has cb_err pk :: map lift cbs) c)) ->
  exists d, poison_opens C pk c = Ok d.
Proof.
  cbn [run_callbacks_ev]. unfold poison_detector at 1.
  pose proof (run_callbacks_lift_events cbs c) as Hl.
  destruct (negb has).
  - rewrite bytes_eqb_refl. unfold prepend. cbn [fst app]. rewrite Hl. intros [].
  - destruct (poison_opens C pk c) as [d| |]; [eauto| |cbn; intros []].
    rewrite bytes_eqb_refl. unfold prepend. cbn [fst app]. rewrite Hl. intros [].
Qed.

Lemma scan_witness has cb_err pk cbs f : forall rest out ch,
  In Callback (fst (scan_ev f (poison_detector C has cb_err pk :: map lift cbs) rest out ch)) ->
  exists j n c d, sc_extract (skipn j rest) = Ok (n, c) /\ poison_opens C pk c = Ok d.
Proof.
  induction f as [|f IH]; intros rest out ch; [intros []|]. cbn [scan_ev].
  destruct (index_of sc_tag rest) as [i|]; [|intros []].
  assert (Hshift : forall k o c',
            In Callback (fst (scan_ev f (poison_detector C has cb_err pk :: map lift cbs) (skipn k (skipn i rest)) o c')) ->
            exists j n c d, sc_extract (skipn j rest) = Ok (n, c) /\ poison_opens C pk c = Ok d).
  { intros k o c' Hin. destruct (IH _ _ _ Hin) as (j & n & c & d & He & Ho).
    exists (j + (k + i)), n, c, d. rewrite <- !skipn_add. split; assumption. }
  destruct (sc_extract (skipn i rest)) as [[n c]| |] eqn:Ee; [|apply Hshift|intros []].
  pose proof (run_callbacks_witness has cb_err pk cbs c) as Hw.
  destruct (run_callbacks_ev (poison_detector C has cb_err pk :: map lift cbs) c) as [ev rc]. cbn [fst] in Hw.
  assert (Hhere : In Callback ev -> exists j n c d, sc_extract (skipn j rest) = Ok (n, c) /\ poison_opens C pk c = Ok d).
  { intros Hin. destruct (Hw Hin) as [d Hd]. exists i, n, c, d. split; assumption. }
  destruct rc as [[x|]|e|]; unfold prepend; cbn [fst snd]; try exact Hhere;
    intros Hin; apply in_app_or in Hin as [Hin|Hin]; try (apply Hhere, Hin); eapply Hshift, Hin.
Qed.

(** reduction form: a callback run on ANY column value exhibits bytes of that column which a poison key opens
    (for a column built from random bytes and client envelopes: a forgery / key-collision witness) *)
Theorem callback_has_witness has cb_err pk cbs col :
  In Callback (fst (on_column_ev (poison_detector C has cb_err pk :: map lift cbs) col)) ->
  exists j n c d, sc_extract (skipn j col) = Ok (n, c) /\ poison_opens C pk c = Ok d.
Proof.
  unfold on_column_ev. destruct (_ || _); [intros []| apply scan_witness].
Qed.

(** premise on the decrypt function's results only, no unforgeability assumed *)
Theorem no_false_alarm has cb_err pk cbs col :
  (forall j n c d, sc_extract (skipn j col) = Ok (n, c) -> poison_opens C pk c <> Ok d) ->
  ~ In Callback (fst (on_column_ev (poison_detector C has cb_err pk :: map lift cbs) col)).
Proof.
  intros Hno Hin. destruct (callback_has_witness has cb_err pk cbs col Hin) as (j & n & c & d & He & Ho).
  exact (Hno j n c d He Ho).
Qed.

(** the proxy's chain is of that shape *)
Lemma proxy_chain_shape cb_err pk proc :
  proxy_chain C true cb_err pk proc = poison_detector C true cb_err pk :: map lift [decrypt_handler proc].
Proof. reflexivity. Qed.

(** events of a column are callback runs only, so "before delivery" is literal in [column_trace] *)
Lemma scan_events_callbacks has cb_err pk cbs f : forall rest out ch,
  Forall (fun e => e = Callback) (fst (scan_ev f (poison_detector C has cb_err pk :: map lift cbs) rest out ch)).
Proof.
  induction f as [|f IH]; intros rest out ch; [constructor|]. cbn [scan_ev].
  destruct (index_of sc_tag rest) as [i|]; [|constructor].
  destruct (sc_extract (skipn i rest)) as [[n c]| |]; [|apply IH|constructor].
  assert (Forall (fun e => e = Callback) (fst (run_callbacks_ev (poison_detector C has cb_err pk :: map lift cbs) c))) as Hrc.
  { cbn [run_callbacks_ev]. unfold poison_detector at 1. pose proof (run_callbacks_lift_events cbs c) as Hl.
    destruct (negb has).
    - rewrite bytes_eqb_refl. unfold prepend. cbn [fst app]. rewrite Hl. constructor.
    - destruct (poison_opens C pk c); [| |constructor].
      + destruct cb_err; [cbn; repeat constructor|]. rewrite bytes_eqb_refl. unfold prepend. cbn [fst app].
        rewrite Hl. repeat constructor.
      + rewrite bytes_eqb_refl. unfold prepend. cbn [fst app]. rewrite Hl. constructor. }
  destruct (run_callbacks_ev (poison_detector C has cb_err pk :: map lift cbs) c) as [ev rc]. cbn [fst] in Hrc.
  destruct rc as [[x|]|e|]; unfold prepend; cbn [fst snd]; try exact Hrc; apply Forall_app; split; try exact Hrc; apply IH.
Qed.

Definition is_final (e : event) : Prop := match e with Callback => False | _ => True end.

(** the proxy: [column_trace] = callback runs, then exactly one final event (the delivery or the abort) *)
Theorem column_trace_shape has cb_err pk ks col :
  exists k fin, column_trace C has cb_err pk ks col = repeat Callback k ++ [fin] /\ is_final fin.
Proof.
  unfold column_trace, finish.
  set (r := on_column_ev _ col).
  assert (Forall (fun e => e = Callback) (fst r)) as Hall.
  { subst r. unfold proxy_chain. destruct has.
    - unfold on_column_ev. destruct (_ || _); [constructor|]. apply (scan_events_callbacks true cb_err pk [decrypt_handler (registry_process C ks)]).
    - cbn [app]. rewrite (on_column_lift [decrypt_handler (registry_process C ks)]). constructor. }
  exists (length (fst r)). eexists. split.
  - f_equal. clear -Hall. induction Hall as [|e l He _ IH]; [reflexivity|]. cbn [length repeat]. rewrite He at 1. f_equal. exact IH.
  - destruct (snd r); exact I.
Qed.

(** a poison record in a column the proxy processes: at least one callback run, all of them before the
    one final event *)
Theorem poison_detected_before_delivery cb_err pk ks (p v s : bytes) id inner d :
  is_envelope id inner v -> poison_opens C pk (v ++ s) = Ok d -> quiet p (v ++ s) ->
  exists k fin, column_trace C true cb_err pk ks (p ++ v ++ s) = repeat Callback (S k) ++ [fin] /\ is_final fin.
Proof.
  intros He Hop Hq.
  destruct (column_trace_shape true cb_err pk ks (p ++ v ++ s)) as (k & fin & Htr & Hfin).
  destruct (poison_detected cb_err pk [lift (decrypt_handler (registry_process C ks))] p v s id inner d He Hop Hq)
    as (evs & r & Hev).
  destruct k as [|k]; [|eauto].
  exfalso. revert Htr. unfold column_trace, finish. rewrite proxy_chain_shape. cbn [map]. rewrite Hev.
  cbn [fst app repeat]. intros [= E _]. subst fin. exact Hfin.
Qed.

(** * translator: the check after a failed decrypt *)
Theorem translator_detects id ks cb_err pk (p v s : bytes) eid inner d e :
  decrypt_with_handler C id ks (p ++ v ++ s) = Err e ->
  is_envelope eid inner v -> poison_opens C pk (v ++ s) = Ok d -> quiet p (v ++ s) ->
  exists evs r, tr_decrypt_ev C id ks true cb_err pk (p ++ v ++ s) = (Callback :: evs, r) /\ forall x, r <> Ok x.
Proof.
  intros Hd He Hop Hq. unfold tr_decrypt_ev, translator_chain. rewrite Hd.
  destruct (poison_detected cb_err pk [] p v s eid inner d He Hop Hq) as (evs & r & ->).
  eexists. eexists. split; [reflexivity|]. destruct r; discriminate.
Qed.

Theorem translator_success_no_event id ks has cb_err pk data x :
  decrypt_with_handler C id ks data = Ok x -> tr_decrypt_ev C id ks has cb_err pk data = ([], Ok x).
Proof. intros H. unfold tr_decrypt_ev. rewrite H. reflexivity. Qed.

Theorem translator_callback_has_witness id ks has cb_err pk data :
  In Callback (fst (tr_decrypt_ev C id ks has cb_err pk data)) ->
  exists j n c d, sc_extract (skipn j data) = Ok (n, c) /\ poison_opens C pk c = Ok d.
Proof.
  unfold tr_decrypt_ev, translator_chain.
  destruct (decrypt_with_handler C id ks data); [intros []| |intros []].
  destruct has.
  - pose proof (callback_has_witness true cb_err pk [] data) as H. cbn [map] in H.
    destruct (on_column_ev [poison_detector C true cb_err pk] data) as [ev r]. exact H.
  - unfold on_column_ev. cbn [is_nil]. rewrite orb_true_r. intros [].
Qed.

(** * poison records (poison/poison.go) are envelopes the poison keys open, under any key history *)
Hypothesis HC : Correct C.

Theorem poison_record_asymmetric pk tape data sb before after s :
  data <> [] -> (N.of_nat (length data) < MAXMSG)%N -> good_as_tape tape -> length sb = SEED_LEN ->
  pk_privs pk = before ++ priv_of C sb :: after ->
  (forall v, Forall (fun p => exists e, as_decrypt C v p [] = Err e) before) ->
  exists v inner, create_poison_record C (pub_of C sb) data tape = Ok v /\
    is_envelope ENVELOPE_ID_ACRASTRUCT inner v /\ poison_opens C pk (v ++ s) = Ok data.
Proof.
  intros Hx Hlen Htape Hsb Hprivs Hbefore.
  destruct (as_roundtrip C HC tape data sb [] Htape Hsb Hx Hlen) as (inner & Hc & Hval & Hil & Hdec).
  assert (inner <> []) as Hine by (intros ->; cbn [length] in Hil; unfold_consts; lia).
  assert (N.of_nat (length inner) < 4294967296)%N as Hismall by (rewrite Hil; unfold_consts; lia).
  assert (Hm : handler_match ENVELOPE_ID_ACRASTRUCT inner = true)
    by (unfold handler_match; rewrite byte_eqb_refl; exact Hval).
  assert (He : is_envelope ENVELOPE_ID_ACRASTRUCT inner (sc_layout inner ENVELOPE_ID_ACRASTRUCT))
    by (repeat split; assumption).
  exists (sc_layout inner ENVELOPE_ID_ACRASTRUCT), inner. split; [|split; [exact He|]].
  - unfold create_poison_record. rewrite Hc. cbn [bind]. apply sc_serialize_ok, Hine.
  - unfold poison_opens. rewrite (envelope_process C _ inner _ s _ He).
    unfold handler_decrypt, poison_keyset. cbn [ks_privs]. rewrite byte_eqb_refl, Hval. cbn [negb].
    rewrite Hprivs. rewrite is_nil_false by (destruct before; discriminate).
    apply as_rotated_roundtrip; [exact Hdec| apply Hbefore].
Qed.

Theorem poison_record_symmetric pk tape data key before after s :
  data <> [] -> (N.of_nat (length data) < MAXMSG)%N -> good_ab_tape tape -> key <> [] ->
  pk_syms pk = before ++ key :: after ->
  (forall ek, Forall (fun k => bytes_eqb (ab_key_id k []) (ab_key_id key []) = false
                               \/ cell_decrypt C k [] ek = None) before) ->
  exists v inner, create_sym_poison_record C key data tape = Ok v /\
    is_envelope ENVELOPE_ID_ACRABLOCK inner v /\ poison_opens C pk (v ++ s) = Ok data.
Proof.
  intros Hx Hlen Htape Hkey Hsyms Hbefore.
  destruct (ab_roundtrip C HC tape data key [] Htape Hkey Hx Hlen) as (ek & ed & Hc & Hekl & Hedl & Hdec).
  set (inner := ab_layout key [] ek ed) in *.
  assert (length inner = AB_MIN_SIZE + length ek + length ed) as Hil by apply ab_layout_length.
  assert (inner <> []) as Hine by (intros E0; rewrite E0 in Hil; cbn [length] in Hil; unfold_consts; lia).
  assert (N.of_nat (length inner) < 4294967296)%N as Hismall
      by (rewrite Hil, Hekl, Hedl; unfold_consts; lia).
  assert (Hext : ab_extract inner = Ok (length inner, inner)).
  { rewrite (app_nil_r' inner) at 1. apply ab_extract_layout. rewrite Hekl, Hedl. unfold_consts. lia. }
  assert (Hab_ne : byte_eqb ENVELOPE_ID_ACRABLOCK ENVELOPE_ID_ACRASTRUCT = false) by reflexivity.
  assert (Hm : handler_match ENVELOPE_ID_ACRABLOCK inner = true)
    by (unfold handler_match; rewrite Hab_ne, Hext; reflexivity).
  assert (He : is_envelope ENVELOPE_ID_ACRABLOCK inner (sc_layout inner ENVELOPE_ID_ACRABLOCK))
    by (repeat split; assumption).
  exists (sc_layout inner ENVELOPE_ID_ACRABLOCK), inner. split; [|split; [exact He|]].
  - unfold create_sym_poison_record. rewrite Hc. cbn [bind]. apply sc_serialize_ok, Hine.
  - unfold poison_opens. rewrite (envelope_process C _ inner _ s _ He).
    unfold handler_decrypt, poison_keyset. cbn [ks_syms]. rewrite Hab_ne, Hext, Hsyms.
    rewrite is_nil_false by (destruct before; discriminate).
    replace (ab_decrypt C inner (before ++ key :: after) []) with (@Ok bytes data)
      by (symmetry; apply Hdec, Hbefore).
    reflexivity.
Qed.

End Detector.
