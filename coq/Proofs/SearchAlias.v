(** A qualifier that is the ALIAS of a FROM entry denotes that entry, whatever the hidden (real) names of the other
    entries are: corollaries of [col_setting_exact] / [sel_cmp_exact] (Proofs/SearchResolve.v) for the
    alias-shadowing family `FROM a AS x, b AS a ... WHERE a.c = ..`. *)
From Coq Require Import List Bool NArith Arith Lia.
From Acra Require Import Lib.Bytes Lib.Outcome Model.SearchResolveSpec Proofs.SearchResolve.
Import ListNotations.

Lemma find_vis_nodup (l : list (bytes * bytes)) (e : bytes * bytes) :
  NoDup (map visp l) -> In e l -> find (fun x => bytes_eqb (visp x) (visp e)) l = Some e.
Proof.
  induction l as [|x l IH]; intros Hnd Hin; [destruct Hin|].
  cbn [map] in Hnd. inversion Hnd as [|? ? Hnin Hnd']; subst. cbn [find].
  destruct (bytes_eqb (visp x) (visp e)) eqn:E.
  - apply bytes_eqb_eq in E. destruct Hin as [->|Hin]; [reflexivity|].
    exfalso. apply Hnin. rewrite E. apply in_map. exact Hin.
  - destruct Hin as [->|Hin]; [rewrite bytes_eqb_refl in E; discriminate|]. apply IH; assumption.
Qed.

(** the specification: the qualifier [visp e] selects the entry [e] *)
Lemma resolve_visible cfg from e c :
  scope_ok from -> In e (bents_f from) -> resolve cfg 1 (scope_f from) (visp e) c = Some (fst e, c).
Proof.
  intros (Hb & Hnd & Hne) Hin. rewrite (scope_f_base from Hb). cbn [resolve].
  assert (Hq : empty (visp e) = false).
  { apply empty_false. rewrite Forall_forall in Hne. apply Hne. exact Hin. }
  rewrite Hq.
  rewrite (filter_map_entry _ (fun x => bytes_eqb (visp x) (visp e))) by (intro x; reflexivity).
  rewrite (filter_find_nodup (bents_f from) (visp e) Hnd).
  rewrite (find_vis_nodup (bents_f from) e Hnd Hin). cbn [map entry_of snd]. reflexivity.
Qed.

Lemma visp_alias (n a : bytes) : a <> [] -> visp (n, a) = a.
Proof. intro H. unfold visp, vis. cbn [fst snd]. apply empty_false in H. rewrite H. reflexivity. Qed.

(** every dialect (PostgreSQL under the premises of [col_setting_exact]) *)
Theorem alias_setting_exact d cfg from (n a c : bytes) :
  scope_ok from -> In (n, a) (bents_f from) -> a <> [] -> ref_ok d from a -> pg_listed d cfg ->
  col_setting_of d cfg from a c = setting_of cfg (Some (n, c)).
Proof.
  intros Hs Hin Ha Hr Hl. rewrite (col_setting_exact d cfg from a c Hs Hr Hl).
  pose proof (resolve_visible cfg from (n, a) c Hs Hin) as H. rewrite (visp_alias n a Ha) in H. cbn [fst] in H.
  rewrite H. reflexivity.
Qed.

Lemma ref_ok_my from (q : bytes) : q <> [] -> ref_ok RMY from q.
Proof. intro H. unfold ref_ok. apply empty_false in H. rewrite H. intro Hd. discriminate Hd. Qed.

Lemma pg_listed_my cfg : pg_listed RMY cfg.
Proof. intro Hd. discriminate Hd. Qed.

(** MySQL: no premise about hidden names at all *)
Theorem alias_setting_exact_mysql cfg from (n a c : bytes) :
  scope_ok from -> In (n, a) (bents_f from) -> a <> [] ->
  col_setting_of RMY cfg from a c = setting_of cfg (Some (n, c)).
Proof.
  intros Hs Hin Ha. apply alias_setting_exact; try assumption; [apply ref_ok_my; exact Ha|apply pg_listed_my].
Qed.

(** ... and the comparison alias.c op value is rewritten iff column c of the ALIASED table is searchable *)
Theorem alias_cmp_exact_mysql cfg srch from (n a c : bytes) op v :
  scope_ok from -> In (n, a) (bents_f from) -> a <> [] ->
  sel_cmp RMY cfg srch from op (ECol a c) (EVal v) =
  match setting_of cfg (Some (n, c)) with
  | Some sid => if is_srch srch sid && value_op RMY op then Some sid else None
  | None => None
  end.
Proof.
  intros Hs Hin Ha. unfold sel_cmp. cbn [left_col].
  rewrite (alias_setting_exact_mysql cfg from n a c Hs Hin Ha).
  destruct (setting_of cfg (Some (n, c))) as [sid|]; [|reflexivity].
  destruct (is_srch srch sid); cbn [negb andb value_shape]; reflexivity.
Qed.

(** a decision procedure for [scope_ok] (used by the non-vacuity examples) *)
Fixpoint nodupb (l : list bytes) : bool :=
  match l with [] => true | x :: t => negb (existsb (bytes_eqb x) t) && nodupb t end.

Lemma nodupb_ok l : nodupb l = true -> NoDup l.
Proof.
  induction l as [|x t IH]; intro H; [constructor|]. cbn [nodupb] in H. apply andb_true_iff in H. destruct H as [Hx Ht].
  constructor; [|apply IH; exact Ht]. intro Hin. apply negb_true_iff in Hx.
  assert (He : existsb (bytes_eqb x) t = true) by (apply existsb_exists; exists x; split; [exact Hin|apply bytes_eqb_refl]).
  rewrite He in Hx. discriminate Hx.
Qed.

Definition scope_okb (f : flist) : bool :=
  base_f f && nodupb (map visp (bents_f f)) && forallb (fun e => negb (empty (visp e))) (bents_f f).

Lemma scope_okb_ok f : scope_okb f = true -> scope_ok f.
Proof.
  unfold scope_okb. intro H. apply andb_true_iff in H. destruct H as [H Hf]. apply andb_true_iff in H. destruct H as [Hb Hn].
  split; [exact Hb|]. split; [apply nodupb_ok; exact Hn|].
  rewrite Forall_forall. intros e He. rewrite forallb_forall in Hf. specialize (Hf e He).
  apply negb_true_iff in Hf. apply empty_false. exact Hf.
Qed.
