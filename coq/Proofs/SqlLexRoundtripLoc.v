(** C13_lex, part 3: the identifier half of the local condition follows from well-formedness: every identifier,
    alias and raw name (function names, charsets, units, convert types) the Format methods print for a well-formed
    statement is locally lexable; what remains of [loc] is [lits_ok] (literal and cast spellings, bind variables). *)
From Acra Require Import Lib.Bytes Gen.Prec Gen.SqlWords Model.SqlStmt Model.SqlStmtText
  Proofs.SqlStmtFacts Proofs.SqlStmtEqns Proofs.SqlStmtPpEqns Proofs.SqlLexRoundtripDefs Proofs.SqlLexRoundtripSep.
From Coq Require Import Arith Lia Bool.

Section L.
Variable pg : bool.
Notation idok := (idok pg).
Notation wf := (wf pg).
Notation ok := (forallb idok).

Lemma mem_bytes_in v l : mem_bytes v l = true -> In v l.
Proof.
  induction l as [|x l IH]; [discriminate|]. cbn [mem_bytes]. intros H. apply orb_true_iff in H as [H|H].
  - left. apply bytes_eqb_eq. exact H.
  - right. apply IH. exact H.
Qed.
Lemma wf_unq_nonempty v : wf_unq pg v = true -> nonempty v = true.
Proof. unfold wf_unq. intros H. apply andb_true_iff in H as [H _]. exact H. Qed.
Lemma ok_id i : wf_id pg i = true -> idok (PI i) = true.
Proof.
  destruct i as [[| |] v]; cbn [wf_id SqlLexRoundtripSep.idok pok]; [apply wf_unq_nonempty| |discriminate].
  intros H. repeat (apply andb_true_iff in H; destruct H as [H ?]). rewrite H, H0, H1. reflexivity.
Qed.
Lemma ok_alias i : wf_alias pg i = true -> idok (PI i) = true.
Proof. destruct i as [[| |] v]; cbn [wf_alias SqlLexRoundtripSep.idok pok]; [apply wf_unq_nonempty| |]; intros H; exact H || (repeat (apply andb_true_iff in H; destruct H as [H ?]); rewrite ?H, ?H0, ?H1; reflexivity). Qed.
Lemma ok_talias i : wf_talias pg i = true -> idok (PI i) = true.
Proof. unfold wf_talias. destruct i as [[| |] v]; intros H; try (apply ok_alias; exact H). apply andb_true_iff in H as [_ H]. apply ok_alias; exact H. Qed.
Lemma ok_plain v : plain_ident v = true -> idok (PR v) = true.
Proof.
  unfold plain_ident. cbn [SqlLexRoundtripSep.idok pok]. unfold raw_ok. intros H.
  repeat (apply andb_true_iff in H; destruct H as [H ?]). rewrite H. cbn [andb].
  match goal with K : negb (bytes_eqb _ _) || _ = true |- _ => rewrite <- orb_assoc, K end. apply orb_true_r.
Qed.
Lemma raw_lists : forallb raw_ok (KEYWORDS ++ INTERVAL_UNITS ++ CONVERT_TYPES_PLAIN ++ CONVERT_TYPES_LEN ++ CONVERT_TYPES_DEC) = true.
Proof. vm_compute. reflexivity. Qed.
Lemma ok_listed v : In v (KEYWORDS ++ INTERVAL_UNITS ++ CONVERT_TYPES_PLAIN ++ CONVERT_TYPES_LEN ++ CONVERT_TYPES_DEC) -> idok (PR v) = true.
Proof. intros H. pose proof raw_lists as R. rewrite forallb_forall in R. apply R. exact H. Qed.
Lemma ok_fname n c : fname_class n = Some c -> idok (PR n) = true.
Proof.
  unfold fname_class. destruct (is_keyword n) eqn:K.
  - destruct (negb (bytes_eqb (lower n) n)) eqn:E; [discriminate|]. intros _. apply negb_false_iff in E. apply bytes_eqb_eq in E.
    unfold is_keyword in K. rewrite E in K. apply ok_listed. apply in_or_app. left. apply mem_bytes_in. exact K.
  - destruct (plain_ident n) eqn:P; [|discriminate]. intros _. apply ok_plain. exact P.
Qed.
Lemma ok_ctype c : wf_ctype c = true -> ok (pp_ctype c) = true.
Proof.
  destruct c as [ty l s]. unfold wf_ctype. intros H. apply andb_true_iff in H as [_ H].
  assert (T : idok (PR ty) = true).
  { unfold ctype_class in H. apply ok_listed.
    destruct (mem_bytes ty CONVERT_TYPES_PLAIN) eqn:A; [apply mem_bytes_in in A; do 2 (apply in_or_app; right); apply in_or_app; left; exact A|].
    destruct (mem_bytes ty CONVERT_TYPES_LEN) eqn:B; [apply mem_bytes_in in B; do 3 (apply in_or_app; right); apply in_or_app; left; exact B|].
    destruct (mem_bytes ty CONVERT_TYPES_DEC) eqn:C; [apply mem_bytes_in in C; do 4 (apply in_or_app; right); exact C|discriminate H]. }
  destruct l as [l|], s as [s|]; cbn [pp_ctype forallb]; rewrite T; reflexivity.
Qed.

Lemma ok_words ws : ok (words ws) = true.
Proof. induction ws as [|w [|w' ws'] IH]; try reflexivity. change (words (w :: w' :: ws')) with (PT (TW w) :: PS :: words (w' :: ws')). cbn [forallb]. rewrite IH. reflexivity. Qed.
Lemma ok_cmp o : ok (pp_cmp o) = true. Proof. destruct o; reflexivity. Qed.
Lemma ok_is s : ok (pp_is s) = true. Proof. destruct s; reflexivity. Qed.
Lemma ok_between n : ok (pp_between n) = true. Proof. destruct n; reflexivity. Qed.
Lemma ok_jk k : ok (pp_jk k) = true. Proof. destruct k; reflexivity. Qed.
Lemma ok_ut u : ok (pp_ut u) = true. Proof. destruct u; reflexivity. Qed.
Lemma ok_dir d : ok (pp_dir d) = true. Proof. destruct d; reflexivity. Qed.
Lemma ok_lock l : ok (pp_lock l) = true. Proof. destruct l; reflexivity. Qed.
Lemma ok_un o : ok (pp_un o) = true. Proof. destruct o; reflexivity. Qed.
Lemma ok_bin o : idok (pp_bin o) = true. Proof. destruct o; reflexivity. Qed.
Lemma ok_lit t v cs : ok (pp_lit t v cs) = true.
Proof.
  unfold pp_lit. rewrite forallb_app. replace (ok (map (fun c => PT (TCast c)) cs)) with true by (induction cs; [reflexivity|cbn [map forallb]; assumption]).
  rewrite andb_true_r. unfold lit_toks. destruct (is_int t); [destruct v as [|c v']; [|destruct (byte_eqb c x_minus)]|]; reflexivity.
Qed.
Lemma ok_qual q : forallb (wf_id pg) q = true -> ok (pp_qual q) = true.
Proof. induction q as [|a q IH]; [reflexivity|]. cbn [forallb pp_qual]. intros H. apply andb_true_iff in H as [H1 H2]. rewrite (ok_id _ H1), (IH H2). reflexivity. Qed.
Lemma ok_col q n : wf_col pg q n = true -> ok (pp_col q n) = true.
Proof. unfold wf_col, pp_col. intros H. repeat (apply andb_true_iff in H; destruct H as [H ?]). rewrite forallb_app, ok_qual by assumption. cbn [forallb]. rewrite ok_id by assumption. reflexivity. Qed.
Lemma ok_tname q n : wf_tname pg q n = true -> ok (pp_tname q n) = true.
Proof.
  unfold wf_tname, pp_tname. intros H. apply andb_true_iff in H as [H1 H2]. destruct (id_empty q) eqn:E; cbn [app forallb]; rewrite (ok_id _ H2); [reflexivity|].
  apply orb_true_iff in H1 as [H1|H1]; [destruct q as [[| |] [|]]; discriminate|]. rewrite (ok_id _ H1). reflexivity.
Qed.
Lemma ok_oalias a : wf_oalias pg a = true -> ok (pp_alias a) = true.
Proof.
  unfold wf_oalias, pp_alias. intros H. destruct (id_empty a) eqn:E; [reflexivity|]. cbn [sp app forallb].
  apply orb_true_iff in H as [H|H]; [destruct a as [[| |] [|]]; discriminate|]. rewrite (ok_alias _ H). reflexivity.
Qed.
Lemma ok_otalias a : wf_otalias pg a = true -> ok (pp_alias a) = true.
Proof.
  unfold wf_otalias, pp_alias. intros H. destruct (id_empty a) eqn:E; [reflexivity|]. cbn [sp app forallb].
  apply orb_true_iff in H as [H|H]; [destruct a as [[| |] [|]]; discriminate|]. rewrite (ok_talias _ H). reflexivity.
Qed.
Lemma ok_talias' a : wf_talias pg a = true -> ok (pp_alias a) = true.
Proof. intros H. apply ok_otalias. unfold wf_otalias. rewrite H. apply orb_true_r. Qed.
Lemma ok_idlist (f : ident -> bool) l : (forall i, f i = true -> idok (PI i) = true) -> forallb f l = true -> ok (pp_idlist l) = true.
Proof.
  intros F. induction l as [|a [|b l'] IH]; [reflexivity| |]; cbn [forallb]; intros H.
  - apply andb_true_iff in H as [H _]. cbn [pp_idlist forallb]. rewrite (F _ H). reflexivity.
  - change (pp_idlist (a :: b :: l')) with (PI a :: PT (TP PComma) :: PS :: pp_idlist (b :: l')). cbn [forallb].
    apply andb_true_iff in H as [H1 H2]. rewrite (F _ H1). cbn [forallb] in IH. rewrite (IH H2). reflexivity.
Qed.
Lemma ok_columns f l : (forall i, f i = true -> idok (PI i) = true) -> forallb f l = true -> ok (pp_columns l) = true.
Proof. intros F H. unfold pp_columns. cbn [forallb]. rewrite forallb_app, (ok_idlist f l F H). reflexivity. Qed.
End L.
Section L2.
Variable pg : bool.
Notation idok := (idok pg).
Notation wf := (wf pg).
Notation ok := (forallb idok).
Notation wf' := (wf' pg).

Definition Qe e := wf' e = true -> ok (pp e) = true.
Definition Qxs xs := wf_exprs pg xs = true -> ok (pp_exprs xs) = true.
Definition Qoe o := match o with NoE => True | SomeE x => Qe x end.
Definition Qws ws := wf_whens pg ws = true -> ok (pp_whens ws) = true.
Definition Qse s := wf_selexpr pg s = true -> ok (pp_selexpr s) = true.
Definition Qses xs := wf_selexprs pg xs = true -> ok (pp_selexprs xs) = true.
Definition Qsel s := wf_sel pg s = true -> ok (pp_sel s) = true.
Definition Qt t := wf_texpr pg t = true -> ok (pp_texpr t) = true.
Definition Qts ts := wf_texprs pg ts = true -> ok (pp_texprs ts) = true.
Definition Qjc c := wf_jcond pg c = true -> ok (pp_jcond c) = true.
Definition Qos os := wf_orders pg os = true -> forall first, ok (pp_orders first os) = true.
Definition Qlm l := wf_lim pg l = true -> ok (pp_lim l) = true.

Ltac conj := repeat match goal with |- _ && _ = true => apply andb_true_intro; split end.
Ltac wfs := first [assumption | apply wf_wf'; assumption].
Ltac wsplit W := repeat (apply andb_true_iff in W; destruct W as [W ?]).
Ltac atom :=
  match goal with
  | |- true = true => reflexivity
  | H : _ -> forallb _ ?L = true |- forallb _ ?L = true => apply H; wfs
  | H : _ -> forall first, forallb _ (pp_orders first ?o) = true |- forallb _ (pp_orders _ ?o) = true => apply H; wfs
  | |- ok (words _) = true => apply ok_words
  | |- ok (pp_cmp _) = true => apply ok_cmp
  | |- ok (pp_is _) = true => apply ok_is
  | |- ok (pp_between _) = true => apply ok_between
  | |- ok (pp_jk _) = true => apply ok_jk
  | |- ok (pp_ut _) = true => apply ok_ut
  | |- ok (pp_dir _) = true => apply ok_dir
  | |- ok (pp_lock _) = true => apply ok_lock
  | |- ok (pp_un _) = true => apply ok_un
  | |- ok (pp_lit _ _ _) = true => apply ok_lit
  | |- ok (pp_col _ _) = true => apply ok_col; assumption
  | |- ok (pp_tname _ _) = true => apply ok_tname; assumption
  | |- ok (pp_alias _) = true => first [apply ok_oalias; assumption | apply ok_otalias; assumption | apply ok_talias'; assumption]
  | |- ok (pp_ctype _) = true => apply ok_ctype; assumption
  | |- SqlLexRoundtripSep.idok _ (pp_bin _) = true => apply ok_bin
  | |- SqlLexRoundtripSep.idok _ (PR _) = true => first [apply ok_plain; assumption | eapply ok_fname; eassumption]
  | |- SqlLexRoundtripSep.idok _ (PI _) = true => first [apply ok_id; assumption | apply ok_alias; assumption | apply ok_talias; assumption]
  end.
Ltac fin := unfold sp, comma; cbn [app]; repeat first [rewrite forallb_app | progress cbn [forallb]];
  repeat match goal with |- context [SqlLexRoundtripSep.idok pg ?p] =>
    match p with PS => idtac | PT (TW _) => idtac | PT (TP _) => idtac end;
    change (SqlLexRoundtripSep.idok pg p) with true end;
  cbn [andb]; conj; try atom.
Ltac wf1 W := unfold SqlLexRoundtripSep.wf' in W; cbv iota in W; rewrite orb_false_r in W.

Theorem ok_all :
  (forall e, Qe e) /\ (forall xs, Qxs xs) /\ (forall o, Qoe o) /\ (forall ws, Qws ws) /\ (forall s, Qse s)
  /\ (forall xs, Qses xs) /\ (forall s, Qsel s) /\ (forall t, Qt t) /\ (forall ts, Qts ts) /\ (forall c, Qjc c)
  /\ (forall os, Qos os) /\ (forall l, Qlm l).
Proof.
  apply ast_mutind; unfold Qe, Qxs, Qws, Qse, Qses, Qsel, Qt, Qts, Qjc, Qos, Qlm; intros.
  - rename H1 into W. wf1 W. rewrite wf_EAnd in W. wsplit W. rewrite pp_EAnd. fin.
  - rename H1 into W. wf1 W. rewrite wf_EOr in W. wsplit W. rewrite pp_EOr. fin.
  - rename H0 into W. wf1 W. rewrite wf_ENot in W. wsplit W. rewrite pp_ENot. fin.
  - rename H1 into W. wf1 W. rewrite wf_ECmp in W. apply andb_true_iff in W as [W Wr0]. wsplit W. rewrite pp_ECmp.
    assert (Wr : wf' r = true).
    { destruct (is_in op); [|apply andb_true_iff in Wr0 as [Wr0 _]; apply wf_wf'; assumption].
      destruct r; try discriminate Wr0.
      - unfold SqlLexRoundtripSep.wf'. apply andb_true_iff in Wr0 as [_ Wr0]. rewrite Wr0. apply orb_true_r.
      - apply wf_wf'. rewrite wf_ESubq. exact Wr0. }
    fin.
  - rename H2 into W. wf1 W. rewrite wf_ECmpEsc in W. wsplit W. rewrite pp_ECmpEsc. fin.
  - rename H2 into W. wf1 W. rewrite wf_ERange in W. wsplit W. rewrite pp_ERange. fin.
  - rename H0 into W. wf1 W. rewrite wf_EIs in W. wsplit W. rewrite pp_EIs. fin.
  - rename H0 into W. wf1 W. rewrite wf_EExists in W. wsplit W. rewrite pp_EExists. fin.
  - rename H1 into W. wf1 W. rewrite wf_EBin in W. wsplit W. rewrite pp_EBin. fin.
  - rename H0 into W. wf1 W. rewrite wf_EUn in W. apply andb_true_iff in W as [W Wop]. wsplit W. rewrite pp_EUn.
    destruct (is_un x); fin.
  - rename H0 into W. wf1 W. rewrite wf_ECollate in W. wsplit W. rewrite pp_ECollate. fin.
  - rewrite pp_ELit. atom.
  - reflexivity.
  - destruct b; reflexivity.
  - reflexivity.
  - rename H into W. wf1 W. rewrite wf_ECol in W. rewrite pp_ECol. atom.
  - rename H0 into W. wf1 W. rewrite wf_EParen in W. rewrite pp_EParen. fin.
  - rename H0 into W. unfold SqlLexRoundtripSep.wf' in W. rewrite wf_ETuple in W.
    assert (Wx : wf_exprs pg xs = true).
    { apply orb_true_iff in W as [W|W]; [|exact W]. destruct xs as [|? [|? ?]]; try discriminate W; exact W. }
    rewrite pp_ETuple. fin.
  - rename H0 into W. wf1 W. rewrite wf_ESubq in W. wsplit W. rewrite pp_ESubq. fin.
  - (* EFunc *) rename H0 into W. wf1 W. rewrite wf_EFunc in W. apply andb_true_iff in W as [W Wq2]. apply andb_true_iff in W as [W Wc].
    apply andb_true_iff in W as [Wq Wa]. rewrite pp_EFunc.
    assert (Fn : exists c, fname_class n = Some c) by (destruct (fname_class n) as [c|]; [exists c; reflexivity|discriminate Wc]).
    destruct Fn as [c Fn].
    destruct (id_empty q) eqn:E, d; fin.
    all: apply orb_true_iff in Wq as [Wq|Wq]; [destruct q as [[| |] [|]]; discriminate|apply ok_id; exact Wq].
  - rename H2 into W. wf1 W. rewrite wf_ECase in W. wsplit W. rewrite pp_ECase.
    destruct x as [|y]; destruct el as [|z]; cbn [Qoe wf_oexpr] in *; unfold Qe in *; fin.
  - rename H0 into W. wf1 W. rewrite wf_EConvert in W. wsplit W. rewrite pp_EConvert. fin.
  - rename H0 into W. wf1 W. rewrite wf_EConvertUsing in W. wsplit W. rewrite pp_EConvertUsing. fin.
  - rename H0 into W. wf1 W. rewrite wf_EInterval in W. apply andb_true_iff in W as [W Wu]. rewrite pp_EInterval. destruct unit as [|u0 un]; fin.
    wsplit Wu. apply ok_listed. apply in_or_app. right. apply in_or_app. left. apply mem_bytes_in. assumption.
  - rename H into W. wf1 W. rewrite wf_EValuesFunc in W. rewrite pp_EValuesFunc. fin.
  - reflexivity.
  - rename H1 into W. rewrite wf_exprs_XCons in W. wsplit W. destruct xs as [|y ys]; [rewrite pp_exprs_XCons; atom | rewrite pp_exprs_XCons2; fin].
  - exact I.
  - exact H.
  - reflexivity.
  - rename H2 into W. rewrite wf_whens_WCons in W. wsplit W. rewrite pp_whens_WCons. fin.
  - rename H into W. rewrite wf_selexpr_SStar in W. wsplit W. rewrite pp_selexpr_SStar. fin. apply ok_qual. assumption.
  - rename H0 into W. rewrite wf_selexpr_SAliased in W. wsplit W. rewrite pp_selexpr_SAliased. fin.
  - reflexivity.
  - rename H1 into W. rewrite wf_selexprs_SCons in W. wsplit W. destruct xs as [|y ys]; [rewrite pp_selexprs_SCons; atom | rewrite pp_selexprs_SCons2; fin].
  - rename H6 into W. rewrite wf_sel_Select in W. wsplit W. rewrite pp_sel_Select.
    destruct d; destruct wh as [|w]; destruct gb as [|g gs]; destruct hv as [|h]; cbn [Qoe wf_oexpr] in *; unfold Qe in *; fin.
  - rename H3 into W. rewrite wf_sel_Union in W. wsplit W. rewrite pp_sel_Union. fin.
  - rename H0 into W. rewrite wf_sel_ParenSel in W. wsplit W. rewrite pp_sel_ParenSel. fin.
  - rename H into W. rewrite wf_texpr_TTable in W. apply andb_true_iff in W as [W Wa]. rewrite pp_texpr_TTable. fin.
  - rename H0 into W. rewrite wf_texpr_TSubq in W. wsplit W. rewrite pp_texpr_TSubq. fin.
  - rename H0 into W. rewrite wf_texpr_TParen in W. wsplit W. rewrite pp_texpr_TParen. fin.
  - rename H2 into W. rewrite wf_texpr_TJoin in W. wsplit W. rewrite pp_texpr_TJoin. fin.
  - reflexivity.
  - rename H1 into W. rewrite wf_texprs_TCons in W. wsplit W. destruct ts as [|y ys]; [rewrite pp_texprs_TCons; atom | rewrite pp_texprs_TCons2; fin].
  - reflexivity.
  - rename H0 into W. rewrite wf_jcond_JOn in W. rewrite pp_jcond_JOn. fin.
  - rename H into W. rewrite wf_jcond_JUsing in W. wsplit W. rewrite pp_jcond_JUsing. fin. apply (ok_columns pg (wf_id pg)); [apply ok_id|assumption].
  - reflexivity.
  - rename H1 into W. rewrite wf_orders_OCons in W. wsplit W. rewrite pp_orders_OCons.
    match goal with |- context [pp x ++ ?D ++ pp_orders false os] =>
      assert (HD : D = [] \/ D = PS :: pp_dir d) by (clear; destruct x; auto; destruct (bytes_eqb (lower n) x_rand); auto);
      destruct HD as [HD|HD]; rewrite HD end; destruct first; fin.
  - reflexivity.
  - rename H0 into W. rewrite wf_lim_LOnly in W. rewrite pp_lim_LOnly. fin.
  - rename H1 into W. rewrite wf_lim_LOffset in W. wsplit W. rewrite pp_lim_LOffset. fin.
  - rename H1 into W. rewrite wf_lim_LComma in W. wsplit W. rewrite pp_lim_LComma. fin.
  - reflexivity.
  - rename H0 into W. rewrite wf_lim_LAllOffset in W. wsplit W. rewrite pp_lim_LAllOffset. fin.
Qed.
End L2.

Section L3.
Variable pg : bool.
Notation idok := (idok pg).
Notation ok := (forallb idok).
Ltac wsplit W := repeat (apply andb_true_iff in W; destruct W as [W ?]).
Ltac pre := unfold sp, comma; cbn [app]; repeat first [rewrite forallb_app | progress cbn [forallb]];
  repeat match goal with |- context [SqlLexRoundtripSep.idok pg ?p] =>
    match p with PS => idtac | PT (TW _) => idtac | PT (TP _) => idtac end;
    change (SqlLexRoundtripSep.idok pg p) with true end;
  cbn [andb]; repeat match goal with |- _ && _ = true => apply andb_true_intro; split end; try reflexivity.

Lemma ok_e e : wf pg e = true -> ok (pp e) = true.
Proof. intros W. apply (proj1 (ok_all pg) e). apply wf_wf'. exact W. Qed.
Lemma ok_xs xs : wf_exprs pg xs = true -> ok (pp_exprs xs) = true.
Proof. exact (proj1 (proj2 (ok_all pg)) xs). Qed.
Lemma ok_ses xs : wf_selexprs pg xs = true -> ok (pp_selexprs xs) = true.
Proof. exact (proj1 (proj2 (proj2 (proj2 (proj2 (proj2 (ok_all pg)))))) xs). Qed.
Lemma ok_sel s : wf_sel pg s = true -> ok (pp_sel s) = true.
Proof. exact (proj1 (proj2 (proj2 (proj2 (proj2 (proj2 (proj2 (ok_all pg))))))) s). Qed.
Lemma ok_ts ts : wf_texprs pg ts = true -> ok (pp_texprs ts) = true.
Proof. exact (proj1 (proj2 (proj2 (proj2 (proj2 (proj2 (proj2 (proj2 (proj2 (ok_all pg))))))))) ts). Qed.
Lemma ok_os os first : wf_orders pg os = true -> ok (pp_orders first os) = true.
Proof. intros W. exact (proj1 (proj2 (proj2 (proj2 (proj2 (proj2 (proj2 (proj2 (proj2 (proj2 (proj2 (ok_all pg))))))))))) os W first). Qed.
Lemma ok_lm l : wf_lim pg l = true -> ok (pp_lim l) = true.
Proof. exact (proj2 (proj2 (proj2 (proj2 (proj2 (proj2 (proj2 (proj2 (proj2 (proj2 (proj2 (ok_all pg))))))))))) l). Qed.

Lemma ok_updates us : wf_updates pg us = true -> ok (pp_updates us) = true.
Proof.
  induction us as [|q n x us IH]; [reflexivity|]. intros W. cbn [wf_updates] in W.
  apply andb_true_iff in W as [W Wus]. apply andb_true_iff in W as [Wc Wx].
  destruct us as [|q' n' x' us'].
  - cbn [pp_updates]. pre; first [apply ok_col; assumption|apply ok_e; assumption].
  - change (pp_updates (UCons q n x (UCons q' n' x' us'))) with
      (pp_col q n ++ PS :: PT (TP PEq) :: PS :: pp x ++ comma ++ pp_updates (UCons q' n' x' us')).
    pre; first [apply ok_col; assumption|apply ok_e; assumption|apply IH; assumption].
Qed.
Lemma ok_rows rs : wf_rows pg rs = true -> ok (pp_rows rs) = true.
Proof.
  induction rs as [|r rs IH]; [reflexivity|]. intros W. cbn [wf_rows] in W. apply andb_true_iff in W as [Wr Wrs].
  destruct rs as [|r' rs'].
  - cbn [pp_rows]. pre; apply ok_xs; assumption.
  - change (pp_rows (RCons r (RCons r' rs'))) with
      (PT (TP PLParen) :: pp_exprs r ++ PT (TP PRParen) :: comma ++ pp_rows (RCons r' rs')).
    pre; first [apply ok_xs; assumption|apply IH; assumption].
Qed.
Lemma ok_where o : wf_oexpr pg o = true -> ok (pp_where o) = true.
Proof. intros W. destruct o; [reflexivity|]. cbn [wf_oexpr] in W. unfold pp_where. pre; apply ok_e; assumption. Qed.
Lemma ok_ret r : wf_selexprs pg r = true -> ok (pp_ret r) = true.
Proof. intros W. unfold pp_ret. destruct r; [reflexivity|]. pre; first [apply ok_ses; assumption|apply ok_words]. Qed.
Lemma ok_dup u : wf_updates pg u = true -> ok (pp_dup u) = true.
Proof. intros W. unfold pp_dup. destruct u; [reflexivity|]. pre; first [apply ok_updates; assumption|apply ok_words]. Qed.
Lemma ok_ins_head repl ign tq tn : wf_tname pg tq tn = true -> ok (pp_ins_head repl ign tq tn) = true.
Proof. intros W. unfold pp_ins_head. destruct ign; pre; apply ok_tname; assumption. Qed.

(** every identifier / raw name printed for a well-formed statement is locally lexable *)
Theorem ok_stmt t : wf_stmt pg t = true -> ok (pp_stmt t) = true.
Proof.
  destruct t as [q|repl ign tq tn cols r dup ret|repl ign tq tn|ts set from wh ob lm ret|ts wh ob lm ret|targets ts wh ret];
    cbn [pp_stmt wf_stmt]; intros W.
  - apply andb_true_iff in W as [W _]. apply ok_sel; assumption.
  - apply andb_true_iff in W as [W Wret]. apply andb_true_iff in W as [W Wdup]. apply andb_true_iff in W as [W Wr].
    apply andb_true_iff in W as [Wt Wc].
    assert (Rr : ok (pp_irows r) = true).
    { destruct r as [rs|q]; cbn [pp_irows].
      - apply andb_true_iff in Wr as [Wr _]. pre; apply ok_rows; assumption.
      - apply andb_true_iff in Wr as [Wr _]. apply andb_true_iff in Wr as [Wr _]. apply ok_sel; assumption. }
    destruct cols as [|c0 cs]; pre; try (apply ok_ins_head; assumption); try exact Rr; try (apply ok_dup; assumption); try (apply ok_ret; assumption).
    apply (ok_columns pg (wf_alias pg)); [apply ok_alias|assumption].
  - pre; first [apply ok_ins_head; assumption|apply ok_words].
  - wsplit W. destruct from; pre;
      try (apply ok_ts; assumption); try (apply ok_updates; assumption); try (apply ok_where; assumption);
      try (apply ok_os; assumption); try (apply ok_lm; assumption); try (apply ok_ret; assumption).
  - wsplit W. pre; try (apply ok_ts; assumption); try (apply ok_where; assumption);
      try (apply ok_os; assumption); try (apply ok_lm; assumption); try (apply ok_ret; assumption).
  - wsplit W. pre; try (apply ok_ts; assumption); try (apply ok_where; assumption); try (apply ok_ret; assumption).
Qed.

(** (C) the local condition of a well-formed statement reduces to its literals and casts *)
Theorem loc_of_wf t nv : wf_stmt pg t = true -> lits_ok nv (pp_stmt t) = true -> loc pg nv (pp_stmt t) = true.
Proof. intros W L. rewrite loc_split, L, (ok_stmt t W). reflexivity. Qed.
End L3.
