(** C06 — facts about the abstract key specification (Model/KeySpec.v) alone. *)
From Coq Require Import List NArith ZArith Bool Lia.
From Acra Require Import Model.KeySpec.
Import ListNotations.
Local Open Scope N_scope.

Lemma kind_eqb_eq a b : kind_eqb a b = true <-> a = b.
Proof. destruct a, b; cbn; split; intro H; try reflexivity; discriminate. Qed.

Lemma slot_eqb_eq a b : slot_eqb a b = true <-> a = b.
Proof.
  destruct a as [ka na], b as [kb nb]. unfold slot_eqb. cbn [fst snd].
  rewrite andb_true_iff, kind_eqb_eq, N.eqb_eq. split.
  - intros [H1 H2]. subst. reflexivity.
  - intro H. inversion H. auto.
Qed.

Lemma slot_eqb_refl a : slot_eqb a a = true.
Proof. apply slot_eqb_eq. reflexivity. Qed.

Lemma slot_eqb_neq a b : slot_eqb a b = false <-> a <> b.
Proof.
  split.
  - intros H E. apply slot_eqb_eq in E. congruence.
  - intro H. destruct (slot_eqb a b) eqn:E; [apply slot_eqb_eq in E; contradiction | reflexivity].
Qed.

Lemma slot_eqb_sym a b : slot_eqb a b = slot_eqb b a.
Proof.
  destruct (slot_eqb a b) eqn:E.
  - apply slot_eqb_eq in E. subst. symmetry. apply slot_eqb_refl.
  - symmetry. apply slot_eqb_neq. apply slot_eqb_neq in E. congruence.
Qed.

Lemma supd_same st s v : supd st s v s = v.
Proof. unfold supd. rewrite slot_eqb_refl. reflexivity. Qed.

Lemma supd_other st s v x : x <> s -> supd st s v x = st x.
Proof. intro H. unfold supd. apply slot_eqb_neq in H. rewrite H. reflexivity. Qed.

Lemma indices_from_length i n : length (indices_from i n) = n.
Proof. revert i. induction n as [|n IH]; intro i; cbn; [reflexivity | rewrite IH; reflexivity]. Qed.

Lemma remove_nth_length {A} (n : nat) (l : list A) :
  (n < length l)%nat -> length (remove_nth n l) = (length l - 1)%nat.
Proof.
  intro H. unfold remove_nth. rewrite app_length, firstn_length, skipn_length. lia.
Qed.

Lemma rot_pos_some n i p : rot_pos n i = Some p -> (p < n)%nat /\ (2 <= i <= Z.of_nat n + 1)%Z /\ p = (n - 1 - Z.to_nat (i - 2))%nat.
Proof.
  unfold rot_pos. destruct ((2 <=? i)%Z && (i <=? Z.of_nat n + 1)%Z) eqn:E; [|discriminate].
  intro H. inversion H. apply andb_true_iff in E. destruct E as [E1 E2].
  apply Z.leb_le in E1. apply Z.leb_le in E2. repeat split; lia.
Qed.

(** * what the specification says about rotation and destruction *)

(** after a generation the new key is current and everything offered before is still offered, behind it *)
Lemma spec_rotation_keeps_old hide st s k t1 t2 :
  let st' := fst (spec_step hide st (Gen s k t1 t2)) in
  s_cur (st' s) = Some k /\ s_all hide (st' s) = k :: s_all false (st s)
  /\ forall s', s' <> s -> st' s' = st s'.
Proof.
  cbn [spec_step fst]. split; [|split].
  - rewrite supd_same. reflexivity.
  - rewrite supd_same. unfold s_all. cbn [s_cur s_rot]. destruct (s_cur (st s)); reflexivity.
  - intros s' H. apply supd_other. exact H.
Qed.

Lemma spec_destroy_current_exact hide st s :
  let st' := fst (spec_step hide st (DestroyCur s)) in
  s_cur (st' s) = None /\ s_rot (st' s) = s_rot (st s) /\ forall s', s' <> s -> st' s' = st s'.
Proof.
  cbn [spec_step fst]. split; [|split].
  - rewrite supd_same. reflexivity.
  - rewrite supd_same. reflexivity.
  - intros s' H. apply supd_other. exact H.
Qed.

Lemma remove_nth_spec {A} (l : list A) p k :
  nth_error l p = Some k -> NoDup l -> forall x, In x (remove_nth p l) <-> In x l /\ x <> k.
Proof.
  revert p. induction l as [|a r IH]; intros p Hn Hd x.
  - destruct p; discriminate.
  - inversion Hd as [|? ? Hna Hdr]; subst. destruct p as [|p].
    + cbn in Hn. inversion Hn. subst a. change (remove_nth 0 (k :: r)) with r. split.
      * intro H. split; [right; exact H | intro E; subst; contradiction].
      * intros [[H|H] Hne]; [subst; contradiction | exact H].
    + cbn [nth_error] in Hn. change (remove_nth (S p) (a :: r)) with (a :: remove_nth p r).
      specialize (IH p Hn Hdr x). split.
      * intros [H|H].
        -- subst x. split; [left; reflexivity|]. intro E. subst a. apply Hna. eapply nth_error_In. exact Hn.
        -- apply IH in H. destruct H as [H1 H2]. split; [right; exact H1 | exact H2].
      * intros [[H|H] Hne]; [left; exact H | right; apply IH; split; assumption].
Qed.

(** the key the listing shows under index [i]: the listing is chronological, index 2 = oldest *)
Definition listed (e : sslot) (i : Z) : option ord := nth_error (rev (s_rot e)) (Z.to_nat (i - 2)).

Lemma listed_pos e i k : (2 <= i)%Z -> listed e i = Some k ->
  rot_pos (length (s_rot e)) i = Some (length (s_rot e) - 1 - Z.to_nat (i - 2))%nat
  /\ nth_error (s_rot e) (length (s_rot e) - 1 - Z.to_nat (i - 2)) = Some k.
Proof.
  unfold listed. intros Hi Hn.
  assert (Hlt : (Z.to_nat (i - 2) < length (s_rot e))%nat).
  { rewrite <- (rev_length (s_rot e)). apply nth_error_Some. rewrite Hn. discriminate. }
  split.
  - unfold rot_pos.
    assert (E : ((2 <=? i)%Z && (i <=? Z.of_nat (length (s_rot e)) + 1)%Z) = true).
    { apply andb_true_iff. split; apply Z.leb_le; lia. }
    rewrite E. reflexivity.
  - assert (Hr : (Z.to_nat (i - 2) < length (rev (s_rot e)))%nat) by (rewrite rev_length; exact Hlt).
    rewrite (nth_error_nth' _ k Hr) in Hn. inversion Hn as [Hk].
    rewrite (rev_nth _ k Hlt).
    replace (length (s_rot e) - 1 - Z.to_nat (i - 2))%nat with (length (s_rot e) - S (Z.to_nat (i - 2)))%nat by lia.
    apply nth_error_nth'. lia.
Qed.

(** destroying the rotated key listed as [i] removes that key and no other *)
Lemma spec_destroy_rotated_exact hide st s i k :
  (2 <= i)%Z -> NoDup (s_rot (st s)) -> listed (st s) i = Some k ->
  let st' := fst (spec_step hide st (DestroyRot s i)) in
  (forall x, In x (s_rot (st' s)) <-> In x (s_rot (st s)) /\ x <> k)
  /\ s_cur (st' s) = s_cur (st s)
  /\ forall s', s' <> s -> st' s' = st s'.
Proof.
  intros Hi Hd Hl. destruct (listed_pos _ _ _ Hi Hl) as [Hp Hn].
  cbn [spec_step fst]. rewrite Hp. split; [|split].
  - rewrite supd_same. cbn [s_rot]. apply remove_nth_spec; assumption.
  - rewrite supd_same. reflexivity.
  - intros s' H. apply supd_other. exact H.
Qed.

(** an index that is not listed destroys nothing *)
Lemma spec_destroy_rotated_unlisted hide st s i :
  rot_pos (length (s_rot (st s))) i = None -> fst (spec_step hide st (DestroyRot s i)) = st.
Proof. intro H. cbn [spec_step fst]. rewrite H. reflexivity. Qed.

(** [hide] only changes what "read all" shows while a slot has no current key *)
Lemma spec_hide_state hide st op : fst (spec_step hide st op) = fst (spec_step false st op).
Proof. destruct op; reflexivity. Qed.

Lemma spec_hide_obs st op :
  snd (spec_step true st op) = snd (spec_step false st op)
  \/ exists s, op = All s /\ s_cur (st s) = None /\ s_rot (st s) <> [].
Proof.
  destruct op; try (left; reflexivity).
  cbn [spec_step snd]. unfold s_all. destruct (s_cur (st s)) eqn:E; [left; reflexivity|].
  destruct (s_rot (st s)) eqn:Er; [left; reflexivity|]. right. exists s. repeat split; [exact E|].
  rewrite Er. discriminate.
Qed.
