(** C16 — proofs about the redaction model (Model/SqlRedact.v) over the regenerated schema. *)
From Coq Require Import List NArith Bool String Lia.
From Acra Require Import Lib.Bytes Gen.SqlSchema Model.SqlRedact.
Import ListNotations.
Local Open Scope N_scope.

(** ---------- small facts ---------- *)
Lemma memN_In x l : memN x l = true <-> In x l.
Proof.
  induction l as [|y r IH]; cbn [memN In].
  - split; [discriminate | tauto].
  - rewrite orb_true_iff, IH, N.eqb_eq. split; intros [H|H]; auto.
Qed.

Lemma find_type_In ty s t : find_type ty s = Some t -> In t s /\ t_id t = ty.
Proof.
  induction s as [|x r IH]; cbn [find_type]; [discriminate|].
  destruct (t_id x =? ty) eqn:E.
  - intros H; inversion H; subst. apply N.eqb_eq in E. split; [left; reflexivity | exact E].
  - intros H. destruct (IH H) as [Hi Ht]. split; [right; exact Hi | exact Ht].
Qed.

(** ---------- finite checks over the regenerated schema ---------- *)

(** every SQLNode-typed field of every node type is handed to Walk by that type's walkSubtree,
    except the type-parameter fields named in the specification *)
Definition walk_complete_check : bool :=
  forallb (fun t => forallb (fun f => memN (fst f) (t_walk t) || type_param (t_name t) (snd f)) (t_fields t)) SCHEMA.

Lemma walk_complete_check_true : walk_complete_check = true.
Proof. vm_compute. reflexivity. Qed.

(** no walkSubtree hands the same field to Walk twice (so one pass over the children is what Walk does) *)
Fixpoint nodupN (l : list N) : bool :=
  match l with [] => true | x :: r => negb (memN x r) && nodupN r end.
Definition walk_nodup_check : bool := forallb (fun t => nodupN (t_walk t)) SCHEMA.
Lemma walk_nodup : walk_nodup_check = true.
Proof. vm_compute. reflexivity. Qed.

(** the enumeration of node types is finite: SCHEMA lists all of them (|SCHEMA| types) and the statement
    below ranges over exactly that list *)
Theorem walk_visits_all_children :
  forall t, In t SCHEMA ->
  forall f name, In (f, name) (t_fields t) -> type_param (t_name t) name = false ->
  In f (t_walk t).
Proof.
  intros t Ht f name Hf Hp.
  pose proof walk_complete_check_true as H. unfold walk_complete_check in H.
  rewrite forallb_forall in H. specialize (H t Ht).
  rewrite forallb_forall in H. specialize (H (f, name) Hf). cbn [fst snd] in H.
  rewrite Hp, orb_false_r in H. apply memN_In. exact H.
Qed.

(** every literal ValType is always turned into a bind variable by sqlToBindvar *)
Definition always_convertible (vt : N) : bool :=
  match assocN vt CONVERTED with
  | Some q => q || negb ERR_LEAVES_LITERAL
  | None => false
  end.
Definition all_literals_converted_check : bool := forallb always_convertible LITERAL_VTS.
Lemma all_literals_converted : all_literals_converted_check = true.
Proof. vm_compute. reflexivity. Qed.

Lemma valarg_not_literal : is_literal_vt VT_ValArg = false.
Proof. vm_compute. reflexivity. Qed.

Lemma listarg_not_sqlval : (T_ListArg =? T_SQLVal) = false.
Proof. vm_compute. reflexivity. Qed.

(** ---------- the visit functions never cut the walk (finite checks over the regenerated tables) ----------
    Walk goes below a node only if the visit function returns kontinue = true.  A clause is fine when
      - it is understood by the reader (no VA_unknown, VR_unknown);
      - `Walk(nz.WalkSelect, node)` occurs in WalkStatement only and that clause returns false (the subtree is walked
        once, by WalkSelect: what [dispatch] models);
      - otherwise it returns true for every answer its handler can give (convertComparison: after replacing
        node.Right and after leaving the node alone; the other handlers report nothing). *)
Definition is_stop (r : vreturn) : bool := match r with VR_stop => true | _ => false end.

Definition clause_ok (sel : bool) (c : vclause) : bool :=
  match vc_action c with
  | VA_unknown => false
  | VA_walk_select => negb sel && is_stop (vc_return c)
  | VA_convert_comparison =>
      CMP_REPORTS_UNDERSTOOD && (continues (vc_return c) CMP_REPORTS_REPLACED && continues (vc_return c) CMP_REPORTS_UNCHANGED)
  | _ => continues (vc_return c) false
  end.

Definition visit_tables_check : bool :=
  REDACT_ENTRY_KNOWN &&
  (forallb (clause_ok false) (visit_table false) && clause_ok false (visit_default false) &&
   (forallb (clause_ok true) (visit_table true) && clause_ok true (visit_default true))).

Lemma visit_tables_ok : visit_tables_check = true.
Proof. vm_compute. reflexivity. Qed.

(** both visit functions convert an SQLVal *)
Definition converts (a : vaction) : bool :=
  match a with VA_convert_val | VA_convert_val_dedup => true | _ => false end.
Definition sqlval_converted_check : bool :=
  converts (vc_action (snd (dispatch false T_SQLVal))) && converts (vc_action (snd (dispatch true T_SQLVal))).
Lemma sqlval_converted : sqlval_converted_check = true.
Proof. vm_compute. reflexivity. Qed.

Lemma find_clause_cases ty cs d : find_clause ty cs d = d \/ In (find_clause ty cs d) cs.
Proof.
  induction cs as [|c r IH]; cbn [find_clause]; [left; reflexivity|].
  destruct (vc_type c =? ty).
  - right. left. reflexivity.
  - destruct IH as [H|H]; [left; exact H | right; right; exact H].
Qed.

Lemma clause_of_ok sel ty : clause_ok sel (clause_of sel ty) = true.
Proof.
  pose proof visit_tables_ok as H. unfold visit_tables_check in H.
  apply andb_true_iff in H. destruct H as [_ H].
  apply andb_true_iff in H. destruct H as [Hf Ht].
  apply andb_true_iff in Hf. destruct Hf as [Hf1 Hf2].
  apply andb_true_iff in Ht. destruct Ht as [Ht1 Ht2].
  unfold clause_of.
  destruct (find_clause_cases ty (visit_table sel) (visit_default sel)) as [E|E].
  - rewrite E. destruct sel; assumption.
  - destruct sel; [rewrite forallb_forall in Ht1; apply Ht1 | rewrite forallb_forall in Hf1; apply Hf1]; exact E.
Qed.

(** the clause [dispatch] ends with is the one the visit function in charge takes, and it is not a hand-over *)
Lemma dispatch_spec sel ty :
  snd (dispatch sel ty) = clause_of (fst (dispatch sel ty)) ty /\
  vc_action (snd (dispatch sel ty)) <> VA_walk_select.
Proof.
  unfold dispatch.
  destruct (vc_action (clause_of sel ty)) eqn:E; cbn [fst snd];
    try (split; [reflexivity | rewrite E; discriminate]).
  pose proof (clause_of_ok sel ty) as Hok. unfold clause_ok in Hok. rewrite E in Hok.
  destruct sel; [discriminate Hok|]. cbn [fst snd]. split; [reflexivity|].
  intros E2. pose proof (clause_of_ok true ty) as Hok2. unfold clause_ok in Hok2. rewrite E2 in Hok2.
  discriminate Hok2.
Qed.

(** what [norm] computes as "Walk goes below this node" *)
Definition model_goes_below (sel : bool) (ty : N) (replaced : bool) : bool :=
  continues (vc_return (snd (dispatch sel ty))) (handled_of (vc_action (snd (dispatch sel ty))) replaced).

(** every node type, both visit functions, whatever the comparison handler did: Walk goes below the node *)
Theorem visit_never_cuts_walk : forall sel ty replaced, model_goes_below sel ty replaced = true.
Proof.
  intros sel ty replaced. unfold model_goes_below.
  destruct (dispatch_spec sel ty) as [H1 H2].
  pose proof (clause_of_ok (fst (dispatch sel ty)) ty) as Hok. rewrite <- H1 in Hok.
  unfold clause_ok in Hok.
  destruct (vc_action (snd (dispatch sel ty))); cbn [handled_of]; try exact Hok.
  - apply andb_true_iff in Hok. destruct Hok as [_ Hok].
    apply andb_true_iff in Hok. destruct Hok as [Ha Hb]. destruct replaced; assumption.
  - exfalso. apply H2. reflexivity.
  - discriminate Hok.
Qed.

(** the run-time probe of the compiled package saw what the model reads from the tables *)
Definition visit_probe_check : bool :=
  VISIT_PROBE_RAN && negb (Nat.eqb (length VISIT_PROBE) 0) &&
  forallb (fun p => match p with (sel, ty, h, obs) => Bool.eqb (model_goes_below sel ty h) obs end) VISIT_PROBE.
Lemma visit_probe_ok : visit_probe_check = true.
Proof. vm_compute. reflexivity. Qed.

Theorem visit_probe_agrees :
  VISIT_PROBE <> [] /\
  forall sel ty h obs, In (sel, ty, h, obs) VISIT_PROBE -> model_goes_below sel ty h = obs.
Proof.
  pose proof visit_probe_ok as H. unfold visit_probe_check in H.
  apply andb_true_iff in H. destruct H as [H Hall].
  apply andb_true_iff in H. destruct H as [_ Hne].
  split.
  - intros E. rewrite E in Hne. discriminate Hne.
  - intros sel ty h obs Hin. rewrite forallb_forall in Hall. specialize (Hall _ Hin). cbn beta iota in Hall.
    apply Bool.eqb_prop in Hall. exact Hall.
Qed.

(** ---------- sqlToBindvar on literals ---------- *)
Lemma literal_convertible t : literal_node t = true -> exists q, sql_to_bindvar t = Some q.
Proof.
  destruct t as [ty a kids]. destruct a as [|vt val ok|b|nm]; cbn [literal_node]; try discriminate.
  intros H. apply andb_true_iff in H. destruct H as [Hty Hvt].
  unfold is_literal_vt in Hvt. apply memN_In in Hvt.
  pose proof all_literals_converted as Hc. unfold all_literals_converted_check in Hc.
  rewrite forallb_forall in Hc. specialize (Hc vt Hvt). unfold always_convertible in Hc.
  cbn [sql_to_bindvar]. rewrite Hty.
  destruct (assocN vt CONVERTED) as [q|]; [|discriminate].
  destruct q; [eexists; reflexivity|].
  cbn [orb] in Hc. destruct ok; [eexists; reflexivity|].
  destruct ERR_LEAVES_LITERAL; [discriminate | eexists; reflexivity].
Qed.

(** ---------- the visit of an SQLVal never leaves a literal ---------- *)
Lemma new_name_split p st : exists st' nm, new_name p st = (st', nm).
Proof. destruct (new_name p st) as [s n]. eauto. Qed.

Lemma convert_val_attr p st ty a :
  exists s a', convert_val p st (Node ty a FNil) = (s, Node ty a' FNil) /\
    forall kids, literal_node (Node ty a' kids) = false.
Proof.
  unfold convert_val.
  destruct (sql_to_bindvar (Node ty a FNil)) as [q|] eqn:E.
  - destruct a as [|vt val ok|b|nm]; cbn [sql_to_bindvar] in E; try discriminate.
    destruct (new_name_split p st) as [st' [nm Hn]]. rewrite Hn.
    eexists _, _. split; [reflexivity|].
    intros kids. cbn [literal_node]. rewrite valarg_not_literal. apply andb_false_r.
  - eexists _, _. split; [reflexivity|].
    intros kids. destruct (literal_node (Node ty a kids)) eqn:L; [|reflexivity].
    assert (L' : literal_node (Node ty a FNil) = true) by (destruct a; exact L).
    destruct (literal_convertible _ L') as [q Hq]. rewrite Hq in E. discriminate.
Qed.

Lemma convert_val_dedup_attr p st ty a :
  exists s a', convert_val_dedup p st (Node ty a FNil) = (s, Node ty a' FNil) /\
    forall kids, literal_node (Node ty a' kids) = false.
Proof.
  destruct a as [|vt val ok|b|nm];
    try (eexists _, _; split; [reflexivity | intros kids; reflexivity]).
  unfold convert_val_dedup.
  destruct (256 <? N.of_nat (length val)).
  - apply convert_val_attr.
  - destruct (sql_to_bindvar (Node ty (AVal vt val ok) FNil)) as [q|] eqn:E.
    + cbv zeta. destruct (assoc_bytes _ (vals st)) as [nm|].
      * eexists _, _. split; [reflexivity|].
        intros kids. cbn [literal_node]. rewrite valarg_not_literal. apply andb_false_r.
      * destruct (new_name_split p st) as [st' [nm Hn]]. rewrite Hn.
        eexists _, _. split; [reflexivity|].
        intros kids. cbn [literal_node]. rewrite valarg_not_literal. apply andb_false_r.
    + eexists _, _. split; [reflexivity|].
      intros kids. destruct (literal_node (Node ty (AVal vt val ok) kids)) eqn:L; [|reflexivity].
      assert (L' : literal_node (Node ty (AVal vt val ok) FNil) = true) by exact L.
      destruct (literal_convertible _ L') as [q Hq]. rewrite Hq in E. discriminate.
Qed.

Lemma not_sqlval_not_literal ty a kids : (ty =? T_SQLVal) = false -> literal_node (Node ty a kids) = false.
Proof. intros E. destruct a; cbn [literal_node]; try reflexivity. rewrite E. reflexivity. Qed.

Lemma visit_val_not_literal p act st ty a kids :
  ((ty =? T_SQLVal) = true -> converts act = true) ->
  literal_node (Node ty (snd (visit_val p act st ty a)) kids) = false.
Proof.
  intros Hc. destruct (ty =? T_SQLVal) eqn:Ety; [|apply not_sqlval_not_literal; exact Ety].
  specialize (Hc eq_refl). unfold visit_val. destruct act; try discriminate Hc.
  - destruct (convert_val_attr p st ty a) as [s [a' [H1 H2]]]. rewrite H1. cbn [snd]. apply H2.
  - destruct (convert_val_dedup_attr p st ty a) as [s [a' [H1 H2]]]. rewrite H1. cbn [snd]. apply H2.
Qed.

Lemma dispatch_converts_sqlval sel ty :
  (ty =? T_SQLVal) = true -> converts (vc_action (snd (dispatch sel ty))) = true.
Proof.
  intros E. apply N.eqb_eq in E. subst ty.
  pose proof sqlval_converted as H. unfold sqlval_converted_check in H.
  apply andb_true_iff in H. destruct H as [Hf Ht]. destruct sel; assumption.
Qed.

(** ---------- reachability by Walk ---------- *)
Inductive fin : N -> tree -> forest -> Prop :=
| fin_here f k r : fin f k (FCons f k r)
| fin_next f k g k0 r : fin f k r -> fin f k (FCons g k0 r).

(** [reach t u]: Walk started at t calls visit on u (every visit function continues) *)
Inductive reach : tree -> tree -> Prop :=
| reach_self t : reach t t
| reach_kid ty a kids f k u : walked ty f = true -> fin f k kids -> reach k u -> reach (Node ty a kids) u.

(** every node of the tree, walked or not *)
Inductive desc : tree -> tree -> Prop :=
| desc_self t : desc t t
| desc_kid ty a kids f k u : fin f k kids -> desc k u -> desc (Node ty a kids) u.

Definition repl_ok (repl : option tree) : Prop :=
  match repl with Some l => forall u, reach l u -> literal_node u = false | None => True end.

Lemma visit_cmp_repl_ok p act st a kids : repl_ok (snd (visit_cmp p act st a kids)).
Proof.
  unfold visit_cmp. destruct act; try exact I.
  unfold convert_comparison. destruct a as [|vt val ok|b|nm]; try exact I.
  destruct b; [|exact I].
  destruct (find_kid F_ComparisonExpr_Right kids) as [[tty ta elems]|]; [|exact I].
  destruct ((tty =? T_ValTuple) && all_convertible elems); [|exact I].
  destruct (new_name_split p st) as [st' [nm Hn]]. rewrite Hn. cbn [snd repl_ok].
  intros u Hu. inversion Hu; subst.
  - reflexivity.
  - match goal with H : fin _ _ FNil |- _ => inversion H end.
Qed.

(** the heart of C16: after the walk no literal is left at any node Walk reaches — all trees, all states *)
Lemma norm_no_literal_mut :
  (forall t p sel st u, reach (snd (norm p sel st t)) u -> literal_node u = false) /\
  (forall ks p sel pty repl st, repl_ok repl ->
     forall f k', fin f k' (snd (norm_kids p sel pty true repl st ks)) -> walked pty f = true ->
     forall u, reach k' u -> literal_node u = false).
Proof.
  apply tree_forest_ind.
  - (* Node: the visit function returns kontinue = true (visit_never_cuts_walk), so the children are walked *)
    intros ty a kids IHk p sel st u Hu. cbn [norm snd] in Hu.
    pose proof (visit_never_cuts_walk sel ty) as Hgo. unfold model_goes_below in Hgo.
    rewrite Hgo in Hu.
    inversion Hu; subst.
    + apply visit_val_not_literal. apply dispatch_converts_sqlval.
    + eapply IHk; [apply visit_cmp_repl_ok | eassumption | assumption | assumption].
  - (* FNil *)
    intros p sel pty repl st _ f k' H. cbn [norm_kids snd] in H. inversion H.
  - (* FCons *)
    intros f k IHt r IHr p sel pty repl st Hrepl g k' Hin Hw u Hu.
    cbn [norm_kids snd andb] in Hin.
    inversion Hin as [? ? ? | ? ? ? ? ? Hin']; subst.
    + (* this child *)
      destruct repl as [l|].
      * match type of Hu with context [if ?c then _ else _] => destruct c end.
        -- cbn [fst snd] in Hu. apply Hrepl. exact Hu.
        -- rewrite Hw in Hu. cbn [fst snd] in Hu. eapply IHt. exact Hu.
      * rewrite Hw in Hu. cbn [fst snd] in Hu. eapply IHt. exact Hu.
    + (* a later child *)
      match type of Hin' with fin _ _ (snd (norm_kids _ _ _ _ ?rp ?s r)) =>
        eapply (IHr p sel pty rp s); [| exact Hin' | exact Hw | exact Hu] end.
      destruct repl as [l|]; [|exact I].
      destruct (f =? F_ComparisonExpr_Right); [exact I | exact Hrepl].
Qed.

Theorem normalize_leaves_no_literal :
  forall (prefix : bytes) (sel : bool) (st : nst) (t u : tree),
  reach (snd (norm prefix sel st t)) u -> literal_node u = false.
Proof. intros p sel st t u. apply (proj1 norm_no_literal_mut). Qed.

Corollary redact_leaves_no_literal :
  forall (prefix : bytes) (t u : tree), reach (redact prefix t) u -> literal_node u = false.
Proof. intros p t u. unfold redact. apply normalize_leaves_no_literal. Qed.

(** ---------- Walk reaches every child of a schema-typed tree ---------- *)
(** [wf t]: every child of every node sits in an SQLNode-typed field of its parent's Go type that is
    not a type parameter — what the reflection-based conversion of a real parse tree produces when
    type parameters are left out *)
Definition value_field (ty f : N) : bool :=
  match find_type ty SCHEMA with
  | Some t => existsb (fun p => (fst p =? f) && negb (type_param (t_name t) (snd p))) (t_fields t)
  | None => false
  end.

Inductive wf : tree -> Prop :=
| wf_node ty a kids : wf_f ty kids -> wf (Node ty a kids)
with wf_f : N -> forest -> Prop :=
| wf_nil ty : wf_f ty FNil
| wf_cons ty f k r : value_field ty f = true -> wf k -> wf_f ty r -> wf_f ty (FCons f k r).

Lemma value_field_walked ty f : value_field ty f = true -> walked ty f = true.
Proof.
  unfold value_field, walked, walk_fields.
  destruct (find_type ty SCHEMA) as [t|] eqn:E; [|discriminate].
  intros H. apply existsb_exists in H. destruct H as [[g name] [Hin Hc]].
  cbn [fst snd] in Hc. apply andb_true_iff in Hc. destruct Hc as [Hg Hp].
  apply N.eqb_eq in Hg. subst g. apply negb_true_iff in Hp.
  apply memN_In. destruct (find_type_In _ _ _ E) as [Hs _].
  eapply walk_visits_all_children; eassumption.
Qed.

Lemma wf_f_fin ty kids f k : wf_f ty kids -> fin f k kids -> value_field ty f = true /\ wf k.
Proof.
  intros H Hin. induction Hin; inversion H; subst; auto.
Qed.

Theorem walk_reaches_every_node : forall t u, wf t -> desc t u -> reach t u.
Proof.
  intros t u Hwf Hd. induction Hd as [t|ty a kids f k u Hin Hd IH].
  - apply reach_self.
  - inversion Hwf; subst.
    match goal with H : wf_f ty kids |- _ => destruct (wf_f_fin _ _ _ _ H Hin) as [Hv Hk] end.
    eapply reach_kid; [apply value_field_walked; exact Hv | exact Hin | apply IH; exact Hk].
Qed.

(** ---------- shape ---------- *)
Definition is_val (a : attr) : bool := match a with AVal _ _ _ => true | _ => false end.

Definition attr_rel (ty : N) (a a' : attr) : Prop :=
  a = a' \/ ((ty =? T_SQLVal) = true /\ is_val a = true /\ is_val a' = true).

(** equal modulo literal leaves: same node types, same field tags, same children; an SQLVal may change its
    value; an IN list whose members are all values may become one list argument *)
Inductive shape_rel : tree -> tree -> Prop :=
| sr_node ty a a' ks ks' : attr_rel ty a a' -> shape_rel_f ks ks' -> shape_rel (Node ty a ks) (Node ty a' ks')
| sr_list a ks nm : all_convertible ks = true ->
    shape_rel (Node T_ValTuple a ks) (Node T_ListArg (AList nm) FNil)
with shape_rel_f : forest -> forest -> Prop :=
| srf_nil : shape_rel_f FNil FNil
| srf_cons f k k' r r' : shape_rel k k' -> shape_rel_f r r' -> shape_rel_f (FCons f k r) (FCons f k' r').

Lemma shape_refl_mut : (forall t, shape_rel t t) /\ (forall ks, shape_rel_f ks ks).
Proof.
  apply tree_forest_ind.
  - intros ty a kids IH. apply sr_node; [left; reflexivity | exact IH].
  - apply srf_nil.
  - intros f k IHk r IHr. apply srf_cons; assumption.
Qed.

Lemma convert_val_shape p st ty a :
  exists s a', convert_val p st (Node ty a FNil) = (s, Node ty a' FNil) /\ attr_rel ty a a'.
Proof.
  unfold convert_val.
  destruct (sql_to_bindvar (Node ty a FNil)) as [q|] eqn:E.
  - destruct a as [|vt val ok|b|nm]; cbn [sql_to_bindvar] in E; try discriminate.
    destruct (ty =? T_SQLVal) eqn:Ety; [|discriminate].
    destruct (new_name_split p st) as [st' [nm Hn]]. rewrite Hn.
    eexists _, _. split; [reflexivity|]. right. split; [exact Ety|]. split; reflexivity.
  - eexists _, _. split; [reflexivity | left; reflexivity].
Qed.

Lemma convert_val_dedup_shape p st ty a :
  exists s a', convert_val_dedup p st (Node ty a FNil) = (s, Node ty a' FNil) /\ attr_rel ty a a'.
Proof.
  destruct a as [|vt val ok|b|nm];
    try (eexists _, _; split; [reflexivity | left; reflexivity]).
  unfold convert_val_dedup.
  destruct (256 <? N.of_nat (length val)); [apply convert_val_shape|].
  destruct (sql_to_bindvar (Node ty (AVal vt val ok) FNil)) as [q|] eqn:E.
  - cbn [sql_to_bindvar] in E. destruct (ty =? T_SQLVal) eqn:Ety; [|discriminate].
    cbv zeta. destruct (assoc_bytes _ (vals st)) as [nm|].
    + eexists _, _. split; [reflexivity|]. right. split; [exact Ety|]. split; reflexivity.
    + destruct (new_name_split p st) as [st' [nm Hn]]. rewrite Hn.
      eexists _, _. split; [reflexivity|]. right. split; [exact Ety|]. split; reflexivity.
  - eexists _, _. split; [reflexivity | left; reflexivity].
Qed.

Lemma visit_val_attr_rel p act st ty a : attr_rel ty a (snd (visit_val p act st ty a)).
Proof.
  unfold visit_val. destruct act; try (left; reflexivity).
  - destruct (convert_val_shape p st ty a) as [s [a' [H1 H2]]]. rewrite H1. exact H2.
  - destruct (convert_val_dedup_shape p st ty a) as [s [a' [H1 H2]]]. rewrite H1. exact H2.
Qed.

Definition repl_shape (repl : option tree) (ks : forest) : Prop :=
  match repl with
  | Some l => exists k0, find_kid F_ComparisonExpr_Right ks = Some k0 /\ shape_rel k0 l
  | None => True
  end.

Lemma visit_cmp_repl_shape p act st a kids : repl_shape (snd (visit_cmp p act st a kids)) kids.
Proof.
  unfold visit_cmp. destruct act; try exact I.
  unfold convert_comparison. destruct a as [|vt val ok|b|nm]; try exact I.
  destruct b; [|exact I].
  destruct (find_kid F_ComparisonExpr_Right kids) as [[tty ta elems]|] eqn:Ef; [|exact I].
  destruct ((tty =? T_ValTuple) && all_convertible elems) eqn:Ec; [|exact I].
  destruct (new_name_split p st) as [st' [nm Hn]]. rewrite Hn. cbn [snd repl_shape].
  apply andb_true_iff in Ec. destruct Ec as [Et Ea]. apply N.eqb_eq in Et. subst tty.
  eexists. split; [exact Ef|]. apply sr_list. exact Ea.
Qed.

Lemma norm_shape_mut :
  (forall t p sel st, shape_rel t (snd (norm p sel st t))) /\
  (forall ks p sel pty go repl st, repl_shape repl ks -> shape_rel_f ks (snd (norm_kids p sel pty go repl st ks))).
Proof.
  apply tree_forest_ind.
  - intros ty a kids IHk p sel st. cbn [norm snd].
    apply sr_node; [apply visit_val_attr_rel | apply IHk; apply visit_cmp_repl_shape].
  - intros. cbn [norm_kids snd]. apply srf_nil.
  - intros f k IHt r IHr p sel pty go repl st Hrepl. cbn [norm_kids snd].
    destruct repl as [l|].
    + cbn [repl_shape find_kid] in Hrepl. destruct Hrepl as [k0 [Hf Hs]].
      destruct (f =? F_ComparisonExpr_Right) eqn:Ef.
      * inversion Hf; subst k0. cbn [fst snd]. apply srf_cons; [exact Hs | apply IHr; exact I].
      * cbn [fst snd]. apply srf_cons.
        -- destruct (go && walked pty f); [apply IHt | apply (proj1 shape_refl_mut)].
        -- apply IHr. cbn [repl_shape]. eauto.
    + cbn [fst snd]. apply srf_cons.
      * destruct (go && walked pty f); [apply IHt | apply (proj1 shape_refl_mut)].
      * apply IHr. exact I.
Qed.

Theorem shape_preserved :
  forall (prefix : bytes) (sel : bool) (st : nst) (t : tree), shape_rel t (snd (norm prefix sel st t)).
Proof. intros p sel st t. apply (proj1 norm_shape_mut). Qed.

(** ---------- the log lines ---------- *)
Definition quiet (e : logev) : bool := negb (carries_statement e).

Lemma run_handlers_unparsed hs cap :
  forallb quiet (c_logs (run_handlers (mkH TEmpty TEmpty false true) hs cap)) = true.
Proof.
  revert cap. induction hs as [|h r IH]; intros cap; cbn [run_handlers].
  - reflexivity.
  - destruct h as [|m|v].
    + apply IH.
    + destruct m; [reflexivity | apply IH].
    + destruct v; [apply IH | reflexivity | reflexivity].
Qed.

Lemma run_handlers_captured h hs cap x :
  In x (c_captured (run_handlers h hs cap)) -> In x cap \/ x = h_redacted h.
Proof.
  revert cap. induction hs as [|hd r IH]; intros cap; cbn [run_handlers c_captured].
  - auto.
  - destruct hd as [|m|v].
    + intros H. apply IH in H. destruct H as [H|H]; [|auto].
      apply in_app_or in H. destruct H as [H|[H|[]]]; auto.
    + destruct m; [cbn [c_captured]; auto | apply IH].
    + destruct v; [apply IH | cbn [c_captured]; auto | cbn [c_captured]; auto].
Qed.

(** no log line of the firewall carries an unparsed statement — every configuration *)
Theorem unparsed_never_logged :
  forall cfg : censor_cfg, forallb quiet (c_logs (censor_handle cfg None)) = true.
Proof.
  intros [hs ign wr]. unfold censor_handle. cbn [cfg_handlers cfg_unparsed_writer cfg_ignore_parse_error handle_raw h_err].
  destruct hs as [|h r]; destruct wr; destruct ign; cbn [negb andb c_logs]; try reflexivity;
    rewrite forallb_app; cbn [forallb quiet carries_statement l_text negb andb];
    apply run_handlers_unparsed.
Qed.

(** ... it reaches a capture file only when the operator configured parse_errors_log *)
Theorem unparsed_captured_only_if_configured :
  forall cfg : censor_cfg, In TRaw (c_captured (censor_handle cfg None)) -> cfg_unparsed_writer cfg = true.
Proof.
  intros [hs ign wr]. unfold censor_handle. cbn [cfg_handlers cfg_unparsed_writer cfg_ignore_parse_error handle_raw h_err].
  destruct wr; [reflexivity|].
  destruct hs as [|h r]; [intros []|].
  destruct ign; cbn [negb andb c_captured]; [|intros []].
  intros H. apply run_handlers_captured in H. destruct H as [[]|H]. discriminate H.
Qed.

Lemma run_handlers_parsed t hs cap e :
  In e (c_logs (run_handlers (handle_raw ModeStrict (Some t)) hs cap)) ->
  l_text e = TEmpty \/ l_text e = TPrinted (redact VALUE_MASK t).
Proof.
  revert cap. induction hs as [|h r IH]; intros cap; cbn [run_handlers handle_raw].
  - cbn. intros [H|[]]; subst; auto.
  - destruct h as [|m|v].
    + apply IH.
    + destruct m; [cbn; intros [H|[]]; subst; auto | apply IH].
    + destruct v; [apply IH | cbn; intros [H|[]]; subst; auto | cbn; intros [H|[H|[]]]; subst; auto].
Qed.

(** a parsed statement is logged by the firewall only in its redacted form *)
Theorem parsed_logged_redacted_only :
  forall (cfg : censor_cfg) (t : tree) (e : logev),
  In e (c_logs (censor_handle cfg (Some t))) ->
  l_text e = TEmpty \/ l_text e = TPrinted (redact VALUE_MASK t).
Proof.
  intros [hs ign wr] t e. unfold censor_handle.
  cbn [cfg_handlers cfg_unparsed_writer cfg_ignore_parse_error].
  destruct hs as [|h r]; destruct wr; cbv zeta;
    change (h_err (handle_raw ModeStrict (Some t))) with false; cbn [andb negb]; cbn [c_logs app];
    intros Hlog; try (eapply run_handlers_parsed; exact Hlog).
  destruct Hlog.
Qed.

(** the proxies' debug line and the parser's own log line never carry a statement that did not parse,
    in either parser mode (rests on the regenerated NOTPARSED_REDACTED_EMPTY / DDL_LOG_HAS_STATEMENT) *)
Theorem proxy_never_logs_unparsed :
  forall m : pmode, forallb quiet (proxy_debug_log m None) = true.
Proof. intros []; vm_compute; reflexivity. Qed.

Theorem partial_ddl_not_logged : forallb quiet partial_ddl_log = true.
Proof. vm_compute. reflexivity. Qed.

Theorem proxy_logs_redacted_only :
  forall (m : pmode) (t : tree) (e : logev), In e (proxy_debug_log m (Some t)) ->
  l_text e = TPrinted (redact VALUE_MASK t).
Proof. intros m t e. cbn. intros [H|[]]; subst; reflexivity. Qed.
