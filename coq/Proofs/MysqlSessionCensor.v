(** Composition of the MySQL session model with the pattern rule of the firewall (Model/CensorPattern.v):
    a statement whose deny handler lists a generalisation of it is never written to the database connection. *)
From Coq Require Import List Bool NArith.
From Acra Require Import Lib.Bytes Lib.Outcome Model.CensorPattern Proofs.CensorPatternChain.
From Acra Require Model.Censor Proofs.Censor Model.MysqlSession Proofs.MysqlSession.
Import ListNotations.

Module C := Acra.Model.Censor.
Module PC := Acra.Proofs.Censor.
Module M := Acra.Model.MysqlSession.
Module PM := Acra.Proofs.MysqlSession.

(** [tree_of s'] = the exported AST of statement [s'], [stt s'] = what it shows to the table rule; the verdict of
    every COM_QUERY / COM_STMT_PREPARE of the history is the verdict of the modelled chain with the pattern
    result computed by the modelled matcher *)
Theorem generalised_deny_pattern_never_forwarded
        (strict : N -> bool) (depeof : bool) (c : C.censor) (pre post : list C.handler)
        (stt : N -> C.stmt_tables) (hq mq : bool) (ts : list bytes) (ps : list tree)
        (sel : list nat -> gsel) (tree_of : N -> tree) evs st s :
  Forall (PC.silent true) pre ->
  forallb wf ps = true -> wf (tree_of s) = true -> supported (tree_of s) = true ->
  top_kind (tkind (tree_of s)) = true ->
  In (generalise sel [] (tree_of s)) ps ->
  (forall p ds s' d, In (p, ds) evs -> M.c_cmd p = M.CQuery s' d \/ M.c_cmd p = M.CPrepare s' d ->
     d = C.is_denied (C.handle_query c true
           (pre ++ C.HDeny (C.rules_of (stt s') hq mq ts (negb (C.is_nil ps)) (pattern_hit ps (tree_of s'))) :: post))) ->
  forall seq parts,
    ~ (In (M.ToDb (M.FQuery s) seq parts) (snd (M.run_session strict depeof st evs))
       \/ In (M.ToDb (M.FPrepare s) seq parts) (snd (M.run_session strict depeof st evs))).
Proof.
  intros Hpre Hps Hs Hsup Ht Hin Hv seq parts Hfw.
  pose proof (PM.denied_never_forwarded strict depeof
                (fun s' => C.is_denied (C.handle_query c true
                   (pre ++ C.HDeny (C.rules_of (stt s') hq mq ts (negb (C.is_nil ps)) (pattern_hit ps (tree_of s'))) :: post)))
                evs st Hv s seq parts Hfw) as H.
  cbn beta in H.
  rewrite (deny_generalised_pattern_rejected c pre post (stt s) hq mq ts ps sel (tree_of s) Hpre Hps Hs Hsup Ht Hin) in H.
  discriminate H.
Qed.
