(** C17 serializability, instances of the generic theorem (Proofs/KeystoreSerial.v):
    (1) the extended alphabet [xop] (writers AND readers): every operation program is [safe];
    (2) the machine of Model/KeystoreWrite.v ([gstep]/[grun], alphabet [hop]) - the one the harness
        schedules are replayed on - is the generic machine for [hop_prog];
    (3) what serializability does NOT give: the operations generate-key and destroy-current are
        several locked sections, and are not atomic ([generate_atomic_refuted]). *)
From Acra Require Import Lib.Bytes Lib.Outcome Gen.KswConsts Model.KeystoreWrite Model.KeystoreSerial
  Proofs.KeystoreWrite Proofs.KeystoreLock Proofs.KeystoreSerial.
Local Open Scope Z_scope.

(** * (1) readers respect the lock discipline *)
Lemma open_key_ring_safe rid : safe (open_key_ring rid).
Proof. unfold open_key_ring. apply read_key_ring_safe'. Qed.

Lemma list_key_rings_safe : safe list_key_rings.
Proof.
  unfold list_key_rings. apply safe_bind; [|intro a; apply safe_done].
  apply rlocked_safe. intro st. unfold call. cbn [pbind rbody do_call fst snd is_lock_call].
  split; [reflexivity|]. split; [reflexivity|exact I].
Qed.

Lemma list_keys_loop_safe : forall rids acc, safe (list_keys_loop rids acc).
Proof.
  induction rids as [|rid rest IH]; intro acc; cbn [list_keys_loop]; [apply safe_done|].
  apply safe_bind; [apply open_key_ring_safe|]. intro o.
  destruct (fst o) as [u|e|]; try apply safe_done.
  destruct (current_key (snd o)) as [s|e|]; try apply IH.
  destruct (key_with_seqnum (h_data (snd o)) s) as [kc|]; [destruct (N.eqb (k_state kc) KSW_DESTROYED); apply IH|apply safe_done].
Qed.

Lemma list_keys_safe : safe list_keys.
Proof.
  unfold list_keys. apply safe_bind; [apply list_key_rings_safe|]. intro l.
  destruct l as [rids|e|]; [apply list_keys_loop_safe|apply safe_done|apply safe_done].
Qed.

Theorem xop_prog_safe hr o : safe (xop_prog hr o).
Proof.
  destruct o as [o|rid|]; cbn [xop_prog].
  - apply safe_bind; [apply hop_prog_safe|]. intro r. apply safe_done.
  - apply safe_bind; [apply open_key_ring_safe|]. intro r. apply safe_done.
  - apply safe_bind; [apply list_keys_safe|]. intro r. apply safe_done.
Qed.

(** * (2) the machine of Model/KeystoreWrite.v *)
Lemma to_xh_settle : forall fuel h, to_xh (settle fuel h) = xsettle hop_prog fuel (to_xh h).
Proof.
  induction fuel as [|n IH]; intro h; cbn [settle xsettle]; [reflexivity|].
  cbn [to_xh xh_cur xh_todo xh_loc xh_out].
  destruct (hd_cur h) as [[[r hr]|c k]|]; [rewrite IH; reflexivity|reflexivity|].
  destruct (hd_todo h) as [|o rest]; [reflexivity|]. rewrite IH. reflexivity.
Qed.

Lemma to_xh_settled h : to_xh (settled h) = xsettled hop_prog (to_xh h).
Proof. unfold settled, xsettled. apply to_xh_settle. Qed.

Lemma map_set_nth {A B} (f : A -> B) x : forall l i, map f (set_nth i x l) = set_nth i (f x) (map f l).
Proof.
  induction l as [|y t IH]; intro i; destruct i as [|i']; cbn [set_nth map]; try reflexivity.
  rewrite IH. reflexivity.
Qed.

Lemma to_x_step g i : xstep hop_prog (to_x g) i = option_map to_x (gstep g i).
Proof.
  unfold xstep, gstep, to_x. cbv zeta. cbn [x_hs x_st x_lock]. rewrite nth_error_map.
  destruct (nth_error (g_hs g) i) as [h0|]; cbn [option_map]; [|reflexivity].
  rewrite <- to_xh_settled. cbn [to_xh xh_cur xh_loc xh_todo xh_out].
  destruct (hd_cur (settled h0)) as [[a|c k]|]; try reflexivity.
  destruct (lock_step i c (g_lock g)) as [l'|]; [|reflexivity].
  destruct (do_call c (g_st g)) as [v st']. cbn [option_map g_st g_lock g_hs].
  rewrite map_set_nth, to_xh_settled. reflexivity.
Qed.

Lemma to_x_run : forall sched g, xrun hop_prog (to_x g) sched = to_x (grun g sched).
Proof.
  induction sched as [|i rest IH]; intro g; cbn [xrun grun]; [reflexivity|].
  rewrite to_x_step. destruct (gstep g i) as [g'|]; cbn [option_map]; apply IH.
Qed.

Lemma to_x_run_section : forall fuel g i,
  xrun_section hop_prog fuel (to_x g) i = option_map to_x (run_section fuel g i).
Proof.
  induction fuel as [|f IH]; intros g i; cbn [xrun_section run_section]; [reflexivity|].
  rewrite to_x_step. destruct (gstep g i) as [g'|]; cbn [option_map]; [|reflexivity].
  change (x_lock (to_x g')) with (g_lock g'). destruct (g_lock g'); [reflexivity|apply IH|apply IH].
Qed.

Lemma to_xh_inj h h' : to_xh h = to_xh h' -> h = h'.
Proof. destruct h, h'. unfold to_xh. cbn. intro H. inversion H. reflexivity. Qed.

Lemma to_x_inj g g' : to_x g = to_x g' -> g = g'.
Proof.
  destruct g as [st l hs], g' as [st' l' hs']. unfold to_x. cbn. intro H.
  inversion H as [[H1 H2 H3]]. f_equal. clear -H3. revert hs' H3.
  induction hs as [|h t IH]; intros [|h' t'] H; cbn [map] in H; try discriminate; [reflexivity|].
  assert (Hh : to_xh h = to_xh h') by congruence. assert (Ht : map to_xh t = map to_xh t') by congruence.
  f_equal; [apply to_xh_inj; exact Hh|apply IH; exact Ht].
Qed.

Lemma to_x_serial X ser X' :
  xserial hop_prog X ser X' -> forall g, X = to_x g -> exists g', X' = to_x g' /\ gserial g ser g'.
Proof.
  induction 1 as [X|X i X1 rest X' [Hfree [fuel Hsec]] _ IH]; intros g ->.
  - exists g. split; [reflexivity|apply gserial_nil].
  - rewrite to_x_run_section in Hsec. destruct (run_section fuel g i) as [g1|] eqn:Es; [|discriminate].
    cbn [option_map] in Hsec. inversion Hsec; subst X1.
    destruct (IH g1 eq_refl) as (g' & -> & Hser). exists g'. split; [reflexivity|].
    eapply gserial_cons; [split; [exact Hfree|exists fuel; exact Es]|exact Hser].
Qed.

Lemma to_x_init hs : (forall h, In h hs -> hd_cur h = None) -> forall x, In x (map to_xh hs) -> xh_cur x = None.
Proof. intros H x Hx. apply in_map_iff in Hx. destruct Hx as (h & <- & Hh). exact (H h Hh). Qed.

(** every schedule of the machine of Model/KeystoreWrite.v: the state reached is related by [xrel]
    (the started sections of the current lock holders) to the serial execution of the completed
    sections in commit order *)
Theorem gserializable st hs sched :
  (forall h, In h hs -> hd_cur h = None) ->
  let g0 := mk_g st LFree hs in
  exists a, gserial g0 (map fst (gcommits g0 sched)) a /\ xrel hop_prog (to_x (grun g0 sched)) (to_x a).
Proof.
  intros Hinit g0.
  destruct (xserializable _ _ _ hop_prog hop_prog_safe st (map to_xh hs) sched (to_x_init hs Hinit)) as (xa & Hser & Hrel).
  change (mk_x st LFree (map to_xh hs)) with (to_x g0) in *.
  destruct (to_x_serial _ _ _ Hser g0 eq_refl) as (a & -> & Hgser).
  exists a. split; [exact Hgser|]. rewrite <- to_x_run. exact Hrel.
Qed.

Theorem gserializable_quiescent st hs sched :
  (forall h, In h hs -> hd_cur h = None) ->
  let g0 := mk_g st LFree hs in
  g_lock (grun g0 sched) = LFree -> gserial g0 (map fst (gcommits g0 sched)) (grun g0 sched).
Proof.
  intros Hinit g0 Hl. destruct (gserializable st hs sched Hinit) as (a & Hser & [_ Hrel]). fold g0 in Hser, Hrel.
  change (x_lock (to_x (grun g0 sched))) with (g_lock (grun g0 sched)) in Hrel. rewrite Hl in Hrel.
  apply to_x_inj in Hrel. rewrite Hrel. exact Hser.
Qed.

Theorem gcommit_order_is_lock_order st hs sched :
  (forall h, In h hs -> hd_cur h = None) ->
  let g0 := mk_g st LFree hs in
  excl_only (gacquires g0 sched) = excl_only (gcommits g0 sched) ++ excl_pre (g_lock (grun g0 sched)).
Proof.
  intros Hinit g0.
  pose proof (xcommit_order_is_lock_order _ _ _ hop_prog hop_prog_safe st (map to_xh hs) sched (to_x_init hs Hinit)) as H.
  change (mk_x st LFree (map to_xh hs)) with (to_x g0) in H. cbv zeta in H. rewrite to_x_run in H. exact H.
Qed.

(** * (3) the stale snapshot. A ring-level operation reads the key ring object's snapshot OUTSIDE the
    lock - but only to choose its transactions ([prepare]: the seqnum of the new key, the expected
    old current key / old state). The locked section itself does not depend on the snapshot at all:
    it re-reads the ring under the exclusive lock and applies the logged transactions to the STORED
    ring, each guarded by its optimistic check. *)
Definition with_data (h : hring) (d : ring) : hring := mk_hring (h_path h) d (h_log h).

Lemma fold_push_tx txs : forall h,
  h_log (fold_left push_tx txs h) = h_log h ++ txs /\ h_path (fold_left push_tx txs h) = h_path h.
Proof.
  induction txs as [|t rest IH]; intro h; cbn [fold_left].
  - rewrite app_nil_r. split; reflexivity.
  - destruct (IH (push_tx h t)) as [H1 H2]. rewrite H1, H2. unfold push_tx. cbn [h_log h_path].
    rewrite <- app_assoc. split; reflexivity.
Qed.

Definition wk_ok (path : N) (log : list tx) (r : ring) : prog (res unit * hring) :=
  match apply_pending r [] log with
  | (r', log', _, Some e) => Done (Err e, mk_hring path r' log')
  | (r', log', applied_rev, None) =>
      exe w <- push path r';
      match w with
      | Ok _ => Done (Ok tt, mk_hring path r' [])
      | e => Done (e, mk_hring path (rollback_all r' applied_rev) log')
      end
  end.

Lemma exec_pull rid st k : exec (pull rid) None st k = Ret (pull_res (lookup (FRing rid) st)) st (S k).
Proof.
  unfold pull. rewrite exec_pbind, exec_call. cbn [do_call fst snd exec].
  destruct (lookup (FRing rid) st) as [[[|] r|o w]|]; reflexivity.
Qed.

Lemma exec_locked {A} (lk ul : bcall) (dflt : A) (body : prog (res unit * A)) st k :
  do_call lk st = (Ok VUnit, st) -> (forall s, do_call ul s = (Ok VUnit, s)) ->
  exec (locked lk ul dflt body) None st k =
  match exec body None st (S k) with
  | Ret ra st' k' => Ret (match fst ra with Ok _ => (Ok tt, snd ra) | e => (e, snd ra) end) st' (S k')
  | Crash st' => Crash st'
  end.
Proof.
  intros Hl Hu. unfold locked. rewrite exec_pbind, exec_call, Hl. cbn [fst snd].
  rewrite exec_pbind. destruct (exec body None st (S k)) as [ra st' k'|st']; [|reflexivity].
  rewrite exec_pbind, exec_call, Hu. cbn [fst snd exec]. destruct (fst ra); reflexivity.
Qed.

Theorem section_ignores_snapshot h d txs st :
  match exec (with_txs h txs) None st 0, exec (with_txs (with_data h d) txs) None st 0 with
  | Ret (r, ha) sa _, Ret (r', hb) sb _ =>
      r = r' /\ sa = sb /\
      ((exists rg, lookup (FRing (h_path h)) st = Some (CRing true rg)) -> r = Ok tt -> ha = hb)
  | _, _ => False
  end.
Proof.
  unfold with_txs. cbv zeta. rewrite !exec_pbind.
  destruct (fold_push_tx txs h) as [L1 P1]. destruct (fold_push_tx txs (with_data h d)) as [L2 P2].
  cbn [with_data h_log h_path] in L2, P2.
  set (h1 := fold_left push_tx txs h) in *. set (h2 := fold_left push_tx txs (with_data h d)) in *.
  assert (EL : h_log h2 = h_log h1) by congruence. assert (EP : h_path h2 = h_path h1) by congruence.
  unfold sync_key_ring. rewrite EL. destruct (h_log h1) as [|t0 lg] eqn:Elog.
  - (* nothing logged: a read *)
    unfold read_key_ring. rewrite !exec_locked by (intros; reflexivity).
    rewrite !exec_pbind, !exec_pull, EP. cbn [exec].
    destruct (lookup (FRing (h_path h1)) st) as [[[|] r|o w]|] eqn:Elk; cbn [pull_res fst snd err_of exec];
      try (split; [reflexivity|]; split; [reflexivity|]; intros _ Hok; discriminate Hok).
    split; [reflexivity|]. split; [reflexivity|]. intros _ _. rewrite EL, Elog. reflexivity.
  - (* the write section *)
    change (write_key_ring h1) with
      (locked BLock BUnlock h1 (exe p <- pull (h_path h1);
         match p with Ok r => wk_ok (h_path h1) (h_log h1) r | e => Done (err_of e, h1) end)).
    change (write_key_ring h2) with
      (locked BLock BUnlock h2 (exe p <- pull (h_path h2);
         match p with Ok r => wk_ok (h_path h2) (h_log h2) r | e => Done (err_of e, h2) end)).
    rewrite !exec_locked by (intros; reflexivity).
    rewrite !exec_pbind, !exec_pull, EP, EL, Elog.
    destruct (lookup (FRing (h_path h1)) st) as [[[|] r|o w]|] eqn:Elk; cbn [pull_res fst snd err_of exec];
      try (split; [reflexivity|]; split; [reflexivity|]; intros _ Hok; discriminate Hok).
    destruct (exec (wk_ok (h_path h1) (t0 :: lg) r) None st 2) as [[w hw] st' k'|st'] eqn:Ew.
    + cbn [fst snd exec]. destruct w as [u|e|]; cbn [fst snd]; (split; [reflexivity|]); (split; [reflexivity|]);
        intros _ Hok; try discriminate Hok. reflexivity.
    + (* a fault-free run does not crash *)
      exfalso. unfold wk_ok in Ew.
      destruct (apply_pending r [] (t0 :: lg)) as [[[r' log'] ap] [e|]]; [cbn [exec] in Ew; discriminate Ew|].
      rewrite exec_pbind in Ew.
      destruct (exec (push (h_path h1) r') None st 2) as [w2 st2 k2|st2] eqn:Ep.
      * destruct w2; cbn [exec] in Ew; discriminate Ew.
      * clear Ew. unfold push in Ep. rewrite exec_pbind, exec_call in Ep.
        destruct (fst (do_call (BPut (FRingNew (h_path h1)) (CRing true r')) st)) as [v|e|];
          repeat (first [rewrite exec_pbind in Ep | rewrite exec_call in Ep | progress cbn [exec] in Ep
                        | match type of Ep with context [if ?b then _ else _] => destruct b end
                        | match type of Ep with context [match fst ?x with _ => _ end] => destruct (fst x) end
                        | discriminate Ep]).
Qed.
