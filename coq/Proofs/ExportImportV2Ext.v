(** End-to-end statement of the keystore v2 export -> import identity (C18 extension):
    ExportKeyRings of a selection of rings of a source store, ImportKeyRings of that bundle into a
    target: every selected ring reads identically, every other ring of the target is untouched. *)
From Coq Require Import List NArith ZArith Bool Lia Permutation.
From Acra Require Import Lib.Bytes Lib.Outcome Crypto.Interface Gen.KsConsts Gen.X18Consts
  Model.KeyAtRest Model.Notary Model.DerV2Ext Model.KeyRingV2Ext Model.BundleV2Ext
  Proofs.Notary Proofs.DerV2Ext Proofs.KeyRingV2Ext Proofs.BundleV2Ext.
Import ListNotations.

Lemma ins_perm {A} (x : bytes * A) l : Permutation (ins x l) (x :: l).
Proof.
  induction l as [|y l IH]; cbn [ins]; [reflexivity|].
  destruct (bytes_leb (fst x) (fst y)); [reflexivity|].
  rewrite IH. apply perm_swap.
Qed.
Lemma isort_perm {A} (l : list (bytes * A)) : Permutation (isort l) l.
Proof.
  induction l as [|x l IH]; cbn [isort fold_right]; [reflexivity|]. fold (isort l).
  rewrite ins_perm. now constructor.
Qed.
Lemma set_of_perm {A} (enc : A -> bytes) l : Permutation (map snd (set_of enc l)) l.
Proof.
  unfold set_of. rewrite (Permutation_map snd (isort_perm _)). rewrite map_map. cbn [snd]. now rewrite map_id.
Qed.

Lemma map_res_err {A B} (f : A -> res B) l e : map_res f l = Err e -> exists x, In x l /\ f x = Err e.
Proof.
  induction l as [|x r IH]; cbn [map_res]; [discriminate|].
  destruct (f x) as [y|e'|] eqn:Ex; cbn [bind].
  - destruct (map_res f r) as [ys|e'|]; cbn [bind]; try discriminate.
    intros [= ->]. destruct (IH eq_refl) as [z [Hin Hz]]. exists z. split; [now right | exact Hz].
  - intros [= ->]. exists x. split; [now left | exact Ex].
  - discriminate.
Qed.

Section EndToEnd.
  Variable C : crypto.
  Hypothesis HC : Correct C.

  Lemma export_ring_private_err master b mode path :
    private_mode mode -> export_ring C master b mode path <> Err E_NO_PUBLIC_DATA.
  Proof.
    intros Hm H. unfold export_ring in H. destruct (b_get path b) as [r|]; [|discriminate].
    destruct (map_res (export_key C master path mode) (r_keys r)) as [ks|e|] eqn:Em; cbn [bind] in H; try discriminate.
    inversion H; subst. apply map_res_err in Em. destruct Em as [k [_ Hk]].
    unfold export_key in Hk.
    destruct (map_res (decrypt_key_data C master path (k_seq k) mode) (k_data k)) as [ds|e|] eqn:Ed; cbn [bind] in Hk; try discriminate.
    inversion Hk; subst. apply map_res_err in Ed. destruct Ed as [d [_ Hd]].
    unfold decrypt_key_data in Hd. rewrite Hm in Hd.
    unfold dec_field in Hd.
    destruct (is_nil (kd_priv d)), (is_nil (kd_sym d));
      try destruct (cell_decrypt C master (key_ctx path true (k_seq k)) (kd_priv d));
      try destruct (cell_decrypt C master (key_ctx path false (k_seq k)) (kd_sym d));
      cbv [bind of_option E_DECRYPTION E_NO_PUBLIC_DATA] in Hd; discriminate.
  Qed.

  Lemma export_rings_private master b mode paths : forall rs,
    private_mode mode -> export_rings C master b mode paths = Ok rs ->
    Forall2 (fun p pr => export_ring C master b mode p = Ok pr) paths rs.
  Proof.
    induction paths as [|p rest IH]; intros rs Hm H; cbn [export_rings] in H.
    - inversion H. constructor.
    - destruct (export_ring C master b mode p) as [r|e|] eqn:Er; [| |discriminate].
      + destruct (export_rings C master b mode rest) as [rs'|e|]; cbn [bind] in H; try discriminate.
        inversion H; subst. constructor; [exact Er | now apply IH].
      + destruct (e =? E_NO_PUBLIC_DATA)%N eqn:Ee; [|discriminate].
        apply N.eqb_eq in Ee. subst e. now destruct (export_ring_private_err master b mode p Hm).
  Qed.

  (** a source ring as acra builds it *)
  Definition src_ring_ok (b : backend) (p : bytes) : Prop :=
    exists r, b_get p b = Some r /\ r_purpose r = p /\ wf_sring r /\ Forall single (r_keys r).

  Theorem export_import_identity smaster sb mode paths rs tmaster deleg tb tape :
    private_mode mode -> tmaster <> [] -> nonces_ok tape ->
    NoDup paths -> Forall (src_ring_ok sb) paths ->
    export_rings C smaster sb mode paths = Ok rs ->
    (always_imports deleg \/ Forall (fun p => b_get p tb = None) paths) ->
    let i := import_rings C tmaster deleg tb tape (sorted_rings rs) in
    im_res i = Ok tt ->
    (forall p, In p paths -> store_view C tmaster (im_b i) p = store_view C smaster sb p) /\
    (forall q, ~ In q paths -> b_get q (im_b i) = b_get q tb).
  Proof.
    intros Hmode Htm Hn Hnd Hsrc Hexp Hdel i Hres.
    apply export_rings_private in Hexp; [|exact Hmode].
    (* facts about every exported ring *)
    assert (HF : Forall2 (fun p pr => r_purpose pr = p /\ wf_pring pr /\
                                      Some (plain_ring pr) = store_view C smaster sb p) paths rs).
    { clear Hnd Hdel i Hres. induction Hexp as [|p pr ps prs Hp _ IH]; [constructor|].
      inversion Hsrc as [|? ? [r [Hg [Hpur [Hwf Hsing]]]] Hsrc']; subst. constructor; [|now apply IH].
      destruct (export_ring_ok C HC _ _ _ _ _ _ Hmode Hg Hwf Hp) as [Hv [Hk [Hpp Hl]]].
      split; [congruence|]. split.
      - split; [exact Hk|]. clear -Hl Hsing. induction Hl as [|k pk l l' Hlen _ IH]; [constructor|].
        inversion Hsing; subst. constructor; [unfold single in *; lia | now apply IH].
      - unfold store_view. rewrite Hg. cbn [option_map]. now rewrite Hv. }
    assert (Hpurp : map r_purpose rs = paths).
    { clear -HF. induction HF as [|p pr ps prs [Hp _] _ IH]; [reflexivity|]. cbn [map]. now rewrite Hp, IH. }
    assert (Hwf : Forall wf_pring rs).
    { clear -HF. induction HF as [|p pr ps prs [_ [Hw _]] _ IH]; constructor; assumption. }
    (* the DER SET order is a permutation of the exported list; single-format keys are their own sorted form *)
    assert (Hsr : sorted_rings rs = map snd (set_of der_ring rs)).
    { unfold sorted_rings. set (L := map snd (set_of der_ring rs)).
      assert (HL : Forall wf_pring L).
      { apply Forall_forall. intros x Hx. rewrite Forall_forall in Hwf. apply Hwf.
        eapply Permutation_in; [apply set_of_perm | exact Hx]. }
      clear -HL. induction HL as [|x l [_ Hs] _ IH]; [reflexivity|]. cbn [map]. now rewrite sorted_ring_single, IH. }
    pose proof (set_of_perm der_ring rs) as Hperm. rewrite <- Hsr in Hperm.
    assert (Hperm_p : Permutation (map r_purpose (sorted_rings rs)) paths).
    { rewrite <- Hpurp. now apply Permutation_map. }
    assert (Hid := import_rings_identity C HC tmaster deleg (sorted_rings rs) tb tape Htm Hn).
    fold i in Hid. specialize (Hid (Permutation_Forall (Permutation_sym Hperm) Hwf)).
    specialize (Hid (Permutation_NoDup (Permutation_sym Hperm_p) Hnd)).
    assert (Hdel' : always_imports deleg \/ Forall (fun nr => b_get (r_purpose nr) tb = None) (sorted_rings rs)).
    { destruct Hdel as [Ha|Hnone]; [now left | right].
      apply Forall_forall. intros nr Hin. rewrite Forall_forall in Hnone. apply Hnone.
      eapply Permutation_in; [exact Hperm_p|]. now apply in_map. }
    specialize (Hid Hdel' Hres). split.
    - intros p Hp.
      assert (Hex : exists pr, In pr rs /\ r_purpose pr = p /\ Some (plain_ring pr) = store_view C smaster sb p).
      { clear -HF Hp. induction HF as [|p' pr ps prs [Hpp [_ Hv]] _ IH]; [contradiction|].
        destruct Hp as [->|Hp]; [exists pr; split; [now left | auto]|].
        destruct (IH Hp) as [x [Hin Hx]]. exists x. split; [now right | exact Hx]. }
      destruct Hex as [pr [Hin [Hpp Hv]]]. rewrite <- Hv.
      rewrite Forall_forall in Hid. rewrite <- Hpp. apply Hid.
      eapply Permutation_in; [apply Permutation_sym; exact Hperm | exact Hin].
    - intros q Hq. apply import_rings_frame. intros Hin. apply Hq.
      eapply Permutation_in; [exact Hperm_p | exact Hin].
  Qed.
End EndToEnd.
