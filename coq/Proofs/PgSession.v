(** Proofs about the PostgreSQL session model: a censored statement is never forwarded, the
    pending queue stays aligned with the database (property C05). *)
From Coq Require Import List Bool NArith Lia.
From Acra Require Import Lib.Bytes Model.Censor Model.PgSession Proofs.Censor.
Import ListNotations.

Section Session.
  Variable strict : N -> bool.

  (** the accepted statements of a history, in order *)
  Definition accepted (evs : list event) : list N :=
    flat_map (fun e => match e with ClientQuery s false => [s] | _ => [] end) evs.

  Definition censored_count (evs : list event) : nat :=
    length (filter (fun e => match e with ClientQuery _ true => true | _ => false end) evs).

  Definition client_errors (os : list out) : nat :=
    length (filter (fun o => match o with ToClientError => true | _ => false end) os).

  Lemma forwarded_of_app a b : forwarded_of (a ++ b) = forwarded_of a ++ forwarded_of b.
  Proof. unfold forwarded_of. apply flat_map_app. Qed.

  Lemma step_forwarded st e :
    forwarded_of (snd (step strict st e)) = accepted [e].
  Proof.
    destruct e as [s c|bad| | | ]; cbn [step accepted flat_map app].
    - destruct c; reflexivity.
    - destruct (skip st); [reflexivity|]. destruct (fails strict _ bad); reflexivity.
    - destruct (skip st); reflexivity.
    - destruct (skip st); reflexivity.
    - destruct (skip st); reflexivity.
  Qed.

  (** the stream sent to the database is EXACTLY the accepted statements, in order, whatever the
      database does in between (every history, every start state) *)
  Theorem forwarded_is_accepted evs : forall st,
    forwarded_of (snd (run_session strict st evs)) = accepted evs.
  Proof.
    unfold run_session.
    induction evs as [|e tl IH]; intros st; [reflexivity|].
    cbn [run_with]. pose proof (step_forwarded st e) as Hs.
    destruct (step strict st e) as [st1 o1]. specialize (IH st1).
    destruct (run_with (step strict) st1 tl) as [st2 o2]. cbn [snd] in *.
    rewrite forwarded_of_app, Hs, IH. cbn [accepted flat_map]. rewrite app_nil_r. reflexivity.
  Qed.

  Lemma in_forwarded_of s os : In (ToDb s) os <-> In s (forwarded_of os).
  Proof.
    unfold forwarded_of. rewrite in_flat_map. split.
    - intros H. exists (ToDb s). split; [exact H|left; reflexivity].
    - intros (o & Ho & Hin). destruct o; cbn in Hin; try contradiction.
      destruct Hin as [<-|[]]. exact Ho.
  Qed.

  (** for every session history: if the verdicts in the history are those of a verdict function
      [v] (a censor configuration), no statement that [v] rejects is in the forwarded stream *)
  Theorem denied_never_forwarded (v : N -> bool) evs st :
    (forall s c, In (ClientQuery s c) evs -> c = v s) ->
    forall s, In (ToDb s) (snd (run_session strict st evs)) -> v s = false.
  Proof.
    intros Hv s Hin. apply in_forwarded_of in Hin. rewrite forwarded_is_accepted in Hin.
    unfold accepted in Hin. apply in_flat_map in Hin. destruct Hin as (e & He & Hs).
    destruct e as [s' c|bad| | | ]; try contradiction.
    destruct c; [contradiction|]. destruct Hs as [<-|[]].
    symmetry. exact (Hv _ _ He).
  Qed.

  (** the client gets exactly one error (+ ReadyForQuery) per rejected statement, and a rejected
      statement changes nothing in the session state *)
  Lemma censored_step st s : step strict st (ClientQuery s true) = (st, [ToClientError]).
  Proof. reflexivity. Qed.

  Lemma step_errors st e :
    client_errors (snd (step strict st e)) = censored_count [e].
  Proof.
    destruct e as [s c|bad| | | ]; cbn [step].
    - destruct c; reflexivity.
    - destruct (skip st); [reflexivity|]. destruct (fails strict _ bad); reflexivity.
    - destruct (skip st); reflexivity.
    - destruct (skip st); reflexivity.
    - destruct (skip st); reflexivity.
  Qed.

  Theorem rejected_gets_error evs : forall st,
    client_errors (snd (run_session strict st evs)) = censored_count evs.
  Proof.
    unfold run_session.
    induction evs as [|e tl IH]; intros st; [reflexivity|].
    cbn [run_with]. pose proof (step_errors st e) as Hs.
    destruct (step strict st e) as [st1 o1]. specialize (IH st1).
    destruct (run_with (step strict) st1 tl) as [st2 o2]. cbn [snd] in *.
    unfold client_errors, censored_count in *. rewrite filter_app, app_length, Hs, IH.
    cbn [filter]. destruct e as [s [|]|bad| | | ]; reflexivity.
  Qed.

  (** ** Alignment with a database that answers in order *)

  (** pending = forwarded \ completed, and it is what the database still has to answer *)
  Definition sys_inv (y : sys) : Prop :=
    pending (proxy y) = bq y /\ forwarded y = completed y ++ bq y.

  Lemma sys_inv_init : sys_inv sys_init.
  Proof. split; reflexivity. Qed.

  Lemma sys_step_inv y e :
    sys_inv y ->
    sys_inv (fst (sys_step (step strict) y e))
    /\ forallb aligned (snd (sys_step (step strict) y e)) = true.
  Proof.
    intros [Hp Hf]. destruct y as [p q ow fw cp]. cbn [proxy bq owed forwarded completed] in *.
    destruct e as [s c|bad| | | ]; cbn [sys_step proxy bq owed forwarded completed].
    - destruct c; cbn [step fst snd map forallb forwarded_of flat_map app aligned].
      + rewrite !app_nil_r. repeat split; assumption.
      + unfold sys_inv. cbn [proxy bq forwarded completed pending].
        rewrite Hp, Hf, app_assoc. repeat split; reflexivity.
    - destruct q as [|producer rest]; [repeat split; assumption|].
      destruct ow; [repeat split; assumption|].
      cbn [step]. destruct (skip p).
      + repeat split; assumption.
      + rewrite Hp. cbn [hd_error].
        destruct (fails strict (Some producer) bad); cbn [fst snd map forallb aligned];
          rewrite N.eqb_refl; repeat split; cbn [proxy pending bq forwarded completed]; assumption.
    - destruct q as [|s rest]; [repeat split; assumption|].
      destruct ow; [repeat split; assumption|].
      cbn [step fst snd map forallb aligned]. unfold sys_inv.
      cbn [proxy pending bq forwarded completed]. rewrite Hp, Hf. cbn [tl].
      rewrite <- app_assoc. repeat split; reflexivity.
    - destruct ow; [|repeat split; assumption].
      cbn [step fst snd map forallb aligned]. repeat split; assumption.
    - cbn [step fst snd map forallb aligned]. repeat split; assumption.
  Qed.

  Lemma sys_run_inv evs : forall y,
    sys_inv y ->
    sys_inv (fst (sys_run (step strict) y evs))
    /\ forallb aligned (snd (sys_run (step strict) y evs)) = true.
  Proof.
    induction evs as [|e tl IH]; intros y Hy; [split; [exact Hy|reflexivity]|].
    cbn [sys_run]. destruct (sys_step_inv y e Hy) as [H1 H2].
    destruct (sys_step (step strict) y e) as [y1 o1]. cbn [fst snd] in *.
    destruct (IH y1 H1) as [H3 H4].
    destruct (sys_run (step strict) y1 tl) as [y2 o2]. cbn [fst snd] in *.
    split; [exact H3|]. rewrite forallb_app, H2, H4. reflexivity.
  Qed.

  (** invariant: pending = forwarded \ completed, for every history *)
  Theorem queue_invariant evs :
    let y := fst (sys_run (step strict) sys_init evs) in
    pending (proxy y) = bq y /\ forwarded y = completed y ++ pending (proxy y).
  Proof.
    cbn zeta. destruct (sys_run_inv evs sys_init sys_inv_init) as [[H1 H2] _].
    rewrite H1 at 2. split; assumption.
  Qed.

  (** for every interleaving of client queries (accepted and rejected) with the answers of a
      database that executes what it received in order, every data row is handled with the settings
      of the statement that produced it *)
  Theorem queue_aligned evs :
    forall producer settings,
      In (RowObs producer settings) (snd (sys_run (step strict) sys_init evs)) ->
      settings = Some producer.
  Proof.
    intros producer settings Hin.
    destruct (sys_run_inv evs sys_init sys_inv_init) as [_ H].
    rewrite forallb_forall in H. specialize (H _ Hin). cbn [aligned] in H.
    destruct settings as [s|]; [|discriminate H].
    apply N.eqb_eq in H. subst. reflexivity.
  Qed.
End Session.

(** On the pinned tree both theorems fail (model [step_pinned]): *)

(** (1) rejected statement 1, then accepted statement 8: its row is handled with the settings of 1 *)
Definition pinned_witness_censored : list sys_event := [CQuery 1 true; CQuery 8 false; BRow true].

Theorem queue_aligned_refuted_pinned_censored :
  exists strict evs producer settings,
    In (RowObs producer settings) (snd (sys_run (step_pinned strict) sys_init evs))
    /\ settings <> Some producer.
Proof.
  exists (fun _ => false), pinned_witness_censored, 8%N, (Some 1%N).
  split; [vm_compute; repeat (try (left; reflexivity); right)|discriminate].
Qed.

(** (2) statement 6 (strict settings) fails with an encoding error; its completion is skipped and
    the row of the next statement 8 is handled with the settings of 6 *)
Definition pinned_witness_skip : list sys_event :=
  [CQuery 6 false; BRow true; BComplete; BReady; CQuery 8 false; BRow false].

Theorem queue_aligned_refuted_pinned_skip :
  exists strict evs producer settings,
    In (RowObs producer settings) (snd (sys_run (step_pinned strict) sys_init evs))
    /\ settings <> Some producer.
Proof.
  exists (N.eqb 6), pinned_witness_skip, 8%N, (Some 6%N).
  split; [vm_compute; repeat (try (left; reflexivity); right)|discriminate].
Qed.

(** * Composition with the censor model *)

(** [view s] = what the configured chain sees of statement [s]: parsed?, per-handler match results *)
Theorem rejected_never_reaches_database
        (strict : N -> bool) (c : censor) (view : N -> bool * list handler) evs st :
  (forall s cens, In (ClientQuery s cens) evs ->
                  cens = is_denied (handle_query c (fst (view s)) (snd (view s)))) ->
  forall s, In (ToDb s) (snd (run_session strict st evs)) ->
            spec_verdict c (fst (view s)) (snd (view s)) = Allowed.
Proof.
  intros Hv s Hin.
  pose proof (denied_never_forwarded strict
                (fun s => is_denied (handle_query c (fst (view s)) (snd (view s)))) evs st Hv s Hin) as H.
  cbn beta in H. rewrite first_decisive_wins in H.
  destruct (spec_verdict c (fst (view s)) (snd (view s))); [reflexivity|discriminate H].
Qed.
