(** Codec lemmas for the tokenization model: protobuf varint / token value, decimal text,
    fixed-width integers, DataTokenizer text conversions. *)
From Acra Require Import Lib.Bytes Lib.Outcome Lib.Sha256 Gen.TokenConsts Model.Tokens.
From Coq Require Import ZifyN ZifyNat ZifyBool.
Local Open Scope N_scope.

(** ** 1. varint *)
Lemma pow_pos_N a k : 0 < a -> 0 < a ^ k.
Proof. intros Ha. apply N.neq_0_lt_0, N.pow_nonzero. lia. Qed.

Lemma lt_pow2_log2 n : n < 2 ^ N.succ (N.log2 n).
Proof.
  destruct (N.eq_dec n 0) as [->|Hn]; [cbn; lia|].
  apply N.log2_spec. lia.
Qed.

Lemma lt_pow_log2 a n : 2 <= a -> n < a ^ N.succ (N.log2 n).
Proof.
  intros Ha. eapply N.lt_le_trans; [apply lt_pow2_log2|].
  apply N.pow_le_mono_l. exact Ha.
Qed.

Lemma fuel_log2 n : N.of_nat (S (N.to_nat (N.log2 n))) = N.succ (N.log2 n).
Proof. lia. Qed.

Lemma varint_dec_enc_fuel : forall f n r,
  n < 128 ^ N.of_nat (S f) -> varint_dec (varint_enc (S f) n ++ r) = Some (n, r).
Proof.
  induction f as [|f IH]; intros n r Hn.
  - assert (Hs : n < 128) by (cbn in Hn; lia).
    cbn [varint_enc]. apply N.ltb_lt in Hs as Hs'. rewrite Hs'.
    cbn [app varint_dec]. rewrite b2n_n2b, N.mod_small by lia. rewrite Hs'. reflexivity.
  - remember (S f) as g eqn:Hg. cbn [varint_enc].
    destruct (n <? 128) eqn:Hlt.
    + apply N.ltb_lt in Hlt as Hs.
      cbn [app varint_dec]. rewrite b2n_n2b, N.mod_small by lia. rewrite Hlt. reflexivity.
    + apply N.ltb_ge in Hlt.
      assert (Hm : n mod 128 < 128) by (apply N.mod_lt; lia).
      assert (Hq : n / 128 < 128 ^ N.of_nat g).
      { rewrite Nat2N.inj_succ, N.pow_succ_r' in Hn. apply N.div_lt_upper_bound; lia. }
      cbn [app varint_dec]. fold (app (varint_enc g (n / 128)) r).
      rewrite b2n_n2b, N.mod_small by lia.
      replace (128 + n mod 128 <? 128) with false by (symmetry; apply N.ltb_ge; lia).
      subst g. rewrite (IH (n / 128) r Hq). f_equal. f_equal.
      pose proof (N.div_mod n 128). lia.
Qed.

Lemma varint_dec_enc : forall n r, varint_dec (varint n ++ r) = Some (n, r).
Proof.
  intros n r. unfold varint. apply varint_dec_enc_fuel.
  rewrite fuel_log2. apply lt_pow_log2. lia.
Qed.

Lemma varint_dec_enc_nil : forall n, varint_dec (varint n) = Some (n, []).
Proof. intros n. rewrite <- (app_nil_r (varint n)) at 1. apply varint_dec_enc. Qed.

(** ** 2. token value *)
Lemma decode_fields_nil : forall f v ty, decode_fields f [] v ty = Ok (v, ty).
Proof. intros [|f] v ty; reflexivity. Qed.

Lemma decode_fields_ty : forall f ty v0 t0,
  decode_fields (S f) (x10 :: varint ty) v0 t0 = Ok (v0, ty).
Proof.
  intros f ty v0 t0. cbn [decode_fields].
  replace (byte_eqb x10 x0a) with false by reflexivity.
  replace (byte_eqb x10 x10) with true by reflexivity.
  rewrite varint_dec_enc_nil. apply decode_fields_nil.
Qed.

Lemma decode_fields_val : forall f v rest v0 t0,
  decode_fields (S f) (x0a :: varint (N.of_nat (length v)) ++ v ++ rest) v0 t0 =
  decode_fields f rest v t0.
Proof.
  intros f v rest v0 t0. cbn [decode_fields].
  replace (byte_eqb x0a x0a) with true by reflexivity.
  rewrite varint_dec_enc.
  replace (N.of_nat (length (v ++ rest)) <? N.of_nat (length v)) with false
    by (symmetry; apply N.ltb_ge; rewrite app_length; lia).
  rewrite Nat2N.id, firstn_app_len, skipn_app_len. reflexivity.
Qed.

Lemma decode_fields_encode : forall f v ty,
  decode_fields (S (S f)) (encode_token_value v ty) [] 0 = Ok (v, ty).
Proof.
  intros f v ty. unfold encode_token_value.
  destruct v as [|b v]; cbn [is_nil].
  - destruct (ty =? 0) eqn:Hty.
    + apply N.eqb_eq in Hty. subst ty. reflexivity.
    + cbn [app]. apply decode_fields_ty.
  - set (w := b :: v).
    destruct (ty =? 0) eqn:Hty.
    + apply N.eqb_eq in Hty. subst ty.
      cbn [app]. rewrite <- app_assoc, decode_fields_val. apply decode_fields_nil.
    + cbn [app]. rewrite <- app_assoc, decode_fields_val. apply decode_fields_ty.
Qed.

Lemma decode_encode_token_value : forall v ty,
  decode_token_value (encode_token_value v ty) = Ok (v, ty).
Proof.
  intros v ty. unfold decode_token_value.
  destruct (length (encode_token_value v ty)) as [|k] eqn:Hlen.
  - apply length_zero_iff_nil in Hlen.
    unfold encode_token_value in Hlen |- *.
    destruct v as [|b v]; cbn [is_nil] in Hlen |- *; [|discriminate Hlen].
    destruct (ty =? 0) eqn:Hty; [|discriminate Hlen].
    apply N.eqb_eq in Hty. subst ty. reflexivity.
  - apply decode_fields_encode.
Qed.

(** ** 3. decimal text *)
Lemma digit_of_n2b : forall d, d < 10 -> digit_of (n2b (48 + d)) = Some d.
Proof.
  intros d Hd. unfold digit_of. rewrite b2n_n2b, N.mod_small by lia.
  replace ((48 <=? 48 + d) && (48 + d <=? 57)) with true by lia.
  f_equal. lia.
Qed.

Lemma parse_digits_snoc : forall s b acc,
  parse_digits (s ++ [b]) acc =
  match parse_digits s acc with
  | Some a => match digit_of b with Some d => Some (10 * a + d) | None => None end
  | None => None
  end.
Proof.
  induction s as [|c s IH]; intros b acc; cbn [app parse_digits].
  - destruct (digit_of b); reflexivity.
  - destruct (digit_of c) as [d|]; [apply IH| reflexivity].
Qed.

Lemma parse_digits_dec_rev : forall f n,
  n < 10 ^ N.of_nat (S f) -> parse_digits (rev (dec_rev (S f) n)) 0 = Some n.
Proof.
  induction f as [|f IH]; intros n Hn.
  - assert (Hs : n < 10) by (cbn in Hn; lia).
    cbn [dec_rev]. replace (n <? 10) with true by lia.
    cbn [rev app parse_digits]. rewrite digit_of_n2b by (apply N.mod_lt; lia).
    f_equal. rewrite N.mod_small by lia. lia.
  - remember (S f) as g eqn:Hg. cbn [dec_rev].
    assert (Hm : n mod 10 < 10) by (apply N.mod_lt; lia).
    destruct (n <? 10) eqn:Hlt.
    + apply N.ltb_lt in Hlt.
      cbn [rev app parse_digits]. rewrite digit_of_n2b by exact Hm.
      f_equal. rewrite N.mod_small by lia. lia.
    + apply N.ltb_ge in Hlt.
      assert (Hq : n / 10 < 10 ^ N.of_nat g).
      { rewrite Nat2N.inj_succ, N.pow_succ_r' in Hn. apply N.div_lt_upper_bound; lia. }
      cbn [rev]. rewrite parse_digits_snoc. subst g. rewrite (IH _ Hq).
      rewrite digit_of_n2b by exact Hm. f_equal.
      pose proof (N.div_mod n 10). lia.
Qed.

Lemma parse_digits_dec_of_N : forall n, parse_digits (dec_of_N n) 0 = Some n.
Proof.
  intros n. unfold dec_of_N. apply parse_digits_dec_rev.
  rewrite fuel_log2. apply lt_pow_log2. lia.
Qed.

Lemma dec_of_N_nonempty : forall n, dec_of_N n <> [].
Proof.
  intros n H. unfold dec_of_N in H. cbn [dec_rev rev] in H.
  symmetry in H. apply app_cons_not_nil in H. exact H.
Qed.

Lemma dec_rev_digits : forall f n b, In b (dec_rev f n) -> 48 <= b2n b <= 57.
Proof.
  induction f as [|f IH]; intros n b Hin; cbn [dec_rev] in Hin.
  - destruct Hin.
  - assert (Hm : n mod 10 < 10) by (apply N.mod_lt; lia).
    destruct Hin as [Hb|Hin].
    + subst b. rewrite b2n_n2b, N.mod_small by lia. lia.
    + destruct (n <? 10); [destruct Hin| exact (IH _ _ Hin)].
Qed.

Lemma dec_of_N_digits : forall n b, In b (dec_of_N n) -> 48 <= b2n b <= 57.
Proof.
  intros n b Hin. unfold dec_of_N in Hin. apply in_rev in Hin.
  exact (dec_rev_digits _ _ _ Hin).
Qed.

Lemma dec_of_N_head_digit : forall n b r, dec_of_N n = b :: r -> b <> x2b /\ b <> x2d.
Proof.
  intros n b r H.
  assert (Hd : 48 <= b2n b <= 57) by (apply (dec_of_N_digits n); rewrite H; left; reflexivity).
  split; intros ->; vm_compute in Hd; destruct Hd as [Hd1 Hd2]; apply Hd1; reflexivity.
Qed.

Lemma dec_of_N_length_small : forall n, n < 10 -> length (dec_of_N n) = 1%nat.
Proof.
  intros n Hn. unfold dec_of_N. cbn [dec_rev].
  replace (n <? 10) with true by lia. reflexivity.
Qed.

(** ** 4./5. ParseInt / FormatInt *)
Lemma cutoff_Z : forall bits, 0 < bits -> Z.of_N (2 ^ (bits - 1)) = (2 ^ (Z.of_N bits - 1))%Z.
Proof. intros bits Hb. rewrite N2Z.inj_pow, N2Z.inj_sub by lia. reflexivity. Qed.

Lemma byte_eqb_false : forall a b, a <> b -> byte_eqb a b = false.
Proof.
  intros a b Hne. destruct (byte_eqb a b) eqn:E; [|reflexivity].
  apply byte_eqb_eq in E. contradiction.
Qed.

Lemma is_nil_false : forall s : bytes, s <> [] -> is_nil s = false.
Proof. intros [|b s] H; [contradiction| reflexivity]. Qed.

Lemma parse_format_int : forall bits z, 0 < bits ->
  (- 2 ^ (Z.of_N bits - 1) <= z < 2 ^ (Z.of_N bits - 1))%Z ->
  parse_int bits (format_int z) = Ok z.
Proof.
  intros bits z Hb Hz. pose proof (cutoff_Z bits Hb) as Hc.
  unfold format_int. destruct (z <? 0)%Z eqn:Hneg.
  - unfold parse_int.
    replace (byte_eqb x2d x2b) with false by reflexivity.
    replace (byte_eqb x2d x2d) with true by reflexivity.
    rewrite (is_nil_false _ (dec_of_N_nonempty _)), parse_digits_dec_of_N.
    replace (2 ^ (bits - 1) <? Z.to_N (- z)) with false by lia.
    f_equal. lia.
  - destruct (dec_of_N (Z.to_N z)) as [|b r] eqn:E; [exact (match dec_of_N_nonempty _ E with end)|].
    destruct (dec_of_N_head_digit _ _ _ E) as [H1 H2].
    unfold parse_int. rewrite (byte_eqb_false _ _ H1), (byte_eqb_false _ _ H2).
    cbn [is_nil]. rewrite <- E, parse_digits_dec_of_N.
    replace (2 ^ (bits - 1) <=? Z.to_N z) with false by lia.
    f_equal. lia.
Qed.

Lemma parse_int_range : forall bits s z, 0 < bits -> parse_int bits s = Ok z ->
  (- 2 ^ (Z.of_N bits - 1) <= z < 2 ^ (Z.of_N bits - 1))%Z.
Proof.
  intros bits s z Hb H. pose proof (cutoff_Z bits Hb) as Hc.
  destruct s as [|b r]; unfold parse_int in H; [discriminate H|].
  assert (Hgen : forall neg ds,
    (if is_nil ds then Err E_SYNTAX else
     match parse_digits ds 0 with
     | None => Err E_SYNTAX
     | Some n =>
         let cutoff := 2 ^ (bits - 1) in
         if (neg : bool) then (if cutoff <? n then Err E_RANGE else Ok (- Z.of_N n)%Z)
         else (if cutoff <=? n then Err E_RANGE else Ok (Z.of_N n))
     end) = Ok z -> (- 2 ^ (Z.of_N bits - 1) <= z < 2 ^ (Z.of_N bits - 1))%Z).
  { intros neg ds Hg.
    destruct (is_nil ds); [discriminate Hg|].
    destruct (parse_digits ds 0) as [n|]; [|discriminate Hg].
    cbv zeta in Hg. destruct neg.
    - destruct (2 ^ (bits - 1) <? n) eqn:Hr; [discriminate Hg|].
      injection Hg as <-. lia.
    - destruct (2 ^ (bits - 1) <=? n) eqn:Hr; [discriminate Hg|].
      injection Hg as <-. lia. }
  destruct (byte_eqb b x2b); [exact (Hgen false r H)|].
  destruct (byte_eqb b x2d); [exact (Hgen true r H)| exact (Hgen false (b :: r) H)].
Qed.

(** ** 6. fixed-width two's complement *)
Lemma enc_int_length : forall w z, length (enc_int w z) = w.
Proof. intros w z. apply le_enc_length. Qed.

Lemma width_consts : forall w, (w = 4 \/ w = 8)%nat ->
  exists M, (M = 2147483648 \/ M = 9223372036854775808) /\ 256 ^ N.of_nat w = 2 * M /\ 2 ^ (8 * N.of_nat w - 1) = M /\
            (2 ^ (8 * Z.of_nat w))%Z = Z.of_N (2 * M) /\ (2 ^ (8 * Z.of_nat w - 1))%Z = Z.of_N M.
Proof.
  intros w [-> | ->].
  - exists 2147483648. repeat split. left. reflexivity.
  - exists 9223372036854775808. repeat split. right. reflexivity.
Qed.

Lemma dec_enc_int : forall w z, (w = 4 \/ w = 8)%nat ->
  (- 2 ^ (8 * Z.of_nat w - 1) <= z < 2 ^ (8 * Z.of_nat w - 1))%Z ->
  dec_int w (enc_int w z) = z.
Proof.
  intros w z Hw Hz. destruct (width_consts w Hw) as (M & HM & H256 & Hhalf & HZ & HZh).
  unfold dec_int, enc_int. rewrite HZh in Hz. rewrite HZ, Hhalf.
  rewrite firstn_all2 by (rewrite le_enc_length; lia).
  rewrite le_dec_enc_small by (rewrite H256; destruct HM as [-> | ->]; lia).
  destruct (Z.to_N (z mod Z.of_N (2 * M)) <? M) eqn:Hlt; destruct HM as [-> | ->]; lia.
Qed.

Lemma dec_int_range : forall w bs, (w = 4 \/ w = 8)%nat -> length bs = w ->
  (- 2 ^ (8 * Z.of_nat w - 1) <= dec_int w bs < 2 ^ (8 * Z.of_nat w - 1))%Z.
Proof.
  intros w bs Hw Hlen. destruct (width_consts w Hw) as (M & HM & H256 & Hhalf & HZ & HZh).
  unfold dec_int. rewrite HZh, Hhalf.
  rewrite firstn_all2 by lia.
  pose proof (le_dec_lt bs) as Hlt. rewrite Hlen, H256 in Hlt.
  destruct (le_dec bs <? M) eqn:Hc; destruct HM as [-> | ->]; lia.
Qed.

Lemma enc_dec_int : forall w bs, (w = 4 \/ w = 8)%nat -> length bs = w ->
  enc_int w (dec_int w bs) = bs.
Proof.
  intros w bs Hw Hlen. destruct (width_consts w Hw) as (M & HM & H256 & Hhalf & HZ & HZh).
  unfold dec_int, enc_int. rewrite HZ, Hhalf.
  rewrite firstn_all2 by lia.
  pose proof (le_dec_lt bs) as Hlt. rewrite Hlen, H256 in Hlt.
  transitivity (le_enc (length bs) (le_dec bs)); [|apply le_enc_dec].
  rewrite Hlen. f_equal.
  destruct (le_dec bs <? M) eqn:Hc; destruct HM as [-> | ->]; lia.
Qed.

(** ** 7. DataTokenizer text conversions *)
Lemma int_width_cases : forall ty w, int_width ty = Some w -> (w = 4 \/ w = 8)%nat.
Proof. intros [] w H; cbn [int_width] in H; try discriminate H; injection H as <-; auto. Qed.

Lemma bits_of_width : forall w, (Z.of_N (8 * N.of_nat w) - 1 = 8 * Z.of_nat w - 1)%Z.
Proof. intros w. lia. Qed.

Lemma dt_value_roundtrip : forall ty v, (forall w, int_width ty = Some w -> length v = w) ->
  dt_to_value ty (dt_of_value ty v) = Ok v.
Proof.
  intros ty v Hlen. unfold dt_to_value, dt_of_value.
  destruct (int_width ty) as [w|] eqn:Hw; [|reflexivity].
  pose proof (int_width_cases _ _ Hw) as Hcases. specialize (Hlen w eq_refl).
  rewrite parse_format_int.
  - cbn [bind]. rewrite enc_dec_int by assumption. reflexivity.
  - lia.
  - rewrite bits_of_width. apply dec_int_range; assumption.
Qed.

Lemma dt_to_value_length : forall ty text v w, int_width ty = Some w ->
  dt_to_value ty text = Ok v -> length v = w.
Proof.
  intros ty text v w Hw H. unfold dt_to_value in H. rewrite Hw in H.
  destruct (parse_int (8 * N.of_nat w) text) as [z| |]; cbn [bind] in H; try discriminate H.
  injection H as <-. apply enc_int_length.
Qed.
