(** C02 (token part): de-tokenization / blind-index verification under another identity.
    Which layer carries the isolation: the storage SCOPE (AggregateTokenContextToBytes = SHA-256 of
    "client"||id), for the bare storage as well as for the encrypting wrapper ([enc] is universally
    quantified below).  generateDataID alone does NOT separate clients (collision family below). *)
From Coq Require Import List Lia.
From Acra Require Import Lib.Bytes Lib.Outcome Lib.Sha256 Crypto.Interface Crypto.Stub Gen.Consts Gen.IsoTokenConsts
  Model.Envelope Model.IsoTokens.
Import ListNotations.

Ltac inv H := inversion H; subst; clear H.
Definition mkc (cid : bytes) : token_context := {| tc_client := cid; tc_additional := [] |}.

(** * generateDataID concatenates value and client id without separator: a whole collision family *)
Lemma data_id_collision_family : forall (d s cid : bytes) (ty : N),
  generate_data_id d (mkc (s ++ STR_CLIENT ++ cid)) ty =
  generate_data_id (d ++ STR_CLIENT ++ s) (mkc cid) ty.
Proof.
  intros. unfold generate_data_id, data_id_preimage, ctx_part, mkc. cbn [tc_additional tc_client is_nil].
  f_equal. repeat rewrite <- app_assoc. reflexivity.
Qed.

Definition wA_val : bytes := Eval vm_compute in hb 0x178.                  (* "x" *)
Definition wA_cid : bytes := Eval vm_compute in hb 0x179636c69656e747a.    (* "yclientz" *)
Definition wB_val : bytes := Eval vm_compute in hb 0x178636c69656e7479.    (* "xclienty" *)
Definition wB_cid : bytes := Eval vm_compute in hb 0x17a.                  (* "z" *)

(* "different (value, client) pairs have different data ids" is refuted by the faithful model *)
Theorem data_id_collision_refuted :
  exists v1 id1 v2 id2, v1 <> v2 /\ id1 <> id2 /\
    generate_data_id v1 (mkc id1) TOKEN_TYPE_BYTES = generate_data_id v2 (mkc id2) TOKEN_TYPE_BYTES.
Proof.
  exists wA_val, wA_cid, wB_val, wB_cid. split; [discriminate|]. split; [discriminate|].
  vm_compute. reflexivity.
Qed.

(* ... while the storage scopes of the two witnesses differ *)
Example data_id_collision_scopes_differ :
  aggregate_token_context (mkc wA_cid) <> aggregate_token_context (mkc wB_cid).
Proof. vm_compute. discriminate. Qed.

(** * blind index: a hash made under key hkA verifies under keyset B only with the same key and value,
      or else the pair is an explicit HMAC-SHA256 collision *)
Theorem blind_index_other_client : forall (hkA x y : bytes) (ksB : keyset),
  hash_is_equal (generate_hmac hkA x) y ksB = true ->
  exists hkB, ks_hmac ksB = Some hkB /\
    ((hkB = hkA /\ y = x) \/ ((hkA, x) <> (hkB, y) /\ hmac_sha256 hkA x = hmac_sha256 hkB y)).
Proof.
  intros hkA x y ksB H. unfold hash_is_equal in H.
  destruct (ks_hmac ksB) as [hkB|] eqn:E; [|discriminate].
  exists hkB. split; [reflexivity|].
  unfold generate_hmac in H. cbn [skipn] in H. apply bytes_eqb_eq in H.
  destruct (bytes_eqb hkB hkA) eqn:E1.
  - apply bytes_eqb_eq in E1. destruct (bytes_eqb y x) eqn:E2.
    + apply bytes_eqb_eq in E2. left. split; assumption.
    + apply bytes_eqb_neq in E2. right. split; [|exact H]. intro K. inv K. apply E2. reflexivity.
  - apply bytes_eqb_neq in E1. right. split; [|exact H]. intro K. inv K. apply E1. reflexivity.
Qed.

(* search flow: B's key differs from A's => a match under B is an explicit collision with different keys *)
Corollary blind_index_distinct_keys : forall (hkA hkB x y : bytes) (ksB : keyset),
  ks_hmac ksB = Some hkB -> hkB <> hkA ->
  hash_is_equal (generate_hmac hkA x) y ksB = true ->
  hkA <> hkB /\ hmac_sha256 hkA x = hmac_sha256 hkB y.
Proof.
  intros hkA hkB x y ksB Hk Hne H. destruct (blind_index_other_client _ _ _ _ H) as (k & Hk' & D).
  rewrite Hk in Hk'. inv Hk'. destruct D as [[E _]|[_ E]].
  - contradiction.
  - split; [intro K; apply Hne; symmetry; exact K | exact E].
Qed.

(* no HMAC key for B (GetHMACSecretKey fails) => never equal *)
Lemma blind_index_no_key : forall (hash y : bytes) (ksB : keyset), ks_hmac ksB = None -> hash_is_equal hash y ksB = false.
Proof. intros hash y ksB H. unfold hash_is_equal. rewrite H. reflexivity. Qed.

(** * frame property of the storage scope: an operation under context [c] never changes what is
      visible in any other scope [h] *)
Definition untouched (h : bytes) (st st' : store) : Prop := forall id, mem_get st' h id = mem_get st h id.

Lemma untouched_refl h st : untouched h st st.
Proof. intro id. reflexivity. Qed.
Lemma untouched_trans h a b c : untouched h a b -> untouched h b c -> untouched h a c.
Proof. intros H1 H2 id. rewrite H2. apply H1. Qed.

Lemma mem_save_frame (st : store) (h0 id d : bytes) (st' : store) (h : bytes) :
  mem_save st h0 id d = Ok st' -> h0 <> h -> untouched h st st'.
Proof.
  unfold mem_save. intros H Hn. destruct (mem_get st h0 id); [discriminate|]. inv H.
  intro id'. cbn [mem_get]. destruct (bytes_eqb h0 h) eqn:E.
  - apply bytes_eqb_eq in E. contradiction.
  - reflexivity.
Qed.

Section Frame.
Variable C : crypto.
Variables (enc : bool) (ks : keystore).

Lemma wrap_save_frame st tape c id d st' t' h :
  wrap_save C enc ks st tape c id d = (Ok st', t') -> aggregate_token_context c <> h -> untouched h st st'.
Proof.
  unfold wrap_save, storage_save. intros H Hn. destruct enc.
  - destruct (tok_encrypt C ks (firstn 3 tape) d c); try discriminate.
    injection H as H1 _. eapply mem_save_frame; eauto.
  - injection H as H1 _. eapply mem_save_frame; eauto.
Qed.

Lemma gen_new_value_frame c value h (Hn : aggregate_token_context c <> h) :
  forall fuel st tape st' t' r,
    gen_new_value C fuel enc ks st tape c value = (st', t', r) -> untouched h st st'.
Proof.
  induction fuel as [|f IH]; intros st tape st' t' r H; cbn [gen_new_value] in H.
  - inv H. apply untouched_refl.
  - destruct (draw (length value) tape) as [[nv tape1]|]; [| inv H; apply untouched_refl].
    destruct (wrap_save C enc ks st tape1 c (key_for_token (generate_data_id nv c TOKEN_TYPE_BYTES))
                (encode_token_value value TOKEN_TYPE_BYTES)) as [[s1|e|] tape2] eqn:W.
    + inv H. eapply wrap_save_frame; eauto.
    + destruct (N.eqb e E_TOKEN_EXISTS).
      * eapply IH; eauto.
      * inv H. apply untouched_refl.
    + inv H. apply untouched_refl.
Qed.

Lemma anonymize_consistently_frame c value h (Hn : aggregate_token_context c <> h) :
  forall tries st tape st' r,
    anonymize_consistently_aux C tries enc ks st tape c value = (st', r) -> untouched h st st'.
Proof.
  induction tries as [|t IH]; intros st tape st' r H; cbn [anonymize_consistently_aux] in H.
  - inv H. apply untouched_refl.
  - destruct (wrap_get C enc ks st c (key_for_hash (generate_data_id value c TOKEN_TYPE_BYTES))) as [v|e|].
    + inv H. apply untouched_refl.
    + unfold anonymize in H.
      destruct (gen_new_value C TOK_LOOP_LIMIT enc ks st tape c value) as [[st1 tape1] r1] eqn:G.
      pose proof (gen_new_value_frame c value h Hn _ _ _ _ _ _ G) as U1.
      destruct r1 as [nv|e1|].
      * destruct (wrap_save C enc ks st1 tape1 c (key_for_hash (generate_data_id value c TOKEN_TYPE_BYTES)) nv)
          as [[st2|e2|] tape2] eqn:W.
        -- inv H. eapply untouched_trans; [exact U1| eapply wrap_save_frame; eauto].
        -- destruct (N.eqb e2 E_TOKEN_EXISTS && negb (Nat.eqb t 0)).
           ++ eapply untouched_trans; [exact U1| eapply IH; eauto].
           ++ inv H. exact U1.
        -- inv H. exact U1.
      * inv H. exact U1.
      * inv H. exact U1.
    + inv H. apply untouched_refl.
Qed.

Lemma step_frame st o h :
  aggregate_token_context (op_ctx o) <> h -> untouched h st (fst (step C enc ks st o)).
Proof.
  intros Hn. destruct o as [cons c tape v | c t]; cbn [op_ctx] in Hn; cbn [step].
  - destruct cons.
    + unfold anonymize_consistently.
      destruct (anonymize_consistently_aux C 2 enc ks st tape c v) as [s r] eqn:E. cbn [fst].
      eapply anonymize_consistently_frame; eauto.
    + unfold anonymize.
      destruct (gen_new_value C TOK_LOOP_LIMIT enc ks st tape c v) as [[s t'] r] eqn:E. cbn [fst].
      eapply gen_new_value_frame; eauto.
  - cbn [fst]. apply untouched_refl.
Qed.

Lemma run_from_frame h : forall ops st,
  Forall (fun o => aggregate_token_context (op_ctx o) <> h) ops ->
  untouched h st (fst (run_from C enc ks st ops)).
Proof.
  induction ops as [|o r IH]; intros st HF; cbn [run_from].
  - apply untouched_refl.
  - inversion HF as [|? ? Ho Hr]; subst.
    pose proof (step_frame st o h Ho) as U.
    destruct (step C enc ks st o) as [st1 out]. cbn [fst] in U.
    specialize (IH st1 Hr).
    destruct (run_from C enc ks st1 r) as [st2 outs]. cbn [fst] in *.
    eapply untouched_trans; eauto.
Qed.

(* Deanonymize on a store whose scope of [c] is empty: ErrTokenNotFound is swallowed, token returned *)
Lemma deanonymize_empty_scope st c t :
  (forall id, mem_get st (aggregate_token_context c) id = None) -> deanonymize C enc ks st c t = Ok t.
Proof. intros H. unfold deanonymize, wrap_get, storage_get. rewrite H. reflexivity. Qed.

(** every history of operations that all ran under storage scopes other than B's: Detokenize under B
    of ANY byte string (in particular of every token produced in the history) returns it unchanged *)
Theorem detokenize_other_scope : forall ops cB t,
  Forall (fun o => aggregate_token_context (op_ctx o) <> aggregate_token_context cB) ops ->
  deanonymize C enc ks (final_store C enc ks ops) cB t = Ok t.
Proof.
  intros ops cB t HF. apply deanonymize_empty_scope. intro id.
  unfold final_store, run_hist. rewrite (run_from_frame _ ops init_store HF id). reflexivity.
Qed.

Lemma scope_split h : forall ops : list tok_op,
  Forall (fun o => aggregate_token_context (op_ctx o) <> h) ops \/
  exists o, In o ops /\ aggregate_token_context (op_ctx o) = h.
Proof.
  induction ops as [|a r IH].
  - left. constructor.
  - destruct IH as [F|(o & I & E)].
    + destruct (bytes_eqb (aggregate_token_context (op_ctx a)) h) eqn:E.
      * right. exists a. split; [left; reflexivity| apply bytes_eqb_eq; exact E].
      * left. constructor; [apply bytes_eqb_neq; exact E| exact F].
    + right. exists o. split; [right; exact I| exact E].
Qed.

(** the same, reduced to SHA-256: the contexts differ as byte strings ("client"||id resp. "zone"||ac);
    either B gets the token back, or the history contains an explicit SHA-256 collision witness *)
Theorem detokenize_other_client_returns_token : forall ops cB t,
  Forall (fun o => ctx_part (op_ctx o) <> ctx_part cB) ops ->
  deanonymize C enc ks (final_store C enc ks ops) cB t = Ok t
  \/ exists o, In o ops /\ ctx_part (op_ctx o) <> ctx_part cB
               /\ sha256 (ctx_part (op_ctx o)) = sha256 (ctx_part cB).
Proof.
  intros ops cB t HF.
  destruct (scope_split (aggregate_token_context cB) ops) as [F|(o & I & E)].
  - left. apply detokenize_other_scope. exact F.
  - right. exists o. split; [exact I|]. split; [|exact E].
    rewrite Forall_forall in HF. apply HF. exact I.
Qed.

End Frame.

(* distinct client ids (no additional context) give distinct context byte strings *)
Lemma ctx_part_clients cA cB :
  tc_additional cA = [] -> tc_additional cB = [] -> tc_client cA <> tc_client cB -> ctx_part cA <> ctx_part cB.
Proof.
  intros HA HB Hn. unfold ctx_part. rewrite HA, HB. cbn [is_nil]. intro H.
  apply app_inv_head in H. contradiction.
Qed.

(** client-id form: all operations of the history ran under client ids other than [idB] *)
Corollary detokenize_other_client_ids : forall C enc ks ops idB t,
  Forall (fun o => tc_additional (op_ctx o) = [] /\ tc_client (op_ctx o) <> idB) ops ->
  deanonymize C enc ks (final_store C enc ks ops) (mkc idB) t = Ok t
  \/ exists o, In o ops /\ tc_client (op_ctx o) <> idB
               /\ sha256 (STR_CLIENT ++ tc_client (op_ctx o)) = sha256 (STR_CLIENT ++ idB).
Proof.
  intros C enc ks ops idB t HF.
  destruct (detokenize_other_client_returns_token C enc ks ops (mkc idB) t) as [H|(o & I & _ & E)].
  - rewrite Forall_forall in *. intros o I. destruct (HF o I) as [Ha Hn].
    apply ctx_part_clients; [exact Ha| reflexivity| exact Hn].
  - left. exact H.
  - right. exists o. rewrite Forall_forall in HF. destruct (HF o I) as [Ha Hn].
    split; [exact I|]. split; [exact Hn|].
    unfold ctx_part in E. rewrite Ha in E. cbn [is_nil mkc tc_additional tc_client] in E. exact E.
Qed.

(** * non-vacuity on the stand-in crypto *)
Definition ex_idA : bytes := Eval vm_compute in hb 0x1636c69656e74.      (* "client" *)
Definition ex_idB : bytes := Eval vm_compute in hb 0x1636c69656e7462.    (* "clientb" *)
Definition ex_ks : keystore := [(ex_idA, [repeat_bytes x11 32]); (ex_idB, [repeat_bytes x22 32])].
Definition ex_secret : bytes := Eval vm_compute in hb 0x1736563726574.   (* "secret" *)
Definition ex_tape : list bytes := [repeat_bytes x41 6; repeat_bytes x07 32; repeat_bytes x08 12; repeat_bytes x09 12].
Definition ex_hist : list tok_op := [TTokenize false (mkc ex_idA) ex_tape ex_secret].
Definition ex_token : bytes := repeat_bytes x41 6.

(* A tokenizes "secret" and gets the token; A gets its value back; B gets the token back *)
Example ex_tokenize : snd (run_hist Stub true ex_ks ex_hist) = [Ok ex_token].
Proof. vm_compute. reflexivity. Qed.
Example ex_owner_detokenizes :
  deanonymize Stub true ex_ks (final_store Stub true ex_ks ex_hist) (mkc ex_idA) ex_token = Ok ex_secret.
Proof. vm_compute. reflexivity. Qed.
Example ex_other_gets_token :
  deanonymize Stub true ex_ks (final_store Stub true ex_ks ex_hist) (mkc ex_idB) ex_token = Ok ex_token.
Proof. vm_compute. reflexivity. Qed.
Example ex_premise_satisfiable :
  Forall (fun o => tc_additional (op_ctx o) = [] /\ tc_client (op_ctx o) <> ex_idB) ex_hist.
Proof. constructor; [split; [reflexivity| discriminate]| constructor]. Qed.

(* the scope, not the data id, is what separates: with a SHARED additional context (legacy zone
   semantics) and the bare storage, another client id reads the value *)
Definition ex_zone (cid : bytes) : token_context := {| tc_client := cid; tc_additional := ex_secret |}.
Example ex_shared_zone_plain_reveals :
  deanonymize Stub false ex_ks
    (final_store Stub false ex_ks [TTokenize false (ex_zone ex_idA) [repeat_bytes x41 6] ex_secret])
    (ex_zone ex_idB) ex_token = Ok ex_secret.
Proof. vm_compute. reflexivity. Qed.
(* ... and with the encrypting wrapper the per-client key stops it (stand-in crypto) *)
Example ex_shared_zone_encrypted_keeps :
  deanonymize Stub true ex_ks
    (final_store Stub true ex_ks [TTokenize false (ex_zone ex_idA) ex_tape ex_secret])
    (ex_zone ex_idB) ex_token = Ok ex_token.
Proof. vm_compute. reflexivity. Qed.

Example ex_blind_index_premise :
  hash_is_equal (generate_hmac ex_idA ex_secret) ex_secret (Build_keyset None [] [] (Some ex_idA)) = true.
Proof. vm_compute. reflexivity. Qed.
Example ex_blind_index_other_key :
  hash_is_equal (generate_hmac ex_idA ex_secret) ex_secret (Build_keyset None [] [] (Some ex_idB)) = false.
Proof. vm_compute. reflexivity. Qed.
