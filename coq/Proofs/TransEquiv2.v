(** xtr2: equivalence of the definitions translated with the EXTENDED subset (append / make / nil-sensitive
    parameter / range, counted and fuelled loops) with the hand-written models.  Gen/Trans.v is regenerated
    from the Go source on every run; these proofs are re-checked against what the code says now. *)
From Acra Require Import Lib.Bytes Lib.Outcome Lib.GoSlice Gen.Trans Model.RunTrans Proofs.TransEquiv.
From Acra Require Model.MysqlWire Model.Bytea.
From Coq Require Import ZifyN ZifyNat ZifyBool.
Local Open Scope Z_scope.

(** * decryptor/mysql/base.PutLengthEncodedString (b == nil, make with capacity, append) *)
Lemma trans_PutLengthEncodedString_nil b :
  PutLengthEncodedString true b = Ok (MysqlWire.put_lenenc_string None).
Proof. reflexivity. Qed.

Lemma trans_PutLengthEncodedString_some (b : bytes) : len b + 9 <= MAXALLOC ->
  PutLengthEncodedString false b = Ok (MysqlWire.put_lenenc_string (Some b)).
Proof.
  intros Hlen. unfold PutLengthEncodedString. pose proof (len_nonneg b) as Hnn.
  assert (Hm : MAXALLOC = 140737488355328) by reflexivity.
  assert (Hadd : int_add (len b) 9 = len b + 9).
  { unfold int_add. apply wrap_int_small. unfold TWO63. lia. }
  rewrite Hadd. change (gmake 0) with (Ok (A:=nat) 0%nat). cbn [bind].
  rewrite (gmake_ok (len b + 9)) by lia. cbn [bind].
  destruct (Z.leb_spec 0 (len b + 9)) as [_|Hc]; [|lia]. cbn [bind].
  unfold len in *. rewrite u64_of_int_nat by (unfold TWO64; lia).
  rewrite trans_PutLengthEncodedInt by lia. cbn [bind repeat app MysqlWire.put_lenenc_string].
  reflexivity.
Qed.

(** * utils.IsPrintableEscapeChar, utils.EncodeToOctal (range loop, append of elements) *)
Lemma trans_IsPrintableEscapeChar c : IsPrintableEscapeChar c = Ok (Bytea.is_printable (b2n c)).
Proof.
  unfold IsPrintableEscapeChar, Bytea.is_printable.
  destruct ((32 <=? b2n c)%N && (b2n c <=? 126)%N); reflexivity.
Qed.

Lemma octal_digits_byte (c : byte) :
  [n2b 92%N; n2b ((48 + b2n (n2b (N.shiftr (b2n c) 6))) mod 256)%N;
   n2b ((48 + b2n (n2b (N.land (b2n (n2b (N.shiftr (b2n c) 3))) 7))) mod 256)%N;
   n2b ((48 + b2n (n2b (N.land (b2n c) 7))) mod 256)%N] = Bytea.octal_of (b2n c).
Proof. destruct c; vm_compute; reflexivity. Qed.

Lemma trans_EncodeToOctal (data : bytes) : go_len data ->
  EncodeToOctal data = Ok (Bytea.encode_octal data).
Proof.
  intros Hlen. unfold EncodeToOctal. pose proof (len_nonneg data) as Hnn. unfold go_len in Hlen.
  change (gmake 0) with (Ok (A:=nat) 0%nat). cbn [bind].
  rewrite (gmake_ok (len data)) by lia. cbn [bind].
  destruct (Z.leb_spec 0 (len data)) as [_|Hc]; [|lia]. cbn [bind repeat].
  match goal with |- ?L data [] = _ =>
    assert (HL : forall (l acc : bytes), L l acc = Ok (acc ++ Bytea.encode_octal l)); [|exact (HL data [])] end.
  clear. induction l as [|c l IH]; intros acc.
  - cbn beta iota. cbn [Bytea.encode_octal]. rewrite app_nil_r. reflexivity.
  - cbn beta iota. cbn [Bytea.encode_octal]. rewrite trans_IsPrintableEscapeChar. cbn [bind].
    unfold Bytea.BACKSLASH.
    destruct (b2n c =? 92)%N.
    + rewrite IH. rewrite <- app_assoc. reflexivity.
    + destruct (negb (Bytea.is_printable (b2n c))).
      * rewrite IH. rewrite <- app_assoc. do 2 f_equal. f_equal. apply octal_digits_byte.
      * rewrite IH. rewrite <- app_assoc. reflexivity.
Qed.

(** totality (C14): the encoders never panic and never fail on a Go slice *)
Lemma trans_EncodeToOctal_total data : go_len data -> exists out, EncodeToOctal data = Ok out.
Proof. intros H. eexists. apply trans_EncodeToOctal, H. Qed.

(** C12 on the regenerated pair: what PutLengthEncodedString writes, LengthEncodedString reads back *)
Lemma trans_lenenc_string_roundtrip (b rest : bytes) : len b + 9 <= MAXALLOC -> go_len (MysqlWire.put_lenenc_string (Some b) ++ rest) ->
  exists enc, PutLengthEncodedString false b = Ok enc /\
    LengthEncodedString (enc ++ rest) = h_les (enc ++ rest).
Proof.
  intros H1 H2. eexists. split; [apply trans_PutLengthEncodedString_some, H1|].
  apply trans_LengthEncodedString, H2.
Qed.

(** * translator self-test (harness/xtr/selftest, NOT acra code): counted loop, fuelled loop, make + copy *)
Lemma sub_S {A} (d : A) a n (s : list A) : (a < length s)%nat -> sub a (S n) s = nth a s d :: sub (S a) n s.
Proof.
  unfold sub. revert s. induction a as [|a IH]; intros [|x s] H; cbn [length] in H; try lia.
  - reflexivity.
  - cbn [skipn nth]. apply IH. lia.
Qed.

Lemma trans_Selftest_SumWindow_empty data from to : to <= from -> Selftest_SumWindow data from to = Ok 0%N.
Proof.
  intros H. unfold Selftest_SumWindow. replace (Z.to_nat (to - from)) with 0%nat by lia. reflexivity.
Qed.

Lemma trans_Selftest_SumWindow_window (data : bytes) from to : go_len data -> 0 <= from -> from <= to -> to <= len data ->
  Selftest_SumWindow data from to = Ok (st_sum (sub (Z.to_nat from) (Z.to_nat (to - from)) data)).
Proof.
  intros Hgo H0 H1 H2. unfold Selftest_SumWindow, st_sum.
  assert (Hm : MAXALLOC = 140737488355328) by reflexivity. unfold go_len in Hgo.
  match goal with |- ?L ?n ?s0 from = _ =>
    assert (HL : forall (k : nat) (sum : N) (i : Z), 0 <= i -> i + Z.of_nat k <= len data ->
       L k sum i = Ok (fold_left (fun s b => ((s + b2n b) mod 4294967296)%N) (sub (Z.to_nat i) k data) sum));
    [|apply HL; lia] end.
  clear from to H0 H1 H2. induction k as [|k IH]; intros sum i Hi Hk.
  - cbn beta iota. unfold sub. cbn [firstn fold_left]. reflexivity.
  - cbn beta iota. rewrite gindex_ok by lia. cbn [bind].
    assert (Hadd : int_add i 1 = i + 1). { unfold int_add. apply wrap_int_small. unfold TWO63. lia. }
    rewrite Hadd. rewrite IH by lia.
    rewrite (sub_S x00 (Z.to_nat i) k data) by (unfold len in *; lia). cbn [fold_left].
    replace (Z.to_nat (i + 1)) with (S (Z.to_nat i)) by lia. reflexivity.
Qed.

Lemma trans_Selftest_SumWindow data from to : go_len data -> to <= from \/ (0 <= from /\ to <= len data) ->
  Selftest_SumWindow data from to = h_stsum data from to.
Proof.
  intros Hgo H. unfold h_stsum. destruct (Z.leb_spec to from) as [Hle|Hlt].
  - apply trans_Selftest_SumWindow_empty, Hle.
  - destruct H as [H|[Ha Hb]]; [lia|].
    destruct (Z.leb_spec 0 from); [|lia]. destruct (Z.leb_spec to (len data)); [|lia]. cbn [andb].
    apply trans_Selftest_SumWindow_window; lia || assumption.
Qed.

(** the fuel of the scanner loop (length + 1) is never exhausted and the scanner never panics *)
Lemma trans_Selftest_ScanRecords_total (data : bytes) : go_len data ->
  Selftest_ScanRecords data <> Err E_OUT_OF_FUEL /\ Selftest_ScanRecords data <> Panic.
Proof.
  intros Hgo. cbv beta zeta delta [Selftest_ScanRecords]. unfold go_len in Hgo.
  assert (Hm : MAXALLOC = 140737488355328) by reflexivity.
  match goal with |- ?L ?f 0 0 0 <> _ /\ ?L ?f 0 0 0 <> _ =>
    assert (HL : forall (fuel : nat) (index count total : Z), 0 <= index <= len data -> len data - index < Z.of_nat fuel ->
       L fuel index count total <> Err E_OUT_OF_FUEL /\ L fuel index count total <> Panic);
    [|apply HL; unfold len; lia] end.
  induction fuel as [|fuel IH]; intros index count total Hi Hf; [lia|].
  cbn beta iota.
  destruct (Z.leb_spec (len data) index) as [Hge|Hlt]; [split; discriminate|].
  rewrite gindex_ok by lia. cbn [bind].
  pose proof (b2n_lt (nth (Z.to_nat index) data x00)) as Hb.
  set (l := Z.of_N (b2n (nth (Z.to_nat index) data x00))) in *.
  assert (Hl : 0 <= l < 256) by (subst l; lia).
  assert (Hadd1 : int_add index 1 = index + 1). { unfold int_add. apply wrap_int_small. unfold TWO63. lia. }
  assert (Hadd2 : int_add 1 l = 1 + l). { unfold int_add. apply wrap_int_small. unfold TWO63. lia. }
  assert (Hadd3 : int_add (index + 1) l = index + 1 + l). { unfold int_add. apply wrap_int_small. unfold TWO63. lia. }
  assert (Hadd4 : int_add index (1 + l) = index + 1 + l). { unfold int_add. rewrite wrap_int_small by (unfold TWO63; lia). lia. }
  destruct (l =? 0); [split; discriminate|].
  destruct (l =? 255).
  - rewrite Hadd1. apply IH; lia.
  - rewrite Hadd1, Hadd3. destruct (Z.ltb_spec (len data) (index + 1 + l)); [split; discriminate|].
    rewrite Hadd2, Hadd4. apply IH; lia.
Qed.

Lemma skipn_repeat {A} (x : A) n m : skipn m (repeat x n) = repeat x (n - m).
Proof. revert m. induction n as [|n IH]; intros [|m]; cbn [repeat skipn Nat.sub]; auto. Qed.

Lemma trans_Selftest_PadCopy src n : Selftest_PadCopy src n = h_stpad src n.
Proof.
  unfold Selftest_PadCopy, h_stpad. destruct (gmake n) as [k| |]; cbn [bind]; try reflexivity.
  unfold gcopy. rewrite repeat_length, skipn_repeat. reflexivity.
Qed.
