(** The line the formatter hooks write is parsed back into exactly (body, check, chain marker):
    [parse_honest].  Holds for EVERY body (the parser cuts at the last token), any check value that
    is not empty, both for the plaintext and the CEF parser. *)
From Acra Require Import Lib.Bytes Lib.Outcome Lib.Sha256 Gen.AuditLogConsts Model.AuditLog.

(** ** hex *)
Definition hexchar (c : byte) : Prop := In c AL_HEX_ALPHABET.

Lemma hex_digit_char n : (n < 16)%N -> hexchar (hex_digit n).
Proof.
  intros H. unfold hexchar, hex_digit. apply nth_In.
  change (length AL_HEX_ALPHABET) with 16. lia.
Qed.

Lemma hex_byte_chars b : Forall hexchar (hex_byte b).
Proof.
  pose proof (b2n_lt b) as Hb. unfold hex_byte.
  constructor; [apply hex_digit_char; apply N.div_lt_upper_bound; lia|].
  constructor; [apply hex_digit_char; apply N.mod_lt; lia| constructor].
Qed.

Lemma hex_encode_chars bs : Forall hexchar (hex_encode bs).
Proof.
  induction bs as [|b bs IH]; cbn [hex_encode flat_map]; [constructor|].
  apply Forall_app. split; [apply hex_byte_chars| exact IH].
Qed.

(** a property of all 16 hex characters, checked by computation on the generated alphabet *)
Lemma hexchar_all (P : byte -> Prop) : Forall P AL_HEX_ALPHABET -> forall c, hexchar c -> P c.
Proof. intros H c Hc. rewrite Forall_forall in H. apply H, Hc. Qed.

Lemma hex_byte_ok b :
  match hex_byte b with
  | [h; l] => match unhex_digit h, unhex_digit l with
              | Some x, Some y => n2b (16 * x + y) = b
              | _, _ => False
              end
  | _ => False
  end.
Proof. destruct b; vm_compute; reflexivity. Qed.

Lemma hex_decode_byte b r : hex_decode (hex_byte b ++ r) = option_map (cons b) (hex_decode r).
Proof.
  pose proof (hex_byte_ok b) as H. unfold hex_byte in *. cbn [app]. cbn [hex_decode].
  destruct (unhex_digit (hex_digit (b2n b / 16))) as [x|]; [|contradiction].
  destruct (unhex_digit (hex_digit (b2n b mod 16))) as [y|]; [|contradiction].
  destruct (hex_decode r) as [t|]; [|reflexivity]. rewrite H. reflexivity.
Qed.

Lemma hex_decode_encode bs : hex_decode (hex_encode bs) = Some bs.
Proof.
  induction bs as [|b bs IH]; [reflexivity|].
  change (hex_encode (b :: bs)) with (hex_byte b ++ hex_encode bs).
  rewrite hex_decode_byte, IH. reflexivity.
Qed.

Lemma hex_encode_nonempty bs : bs <> [] -> hex_encode bs <> [].
Proof. destruct bs as [|b bs]; [congruence|]. intros _. cbn. discriminate. Qed.

(** ** searching *)
Lemma starts_with_short p s : length s < length p -> starts_with p s = false.
Proof.
  revert s; induction p as [|x p IH]; intros s H; cbn in H; [lia|].
  destruct s as [|y s]; [reflexivity|]. cbn. rewrite IH by (cbn in H; lia). apply andb_false_r.
Qed.

Definition no_occ (tok s : bytes) : Prop := forall j, starts_with tok (skipn j s) = false.

Lemma no_occ_head (x : byte) (p u v : bytes) :
  Forall (fun c => c <> x) u -> no_occ (x :: p) v -> no_occ (x :: p) (u ++ v).
Proof.
  intros Hu Hv. induction Hu as [|c u Hc Hu IH]; [exact Hv|].
  intros [|j]; cbn [skipn app].
  - cbn [starts_with]. destruct (byte_eqb x c) eqn:E; [apply byte_eqb_eq in E; congruence| reflexivity].
  - apply IH.
Qed.

Lemma no_occ_short tok s : length s < length tok -> no_occ tok s.
Proof. intros H j. apply starts_with_short. rewrite skipn_length. lia. Qed.

Lemma last_index_from_none tok s : no_occ tok s -> forall i acc, last_index_from tok s i acc = acc.
Proof.
  induction s as [|b s IH]; intros H i acc; cbn [last_index_from];
    pose proof (H 0) as H0; cbn [skipn] in H0; rewrite H0.
  - reflexivity.
  - apply IH. intros j. apply (H (S j)).
Qed.

Lemma last_index_from_hit tok s :
  starts_with tok s = true -> no_occ tok (tl s) -> forall i acc, last_index_from tok s i acc = Some i.
Proof.
  intros H1 H2 i acc. destruct s as [|b s]; cbn [last_index_from]; rewrite H1; [reflexivity|].
  apply last_index_from_none. exact H2.
Qed.

Lemma last_index_from_app tok s :
  starts_with tok s = true -> no_occ tok (tl s) ->
  forall a i acc, last_index_from tok (a ++ s) i acc = Some (i + length a).
Proof.
  intros H1 H2. induction a as [|x a IH]; intros i acc.
  - cbn [app length]. rewrite Nat.add_0_r. apply last_index_from_hit; assumption.
  - cbn [app last_index_from]. rewrite IH. cbn [length]. f_equal. lia.
Qed.

Lemma split_last_honest (body t : bytes) :
  no_occ AL_SPLIT_TOKEN (tl (AL_SPLIT_TOKEN ++ t)) ->
  split_last (body ++ AL_SPLIT_TOKEN ++ t) = Some (body, t).
Proof.
  intros H. unfold split_last, last_index.
  rewrite last_index_from_app; [|apply starts_with_app| exact H].
  cbn [Nat.add]. rewrite firstn_app_len.
  rewrite skipn_app, skipn_all2 by lia.
  replace (length body + length AL_SPLIT_TOKEN - length body) with (length AL_SPLIT_TOKEN) by lia.
  cbn [app]. rewrite skipn_app_len. reflexivity.
Qed.

(** ** the appended suffix never contains the token again *)
Lemma hexchar_not_space c : hexchar c -> c <> x20.
Proof. revert c. apply hexchar_all. repeat (constructor; [discriminate|]). constructor. Qed.

Lemma suffix_no_token (agg : bytes) (nc : bool) :
  no_occ AL_SPLIT_TOKEN (tl (AL_SPLIT_TOKEN ++ hex_encode agg ++ (if nc then AL_NEW_CHAIN_SUFFIX else []))).
Proof.
  change (tl (AL_SPLIT_TOKEN ++ ?t)) with (tl AL_SPLIT_TOKEN ++ t).
  rewrite app_assoc.
  change AL_SPLIT_TOKEN with (x20 :: tl AL_SPLIT_TOKEN) at 1.
  apply no_occ_head.
  - apply Forall_app. split.
    + repeat (constructor; [discriminate|]). constructor.
    + eapply Forall_impl; [|apply hex_encode_chars]. intros c. apply hexchar_not_space.
  - destruct nc; apply no_occ_short; cbn; lia.
Qed.

(** ** suffix handling *)
Lemma has_suffix_app (h suf : bytes) : has_suffix suf (h ++ suf) = true.
Proof.
  unfold has_suffix. rewrite app_length.
  replace (length suf <=? length h + length suf)%nat with true by (symmetry; apply Nat.leb_le; lia).
  replace (length h + length suf - length suf) with (length h) by lia.
  rewrite skipn_app_len. apply bytes_eqb_refl.
Qed.

Lemma trim_suffix_app (h suf : bytes) : trim_suffix suf (h ++ suf) = h.
Proof.
  unfold trim_suffix. rewrite app_length.
  replace (length h + length suf - length suf) with (length h) by lia. apply firstn_app_len.
Qed.

Lemma Forall_skipn' {A} (P : A -> Prop) n : forall l, Forall P l -> Forall P (skipn n l).
Proof.
  induction n as [|n IH]; intros l H; [exact H|]. destruct l as [|x l]; [constructor|].
  cbn. apply IH. inversion H; assumption.
Qed.

Lemma has_suffix_hex_false (h : bytes) : Forall hexchar h -> has_suffix AL_NEW_CHAIN_SUFFIX h = false.
Proof.
  intros H. unfold has_suffix. destruct (length AL_NEW_CHAIN_SUFFIX <=? length h)%nat; [|reflexivity].
  apply bytes_eqb_neq. intros E.
  pose proof (Forall_skipn' hexchar (length h - length AL_NEW_CHAIN_SUFFIX) h H) as HF.
  rewrite E in HF. inversion HF as [|c l Hc _]; subst. apply hexchar_not_space in Hc. congruence.
Qed.

(** ** strings.TrimSpace leaves the suffix alone *)
Definition head_in_table (tbl : list bytes) (c : byte) : bool :=
  existsb (fun w => match w with [] => true | x :: _ => byte_eqb x c end) tbl.

Lemma strip_none tbl c r : head_in_table tbl c = false -> strip_one_prefix tbl (c :: r) = None.
Proof.
  induction tbl as [|w tbl IH]; intros H; [reflexivity|].
  cbn in H. apply orb_false_iff in H as [H1 H2]. cbn [strip_one_prefix].
  destruct w as [|x w]; [discriminate|]. cbn [starts_with]. rewrite H1. cbn. apply IH, H2.
Qed.

Lemma trim_left_fuel_id tbl fuel c r : head_in_table tbl c = false ->
  trim_left_fuel tbl fuel (c :: r) = c :: r.
Proof.
  intros H. destruct fuel as [|f]; [reflexivity|]. cbn [trim_left_fuel].
  rewrite strip_none by exact H. reflexivity.
Qed.

Lemma hexchar_no_space_l c : hexchar c -> head_in_table AL_SPACES c = false.
Proof. revert c. apply hexchar_all. repeat (constructor; [vm_compute; reflexivity|]). constructor. Qed.
Lemma hexchar_no_space_r c : hexchar c -> head_in_table (map (@rev byte) AL_SPACES) c = false.
Proof. revert c. apply hexchar_all. repeat (constructor; [vm_compute; reflexivity|]). constructor. Qed.

Lemma trim_space_suffix (agg : bytes) (nc : bool) : agg <> [] ->
  trim_space (hex_encode agg ++ (if nc then AL_NEW_CHAIN_SUFFIX else []))
  = hex_encode agg ++ (if nc then AL_NEW_CHAIN_SUFFIX else []).
Proof.
  intros Hne. pose proof (hex_encode_chars agg) as HF. pose proof (hex_encode_nonempty agg Hne) as Hh.
  unfold trim_space.
  assert (trim_left (hex_encode agg ++ (if nc then AL_NEW_CHAIN_SUFFIX else []))
          = hex_encode agg ++ (if nc then AL_NEW_CHAIN_SUFFIX else [])) as ->.
  { unfold trim_left. destruct (hex_encode agg) as [|c r]; [congruence|]. cbn [app].
    apply trim_left_fuel_id. apply hexchar_no_space_l. inversion HF; assumption. }
  unfold trim_right. rewrite rev_app_distr. destruct nc.
  - change (rev AL_NEW_CHAIN_SUFFIX) with (x77 :: tl (rev AL_NEW_CHAIN_SUFFIX)). cbn [app].
    rewrite trim_left_fuel_id by (vm_compute; reflexivity).
    change (x77 :: tl (rev AL_NEW_CHAIN_SUFFIX) ++ rev (hex_encode agg)) with (rev AL_NEW_CHAIN_SUFFIX ++ rev (hex_encode agg)).
    rewrite <- rev_app_distr. apply rev_involutive.
  - cbn [rev app]. apply Forall_rev in HF. destruct (rev (hex_encode agg)) as [|c r] eqn:E.
    + apply (f_equal (@rev byte)) in E. rewrite rev_involutive in E. cbn in E. congruence.
    + rewrite trim_left_fuel_id by (apply hexchar_no_space_r; inversion HF; assumption).
      rewrite <- E, app_nil_r. apply rev_involutive.
Qed.

(** ** the honest line parses back *)
Definition end_marked (body : bytes) : bool :=
  contains AL_END_CHAIN_SUFFIX body && contains AL_END_CHAIN_MESSAGE body.

Theorem parse_honest (cef : bool) (body agg : bytes) (nc : bool) : agg <> [] ->
  parse_text cef (body ++ suffix_of agg nc) = POk (mk_parsed body agg nc (end_marked body)).
Proof.
  intros Hne. unfold parse_text, suffix_of.
  rewrite split_last_honest by apply suffix_no_token.
  unfold parse_after_split.
  assert ((if cef then trim_space (hex_encode agg ++ (if nc then AL_NEW_CHAIN_SUFFIX else []))
           else hex_encode agg ++ (if nc then AL_NEW_CHAIN_SUFFIX else []))
          = hex_encode agg ++ (if nc then AL_NEW_CHAIN_SUFFIX else [])) as ->.
  { destruct cef; [apply trim_space_suffix, Hne| reflexivity]. }
  destruct nc.
  - rewrite has_suffix_app, trim_suffix_app, hex_decode_encode. reflexivity.
  - rewrite app_nil_r, has_suffix_hex_false by apply hex_encode_chars.
    rewrite hex_decode_encode. reflexivity.
Qed.

Lemma honest_line_nonempty body agg nc : body ++ suffix_of agg nc <> [].
Proof. unfold suffix_of. destruct body; cbn; discriminate. Qed.
