(** C11: masked columns.  The masking encryptor splits a value into a clear window and a protected
    remainder; on read the envelope is replaced in place by the plaintext (owner) or by the pattern
    (reader who cannot open it).  Everything is a composition over the scanner theorems of
    Proofs/Scanner.v and the C01 round trips of Proofs/EnvelopeHandlers.v. *)
From Acra Require Import Lib.Bytes Lib.Outcome Lib.Sha256 Crypto.Interface Gen.Consts Gen.MaskConsts
  Model.Envelope Model.Masking Proofs.Envelope Proofs.EnvelopeHandlers Proofs.Scanner Proofs.Containers.
From Coq Require Import ZifyN ZifyNat ZifyBool.

(** * resynchronisation: a prefix none of whose tag positions yields anything is copied through *)
Section Resync.
Variable cbs : list (bytes -> res bytes).

Lemma scan_cons_notag f b (r : bytes) out ch :
  starts_with sc_tag (b :: r) = false ->
  scan (S f) cbs (b :: r) out ch = scan (S f) cbs r (out ++ [b]) ch.
Proof.
  intros Hst. cbn [scan]. cbn [index_of]. rewrite Hst.
  destruct (index_of sc_tag r) as [i|]; cbn [option_map].
  - cbn [firstn skipn]. replace (out ++ b :: firstn i r) with ((out ++ [b]) ++ firstn i r)
      by (rewrite <- app_assoc; reflexivity). reflexivity.
  - rewrite <- app_assoc. reflexivity.
Qed.

(** [calm p t]: at every tag occurrence that starts inside the prefix [p] of [p ++ t] the callbacks
    leave the candidate alone (or no candidate can be extracted there) *)
Definition calm (p t : bytes) : Prop :=
  forall j n c, j < length p -> starts_with sc_tag (skipn j (p ++ t)) = true ->
    sc_extract (skipn j (p ++ t)) = Ok (n, c) -> run_callbacks cbs c = Ok None.

Lemma quiet_calm p t : quiet p t -> calm p t.
Proof. intros Hq j n c Hj Hst _. rewrite (Hq j Hj) in Hst. discriminate. Qed.

Lemma calm_tail b p t : calm (b :: p) t -> calm p t.
Proof. intros H j n c Hj Hst He. apply (H (S j) n c); [cbn; lia| exact Hst| exact He]. Qed.

Lemma scan_skip_prefix (p : bytes) : forall (t out : bytes) ch f f',
  calm p t -> length (p ++ t) < f -> length t < f' ->
  scan f cbs (p ++ t) out ch = scan f' cbs t (out ++ p) ch.
Proof.
  induction p as [|b p IH]; intros t out ch f f' Hc Hf Hf'.
  - cbn [app]. rewrite app_nil_r. apply scan_fuel; [exact Hf| exact Hf'].
  - destruct f as [|f]; [lia|]. cbn [app length] in Hf.
    replace (out ++ b :: p) with ((out ++ [b]) ++ p) by (rewrite <- app_assoc; reflexivity).
    destruct (starts_with sc_tag (b :: p ++ t)) eqn:Hst.
    + cbn [app scan index_of]. rewrite Hst. cbn [skipn firstn].
      assert (Hstep : scan f cbs (p ++ t) ((out ++ []) ++ [b]) ch = scan f' cbs t ((out ++ [b]) ++ p) ch).
      { rewrite app_nil_r. apply IH; [eapply calm_tail, Hc| lia| exact Hf']. }
      destruct (sc_extract (b :: p ++ t)) as [[n c]| |] eqn:Ee.
      * rewrite (Hc 0 n c); [exact Hstep| cbn; lia| exact Hst| exact Ee].
      * exact Hstep.
      * exfalso. eapply sc_extract_total, Ee.
    + cbn [app]. rewrite scan_cons_notag by exact Hst.
      apply IH; [eapply calm_tail, Hc| cbn [length]; lia| exact Hf'].
Qed.

(** a whole value that is calm comes out unchanged *)
Lemma scan_calm (w : bytes) f out ch :
  calm w [] -> length w < f -> scan f cbs w out ch = Ok (out ++ w, ch).
Proof.
  intros Hc Hf. rewrite (app_nil_r' w) at 1. rewrite (scan_skip_prefix w [] out ch f 1 Hc) by (rewrite ?app_nil_r; cbn; lia).
  cbn [scan index_of starts_with sc_tag SC_TAG_SIZE repeat_bytes]. rewrite app_nil_r. reflexivity.
Qed.

(** [column_reveal] with a calm instead of a tag-free prefix *)
Theorem column_reveal_calm p enc id s x :
  enc <> [] -> known_envelope id = true -> (N.of_nat (length enc) < 4294967296)%N ->
  calm p (sc_layout enc id ++ s) ->
  run_callbacks cbs (sc_layout enc id ++ s) = Ok (Some x) ->
  on_column cbs (p ++ sc_layout enc id ++ s)
  = lift_out (p ++ x) true (scan (S (length s)) cbs s [] false).
Proof.
  intros Hne Hk Hl Hc Hcb.
  assert (Hq0 : quiet [] (sc_layout enc id ++ s)) by (intros j Hj; cbn in Hj; lia).
  pose proof (column_reveal cbs [] enc id s x Hne Hk Hl Hq0 Hcb) as H0. cbn [app] in H0.
  assert (length (sc_layout enc id) = SC_MIN_SIZE + length enc) as Hv by apply sc_layout_length.
  assert (is_nil cbs = false) as Hnil by (destruct cbs; [discriminate| reflexivity]).
  unfold on_column in *. rewrite Hnil in *.
  assert (Nat.ltb (length (sc_layout enc id ++ s)) SC_MIN_SIZE = false) as E1
    by (apply Nat.ltb_ge; rewrite app_length; lia).
  assert (Nat.ltb (length (p ++ sc_layout enc id ++ s)) SC_MIN_SIZE = false) as E2
    by (apply Nat.ltb_ge; rewrite !app_length; lia).
  rewrite E1 in H0. rewrite E2. cbn [orb] in *.
  rewrite (scan_skip_prefix p (sc_layout enc id ++ s) [] false _ (S (length (sc_layout enc id ++ s))) Hc) by lia.
  cbn [app]. rewrite scan_acc, H0.
  destruct (scan (S (length s)) cbs s [] false) as [[o c']| |]; cbn [lift_out]; try reflexivity.
  rewrite app_assoc. reflexivity.
Qed.

End Resync.

(** * what is and what is not an envelope for the registry handler *)
Section Match.
Variable C : crypto.

(** the reader's decrypt step fails or hands the container back: "cannot decrypt" *)
Definition cannot_open (ks : keyset) (c : bytes) : Prop :=
  (exists e, registry_process C ks c = Err e) \/ registry_process C ks c = Ok c.

(** ** the masking callback on one candidate *)
Lemma masked_cb_none st ks c :
  registry_match c = false -> run_callbacks (masked_cbs C st ks) c = Ok None.
Proof.
  intros Hm. destruct (registry_unmatched_err C ks c Hm) as [e He].
  unfold masked_cbs. cbn [run_callbacks]. unfold decrypt_handler, masking_processor.
  destruct st as [st|]; [destruct (is_nil (ms_pattern st))|]; rewrite He, ?Hm, ?bytes_eqb_refl; reflexivity.
Qed.

Lemma masked_cb_masks st ks c :
  ms_pattern st <> [] -> registry_match c = true -> cannot_open ks c -> ms_pattern st <> c ->
  run_callbacks (masked_cbs C (Some st) ks) c = Ok (Some (ms_pattern st)).
Proof.
  intros Hp Hm Hno Hne. unfold masked_cbs. cbn [run_callbacks]. unfold decrypt_handler, masking_processor.
  rewrite (is_nil_false _ Hp), Hm.
  assert (bytes_eqb (ms_pattern st) c = false) as Hneq by (apply bytes_eqb_neq; exact Hne).
  destruct Hno as [[e He]|He]; rewrite He, ?bytes_eqb_refl, Hneq; reflexivity.
Qed.

Lemma masked_cb_reveals st ks id inner (v s x : bytes) :
  is_envelope id inner v -> handler_decrypt C id ks inner = Ok x -> length x < length inner ->
  run_callbacks (masked_cbs C st ks) (v ++ s) = Ok (Some x).
Proof.
  intros He Hd Hlen.
  assert (x <> v ++ s) as Hne.
  { intros E. apply (f_equal (@length byte)) in E. rewrite app_length, (envelope_length _ _ _ He) in E. lia. }
  assert (bytes_eqb x (v ++ s) = false) as Hneq by (apply bytes_eqb_neq; exact Hne).
  unfold masked_cbs. cbn [run_callbacks]. unfold decrypt_handler, masking_processor.
  rewrite (envelope_process C id inner v s ks He), Hd.
  destruct st as [st|]; [destruct (is_nil (ms_pattern st))|]; cbv beta iota; rewrite ?Hneq; cbv beta iota; rewrite ?Hneq; reflexivity.
Qed.

(** [clear p t]: no complete envelope sits at a tag position inside the clear bytes [p] of [p ++ t] *)
Definition clear (p t : bytes) : Prop :=
  forall j n c, j < length p -> starts_with sc_tag (skipn j (p ++ t)) = true ->
    sc_extract (skipn j (p ++ t)) = Ok (n, c) -> registry_match c = false.

Lemma quiet_clear p t : quiet p t -> clear p t.
Proof. intros Hq j n c Hj Hst _. rewrite (Hq j Hj) in Hst. discriminate. Qed.

Lemma clear_calm st ks p t : clear p t -> calm (masked_cbs C st ks) p t.
Proof. intros H j n c Hj Hst He. apply masked_cb_none. eapply H; eassumption. Qed.

(** ** reading a column [p ++ v ++ s] *)
Lemma masked_read_non_owner st ks id inner (v p s : bytes) :
  ms_pattern st <> [] -> is_envelope id inner v ->
  cannot_open ks (v ++ s) -> ms_pattern st <> v ++ s ->
  clear p (v ++ s) -> clear s [] ->
  masked_read C (Some st) ks (p ++ v ++ s) = Ok (p ++ ms_pattern st ++ s, true).
Proof.
  intros Hp He Hno Hne Hcp Hcs. pose proof He as (-> & Hn & Hk & Hl & Hm).
  unfold masked_read.
  rewrite (column_reveal_calm _ p inner id s (ms_pattern st)); try assumption.
  - rewrite scan_calm by (try apply clear_calm; try assumption; lia). cbn [lift_out app orb].
    rewrite <- app_assoc. reflexivity.
  - apply clear_calm, Hcp.
  - apply masked_cb_masks; try assumption. eapply envelope_matches, He.
Qed.

Lemma masked_read_owner st ks id inner (v p s x : bytes) :
  is_envelope id inner v -> handler_decrypt C id ks inner = Ok x -> length x < length inner ->
  clear p (v ++ s) -> clear s [] ->
  masked_read C st ks (p ++ v ++ s) = Ok (p ++ x ++ s, true).
Proof.
  intros He Hd Hlen Hcp Hcs. pose proof He as (-> & Hn & Hk & Hl & Hm).
  unfold masked_read.
  rewrite (column_reveal_calm _ p inner id s x); try assumption.
  - rewrite scan_calm by (try apply clear_calm; try assumption; lia). cbn [lift_out app orb].
    rewrite <- app_assoc. reflexivity.
  - apply clear_calm, Hcp.
  - eapply masked_cb_reveals; eassumption.
Qed.

End Match.

(** * the write path: window / hidden part / how they are joined *)
Definition mask_full (st : mask_setting) (x : bytes) : bool := Z.geb (ms_plen st) (Z.of_nat (length x)).

Definition mask_window (st : mask_setting) (x : bytes) : bytes :=
  if mask_full st x then []
  else if is_end_masking st then firstn (Z.to_nat (ms_plen st)) x
  else skipn (length x - Z.to_nat (ms_plen st)) x.

Definition mask_hidden (st : mask_setting) (x : bytes) : bytes :=
  if mask_full st x then x
  else if is_end_masking st then skipn (Z.to_nat (ms_plen st)) x
  else firstn (length x - Z.to_nat (ms_plen st)) x.

(** clear window on the configured side of the (protected or replaced) hidden part *)
Definition mask_join (st : mask_setting) (w h : bytes) : bytes :=
  if is_end_masking st then w ++ h else h ++ w.

Lemma mask_split_join st x : mask_join st (mask_window st x) (mask_hidden st x) = x.
Proof.
  unfold mask_join, mask_window, mask_hidden. destruct (mask_full st x), (is_end_masking st);
    rewrite ?app_nil_r; try reflexivity; apply firstn_skipn.
Qed.

Lemma mask_window_length st x :
  validate_masking_params st = true ->
  length (mask_window st x) = if mask_full st x then 0 else Z.to_nat (ms_plen st).
Proof.
  unfold validate_masking_params, mask_window, mask_full. destruct (is_nil _); [discriminate|].
  destruct (Z.ltb_spec (ms_plen st) 0); [discriminate|]. intros _.
  destruct (Z.geb_spec (ms_plen st) (Z.of_nat (length x))); [reflexivity|].
  destruct (is_end_masking st); [rewrite firstn_length| rewrite skipn_length]; lia.
Qed.

Lemma validated_pattern st : validate_masking_params st = true -> ms_pattern st <> [].
Proof. unfold validate_masking_params. destruct (ms_pattern st); [discriminate| discriminate]. Qed.

Lemma bind_ok_id {A} (r : res A) : (do a <- r; Ok a) = r.
Proof. destruct r; reflexivity. Qed.

(** encryptByFunction under validated parameters: protect the hidden part, keep the window, join *)
Theorem mask_write enc st x :
  validate_masking_params st = true ->
  encrypt_by_function enc st x
  = (do a <- enc (mask_hidden st x); Ok (mask_join st (mask_window st x) a)).
Proof.
  intros Hv. pose proof (validated_pattern st Hv) as Hp. revert Hv.
  unfold validate_masking_params, encrypt_by_function, mask_hidden, mask_window, mask_join, mask_full.
  rewrite (is_nil_false _ Hp). destruct (Z.ltb (ms_plen st) 0); [discriminate|]. intros _.
  destruct (Z.geb _ _).
  - destruct (is_end_masking st); cbn [app]; [symmetry; apply bind_ok_id|].
    destruct (enc x); cbn [bind]; rewrite ?app_nil_r; reflexivity.
  - destruct (is_end_masking st); reflexivity.
Qed.

Theorem mask_write_total enc st x :
  validate_masking_params st = true -> (forall d, enc d <> Panic) -> encrypt_by_function enc st x <> Panic.
Proof.
  intros Hv Henc. rewrite mask_write by exact Hv. pose proof (Henc (mask_hidden st x)).
  destruct (enc (mask_hidden st x)); cbn [bind]; congruence.
Qed.

(** "values not longer than the window are protected in full" *)
Theorem short_values_fully_protected enc st x :
  ms_pattern st <> [] -> (Z.of_nat (length x) <= ms_plen st)%Z ->
  mask_window st x = [] /\ mask_hidden st x = x /\ encrypt_by_function enc st x = enc x.
Proof.
  intros Hp Hle. unfold mask_window, mask_hidden, encrypt_by_function, mask_full.
  rewrite (is_nil_false _ Hp).
  destruct (Z.geb_spec (ms_plen st) (Z.of_nat (length x))); [auto| lia].
Qed.

(** * write then read *)
Section WriteRead.
Variable C : crypto.
Hypothesis HC : Correct C.

(** the envelope as the scanner callback sees it: followed by the window when the window is on the right *)
Definition mask_seen (st : mask_setting) (w v : bytes) : bytes := if is_end_masking st then v else v ++ w.

(** the clear window holds no complete envelope (at a tag position, together with what follows it) *)
Definition window_clear (st : mask_setting) (w v : bytes) : Prop :=
  if is_end_masking st then clear w v else clear w [].

Lemma clear_nil t : clear [] t.
Proof. intros j n c Hj. cbn in Hj. lia. Qed.

Theorem mask_non_owner_view st ks id inner v w :
  ms_pattern st <> [] -> is_envelope id inner v ->
  cannot_open C ks (mask_seen st w v) -> ms_pattern st <> mask_seen st w v ->
  window_clear st w v ->
  masked_read C (Some st) ks (mask_join st w v) = Ok (mask_join st w (ms_pattern st), true).
Proof.
  unfold mask_seen, window_clear, mask_join. intros Hp He Hno Hne Hc.
  destruct (is_end_masking st).
  - pose proof (masked_read_non_owner C st ks id inner v w [] Hp He) as H.
    rewrite !app_nil_r in H. apply H; try assumption. apply clear_nil.
  - pose proof (masked_read_non_owner C st ks id inner v [] w Hp He Hno Hne) as H.
    cbn [app] in H. apply H; [apply clear_nil| exact Hc].
Qed.

Theorem mask_owner_view st ks id inner v w x :
  is_envelope id inner v -> handler_decrypt C id ks inner = Ok x -> length x < length inner ->
  window_clear st w v ->
  masked_read C (Some st) ks (mask_join st w v) = Ok (mask_join st w x, true).
Proof.
  unfold window_clear, mask_join. intros He Hd Hl Hc.
  destruct (is_end_masking st).
  - pose proof (masked_read_owner C (Some st) ks id inner v w [] x He Hd Hl) as H.
    rewrite !app_nil_r in H. apply H; [exact Hc| apply clear_nil].
  - pose proof (masked_read_owner C (Some st) ks id inner v [] w x He Hd Hl) as H.
    cbn [app] in H. apply H; [apply clear_nil| exact Hc].
Qed.

(** what the C01 round trip provides for a hidden part [h] written under [ks] and read under [ks'] *)
Definition protects (id : byte) (ks : keyset) (tape : list bytes) (ks' : keyset) (h v inner : bytes) : Prop :=
  encrypt_with_handler C id ks tape h = Ok v /\ is_envelope id inner v /\
  handler_decrypt C id ks' inner = Ok h /\ length h < length inner.

Theorem protects_asymmetric ks ks' tape h sb before after :
  looks_protected ENVELOPE_ID_ACRASTRUCT h = false ->
  h <> [] -> (N.of_nat (length h) < MAXMSG)%N -> good_as_tape tape -> length sb = SEED_LEN ->
  ks_pub ks = Some (pub_of C sb) ->
  ks_privs ks' = before ++ priv_of C sb :: after ->
  (forall v, Forall (fun p => exists e, as_decrypt C v p [] = Err e) before) ->
  exists v inner, protects ENVELOPE_ID_ACRASTRUCT ks tape ks' h v inner.
Proof.
  intros Hnp Hx Hlen Htape Hsb Hpub Hprivs Hbefore.
  destruct (handler_roundtrip_as C HC ks ks' tape h sb before after Hnp Hx Hlen Htape Hsb Hpub Hprivs Hbefore)
    as (v & Henc & _ & _ & _ & inner & Hv & Hne & Hsm & Hm & Hd & Hl).
  exists v, inner. repeat split; try assumption.
Qed.

Theorem protects_symmetric ks ks' tape h key rest before after :
  looks_protected ENVELOPE_ID_ACRABLOCK h = false ->
  h <> [] -> (N.of_nat (length h) < MAXMSG)%N -> good_ab_tape tape -> key <> [] ->
  ks_syms ks = key :: rest ->
  ks_syms ks' = before ++ key :: after ->
  (forall ek, Forall (fun k => bytes_eqb (ab_key_id k []) (ab_key_id key []) = false
                               \/ cell_decrypt C k [] ek = None) before) ->
  exists v inner, protects ENVELOPE_ID_ACRABLOCK ks tape ks' h v inner.
Proof.
  intros Hnp Hx Hlen Htape Hkey Hsyms Hsyms' Hbefore.
  destruct (handler_roundtrip_ab C HC ks ks' tape h key rest before after Hnp Hx Hlen Htape Hkey Hsyms Hsyms' Hbefore)
    as (v & Henc & _ & _ & _ & inner & Hv & Hne & Hsm & Hm & Hd & Hl).
  exists v, inner. repeat split; try assumption.
Qed.

(** the owner: stored value = window joined with the envelope; reading it returns the original *)
Theorem mask_owner_gets_original st id ks tape ks' x v inner :
  validate_masking_params st = true ->
  protects id ks tape ks' (mask_hidden st x) v inner ->
  window_clear st (mask_window st x) v ->
  mask_encryptor C id ks tape st x = Ok (mask_join st (mask_window st x) v) /\
  masked_read C (Some st) ks' (mask_join st (mask_window st x) v) = Ok (x, true).
Proof.
  intros Hv (Henc & He & Hd & Hl) Hc. split.
  - unfold mask_encryptor. rewrite mask_write by exact Hv. rewrite Henc. reflexivity.
  - rewrite (mask_owner_view st ks' id inner v _ _ He Hd Hl Hc). rewrite mask_split_join. reflexivity.
Qed.

(** a reader who cannot open the envelope: exactly window + pattern (left) / pattern + window (right) *)
Theorem mask_non_owner_gets_window_and_pattern st id ks tape ks' reader x v inner :
  validate_masking_params st = true ->
  protects id ks tape ks' (mask_hidden st x) v inner ->
  cannot_open C reader (mask_seen st (mask_window st x) v) ->
  ms_pattern st <> mask_seen st (mask_window st x) v ->
  window_clear st (mask_window st x) v ->
  mask_encryptor C id ks tape st x = Ok (mask_join st (mask_window st x) v) /\
  masked_read C (Some st) reader (mask_join st (mask_window st x) v)
  = Ok (mask_join st (mask_window st x) (ms_pattern st), true).
Proof.
  intros Hv (Henc & He & Hd & Hl) Hno Hne Hc. split.
  - unfold mask_encryptor. rewrite mask_write by exact Hv. rewrite Henc. reflexivity.
  - apply (mask_non_owner_view st reader id inner v _ (validated_pattern st Hv) He Hno Hne Hc).
Qed.

(** hence what such a reader receives does not depend on the hidden part, the keys, the envelope kind or
    the randomness used when writing: two values with the same window are indistinguishable to it *)
Corollary mask_non_owner_view_independent st reader id1 id2 inner1 inner2 v1 v2 w :
  ms_pattern st <> [] -> is_envelope id1 inner1 v1 -> is_envelope id2 inner2 v2 ->
  cannot_open C reader (mask_seen st w v1) -> cannot_open C reader (mask_seen st w v2) ->
  ms_pattern st <> mask_seen st w v1 -> ms_pattern st <> mask_seen st w v2 ->
  window_clear st w v1 -> window_clear st w v2 ->
  masked_read C (Some st) reader (mask_join st w v1) = masked_read C (Some st) reader (mask_join st w v2).
Proof.
  intros Hp H1 H2 N1 N2 P1 P2 C1 C2.
  rewrite (mask_non_owner_view st reader id1 inner1 v1 w), (mask_non_owner_view st reader id2 inner2 v2 w);
    try assumption. reflexivity.
Qed.

End WriteRead.

(** * premises that are always met *)
(** a pattern shorter than the smallest container cannot be mistaken for the envelope *)
Lemma short_pattern_differs (pat v s inner : bytes) id :
  is_envelope id inner v -> length pat <= SC_MIN_SIZE -> pat <> v ++ s.
Proof.
  intros He Hl E. apply (f_equal (@length byte)) in E. rewrite app_length, (envelope_length id inner v He) in E.
  destruct He as (_ & Hne & _). destruct inner; [contradiction| cbn [length] in E; lia].
Qed.

(** a window of at most SC_MIN_SIZE bytes on the right cannot hold an envelope, whatever its content *)
Lemma short_window_clear (w : bytes) : length w <= SC_MIN_SIZE -> clear w [].
Proof.
  intros Hl j n c Hj _ He. exfalso. rewrite app_nil_r in He.
  assert (length (skipn j w) <= SC_MIN_SIZE) as Hs by (rewrite skipn_length; lia).
  revert He. unfold sc_extract, sc_validate.
  destruct (Nat.leb_spec (length (skipn j w)) SC_MIN_SIZE) as [_|]; [|lia].
  unfold match_old, as_validate, ab_extract.
  destruct (Nat.ltb_spec (length (skipn j w)) as_min) as [_|Ha]; [|revert Ha; unfold as_min, as_key_block; unfold_consts; lia].
  destruct (Nat.ltb_spec (length (skipn j w)) AB_MIN_SIZE) as [_|Hb]; [|revert Hb; unfold_consts; lia].
  discriminate.
Qed.
