(** Equivalence of the definitions TRANSLATED from the Go source (Gen/Trans.v, regenerated on every run by
    `acra-vh transgo`) with the hand-written checked models that carry the C12/C14 theorems.  When the Go
    code changes, Gen/Trans.v changes with it and these proofs are re-checked against what the code says now. *)
From Acra Require Import Lib.Bytes Lib.Outcome Lib.GoSlice Gen.Consts Gen.Trans Model.Envelope Model.EnvelopeChecked Model.RunTrans.
From Acra Require Model.MysqlWire Model.PgWire Model.KeystoreV2 Proofs.MysqlWire Proofs.EnvelopeChecked Gen.WireConsts Gen.KeyStates.
From Coq Require Import ZifyN ZifyNat ZifyBool.
Local Open Scope Z_scope.

(** outcomes up to the error class (the hand models of the envelope layer collapse every error to E_GENERIC) *)
Definition erase_err {A} (r : res A) : res A := match r with Err _ => Err E_GENERIC | x => x end.

Lemma bind_ok_r {A} (r : res A) : bind r (fun x => Ok x) = r.
Proof. destruct r; reflexivity. Qed.

(** * acrastruct/utils.go *)
Lemma trans_GetMinAcraStructLength : GetMinAcraStructLength = Ok as_min_z.
Proof. reflexivity. Qed.

Lemma trans_GetDataLengthFromAcraStruct data :
  GetDataLengthFromAcraStruct data = as_data_length_checked data.
Proof.
  unfold GetDataLengthFromAcraStruct, as_data_length_checked. rewrite trans_GetMinAcraStructLength. cbn [bind].
  reflexivity.
Qed.

Lemma trans_ValidateAcraStructLength data :
  erase_err (ValidateAcraStructLength data) = erase_err (h_validate data).
Proof.
  unfold ValidateAcraStructLength, h_validate, as_validate_checked.
  rewrite trans_GetMinAcraStructLength. change (GetDataLengthFromAcraStruct data) with (as_data_length_checked data). cbn [bind].
  destruct (len data <? as_min_z); [reflexivity|].
  change (len g_acrastruct_TagBegin) with (len as_tag).
  destruct (gslice_to (len as_tag) data) as [t| |]; cbn [bind]; [|reflexivity|reflexivity].
  change g_acrastruct_TagBegin with as_tag.
  destruct (negb (bytes_eqb t as_tag)); [reflexivity|].
  destruct (as_data_length_checked data) as [dl| |]; cbn [bind]; [|reflexivity|reflexivity].
  destruct (gslice_from as_min_z data) as [tl| |]; cbn [bind]; [|reflexivity|reflexivity].
  destruct (negb (dl =? len tl)); reflexivity.
Qed.

Lemma trans_ExtractAcraStruct data :
  erase_err (ExtractAcraStruct data) = erase_err (as_extract_checked data).
Proof.
  unfold ExtractAcraStruct, as_extract_checked.
  rewrite trans_GetMinAcraStructLength. change (GetDataLengthFromAcraStruct data) with (as_data_length_checked data). cbn [bind].
  destruct (len data <? as_min_z); [reflexivity|].
  destruct (as_data_length_checked data) as [dl| |]; cbn [bind]; [|reflexivity|reflexivity].
  destruct ((int_add dl as_min_z <? 0) || (len data <? int_add dl as_min_z)); [reflexivity|].
  destruct (gslice_to (int_add dl as_min_z) data) as [s| |]; cbn [bind]; [|reflexivity|reflexivity].
  pose proof (trans_ValidateAcraStructLength s) as HV. unfold h_validate in HV.
  destruct (as_validate_checked s) as [[|]|e|]; destruct (ValidateAcraStructLength s) as [[]|e'|]; cbn [bind negb erase_err] in *;
    try discriminate; reflexivity.
Qed.

(** * acrablock/acrablock.go *)
Lemma trans_AcraBlock_EncryptedDataEncryptionKeyLength b :
  AcraBlock_EncryptedDataEncryptionKeyLength b = ab_key_len_checked b.
Proof. reflexivity. Qed.

Lemma trans_AcraBlock_getKeyEncryptionKeyID b :
  erase_err (AcraBlock_getKeyEncryptionKeyID b) = erase_err (ab_block_key_id_checked b).
Proof.
  unfold AcraBlock_getKeyEncryptionKeyID, ab_block_key_id_checked.
  change (zn (AB_KEY_ID_POS + AB_KEY_ID_SIZE)) with 15. change (zn AB_KEY_ID_POS) with 13.
  destruct (len b <? 15); [reflexivity|]. rewrite bind_ok_r. reflexivity.
Qed.

Lemma existsb_one_byte (k : byte) (c : byte) : existsb (N.eqb (b2n k)) [b2n c] = byte_eqb k c.
Proof.
  cbn [existsb]. rewrite orb_false_r. destruct (byte_eqb k c) eqn:E.
  - apply byte_eqb_eq in E. subst. apply N.eqb_refl.
  - apply N.eqb_neq. intros HH. apply b2n_inj in HH. subst. rewrite byte_eqb_refl in E. discriminate.
Qed.

Lemma trans_ExtractAcraBlockFromData data : go_len data ->
  erase_err (ExtractAcraBlockFromData data) = erase_err (ab_extract_checked data).
Proof.
  intros HL. unfold ExtractAcraBlockFromData, ab_extract_checked.
  change (zn AB_MIN_SIZE) with 18. change (zn AB_TAG_SIZE) with 4.
  destruct (len data <? 18) eqn:E18; [reflexivity|]. apply Z.ltb_ge in E18.
  destruct (gslice_to 4 data) as [t| |]; cbn [bind]; [|reflexivity|reflexivity].
  change (gslice_to 4 g_acrastruct_TagBegin) with (gslice_to 4 as_tag).
  destruct (gslice_to 4 as_tag) as [t2| |]; cbn [bind]; [|reflexivity|reflexivity].
  change (zn AB_REST_LEN_POS) with 4. change (zn (AB_REST_LEN_POS + AB_REST_LEN_SIZE)) with 12.
  change (zn AB_KEK_TYPE_POS) with 12. change (zn AB_DATA_TYPE_POS) with 15.
  change (N.of_nat (AB_MIN_SIZE - AB_TAG_SIZE)) with 14%N. change (N.of_nat AB_TAG_SIZE) with 4%N.
  assert (HW : wrap_int (len data - 4) = len data - 4).
  { apply wrap_int_small. unfold go_len, MAXALLOC, TWO63 in *. lia. }
  rewrite HW.
  destruct (bytes_eqb t t2);
  (destruct (gslice 4 12 data) as [rl| |]; cbn [bind]; [|reflexivity|reflexivity]);
  (destruct (le_u64 rl) as [restLength| |]; cbn [bind]; [|reflexivity|reflexivity]);
  (destruct ((14 <=? restLength)%N && (restLength <=? u64_of_int (len data - 4))%N));
  (destruct (gindex 12 data) as [kb| |]; cbn [bind]; [|reflexivity|reflexivity]);
  change [0%N] with [b2n AB_KEK_TYPE_SECURE_CELL]; rewrite existsb_one_byte; unfold backend_known;
  (destruct (byte_eqb kb AB_KEK_TYPE_SECURE_CELL));
  (destruct (gindex 15 data) as [db| |]; cbn [bind]; [|reflexivity|reflexivity]);
  change [b2n AB_KEK_TYPE_SECURE_CELL] with [b2n AB_DATA_TYPE_SECURE_CELL]; rewrite existsb_one_byte;
  (destruct (byte_eqb db AB_DATA_TYPE_SECURE_CELL)); cbn [andb negb]; try reflexivity.
Qed.

(** * crypto/registry_handler.go *)
Lemma trans_getSerializedContainerLength data : go_len data ->
  erase_err (getSerializedContainerLength data) = erase_err (sc_internal_length_checked data).
Proof.
  intros HL. unfold getSerializedContainerLength, sc_internal_length_checked.
  change (len g_crypto_TagBegin) with (len sc_tag).
  change (int_add (len sc_tag) 8) with (len sc_tag + zn SC_LEN_SIZE).
  destruct (gslice (len sc_tag) (len sc_tag + zn SC_LEN_SIZE) data) as [lb| |]; cbn [bind]; [|reflexivity|reflexivity].
  destruct (le_u64 lb) as [length| |]; cbn [bind]; [|reflexivity|reflexivity].
  change (u64_of_int (zn SC_MIN_SIZE)) with 12%N. change (zn SC_MIN_SIZE) with 12.
  assert (HW : wrap_int (len data - 12) = len data - 12).
  { apply wrap_int_small. pose proof (len_nonneg data). unfold go_len, MAXALLOC, TWO63 in *. lia. }
  rewrite HW.
  destruct ((u64_sub length 12 <? 0)%N || (u64_of_int (len data - 12) <? u64_sub length 12)%N); reflexivity.
Qed.

(** * decryptor/mysql/base/utils.go: encoders *)
Lemma le_enc_S w n : le_enc (S w) n = n2b n :: le_enc w (N.shiftr n 8).
Proof. cbn [le_enc]. rewrite N.shiftr_div_pow2. reflexivity. Qed.

Ltac le_enc_norm :=
  repeat rewrite le_enc_S; cbn [le_enc]; repeat rewrite N.shiftr_shiftr; cbn [N.add Pos.add Pos.succ].

Lemma trans_Uint16ToBytes n : Uint16ToBytes n = Ok (le_enc 2 n).
Proof. unfold Uint16ToBytes. le_enc_norm. reflexivity. Qed.
Lemma trans_Uint32ToBytes n : Uint32ToBytes n = Ok (le_enc 4 n).
Proof. unfold Uint32ToBytes. le_enc_norm. reflexivity. Qed.
Lemma trans_Uint64ToBytes n : Uint64ToBytes n = Ok (le_enc 8 n).
Proof. unfold Uint64ToBytes. le_enc_norm. reflexivity. Qed.

Lemma trans_PutLengthEncodedInt n : (n < 2 ^ 64)%N ->
  PutLengthEncodedInt n = Ok (MysqlWire.put_lenenc_int n).
Proof.
  change (2 ^ 64)%N with 18446744073709551616%N. intros Hn.
  unfold PutLengthEncodedInt, MysqlWire.put_lenenc_int.
  destruct (n <=? 250)%N; [reflexivity|].
  destruct (n <=? 65535)%N; [le_enc_norm; reflexivity|].
  destruct (n <=? 16777215)%N; [le_enc_norm; reflexivity|].
  destruct (N.leb_spec n 18446744073709551615); [le_enc_norm; reflexivity| lia].
Qed.

(** * decryptor/postgresql/utils.go *)
Lemma tr_index_n_nth (i : Z) (s : list N) : 0 <= i ->
  tr_index_n i s = match nth_error s (Z.to_nat i) with Some x => Ok x | None => Panic end.
Proof.
  intros Hi. unfold tr_index_n.
  destruct (Z.leb_spec 0 i); [|lia]. cbn [andb].
  destruct (Z.ltb_spec i (Z.of_nat (length s))) as [Hlt|Hge].
  - rewrite (nth_error_nth' s 0%N) by lia. reflexivity.
  - destruct (nth_error s (Z.to_nat i)) eqn:E; [|reflexivity].
    assert (Z.to_nat i < length s)%nat by (apply nth_error_Some; congruence). lia.
Qed.

Lemma trans_GetParameterFormatByIndex i fmts : 0 <= i ->
  GetParameterFormatByIndex i fmts = PgWire.param_format (Z.to_nat i) fmts.
Proof.
  intros Hi. unfold GetParameterFormatByIndex, PgWire.param_format, PgWire.check_format.
  change WireConsts.PG_BIND_FORMAT_TEXT with 0%N. change WireConsts.PG_BIND_FORMAT_BINARY with 1%N.
  change PgWire.E_FORMAT with 32%N.
  destruct fmts as [|f [|g r]]; [reflexivity| |].
  - cbn. destruct (f =? 0)%N; [reflexivity|]. destruct (f =? 1)%N; reflexivity.
  - set (l := f :: g :: r).
    replace (Z.of_nat (length l) =? 0) with false by (symmetry; apply Z.eqb_neq; subst l; cbn [length]; lia).
    replace (Z.of_nat (length l) =? 1) with false by (symmetry; apply Z.eqb_neq; subst l; cbn [length]; lia).
    rewrite tr_index_n_nth by exact Hi.
    destruct (Z.ltb_spec i (Z.of_nat (length l))) as [Hlt|Hge].
    + destruct (nth_error l (Z.to_nat i)) as [x|] eqn:E.
      * cbn [bind]. destruct (x =? 0)%N; [reflexivity|]. destruct (x =? 1)%N; reflexivity.
      * apply nth_error_None in E. lia.
    + destruct (nth_error l (Z.to_nat i)) as [x|] eqn:E; [|reflexivity].
      assert (Z.to_nat i < length l)%nat by (apply nth_error_Some; congruence). lia.
Qed.

(** * keystore/v2/keystore/api/key.go *)
Lemma trans_KeyStateTransitionValid (a b : N) :
  KeyStateTransitionValid (Z.of_N a) (Z.of_N b) = Ok (KeystoreV2.transition_valid a b).
Proof.
  unfold KeyStateTransitionValid, KeystoreV2.transition_valid, KeyStates.key_transitions.
  cbn [existsb fst snd].
  repeat match goal with
  | |- context [(Z.of_N ?x =? ?c)%Z] =>
      let cn := eval vm_compute in (Z.to_N c) in
      replace (Z.of_N x =? c)%Z with (cn =? x)%N by (destruct (N.eqb_spec cn x); destruct (Z.eqb_spec (Z.of_N x) c); lia)
  end.
  destruct (1 =? a)%N eqn:A1; [apply N.eqb_eq in A1; subst a|];
  [|destruct (2 =? a)%N eqn:A2; [apply N.eqb_eq in A2; subst a|];
  [|destruct (3 =? a)%N eqn:A3; [apply N.eqb_eq in A3; subst a|];
  [|destruct (4 =? a)%N eqn:A4; [apply N.eqb_eq in A4; subst a|];
  [|destruct (5 =? a)%N eqn:A5; [apply N.eqb_eq in A5; subst a|]]]]];
  repeat match goal with |- context [(?c =? b)%N] => destruct (c =? b)%N end; reflexivity.
Qed.

(** * decryptor/mysql/base/utils.go: decoders *)
Lemma land_low_high a b k : (a < 2 ^ k)%N -> N.land a (b * 2 ^ k) = 0%N.
Proof.
  intros Ha. apply N.bits_inj_0. intros n. rewrite N.land_spec.
  destruct (N.lt_ge_cases n k) as [Hn|Hn].
  - rewrite N.mul_pow2_bits_low by exact Hn. apply andb_false_r.
  - destruct (N.eq_dec a 0) as [->|Hz]; [rewrite N.bits_0; reflexivity|].
    rewrite (N.bits_above_log2 a n); [reflexivity|].
    assert (N.log2 a < k)%N by (apply N.log2_lt_pow2; lia). lia.
Qed.

Lemma lor_add a b k : (a < 2 ^ k)%N -> N.lor a (b * 2 ^ k) = (a + b * 2 ^ k)%N.
Proof.
  intros Ha. rewrite <- N.lxor_lor by (apply land_low_high; exact Ha).
  symmetry. apply N.add_nocarry_lxor. apply land_low_high. exact Ha.
Qed.

Ltac pow2s := repeat match goal with |- context [(2 ^ ?k)%N] =>
  let v := eval vm_compute in (2 ^ k)%N in change (2 ^ k)%N with v end.
Ltac bnd := pow2s; lia.

Lemma idx_nth (data : bytes) i : (i < length data)%nat -> MysqlWire.idx data i = Ok (b2n (nth i data x00)).
Proof. intros H. unfold MysqlWire.idx. rewrite (nth_error_nth' data x00) by exact H. reflexivity. Qed.

Lemma gindex_lit (data : bytes) (i : Z) (n : nat) : Z.of_nat n = i -> (n < length data)%nat ->
  gindex i data = Ok (nth n data x00).
Proof. intros <- H. apply gindex_nat; exact H. Qed.

Lemma trans_LengthEncodedInt data : LengthEncodedInt data = h_lei data.
Proof.
  unfold LengthEncodedInt, h_lei, MysqlWire.lenenc_int, MysqlWire.E_MALFORMED.
  destruct data as [|b0 d1] eqn:Ed; [reflexivity|]. rewrite <- Ed.
  assert (H1 : (1 <= length data)%nat) by (subst data; cbn [length]; lia).
  replace (len data =? 0) with false by (symmetry; apply Z.eqb_neq; unfold len; lia).
  replace (length data =? 0)%nat with false by (symmetry; apply Nat.eqb_neq; lia).
  rewrite (gindex_lit data 0 0 eq_refl) by lia. rewrite (idx_nth data 0) by lia. cbn [bind res_map].
  set (t := nth 0 data x00).
  destruct (b2n t =? 251)%N; [reflexivity|].
  destruct (b2n t =? 252)%N.
  { replace (len data <? 3) with (length data <? 3)%nat
      by (unfold len; destruct (Nat.ltb_spec (length data) 3); destruct (Z.ltb_spec (Z.of_nat (length data)) 3); lia).
    destruct (Nat.ltb_spec (length data) 3) as [|H3]; [reflexivity|].
    rewrite (gindex_lit data 1 1 eq_refl), (gindex_lit data 2 2 eq_refl) by lia. cbn [MysqlWire.le_at].
    rewrite (idx_nth data 1), (idx_nth data 2) by lia. cbn [bind res_map].
    pose proof (b2n_lt (nth 1 data x00)). pose proof (b2n_lt (nth 2 data x00)).
    rewrite !N.shiftl_mul_pow2. rewrite !N.mod_small by bnd. rewrite lor_add by bnd.
    do 3 f_equal. bnd. }
  destruct (b2n t =? 253)%N.
  { replace (len data <? 4) with (length data <? 4)%nat
      by (unfold len; destruct (Nat.ltb_spec (length data) 4); destruct (Z.ltb_spec (Z.of_nat (length data)) 4); lia).
    destruct (Nat.ltb_spec (length data) 4) as [|H3]; [reflexivity|].
    rewrite (gindex_lit data 1 1 eq_refl), (gindex_lit data 2 2 eq_refl), (gindex_lit data 3 3 eq_refl) by lia. cbn [MysqlWire.le_at].
    rewrite (idx_nth data 1), (idx_nth data 2), (idx_nth data 3) by lia. cbn [bind res_map].
    pose proof (b2n_lt (nth 1 data x00)). pose proof (b2n_lt (nth 2 data x00)). pose proof (b2n_lt (nth 3 data x00)).
    rewrite !N.shiftl_mul_pow2. rewrite !N.mod_small by bnd.
    rewrite (lor_add (b2n (nth 1 data x00))) by bnd. rewrite lor_add by bnd.
    do 3 f_equal. bnd. }
  destruct (b2n t =? 254)%N.
  { replace (len data <? 9) with (length data <? 9)%nat
      by (unfold len; destruct (Nat.ltb_spec (length data) 9); destruct (Z.ltb_spec (Z.of_nat (length data)) 9); lia).
    destruct (Nat.ltb_spec (length data) 9) as [|H3]; [reflexivity|].
    rewrite (gindex_lit data 1 1 eq_refl), (gindex_lit data 2 2 eq_refl), (gindex_lit data 3 3 eq_refl), (gindex_lit data 4 4 eq_refl),
      (gindex_lit data 5 5 eq_refl), (gindex_lit data 6 6 eq_refl), (gindex_lit data 7 7 eq_refl), (gindex_lit data 8 8 eq_refl) by lia. cbn [MysqlWire.le_at].
    rewrite (idx_nth data 1), (idx_nth data 2), (idx_nth data 3), (idx_nth data 4),
      (idx_nth data 5), (idx_nth data 6), (idx_nth data 7), (idx_nth data 8) by lia. cbn [bind res_map].
    pose proof (b2n_lt (nth 1 data x00)). pose proof (b2n_lt (nth 2 data x00)). pose proof (b2n_lt (nth 3 data x00)).
    pose proof (b2n_lt (nth 4 data x00)). pose proof (b2n_lt (nth 5 data x00)). pose proof (b2n_lt (nth 6 data x00)).
    pose proof (b2n_lt (nth 7 data x00)). pose proof (b2n_lt (nth 8 data x00)).
    rewrite !N.shiftl_mul_pow2. rewrite !N.mod_small by bnd.
    rewrite (lor_add (b2n (nth 1 data x00))) by bnd.
    rewrite (lor_add _ (b2n (nth 3 data x00))) by bnd.
    rewrite (lor_add _ (b2n (nth 4 data x00))) by bnd.
    rewrite (lor_add _ (b2n (nth 5 data x00))) by bnd.
    rewrite (lor_add _ (b2n (nth 6 data x00))) by bnd.
    rewrite (lor_add _ (b2n (nth 7 data x00))) by bnd.
    rewrite (lor_add _ (b2n (nth 8 data x00))) by bnd.
    do 3 f_equal. bnd. }
  reflexivity.
Qed.

Lemma gslice_slice_z a b (data : bytes) : gslice a b data = MysqlWire.slice_z data a b.
Proof. reflexivity. Qed.

Lemma lenenc_window (data : bytes) (n : nat) (num : N) : go_len data -> (1 <= n <= length data)%nat ->
  wrap_int (len data - Z.of_nat n) = len data - Z.of_nat n /\
  u64_of_int (len data - Z.of_nat n) = N.of_nat (length data - n) /\
  ((N.of_nat (length data - n) <? num)%N = false ->
     int_of_u64 num = Z.of_N num /\ int_add (Z.of_nat n) (Z.of_N num) = Z.of_nat n + Z.of_N num /\
     wrap_int (Z.of_nat n + Z.of_N num - Z.of_N num) = Z.of_nat n).
Proof.
  intros HL Hn. unfold go_len, MAXALLOC, len in *.
  assert (W : wrap_int (Z.of_nat (length data) - Z.of_nat n) = Z.of_nat (length data) - Z.of_nat n)
    by (apply wrap_int_small; unfold TWO63; lia).
  split; [exact W|]. split.
  { rewrite u64_of_int_small by (unfold TWO64; lia). lia. }
  intros E. apply N.ltb_ge in E.
  assert (Hs : (num < 2 ^ 63)%N) by (change (2 ^ 63)%N with 9223372036854775808%N; lia).
  split; [apply MysqlWire.int_of_u64_small; exact Hs|].
  split; [unfold int_add; apply wrap_int_small; unfold TWO63; lia|].
  replace (Z.of_nat n + Z.of_N num - Z.of_N num) with (Z.of_nat n) by lia.
  apply wrap_int_small. unfold TWO63. lia.
Qed.

Lemma trans_LengthEncodedString data : go_len data -> LengthEncodedString data = h_les data.
Proof.
  intros HL. unfold LengthEncodedString, h_les, MysqlWire.lenenc_string, MysqlWire.E_EOF.
  rewrite trans_LengthEncodedInt. unfold h_lei.
  pose proof (MysqlWire.wire_lenenc_int_bounded data) as HB.
  destruct (MysqlWire.lenenc_int data) as [[[num isNull] n]|e|]; cbn [bind res_map]; [|reflexivity|reflexivity].
  destruct (HB num isNull n eq_refl) as [Hn _].
  destruct isNull; [reflexivity|].
  destruct (lenenc_window data n num HL Hn) as [W [U F]]. rewrite W, U.
  destruct (N.of_nat (length data - n) <? num)%N eqn:E; [reflexivity|].
  destruct (F eq_refl) as [I [A S]]. rewrite I, A, S.
  rewrite gslice_slice_z.
  replace (Z.of_nat n + Z.of_N num - Z.of_N num) with (Z.of_nat n) by lia.
  destruct (MysqlWire.slice_z data (Z.of_nat n) (Z.of_nat n + Z.of_N num)) as [v| |]; cbn [bind res_map opt_bytes]; [|reflexivity|reflexivity].
  do 2 f_equal. lia.
Qed.

Lemma trans_SkipLengthEncodedString data : go_len data -> SkipLengthEncodedString data = h_sles data.
Proof.
  intros HL. unfold SkipLengthEncodedString, h_sles, MysqlWire.skip_lenenc_string, MysqlWire.E_EOF.
  rewrite trans_LengthEncodedInt. unfold h_lei.
  pose proof (MysqlWire.wire_lenenc_int_bounded data) as HB.
  destruct (MysqlWire.lenenc_int data) as [[[num isNull] n]|e|]; cbn [bind res_map]; [|reflexivity|reflexivity].
  destruct (HB num isNull n eq_refl) as [Hn _].
  destruct (num <? 1)%N; [reflexivity|].
  destruct (lenenc_window data n num HL Hn) as [W [U F]]. rewrite W, U.
  destruct (N.of_nat (length data - n) <? num)%N eqn:E; [reflexivity|].
  destruct (F eq_refl) as [I [A S]]. rewrite I, A. cbn [res_map]. f_equal. lia.
Qed.

(** * transfer: the never-panics theorems of the hand models hold for the regenerated definitions *)
Lemma erase_err_panic {A} (r s : res A) : erase_err r = erase_err s -> s <> Panic -> r <> Panic.
Proof. destruct r, s; cbn; congruence. Qed.

Lemma trans_LengthEncodedInt_total data : LengthEncodedInt data <> Panic.
Proof.
  rewrite trans_LengthEncodedInt. unfold h_lei. pose proof (MysqlWire.wire_lenenc_int_total data) as H.
  destruct (MysqlWire.lenenc_int data) as [[[? ?] ?]| |]; cbn [res_map]; congruence.
Qed.

Lemma trans_LengthEncodedString_total data : go_len data -> LengthEncodedString data <> Panic.
Proof.
  intros HL. rewrite trans_LengthEncodedString by exact HL. unfold h_les.
  assert (HS : (N.of_nat (length data) < 2 ^ 63)%N)
    by (change (2 ^ 63)%N with 9223372036854775808%N; unfold go_len, MAXALLOC, len in HL; lia).
  pose proof (MysqlWire.wire_lenenc_string_total data HS) as H.
  destruct (MysqlWire.lenenc_string data) as [[? ?]| |]; cbn [res_map]; congruence.
Qed.

Lemma trans_SkipLengthEncodedString_total data : go_len data -> SkipLengthEncodedString data <> Panic.
Proof.
  intros HL. rewrite trans_SkipLengthEncodedString by exact HL. unfold h_sles.
  pose proof (MysqlWire.wire_skip_lenenc_string_total data) as H.
  destruct (MysqlWire.skip_lenenc_string data); cbn [res_map]; congruence.
Qed.

Lemma trans_ExtractAcraStruct_total data : ExtractAcraStruct data <> Panic.
Proof. eapply erase_err_panic; [apply trans_ExtractAcraStruct| apply Proofs.EnvelopeChecked.as_extract_checked_total]. Qed.

Lemma trans_ValidateAcraStructLength_total data : ValidateAcraStructLength data <> Panic.
Proof.
  eapply erase_err_panic; [apply trans_ValidateAcraStructLength|]. unfold h_validate.
  pose proof (Proofs.EnvelopeChecked.as_validate_checked_total data) as H.
  destruct (as_validate_checked data) as [[|]| |]; congruence.
Qed.

Lemma trans_ExtractAcraBlockFromData_total data : go_len data -> ExtractAcraBlockFromData data <> Panic.
Proof.
  intros HL. eapply erase_err_panic; [apply trans_ExtractAcraBlockFromData; exact HL| apply Proofs.EnvelopeChecked.ab_extract_checked_total].
Qed.

Lemma trans_getKeyEncryptionKeyID_total b : AcraBlock_getKeyEncryptionKeyID b <> Panic.
Proof. eapply erase_err_panic; [apply trans_AcraBlock_getKeyEncryptionKeyID| apply Proofs.EnvelopeChecked.ab_block_key_id_checked_total]. Qed.

(** the C12 round trip, on the regenerated encoder and decoder *)
Lemma trans_lenenc_roundtrip n rest : (n < 2 ^ 64)%N ->
  match PutLengthEncodedInt n with
  | Ok enc => LengthEncodedInt (enc ++ rest) = Ok (n, false, len enc)
  | _ => False
  end.
Proof.
  intros Hn. rewrite trans_PutLengthEncodedInt by exact Hn. rewrite trans_LengthEncodedInt. unfold h_lei.
  rewrite (MysqlWire.mysql_lenenc_roundtrip n rest Hn). reflexivity.
Qed.
