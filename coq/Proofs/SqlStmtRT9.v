(** C13_statements, round trip, part 9: select statements (tails, unions, parentheses) and table expressions. *)
From Acra Require Import Lib.Bytes Gen.Prec Gen.SqlWords Model.SqlStmt Model.SqlStmtParse
  Proofs.SqlStmtUnfold Proofs.SqlStmtFacts Proofs.SqlStmtEqns Proofs.SqlStmtHeads Proofs.SqlStmtRT1 Proofs.SqlStmtRT2 Proofs.SqlStmtRT3
  Proofs.SqlStmtRT4 Proofs.SqlStmtRT5 Proofs.SqlStmtRT6 Proofs.SqlStmtRT7 Proofs.SqlStmtRT8.
From Coq Require Import Arith Lia.

Section RT.
Variable pg : bool.
Notation Cst := (Cst pg). Notation Pe := (Pe pg). Notation Pxs := (Pxs pg). Notation Pses := (Pses pg).
Notation Ssel := (Ssel pg). Notation Bsel := (Bsel pg). Notation Psel := (Psel pg). Notation Poe := (Poe pg).
Notation Pos := (Pos pg). Notation Plm := (Plm pg). Notation Pts := (Pts pg).
Notation Tst := (Tst pg). Notation Fst := (Fst pg). Notation Pt := (Pt pg). Notation Pjc := (Pjc pg).

Ltac KL := unfold K in *; lia.
Ltac fuel f := destruct f as [|f]; [KL|].
Ltac napp := repeat (progress (rewrite <- ?app_assoc; cbn [app])).

(* ---------- select statements ---------- *)
Lemma tails_head_bstop s ob lm lk rest :
  selstop (with_tails s ob lm lk) rest = true -> is_select s = true -> no_tails s = true ->
  bstop s (print_orders pg true ob ++ print_lim pg lm ++ lock_toks lk ++ rest) = true.
Proof.
  intros Hst Hs Hn. destruct s as [d xs from wh gb hv ob0 lm0 lk0| |]; try discriminate.
  cbn [no_tails] in Hn. destruct ob0; try discriminate. destruct lm0; try discriminate. destruct lk0; try discriminate.
  destruct ob as [|x dd os]; [|rewrite print_orders_true_cons; reflexivity].
  rewrite print_orders_ONil. cbn [app].
  destruct lm; try (rewrite ?print_lim_LOnly, ?print_lim_LOffset, ?print_lim_LComma, ?print_lim_LAll, ?print_lim_LAllOffset; reflexivity).
  rewrite print_lim_LNone. cbn [app]. destruct lk; try reflexivity. cbn [lock_toks app].
  cbn [with_tails] in Hst.
  destruct rest as [|[| | | |p|w|] ?]; try discriminate; try reflexivity; [destruct p|destruct w]; try discriminate; try reflexivity.
  cbn [selstop] in Hst. unfold ends_open in Hst. cbn [bstop base_open].
  destruct wh; destruct gb; destruct hv; try reflexivity; exact Hst.
Qed.

Lemma case_Select d xs from wh gb hv ob lm lk :
  Pses xs -> Pts from -> Poe wh -> Pxs gb -> Poe hv -> Pos ob -> Plm lm -> Psel (Select d xs from wh gb hv ob lm lk).
Proof.
  intros Pxs' Pts' Pwh Pgb Phv Pob Plm'. split; [|split; [|exact I]].
  - intros Hwf rest R a Hst Hk f Hf.
    assert (Hwb : wf_sel pg (Select d xs from wh gb hv ONil LNone LkNone) = true).
    { rewrite wf_sel_Select in *. split_andb. rewrite wf_orders_ONil, wf_lim_LNone.
      repeat (apply andb_true_intro; split); assumption || reflexivity. }
    rewrite wf_sel_Select in Hwf. split_andb. rewrite need_sel_Select in Hf.
    rewrite sel_print. napp. destruct f as [|[|f]]; try KL. rewrite psel_S.
    replace (expect_p PLParen (print_sel pg (Select d xs from wh gb hv ONil LNone LkNone) ++ print_orders pg true ob ++ print_lim pg lm ++ lock_toks lk ++ rest))
      with (@None (list tok)) by (rewrite base_print; reflexivity).
    rewrite (base_ok pg d xs from wh gb hv _ (S f) Pxs' Pts' Pwh Pgb Phv Hwb).
    + rewrite (tails_ok pg ob lm lk rest (S f) Pob Plm') by first [assumption | eapply selstop_tl; exact Hst | KL].
      cbn [with_tails]. apply Hk. KL.
    + apply (tails_head_bstop (Select d xs from wh gb hv ONil LNone LkNone) ob lm lk rest); [exact Hst|reflexivity|reflexivity].
    + rewrite need_sel_Select. rewrite need_orders_ONil, need_lim_LNone. KL.
  - intros Hwf _ Hn rest Hst f Hf. cbn [no_tails] in Hn.
    destruct ob; try discriminate. destruct lm; try discriminate. destruct lk; try discriminate.
    apply base_ok; try assumption. KL.
Qed.

Lemma sel_rhs_head r : wf_sel pg r = true -> no_tails r = true ->
  (exists r0, print_sel pg r = TW W_select :: r0 /\ is_select r = true) \/ (exists s, r = ParenSel s).
Proof.
  destruct r as [d xs from wh gb hv ob lm lk| |s]; try discriminate; intros _ _.
  - left. rewrite print_sel_Select. eexists. split; reflexivity.
  - right. eexists. reflexivity.
Qed.

Lemma utype_head_toks ty ts :
  (forall (A : Type) (X Y Z : A), match ts with TW W_all :: _ => X | TW W_distinct :: _ => Y | _ => Z end = Z) ->
  exists ts0, ut_toks ty ++ ts = TW W_union :: ts0 /\ utype_head ts0 = (ty, ts).
Proof.
  intros H. destruct ty; cbn [ut_toks app]; eexists; (split; [reflexivity|]); try reflexivity.
  unfold utype_head. destruct ts as [|[| | | | |w|] ?]; try reflexivity. destruct w; try reflexivity.
  - specialize (H bool true true false). discriminate H.
  - specialize (H bool true true false). discriminate H.
Qed.

(** a parenthesised select statement after its '(' *)
Lemma paren_ok s rest f :
  Ssel s -> wf_sel pg s = true -> is_paren s = false -> S (S (need_sel s)) <= f ->
  psel pg f (print_sel pg s ++ TP PRParen :: rest) = Some (s, TP PRParen :: rest).
Proof.
  intros Ss Hwf Hp Hf.
  apply (Ss Hwf (TP PRParen :: rest) (Some (s, TP PRParen :: rest)) 1); [reflexivity| |lia].
  intros f0 Hf0. destruct f0; [lia|]. rewrite punion_S. cbn [expect_w]. rewrite Hp. reflexivity.
Qed.

Lemma case_Union ty l r ob lm lk : Psel l -> Psel r -> Pos ob -> Plm lm -> Psel (Union ty l r ob lm lk).
Proof.
  intros [Sl _] [Sr [Br Rr]] Pob Plm'. split; [|split; [intros _ H; discriminate H|exact I]].
  intros Hwf rest R a Hst Hk f Hf. rewrite wf_sel_Union in Hwf. split_andb. rewrite need_sel_Union in Hf.
  rewrite print_sel_Union. napp.
  assert (Hrh : forall (A : Type) (X Y Z : A) tl,
             match print_sel pg r ++ tl with TW W_all :: _ => X | TW W_distinct :: _ => Y | _ => Z end = Z).
  { intros A X Y Z tl. destruct (sel_rhs_head r ltac:(assumption) ltac:(assumption)) as [[r0 [E _]]|[s ->]].
    - rewrite E. reflexivity.
    - rewrite print_sel_ParenSel. reflexivity. }
  destruct (utype_head_toks ty (print_sel pg r ++ print_orders pg true ob ++ print_lim pg lm ++ lock_toks lk ++ rest)
              (fun A X Y Z => Hrh A X Y Z _)) as [ts0 [E Hu]].
  rewrite E.
  apply (Sl ltac:(assumption) (TW W_union :: ts0) R (a + need_sel r + need_orders ob + need_lim lm + K + 4)); [reflexivity| |KL].
  intros f0 Hf0. destruct f0 as [|[|f0]]; try KL. rewrite punion_S, expect_w_hit, Hu.
  assert (Htl : tlstop rest = true) by (eapply selstop_tl; exact Hst).
  destruct (sel_rhs_head r ltac:(assumption) ltac:(assumption)) as [[r0 [Er Hsel]]|[s ->]].
  - replace (expect_p PLParen (print_sel pg r ++ print_orders pg true ob ++ print_lim pg lm ++ lock_toks lk ++ rest))
      with (@None (list tok)) by (rewrite Er; reflexivity).
    rewrite (Br ltac:(assumption) Hsel ltac:(assumption)).
    + rewrite (tails_ok pg ob lm lk rest (S f0) Pob Plm') by first [assumption | KL]. apply Hk. KL.
    + destruct r as [d xs from wh gb hv ob0 lm0 lk0| |]; try discriminate.
      match goal with H : no_tails _ = true |- _ => cbn [no_tails] in H; destruct ob0; try discriminate; destruct lm0; try discriminate; destruct lk0; try discriminate end.
      apply (tails_head_bstop (Select d xs from wh gb hv ONil LNone LkNone) ob lm lk rest); [|reflexivity|reflexivity].
      cbn [with_tails].
      (* a following ON: the union ends with this base select *)
      destruct rest as [|[| | | |p|w|] ?]; try discriminate; try reflexivity; [destruct p|destruct w]; try discriminate; try reflexivity.
      cbn [selstop] in *. unfold ends_open in *.
      destruct wh; destruct gb; destruct hv; destruct ob; destruct lm; destruct lk; try reflexivity; try exact Hst.
    + KL.
  - rewrite print_sel_ParenSel. napp. rewrite (expect_p_hit PLParen).
    match goal with H : wf_sel pg (ParenSel s) = true |- _ => rewrite wf_sel_ParenSel in H end. split_andb. negb_hyps.
    rewrite need_sel_ParenSel in *.
    cbn [SqlStmtRT1.Rsel] in Rr.
    rewrite (paren_ok s _ (S f0) Rr) by first [assumption | KL]. rewrite (expect_p_hit PRParen).
    rewrite (tails_ok pg ob lm lk rest (S f0) Pob Plm') by first [assumption | KL]. apply Hk. KL.
Qed.

Lemma case_ParenSel s : Psel s -> Psel (ParenSel s).
Proof.
  intros [Ss _]. split; [|split; [intros _ H; discriminate H|exact Ss]].
  intros Hwf rest R a Hst Hk f Hf. rewrite wf_sel_ParenSel in Hwf. split_andb. negb_hyps. rewrite need_sel_ParenSel in Hf.
  rewrite print_sel_ParenSel. napp. destruct f as [|[|f]]; try KL. rewrite psel_S, (expect_p_hit PLParen).
  rewrite (paren_ok s rest (S f) Ss) by first [assumption | KL]. rewrite (expect_p_hit PRParen). apply Hk. KL.
Qed.
End RT.
