(** C06 — keystore v1 (uncached) refines the key specification: simulation by induction over the
    operation history with the abstraction [v1_abs] from the file tree to version lists. *)
From Coq Require Import List NArith ZArith Bool Lia.
From Acra Require Import Lib.Bytes Lib.Outcome Model.KeySpec Model.KeystoreV1 Proofs.KeySpec.
Import ListNotations.
Local Open Scope N_scope.

(** * names *)
Lemma part_eqb_eq a b : part_eqb a b = true <-> a = b.
Proof. destruct a, b; cbn; split; intro H; try reflexivity; discriminate. Qed.

Lemma fname_eqb_eq a b : fname_eqb a b = true <-> a = b.
Proof.
  destruct a as [sa pa], b as [sb pb]. unfold fname_eqb. cbn [fst snd].
  rewrite andb_true_iff, slot_eqb_eq, part_eqb_eq. split.
  - intros [H1 H2]. subst. reflexivity.
  - intro H. inversion H. auto.
Qed.
Lemma fname_eqb_refl a : fname_eqb a a = true.
Proof. apply fname_eqb_eq. reflexivity. Qed.
Lemma fname_eqb_neq a b : fname_eqb a b = false <-> a <> b.
Proof.
  split.
  - intros H E. apply fname_eqb_eq in E. congruence.
  - intro H. destruct (fname_eqb a b) eqn:E; [apply fname_eqb_eq in E; contradiction | reflexivity].
Qed.
Lemma fupd_same fs f e : fupd fs f e f = e.
Proof. unfold fupd. rewrite fname_eqb_refl. reflexivity. Qed.
Lemma fupd_other fs f e x : x <> f -> fupd fs f e x = fs x.
Proof. intro H. unfold fupd. apply fname_eqb_neq in H. rewrite H. reflexivity. Qed.

(** * history directories: ascending, distinct time stamps *)
Fixpoint asc (l : list (N * ord)) : Prop :=
  match l with
  | [] => True
  | e :: r => Forall (fun x => fst e < fst x) r /\ asc r
  end.

Lemma insert_ts_append ts o l : Forall (fun e => fst e < ts) l -> insert_ts ts o l = Some (l ++ [(ts, o)]).
Proof.
  induction l as [|[t x] r IH]; intro H; cbn [insert_ts app].
  - reflexivity.
  - inversion H as [|? ? H1 H2]; subst. cbn [fst] in H1.
    destruct (ts <? t) eqn:E1; [apply N.ltb_lt in E1; lia|].
    destruct (ts =? t) eqn:E2; [apply N.eqb_eq in E2; lia|].
    rewrite (IH H2). reflexivity.
Qed.

Lemma asc_app_last l ts o : asc l -> Forall (fun e => fst e < ts) l -> asc (l ++ [(ts, o)]).
Proof.
  induction l as [|e r IH]; intros Ha Hf; cbn [app asc].
  - split; [constructor | exact I].
  - destruct Ha as [Ha1 Ha2]. inversion Hf as [|? ? H1 H2]; subst. split.
    + apply Forall_app. split; [exact Ha1 | constructor; [exact H1 | constructor]].
    + apply IH; assumption.
Qed.

Lemma remove_nth_cons {A} k (a : A) l : remove_nth (S k) (a :: l) = a :: remove_nth k l.
Proof. reflexivity. Qed.
Lemma remove_nth_0 {A} (a : A) l : remove_nth 0 (a :: l) = l.
Proof. reflexivity. Qed.

Lemma remove_nth_incl {A} k (l : list A) x : In x (remove_nth k l) -> In x l.
Proof.
  revert k. induction l as [|a r IH]; intros k H.
  - destruct k; exact H.
  - destruct k as [|k].
    + rewrite remove_nth_0 in H. right. exact H.
    + rewrite remove_nth_cons in H. destruct H as [H|H]; [left; exact H | right; eapply IH; exact H].
Qed.

Lemma Forall_remove_nth {A} (P : A -> Prop) k l : Forall P l -> Forall P (remove_nth k l).
Proof.
  intro H. apply Forall_forall. intros x Hx. apply remove_nth_incl in Hx.
  rewrite Forall_forall in H. auto.
Qed.

Lemma asc_remove_nth k l : asc l -> asc (remove_nth k l).
Proof.
  revert k. induction l as [|e r IH]; intros k Ha.
  - destruct k; exact I.
  - destruct Ha as [Ha1 Ha2]. destruct k as [|k].
    + rewrite remove_nth_0. exact Ha2.
    + rewrite remove_nth_cons. cbn [asc]. split; [apply Forall_remove_nth; exact Ha1 | apply IH; exact Ha2].
Qed.

Lemma asc_find l t o : asc l -> In (t, o) l -> find (fun e => fst e =? t) l = Some (t, o).
Proof.
  induction l as [|e r IH]; intros Ha Hin; [contradiction|].
  destruct Ha as [Ha1 Ha2]. cbn [find]. destruct Hin as [Hin|Hin].
  - subst e. cbn [fst]. rewrite N.eqb_refl. reflexivity.
  - destruct (fst e =? t) eqn:E.
    + apply N.eqb_eq in E. rewrite Forall_forall in Ha1. specialize (Ha1 _ Hin). cbn [fst] in Ha1. lia.
    + apply IH; assumption.
Qed.

Lemma rev_remove_nth {A} (l : list A) (k : nat) : (k < length l)%nat ->
  rev (remove_nth k l) = remove_nth (length l - 1 - k) (rev l).
Proof.
  intro Hk. unfold remove_nth. rewrite rev_app_distr, firstn_rev, skipn_rev.
  replace (length l - (length l - 1 - k))%nat with (S k) by lia.
  replace (length l - S (length l - 1 - k))%nat with k by lia.
  reflexivity.
Qed.

Lemma map_remove_nth {A B} (g : A -> B) (l : list A) k : map g (remove_nth k l) = remove_nth k (map g l).
Proof. unfold remove_nth. rewrite map_app, firstn_map, skipn_map. reflexivity. Qed.

Lemma rev_map_remove_nth {A B} (g : A -> B) (l : list A) (k : nat) : (k < length l)%nat ->
  rev (map g (remove_nth k l)) = remove_nth (length l - 1 - k) (rev (map g l)).
Proof.
  intro Hk. rewrite map_remove_nth, rev_remove_nth by (rewrite map_length; exact Hk).
  rewrite map_length. reflexivity.
Qed.

(** * abstraction and invariant *)
Definition v1_abs (fs : fsT) (s : slot) : sslot :=
  {| s_cur := f_cur (fs (s, Priv)); s_rot := rev (map snd (f_old (fs (s, Priv)))) |}.

Definition hist_ok (lo : N) (l : list (N * ord)) : Prop := asc l /\ Forall (fun e => fst e <= lo) l.

Record Inv (lo : N) (fs : fsT) (sp : sstate) : Prop := {
  inv_abs : forall s : slot, sp s = v1_abs fs s;
  inv_hist : forall f : fname, hist_ok lo (f_old (fs f));
  inv_pair : forall s : slot, is_pair (fst s) = true ->
     (f_cur (fs (s, Pub)) = None <-> f_cur (fs (s, Priv)) = None)
     /\ length (f_old (fs (s, Pub))) = length (f_old (fs (s, Priv)))
}.

Lemma hist_ok_weaken lo lo' l : lo <= lo' -> hist_ok lo l -> hist_ok lo' l.
Proof.
  intros Hle [Ha Hf]. split; [exact Ha|]. eapply Forall_impl; [|exact Hf]. cbn beta. intros e He. lia.
Qed.

Lemma hist_ok_below lo ts l : lo < ts -> hist_ok lo l -> Forall (fun e => fst e < ts) l.
Proof. intros Hlt [_ Hf]. eapply Forall_impl; [|exact Hf]. cbn beta. intros e He. lia. Qed.

Definition backup (e : fentry) (ts : N) : list (N * ord) :=
  match f_cur e with None => f_old e | Some c0 => f_old e ++ [(ts, c0)] end.

Lemma hist_ok_backup lo lo' ts e : lo < ts -> ts <= lo' -> hist_ok lo (f_old e) -> hist_ok lo' (backup e ts).
Proof.
  intros H1 H2 H. unfold backup. destruct (f_cur e) as [c0|].
  - pose proof (hist_ok_below _ _ _ H1 H) as Hb. destruct H as [Ha Hf]. split.
    + apply asc_app_last; assumption.
    + apply Forall_app. split.
      * eapply Forall_impl; [|exact Hf]. cbn beta. intros x Hx. lia.
      * constructor; [cbn [fst]; exact H2 | constructor].
  - apply (hist_ok_weaken lo); [lia | exact H].
Qed.

Lemma rev_map_backup e ts :
  rev (map snd (backup e ts)) = match f_cur e with Some c0 => c0 :: rev (map snd (f_old e)) | None => rev (map snd (f_old e)) end.
Proof.
  unfold backup. destruct (f_cur e) as [c0|]; [|reflexivity].
  rewrite map_app, rev_app_distr. reflexivity.
Qed.

(** * the uncached keystore, simplified *)
Definition mk (fs : fsT) (c : cacheT) : v1state := {| v_fs := fs; v_cache := c |}.

Lemma read_key_nc fs c f p :
  read_key NoCache (mk fs c) f p
  = (mk fs c, match file_content fs f p with None => Err E_GENERIC | Some o => Ok o end).
Proof.
  unfold read_key, mk. cbn [cget cadd v_cache v_fs with_cache].
  destruct (file_content fs f p); reflexivity.
Qed.

Lemma hist_names_nc fs c f : hist_names NoCache (mk fs c) f = (mk fs c, hist_paths fs f).
Proof. reflexivity. Qed.

Lemma read_keys_nc_olds fs c f l :
  asc (f_old (fs f)) -> incl l (f_old (fs f)) ->
  read_keys NoCache (mk fs c) f (map (fun e => POld (fst e)) l) = (mk fs c, Ok (map snd l)).
Proof.
  intros Ha. induction l as [|[t o] r IH]; intro Hin; cbn [map read_keys].
  - reflexivity.
  - rewrite read_key_nc. cbn [file_content fst].
    rewrite (asc_find _ t o Ha) by (apply Hin; left; reflexivity).
    cbn [option_map snd]. rewrite IH by (intros x Hx; apply Hin; right; exact Hx). reflexivity.
Qed.

Lemma all_nc fs c s :
  asc (f_old (fs (s, Priv))) ->
  v1_step NoCache (mk fs c) (All s)
  = (mk fs c, match f_cur (fs (s, Priv)) with
              | None => Err E_GENERIC
              | Some o => Ok (o :: rev (map snd (f_old (fs (s, Priv)))))
              end).
Proof.
  intro Ha. cbn [v1_step]. rewrite hist_names_nc. unfold hist_paths. cbn [read_keys].
  rewrite read_key_nc. cbn [file_content]. destruct (f_cur (fs (s, Priv))) as [o|]; [|reflexivity].
  rewrite <- map_rev. rewrite (read_keys_nc_olds fs c (s, Priv) (rev (f_old (fs (s, Priv)))) Ha).
  - rewrite map_rev. reflexivity.
  - intros x Hx. apply in_rev. exact Hx.
Qed.

Lemma write_nc fs c f ts o :
  Forall (fun e => fst e < ts) (f_old (fs f)) ->
  write_key_file NoCache (mk fs c) f ts o
  = Ok (mk (fupd fs f {| f_cur := Some o; f_old := backup (fs f) ts |}) c).
Proof.
  intro H. unfold write_key_file, backup, mk. cbn [v_fs v_cache cadd].
  destruct (f_cur (fs f)) as [c0|].
  - rewrite (insert_ts_append _ _ _ H). reflexivity.
  - reflexivity.
Qed.

Lemma priv_neq_pub (s s' : slot) : ((s, Pub) : fname) <> (s', Priv).
Proof. intro H. inversion H. Qed.
Lemma pub_neq_priv (s s' : slot) : ((s, Priv) : fname) <> (s', Pub).
Proof. intro H. inversion H. Qed.
Lemma other_slot_neq (s s' : slot) (p q : part) : s' <> s -> ((s', p) : fname) <> (s, q).
Proof. intros H E. inversion E. contradiction. Qed.

Lemma is_pair_destroy_both k : is_pair k = true -> destroy_both k = true.
Proof. destruct k; cbn; intro H; try reflexivity; discriminate. Qed.

(** frame description of what a mutator did to the file tree *)
Record frame (fs fs' : fsT) (s : slot) (eP : fentry) (eU : fentry) : Prop := {
  fr_priv : fs' (s, Priv) = eP;
  fr_pub : fs' (s, Pub) = eU;
  fr_other : forall s' p, s' <> s -> fs' (s', p) = fs (s', p)
}.

(** * generate / rotate *)
Lemma gen_nc lo fs c sp s o t1 t2 :
  Inv lo fs sp -> lo < t1 -> t1 < t2 ->
  exists fs',
    v1_step NoCache (mk fs c) (Gen s o t1 t2) = (mk fs' c, Ok [])
    /\ frame fs fs' s {| f_cur := Some o; f_old := backup (fs (s, Priv)) t1 |}
             (if is_pair (fst s) then {| f_cur := Some o; f_old := backup (fs (s, Pub)) t2 |} else fs (s, Pub)).
Proof.
  intros HI H1 H2. cbn [v1_step].
  rewrite write_nc by (apply (hist_ok_below lo); [exact H1 | apply (inv_hist _ _ _ HI)]).
  destruct (is_pair (fst s)) eqn:Ep.
  - fold (mk (fupd fs (s, Priv) {| f_cur := Some o; f_old := backup (fs (s, Priv)) t1 |}) c).
    rewrite write_nc.
    + eexists. split; [reflexivity|]. split.
      * cbn [v_fs mk]. rewrite fupd_other by apply pub_neq_priv. apply fupd_same.
      * cbn [v_fs mk]. rewrite fupd_same. rewrite fupd_other by apply priv_neq_pub. reflexivity.
      * intros s' p Hs. cbn [v_fs mk]. rewrite !fupd_other by (apply other_slot_neq; exact Hs). reflexivity.
    + rewrite fupd_other by apply priv_neq_pub.
      apply (hist_ok_below lo); [lia | apply (inv_hist _ _ _ HI)].
  - exists (fupd fs (s, Priv) {| f_cur := Some o; f_old := backup (fs (s, Priv)) t1 |}). split.
    + destruct (gen_caches (fst s)); reflexivity.
    + split.
      * apply fupd_same.
      * apply fupd_other. apply priv_neq_pub.
      * intros s' p Hs. apply fupd_other. apply other_slot_neq. exact Hs.
Qed.

Lemma fname_cases (f : fname) (s : slot) : f = (s, Priv) \/ f = (s, Pub) \/ (exists s' p, f = (s', p) /\ s' <> s).
Proof.
  destruct f as [s' p]. destruct (slot_eqb s' s) eqn:E.
  - apply slot_eqb_eq in E. subst s'. destruct p; [left | right; left]; reflexivity.
  - right. right. exists s', p. split; [reflexivity | apply slot_eqb_neq; exact E].
Qed.

Lemma gen_inv lo fs fs' sp s o t1 t2 :
  Inv lo fs sp -> lo < t1 -> t1 < t2 ->
  frame fs fs' s {| f_cur := Some o; f_old := backup (fs (s, Priv)) t1 |}
        (if is_pair (fst s) then {| f_cur := Some o; f_old := backup (fs (s, Pub)) t2 |} else fs (s, Pub)) ->
  Inv t2 fs' (fst (spec_step true sp (Gen s o t1 t2))).
Proof.
  intros HI H1 H2 [FP FU FO]. cbn [spec_step fst]. constructor.
  - intro s'. destruct (slot_eqb s' s) eqn:E.
    + apply slot_eqb_eq in E. subst s'. rewrite supd_same. unfold v1_abs. rewrite FP. cbn [f_cur f_old].
      rewrite rev_map_backup. rewrite (inv_abs _ _ _ HI s). unfold v1_abs. cbn [s_cur s_rot]. reflexivity.
    + apply slot_eqb_neq in E. rewrite supd_other by exact E. rewrite (inv_abs _ _ _ HI s').
      unfold v1_abs. rewrite (FO s' Priv E). reflexivity.
  - intro f. destruct (fname_cases f s) as [Hf|[Hf|[s' [p [Hf Hs]]]]]; subst f.
    + rewrite FP. cbn [f_old]. apply (hist_ok_backup lo); [exact H1 | lia | apply (inv_hist _ _ _ HI)].
    + rewrite FU. destruct (is_pair (fst s)).
      * cbn [f_old]. apply (hist_ok_backup lo); [lia | lia | apply (inv_hist _ _ _ HI)].
      * apply (hist_ok_weaken lo); [lia | apply (inv_hist _ _ _ HI)].
    + rewrite (FO s' p Hs). apply (hist_ok_weaken lo); [lia | apply (inv_hist _ _ _ HI)].
  - intros s' Hp. destruct (slot_eqb s' s) eqn:E.
    + apply slot_eqb_eq in E. subst s'. rewrite FP, FU, Hp. cbn [f_cur f_old].
      destruct (inv_pair _ _ _ HI s Hp) as [Hc Hl]. split.
      * split; discriminate.
      * unfold backup. destruct (f_cur (fs (s, Pub))) as [cu|] eqn:Eu; destruct (f_cur (fs (s, Priv))) as [cp|] eqn:Epv.
        -- rewrite !app_length. cbn [length]. lia.
        -- destruct Hc as [_ Hc]. specialize (Hc eq_refl). discriminate.
        -- destruct Hc as [Hc _]. specialize (Hc eq_refl). discriminate.
        -- exact Hl.
    + apply slot_eqb_neq in E. rewrite !(FO s' _ E). apply (inv_pair _ _ _ HI s' Hp).
Qed.

(** * destroy current *)
Lemma destroycur_nc fs c s :
  exists fs' c',
    v1_step NoCache (mk fs c) (DestroyCur s) = (mk fs' c', Ok [])
    /\ frame fs fs' s {| f_cur := None; f_old := f_old (fs (s, Priv)) |}
             (if destroy_both (fst s) then {| f_cur := None; f_old := f_old (fs (s, Pub)) |} else fs (s, Pub)).
Proof.
  cbn [v1_step]. destruct (destroy_both (fst s)) eqn:Ed.
  - eexists. eexists. split; [reflexivity|]. unfold remove_cur. split.
    + rewrite fupd_other by apply pub_neq_priv. apply fupd_same.
    + rewrite fupd_same. rewrite fupd_other by apply priv_neq_pub. reflexivity.
    + intros s' p Hs. rewrite !fupd_other by (apply other_slot_neq; exact Hs). reflexivity.
  - eexists. eexists. split; [reflexivity|]. unfold remove_cur. split.
    + apply fupd_same.
    + apply fupd_other. apply priv_neq_pub.
    + intros s' p Hs. apply fupd_other. apply other_slot_neq. exact Hs.
Qed.

Lemma destroycur_inv lo fs fs' sp s :
  Inv lo fs sp ->
  frame fs fs' s {| f_cur := None; f_old := f_old (fs (s, Priv)) |}
        (if destroy_both (fst s) then {| f_cur := None; f_old := f_old (fs (s, Pub)) |} else fs (s, Pub)) ->
  Inv lo fs' (fst (spec_step true sp (DestroyCur s))).
Proof.
  intros HI [FP FU FO]. cbn [spec_step fst]. constructor.
  - intro s'. destruct (slot_eqb s' s) eqn:E.
    + apply slot_eqb_eq in E. subst s'. rewrite supd_same. unfold v1_abs. rewrite FP. cbn [f_cur f_old].
      rewrite (inv_abs _ _ _ HI s). reflexivity.
    + apply slot_eqb_neq in E. rewrite supd_other by exact E. rewrite (inv_abs _ _ _ HI s').
      unfold v1_abs. rewrite (FO s' Priv E). reflexivity.
  - intro f. destruct (fname_cases f s) as [Hf|[Hf|[s' [p [Hf Hs]]]]]; subst f.
    + rewrite FP. cbn [f_old]. apply (inv_hist _ _ _ HI).
    + rewrite FU. destruct (destroy_both (fst s)); [cbn [f_old]|]; apply (inv_hist _ _ _ HI).
    + rewrite (FO s' p Hs). apply (inv_hist _ _ _ HI).
  - intros s' Hp. destruct (slot_eqb s' s) eqn:E.
    + apply slot_eqb_eq in E. subst s'. rewrite FP, FU, (is_pair_destroy_both _ Hp). cbn [f_cur f_old].
      split; [split; reflexivity | apply (inv_pair _ _ _ HI s Hp)].
    + apply slot_eqb_neq in E. rewrite !(FO s' _ E). apply (inv_pair _ _ _ HI s' Hp).
Qed.

(** * destroy rotated by index *)
Definition rot_bad (n : nat) (i : Z) : bool := (Nat.eqb n 0 || (i <? 2)%Z || (Z.of_nat n + 1 <? i)%Z)%bool.

Lemma rot_bad_pos n i : rot_bad n i = true -> rot_pos n i = None.
Proof.
  unfold rot_bad, rot_pos. intro H.
  destruct ((2 <=? i)%Z && (i <=? Z.of_nat n + 1)%Z) eqn:E; [|reflexivity].
  apply andb_true_iff in E. destruct E as [E1 E2]. apply Z.leb_le in E1. apply Z.leb_le in E2.
  apply orb_true_iff in H. destruct H as [H|H].
  - apply orb_true_iff in H. destruct H as [H|H].
    + apply Nat.eqb_eq in H. lia.
    + apply Z.ltb_lt in H. lia.
  - apply Z.ltb_lt in H. lia.
Qed.

Lemma rot_ok_pos n i : rot_bad n i = false ->
  rot_pos n i = Some (n - 1 - Z.to_nat (i - 2))%nat /\ (Z.to_nat (i - 2) < n)%nat.
Proof.
  unfold rot_bad, rot_pos. intro H.
  apply orb_false_iff in H. destruct H as [H H3]. apply orb_false_iff in H. destruct H as [H1 H2].
  apply Nat.eqb_neq in H1. apply Z.ltb_ge in H2. apply Z.ltb_ge in H3.
  assert (E : ((2 <=? i)%Z && (i <=? Z.of_nat n + 1)%Z) = true).
  { apply andb_true_iff. split; apply Z.leb_le; lia. }
  rewrite E. split; [reflexivity | lia].
Qed.

Lemma destroy_rot_file_nc fs c f i :
  destroy_rot_file NoCache (mk fs c) f i
  = if rot_bad (length (f_old (fs f))) i then Err E_GENERIC
    else Ok (mk (fupd fs f {| f_cur := f_cur (fs f); f_old := remove_nth (Z.to_nat (i - 2)) (f_old (fs f)) |}) c).
Proof. reflexivity. Qed.

Lemma destroyrot_bad_nc lo fs c sp s i :
  Inv lo fs sp -> rot_bad (length (f_old (fs (s, Priv)))) i = true ->
  exists e, v1_step NoCache (mk fs c) (DestroyRot s i) = (mk fs c, Err e).
Proof.
  intros HI Hb. cbn [v1_step]. rewrite destroy_rot_file_nc, Hb. eexists. reflexivity.
Qed.

Lemma destroyrot_ok_nc lo fs c sp s i :
  Inv lo fs sp -> rot_bad (length (f_old (fs (s, Priv)))) i = false ->
  exists fs',
    v1_step NoCache (mk fs c) (DestroyRot s i) = (mk fs' c, Ok [])
    /\ frame fs fs' s {| f_cur := f_cur (fs (s, Priv)); f_old := remove_nth (Z.to_nat (i - 2)) (f_old (fs (s, Priv))) |}
             (if is_pair (fst s)
              then {| f_cur := f_cur (fs (s, Pub)); f_old := remove_nth (Z.to_nat (i - 2)) (f_old (fs (s, Pub))) |}
              else fs (s, Pub)).
Proof.
  intros HI Hb. cbn [v1_step]. rewrite destroy_rot_file_nc, Hb.
  destruct (is_pair (fst s)) eqn:Ep.
  - fold (mk (fupd fs (s, Priv) {| f_cur := f_cur (fs (s, Priv)); f_old := remove_nth (Z.to_nat (i - 2)) (f_old (fs (s, Priv))) |}) c).
    rewrite destroy_rot_file_nc. rewrite fupd_other by apply priv_neq_pub.
    destruct (inv_pair _ _ _ HI s Ep) as [_ Hl]. rewrite Hl, Hb. cbn [unit_out].
    eexists. split; [reflexivity|]. split.
    + rewrite fupd_other by apply pub_neq_priv. apply fupd_same.
    + apply fupd_same.
    + intros s' p Hs. rewrite !fupd_other by (apply other_slot_neq; exact Hs). reflexivity.
  - eexists. split; [reflexivity|]. split.
    + apply fupd_same.
    + apply fupd_other. apply priv_neq_pub.
    + intros s' p Hs. apply fupd_other. apply other_slot_neq. exact Hs.
Qed.

Lemma hist_ok_remove lo k l : hist_ok lo l -> hist_ok lo (remove_nth k l).
Proof. intros [Ha Hf]. split; [apply asc_remove_nth; exact Ha | apply Forall_remove_nth; exact Hf]. Qed.

Lemma abs_rot_length lo fs sp (s : slot) : Inv lo fs sp -> length (s_rot (sp s)) = length (f_old (fs (s, Priv))).
Proof. intro HI. rewrite (inv_abs _ _ _ HI s). unfold v1_abs. cbn [s_rot]. rewrite rev_length, map_length. reflexivity. Qed.

Lemma destroyrot_inv lo fs fs' sp s i :
  Inv lo fs sp -> rot_bad (length (f_old (fs (s, Priv)))) i = false ->
  frame fs fs' s {| f_cur := f_cur (fs (s, Priv)); f_old := remove_nth (Z.to_nat (i - 2)) (f_old (fs (s, Priv))) |}
        (if is_pair (fst s)
         then {| f_cur := f_cur (fs (s, Pub)); f_old := remove_nth (Z.to_nat (i - 2)) (f_old (fs (s, Pub))) |}
         else fs (s, Pub)) ->
  Inv lo fs' (fst (spec_step true sp (DestroyRot s i))).
Proof.
  intros HI Hb [FP FU FO]. cbn [spec_step fst].
  rewrite (abs_rot_length _ _ _ s HI). destruct (rot_ok_pos _ _ Hb) as [Hpos Hk]. rewrite Hpos.
  constructor.
  - intro s'. destruct (slot_eqb s' s) eqn:E.
    + apply slot_eqb_eq in E. subst s'. rewrite supd_same. unfold v1_abs. rewrite FP. cbn [f_cur f_old].
      rewrite (rev_map_remove_nth snd _ _ Hk). rewrite (inv_abs _ _ _ HI s). reflexivity.
    + apply slot_eqb_neq in E. rewrite supd_other by exact E. rewrite (inv_abs _ _ _ HI s').
      unfold v1_abs. rewrite (FO s' Priv E). reflexivity.
  - intro f. destruct (fname_cases f s) as [Hf|[Hf|[s' [p [Hf Hs]]]]]; subst f.
    + rewrite FP. cbn [f_old]. apply hist_ok_remove. apply (inv_hist _ _ _ HI).
    + rewrite FU. destruct (is_pair (fst s)); [cbn [f_old]; apply hist_ok_remove|]; apply (inv_hist _ _ _ HI).
    + rewrite (FO s' p Hs). apply (inv_hist _ _ _ HI).
  - intros s' Hp. destruct (slot_eqb s' s) eqn:E.
    + apply slot_eqb_eq in E. subst s'. rewrite FP, FU, Hp. cbn [f_cur f_old].
      destruct (inv_pair _ _ _ HI s Hp) as [Hc Hl]. split; [exact Hc|].
      rewrite !remove_nth_length by lia. lia.
    + apply slot_eqb_neq in E. rewrite !(FO s' _ E). apply (inv_pair _ _ _ HI s' Hp).
Qed.

(** * reads *)
Lemma cur_nc lo fs c sp s :
  Inv lo fs sp ->
  exists r, v1_step NoCache (mk fs c) (Cur s) = (mk fs c, r)
            /\ canon (Cur s) r = snd (spec_step true sp (Cur s)).
Proof.
  intro HI. cbn [spec_step snd]. rewrite (inv_abs _ _ _ HI s). unfold v1_abs. cbn [s_cur].
  cbn [v1_step].
  destruct (fst s) eqn:Ek; cbv iota.
  all: try (rewrite read_key_nc; cbn [file_content]; destruct (f_cur (fs (s, Priv))); eexists; split; reflexivity).
  unfold poison_pair_cur. cbn [cget cadd mk v_cache v_fs with_cache].
  assert (Hp : is_pair (fst s) = true) by (rewrite Ek; reflexivity).
  destruct (inv_pair _ _ _ HI s Hp) as [Hc _].
  destruct (f_cur (fs (s, Priv))) as [o|] eqn:E1; destruct (f_cur (fs (s, Pub))) as [o2|] eqn:E2.
  - eexists. split; reflexivity.
  - destruct Hc as [Hc _]. specialize (Hc eq_refl). discriminate.
  - eexists. split; reflexivity.
  - eexists. split; reflexivity.
Qed.

Lemma all_sim lo fs c sp s :
  Inv lo fs sp ->
  exists r, v1_step NoCache (mk fs c) (All s) = (mk fs c, r)
            /\ canon (All s) r = snd (spec_step true sp (All s)).
Proof.
  intro HI. rewrite all_nc by (apply (inv_hist _ _ _ HI)).
  cbn [spec_step snd]. rewrite (inv_abs _ _ _ HI s). unfold v1_abs, s_all. cbn [s_cur s_rot].
  destruct (f_cur (fs (s, Priv))); eexists; split; reflexivity.
Qed.

Lemma listrot_sim lo fs c sp s :
  Inv lo fs sp ->
  exists r, v1_step NoCache (mk fs c) (ListRot s) = (mk fs c, r)
            /\ canon (ListRot s) r = snd (spec_step true sp (ListRot s)).
Proof.
  intro HI. eexists. split; [reflexivity|]. cbn [canon spec_step snd].
  rewrite (abs_rot_length _ _ _ s HI). reflexivity.
Qed.

(** * the simulation *)
Lemma v1_nocache_sim :
  forall ops lo st sp, Inv lo (v_fs st) sp -> increasing_from lo (clock_readings ops) ->
  canon_all ops (v1_run NoCache st ops) = spec_run true sp ops
  /\ forall s, v1_abs (v_fs (v1_state_after NoCache st ops)) s = spec_state_after true sp ops s.
Proof.
  induction ops as [|op ops IH]; intros lo st sp HI Hinc.
  - split; [reflexivity|]. intro s. cbn [v1_state_after spec_state_after]. symmetry. apply (inv_abs _ _ _ HI).
  - destruct st as [fs c]. cbn [v_fs] in HI. fold (mk fs c).
    cbn [v1_run spec_run v1_state_after spec_state_after].
    destruct op as [s o t1 t2|s|s|s|s|s i| |].
    + (* Gen *)
      cbn [clock_readings increasing_from] in Hinc. destruct Hinc as [H1 [H2 Hrest]].
      destruct (gen_nc lo fs c sp s o t1 t2 HI H1 H2) as [fs' [Est Hfr]].
      pose proof (gen_inv _ _ _ _ _ _ _ _ HI H1 H2 Hfr) as HI'.
      rewrite Est. destruct (spec_step true sp (Gen s o t1 t2)) as [sp' ob] eqn:Esp.
      cbn [fst] in HI'. destruct (IH t2 (mk fs' c) sp' HI' Hrest) as [IH1 IH2].
      cbn [fst]. split; [|exact IH2].
      cbn [canon_all]. rewrite IH1. f_equal. cbn [spec_step] in Esp. inversion Esp. reflexivity.
    + (* Cur *)
      cbn [clock_readings] in Hinc. destruct (cur_nc lo fs c sp s HI) as [r [Est Hc]].
      rewrite Est. cbn [spec_step fst] in *. destruct (IH lo (mk fs c) sp HI Hinc) as [IH1 IH2].
      split; [|exact IH2]. cbn [canon_all]. rewrite IH1, Hc. reflexivity.
    + (* All *)
      cbn [clock_readings] in Hinc. destruct (all_sim lo fs c sp s HI) as [r [Est Hc]].
      rewrite Est. cbn [spec_step fst] in *. destruct (IH lo (mk fs c) sp HI Hinc) as [IH1 IH2].
      split; [|exact IH2]. cbn [canon_all]. rewrite IH1, Hc. reflexivity.
    + (* ListRot *)
      cbn [clock_readings] in Hinc. destruct (listrot_sim lo fs c sp s HI) as [r [Est Hc]].
      rewrite Est. cbn [spec_step fst] in *. destruct (IH lo (mk fs c) sp HI Hinc) as [IH1 IH2].
      split; [|exact IH2]. cbn [canon_all]. rewrite IH1, Hc. reflexivity.
    + (* DestroyCur *)
      cbn [clock_readings] in Hinc. destruct (destroycur_nc fs c s) as [fs' [c' [Est Hfr]]].
      pose proof (destroycur_inv _ _ _ _ _ HI Hfr) as HI'.
      rewrite Est. destruct (spec_step true sp (DestroyCur s)) as [sp' ob] eqn:Esp.
      cbn [fst] in HI'. destruct (IH lo (mk fs' c') sp' HI' Hinc) as [IH1 IH2].
      cbn [fst]. split; [|exact IH2].
      cbn [canon_all]. rewrite IH1. f_equal. cbn [spec_step] in Esp. inversion Esp. reflexivity.
    + (* DestroyRot *)
      cbn [clock_readings] in Hinc.
      destruct (rot_bad (length (f_old (fs (s, Priv)))) i) eqn:Eb.
      * destruct (destroyrot_bad_nc lo fs c sp s i HI Eb) as [e Est]. rewrite Est.
        assert (Esp : spec_step true sp (DestroyRot s i) = (sp, ODone)).
        { cbn [spec_step]. rewrite (abs_rot_length _ _ _ s HI), (rot_bad_pos _ _ Eb). reflexivity. }
        rewrite Esp. cbn [fst]. destruct (IH lo (mk fs c) sp HI Hinc) as [IH1 IH2].
        split; [|exact IH2]. cbn [canon_all]. rewrite IH1. reflexivity.
      * destruct (destroyrot_ok_nc lo fs c sp s i HI Eb) as [fs' [Est Hfr]].
        pose proof (destroyrot_inv _ _ _ _ _ _ HI Eb Hfr) as HI'.
        rewrite Est. destruct (spec_step true sp (DestroyRot s i)) as [sp' ob] eqn:Esp.
        cbn [fst] in HI'. destruct (IH lo (mk fs' c) sp' HI' Hinc) as [IH1 IH2].
        cbn [fst]. split; [|exact IH2].
        cbn [canon_all]. rewrite IH1. f_equal. cbn [spec_step] in Esp. inversion Esp. reflexivity.
    + (* Reset *)
      cbn [clock_readings] in Hinc. cbn [v1_step spec_step fst]. unfold with_cache. cbn [v_fs mk]. fold (mk fs []).
      destruct (IH lo (mk fs []) sp HI Hinc) as [IH1 IH2].
      split; [|exact IH2]. cbn [canon_all]. rewrite IH1. reflexivity.
    + (* Reopen *)
      cbn [clock_readings] in Hinc. cbn [v1_step spec_step fst]. unfold with_cache. cbn [v_fs mk]. fold (mk fs []).
      destruct (IH lo (mk fs []) sp HI Hinc) as [IH1 IH2].
      split; [|exact IH2]. cbn [canon_all]. rewrite IH1. reflexivity.
Qed.

Lemma inv_init : Inv 0 fs_init s_init.
Proof.
  constructor.
  - intro s. reflexivity.
  - intro f. split; [exact I | constructor].
  - intros s _. split; [split; reflexivity | reflexivity].
Qed.

Theorem v1_nocache_refines_spec :
  forall ops, increasing_from 0 (clock_readings ops) ->
  canon_all ops (v1_run NoCache v1_init ops) = spec_run true s_init ops.
Proof. intros ops H. apply (v1_nocache_sim ops 0 v1_init s_init inv_init H). Qed.

Theorem v1_abs_after_nocache :
  forall ops, increasing_from 0 (clock_readings ops) ->
  forall s, v1_abs (v_fs (v1_state_after NoCache v1_init ops)) s = spec_state_after true s_init ops s.
Proof. intros ops H. apply (v1_nocache_sim ops 0 v1_init s_init inv_init H). Qed.
