(** C18: export / import of keystore v1 (Model/Backup.v) and the v2 export-mode finding. *)
From Acra Require Import Lib.Bytes Lib.Outcome Crypto.Interface Crypto.Stub Gen.KsConsts Model.Path Model.KeyAtRest Model.Backup.
From Coq Require Import ZifyN ZifyNat ZifyBool.

(** ---------- name classification ---------- *)
Fixpoint diverges (p s : bytes) : bool :=
  match p, s with
  | x :: p', y :: s' => if byte_eqb x y then diverges p' s' else true
  | _, _ => false
  end.

Lemma diverges_starts_with p s t : diverges p s = true -> starts_with p (s ++ t) = false.
Proof.
  revert s; induction p as [|x p IH]; intros [|y s]; cbn; try discriminate.
  destruct (byte_eqb x y); cbn; [apply IH| reflexivity].
Qed.

Lemma ends_with_own (a s : bytes) : ends_with (a ++ s) s = true.
Proof. unfold ends_with. rewrite rev_app_distr. apply starts_with_app. Qed.

Lemma ends_with_other (a s suf : bytes) : diverges (rev suf) (rev s) = true -> ends_with (a ++ s) suf = false.
Proof. intros H. unfold ends_with. rewrite rev_app_distr. apply diverges_starts_with. exact H. Qed.

Lemma strip_own (a s : bytes) : strip_suffix (a ++ s) s = a.
Proof.
  unfold strip_suffix. rewrite app_length, Nat.add_sub. apply firstn_app_len.
Qed.

(** the suffixes of the private key kinds, as one byte string each *)
Definition priv_suffix (k : v1kind) : bytes :=
  match k with
  | KStoragePriv => SUFFIX_STORAGE
  | KStoragePub => SUFFIX_STORAGE ++ SUFFIX_PUB
  | KStorageSym => SUFFIX_STORAGE ++ SUFFIX_SYM
  | KHmac => SUFFIX_HMAC
  end.
Lemma v1_fname_suffix k id : v1_fname k id = id ++ priv_suffix k.
Proof. destruct k; reflexivity. Qed.

(** getContextFromFilename recovers the owner id from every private current-key name,
    and isPrivate classifies it as private (the suffix tables are regenerated: facts by computation) *)

Definition private_kind (k : v1kind) : bool := match k with KStoragePub => false | _ => true end.


Theorem ctx_from_name_owner k id :
  private_kind k = true ->
  ctx_from_name (v1_fname k id) = id /\ is_private_name (v1_fname k id) = true.
Proof.
  intros Hk. rewrite v1_fname_suffix. unfold ctx_from_name, is_private_name, is_public_name.
  destruct k; try discriminate; cbn [priv_suffix].
  - (* _storage *)
    rewrite (ends_with_other id SUFFIX_STORAGE SUFFIX_OLD) by (vm_compute; reflexivity).
    rewrite (ends_with_other id SUFFIX_STORAGE SUFFIX_HMAC) by (vm_compute; reflexivity).
    rewrite (ends_with_other id SUFFIX_STORAGE SUFFIX_SERVER) by (vm_compute; reflexivity).
    rewrite (ends_with_other id SUFFIX_STORAGE SUFFIX_TRANSLATOR) by (vm_compute; reflexivity).
    rewrite ends_with_own, strip_own.
    rewrite (ends_with_other id SUFFIX_STORAGE SUFFIX_PUB) by (vm_compute; reflexivity).
    rewrite (ends_with_other id SUFFIX_STORAGE (SUFFIX_PUB ++ SUFFIX_OLD)) by (vm_compute; reflexivity).
    split; reflexivity.
  - (* _storage_sym *)
    rewrite (ends_with_other id (SUFFIX_STORAGE ++ SUFFIX_SYM) SUFFIX_OLD) by (vm_compute; reflexivity).
    rewrite (ends_with_other id (SUFFIX_STORAGE ++ SUFFIX_SYM) SUFFIX_HMAC) by (vm_compute; reflexivity).
    rewrite (ends_with_other id (SUFFIX_STORAGE ++ SUFFIX_SYM) SUFFIX_SERVER) by (vm_compute; reflexivity).
    rewrite (ends_with_other id (SUFFIX_STORAGE ++ SUFFIX_SYM) SUFFIX_TRANSLATOR) by (vm_compute; reflexivity).
    rewrite (ends_with_other id (SUFFIX_STORAGE ++ SUFFIX_SYM) SUFFIX_STORAGE) by (vm_compute; reflexivity).
    rewrite ends_with_own, strip_own.
    rewrite (ends_with_other id (SUFFIX_STORAGE ++ SUFFIX_SYM) SUFFIX_PUB) by (vm_compute; reflexivity).
    rewrite (ends_with_other id (SUFFIX_STORAGE ++ SUFFIX_SYM) (SUFFIX_PUB ++ SUFFIX_OLD)) by (vm_compute; reflexivity).
    split; reflexivity.
  - (* _hmac *)
    rewrite (ends_with_other id SUFFIX_HMAC SUFFIX_OLD) by (vm_compute; reflexivity).
    rewrite ends_with_own, strip_own.
    rewrite (ends_with_other id SUFFIX_HMAC SUFFIX_PUB) by (vm_compute; reflexivity).
    rewrite (ends_with_other id SUFFIX_HMAC (SUFFIX_PUB ++ SUFFIX_OLD)) by (vm_compute; reflexivity).
    split; reflexivity.
Qed.

Lemma key_encrypt_some' m kc n k t :
  key_encrypt m kc n k = Some t -> t = Sealed m (kctx_bytes kc) n k.
Proof. unfold key_encrypt. destruct (is_nil m || is_nil k); [discriminate| intros [= <-]; reflexivity]. Qed.

(** an exported key as Export builds it for an explicit selection (current key of a client) *)
Definition sel_key (k : v1kind) (id content : bytes) : bkey :=
  {| bk_name := v1_fname k id; bk_content := content; bk_hint := None |}.

(** what Import writes for one key *)
Definition imported_as (target_master dir : bytes) (k : bkey) (e : event) : Prop :=
  fst e = SFile (join2 dir (bk_name k)) /\
  if bk_private k then exists n, snd e = Sealed target_master (bk_ctx k) n (bk_content k)
  else snd e = Plain (bk_content k).

Section BackupProofs.
  Variable C : crypto.
  Variable ser : list bkey -> bytes.
  Variable deser : bytes -> option (list bkey).
  Hypothesis deser_ser : forall l, deser (ser l) = Some l.

  (** bundle_sealed: besides the fresh access key, Export emits ONE seal of the serialised keys
      under that key with empty context — no [Plain] term *)
  Theorem bundle_sealed tape keys access t :
    export_v1 ser tape keys = Ok (access, t) ->
    exists nonce, nth_error tape 0 = Some access /\ nth_error tape 1 = Some nonce /\
                  t = Sealed access [] nonce (ser keys).
  Proof.
    unfold export_v1. destruct tape as [|k [|n r]]; try discriminate.
    destruct (key_encrypt k _ n (ser keys)) as [t'|] eqn:Ht; [|discriminate].
    intros [= <- <-]. apply key_encrypt_some' in Ht. exists n. repeat split. exact Ht.
  Qed.

  (** Import writes exactly the keys of the bundle: same names, same values, same order;
      private ones sealed under the target's master key with the owner context of their name *)
  Theorem import_keys_exact tm dir tape keys es :
    import_keys tm dir tape keys = Ok es -> Forall2 (imported_as tm dir) keys es.
  Proof.
    revert tape es. induction keys as [|k r IH]; intros tape es; cbn [import_keys].
    - intros [= <-]. constructor.
    - destruct (bk_private k) eqn:Hp.
      + destruct tape as [|n tape']; [discriminate|].
        destruct (key_encrypt tm _ n (bk_content k)) as [t|] eqn:Ht; [|discriminate].
        destruct (import_keys tm dir tape' r) as [es'| |] eqn:Hr; cbn [bind]; try discriminate.
        intros [= <-]. constructor; [|eapply IH; exact Hr].
        apply key_encrypt_some' in Ht. split; [reflexivity|]. rewrite Hp. exists n. exact Ht.
      + destruct (import_keys tm dir tape r) as [es'| |] eqn:Hr; cbn [bind]; try discriminate.
        intros [= <-]. constructor; [|eapply IH; exact Hr].
        split; [reflexivity|]. rewrite Hp. reflexivity.
  Qed.

  (** import_export_identity, bundle layer: an untouched bundle opened with its access key gives
      Import exactly the exported key list *)
  Theorem import_of_export tm dir tape_e tape_i keys access t :
    Correct C ->
    export_v1 ser tape_e keys = Ok (access, t) ->
    (forall n, nth_error tape_e 1 = Some n -> length n = NONCE_LEN) ->
    (N.of_nat (length (ser keys)) < MAXMSG)%N ->
    import_v1 C deser tm dir tape_i access (encode C t) = import_keys tm dir tape_i keys.
  Proof.
    intros HC He Hn Hl. destruct (bundle_sealed _ _ _ _ He) as (n & H0 & H1 & ->).
    unfold export_v1 in He. destruct tape_e as [|k [|n' r]]; try discriminate.
    cbn in H0, H1. injection H0 as ->. injection H1 as ->.
    unfold key_encrypt in He.
    destruct (is_nil access) eqn:Ea; [discriminate|]. destruct (is_nil (ser keys)) eqn:Es; [discriminate|].
    unfold import_v1. cbn [encode]. unfold cell_decrypt. rewrite Ea.
    assert (Hne : seal_enc C access [] n (ser keys) <> []).
    { intros E. pose proof (seal_len C HC access [] n (ser keys) (Hn n eq_refl)) as L. rewrite E in L. cbn in L. discriminate. }
    rewrite (is_nil_false _ Hne). cbn [orb].
    rewrite (seal_rt C HC); [rewrite deser_ser; reflexivity| | | apply Hn; reflexivity| exact Hl].
    - destruct access; [discriminate| discriminate].
    - destruct (ser keys); [discriminate| discriminate].
  Qed.

  (** import_export_identity, key layer: a selected private key of client [id] lands in the target
      as a seal that the TARGET keystore's own read path (master key, owner context of that kind)
      opens to the identical value *)
  Theorem imported_key_readable tm k id content n :
    Correct C -> private_kind k = true -> tm <> [] -> content <> [] -> length n = NONCE_LEN ->
    (N.of_nat (length content) < MAXMSG)%N ->
    let bk := sel_key k id content in
    bk_private bk = true /\ bk_ctx bk = id /\
    key_decrypt C tm (v1_kctx k id) (encode C (Sealed tm (bk_ctx bk) n content)) = Some content.
  Proof.
    intros HC Hk Htm Hc Hn Hl bk. destruct (ctx_from_name_owner k id Hk) as [Hctx Hpriv].
    subst bk. unfold bk_private, bk_ctx, sel_key. cbn [bk_hint bk_name].
    split; [exact Hpriv|]. split; [exact Hctx|]. rewrite Hctx.
    unfold key_decrypt, cell_decrypt. cbn [encode kctx_bytes v1_kctx kc_client].
    rewrite (is_nil_false _ Htm).
    assert (Hne : seal_enc C tm id n content <> []).
    { intros E. pose proof (seal_len C HC tm id n content Hn) as L. rewrite E in L. cbn in L. discriminate. }
    rewrite (is_nil_false _ Hne). cbn [orb]. apply (seal_rt C HC); assumption.
  Qed.

  (** rejected imports change nothing and are the only outcome of a bundle that does not open:
      Import writes (returns events) only after decryption AND decoding succeeded *)
  Theorem import_accepts_only_opened tm dir tape access data es :
    import_v1 C deser tm dir tape access data = Ok es ->
    exists g keys, cell_decrypt C access [] data = Some g /\ deser g = Some keys /\
                   import_keys tm dir tape keys = Ok es.
  Proof.
    unfold import_v1. destruct (cell_decrypt C access [] data) as [g|]; [|discriminate].
    destruct (deser g) as [keys|] eqn:Hd; [|discriminate]. intros H. exists g, keys. repeat split; assumption.
  Qed.

  (** modified bundle / wrong access keys, as a reduction: if Import accepts (access', data') although
      Export produced (access, data), then either nothing was changed or an AEAD forgery is exhibited:
      a pair different from the honest one that opens under the empty context *)
  Definition bundle_forgery (access data : bytes) : Prop :=
    exists a' d' g, (a', d') <> (access, data) /\ cell_decrypt C a' [] d' = Some g.

  Theorem modified_bundle_rejected_target_unchanged tm dir tape access data access' data' :
    (access', data') = (access, data) \/ bundle_forgery access data \/
    import_v1 C deser tm dir tape access' data' = Err E_DECRYPTION.
  Proof.
    destruct (bytes_eqb access' access && bytes_eqb data' data) eqn:E.
    - left. apply andb_true_iff in E as [E1 E2]. apply bytes_eqb_eq in E1, E2. subst. reflexivity.
    - right. unfold import_v1. destruct (cell_decrypt C access' [] data') as [g|] eqn:Hd; [|right; reflexivity].
      left. exists access', data', g. split; [|exact Hd]. intros [= -> ->].
      rewrite !bytes_eqb_refl in E. discriminate.
  Qed.
  (** [Err] carries no events: the type [res (list event)] of [import_v1] makes "target unchanged"
      immediate for every rejected bundle. *)
  Corollary wrong_access_keys_rejected tm dir tape access data access' :
    access' <> access ->
    bundle_forgery access data \/ import_v1 C deser tm dir tape access' data = Err E_DECRYPTION.
  Proof.
    intros Hne. destruct (modified_bundle_rejected_target_unchanged tm dir tape access data access' data) as [H|[H|H]].
    - injection H as H. contradiction.
    - left. exact H.
    - right. exact H.
  Qed.
End BackupProofs.

(** ---------- keystore v2: whole-store export mode (known finding) ---------- *)
(** REFUTED: "export all" (mode ExportAllKeys) of a v2 keystore carries the private and symmetric keys.
    The mode test is a bit test against ExportPrivateKeys, and ExportAllKeys does not have that bit. *)
Theorem v2_export_all_omits_private_refuted :
  exists mode, mode = EXPORT_ALL_KEYS /\ v2_exports_private mode = false.
Proof. exists EXPORT_ALL_KEYS. split; [reflexivity| vm_compute; reflexivity]. Qed.
Example v2_export_private_mode_keeps_private : v2_exports_private EXPORT_PRIVATE_KEYS = true.
Proof. vm_compute. reflexivity. Qed.

(** non-vacuity *)
Example ctx_from_name_example :
  ctx_from_name ([x63; x6c; x69; x65; x6e; x74] ++ SUFFIX_STORAGE ++ SUFFIX_SYM) = [x63; x6c; x69; x65; x6e; x74].
Proof. vm_compute. reflexivity. Qed.
Example export_import_stub_example :
  let keys := [sel_key KHmac [x63; x6c; x69; x65; x6e; x74] (repeat_bytes x41 32)] in
  let ser := fun _ : list bkey => [x01; x02; x03] in
  match export_v1 ser [repeat_bytes x05 32; repeat_bytes x06 12] keys with
  | Ok (a, t) => import_v1 Stub (fun _ => Some keys) (repeat_bytes x07 32) [x2f; x6b] [repeat_bytes x08 12] a (encode Stub t)
                 = Ok [(SFile ([x2f; x6b; x2f; x63; x6c; x69; x65; x6e; x74] ++ SUFFIX_HMAC),
                        Sealed (repeat_bytes x07 32) [x63; x6c; x69; x65; x6e; x74] (repeat_bytes x08 12) (repeat_bytes x41 32))]
  | _ => False
  end.
Proof. vm_compute. reflexivity. Qed.
