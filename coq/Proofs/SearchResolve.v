(** Proofs about the column resolution of the searchable path (Model/SearchResolve.v against
    Model/SearchResolveSpec.v). *)
From Coq Require Import List Bool NArith Arith Lia.
From Acra Require Import Lib.Bytes Lib.Outcome Model.SearchResolveSpec.
Import ListNotations.

(** * the regular shape: base tables, possibly under JOIN trees *)
Fixpoint base_t (t : tref) : bool :=
  match t with TBase _ _ => true | TJoin l r _ => base_t l && base_t r | TDerived _ _ => false end.
Fixpoint base_f (f : flist) : bool :=
  match f with FNil => true | FCons t tl => base_t t && base_f tl end.

(** a comma list of tables (no JOIN) *)
Fixpoint plain_f (f : flist) : bool :=
  match f with FNil => true | FCons (TBase _ _) tl => plain_f tl | FCons _ _ => false end.

(** (table name, alias) of the entries, left to right *)
Fixpoint bents_t (t : tref) : list (bytes * bytes) :=
  match t with TBase n a => [(n, a)] | TJoin l r _ => bents_t l ++ bents_t r | TDerived _ _ => [] end.
Fixpoint bents_f (f : flist) : list (bytes * bytes) :=
  match f with FNil => [] | FCons t tl => bents_t t ++ bents_f tl end.

Definition visp (e : bytes * bytes) : bytes := vis (fst e) (snd e).
Definition entry_of (e : bytes * bytes) : bytes * source := (visp e, SBase (fst e)).

(** PostgreSQL's findTableName accepts the NAME of a table that is only visible under an alias: the qualifier
    [q] is not such a hidden name *)
Definition hid_ok (d : dial) (ents : list (bytes * bytes)) (q : bytes) : Prop :=
  d = RPG -> forall e, In e ents -> snd e <> [] -> fst e <> q.

(** PostgreSQL's getMatchedTable looks at `columns` only: every encrypted column is listed there *)
Definition pg_listed (d : dial) (cfg : CR.rcfg) : Prop :=
  d = RPG -> forall n s c, CR.get_schema cfg n = Some s -> CR.lists_col s c = CR.knows_col s c.

Definition scope_ok (from : flist) : Prop :=
  base_f from = true /\ NoDup (map visp (bents_f from)) /\ Forall (fun e => visp e <> []) (bents_f from).

(** the side conditions of one column reference [q.]c *)
Definition ref_ok (d : dial) (from : flist) (q : bytes) : Prop :=
  if empty q then plain_f from = true /\ forall e, In e (bents_f from) -> hid_ok d (bents_f from) (visp e)
  else hid_ok d (bents_f from) q.

Lemma empty_iff b : empty b = true <-> b = [].
Proof. destruct b; cbn; split; congruence. Qed.

Lemma empty_false b : empty b = false <-> b <> [].
Proof. destruct b; cbn; split; congruence. Qed.

Lemma bytes_eqb_sym_l (a b : bytes) : bytes_eqb a b = bytes_eqb b a.
Proof.
  destruct (bytes_eqb a b) eqn:E.
  - apply bytes_eqb_eq in E. subst. symmetry. apply bytes_eqb_refl.
  - apply bytes_eqb_neq in E. symmetry. apply bytes_eqb_neq. congruence.
Qed.

Lemma find_app {A} (f : A -> bool) l1 l2 :
  find f (l1 ++ l2) = match find f l1 with Some x => Some x | None => find f l2 end.
Proof. induction l1 as [|x l1 IH]; cbn; [reflexivity|]. destruct (f x); [reflexivity|exact IH]. Qed.

Lemma filter_app' {A} (f : A -> bool) l1 l2 : filter f (l1 ++ l2) = filter f l1 ++ filter f l2.
Proof. induction l1 as [|x l1 IH]; cbn; [reflexivity|]. destruct (f x); cbn; rewrite IH; reflexivity. Qed.

Lemma scope_t_base t : base_t t = true -> scope_t t = map entry_of (bents_t t).
Proof.
  induction t as [n a|l IHl r IHr on|s a]; cbn; intro H; [reflexivity| |discriminate].
  apply andb_true_iff in H. destruct H as [Hl Hr]. rewrite map_app, IHl, IHr by assumption. reflexivity.
Qed.

Lemma scope_f_base f : base_f f = true -> scope_f f = map entry_of (bents_f f).
Proof.
  induction f as [|t tl IH]; cbn; intro H; [reflexivity|].
  apply andb_true_iff in H. destruct H as [Ht Htl]. rewrite map_app, scope_t_base, IH by assumption. reflexivity.
Qed.

Lemma pg_nest {A} d (a b : A) (f : A -> A) : pgsk d (pgsk d a b) (f (pgsk d a b)) = pgsk d a (f b).
Proof. destruct d; reflexivity. Qed.
Lemma pg_nest2 {A B} d (a b : A) (g : A -> B) (z : B) : pgsk d z (g (pgsk d a b)) = pgsk d z (g b).
Proof. destruct d; reflexivity. Qed.
Lemma pg_map {A B} d (f : A -> B) (l : list A) : pgsk d [] (map f l) = map f (pgsk d [] l).
Proof. destruct d; reflexivity. Qed.

Section R.
Variable d : dial.
Variable cfg : CR.rcfg.
Variable srch : list N.

(** the entry findTableName stops at *)
Definition mt (q : bytes) (e : bytes * bytes) : bool :=
  match ftn_base d (fst e) (snd e) q with Ok _ => true | _ => false end.

Lemma ftn_base_cases n a q : ftn_base d n a q = Ok n \/ ftn_base d n a q = Err E_NOTFOUND.
Proof.
  unfold ftn_base. destruct d.
  - destruct (bytes_eqb q n); [left; reflexivity|]. destruct (negb (empty a) && bytes_eqb a q); [left|right]; reflexivity.
  - destruct (empty a); [destruct (bytes_eqb q n)|destruct (bytes_eqb a q)]; (left; reflexivity) || (right; reflexivity).
Qed.

Lemma ftn_f_cons t tl q c :
  ftn_f d (FCons t tl) q c = match ftn_t d t q c with Ok x => Ok x | _ => ftn_f d tl q c end.
Proof. reflexivity. Qed.

Lemma ftn_t_join l r on q c :
  ftn_t d (TJoin l r on) q c =
  match ftn_t d l q c with Err e => if N.eqb e E_NOTFOUND then ftn_t d r q c else Err e | x => x end.
Proof. reflexivity. Qed.

Lemma ftn_t_tbase n a q c : ftn_t d (TBase n a) q c = ftn_base d n a q.
Proof. reflexivity. Qed.

Lemma ftn_t_base t q c : base_t t = true ->
  ftn_t d t q c = match find (mt q) (bents_t t) with Some e => Ok (fst e) | None => Err E_NOTFOUND end.
Proof.
  induction t as [n a|l IHl r IHr on|s a]; cbn [base_t bents_t]; intro H; [| |discriminate].
  - rewrite ftn_t_tbase. cbn [find]. unfold mt. cbn [fst snd]. destruct (ftn_base_cases n a q) as [E|E]; rewrite E; reflexivity.
  - apply andb_true_iff in H. destruct H as [Hl Hr]. rewrite ftn_t_join, find_app, (IHl Hl), (IHr Hr).
    destruct (find (mt q) (bents_t l)); [reflexivity|]. cbn. reflexivity.
Qed.

Lemma ftn_f_base f q c : base_f f = true ->
  ftn_f d f q c = match find (mt q) (bents_f f) with Some e => Ok (fst e) | None => Err E_NOTFOUND end.
Proof.
  induction f as [|t tl IH]; cbn [base_f bents_f]; intro H; [reflexivity|].
  apply andb_true_iff in H. destruct H as [Ht Htl]. rewrite ftn_f_cons, find_app, (ftn_t_base t q c Ht), (IH Htl).
  destruct (find (mt q) (bents_t t)); reflexivity.
Qed.

Lemma mt_vis ents q e : hid_ok d ents q -> In e ents -> mt q e = bytes_eqb (visp e) q.
Proof.
  intros Hh Hin. unfold mt, visp, vis, ftn_base. destruct e as [n a]. cbn [fst snd].
  destruct d.
  - specialize (Hh eq_refl (n, a) Hin). cbn [fst snd] in Hh.
    destruct (empty a) eqn:Ea.
    + cbn [negb andb]. rewrite (bytes_eqb_sym_l q n). destruct (bytes_eqb n q); reflexivity.
    + apply empty_false in Ea. specialize (Hh Ea). apply bytes_eqb_neq in Hh. rewrite (bytes_eqb_sym_l q n), Hh. cbn [negb andb].
      destruct (bytes_eqb a q); reflexivity.
  - destruct (empty a).
    + rewrite (bytes_eqb_sym_l q n). destruct (bytes_eqb n q); reflexivity.
    + destruct (bytes_eqb a q); reflexivity.
Qed.

Lemma find_ext_in {A} (f g : A -> bool) l : (forall x, In x l -> f x = g x) -> find f l = find g l.
Proof.
  induction l as [|x l IH]; intro H; [reflexivity|]. cbn. rewrite (H x (or_introl eq_refl)).
  rewrite IH; [reflexivity|]. intros y Hy. apply H. right. exact Hy.
Qed.

(** qualified reference against distinct visible names: filter = find *)
Lemma filter_find_nodup (l : list (bytes * bytes)) q : NoDup (map visp l) ->
  filter (fun e => bytes_eqb (visp e) q) l =
  match find (fun e => bytes_eqb (visp e) q) l with Some e => [e] | None => [] end.
Proof.
  induction l as [|x l IH]; intro Hnd; [reflexivity|]. cbn [map] in Hnd. inversion Hnd as [|? ? Hnin Hnd']; subst.
  cbn [filter find]. destruct (bytes_eqb (visp x) q) eqn:E.
  - apply bytes_eqb_eq in E. f_equal.
    assert (Hn : forall y, In y l -> bytes_eqb (visp y) q = false).
    { intros y Hy. apply bytes_eqb_neq. intro Heq. apply Hnin. rewrite E, <- Heq. apply in_map. exact Hy. }
    clear -Hn. induction l as [|y l IH]; [reflexivity|]. cbn. rewrite (Hn y (or_introl eq_refl)). apply IH.
    intros z Hz. apply Hn. right. exact Hz.
  - apply IH. exact Hnd'.
Qed.

Lemma filter_map_entry (p : bytes * source -> bool) (g : bytes * bytes -> bool) l :
  (forall e, p (entry_of e) = g e) -> filter p (map entry_of l) = map entry_of (filter g l).
Proof.
  intro H. induction l as [|x l IH]; [reflexivity|]. cbn. rewrite H. destruct (g x); cbn; rewrite IH; reflexivity.
Qed.

Definition kn (c : bytes) (e : bytes * bytes) : bool :=
  match CR.get_schema cfg (fst e) with Some s => knows d s c | None => false end.

Lemma plain_bents f : plain_f f = true ->
  forall c found,
  Forall (fun e => visp e <> []) (bents_f f) ->
  matched_loop d cfg f c found =
  if empty found then
    match filter (kn c) (bents_f f) with [] => Err E_NOTMATCHED | [e] => Ok (visp e) | _ => Err E_MATCHED end
  else match filter (kn c) (bents_f f) with [] => Ok found | _ => Err E_MATCHED end.
Proof.
  induction f as [|t tl IH]; intros Hp c found Hne.
  - cbn. destruct (empty found); reflexivity.
  - destruct t as [n a| |]; try discriminate. cbn [plain_f] in Hp. cbn [bents_f bents_t app] in *.
    inversion Hne as [|? ? Hx Hne']; subst. cbn [matched_loop filter].
    assert (Hk : kn c (n, a) = match CR.get_schema cfg n with Some s => knows d s c | None => false end) by reflexivity.
    destruct (CR.get_schema cfg n) as [s|] eqn:Es.
    + destruct (knows d s c) eqn:Ek; rewrite Hk; cbv iota.
      * destruct (empty found) eqn:Ef.
        -- rewrite (IH Hp c _ Hne'). fold (vis n a). change (vis n a) with (visp (n, a)).
           apply empty_false in Hx. rewrite Hx.
           destruct (filter (kn c) (bents_f tl)) as [|e2 rest]; reflexivity.
        -- reflexivity.
      * apply IH; assumption.
    + rewrite Hk; cbv iota. apply IH; assumption.
Qed.

Lemma matched_table_plain f c : plain_f f = true -> Forall (fun e => visp e <> []) (bents_f f) ->
  exists err, matched_table d cfg f c =
  match filter (kn c) (bents_f f) with [] => Err err | [e] => Ok (visp e) | _ => Err E_MATCHED end.
Proof.
  intros Hp Hne. destruct f as [|t tl]; [exists E_EMPTY; reflexivity|]. destruct t as [n a| |]; try discriminate.
  exists E_NOTMATCHED. unfold matched_table. rewrite (plain_bents _ Hp c [] Hne). reflexivity.
Qed.

(** FindColumnInfo + GetColumnSetting against the reference resolution *)
Theorem col_setting_exact from q c :
  scope_ok from -> ref_ok d from q -> pg_listed d cfg ->
  col_setting_of d cfg from q c = setting_of cfg (resolve cfg 1 (scope_f from) q c).
Proof.
  intros (Hb & Hnd & Hne) Hr Hl. unfold col_setting_of, find_table, ref_ok in *.
  rewrite (scope_f_base from Hb). cbn [resolve].
  set (ents := bents_f from) in *.
  destruct (empty q) eqn:Eq.
  - destruct Hr as [Hp Hh].
    destruct (matched_table_plain from c Hp Hne) as [err Hm]. rewrite Hm. fold ents.
    rewrite (filter_map_entry _ (kn c)).
    2:{ intro e. unfold entry_of, kn, base_has. cbn [snd]. destruct (CR.get_schema cfg (fst e)) as [s|] eqn:Es; [|reflexivity].
        unfold knows. destruct d eqn:Ed; [|reflexivity]. symmetry. apply (Hl eq_refl (fst e) s c Es). }
    + idtac.
      destruct (filter (kn c) ents) as [|e [|e2 rest]] eqn:Efil; cbn [map bind]; try reflexivity.
      assert (Hin : In e ents).
      { assert (H : In e (filter (kn c) ents)) by (rewrite Efil; left; reflexivity). apply filter_In in H. exact (proj1 H). }
      rewrite (ftn_f_base from (visp e) c Hb). fold ents.
      rewrite (find_ext_in (mt (visp e)) (fun x => bytes_eqb (visp x) (visp e)) ents).
      2:{ intros x Hx. apply (mt_vis ents); [apply Hh; exact Hin|exact Hx]. }
      assert (Hfil := filter_find_nodup ents (visp e) Hnd).
      destruct (find (fun x => bytes_eqb (visp x) (visp e)) ents) as [e'|] eqn:Efind.
      * assert (He' : e' = e).
        { apply find_some in Efind. destruct Efind as [Hin' Heq]. apply bytes_eqb_eq in Heq.
          clear -Hnd Hin Hin' Heq. induction ents as [|x l IH]; [destruct Hin|].
          cbn [map] in Hnd. inversion Hnd as [|? ? Hnin Hnd']; subst.
          destruct Hin as [->|Hin]; destruct Hin' as [->|Hin']; try reflexivity.
          - exfalso. apply Hnin. rewrite <- Heq. apply in_map. exact Hin'.
          - exfalso. apply Hnin. rewrite Heq. apply in_map. exact Hin.
          - apply IH; assumption. }
        subst e'. cbn [entry_of snd]. reflexivity.
      * exfalso. assert (H : In e (filter (fun x => bytes_eqb (visp x) (visp e)) ents)).
        { apply filter_In. split; [exact Hin|apply bytes_eqb_refl]. }
        rewrite Hfil in H. destruct H.
  - cbn [bind]. rewrite (ftn_f_base from q c Hb). fold ents.
    rewrite (find_ext_in (mt q) (fun x => bytes_eqb (visp x) q) ents).
    2:{ intros x Hx. apply (mt_vis ents); [exact Hr|exact Hx]. }
    rewrite (filter_map_entry _ (fun x => bytes_eqb (visp x) q)) by (intro e; reflexivity).
    rewrite (filter_find_nodup ents q Hnd).
    destruct (find (fun x => bytes_eqb (visp x) q) ents) as [e|]; cbn [map entry_of snd]; reflexivity.
Qed.

(** (1) a comparison whose operands are read in the top-level scope is rewritten iff the specification says so,
    with the same setting *)
Definition operand_ok (from : flist) (e : expr) : Prop :=
  match e with ECol q _ => ref_ok d from q | _ => True end.

Theorem sel_cmp_exact from op q c r :
  scope_ok from -> ref_ok d from q -> operand_ok from r -> pg_listed d cfg ->
  sel_cmp d cfg srch from op (ECol q c) r = spec_cmp cfg srch d 1 [scope_f from] op (ECol q c) r.
Proof.
  intros Hs Hq Hr Hl. unfold sel_cmp, spec_cmp, srch_setting. cbn [left_col resolve_in].
  rewrite (col_setting_exact from q c Hs Hq Hl).
  assert (Hres : forall x : option (bytes * bytes), match x with Some y => Some y | None => None end = x) by (intros [y|]; reflexivity).
  rewrite Hres.
  destruct (setting_of cfg (resolve cfg 1 (scope_f from) q c)) as [sid|]; [|reflexivity].
  destruct (is_srch srch sid); cbn [negb]; [|reflexivity].
  destruct r as [rq rc| | | | |]; try reflexivity.
  cbn in Hr. rewrite (col_setting_exact from rq rc Hs Hr Hl). rewrite Hres.
  destruct (setting_of cfg (resolve cfg 1 (scope_f from) rq rc)) as [rsid|]; reflexivity.
Qed.

(** a left operand that is not a column (a cast, a function, a literal) is never selected *)
Lemma sel_cmp_left_not_col from op l r : left_col l = None -> sel_cmp d cfg srch from op l r = None.
Proof. unfold sel_cmp. intro H. rewrite H. reflexivity. Qed.

(** * (2) nothing else is changed *)
Section Frame.
Variable h : bytes -> option bytes.
Variable top : flist.

(** the statement without its comparisons *)
Fixpoint skel_c (c : cond) : cond :=
  match c with
  | CTrue => CTrue
  | CCmp _ _ _ => CTrue
  | CAnd a b => CAnd (skel_c a) (skel_c b)
  | COr a b => COr (skel_c a) (skel_c b)
  | CNot a => CNot (skel_c a)
  | CParen a => CParen (skel_c a)
  | CExists s => CExists (skel_s s)
  | CIn e s => CIn e (skel_s s)
  | CCmpSub op e s => CCmpSub op e (pgsk d s (skel_s s))
  end
with skel_t (t : tref) : tref :=
  match t with
  | TBase n a => TBase n a
  | TJoin l r on => TJoin (skel_t l) (skel_t r) (skel_c on)
  | TDerived s a => TDerived (skel_s s) a
  end
with skel_f (f : flist) : flist :=
  match f with FNil => FNil | FCons t tl => FCons (skel_t t) (skel_f tl) end
with skel_s (s : sel) : sel :=
  match s with Sel items f w => Sel items (skel_f f) (skel_c w) end.

Definition rw1 (x : cop * expr * expr) : cop * expr * expr :=
  let '(op, l, r) := x in rw_cmp d cfg srch h top op l r.

Local Notation RC := (rw_c d cfg srch h top).
Local Notation RT := (rw_t d cfg srch h top).
Local Notation RF := (rw_f d cfg srch h top).
Local Notation RS := (rw_s d cfg srch h top).

Fixpoint frame_c (c : cond) : skel_c (rw_c d cfg srch h top c) = skel_c c /\
                               cmps_c d (rw_c d cfg srch h top c) = map rw1 (cmps_c d c)
with frame_t (t : tref) : skel_t (rw_t d cfg srch h top t) = skel_t t /\
                          cmps_t d (rw_t d cfg srch h top t) = map rw1 (cmps_t d t)
with frame_f (f : flist) : skel_f (rw_f d cfg srch h top f) = skel_f f /\
                           cmps_f d (rw_f d cfg srch h top f) = map rw1 (cmps_f d f)
with frame_s (s : sel) : skel_s (rw_s d cfg srch h top s) = skel_s s /\
                         cmps_s d (rw_s d cfg srch h top s) = map rw1 (cmps_s d s).
Proof.
  - destruct c as [|op l r|a b|a b|a|a|s|e s|op e s].
    + split; reflexivity.
    + change (rw_c d cfg srch h top (CCmp op l r)) with (let '(op', l', r') := rw_cmp d cfg srch h top op l r in CCmp op' l' r').
      change (cmps_c d (CCmp op l r)) with [(op, l, r)].
      cbn [map]. unfold rw1. cbv beta iota. destruct (rw_cmp d cfg srch h top op l r) as [[op' l'] r']. split; reflexivity.
    + destruct (frame_c a) as [Ha Ha']. destruct (frame_c b) as [Hb Hb']. split.
      * change (CAnd (skel_c (RC a)) (skel_c (RC b)) = CAnd (skel_c a) (skel_c b)). congruence.
      * change (cmps_c d (RC a) ++ cmps_c d (RC b) = map rw1 (cmps_c d a ++ cmps_c d b)). rewrite map_app. congruence.
    + destruct (frame_c a) as [Ha Ha']. destruct (frame_c b) as [Hb Hb']. split.
      * change (COr (skel_c (RC a)) (skel_c (RC b)) = COr (skel_c a) (skel_c b)). congruence.
      * change (cmps_c d (RC a) ++ cmps_c d (RC b) = map rw1 (cmps_c d a ++ cmps_c d b)). rewrite map_app. congruence.
    + destruct (frame_c a) as [Ha Ha']. split.
      * change (CNot (skel_c (RC a)) = CNot (skel_c a)). congruence.
      * change (cmps_c d (RC a) = map rw1 (cmps_c d a)). exact Ha'.
    + destruct (frame_c a) as [Ha Ha']. split.
      * change (CParen (skel_c (RC a)) = CParen (skel_c a)). congruence.
      * change (cmps_c d (RC a) = map rw1 (cmps_c d a)). exact Ha'.
    + destruct (frame_s s) as [Hs Hs']. split.
      * change (CExists (skel_s (RS s)) = CExists (skel_s s)). congruence.
      * change (cmps_s d (RS s) = map rw1 (cmps_s d s)). exact Hs'.
    + destruct (frame_s s) as [Hs Hs']. split.
      * change (CIn e (skel_s (RS s)) = CIn e (skel_s s)). congruence.
      * change (cmps_s d (RS s) = map rw1 (cmps_s d s)). exact Hs'.
    + destruct (frame_s s) as [Hs Hs']. split.
      * change (CCmpSub op e (pgsk d (pgsk d s (RS s)) (skel_s (pgsk d s (RS s)))) = CCmpSub op e (pgsk d s (skel_s s))).
        rewrite pg_nest, Hs. reflexivity.
      * change (pgsk d [] (cmps_s d (pgsk d s (RS s))) = map rw1 (pgsk d [] (cmps_s d s))).
        rewrite pg_nest2, Hs', pg_map. reflexivity.
  - destruct t as [n a|l r on|s a].
    + split; reflexivity.
    + destruct (frame_t l) as [Hl Hl']. destruct (frame_t r) as [Hr Hr']. destruct (frame_c on) as [Ho Ho']. split.
      * change (TJoin (skel_t (RT l)) (skel_t (RT r)) (skel_c (RC on)) = TJoin (skel_t l) (skel_t r) (skel_c on)). congruence.
      * change (cmps_t d (RT l) ++ cmps_t d (RT r) ++ cmps_c d (RC on) = map rw1 (cmps_t d l ++ cmps_t d r ++ cmps_c d on)).
        rewrite !map_app. congruence.
    + destruct (frame_s s) as [Hs Hs']. split.
      * change (TDerived (skel_s (RS s)) a = TDerived (skel_s s) a). congruence.
      * change (cmps_s d (RS s) = map rw1 (cmps_s d s)). exact Hs'.
  - destruct f as [|t tl].
    + split; reflexivity.
    + destruct (frame_t t) as [Ht Ht']. destruct (frame_f tl) as [Hf Hf']. split.
      * change (FCons (skel_t (RT t)) (skel_f (RF tl)) = FCons (skel_t t) (skel_f tl)). congruence.
      * change (cmps_t d (RT t) ++ cmps_f d (RF tl) = map rw1 (cmps_t d t ++ cmps_f d tl)). rewrite map_app. congruence.
  - destruct s as [items f w].
    destruct (frame_f f) as [Hf Hf']. destruct (frame_c w) as [Hw Hw']. split.
    + change (Sel items (skel_f (RF f)) (skel_c (RC w)) = Sel items (skel_f f) (skel_c w)). congruence.
    + change (cmps_f d (RF f) ++ cmps_c d (RC w) = map rw1 (cmps_f d f ++ cmps_c d w)). rewrite map_app. congruence.
Qed.

(** a comparison that is not selected stays as written; a selected one keeps its operands below substr / convert *)
Lemma rw_cmp_unselected op l r : sel_cmp d cfg srch top op l r = None -> rw_cmp d cfg srch h top op l r = (op, l, r).
Proof. unfold rw_cmp. intro H. rewrite H. reflexivity. Qed.

Lemma rw_cmp_selected op l r sid : sel_cmp d cfg srch top op l r = Some sid ->
  exists l' r', rw_cmp d cfg srch h top op l r = (norm_op d op, l', r') /\
    (l' = ESubstr l \/ l' = EConv (ESubstr l)) /\
    (r' = r \/ r' = ESubstr r \/ exists v v', lit_of d r = Some v /\ r' = put_lit r v').
Proof.
  unfold rw_cmp. intro H. rewrite H.
  destruct r as [rq rc|v|e|e|e|n].
  - eexists _, _. split; [reflexivity|]. split; [left; reflexivity|right; left; reflexivity].
  - destruct (lit_of d (EVal v)) as [x|] eqn:El.
    + eexists _, _. split; [reflexivity|]. split; [destruct d; [left|right]; reflexivity|]. right. right. eexists _, _. split; reflexivity.
    + eexists _, _. split; [reflexivity|]. split; [left; reflexivity|left; reflexivity].
  - destruct (lit_of d (ECast e)) as [x|] eqn:El.
    + eexists _, _. split; [reflexivity|]. split; [destruct d; [left|right]; reflexivity|]. right. right. eexists _, _. split; reflexivity.
    + eexists _, _. split; [reflexivity|]. split; [left; reflexivity|left; reflexivity].
  - destruct (lit_of d (ESubstr e)) as [x|] eqn:El; [destruct d; discriminate|].
    eexists _, _. split; [reflexivity|]. split; [left; reflexivity|left; reflexivity].
  - destruct (lit_of d (EConv e)) as [x|] eqn:El; [destruct d; discriminate|].
    eexists _, _. split; [reflexivity|]. split; [left; reflexivity|left; reflexivity].
  - destruct (lit_of d (EOther n)) as [x|] eqn:El; [destruct d; discriminate|].
    eexists _, _. split; [reflexivity|]. split; [left; reflexivity|left; reflexivity].
Qed.

End Frame.

End R.
