(** C13_statements, round trip, part 7: ORDER BY lists, LIMIT forms, the tail of a select statement, base selects,
    union chains. *)
From Acra Require Import Lib.Bytes Gen.Prec Gen.SqlWords Model.SqlStmt Model.SqlStmtParse
  Proofs.SqlStmtUnfold Proofs.SqlStmtFacts Proofs.SqlStmtEqns Proofs.SqlStmtHeads Proofs.SqlStmtRT1 Proofs.SqlStmtRT2 Proofs.SqlStmtRT3
  Proofs.SqlStmtRT4 Proofs.SqlStmtRT5 Proofs.SqlStmtRT6.
From Coq Require Import Arith Lia.

Section RT.
Variable pg : bool.
Notation Cst := (Cst pg). Notation Pe := (Pe pg). Notation Pxs := (Pxs pg). Notation Pses := (Pses pg).
Notation Ssel := (Ssel pg). Notation Bsel := (Bsel pg). Notation Psel := (Psel pg). Notation Poe := (Poe pg).
Notation Pos := (Pos pg). Notation Plm := (Plm pg). Notation Pts := (Pts pg). Notation ord_body := (ord_body pg).

Ltac KL := unfold K in *; lia.
Ltac fuel f := destruct f as [|f]; [KL|].
Ltac napp := repeat (progress (rewrite <- ?app_assoc; cbn [app])).

(* ---------- ORDER BY ---------- *)
Lemma case_ONil : Pos ONil.
Proof. intros _ H. congruence. Qed.

Lemma dir_opt_plain x d : order_plain x = true -> dir_opt x d = dir_toks d.
Proof. destruct x; try reflexivity; try discriminate. cbn [order_plain dir_opt]. intros H. apply Bool.negb_true_iff in H. rewrite H. reflexivity. Qed.
Lemma dir_opt_special x d : order_plain x = false -> dir_opt x d = [].
Proof. destruct x; try reflexivity; try discriminate. cbn [order_plain dir_opt]. intros H. apply Bool.negb_false_iff in H. rewrite H. reflexivity. Qed.

Definition nodir (ts : list tok) : bool :=
  match ts with TW W_asc :: _ | TW W_desc :: _ | TW W_nulls :: _ => false | _ => true end.
Lemma pdir_toks d tail : nodir tail = true -> pdir (dir_toks d ++ tail) = (d, tail).
Proof.
  intros H. destruct d; cbn [dir_toks app pdir]; try reflexivity;
    destruct tail as [|[| | | | |w|] tail]; try reflexivity; destruct w; try reflexivity; discriminate H.
Qed.
Lemma pdir_none tail : nodir tail = true -> pdir tail = (DAsc, tail).
Proof. intros H. destruct tail as [|[| | | | |w|] tail]; try reflexivity; destruct w; try reflexivity; discriminate H. Qed.

Lemma print_orders_false_cons x d os :
  print_orders pg false (OCons x d os) = TP PComma :: ord_body (OCons x d os).
Proof. rewrite print_orders_OCons. reflexivity. Qed.
Lemma print_orders_true_cons x d os :
  print_orders pg true (OCons x d os) = TW W_order :: TW W_by :: ord_body (OCons x d os).
Proof. rewrite print_orders_OCons. reflexivity. Qed.

Lemma ostop_parts rest : ostop rest = true -> hard rest = true /\ expect_p PComma rest = None /\ nodir rest = true.
Proof.
  unfold ostop. intros H. split_andb. split; [assumption|split].
  - destruct (expect_p PComma rest); [discriminate|reflexivity].
  - destruct rest as [|[| | | | |w|] ?]; try reflexivity. destruct w; try reflexivity; discriminate.
Qed.

Lemma case_OCons x d os : Pe x -> Pos os -> Pos (OCons x d os).
Proof.
  intros [Cx _] IH Hwf _ rest Hst f Hf. rewrite wf_orders_OCons in Hwf. split_andb.
  destruct (ostop_parts rest Hst) as [Hh [Hc Hn]].
  rewrite need_orders_OCons in Hf. fuel f. rewrite porders_S. cbn [SqlStmtRT1.ord_body]. napp.
  assert (Htail : hard (print_orders pg false os ++ rest) = true /\ nodir (print_orders pg false os ++ rest) = true).
  { destruct os; [rewrite print_orders_ONil; split; assumption|rewrite print_orders_false_cons; split; reflexivity]. }
  destruct Htail as [Hth Htn].
  assert (Hdh : hard (dir_opt x d ++ print_orders pg false os ++ rest) = true).
  { destruct (order_plain x) eqn:Ep; [rewrite dir_opt_plain by exact Ep; destruct d; reflexivity|rewrite dir_opt_special by exact Ep; exact Hth]. }
  rewrite (pexpr_of_C pg x _ f Cx) by first [assumption | KL].
  assert (Hpd : pdir (dir_opt x d ++ print_orders pg false os ++ rest) = (d, print_orders pg false os ++ rest)).
  { destruct (order_plain x) eqn:Ep.
    - rewrite dir_opt_plain by exact Ep. apply pdir_toks. exact Htn.
    - rewrite dir_opt_special by exact Ep. cbn [app].
      match goal with H : _ || is_asc d = true |- _ => cbn [orb] in H; destruct d; try discriminate H end.
      apply pdir_none. exact Htn. }
  rewrite Hpd. destruct os as [|y e os'].
  - rewrite print_orders_ONil. cbn [app]. rewrite Hc. reflexivity.
  - rewrite print_orders_false_cons. cbn [app]. rewrite (expect_p_hit PComma).
    rewrite (IH ltac:(assumption) ltac:(discriminate) rest Hst f) by KL. reflexivity.
Qed.

(* ---------- LIMIT ---------- *)
Lemma lstop_parts rest : lstop rest = true ->
  hard rest = true /\ lim_head pg rest = LHNone /\ lim_head2 pg rest = L2None /\
  (forall (A : Type) (X : list tok -> A) (Y : A), match rest with TW W_offset :: r => X r | _ => Y end = Y).
Proof.
  unfold lstop. intros H. split_andb. split; [assumption|split; [|split]].
  - destruct rest as [|[| | | | |w|] ?]; try reflexivity. destruct w; try reflexivity; discriminate.
  - destruct rest as [|[| | | |p|w|] ?]; try reflexivity.
    + destruct p; try reflexivity. discriminate.
    + destruct w; try reflexivity; discriminate.
  - intros A X Y. destruct rest as [|[| | | | |w|] ?]; try reflexivity. destruct w; try reflexivity; discriminate.
Qed.

Lemma lim_head_expr t r : estart t = true -> lim_head pg (TW W_limit :: t :: r) = LHExpr (t :: r).
Proof. intros H. destruct t as [| | | |p|w|]; try reflexivity. destruct w; try reflexivity; discriminate H. Qed.

Lemma case_LNone : Plm LNone.
Proof.
  intros _ rest Hst f Hf. rewrite print_lim_LNone. cbn [app]. destruct (lstop_parts rest Hst) as [_ [H1 _]].
  unfold plim. rewrite H1. reflexivity.
Qed.

Lemma case_LOnly c : Pe c -> Plm (LOnly c).
Proof.
  intros [Cc _] Hwf rest Hst f Hf. rewrite wf_lim_LOnly in Hwf. rewrite print_lim_LOnly. rewrite need_lim_LOnly in Hf.
  destruct (lstop_parts rest Hst) as [Hh [_ [H2 _]]]. cbn [app].
  destruct (print_head pg c Hwf) as [t0 [r0 [E Hs]]]. unfold plim. rewrite E. cbn [app]. rewrite (lim_head_expr t0 _ Hs).
  change (t0 :: r0 ++ rest) with ((t0 :: r0) ++ rest). rewrite <- E.
  rewrite (pexpr_of_C pg c rest f Cc) by first [assumption | lia]. rewrite H2. reflexivity.
Qed.

Lemma case_LOffset c o : Pe c -> Pe o -> Plm (LOffset c o).
Proof.
  intros [Cc _] [Co _] Hwf rest Hst f Hf. rewrite wf_lim_LOffset in Hwf. split_andb. rewrite print_lim_LOffset. rewrite need_lim_LOffset in Hf.
  destruct (lstop_parts rest Hst) as [Hh _]. napp.
  destruct (print_head pg c ltac:(assumption)) as [t0 [r0 [E Hs]]]. unfold plim. rewrite E. cbn [app]. rewrite (lim_head_expr t0 _ Hs).
  change (t0 :: r0 ++ TW W_offset :: print pg o ++ rest) with ((t0 :: r0) ++ TW W_offset :: print pg o ++ rest). rewrite <- E.
  rewrite (pexpr_of_C pg c _ f Cc) by first [assumption | reflexivity | lia]. cbn [lim_head2].
  rewrite (pexpr_of_C pg o rest f Co) by first [assumption | lia]. reflexivity.
Qed.

Lemma lim_head2_comma r : pg = false -> lim_head2 pg (TP PComma :: r) = L2Comma r.
Proof. intros H. unfold lim_head2. rewrite H. reflexivity. Qed.

Lemma case_LComma o c : Pe o -> Pe c -> Plm (LComma o c).
Proof.
  intros [Co _] [Cc _] Hwf rest Hst f Hf. rewrite wf_lim_LComma in Hwf. split_andb. negb_hyps. rewrite print_lim_LComma. rewrite need_lim_LComma in Hf.
  destruct (lstop_parts rest Hst) as [Hh _]. napp.
  destruct (print_head pg o ltac:(assumption)) as [t0 [r0 [E Hs]]]. unfold plim. rewrite E. cbn [app]. rewrite (lim_head_expr t0 _ Hs).
  change (t0 :: r0 ++ TP PComma :: print pg c ++ rest) with ((t0 :: r0) ++ TP PComma :: print pg c ++ rest). rewrite <- E.
  rewrite (pexpr_of_C pg o _ f Co) by first [assumption | reflexivity | lia]. rewrite lim_head2_comma by assumption.
  rewrite (pexpr_of_C pg c rest f Cc) by first [assumption | lia]. reflexivity.
Qed.

Lemma lim_head_alloff r : pg = true -> lim_head pg (TW W_limit :: TW W_all :: TW W_offset :: r) = LHAllOffset r.
Proof. intros H. unfold lim_head. rewrite H. reflexivity. Qed.
Lemma lim_head_all r : pg = true ->
  (forall (A : Type) (X : list tok -> A) (Y : A), match r with TW W_offset :: r' => X r' | _ => Y end = Y) ->
  lim_head pg (TW W_limit :: TW W_all :: r) = LHAll r.
Proof.
  intros H H3. unfold lim_head. rewrite H.
  destruct r as [|[| | | | |w|] ?]; try reflexivity. destruct w; try reflexivity.
  specialize (H3 bool (fun _ => true) false). discriminate H3.
Qed.

Lemma case_LAll : Plm LAll.
Proof.
  intros Hwf rest Hst f Hf. rewrite wf_lim_LAll in Hwf. rewrite print_lim_LAll.
  destruct (lstop_parts rest Hst) as [_ [_ [_ H3]]]. cbn [app]. unfold plim. rewrite (lim_head_all rest Hwf H3). reflexivity.
Qed.

Lemma case_LAllOffset o : Pe o -> Plm (LAllOffset o).
Proof.
  intros [Co _] Hwf rest Hst f Hf. rewrite wf_lim_LAllOffset in Hwf. split_andb. rewrite print_lim_LAllOffset. rewrite need_lim_LAllOffset in Hf.
  destruct (lstop_parts rest Hst) as [Hh _]. cbn [app]. unfold plim. rewrite lim_head_alloff by assumption.
  rewrite (pexpr_of_C pg o rest f Co) by first [assumption | lia]. reflexivity.
Qed.
End RT.
