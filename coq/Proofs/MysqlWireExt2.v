(** More proofs about Model/MysqlWireExt.v: a re-serialised (changed) column definition parses back to the
    same fields (C12: rewritten messages stay well-formed). *)
From Acra Require Import Lib.Bytes Lib.Outcome Lib.GoSlice Gen.WireMysqlConsts Model.MysqlWire Model.MysqlWireExt
  Proofs.MysqlWire Proofs.MysqlWireExt.
From Coq Require Import ZifyN ZifyNat ZifyBool.
Local Open Scope Z_scope.

Lemma lstr_at_in data pos (pre : bytes) v (rest : bytes) :
  data = pre ++ put_lenenc_string v ++ rest -> pos = len pre -> small_field v ->
  lstr_at pos data = Ok (v, len (put_lenenc_string v)).
Proof.
  intros -> -> Hv. unfold lstr_at. rewrite gslice_from_app. cbn [bind].
  rewrite lenenc_string_roundtrip_gen by exact Hv. cbn [bind]. reflexivity.
Qed.

Lemma byte_at_in data pos (pre : bytes) (b : byte) (rest : bytes) :
  data = pre ++ [b] ++ rest -> pos = len pre -> byte_at pos data = Ok (b2n b).
Proof.
  intros -> ->. unfold byte_at. pose proof (len_nonneg pre).
  rewrite gindex_ok by (rewrite ?len_app; change (len [b]) with 1; pose proof (len_nonneg rest); lia).
  cbn [bind]. unfold len. rewrite Nat2Z.id, app_nth2 by lia. rewrite Nat.sub_diag. reflexivity.
Qed.

Lemma le_at_pos_in w data pos (pre : bytes) n (rest : bytes) :
  data = pre ++ le_enc w n ++ rest -> pos = len pre -> (0 < w)%nat -> (n < 256 ^ N.of_nat w)%N ->
  le_at_pos w pos data = Ok n.
Proof.
  intros -> -> Hw Hn. unfold le_at_pos. rewrite gslice_from_app. cbn [bind].
  rewrite gindex_ok by (rewrite ?len_app; unfold len; rewrite ?le_enc_length; lia).
  cbn [bind]. rewrite firstn_app_len' by (rewrite le_enc_length; reflexivity).
  rewrite le_dec_enc_small by exact Hn. reflexivity.
Qed.

Lemma skip_def rest : skip_lenenc_string (put_lenenc_string (Some (hb 0x1646566)) ++ rest) = Ok 4%nat.
Proof.
  unfold skip_lenenc_string. change (put_lenenc_string (Some (hb 0x1646566))) with (hb 0x103646566).
  change (lenenc_int (hb 0x103646566 ++ rest)) with (@Ok (N * bool * nat) (3%N, false, 1%nat)). cbn [bind].
  change (3 <? 1)%N with false. cbv iota.
  change (length (hb 0x103646566 ++ rest)) with (S (S (S (S (length rest))))).
  destruct (N.ltb_spec (N.of_nat (S (S (S (S (length rest)))) - 1)) 3); [lia|reflexivity].
Qed.

(** the MariaDB extended type info as ParseResultField accepts and keeps it: nothing (one 0 byte on the wire),
    or a length byte 1..250 followed by that many bytes *)
Definition ext_ok (maria : bool) (e : bytes) : Prop :=
  if maria then e = [] \/ exists n d, e = n2b n :: d /\ (1 <= n <= 250)%N /\ lenN d = n
  else e = [].

Definition coldef_ok (maria : bool) (f : coldef) : Prop :=
  small_field (cd_schema f) /\ small_field (cd_table f) /\ small_field (cd_org_table f) /\
  small_field (cd_name f) /\ small_field (cd_org_name f) /\ ext_ok maria (cd_ext f) /\
  (cd_charset f < 65536)%N /\ (cd_collen f < 4294967296)%N /\ (cd_type f < 256)%N /\ (cd_flag f < 65536)%N /\
  (cd_decimal f < 256)%N /\
  match cd_default f with
  | None => cd_deflen f = 0%N
  | Some d => cd_deflen f = lenN d
  end.

Lemma parse_ext_in (maria : bool) (data : bytes) pos (pre : bytes) (e : bytes) (rest : bytes) :
  data = pre ++ (if maria then (if (0 <? length e)%nat then e else [x00]) else []) ++ rest ->
  pos = len pre -> ext_ok maria e -> len data < TWO63 ->
  (if maria then parse_ext true pos data else Ok ([], pos)) = Ok (e, pos + len (if maria then (if (0 <? length e)%nat then e else [x00]) else [])).
Proof.
  intros Hd Hp He Hl. destruct maria.
  - unfold ext_ok in He. pose proof (len_nonneg pre). pose proof (len_nonneg rest).
    destruct He as [-> | [n [d [-> [Hn Hdn]]]]].
    + cbn [length Nat.ltb Nat.leb] in *. unfold parse_ext. cbn [andb].
      assert (Hdl : len data = len pre + 1 + len rest) by (rewrite Hd, !len_app; change (len [x00]) with 1; lia).
      destruct (Z.leb_spec (len data) pos); [lia|].
      rewrite (byte_at_in data pos pre x00 rest Hd Hp). cbn [bind]. change (b2n x00 =? 0)%N with true. cbv iota.
      reflexivity.
    + assert (He : (0 <? length (n2b n :: d))%nat = true) by reflexivity. rewrite He in *.
      unfold parse_ext. cbn [andb].
      assert (Hel : len (n2b n :: d) = 1 + Z.of_N n) by (unfold len, lenN in *; cbn [length]; lia).
      assert (Hdl : len data = len pre + (1 + Z.of_N n) + len rest) by (rewrite Hd, !len_app, Hel; lia).
      destruct (Z.leb_spec (len data) pos); [lia|].
      assert (Hd' : data = pre ++ [n2b n] ++ (d ++ rest)) by (rewrite Hd; reflexivity).
      rewrite (byte_at_in data pos pre (n2b n) (d ++ rest) Hd' Hp). cbn [bind].
      assert (Hbn : b2n (n2b n) = n) by (rewrite b2n_n2b; apply N.mod_small; lia).
      rewrite Hbn. destruct (N.eqb_spec n 0); [lia|].
      rewrite Hp, Hd. rewrite gslice_from_app. cbn [bind].
      assert (Hli : lenenc_int ((n2b n :: d) ++ rest) = Ok (n, false, 1%nat)).
      { unfold lenenc_int. cbn [app length Nat.eqb]. unfold idx. cbn [nth_error bind]. rewrite Hbn.
        destruct (N.eqb_spec n 251); [lia|]. destruct (N.eqb_spec n 252); [lia|].
        destruct (N.eqb_spec n 253); [lia|]. destruct (N.eqb_spec n 254); [lia|]. reflexivity. }
      rewrite Hli. cbn [bind]. rewrite <- Hd, <- Hp.
      rewrite TWO63_val in Hl.
      rewrite u64_of_int_small by (rewrite TWO64_val; lia).
      destruct (N.leb_spec (Z.to_N (len data - pos)) n); [lia|].
      assert (Hadd : u64_add n 1 = (n + 1)%N) by (unfold u64_add; rewrite TWO64N_val; apply N.mod_small; lia).
      rewrite Hadd.
      assert (Hoff : int_of_u64 (n + 1) = Z.of_N n + 1) by (unfold int_of_u64; destruct (N.ltb_spec (n + 1) 9223372036854775808); lia).
      rewrite Hoff. unfold int_add. rewrite wrap_int_small by (rewrite TWO63_val; lia).
      rewrite Hp, Hd. replace (len pre + (Z.of_N n + 1)) with (len pre + len (n2b n :: d)) by lia.
      rewrite gslice_app_mid. cbn [bind]. reflexivity.
  - unfold ext_ok in He. subst e. f_equal. f_equal. unfold len. cbn [length]. lia.
Qed.

Lemma len_le_enc w n : len (le_enc w n) = Z.of_nat w.
Proof. unfold len. rewrite le_enc_length. reflexivity. Qed.

Ltac solve_data Hdata := rewrite Hdata; repeat rewrite <- app_assoc; reflexivity.

(** ParseResultField of the payload Dump builds for a changed definition gives back the same fields, for EVERY
    field content (NULL / empty / long names, MariaDB extended type info, default value): the re-serialised
    definition is well-formed *)
Theorem mysql_coldef_changed_roundtrip maria f :
  coldef_ok maria f -> len (dump_field_payload true maria f) < TWO63 ->
  parse_result_field true maria (dump_field_payload true maria f) = Ok f.
Proof.
  destruct f as [sch tab otab nam onam ext cs cl ty fl dc dl df].
  unfold coldef_ok. cbn [cd_schema cd_table cd_org_table cd_name cd_org_name cd_ext cd_charset cd_collen cd_type cd_flag cd_decimal cd_deflen cd_default].
  intros (H1 & H2 & H3 & H4 & H5 & Hext & Hcs & Hcl & Hty & Hfl & Hdc & Hdf) Hl.
  set (S0 := put_lenenc_string (Some (hb 0x1646566))).
  set (E := if maria then (if (0 <? length ext)%nat then ext else [x00]) else []).
  set (DEF := match df with Some d => put_lenenc_int dl ++ d | None => [] end).
  set (data := dump_field_payload true maria (mk_coldef sch tab otab nam onam ext cs cl ty fl dc dl df)) in *.
  assert (Hdata : data = S0 ++ put_lenenc_string sch ++ put_lenenc_string tab ++ put_lenenc_string otab ++
                         put_lenenc_string nam ++ put_lenenc_string onam ++ E ++ [x0c] ++ le_enc 2 cs ++ le_enc 4 cl ++
                         [n2b ty] ++ le_enc 2 fl ++ [n2b dc] ++ [x00; x00] ++ DEF) by reflexivity.
  assert (HS0 : len S0 = 4) by reflexivity.
  unfold parse_result_field. cbv zeta.
  assert (Hk0 : skip_lenenc_string data = Ok 4%nat) by (rewrite Hdata; apply skip_def).
  rewrite Hk0. cbn [bind].
  rewrite (lstr_at_in data (Z.of_nat 4) S0 sch _ Hdata ltac:(reflexivity) H1). cbn [bind].
  rewrite (lstr_at_in data (Z.of_nat 4 + len (put_lenenc_string sch)) (S0 ++ put_lenenc_string sch) tab _ ltac:(solve_data Hdata) ltac:(rewrite ?len_app, HS0; lia) H2). cbn [bind].
  rewrite (lstr_at_in data (Z.of_nat 4 + len (put_lenenc_string sch) + len (put_lenenc_string tab)) (S0 ++ put_lenenc_string sch ++ put_lenenc_string tab) otab _ ltac:(solve_data Hdata) ltac:(rewrite ?len_app, HS0; lia) H3). cbn [bind].
  rewrite (lstr_at_in data (Z.of_nat 4 + len (put_lenenc_string sch) + len (put_lenenc_string tab) + len (put_lenenc_string otab)) (S0 ++ put_lenenc_string sch ++ put_lenenc_string tab ++ put_lenenc_string otab) nam _ ltac:(solve_data Hdata) ltac:(rewrite ?len_app, HS0; lia) H4). cbn [bind].
  rewrite (lstr_at_in data (Z.of_nat 4 + len (put_lenenc_string sch) + len (put_lenenc_string tab) + len (put_lenenc_string otab) + len (put_lenenc_string nam)) (S0 ++ put_lenenc_string sch ++ put_lenenc_string tab ++ put_lenenc_string otab ++ put_lenenc_string nam) onam _ ltac:(solve_data Hdata) ltac:(rewrite ?len_app, HS0; lia) H5). cbn [bind].
  set (P5 := S0 ++ put_lenenc_string sch ++ put_lenenc_string tab ++ put_lenenc_string otab ++ put_lenenc_string nam ++ put_lenenc_string onam).
  set (p5 := Z.of_nat 4 + len (put_lenenc_string sch) + len (put_lenenc_string tab) + len (put_lenenc_string otab) + len (put_lenenc_string nam) + len (put_lenenc_string onam)).
  assert (Hp5 : p5 = len P5) by (unfold p5, P5; rewrite ?len_app, HS0; lia).
  rewrite (parse_ext_in maria data p5 P5 ext _ ltac:(unfold P5; solve_data Hdata) Hp5 Hext Hl). cbn [bind].
  fold E. set (p6 := p5 + len E).
  set (TAIL := [x0c] ++ le_enc 2 cs ++ le_enc 4 cl ++ [n2b ty] ++ le_enc 2 fl ++ [n2b dc] ++ [x00; x00] ++ DEF).
  assert (Hdl : len data = p6 + 13 + len DEF).
  { rewrite Hdata. fold P5 in Hp5. unfold p6. rewrite Hp5. unfold P5. rewrite !len_app, !len_le_enc.
    change (len [x0c]) with 1. change (len [n2b ty]) with 1. change (len [n2b dc]) with 1. change (len [x00; x00]) with 2. lia. }
  pose proof (len_nonneg DEF) as HDEF.
  cbn [andb]. destruct (Z.ltb_spec (len data - p6) 11); [lia|].
  assert (Hp6 : p6 = len (P5 ++ E)) by (unfold p6; rewrite len_app, Hp5; reflexivity).
  rewrite (le_at_pos_in 2 data (p6 + 1) (P5 ++ E ++ [x0c]) cs _ ltac:(unfold P5; solve_data Hdata)
             ltac:(rewrite ?len_app; rewrite len_app in Hp6; change (len [x0c]) with 1; lia) ltac:(lia) Hcs). cbn [bind].
  rewrite (le_at_pos_in 4 data (p6 + 1 + 2) (P5 ++ E ++ [x0c] ++ le_enc 2 cs) cl _ ltac:(unfold P5; solve_data Hdata)
             ltac:(rewrite ?len_app, ?len_le_enc; rewrite len_app in Hp6; change (len [x0c]) with 1; lia) ltac:(lia) Hcl). cbn [bind].
  rewrite (byte_at_in data (p6 + 1 + 2 + 4) (P5 ++ E ++ [x0c] ++ le_enc 2 cs ++ le_enc 4 cl) (n2b ty) _ ltac:(unfold P5; solve_data Hdata)
             ltac:(rewrite ?len_app, ?len_le_enc; rewrite len_app in Hp6; change (len [x0c]) with 1; lia)). cbn [bind].
  rewrite (le_at_pos_in 2 data (p6 + 1 + 2 + 4 + 1) (P5 ++ E ++ [x0c] ++ le_enc 2 cs ++ le_enc 4 cl ++ [n2b ty]) fl _ ltac:(unfold P5; solve_data Hdata)
             ltac:(rewrite ?len_app, ?len_le_enc; rewrite len_app in Hp6; change (len [x0c]) with 1; change (len [n2b ty]) with 1; lia) ltac:(lia) Hfl). cbn [bind].
  rewrite (byte_at_in data (p6 + 1 + 2 + 4 + 1 + 2) (P5 ++ E ++ [x0c] ++ le_enc 2 cs ++ le_enc 4 cl ++ [n2b ty] ++ le_enc 2 fl) (n2b dc) _ ltac:(unfold P5; solve_data Hdata)
             ltac:(rewrite ?len_app, ?len_le_enc; rewrite len_app in Hp6; change (len [x0c]) with 1; change (len [n2b ty]) with 1; lia)). cbn [bind].
  assert (Hbty : b2n (n2b ty) = ty) by (rewrite b2n_n2b; apply N.mod_small; lia).
  assert (Hbdc : b2n (n2b dc) = dc) by (rewrite b2n_n2b; apply N.mod_small; lia).
  rewrite Hbty, Hbdc.
  set (p7 := p6 + 1 + 2 + 4 + 1 + 2 + 1 + 2).
  destruct df as [d|].
  - (* default value present *)
    subst dl. unfold DEF in *.
    assert (Hd63 : (lenN d < 9223372036854775808)%N).
    { rewrite TWO63_val in Hl. rewrite len_app in Hdl. pose proof (len_nonneg (put_lenenc_int (lenN d))). unfold len, lenN in *. lia. }
    assert (HDl : len (put_lenenc_int (lenN d) ++ d) = len (put_lenenc_int (lenN d)) + len d) by apply len_app.
    pose proof (put_lenenc_int_length_bounds (lenN d)) as Hpl.
    destruct (Z.leb_spec (len data) p7); [unfold p7, len in *; lia|].
    set (PRE := P5 ++ E ++ [x0c] ++ le_enc 2 cs ++ le_enc 4 cl ++ [n2b ty] ++ le_enc 2 fl ++ [n2b dc] ++ [x00; x00]).
    assert (HPRE : data = PRE ++ put_lenenc_int (lenN d) ++ d) by (unfold PRE, P5; solve_data Hdata).
    assert (Hp7 : p7 = len PRE).
    { unfold p7, PRE. rewrite ?len_app, ?len_le_enc. rewrite len_app in Hp6.
      change (len [x0c]) with 1. change (len [n2b ty]) with 1. change (len [n2b dc]) with 1. change (len [x00; x00]) with 2. lia. }
    rewrite Hp7. rewrite HPRE at 1. rewrite gslice_from_app. cbn [bind].
    rewrite (mysql_lenenc_roundtrip (lenN d) d) by (change (2^64)%N with 18446744073709551616%N; lia). cbn [bind].
    rewrite TWO63_val in Hl.
    rewrite u64_of_int_small by (rewrite TWO64_val; unfold len in *; lia).
    assert (Hrem : len data - (len PRE + Z.of_nat (length (put_lenenc_int (lenN d)))) = len d).
    { rewrite HPRE, !len_app. unfold len. lia. }
    rewrite Hrem.
    destruct (N.ltb_spec (Z.to_N (len d)) (lenN d)); [unfold len, lenN in *; lia|].
    assert (Hoff : int_of_u64 (lenN d) = len d) by (unfold int_of_u64; destruct (N.ltb_spec (lenN d) 9223372036854775808); unfold len, lenN in *; lia).
    rewrite Hoff. unfold int_add. rewrite wrap_int_small by (rewrite TWO63_val; unfold len in *; lia).
    assert (HPRE2 : data = (PRE ++ put_lenenc_int (lenN d)) ++ d ++ []) by (rewrite app_nil_r, <- app_assoc; exact HPRE).
    replace (len PRE + Z.of_nat (length (put_lenenc_int (lenN d)))) with (len (PRE ++ put_lenenc_int (lenN d))) by (rewrite len_app; reflexivity).
    rewrite HPRE2 at 1. rewrite gslice_app_mid. cbn [bind]. reflexivity.
  - (* no default value *)
    subst dl. unfold DEF in *. change (len []) with 0 in *.
    destruct (Z.leb_spec (len data) p7); [reflexivity|unfold p7 in *; lia].
Qed.

(** and its header declares exactly the bytes that follow, the sequence id is the one received *)
Theorem mysql_coldef_changed_frame maria p f :
  length (p_header p) = 4%nat -> (lenN (dump_field_payload true maria f) < 16777216)%N ->
  exists h, dump_field true maria true p f = h ++ dump_field_payload true maria f /\
            length h = 4%nat /\ hdr_len h = lenN (dump_field_payload true maria f) /\ hdr_seq h = hdr_seq (p_header p).
Proof.
  intros Hh Hl. unfold dump_field. cbn [negb andb]. rewrite Hh. cbn [Nat.eqb].
  exists (le_enc 3 (lenN (dump_field_payload true maria f)) ++ [hdr_seq (p_header p)]).
  split; [reflexivity|]. split; [rewrite app_length, le_enc_length; reflexivity|].
  split; [apply hdr_len_enc; exact Hl|reflexivity].
Qed.

(** the code as found: the header of the received packet stays (stale length) and the default-value length is
    written as 8 raw bytes: the re-serialised definition does not parse back *)
Theorem mysql_coldef_dump_old_refuted :
  let f := mk_coldef (Some (hb 0x173)) (Some (hb 0x174)) (Some (hb 0x174)) (Some (hb 0x16e)) (Some (hb 0x16e)) [] 33 10 253 0 0 2 (Some (hb 0x16869)) in
  parse_result_field true false (dump_field_payload true false f) = Ok f /\
  parse_result_field true false (dump_field_payload false false f) <> Ok f /\
  (* received with the catalog "xyzzy": the old Dump keeps the header 0x22 for a payload of 32 bytes *)
  hdr_len (firstn 4 (dump_field false false true (mk_packet (hb 0x122000005) []) f)) <> lenN (dump_field_payload false false f).
Proof. cbv zeta. split; [vm_compute; reflexivity|]. split; vm_compute; discriminate. Qed.

(** * COM_STMT_EXECUTE: what SetParameters leaves untouched *)

Lemma set_types_app g data bm : forall vals i pos out r,
  set_types g data bm i pos vals out = Ok r -> exists t, r = out ++ t /\ length t = (2 * length vals)%nat.
Proof.
  induction vals as [|v vals IH]; intros i pos out r H; cbn [set_types] in H.
  - injection H as <-. exists []. split; [rewrite app_nil_r; reflexivity|reflexivity].
  - destruct (gslice pos (pos + 2) data) as [pt|e|]; cbn [bind] in H; try discriminate.
    match type of H with (do f <- ?X; _) = _ => destruct X as [f|e|] end; cbn [bind] in H; try discriminate.
    apply IH in H. destruct H as [t [-> Ht]]. exists ([n2b (np_type v); f] ++ t).
    split; [rewrite <- app_assoc; reflexivity|rewrite app_length, Ht; cbn [length]; lia].
Qed.

Lemma set_values_app bm : forall vals i out r, set_values bm i vals out = Ok r -> exists t, r = out ++ t.
Proof.
  induction vals as [|v vals IH]; intros i out r H; cbn [set_values] in H.
  - injection H as <-. exists []. rewrite app_nil_r. reflexivity.
  - destruct (bitmap_bit bm (Z.of_nat i)) as [[|]|e|]; cbn [bind] in H; try discriminate.
    + apply IH in H. exact H.
    + destruct (np_encoded v) as [e|e|]; cbn [bind] in H; try discriminate.
      apply IH in H. destruct H as [t ->]. exists (e ++ t). rewrite <- app_assoc. reflexivity.
Qed.

(** whatever the new values are: command byte, statement id, flags, iteration count, NULL bitmap and the
    new-params-bound flag (the first 10 + (n+7)/8 + 1 bytes) are unchanged, two type bytes per parameter follow,
    and the header declares the new payload length with the sequence id received *)
Theorem mysql_set_parameters_wf p vals p' :
  vals <> [] -> length (p_header p) = 4%nat -> set_parameters true p vals = Ok p' ->
  let k := Z.to_nat (10 + (Z.of_nat (length vals) + 7) / 8 + 1) in
  firstn k (p_data p') = firstn k (p_data p) /\ (k <= length (p_data p))%nat /\
  (k + 2 * length vals <= length (p_data p'))%nat /\
  p_header p' = le_enc 3 (lenN (p_data p')) ++ [hdr_seq (p_header p)].
Proof.
  intros Hv Hh H. unfold set_parameters in H. cbv zeta in H. cbn [andb] in H.
  destruct (length vals =? 0)%nat eqn:Ek; [apply Nat.eqb_eq in Ek; destruct vals; [contradiction|discriminate]|].
  set (kz := 10 + (Z.of_nat (length vals) + 7) / 8 + 1) in *.
  destruct (Z.ltb_spec (len (p_data p)) (kz + 2 * Z.of_nat (length vals))); [discriminate|].
  destruct (gslice 10 (10 + (Z.of_nat (length vals) + 7) / 8) (p_data p)) as [bm|e|]; cbn [bind] in H; try discriminate.
  assert (Hk0 : 0 <= kz) by (unfold kz; lia).
  rewrite gslice_to_ok in H by lia. cbn [bind] in H.
  destruct (set_types true (p_data p) bm 0 kz vals (firstn (Z.to_nat kz) (p_data p))) as [o1|e|] eqn:E1; cbn [bind] in H; try discriminate.
  destruct (set_values bm 0 vals o1) as [o2|e|] eqn:E2; cbn [bind] in H; try discriminate.
  injection H as <-. cbv zeta. cbn [set_data p_data p_header].
  apply set_types_app in E1. destruct E1 as [t1 [-> Ht1]].
  apply set_values_app in E2. destruct E2 as [t2 ->].
  assert (Hkl : (Z.to_nat kz <= length (p_data p))%nat) by (unfold len in *; lia).
  assert (Hfl : length (firstn (Z.to_nat kz) (p_data p)) = Z.to_nat kz) by (rewrite firstn_length; lia).
  split; [|split; [exact Hkl|split]].
  - rewrite <- !app_assoc. rewrite firstn_app_len' by (symmetry; exact Hfl). reflexivity.
  - rewrite !app_length, Hfl, Ht1. lia.
  - destruct (update_size_shape (p_header p) (lenN ((firstn (Z.to_nat kz) (p_data p) ++ t1) ++ t2)) Hh) as [-> _]. reflexivity.
Qed.
