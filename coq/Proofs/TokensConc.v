(** Concurrent tokenize calls: every interleaving (scheduler = list of process ids, with
    enable/disable maintenance in between) keeps the invariant "a finished consistent call's
    token is what its h-record holds", hence all finished calls on one key agree. *)
From Acra Require Import Lib.Bytes Lib.Outcome Lib.Sha256 Gen.TokenConsts Model.Tokens Proofs.Tokens.

Inductive event := EvStep (i : nat) | EvVisit (f : nat -> bool -> action).
Definition sys := ((store * tape) * list (call * pst))%type.
Definition sys_step (enc : bool) (x : sys) (e : event) : sys :=
  match e with
  | EvStep i => step_nth enc i (snd x) (fst x)
  | EvVisit f => ((visit f (fst (fst x)), snd (fst x)), snd x)
  end.
Definition run_events (enc : bool) (es : list event) (x : sys) : sys := fold_left (sys_step enc) es x.
Definition no_remove (e : event) : Prop :=
  match e with EvVisit f => forall n b, f n b <> ARemove | EvStep _ => True end.
Definition init_procs (calls : list call) : list (call * pst) := map (fun c => (c, pinit c)) calls.

(** the model's scheduler is the event system restricted to steps *)
Lemma run_sched_events enc sched cs st :
  run_sched enc sched cs st = run_events enc (map EvStep sched) (st, cs).
Proof.
  revert cs st. induction sched as [|i r IH]; intros cs st; cbn [run_sched map run_events fold_left]; [reflexivity|].
  cbn [sys_step fst snd]. destruct (step_nth enc i cs st) as [st' cs']. rewrite IH. reflexivity.
Qed.

Definition proc_ok (s : store) (cp : call * pst) : Prop :=
  wf_pst (fst cp) (snd cp) /\
  (c_mode (fst cp) = Consistent -> forall tok, snd cp = PDone (Ok tok) -> hfact (fst cp) s tok).

Lemma proc_ok_dmono s s' cp : dmono s s' -> proc_ok s cp -> proc_ok s' cp.
Proof.
  intros M [W F]. split; [exact W|]. intros Hm tok Hp. eapply hfact_dmono; [exact M| exact (F Hm tok Hp)].
Qed.

Lemma proc_ok_init s c : proc_ok s (c, pinit c).
Proof.
  split; cbn [fst snd].
  - unfold pinit, gen_start. destruct (c_mode c); [destruct TOK_LOOP_LIMIT|]; exact I.
  - intros M tok H. unfold pinit in H. rewrite M in H. discriminate.
Qed.

Lemma pstep_proc_ok enc c s t p s1 t1 p1 :
  proc_ok s (c, p) -> pstep enc c (s, t) p = ((s1, t1), p1) -> proc_ok s1 (c, p1) /\ ext s s1.
Proof.
  intros [W F] P. cbn [fst snd] in *. pose proof (pstep_ext _ _ _ _ _ _ _ _ P) as E.
  split; [|exact E]. split; cbn [fst snd].
  - eapply pstep_wf; [exact W| exact P].
  - intros M tok ->. destruct (pdone p) eqn:D.
    + destruct p as [| | |r]; try discriminate D. rewrite pstep_done in P. injection P as <- <- Hr. subst r.
      exact (F M tok eq_refl).
    + eapply pstep_done_fact; eassumption.
Qed.

Lemma step_nth_inv enc i : forall cs s t s' t' cs',
  step_nth enc i cs (s, t) = ((s', t'), cs') ->
  Forall (proc_ok s) cs -> Forall (proc_ok s') cs' /\ ext s s'.
Proof.
  induction i as [|i IH]; intros cs s t s' t' cs'; destruct cs as [|[c p] r]; cbn [step_nth].
  - intros [= <- _ <-] _. split; [constructor| apply ext_refl].
  - destruct (pstep enc c (s, t) p) as [[s1 t1] p1] eqn:P. intros [= <- _ <-] HF.
    inversion HF as [|x l Hx Hl]; subst.
    destruct (pstep_proc_ok _ _ _ _ _ _ _ _ Hx P) as [Hok E]. split; [|exact E].
    constructor; [exact Hok|]. eapply Forall_impl; [|exact Hl]. intros cp. apply proc_ok_dmono, ext_dmono, E.
  - intros [= <- _ <-] _. split; [constructor| apply ext_refl].
  - destruct (step_nth enc i r (s, t)) as [[s1 t1] r'] eqn:R. intros [= <- _ <-] HF.
    inversion HF as [|x l Hx Hl]; subst.
    destruct (IH _ _ _ _ _ _ R Hl) as [Hr E]. split; [|exact E].
    constructor; [|exact Hr]. eapply proc_ok_dmono; [apply ext_dmono, E| exact Hx].
Qed.

Definition sys_inv (x : sys) : Prop := Forall (proc_ok (fst (fst x))) (snd x).

Lemma sys_step_inv enc x e : no_remove e -> sys_inv x -> sys_inv (sys_step enc x e).
Proof.
  destruct x as [[s t] cs]. unfold sys_inv. destruct e as [i|f]; cbn [sys_step fst snd no_remove]; intros NR HF.
  - destruct (step_nth enc i cs (s, t)) as [[s' t'] cs'] eqn:S. cbn [fst snd].
    exact (proj1 (step_nth_inv _ _ _ _ _ _ _ _ S HF)).
  - eapply Forall_impl; [|exact HF]. intros cp. apply proc_ok_dmono, visit_dmono, NR.
Qed.

Lemma run_events_inv enc es : forall x, Forall no_remove es -> sys_inv x -> sys_inv (run_events enc es x).
Proof.
  induction es as [|e r IH]; intros x NR HI; cbn [run_events fold_left]; [exact HI|].
  inversion NR; subst. apply IH; [assumption|]. apply sys_step_inv; assumption.
Qed.

Lemma sys_inv_agree x c1 c2 tok1 tok2 :
  sys_inv x ->
  In (c1, PDone (Ok tok1)) (snd x) -> In (c2, PDone (Ok tok2)) (snd x) ->
  c_mode c1 = Consistent -> c_mode c2 = Consistent ->
  c_val c1 = c_val c2 -> c_ctx c1 = c_ctx c2 -> c_ty c1 = c_ty c2 -> tok1 = tok2.
Proof.
  intros HI I1 I2 M1 M2 Hv Hc Ht. unfold sys_inv in HI. rewrite Forall_forall in HI.
  destruct (HI _ I1) as [_ F1]. destruct (HI _ I2) as [_ F2]. cbn [fst snd] in *.
  destruct (F1 M1 tok1 eq_refl) as [e1 [L1 B1]]. destruct (F2 M2 tok2 eq_refl) as [e2 [L2 B2]].
  unfold cx_of, hk_of in *. rewrite Hv, Hc, Ht in L1. rewrite L1 in L2. injection L2 as <-.
  rewrite Ht in B1. rewrite B1 in B2. injection B2 as <-. reflexivity.
Qed.

(** all interleavings, any number of calls, any initial store and tape, maintenance without
    removal in between: finished consistent calls on the same (value, context, type) agree *)
Lemma consistent_same_token_events enc es calls s0 t0 c1 c2 tok1 tok2 :
  Forall no_remove es ->
  let x := run_events enc es ((s0, t0), init_procs calls) in
  In (c1, PDone (Ok tok1)) (snd x) -> In (c2, PDone (Ok tok2)) (snd x) ->
  c_mode c1 = Consistent -> c_mode c2 = Consistent ->
  c_val c1 = c_val c2 -> c_ctx c1 = c_ctx c2 -> c_ty c1 = c_ty c2 -> tok1 = tok2.
Proof.
  intros NR x. apply sys_inv_agree. apply run_events_inv; [exact NR|].
  unfold sys_inv, init_procs. cbn [fst snd]. apply Forall_forall. intros cp Hin.
  apply in_map_iff in Hin as [c [<- _]]. apply proc_ok_init.
Qed.

(** the same for the model's [run_sched] followed by [drain] (what [run_concurrent] computes) *)
Lemma run_solo_inv enc fuel c : forall s t p s1 t1 p1,
  run_solo enc fuel c (s, t) p = ((s1, t1), p1) -> proc_ok s (c, p) -> proc_ok s1 (c, p1) /\ ext s s1.
Proof.
  induction fuel as [|f IH]; intros s t p s1 t1 p1; cbn [run_solo].
  - intros [= <- _ <-] H. split; [exact H| apply ext_refl].
  - destruct (pdone p); [intros [= <- _ <-] H; split; [exact H| apply ext_refl]|].
    destruct (pstep enc c (s, t) p) as [[s2 t2] p2] eqn:P. intros R H.
    destruct (pstep_proc_ok _ _ _ _ _ _ _ _ H P) as [H2 E2].
    destruct (IH _ _ _ _ _ _ R H2) as [H3 E3]. split; [exact H3| eapply ext_trans; eassumption].
Qed.

Lemma drain_inv enc : forall cs s t s' t' cs',
  drain enc cs (s, t) = ((s', t'), cs') -> Forall (proc_ok s) cs -> Forall (proc_ok s') cs' /\ ext s s'.
Proof.
  induction cs as [|[c p] r IH]; intros s t s' t' cs'; cbn [drain].
  - intros [= <- _ <-] _. split; [constructor| apply ext_refl].
  - destruct (run_solo enc SOLO_FUEL c (s, t) p) as [[s1 t1] p1] eqn:R.
    destruct (drain enc r (s1, t1)) as [[s2 t2] r'] eqn:D. intros [= <- _ <-] HF.
    inversion HF as [|x l Hx Hl]; subst.
    destruct (run_solo_inv _ _ _ _ _ _ _ _ _ R Hx) as [H1 E1].
    assert (Forall (proc_ok s1) r) as Hl1.
    { eapply Forall_impl; [|exact Hl]. intros cp. apply proc_ok_dmono, ext_dmono, E1. }
    destruct (IH _ _ _ _ _ D Hl1) as [Hr E2]. split; [|eapply ext_trans; eassumption].
    constructor; [|exact Hr]. eapply proc_ok_dmono; [apply ext_dmono, E2| exact H1].
Qed.

Definition run_concurrent_procs (enc : bool) (calls : list call) (sched : list nat) (s : store) (t : tape) : sys :=
  let '(st1, cs1) := run_sched enc sched (init_procs calls) (s, t) in drain enc cs1 st1.

Lemma run_concurrent_procs_spec enc calls sched s t :
  run_concurrent enc calls sched s t =
  (fst (fst (run_concurrent_procs enc calls sched s t)),
   map (fun cp => presult (snd cp)) (snd (run_concurrent_procs enc calls sched s t))).
Proof.
  unfold run_concurrent, run_concurrent_procs, init_procs.
  destruct (run_sched enc sched _ (s, t)) as [st1 cs1]. destruct (drain enc cs1 st1) as [[s2 t2] cs2]. reflexivity.
Qed.

Lemma consistent_same_token_concurrent enc calls sched s0 t0 c1 c2 tok1 tok2 :
  let x := run_concurrent_procs enc calls sched s0 t0 in
  In (c1, PDone (Ok tok1)) (snd x) -> In (c2, PDone (Ok tok2)) (snd x) ->
  c_mode c1 = Consistent -> c_mode c2 = Consistent ->
  c_val c1 = c_val c2 -> c_ctx c1 = c_ctx c2 -> c_ty c1 = c_ty c2 -> tok1 = tok2.
Proof.
  intros x. apply sys_inv_agree. unfold x, run_concurrent_procs. rewrite run_sched_events.
  pose proof (run_events_inv enc (map EvStep sched) ((s0, t0), init_procs calls)) as HI.
  destruct (run_events enc (map EvStep sched) ((s0, t0), init_procs calls)) as [[s1 t1] cs1].
  assert (sys_inv ((s1, t1), cs1)) as H1.
  { apply HI.
    - apply Forall_forall. intros e Hin. apply in_map_iff in Hin as [i [<- _]]. exact I.
    - unfold sys_inv, init_procs. cbn [fst snd]. apply Forall_forall. intros cp Hin.
      apply in_map_iff in Hin as [c [<- _]]. apply proc_ok_init. }
  unfold sys_inv in *. cbn [fst snd] in H1.
  destruct (drain enc cs1 (s1, t1)) as [[s2 t2] cs2] eqn:D. cbn [fst snd].
  exact (proj1 (drain_inv _ _ _ _ _ _ _ D H1)).
Qed.

(** the premise "no removal" is necessary: a concrete history where the record is removed between
    two consistent calls on the same value (computed in Properties/C10.v) *)

(** ** another client's context never sees a record *)
Definition ctx_closed (P : bytes -> Prop) (s : store) : Prop := forall e, In e s -> P (e_ctx e).

Lemma step_nth_ctx enc (P : bytes -> Prop) i : forall cs s t s' t' cs',
  step_nth enc i cs (s, t) = ((s', t'), cs') ->
  Forall (fun cp => P (cx_of (fst cp))) cs -> ctx_closed P s -> ctx_closed P s'.
Proof.
  induction i as [|i IH]; intros cs s t s' t' cs'; destruct cs as [|[c p] r]; cbn [step_nth].
  - intros [= <- _ _] _ H. exact H.
  - destruct (pstep enc c (s, t) p) as [[s1 t1] p1] eqn:S. intros [= <- _ _] HF HC e Hin.
    inversion HF as [|x l Hx Hl]; subst. cbn [fst] in Hx.
    destruct (pstep_new_entries _ _ _ _ _ _ _ _ _ S Hin) as [H| ->]; [apply HC, H| exact Hx].
  - intros [= <- _ _] _ H. exact H.
  - destruct (step_nth enc i r (s, t)) as [[s1 t1] r'] eqn:R. intros [= <- _ _] HF HC.
    inversion HF as [|x l Hx Hl]; subst. exact (IH _ _ _ _ _ _ R Hl HC).
Qed.

Lemma step_nth_calls enc i : forall cs st, map fst (snd (step_nth enc i cs st)) = map fst cs.
Proof.
  induction i as [|i IH]; intros cs st; destruct cs as [|[c p] r]; cbn [step_nth]; try reflexivity.
  - destruct (pstep enc c st p) as [st' p']. reflexivity.
  - specialize (IH r st). destruct (step_nth enc i r st) as [st' r']. cbn [snd map fst] in *. rewrite IH. reflexivity.
Qed.

Lemma run_events_ctx enc (P : bytes -> Prop) es : forall x,
  Forall (fun c => P (cx_of c)) (map fst (snd x)) -> ctx_closed P (fst (fst x)) ->
  ctx_closed P (fst (fst (run_events enc es x))).
Proof.
  induction es as [|e r IH]; intros x HF HC; cbn [run_events fold_left]; [exact HC|].
  apply IH.
  - destruct e as [i|f]; cbn [sys_step snd]; [|exact HF].
    rewrite step_nth_calls. exact HF.
  - destruct x as [[s t] cs]. destruct e as [i|f]; cbn [sys_step fst snd] in *.
    + destruct (step_nth enc i cs (s, t)) as [[s' t'] cs'] eqn:S. cbn [fst].
      eapply step_nth_ctx; [exact S| |exact HC]. rewrite Forall_map in HF. exact HF.
    + intros e Hin. destruct (visit_ctx _ _ _ Hin) as [e0 [H0 ->]]. apply HC, H0.
Qed.

(** from an empty store, after any history (all interleavings, any maintenance) of calls made in
    other contexts, a client whose context hash differs gets every token back unchanged *)
Lemma foreign_client_gets_token enc es calls t0 c ty tok :
  Forall (fun cl => cx_of cl <> agg_ctx c) calls ->
  deanonymize (fst (fst (run_events enc es (([], t0), init_procs calls)))) c ty tok = Ok tok.
Proof.
  intros HF. apply deanonymize_foreign.
  apply (run_events_ctx enc (fun k => k <> agg_ctx c)).
  - cbn [snd]. unfold init_procs. rewrite map_map. cbn [fst]. rewrite map_id. exact HF.
  - intros e [].
Qed.

(** ** sequential form: a finished call, then ANY history without removal (interleaved calls of
    anybody, enable/disable maintenance passes), then another call on the same value *)
Lemma step_nth_ext enc i : forall cs s t s' t' cs',
  step_nth enc i cs (s, t) = ((s', t'), cs') -> ext s s'.
Proof.
  induction i as [|i IH]; intros cs s t s' t' cs'; destruct cs as [|[c p] r]; cbn [step_nth].
  - intros [= <- _ _]. apply ext_refl.
  - destruct (pstep enc c (s, t) p) as [[s1 t1] p1] eqn:P. intros [= <- _ _]. exact (pstep_ext _ _ _ _ _ _ _ _ P).
  - intros [= <- _ _]. apply ext_refl.
  - destruct (step_nth enc i r (s, t)) as [[s1 t1] r'] eqn:R. intros [= <- _ _]. exact (IH _ _ _ _ _ _ R).
Qed.

Lemma run_events_dmono enc es : forall x, Forall no_remove es ->
  dmono (fst (fst x)) (fst (fst (run_events enc es x))).
Proof.
  induction es as [|e r IH]; intros x NR; cbn [run_events fold_left]; [apply dmono_refl|].
  inversion NR as [|e0 l He Hr]; subst. eapply dmono_trans; [|exact (IH _ Hr)].
  destruct x as [[s t] cs]. destruct e as [i|f]; cbn [sys_step fst snd no_remove] in *.
  - destruct (step_nth enc i cs (s, t)) as [[s' t'] cs'] eqn:S. cbn [fst].
    apply ext_dmono. exact (step_nth_ext _ _ _ _ _ _ _ _ S).
  - apply visit_dmono, He.
Qed.

Lemma tokenize_hfact enc c s t s1 tok :
  c_mode c = Consistent -> tokenize enc c s t = (s1, Ok tok) -> hfact c s1 tok /\ ext s s1.
Proof.
  intros M T. unfold tokenize in T.
  destruct (run_solo enc SOLO_FUEL c (s, t) (pinit c)) as [[s' t'] p] eqn:R. injection T as <- P.
  destruct (run_solo_inv _ _ _ _ _ _ _ _ _ R (proc_ok_init s c)) as [[_ F] E]. cbn [fst snd] in F.
  split; [|exact E]. apply (F M). destruct p as [tr|tr m|tr tk|r]; cbn [presult] in P; try discriminate P.
  rewrite P. reflexivity.
Qed.

Lemma consistent_across_maintenance enc c1 c2 s0 t1 s1 tok1 es calls t' t2 s3 tok2 :
  c_mode c1 = Consistent -> c_mode c2 = Consistent ->
  c_val c1 = c_val c2 -> c_ctx c1 = c_ctx c2 -> c_ty c1 = c_ty c2 ->
  Forall no_remove es ->
  tokenize enc c1 s0 t1 = (s1, Ok tok1) ->
  tokenize enc c2 (fst (fst (run_events enc es ((s1, t'), init_procs calls)))) t2 = (s3, Ok tok2) ->
  tok1 = tok2.
Proof.
  intros M1 M2 Hv Hc Ht NR T1 T2.
  destruct (tokenize_hfact _ _ _ _ _ _ M1 T1) as [F1 _].
  destruct (tokenize_hfact _ _ _ _ _ _ M2 T2) as [F2 E2].
  pose proof (run_events_dmono enc es ((s1, t'), init_procs calls) NR) as D. cbn [fst] in D.
  assert (hfact c1 s3 tok1) as F1'.
  { eapply hfact_dmono; [|exact F1]. eapply dmono_trans; [exact D| apply ext_dmono, E2]. }
  apply (sys_inv_agree ((s3, t2), [(c1, PDone (Ok tok1)); (c2, PDone (Ok tok2))]) c1 c2); try assumption.
  - unfold sys_inv. cbn [fst snd]. repeat constructor; cbn [fst snd]; try exact I.
    + intros _ tok [= <-]. exact F1'.
    + intros _ tok [= <-]. exact F2.
  - left. reflexivity.
  - right. left. reflexivity.
Qed.
