(** C19 proofs, part 1: decimal text <-> integers <-> big-endian two's complement, hex round trip. *)
From Acra Require Import Lib.Bytes Lib.Outcome Gen.TypedConsts Model.Typed.
From Coq Require Import ZifyN ZifyNat ZifyBool.
Local Open Scope N_scope.

(** * digits *)
Lemma digit_byte_spec d : d < 10 -> is_digit (digit_byte d) = true /\ dval (digit_byte d) = d.
Proof.
  intros H. unfold is_digit, dval, digit_byte, inr. rewrite b2n_n2b.
  rewrite N.mod_small by lia. split; [|lia].
  apply andb_true_iff; split; apply N.leb_le; lia.
Qed.

Lemma parse_digits_app ds d a :
  d < 10 ->
  parse_digits (ds ++ [digit_byte d]) a =
  match parse_digits ds a with Some v => Some (10 * v + d) | None => None end.
Proof.
  intros Hd. revert a; induction ds as [|c r IH]; intros a; cbn [app parse_digits].
  - destruct (digit_byte_spec d Hd) as [H1 H2]. rewrite H1, H2. reflexivity.
  - destruct (is_digit c); [apply IH| reflexivity].
Qed.

Lemma digits_fuel_spec f : forall n (acc : bytes),
  n < 10 ^ N.of_nat (S f) ->
  exists ds : bytes, digits_fuel (S f) n acc = ds ++ acc /\ ds <> [] /\ parse_digits ds 0 = Some n.
Proof.
  induction f as [|f IH]; intros n acc Hn.
  - change (10 ^ N.of_nat 1) with 10 in Hn.
    exists [digit_byte (n mod 10)]. cbn [digits_fuel].
    split; [destruct (n <? 10); reflexivity|]. split; [discriminate|].
    cbn [parse_digits]. destruct (digit_byte_spec (n mod 10)) as [H1 H2]; [lia|].
    rewrite H1, H2. f_equal. lia.
  - cbn [digits_fuel]. destruct (N.ltb_spec n 10) as [Hlt|Hge].
    + exists [digit_byte (n mod 10)]. split; [reflexivity|]. split; [discriminate|].
      cbn [parse_digits]. destruct (digit_byte_spec (n mod 10)) as [H1 H2]; [lia|].
      rewrite H1, H2. f_equal. lia.
    + assert (Hq : n / 10 < 10 ^ N.of_nat (S f)).
      { rewrite (Nat2N.inj_succ (S f)), N.pow_succ_r' in Hn. lia. }
      destruct (IH (n / 10) (digit_byte (n mod 10) :: acc) Hq) as (ds & E & Hne & Hp).
      exists (ds ++ [digit_byte (n mod 10)]). split; [|split].
      * change (digits_fuel (S f) (n / 10) (digit_byte (n mod 10) :: acc)
                = (ds ++ [digit_byte (n mod 10)]) ++ acc).
        rewrite E, <- app_assoc. reflexivity.
      * destruct ds; discriminate.
      * rewrite parse_digits_app by lia. rewrite Hp. f_equal. lia.
Qed.

Lemma print_nat_spec n :
  n < 100000000000000000000 ->
  exists (c : byte) (r : bytes), print_nat n = c :: r /\ is_digit c = true /\ parse_digits (c :: r) 0 = Some n.
Proof.
  intros Hn. unfold print_nat.
  destruct (digits_fuel_spec 19 n [] Hn) as (ds & E & Hne & Hp).
  rewrite app_nil_r in E. destruct ds as [|c r]; [congruence|].
  exists c, r. split; [exact E|]. split; [|exact Hp].
  cbn [parse_digits] in Hp. destruct (is_digit c); [reflexivity| discriminate].
Qed.

Lemma digit_not_sign c : is_digit c = true -> (b2n c =? 45) = false /\ (b2n c =? 43) = false.
Proof.
  unfold is_digit, inr. intros H. apply andb_true_iff in H as [H1 H2].
  apply N.leb_le in H1. split; apply N.eqb_neq; lia.
Qed.

(** ParseInt (FormatInt z) = z for every z of the width *)
Lemma parse_print_int bits z :
  (- Z.of_N (2 ^ (bits - 1)) <= z < Z.of_N (2 ^ (bits - 1)))%Z ->
  (Z.abs z < 100000000000000000000)%Z ->
  parse_int bits (print_int z) = Some z.
Proof.
  intros Hr Hb. unfold print_int. destruct (Z.ltb_spec z 0) as [Hneg|Hpos].
  - destruct (print_nat_spec (Z.to_N (- z))) as (c & r & E & Hd & Hp); [lia|].
    rewrite E. unfold parse_int. change (b2n x2d =? 45) with true. cbn [orb].
    unfold parse_uint. rewrite Hp.
    destruct (N.leb_spec (Z.to_N (- z)) (2 ^ (bits - 1))) as [Hle|Hgt]; [f_equal; lia| lia].
  - destruct (print_nat_spec (Z.to_N z)) as (c & r & E & Hd & Hp); [lia|].
    rewrite E. unfold parse_int. destruct (digit_not_sign c Hd) as [H1 H2]. rewrite H1, H2. cbn [orb].
    unfold parse_uint. rewrite Hp.
    destruct (N.ltb_spec (Z.to_N z) (2 ^ (bits - 1))) as [Hlt|Hge]; [f_equal; lia| lia].
Qed.

Lemma parse_print_int32 z :
  (-2147483648 <= z < 2147483648)%Z -> parse_int 32 (print_int z) = Some z.
Proof. intros H. apply parse_print_int; change (2 ^ (32 - 1)) with 2147483648; lia. Qed.

Lemma parse_print_int64 z :
  (-9223372036854775808 <= z < 9223372036854775808)%Z -> parse_int 64 (print_int z) = Some z.
Proof. intros H. apply parse_print_int; change (2 ^ (64 - 1)) with 9223372036854775808; lia. Qed.

(** what ParseInt accepts is in range *)
Lemma parse_int_range bits s z :
  parse_int bits s = Some z -> (- Z.of_N (2 ^ (bits - 1)) <= z < Z.of_N (2 ^ (bits - 1)))%Z.
Proof.
  unfold parse_int. destruct s as [|c r]; [discriminate|].
  destruct (parse_uint _) as [un|]; [|discriminate].
  destruct (b2n c =? 45).
  - destruct (N.leb_spec un (2 ^ (bits - 1))); [|discriminate]. intros [= <-]. lia.
  - destruct (N.ltb_spec un (2 ^ (bits - 1))); [|discriminate]. intros [= <-]. lia.
Qed.

(** * big-endian two's complement *)
Lemma be_of_int_length w z : length (be_of_int w z) = w.
Proof. unfold be_of_int. apply be_enc_length. Qed.

Lemma int_of_be_of_int4 z :
  (-2147483648 <= z < 2147483648)%Z -> int_of_be (be_of_int 4 z) = z.
Proof.
  intros H. unfold int_of_be. rewrite be_of_int_length. unfold be_of_int.
  change (Z.of_nat (8 * 4)) with 32%Z. change (2 ^ 32)%Z with 4294967296%Z.
  change (256 ^ N.of_nat 4) with 4294967296.
  rewrite be_dec_enc_small by (change (256 ^ N.of_nat 4) with 4294967296; lia).
  destruct (N.ltb_spec (2 * Z.to_N (z mod 4294967296)) 4294967296); lia.
Qed.

Lemma int_of_be_of_int8 z :
  (-9223372036854775808 <= z < 9223372036854775808)%Z -> int_of_be (be_of_int 8 z) = z.
Proof.
  intros H. unfold int_of_be. rewrite be_of_int_length. unfold be_of_int.
  change (Z.of_nat (8 * 8)) with 64%Z. change (2 ^ 64)%Z with 18446744073709551616%Z.
  change (256 ^ N.of_nat 8) with 18446744073709551616.
  rewrite be_dec_enc_small by (change (256 ^ N.of_nat 8) with 18446744073709551616; lia).
  destruct (N.ltb_spec (2 * Z.to_N (z mod 18446744073709551616)) 18446744073709551616); lia.
Qed.

Lemma be_of_int_of_be4 (bs : bytes) : length bs = 4%nat -> be_of_int 4 (int_of_be bs) = bs.
Proof.
  intros L. unfold be_of_int, int_of_be. rewrite L.
  change (Z.of_nat (8 * 4)) with 32%Z. change (2 ^ 32)%Z with 4294967296%Z.
  change (256 ^ N.of_nat 4) with 4294967296.
  pose proof (be_dec_lt bs) as Hlt. rewrite L in Hlt. change (256 ^ N.of_nat 4) with 4294967296 in Hlt.
  replace (Z.to_N ((if 2 * be_dec bs <? 4294967296 then Z.of_N (be_dec bs)
                    else (Z.of_N (be_dec bs) - Z.of_N 4294967296)%Z) mod 4294967296)) with (be_dec bs).
  - rewrite <- L. apply be_enc_dec.
  - destruct (N.ltb_spec (2 * be_dec bs) 4294967296); lia.
Qed.

Lemma be_of_int_of_be8 (bs : bytes) : length bs = 8%nat -> be_of_int 8 (int_of_be bs) = bs.
Proof.
  intros L. unfold be_of_int, int_of_be. rewrite L.
  change (Z.of_nat (8 * 8)) with 64%Z. change (2 ^ 64)%Z with 18446744073709551616%Z.
  change (256 ^ N.of_nat 8) with 18446744073709551616.
  pose proof (be_dec_lt bs) as Hlt. rewrite L in Hlt. change (256 ^ N.of_nat 8) with 18446744073709551616 in Hlt.
  replace (Z.to_N ((if 2 * be_dec bs <? 18446744073709551616 then Z.of_N (be_dec bs)
                    else (Z.of_N (be_dec bs) - Z.of_N 18446744073709551616)%Z) mod 18446744073709551616)) with (be_dec bs).
  - rewrite <- L. apply be_enc_dec.
  - destruct (N.ltb_spec (2 * be_dec bs) 18446744073709551616); lia.
Qed.

Lemma int_of_be_range4 (bs : bytes) : length bs = 4%nat -> (-2147483648 <= int_of_be bs < 2147483648)%Z.
Proof.
  intros L. unfold int_of_be. rewrite L. change (256 ^ N.of_nat 4) with 4294967296.
  pose proof (be_dec_lt bs) as Hlt. rewrite L in Hlt. change (256 ^ N.of_nat 4) with 4294967296 in Hlt.
  destruct (N.ltb_spec (2 * be_dec bs) 4294967296); lia.
Qed.

Lemma int_of_be_range8 (bs : bytes) :
  length bs = 8%nat -> (-9223372036854775808 <= int_of_be bs < 9223372036854775808)%Z.
Proof.
  intros L. unfold int_of_be. rewrite L. change (256 ^ N.of_nat 8) with 18446744073709551616.
  pose proof (be_dec_lt bs) as Hlt. rewrite L in Hlt. change (256 ^ N.of_nat 8) with 18446744073709551616 in Hlt.
  destruct (N.ltb_spec (2 * be_dec bs) 18446744073709551616); lia.
Qed.

(** * hex: DecodeEscaped (PgEncodeToHex d) = d *)
Lemma hex_byte_roundtrip b :
  unhex_digit (hex_digit (b2n b / 16)) = Some (b2n b / 16) /\
  unhex_digit (hex_digit (b2n b mod 16)) = Some (b2n b mod 16) /\
  n2b (16 * (b2n b / 16) + b2n b mod 16) = b.
Proof. destruct b; vm_compute; repeat split; reflexivity. Qed.

Lemma hex_decode_encode (d : bytes) : hex_decode (hex_encode d) = Some d.
Proof.
  induction d as [|b r IH]; [reflexivity|].
  cbn [hex_encode hex_decode]. destruct (hex_byte_roundtrip b) as (H1 & H2 & H3).
  rewrite H1, H2, IH, H3. reflexivity.
Qed.

Lemma decode_escaped_pg_hex (d : bytes) : decode_escaped (pg_hex d) = Ok d.
Proof.
  unfold pg_hex, decode_escaped. change (b2n x5c =? 92) with true. change (b2n x78 =? 120) with true.
  cbn [andb]. rewrite hex_decode_encode. reflexivity.
Qed.
