(** C13_statements, round trip, part 2: computation lemmas of the expression parser and the cases of the mutual
    induction for expression nodes. *)
From Acra Require Import Lib.Bytes Gen.Prec Gen.SqlWords Model.SqlStmt Model.SqlStmtParse
  Proofs.SqlStmtUnfold Proofs.SqlStmtFacts Proofs.SqlStmtHeads Proofs.SqlStmtRT1.
From Coq Require Import Arith Lia.

Section RT.
Variable pg : bool.
Notation Cst := (Cst pg). Notation Ust := (Ust pg). Notation Ast := (Ast pg). Notation Pe := (Pe pg).
Notation Pxs := (Pxs pg). Notation Pses := (Pses pg). Notation Pws := (Pws pg). Notation Poe := (Poe pg).
Notation Ssel := (Ssel pg). Notation pac := (pac pg).

(* ---------- first tokens of atoms ---------- *)
Definition astart (t : tok) : bool :=
  estart t && match t with
              | TW W_not | TW W_binary | TW W__binary | TP PMinus | TP PPlus | TP PTilde | TP PBang => false
              | _ => true
              end.
Lemma astart_un t r : astart t = true -> un_head (t :: r) = None.
Proof. destruct t as [| | | |p|w|]; try reflexivity; [destruct p|destruct w]; try reflexivity; discriminate. Qed.
Lemma astart_not t r : astart t = true -> expect_w W_not (t :: r) = None.
Proof. intros H. apply expect_w_miss. intros r' E. inversion E; subst. discriminate H. Qed.
Lemma astart_estart t : astart t = true -> estart t = true.
Proof. unfold astart. intros H. apply andb_prop in H as [H _]. exact H. Qed.

Lemma fname_tok_astart n cls : fname_class n = Some cls -> astart (raw_tok n) = true.
Proof.
  intros H. unfold raw_tok. destruct (is_keyword n) eqn:Ek; [|reflexivity].
  destruct (fname_class_kw_in n cls H Ek) as [Hin Hl]. rewrite Hl.
  pose proof (proj1 (forallb_forall _ _) (fkw_all pg) n Hin) as Hok. unfold fkw_ok in Hok. rewrite H, Ek in Hok.
  cbn [negb orb] in Hok. apply andb_prop in Hok as [Hok Hu]. apply andb_prop in Hok as [Hok Hn].
  apply andb_prop in Hok as [Hs _]. unfold astart. rewrite Hs. cbn [andb].
  destruct (kw_tok n) as [| | | |p|w|]; try reflexivity; try discriminate Hn.
  destruct w; try reflexivity; try discriminate Hn; discriminate Hu.
Qed.

Lemma id_tok_astart i : wf_id pg i = true -> astart (id_tok pg i) = true.
Proof. intros H. destruct (wf_id_tok_shape pg i H) as [[v [-> _]]|[v [-> _]]]; reflexivity. Qed.

Lemma lit_toks_pos t v : neg_lit (ELit t v []) = false -> lit_toks t v = [TLit t v].
Proof.
  unfold lit_toks. cbn [neg_lit]. destruct (is_int t); [|reflexivity]. destruct v as [|c v]; [reflexivity|].
  cbn [andb]. intros ->. reflexivity.
Qed.
Lemma neg_lit_casts t v cs : neg_lit (ELit t v cs) = neg_lit (ELit t v []).
Proof. reflexivity. Qed.

Lemma print_head_a e : wf pg e = true -> L_COLLATE <= level e -> neg_lit e = false ->
  exists t0 r, print pg e = t0 :: r /\ astart t0 = true.
Proof.
  induction e; intros Hwf Hl Hn; cbn [level] in Hl; try (exfalso; precs); cbn [print];
    try (eexists; eexists; split; [reflexivity|reflexivity]).
  - cbn [wf] in Hwf. split_andb. leb_hyps. negb_hyps.
    destruct (IHe ltac:(assumption) ltac:(assumption) ltac:(assumption)) as [t0 [r [-> Hs]]].
    eexists; eexists; split; [reflexivity|exact Hs].
  - rewrite neg_lit_casts in Hn. rewrite (lit_toks_pos t v Hn). eexists; eexists; split; reflexivity.
  - destruct b; eexists; eexists; split; reflexivity.
  - cbn [wf] in Hwf. unfold wf_col, col_toks in *. split_andb. destruct q as [|a q].
    + eexists; eexists; split; [reflexivity|apply id_tok_astart; assumption].
    + cbn [forallb] in *. split_andb. eexists; eexists; split; [reflexivity|apply id_tok_astart; assumption].
  - destruct (func_wf_class _ _ _ _ _ Hwf) as [cls Hc]. pose proof (fname_tok_astart n cls Hc) as Hs.
    cbn [wf] in Hwf. split_andb. destruct (id_empty q) eqn:Eq.
    + eexists; eexists; split; [reflexivity|exact Hs].
    + cbn [app]. eexists; eexists; split; [reflexivity|].
      match goal with H : is_no_id q || wf_id pg q = true |- _ => apply Bool.orb_true_iff in H as [H|H] end;
        [destruct q as [[| |] [|? ?]]; discriminate|apply id_tok_astart; assumption].
Qed.

Lemma print_head_u e rest : wf pg e = true -> L_UNARY <= level e -> expect_w W_not (print pg e ++ rest) = None.
Proof.
  intros Hwf Hl. destruct e; cbn [level] in Hl; try (exfalso; precs);
    try (destruct (print_head_a _ Hwf ltac:(cbn [level]; precs) eq_refl) as [t0 [r [-> Hs]]]; apply astart_not; exact Hs).
  - destruct op; reflexivity.
  - destruct (neg_lit (ELit t v casts)) eqn:En.
    + cbn [print]. unfold lit_toks. destruct v as [|c v]; cbn [neg_lit] in En; [discriminate En|].
      destruct (is_int t); cbn [andb] in En; [|discriminate En]. rewrite En. reflexivity.
    + destruct (print_head_a _ Hwf ltac:(cbn [level]; precs) En) as [t0 [r [-> Hs]]]. apply astart_not; exact Hs.
Qed.

(* ---------- computation lemmas ---------- *)
Lemma pexpr_unary f min ts :
  expect_w W_not ts = None ->
  pexpr pg (S f) min ts = match punary pg f ts with Some (lhs, ts1) => ploop pg f min lhs ts1 | None => None end.
Proof. intros H. rewrite pexpr_S, H. reflexivity. Qed.

Lemma pexpr_not f min ts1 :
  pexpr pg (S f) min (TW W_not :: ts1) =
  if min <=? L_NOT then
    match pexpr pg f L_NOT ts1 with Some (x, ts2) => ploop pg f min (ENot x) ts2 | None => None end
  else None.
Proof. rewrite pexpr_S. reflexivity. Qed.

Lemma stops_bin b o ts : binprec o < b -> stopsb b (bin_tok o :: ts) = true.
Proof. intros H. destruct o; cbn [stopsb bin_tok glue negb andb]; apply Nat.ltb_lt; exact H. Qed.
Lemma stops_and b ts : L_AND < b -> stopsb b (TW W_and :: ts) = true.
Proof. intros H. cbn [stopsb glue negb andb]. apply Nat.ltb_lt; exact H. Qed.
Lemma stops_or b ts : L_OR < b -> stopsb b (TW W_or :: ts) = true.
Proof. intros H. cbn [stopsb glue negb andb]. apply Nat.ltb_lt; exact H. Qed.
Lemma stops_escape b ts : L_ESC < b -> stopsb b (TW W_escape :: ts) = true.
Proof. intros H. cbn [stopsb glue negb andb]. apply Nat.ltb_lt; exact H. Qed.
Lemma stops_is b s ts : L_CMP < b -> stopsb b (is_toks s ++ ts) = true.
Proof. intros H. destruct s; cbn [stopsb glue negb andb is_toks app]; apply Nat.ltb_lt; exact H. Qed.
Lemma stops_cmp b o ts : L_CMP < b -> stopsb b (cmp_toks o ++ ts) = true.
Proof. intros H. destruct o; cbn [stopsb glue negb andb cmp_toks app]; apply Nat.ltb_lt; exact H. Qed.
Lemma stops_between b n ts : L_BETWEEN < b -> stopsb b (between_toks n ++ ts) = true.
Proof. intros H. destruct n; cbn [stopsb glue negb andb between_toks app]; apply Nat.ltb_lt; exact H. Qed.
Lemma stops_hardw b w ts : tokprec [TW w] = None -> stopsb b (TW w :: ts) = true.
Proof. intros H. cbn [stopsb glue negb andb]. destruct w; try discriminate H; reflexivity. Qed.
Lemma stops_rparen b ts : stopsb b (TP PRParen :: ts) = true. Proof. reflexivity. Qed.
Lemma stops_comma b ts : stopsb b (TP PComma :: ts) = true. Proof. reflexivity. Qed.
Lemma stops_nil b : stopsb b [] = true. Proof. reflexivity. Qed.

Lemma ploop_bin f min lhs o ts1 :
  ploop pg (S f) min lhs (bin_tok o :: ts1) =
  if binprec o <? min then Some (lhs, bin_tok o :: ts1)
  else if is_v lhs then
         match pval pg f (S (binprec o)) ts1 with
         | Some (r, ts2) => ploop pg f min (EBin o lhs r) ts2
         | None => None
         end
       else None.
Proof. rewrite ploop_S. destruct o; reflexivity. Qed.
Lemma ploop_and f min lhs ts1 :
  ploop pg (S f) min lhs (TW W_and :: ts1) =
  if L_AND <? min then Some (lhs, TW W_and :: ts1)
  else match pexpr pg f (S L_AND) ts1 with
       | Some (r, ts2) => ploop pg f min (EAnd lhs r) ts2
       | None => None
       end.
Proof. rewrite ploop_S. reflexivity. Qed.
Lemma ploop_or f min lhs ts1 :
  ploop pg (S f) min lhs (TW W_or :: ts1) =
  if L_OR <? min then Some (lhs, TW W_or :: ts1)
  else match pexpr pg f (S L_OR) ts1 with
       | Some (r, ts2) => ploop pg f min (EOr lhs r) ts2
       | None => None
       end.
Proof. rewrite ploop_S. reflexivity. Qed.
Lemma ploop_is f min lhs s ts1 :
  ploop pg (S f) min lhs (is_toks s ++ ts1) =
  if L_CMP <? min then Some (lhs, is_toks s ++ ts1) else ploop pg f min (EIs s lhs) ts1.
Proof. rewrite ploop_S. destruct s; reflexivity. Qed.

Definition cmp_neg (o : cmpop) : bool :=
  match o with CNotIn | CNotLike | CNotILike | CNotRegexp => true | _ => false end.
Definition cmp_kind (o : cmpop) : ckind :=
  match o with
  | CIn | CNotIn => CKIn | CLike | CNotLike => CKLike false | CILike | CNotILike => CKLike true
  | _ => CKSimple o
  end.
Lemma ploop_cmp f min lhs o ts1 :
  ploop pg (S f) min lhs (cmp_toks o ++ ts1) =
  if L_CMP <? min then Some (lhs, cmp_toks o ++ ts1)
  else if is_v lhs then pcond pg f min lhs (cmp_neg o) (cmp_kind o) ts1 else None.
Proof. rewrite ploop_S. destruct o; reflexivity. Qed.
Lemma ploop_between f min lhs n ts1 :
  ploop pg (S f) min lhs (between_toks n ++ ts1) =
  if L_BETWEEN <? min then Some (lhs, between_toks n ++ ts1)
  else if is_v lhs then pcond pg f min lhs n CKBetween ts1 else None.
Proof. rewrite ploop_S. destruct n; reflexivity. Qed.

Lemma rbound_gt e lo : lo <= level e -> lo <= L_UNARY -> lo < rbound e.
Proof. destruct e; cbn [level rbound]; intros H1 H2; precs. Qed.
Lemma rbound_above_cmp x : L_BETWEEN <= level x -> L_CMP < rbound x.
Proof. destruct x; cbn [level rbound]; intros H; precs. Qed.
Lemma rbound_unary e : L_UNARY <= level e -> rbound e = L_COLLATE.
Proof. destruct e; cbn [level rbound]; intros H; try reflexivity; precs. Qed.
Lemma is_v_level e : is_v e = true -> L_VAL <= level e.
Proof. unfold is_v. intros H. apply andb_prop in H as [H _]. apply Nat.leb_le. exact H. Qed.

(** a value operand: [pval] of what [Cst] gives *)
Lemma pval_of_C e min rest f :
  Cst e -> wf pg e = true -> is_v e = true -> min <= level e -> stopsb (rbound e) rest = true -> stopsb min rest = true ->
  S (S (need e)) <= f -> pval pg f min (print pg e ++ rest) = Some (e, rest).
Proof.
  intros C Hwf Hv Hmin Hst Hst' Hf. destruct f as [|f]; [lia|]. rewrite pval_S.
  rewrite (C Hwf min rest (Some (e, rest)) 1); [rewrite Hv; reflexivity|exact Hmin|exact Hst| |lia].
  intros f0 Hf0. destruct f0; [lia|]. apply ploop_stop. exact Hst'.
Qed.
(** an expression up to a hard stop *)
Lemma pexpr_of_C e rest f :
  Cst e -> wf pg e = true -> hard rest = true -> S (need e) <= f -> pexpr pg f 0 (print pg e ++ rest) = Some (e, rest).
Proof.
  intros C Hwf Hh Hf.
  apply (C Hwf 0 rest (Some (e, rest)) 1); [lia|apply hard_stops; exact Hh| |lia].
  intros f0 Hf0. destruct f0; [lia|]. apply ploop_stop. exact Hh.
Qed.

Lemma C_of_U e : L_UNARY <= level e -> Ust e -> Cst e.
Proof.
  intros Hl HU Hwf min rest R a Hmin Hst Hk f Hf.
  rewrite (rbound_unary e Hl) in Hst. pose proof (need_pos e) as Hc.
  destruct f as [|f]; [unfold K in *; lia|].
  rewrite pexpr_unary by (apply print_head_u; assumption).
  rewrite (HU Hwf Hl rest Hst f) by lia.
  apply Hk. unfold K in *. lia.
Qed.

Lemma collate_head_stop rest : stopsb L_COLLATE rest = true -> collate_head rest = CHNone.
Proof.
  destruct rest as [|[| | | |p|w|] rest]; try reflexivity. destruct w; try reflexivity.
  cbn [stopsb glue negb andb]. intros H. apply Nat.ltb_lt in H. lia.
Qed.
Lemma pcollate_stop f x rest : stopsb L_COLLATE rest = true -> pcollate pg (S f) x rest = Some (x, rest).
Proof. intros H. rewrite pcollate_S, (collate_head_stop rest H). reflexivity. Qed.

Lemma U_of_A e : L_COLLATE <= level e -> neg_lit e = false -> Ast e -> Ust e.
Proof.
  intros Hl Hn HA Hwf _ rest Hst f Hf. pose proof (need_pos e) as Hc.
  destruct f as [|f]; [unfold K in *; lia|]. rewrite punary_S.
  destruct (print_head_a e Hwf Hl Hn) as [t0 [r [E Hs]]].
  rewrite E. cbn [app]. rewrite (astart_un t0 (r ++ rest) Hs). change (t0 :: r ++ rest) with ((t0 :: r) ++ rest). rewrite <- E.
  apply (HA Hwf Hl Hn rest (Some (e, rest)) 1); [eapply stops_gstop; exact Hst| |unfold K in *; lia].
  intros f0 Hf0. destruct f0; [lia|]. apply pcollate_stop. exact Hst.
Qed.

(** atoms: [Ast] from the direct statement about [patom] *)
Definition Dst (e : expr) : Prop :=
  wf pg e = true -> forall rest, gstop rest = true -> forall f, need e <= f + 8 ->
  patom pg f (print pg e ++ rest) = Some (e, rest).
Lemma A_of_D e : Dst e -> Ast e.
Proof.
  intros HD Hwf _ _ rest R a Hg Hk f Hf. unfold SqlStmtRT1.pac.
  pose proof (need_pos e). rewrite (HD Hwf rest Hg f) by lia. apply Hk. unfold K in *. lia.
Qed.
Notation Ist := (Ist pg).
Lemma P_of_D e : level e = L_ATOM -> neg_lit e = false -> Dst e -> Ist e -> Pe e.
Proof.
  intros Hl Hn HD HI. pose proof (A_of_D e HD) as HA.
  assert (HU : Ust e) by (apply U_of_A; [precs|exact Hn|exact HA]).
  split; [apply C_of_U; [precs|exact HU]|split; [exact HU|split; [exact HA|exact HI]]].
Qed.
Lemma P_not_unary e : level e < L_UNARY -> Cst e -> Ist e -> Pe e.
Proof.
  intros Hl HC HI. split; [exact HC|split; [|split; [|exact HI]]].
  - intros _ Hl'. exfalso. lia.
  - intros _ Hl'. exfalso. precs.
Qed.
End RT.
