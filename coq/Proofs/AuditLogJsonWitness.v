(** Concrete witnesses for the byte-level JSON audit-log model (computed with the executable SHA-256 and
    the exact number printer/parser): non-vacuity of the theorems of Proofs/AuditLogJson.v and the
    defects as [..._refuted] statements. *)
From Coq Require Import String.
From Acra Require Import Lib.Bytes Lib.Outcome Lib.Sha256 Gen.AuditLogConsts Model.AuditLog
  Model.AuditLogJsonNum Model.AuditLogJson
  Proofs.AuditLogCrypto Proofs.AuditLogParse Proofs.AuditLog Proofs.AuditLogJsonMap Proofs.AuditLogJson.

Definition js (x : string) : bytes := bytes_of_string x.
Definition jK : bytes := js "audit-key".
Definition wstr (x : string) : wv := WStr (js x).
Definition wnum (x : string) : wv := WNum (js x).
Definition mem (k : string) (v : wv) : bytes * wv := (js k, v).

(** a formatted entry as logrus' JSON formatter writes it: members in any order, numbers as written *)
Definition entry (msg : string) (fields : list (bytes * wv)) : wv :=
  WObj (fields ++ [mem "level" (wstr "info"); mem "msg" (wstr msg); mem "timestamp" (wstr "2026-09-23T07:00:00Z")]).

(** an honest history: integers above 2^53 and 2^63, exponent forms, nested values with a repeated member
    name and a member called integrity INSIDE a value, unicode (e-acute, U+2028), a user member `chain`
    on a later entry, the service entries of ResetChain, a reset, a second chain *)
Definition ev_json_b : list jbev :=
  [ JBEntry (entry "start" [mem "started_ns" (wnum "1695460000123456789"); mem "session_id" (wnum "18446744073709551557")]);
    JBEntry (entry "numbers" [mem "big" (wnum "9007199254740993"); mem "e" (wnum "1E2"); mem "tiny" (wnum "1e-7");
                              mem "huge" (wnum "1e21"); mem "frac" (wnum "0.10"); mem "neg0" (wnum "-0")]);
    JBEntry (entry "nested" [mem "v" (WObj [mem "b" (wnum "1"); mem "a" (WArr [WNull; WBool true; wnum "2.50"]);
                                           mem "b" (wnum "2"); mem "integrity" (wstr "00")]);
                             mem "chain" (wstr "of custody");
                             mem "u" (WStr [xc3; xa9; xe2; x80; xa8; x3c])]);
    JBEntry (WObj [mem "chain" (wstr "end"); mem "level" (wstr "info"); mem "msg" (wstr "End of current audit log chain")]);
    JBReset jK;
    JBEntry (entry "again" [mem "delimiter" (wstr "delimiter")]) ].

Definition out_json_b := Eval vm_compute in json_writer (calc_new jK) ev_json_b.

Definition parsed_1 : parsed :=
  Eval vm_compute in
    match wline_pres AL_JSON_VERIFIER_USENUMBER (nth 1 (wire_lines out_json_b) WEmpty) with POk p => p | _ => mk_parsed [] [] false false end.

(** the authenticated bytes of the second entry show the float64 forms, not the literals *)
Definition raw_1_expected : bytes :=
  js ("delimiterbigdelimiter9007199254740992delimiterdelimiteredelimiter100delimiter"
      ++ "delimiterfracdelimiter0.1delimiterdelimiterhugedelimiter1e+21delimiterdelimiterleveldelimiter""info""delimiter"
      ++ "delimitermsgdelimiter""numbers""delimiterdelimiterneg0delimiter-0delimiter"
      ++ "delimitertimestampdelimiter""2026-09-23T07:00:00Z""delimiterdelimitertinydelimiter1e-7delimiter").

Example honest_json_b_example :
  wf_jb_evs AL_JSON_WRITER_USENUMBER jK true None ev_json_b = true /\
  length out_json_b = 5 /\
  json_verifier jK (wire_lines out_json_b) = VAccept /\
  (* the authenticated bytes of the second entry show the float64 forms, not the literals *)
  (exists p, wline_pres AL_JSON_VERIFIER_USENUMBER (nth 1 (wire_lines out_json_b) WEmpty) = POk p /\
     p_raw p = raw_1_expected).
Proof.
  split; [vm_compute; reflexivity|]. split; [reflexivity|]. split; [vm_compute; reflexivity|].
  exists parsed_1. split; vm_compute; reflexivity.
Qed.

(** premises of [json_tamper_detected_by_next] on that history: prefix = the first entry, x = the second,
    y = the third; and what the verifier says when x's number 9007199254740993 is replaced *)
Definition jb_prefix := firstn 1 ev_json_b.
Definition jb_x : wv := match nth 1 ev_json_b (JBReset []) with JBEntry w => w | _ => WNull end.
Definition jb_y : wv := match nth 2 ev_json_b (JBReset []) with JBEntry w => w | _ => WNull end.
Definition jb_x_edited : wv :=
  entry "numbers" [mem "big" (wnum "9007199254740996"); mem "e" (wnum "1E2"); mem "tiny" (wnum "1e-7");
                   mem "huge" (wnum "1e21"); mem "frac" (wnum "0.10"); mem "neg0" (wnum "-0");
                   mem "integrity" (match aget AL_INTEGRITY_KEY (nth 1 out_json_b []) with Some v => to_wire v | None => WNull end)].

Definition jb_c := Eval vm_compute in jstate AL_JSON_WRITER_USENUMBER (calc_new jK) jb_prefix.
Definition jb_px := Eval vm_compute in
  match json_post_b AL_JSON_WRITER_USENUMBER jb_c jb_x with Ok r => r | _ => ([], jb_c) end.
Definition jb_my := Eval vm_compute in
  match decode_top AL_JSON_WRITER_USENUMBER jb_y with Some m => m | None => [] end.
Definition jb_py := Eval vm_compute in
  match json_post_b AL_JSON_WRITER_USENUMBER (snd jb_px) jb_y with Ok r => r | _ => ([], jb_c) end.

Example json_tamper_premises_example :
  let un := AL_JSON_WRITER_USENUMBER in
  let c := jstate un (calc_new jK) jb_prefix in
  wf_jb_evs un jK true None jb_prefix = true /\ first_check c = false /\
  (exists mx c1 my my2 c2, json_post_b un c jb_x = Ok (mx, c1) /\ decode_top un jb_y = Some my /\
     w_ok un jb_y = true /\ entry_ok false my = true /\ json_post_b un c1 jb_y = Ok (my2, c2) /\
     (* the edited entry (another float64, the integrity value of x kept) is caught at once *)
     json_verifier jK (wire_lines (firstn 1 out_json_b) ++ [WLine jb_x_edited] ++ WLine (to_wire (JObj my2)) :: [])
     = VFail 1 C_MISMATCH /\
     (* x removed: caught at y *)
     json_verifier jK (wire_lines (firstn 1 out_json_b) ++ [] ++ WLine (to_wire (JObj my2)) :: []) = VFail 1 C_MISMATCH).
Proof.
  cbv zeta. split; [vm_compute; reflexivity|]. split; [vm_compute; reflexivity|].
  exists (fst jb_px), (snd jb_px), jb_my, (fst jb_py), (snd jb_py). repeat split; vm_compute; reflexivity.
Qed.

(** * defects *)

(** known finding json-reserved-field at byte level: a user member `integrity`, a user member `chain` on the
    first entry of a chain, `chain`="new" later *)
Definition ev_res_integrity : list jbev := [JBEntry (entry "m" [mem "integrity" (wstr "x")])].
Definition ev_res_chain_first : list jbev := [JBEntry (entry "m" [mem "chain" (wnum "7")])].
Definition ev_res_chain_new : list jbev := [JBEntry (entry "m" []); JBEntry (entry "m" [mem "chain" (wstr "new")])].
Theorem json_reserved_field_b_refuted :
  json_verifier jK (wire_lines (json_writer (calc_new jK) ev_res_integrity)) = VFail 0 C_MISMATCH /\
  json_verifier jK (wire_lines (json_writer (calc_new jK) ev_res_chain_first)) = VFail 0 C_MISMATCH /\
  json_verifier jK (wire_lines (json_writer (calc_new jK) ev_res_chain_new)) = VFail 1 C_MISSING_END /\
  wf_jb_evs AL_JSON_WRITER_USENUMBER jK true None ev_res_integrity = false /\
  wf_jb_evs AL_JSON_WRITER_USENUMBER jK true None ev_res_chain_first = false /\
  wf_jb_evs AL_JSON_WRITER_USENUMBER jK true None ev_res_chain_new = false.
Proof. vm_compute. repeat split; reflexivity. Qed.

(** known finding json-delimiter-ambiguity: convertMapToBytes writes member names between `delimiter` tokens
    without escaping them, so two different field maps have the same authenticated bytes: the members
    `timestamp`, `user` and `zone` of an honest entry folded into ONE member (named
    timestamp+delimiter+"2026-…"+delimiter+delimiter+user+delimiter+"alice"+delimiter+delimiter+zone, value "prod")
    verify with the original integrity value *)
Definition ev_ambig : list jbev :=
  [ JBEntry (entry "login" [mem "user" (wstr "alice"); mem "zone" (wstr "prod")]);
    JBEntry (entry "next" []) ].
Definition out_ambig := Eval vm_compute in json_writer (calc_new jK) ev_ambig.
Definition line_ambig_forged : wv :=
  WObj [mem "chain" (wstr "new"); mem "level" (wstr "info"); mem "msg" (wstr "login");
        mem "timestamp" (wstr "2026-09-23T07:00:00Z");
        mem "user" (wstr "alice");
        mem "integrity" (match aget AL_INTEGRITY_KEY (nth 0 out_ambig []) with Some v => to_wire v | None => WNull end)].
Definition forged_key : bytes := js "timestampdelimiter""2026-09-23T07:00:00Z""delimiterdelimiteruserdelimiter""alice""delimiterdelimiterzone".
Definition line_ambig_merged : wv :=
  WObj [mem "chain" (wstr "new"); mem "level" (wstr "info"); mem "msg" (wstr "login");
        (forged_key, wstr "prod");
        mem "integrity" (match aget AL_INTEGRITY_KEY (nth 0 out_ambig []) with Some v => to_wire v | None => WNull end)].

Definition m_ambig := Eval vm_compute in
  match decode_top AL_JSON_VERIFIER_USENUMBER (to_wire (JObj (nth 0 out_ambig []))) with Some m => m | None => [] end.
Definition m_ambig' := Eval vm_compute in
  match decode_top AL_JSON_VERIFIER_USENUMBER line_ambig_merged with Some m => m | None => [] end.

Theorem json_delimiter_ambiguity_refuted :
  exists (K : bytes) (evs : list jbev) (w' : wv) (m m' : list (bytes * jv)),
    wf_jb_evs AL_JSON_WRITER_USENUMBER K true None evs = true /\
    let outs := json_writer (calc_new K) evs in
    json_verifier K (wire_lines outs) = VAccept /\
    decode_top AL_JSON_VERIFIER_USENUMBER (to_wire (JObj (nth 0 outs []))) = Some m /\
    decode_top AL_JSON_VERIFIER_USENUMBER w' = Some m' /\
    adel AL_CHAIN_KEY (adel AL_INTEGRITY_KEY m) <> adel AL_CHAIN_KEY (adel AL_INTEGRITY_KEY m') /\    (* another field map … *)
    conv_b (adel AL_CHAIN_KEY (adel AL_INTEGRITY_KEY m)) = conv_b (adel AL_CHAIN_KEY (adel AL_INTEGRITY_KEY m')) /\  (* … the same authenticated bytes *)
    json_verifier K (WLine w' :: skipn 1 (wire_lines outs)) = VAccept.
Proof.
  exists jK, ev_ambig, line_ambig_merged, m_ambig, m_ambig'.
  split; [vm_compute; reflexivity|]. cbv zeta.
  split; [vm_compute; reflexivity|]. split; [vm_compute; reflexivity|]. split; [vm_compute; reflexivity|].
  split; [vm_compute; discriminate|]. split; vm_compute; reflexivity.
Qed.

(** without the ambiguity the same manipulation is caught (a member dropped) *)
Example json_member_dropped_detected :
  json_verifier jK (WLine line_ambig_forged :: skipn 1 (wire_lines out_ambig)) = VFail 0 C_MISMATCH.
Proof. vm_compute. reflexivity. Qed.

(** why [json_same_decoder] is an obligation: a writer that keeps numbers as json.Number (UseNumber) with a
    verifier that decodes to float64 rejects an honest log holding an integer above 2^53; small integers
    and floats in shortest form go through *)
Definition ev_asym : list jbev := [ JBEntry (entry "query finished" [mem "session_id" (wnum "18446744073709551557")]) ].
Definition ev_asym_small : list jbev := [ JBEntry (entry "query finished" [mem "rows" (wnum "7"); mem "ratio" (wnum "0.25")]) ].
Theorem json_decoder_asymmetry_refuted :
  wf_jb_evs true jK true None ev_asym = true /\ wf_jb_evs false jK true None ev_asym = true /\
  verify_json_b true jK (wire_lines (write_json_b true (calc_new jK) ev_asym)) = VAccept /\
  verify_json_b false jK (wire_lines (write_json_b false (calc_new jK) ev_asym)) = VAccept /\
  verify_json_b false jK (wire_lines (write_json_b true (calc_new jK) ev_asym)) = VFail 0 C_MISMATCH /\
  verify_json_b false jK (wire_lines (write_json_b true (calc_new jK) ev_asym_small)) = VAccept.
Proof. vm_compute. repeat split; reflexivity. Qed.

(** number layer: the literals around 2^53 and the layout switches of encoding/json *)
Example json_number_examples :
  option_map render_num (decode_num false (js "9007199254740993")) = Some (js "9007199254740992") /\
  option_map render_num (decode_num true (js "9007199254740993")) = Some (js "9007199254740993") /\
  option_map render_num (decode_num false (js "18446744073709551557")) = Some (js "18446744073709552000") /\
  option_map render_num (decode_num false (js "1E21")) = Some (js "1e+21") /\
  option_map render_num (decode_num false (js "999999999999999900000")) = Some (js "999999999999999900000") /\
  option_map render_num (decode_num false (js "0.000001")) = Some (js "0.000001") /\
  option_map render_num (decode_num false (js "0.0000009")) = Some (js "9e-7") /\
  option_map render_num (decode_num false (js "5e-324")) = Some (js "5e-324") /\
  option_map render_num (decode_num false (js "1.7976931348623157e308")) = Some (js "1.7976931348623157e+308") /\
  decode_num false (js "1e400") = None /\
  float_rt (js "0.1") = true /\ float_rt (js "2.2250738585072014e-308") = true.
Proof. vm_compute. repeat split; reflexivity. Qed.
