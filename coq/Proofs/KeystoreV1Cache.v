(** C06 — the cache clauses for keystore v1: the file tree evolves independently of the cache, and
    as soon as the cache is reset (or the keystore re-opened) every read returns what the uncached
    keystore returns, whatever the cache size. *)
From Coq Require Import List NArith ZArith Bool Lia.
From Acra Require Import Lib.Bytes Lib.Outcome Model.KeySpec Model.KeystoreV1 Proofs.KeySpec Proofs.KeystoreV1.
Import ListNotations.
Local Open Scope N_scope.

(** * cache keys *)
Lemma pth_eqb_eq a b : pth_eqb a b = true <-> a = b.
Proof.
  destruct a as [|x], b as [|y]; cbn; split; intro H; try reflexivity; try discriminate.
  - apply N.eqb_eq in H. subst. reflexivity.
  - inversion H. apply N.eqb_refl.
Qed.

Lemma ckey_eqb_eq a b : ckey_eqb a b = true <-> a = b.
Proof.
  destruct a as [f p|f], b as [g q|g]; cbn [ckey_eqb]; split; intro H; try discriminate.
  - apply andb_true_iff in H. destruct H as [H1 H2]. apply fname_eqb_eq in H1. apply pth_eqb_eq in H2. subst. reflexivity.
  - inversion H. subst. apply andb_true_iff. split; [apply fname_eqb_refl | apply pth_eqb_eq; reflexivity].
  - apply fname_eqb_eq in H. subst. reflexivity.
  - inversion H. apply fname_eqb_refl.
Qed.

Lemma clookup_in k c v : clookup k c = Some v -> In (k, v) c.
Proof.
  induction c as [|[k' v'] r IH]; intro H; [discriminate|]. cbn [clookup] in H.
  destruct (ckey_eqb k k') eqn:E.
  - apply ckey_eqb_eq in E. inversion H. subst. left. reflexivity.
  - right. apply IH. exact H.
Qed.

Lemma Forall_cremove (P : ckey * cval -> Prop) k c : Forall P c -> Forall P (cremove k c).
Proof.
  intro H. apply Forall_forall. intros x Hx. unfold cremove in Hx. apply filter_In in Hx.
  rewrite Forall_forall in H. apply H. tauto.
Qed.

Lemma Forall_removelast {A} (P : A -> Prop) l : Forall P l -> Forall P (removelast l).
Proof.
  induction l as [|a r IH]; intro H; [constructor|]. inversion H as [|? ? Ha Hr]; subst.
  cbn [removelast]. destruct r as [|b r']; [constructor|]. constructor; [exact Ha | apply IH; exact Hr].
Qed.

Lemma cget_forall (P : ckey * cval -> Prop) m c k :
  Forall P c -> Forall P (snd (cget m c k)) /\ (forall v, fst (cget m c k) = Some v -> P (k, v)).
Proof.
  intro H. unfold cget. destruct m as [|mx]; cbn [fst snd]; [split; [exact H | intros v Hv; discriminate]|].
  destruct (clookup k c) as [v|] eqn:E; cbn [fst snd].
  - assert (Hp : P (k, v)) by (rewrite Forall_forall in H; apply H; apply clookup_in; exact E).
    split; [constructor; [exact Hp | apply Forall_cremove; exact H] | intros v' Hv; inversion Hv; subst; exact Hp].
  - split; [exact H | intros v Hv; discriminate].
Qed.

Lemma cadd_forall (P : ckey * cval -> Prop) m c k v : Forall P c -> P (k, v) -> Forall P (cadd m c k v).
Proof.
  intros H Hp. unfold cadd. destruct m as [|mx]; [exact H|].
  destruct (clookup k c).
  - constructor; [exact Hp | apply Forall_cremove; exact H].
  - destruct (Nat.eqb mx 0 || Nat.leb (length ((k, v) :: c)) mx)%bool.
    + constructor; assumption.
    + apply Forall_removelast. constructor; assumption.
Qed.

(** * the file tree does not depend on the cache *)
Definition fs_write (fs : fsT) (f : fname) (ts : N) (o : ord) : res fsT :=
  do old' <- match f_cur (fs f) with
             | None => Ok (f_old (fs f))
             | Some c => of_option E_GENERIC (insert_ts ts c (f_old (fs f)))
             end;
  Ok (fupd fs f {| f_cur := Some o; f_old := old' |}).

Lemma write_key_file_fs m st f ts o :
  write_key_file m st f ts o
  = match fs_write (v_fs st) f ts o with
    | Ok fs' => Ok {| v_fs := fs'; v_cache := cadd m (v_cache st) (CH f) CNil |}
    | Err e => Err e
    | Panic => Panic
    end.
Proof.
  unfold write_key_file, fs_write. destruct (f_cur (v_fs st f)) as [c|]; [|reflexivity].
  destruct (insert_ts ts c (f_old (v_fs st f))); reflexivity.
Qed.

Lemma read_key_fs m st f p : v_fs (fst (read_key m st f p)) = v_fs st.
Proof.
  unfold read_key. destruct (cget m (v_cache st) (CK f p)) as [g c1].
  destruct g as [[o|l|]|]; try reflexivity; destruct (file_content (v_fs st) f p); reflexivity.
Qed.

Lemma hist_names_fs m st f : v_fs (fst (hist_names m st f)) = v_fs st.
Proof.
  unfold hist_names. destruct (cget m (v_cache st) (CH f)) as [g c1]. destruct g as [[o|l|]|]; reflexivity.
Qed.

Lemma read_keys_fs m f l : forall st, v_fs (fst (read_keys m st f l)) = v_fs st.
Proof.
  induction l as [|p r IH]; intro st; [reflexivity|]. cbn [read_keys].
  pose proof (read_key_fs m st f p) as H1. destruct (read_key m st f p) as [st1 r1]. cbn [fst] in H1.
  destruct r1 as [o|e|]; [|exact H1|exact H1].
  pose proof (IH st1) as H2. destruct (read_keys m st1 f r) as [st2 r2]. cbn [fst] in H2.
  destruct r2; cbn [fst]; congruence.
Qed.

Lemma poison_pair_cur_fs m st s : v_fs (fst (poison_pair_cur m st s)) = v_fs st.
Proof.
  unfold poison_pair_cur. destruct (cget m (v_cache st) (CK (s, Priv) PCur)) as [g1 c1].
  destruct (cget m c1 (CK (s, Pub) PCur)) as [g2 c2].
  destruct g1 as [[o|l|]|]; destruct g2 as [[o2|l2|]|]; try reflexivity;
    destruct (f_cur (v_fs st (s, Priv))); try reflexivity; destruct (f_cur (v_fs st (s, Pub))); reflexivity.
Qed.

Definition fs_step (fs : fsT) (op : kop) : fsT :=
  v_fs (fst (v1_step NoCache {| v_fs := fs; v_cache := [] |} op)).
Fixpoint fs_run (fs : fsT) (ops : list kop) : fsT :=
  match ops with [] => fs | o :: r => fs_run (fs_step fs o) r end.

Lemma destroy_rot_file_fs m st f i :
  destroy_rot_file m st f i
  = match destroy_rot_file NoCache {| v_fs := v_fs st; v_cache := [] |} f i with
    | Ok st' => Ok {| v_fs := v_fs st'; v_cache := cadd m (v_cache st) (CH f) CNil |}
    | Err e => Err e
    | Panic => Panic
    end.
Proof.
  unfold destroy_rot_file. cbn [v_fs v_cache].
  destruct (Nat.eqb (length (f_old (v_fs st f))) 0 || (i <? 2)%Z || (Z.of_nat (length (f_old (v_fs st f))) + 1 <? i)%Z)%bool;
    reflexivity.
Qed.

Lemma v1_step_fs m st op : v_fs (fst (v1_step m st op)) = fs_step (v_fs st) op.
Proof.
  unfold fs_step. destruct op as [s o t1 t2|s|s|s|s|s i| |]; cbn [v1_step].
  - rewrite !write_key_file_fs. cbn [v_fs].
    destruct (fs_write (v_fs st) (s, Priv) t1 o) as [fs1|e|]; [|reflexivity|reflexivity].
    destruct (is_pair (fst s)).
    + rewrite !write_key_file_fs. cbn [v_fs].
      destruct (fs_write fs1 (s, Pub) t2 o) as [fs2|e|]; reflexivity.
    + destruct (gen_caches (fst s)); reflexivity.
  - destruct (fst s);
      try (pose proof (read_key_fs m st (s, Priv) PCur) as H1;
           pose proof (read_key_fs NoCache {| v_fs := v_fs st; v_cache := [] |} (s, Priv) PCur) as H2;
           destruct (read_key m st (s, Priv) PCur); destruct (read_key NoCache _ (s, Priv) PCur);
           cbn [fst v_fs] in *; congruence).
    pose proof (poison_pair_cur_fs m st s) as H1.
    pose proof (poison_pair_cur_fs NoCache {| v_fs := v_fs st; v_cache := [] |} s) as H2.
    destruct (poison_pair_cur m st s); destruct (poison_pair_cur NoCache _ s). cbn [fst v_fs] in *. congruence.
  - pose proof (hist_names_fs m st (s, Priv)) as H1.
    pose proof (hist_names_fs NoCache {| v_fs := v_fs st; v_cache := [] |} (s, Priv)) as H2.
    destruct (hist_names m st (s, Priv)) as [sa la]. destruct (hist_names NoCache _ (s, Priv)) as [sb lb].
    cbn [fst v_fs] in *. rewrite !read_keys_fs. congruence.
  - reflexivity.
  - destruct (destroy_both (fst s)); reflexivity.
  - rewrite (destroy_rot_file_fs m st). 
    destruct (destroy_rot_file NoCache {| v_fs := v_fs st; v_cache := [] |} (s, Priv) i) as [st1|e|]; [|reflexivity|reflexivity].
    destruct (is_pair (fst s)); [|reflexivity].
    rewrite (destroy_rot_file_fs m). cbn [v_fs].
    rewrite (destroy_rot_file_fs NoCache st1).
    destruct (destroy_rot_file NoCache {| v_fs := v_fs st1; v_cache := [] |} (s, Pub) i); reflexivity.
  - reflexivity.
  - reflexivity.
Qed.

Theorem v1_fs_cache_independent :
  forall m ops st, v_fs (v1_state_after m st ops) = fs_run (v_fs st) ops.
Proof.
  intros m ops. induction ops as [|op ops IH]; intro st; [reflexivity|].
  cbn [v1_state_after fs_run]. rewrite IH, v1_step_fs. reflexivity.
Qed.

(** * a cache that agrees with the file tree answers like no cache *)
Definition entry_ok (fs : fsT) (e : ckey * cval) : Prop :=
  match e with
  | (CK f p, CV o) => file_content fs f p = Some o
  | (CH f, CL l) => l = hist_paths fs f
  | (_, CNil) => True
  | _ => False
  end.
Definition consistent (st : v1state) : Prop := Forall (entry_ok (v_fs st)) (v_cache st).

Definition rk (fs : fsT) (f : fname) (p : pth) : res ord :=
  match file_content fs f p with None => Err E_GENERIC | Some o => Ok o end.

Fixpoint rks (fs : fsT) (f : fname) (l : list pth) : res (list ord) :=
  match l with
  | [] => Ok []
  | p :: r => match rk fs f p with
              | Ok o => match rks fs f r with Ok os => Ok (o :: os) | e => e end
              | Err e => Err e
              | Panic => Panic
              end
  end.

Lemma read_key_cons m st f p :
  consistent st ->
  snd (read_key m st f p) = rk (v_fs st) f p /\ consistent (fst (read_key m st f p)).
Proof.
  intro Hc. unfold read_key, rk, consistent in *.
  destruct (cget_forall (entry_ok (v_fs st)) m (v_cache st) (CK f p) Hc) as [Hc1 Hhit].
  destruct (cget m (v_cache st) (CK f p)) as [g c1]. cbn [fst snd] in Hc1, Hhit.
  destruct g as [[o|l|]|].
  - specialize (Hhit _ eq_refl). cbn [entry_ok] in Hhit. rewrite Hhit. split; [reflexivity | exact Hc1].
  - specialize (Hhit _ eq_refl). contradiction.
  - destruct (file_content (v_fs st) f p) as [o|] eqn:E; cbn [fst snd with_cache v_fs v_cache].
    + split; [reflexivity | apply cadd_forall; [exact Hc1 | exact E]].
    + split; [reflexivity | exact Hc1].
  - destruct (file_content (v_fs st) f p) as [o|] eqn:E; cbn [fst snd with_cache v_fs v_cache].
    + split; [reflexivity | apply cadd_forall; [exact Hc1 | exact E]].
    + split; [reflexivity | exact Hc1].
Qed.

Lemma hist_names_cons m st f :
  consistent st ->
  snd (hist_names m st f) = hist_paths (v_fs st) f /\ consistent (fst (hist_names m st f)).
Proof.
  intro Hc. unfold hist_names, consistent in *.
  destruct (cget_forall (entry_ok (v_fs st)) m (v_cache st) (CH f) Hc) as [Hc1 Hhit].
  destruct (cget m (v_cache st) (CH f)) as [g c1]. cbn [fst snd] in Hc1, Hhit.
  destruct g as [[o|l|]|]; cbn [fst snd with_cache v_fs v_cache].
  - specialize (Hhit _ eq_refl). contradiction.
  - specialize (Hhit _ eq_refl). cbn [entry_ok] in Hhit. split; [exact Hhit | exact Hc1].
  - split; [reflexivity | apply cadd_forall; [exact Hc1 | reflexivity]].
  - split; [reflexivity | apply cadd_forall; [exact Hc1 | reflexivity]].
Qed.

Lemma read_keys_cons m f l : forall st,
  consistent st ->
  snd (read_keys m st f l) = rks (v_fs st) f l /\ consistent (fst (read_keys m st f l)).
Proof.
  induction l as [|p r IH]; intros st Hc; [split; [reflexivity | exact Hc]|].
  cbn [read_keys rks].
  destruct (read_key_cons m st f p Hc) as [H1 H2]. pose proof (read_key_fs m st f p) as H3.
  destruct (read_key m st f p) as [st1 r1]. cbn [fst snd] in H1, H2, H3. rewrite <- H1.
  destruct r1 as [o|e|]; [|split; [reflexivity | exact H2]|split; [reflexivity | exact H2]].
  destruct (IH st1 H2) as [H4 H5]. rewrite H3 in H4.
  destruct (read_keys m st1 f r) as [st2 r2]. cbn [fst snd] in H4, H5. rewrite <- H4.
  destruct r2; (split; [reflexivity | exact H5]).
Qed.

(** what a read returns, as a function of the file tree only *)
Definition lift1 (r : res ord) : res (list N) := match r with Ok o => Ok [o] | Err e => Err e | Panic => Panic end.
Definition read_res (fs : fsT) (op : kop) : res (list N) :=
  match op with
  | Cur s => match fst s with
             | KPoisonPair => match f_cur (fs (s, Priv)), f_cur (fs (s, Pub)) with
                              | Some o, Some _ => Ok [o]
                              | _, _ => Err E_GENERIC
                              end
             | _ => lift1 (rk fs (s, Priv) PCur)
             end
  | All s => rks fs (s, Priv) (hist_paths fs (s, Priv))
  | ListRot s => Ok (indices_from 2 (length (f_old (fs (s, Priv)))))
  | _ => Ok []
  end.

Definition is_read (o : kop) : bool := match o with Cur _ | All _ | ListRot _ => true | _ => false end.

Lemma poison_pair_cur_cons m st s :
  consistent st ->
  lift1 (snd (poison_pair_cur m st s))
  = match f_cur (v_fs st (s, Priv)), f_cur (v_fs st (s, Pub)) with
    | Some o, Some _ => Ok [o]
    | _, _ => Err E_GENERIC
    end
  /\ consistent (fst (poison_pair_cur m st s)).
Proof.
  intro Hc. unfold poison_pair_cur. unfold consistent in Hc.
  destruct (cget_forall (entry_ok (v_fs st)) m (v_cache st) (CK (s, Priv) PCur) Hc) as [Hc1 Hhit1].
  destruct (cget m (v_cache st) (CK (s, Priv) PCur)) as [g1 c1]. cbn [fst snd] in Hc1, Hhit1.
  destruct (cget_forall (entry_ok (v_fs st)) m c1 (CK (s, Pub) PCur) Hc1) as [Hc2 Hhit2].
  destruct (cget m c1 (CK (s, Pub) PCur)) as [g2 c2]. cbn [fst snd] in Hc2, Hhit2.
  assert (Hload : forall (c : cacheT), Forall (entry_ok (v_fs st)) c ->
     lift1 (snd (match f_cur (v_fs st (s, Priv)), f_cur (v_fs st (s, Pub)) with
                 | Some o, Some o2 => (with_cache st (cadd m (cadd m c (CK (s, Priv) PCur) (CV o)) (CK (s, Pub) PCur) (CV o2)), Ok o)
                 | _, _ => (with_cache st c, Err E_GENERIC)
                 end))
     = match f_cur (v_fs st (s, Priv)), f_cur (v_fs st (s, Pub)) with
       | Some o, Some _ => Ok [o]
       | _, _ => Err E_GENERIC
       end
     /\ consistent (fst (match f_cur (v_fs st (s, Priv)), f_cur (v_fs st (s, Pub)) with
                 | Some o, Some o2 => (with_cache st (cadd m (cadd m c (CK (s, Priv) PCur) (CV o)) (CK (s, Pub) PCur) (CV o2)), Ok (o : ord))
                 | _, _ => (with_cache st c, Err E_GENERIC)
                 end))).
  { intros c Hcc. unfold consistent.
    destruct (f_cur (v_fs st (s, Priv))) as [o|] eqn:E1; destruct (f_cur (v_fs st (s, Pub))) as [o2|] eqn:E2;
      cbn [fst snd lift1 with_cache v_cache v_fs]; (split; [reflexivity|]); try exact Hcc.
    apply cadd_forall; [apply cadd_forall; [exact Hcc | exact E1] | exact E2]. }
  destruct g1 as [[o|l|]|]; destruct g2 as [[o2|l2|]|];
    try (specialize (Hhit1 _ eq_refl)); try (specialize (Hhit2 _ eq_refl));
    cbn [entry_ok] in *; try contradiction; try (apply Hload; exact Hc2).
  cbn [file_content] in Hhit1, Hhit2. rewrite Hhit1, Hhit2. unfold consistent. cbn [fst snd lift1 with_cache v_cache v_fs].
  split; [reflexivity | exact Hc2].
Qed.

Lemma read_step_cons m st op :
  is_read op = true -> consistent st ->
  snd (v1_step m st op) = read_res (v_fs st) op /\ consistent (fst (v1_step m st op)).
Proof.
  intros Hr Hc. destruct op as [s o t1 t2|s|s|s|s|s i| |]; try discriminate; cbn [v1_step read_res].
  - destruct (fst s);
      try (destruct (read_key_cons m st (s, Priv) PCur Hc) as [H1 H2];
           destruct (read_key m st (s, Priv) PCur) as [st1 r1]; cbn [fst snd] in *;
           rewrite <- H1; split; [reflexivity | exact H2]).
    destruct (poison_pair_cur_cons m st s Hc) as [H1 H2].
    destruct (poison_pair_cur m st s) as [st1 r1]. cbn [fst snd] in *. rewrite <- H1. split; [reflexivity | exact H2].
  - destruct (hist_names_cons m st (s, Priv) Hc) as [H1 H2]. pose proof (hist_names_fs m st (s, Priv)) as H3.
    destruct (hist_names m st (s, Priv)) as [st1 l]. cbn [fst snd] in H1, H2, H3.
    destruct (read_keys_cons m (s, Priv) l st1 H2) as [H4 H5]. rewrite H3 in H4. subst l. split; [exact H4 | exact H5].
  - split; [reflexivity | exact Hc].
Qed.

Lemma read_step_fs m st op : is_read op = true -> v_fs (fst (v1_step m st op)) = v_fs st.
Proof.
  intro Hr. destruct op as [s o t1 t2|s|s|s|s|s i| |]; try discriminate; cbn [v1_step].
  - destruct (fst s);
      try (pose proof (read_key_fs m st (s, Priv) PCur) as H1; destruct (read_key m st (s, Priv) PCur); exact H1).
    pose proof (poison_pair_cur_fs m st s) as H1. destruct (poison_pair_cur m st s). exact H1.
  - pose proof (hist_names_fs m st (s, Priv)) as H1. destruct (hist_names m st (s, Priv)) as [st1 l].
    cbn [fst] in H1. rewrite read_keys_fs. exact H1.
  - reflexivity.
Qed.

Lemma reads_equal : forall reads m1 m2 st1 st2,
  forallb is_read reads = true -> v_fs st1 = v_fs st2 -> consistent st1 -> consistent st2 ->
  v1_run m1 st1 reads = v1_run m2 st2 reads.
Proof.
  induction reads as [|op reads IH]; intros m1 m2 st1 st2 Hr Hfs Hc1 Hc2; [reflexivity|].
  cbn [forallb] in Hr. apply andb_true_iff in Hr. destruct Hr as [Hop Hr].
  cbn [v1_run].
  destruct (read_step_cons m1 st1 op Hop Hc1) as [Ha1 Hb1].
  destruct (read_step_cons m2 st2 op Hop Hc2) as [Ha2 Hb2].
  pose proof (read_step_fs m1 st1 op Hop) as Hf1. pose proof (read_step_fs m2 st2 op Hop) as Hf2.
  destruct (v1_step m1 st1 op) as [st1' r1]. destruct (v1_step m2 st2 op) as [st2' r2]. cbn [fst snd] in *.
  rewrite Ha1, Ha2, Hfs. f_equal. apply IH; [exact Hr | congruence | exact Hb1 | exact Hb2].
Qed.

Lemma v1_run_app m : forall a st b,
  v1_run m st (a ++ b) = v1_run m st a ++ v1_run m (v1_state_after m st a) b.
Proof.
  induction a as [|op a IH]; intros st b; [reflexivity|].
  cbn [app v1_run v1_state_after]. destruct (v1_step m st op) as [st' r]. cbn [fst app]. rewrite IH. reflexivity.
Qed.

Lemma v1_run_length m : forall a st, length (v1_run m st a) = length a.
Proof.
  induction a as [|op a IH]; intro st; [reflexivity|]. cbn [v1_run]. destruct (v1_step m st op) as [st' r].
  cbn [length]. rewrite IH. reflexivity.
Qed.

Lemma after_clear_equals_uncached (clear : kop) :
  (forall m st, v1_step m st clear = (with_cache st [], Ok [])) ->
  forall m ops reads, forallb is_read reads = true ->
  skipn (length ops + 1) (v1_run m v1_init (ops ++ clear :: reads))
  = skipn (length ops + 1) (v1_run NoCache v1_init (ops ++ clear :: reads)).
Proof.
  intros Hclear m ops reads Hr.
  assert (E : forall m', skipn (length ops + 1) (v1_run m' v1_init (ops ++ clear :: reads))
                         = v1_run m' (with_cache (v1_state_after m' v1_init ops) []) reads).
  { intro m'. rewrite v1_run_app. cbn [v1_run]. rewrite Hclear.
    change (v1_run m' v1_init ops ++ Ok [] :: v1_run m' (with_cache (v1_state_after m' v1_init ops) []) reads)
      with (v1_run m' v1_init ops ++ [Ok []] ++ v1_run m' (with_cache (v1_state_after m' v1_init ops) []) reads).
    rewrite app_assoc. apply skipn_app_len'. rewrite app_length, v1_run_length. reflexivity. }
  rewrite !E.
  apply reads_equal; [exact Hr | | constructor | constructor].
  unfold with_cache. cbn [v_fs]. rewrite !v1_fs_cache_independent. reflexivity.
Qed.

Theorem after_reset_equals_uncached :
  forall m ops reads, forallb is_read reads = true ->
  skipn (length ops + 1) (v1_run m v1_init (ops ++ Reset :: reads))
  = skipn (length ops + 1) (v1_run NoCache v1_init (ops ++ Reset :: reads)).
Proof. apply after_clear_equals_uncached. reflexivity. Qed.

Theorem after_reopen_equals_uncached :
  forall m ops reads, forallb is_read reads = true ->
  skipn (length ops + 1) (v1_run m v1_init (ops ++ Reopen :: reads))
  = skipn (length ops + 1) (v1_run NoCache v1_init (ops ++ Reopen :: reads)).
Proof. apply after_clear_equals_uncached. reflexivity. Qed.

(** the file tree abstracts to the specification's state under every cache mode *)
Theorem v1_abs_after_any_cache :
  forall m ops, increasing_from 0 (clock_readings ops) ->
  forall s, v1_abs (v_fs (v1_state_after m v1_init ops)) s = spec_state_after true s_init ops s.
Proof.
  intros m ops H s. rewrite v1_fs_cache_independent, <- (v1_fs_cache_independent NoCache).
  apply v1_abs_after_nocache. exact H.
Qed.
