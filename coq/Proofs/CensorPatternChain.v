(** The pattern rule inside the handler chain: what the theorems about the matcher give for allow / deny
    handlers whose pattern result is computed by the model (Model/RunCensor.v, OpCensorP). *)
From Coq Require Import List Bool NArith Arith Lia.
From Acra Require Import Lib.Bytes Lib.Outcome Model.CensorPattern Proofs.CensorTree Proofs.CensorPatternSound
  Proofs.CensorPatternTotal Proofs.CensorPatternComplete Proofs.CensorPatternGen.
From Acra Require Model.Censor Proofs.Censor.
Import ListNotations.

Lemma match_impl_ok p s : wf p = true -> wf s = true -> exists b, match_impl p s = Ok b.
Proof.
  intros Hp Hs. unfold match_impl. destruct (top_kind (tkind p)); [apply meq_ok; assumption | eauto].
Qed.

Lemma check_patterns_hit ps s p :
  forallb wf ps = true -> wf s = true -> In p ps -> match_impl p s = Ok true -> check_patterns ps s = Ok true.
Proof.
  intros Hps Hs. induction ps as [|x ps IH]; intros Hin Hm; [contradiction|].
  cbn [forallb] in Hps. apply andb_true_iff in Hps. destruct Hps as [Hx Hps].
  cbn [check_patterns]. destruct (match_impl_ok x s Hx Hs) as [[|] E]; rewrite E; [reflexivity|].
  destruct Hin as [->|Hin]; [rewrite Hm in E; discriminate | auto].
Qed.

Lemma check_patterns_sound ps s :
  forallb wf ps = true -> wf s = true -> check_patterns ps s = Ok true ->
  exists p, In p ps /\ instance_of_loose p s = true.
Proof.
  intros Hps Hs. induction ps as [|x ps IH]; intro H; [discriminate|].
  cbn [forallb] in Hps. apply andb_true_iff in Hps. destruct Hps as [Hx Hps].
  cbn [check_patterns] in H. destruct (match_impl x s) as [[|]| |] eqn:E; try discriminate H.
  - exists x. split; [left; reflexivity | apply match_impl_sound; assumption].
  - destruct (IH Hps H) as [p [Hin Hp]]. exists p. split; [right; assumption | assumption].
Qed.

Module C := Acra.Model.Censor.
Module PC := Acra.Proofs.Censor.

Lemma rules_of_p s hq mq ts hp mp :
  C.has_p (C.rules_of s hq mq ts hp mp) = hp /\ C.m_p (C.rules_of s hq mq ts hp mp) = mp.
Proof. unfold C.rules_of. destruct (C.check_table_names ts s). split; reflexivity. Qed.

(** a deny handler that lists a generalisation of the statement among its patterns rejects the statement,
    wherever it stands, if no handler in front of it has an opinion *)
Theorem deny_generalised_pattern_rejected c pre post st hq mq ts ps sel s :
  Forall (PC.silent true) pre ->
  forallb wf ps = true -> wf s = true -> supported s = true -> top_kind (tkind s) = true ->
  In (generalise sel [] s) ps ->
  C.is_denied (C.handle_query c true
               (pre ++ C.HDeny (C.rules_of st hq mq ts (negb (C.is_nil ps)) (pattern_hit ps s)) :: post)) = true.
Proof.
  intros Hpre Hps Hs Hsup Ht Hin. apply PC.deny_rule_match_rejected; [exact Hpre|].
  destruct (rules_of_p st hq mq ts (negb (C.is_nil ps)) (pattern_hit ps s)) as [-> ->].
  unfold pattern_hit.
  rewrite (check_patterns_hit ps s (generalise sel [] s) Hps Hs Hin (generalisation_matches_all sel s Hs Hsup Ht)).
  destruct ps; [contradiction|]. cbn. apply orb_true_r.
Qed.

(** [allow patterns; denyall]: a statement that is an instance of none of the patterns (even in the loose
    reading of %%WHERE%%) is rejected *)
Theorem allow_patterns_then_denyall_rejected c pre post st ps s :
  Forall (PC.silent true) pre ->
  forallb wf ps = true -> wf s = true ->
  (forall p, In p ps -> instance_of_loose p s = false) ->
  C.is_denied (C.handle_query c true
               (pre ++ C.HAllow (C.rules_of st false false [] (negb (C.is_nil ps)) (pattern_hit ps s))
                    :: C.HDenyAll :: post)) = true.
Proof.
  intros Hpre Hps Hs Hno.
  replace (pre ++ C.HAllow (C.rules_of st false false [] (negb (C.is_nil ps)) (pattern_hit ps s)) :: C.HDenyAll :: post)
    with ((pre ++ [C.HAllow (C.rules_of st false false [] (negb (C.is_nil ps)) (pattern_hit ps s))]) ++ C.HDenyAll :: post)
    by (rewrite <- app_assoc; reflexivity).
  apply PC.not_admitted_before_denyall_rejected.
  apply Forall_app. split; [exact Hpre|]. constructor; [|constructor].
  unfold PC.silent, C.rules_of. destruct (C.check_table_names [] st) as [one all].
  assert (Hhit : pattern_hit ps s = false).
  { unfold pattern_hit. destruct (check_patterns ps s) as [[|]| |] eqn:E; try reflexivity.
    destruct (check_patterns_sound ps s Hps Hs E) as [p [Hin Hp]]. rewrite (Hno p Hin) in Hp. discriminate. }
  rewrite Hhit. cbn [PC.decision C.has_q C.m_q C.has_t C.t_all C.has_p C.m_p andb orb C.is_nil negb].
  rewrite andb_false_r. reflexivity.
Qed.
