(** Injectivity of the (purpose, client id) -> storage name maps of both key store formats (C02, key part). *)
From Acra Require Import Lib.Bytes Gen.KeyNames Model.KeyNames.
From Coq Require Import ZifyN ZifyNat ZifyBool.


(** * Generic facts about concatenations *)

Lemma app_prefix_clash (x y u v : bytes) :
  x ++ u = y ++ v -> starts_with x y = true \/ starts_with y x = true.
Proof.
  revert y; induction x as [|a x IH]; intros y H.
  - left. reflexivity.
  - destruct y as [|b y].
    + right. reflexivity.
    + cbn in H. inversion H as [[Hab Hrest]]. subst b.
      destruct (IH y Hrest) as [E|E]; [left|right]; cbn; rewrite byte_eqb_refl, E; reflexivity.
Qed.

(** [clash s t]: one of the two suffixes is a suffix of the other (necessary for [a ++ s = b ++ t]) *)
Definition clash (s t : bytes) : bool :=
  starts_with (rev s) (rev t) || starts_with (rev t) (rev s).

Lemma app_suffix_clash (a b s t : bytes) : a ++ s = b ++ t -> clash s t = true.
Proof.
  intros H. apply (f_equal (@rev byte)) in H. rewrite !rev_app_distr in H.
  unfold clash. destruct (app_prefix_clash _ _ _ _ H) as [E|E]; rewrite E; [reflexivity|apply orb_true_r].
Qed.

Definition ends_with (suf s : bytes) : bool := starts_with (rev suf) (rev s).

Lemma app_ends_with (a suf : bytes) : ends_with suf (a ++ suf) = true.
Proof. unfold ends_with. rewrite rev_app_distr. apply starts_with_app. Qed.

(** * ValidateID *)

Lemma valid_id_length id : valid_id id = true -> ID_MIN_LEN <= length id <= ID_MAX_LEN.
Proof.
  unfold valid_id. intros H. apply andb_true_iff in H as [H _]. apply andb_true_iff in H as [H1 H2].
  apply Nat.leb_le in H1. apply Nat.leb_le in H2. split; assumption.
Qed.

Lemma valid_id_bytes id : valid_id id = true -> forallb valid_byte id = true.
Proof. unfold valid_id. intros H. apply andb_true_iff in H as [_ H]. exact H. Qed.

Lemma valid_no_byte (c : byte) (id : bytes) :
  valid_byte c = false -> forallb valid_byte id = true -> existsb (byte_eqb c) id = false.
Proof.
  intros Hc. induction id as [|a id IH]; intros H; [reflexivity|].
  cbn [forallb] in H. apply andb_true_iff in H as [Ha Hid]. cbn [existsb].
  destruct (byte_eqb c a) eqn:E.
  - apply byte_eqb_eq in E. subst a. congruence.
  - cbn. apply IH. exact Hid.
Qed.

Lemma slash_invalid : valid_byte SLASH = false. Proof. vm_compute. reflexivity. Qed.
Lemma dot_invalid : valid_byte DOT = false. Proof. vm_compute. reflexivity. Qed.
Lemma min_len_3 : 3 <= ID_MIN_LEN. Proof. apply Nat.leb_le. vm_compute. reflexivity. Qed.

(** every id accepted by ValidateID is an ordinary single path component: v2's filepath.Join is verbatim *)
Lemma split_no_slash (id : bytes) :
  existsb (byte_eqb SLASH) id = false -> forall cur, split_slash cur id = [rev cur ++ id].
Proof.
  induction id as [|b id IH]; intros H cur; cbn [split_slash].
  - rewrite app_nil_r. reflexivity.
  - cbn [existsb] in H. apply orb_false_iff in H as [Hb Hid]. rewrite Hb.
    rewrite (IH Hid). cbn [rev]. rewrite <- app_assoc. reflexivity.
Qed.

Lemma valid_id_join_plain id : valid_id id = true -> join_plain id = true.
Proof.
  intros H. pose proof (valid_id_length id H) as [Hlen _]. pose proof min_len_3 as H3.
  unfold join_plain.
  rewrite (split_no_slash id (valid_no_byte SLASH id slash_invalid (valid_id_bytes id H)) []).
  cbn [rev app forallb]. rewrite andb_true_r. unfold plain_component.
  destruct id as [|a [|b [|c id]]]; cbn [length] in Hlen; try lia.
  cbn. destruct (byte_eqb a DOT); destruct (byte_eqb b DOT); reflexivity.
Qed.

Lemma valid_id_no_dot id : valid_id id = true -> existsb (byte_eqb DOT) id = false.
Proof. intros H. apply (valid_no_byte DOT id dot_invalid (valid_id_bytes id H)). Qed.

(** * keystore v1 *)

Definition v1_purpose_eq_dec (a b : v1_purpose) : {a = b} + {a <> b}.
Proof. decide equality. Defined.
Definition v2_purpose_eq_dec (a b : v2_purpose) : {a = b} + {a <> b}.
Proof. decide equality. Defined.

Lemma v1_pre_nil p : v1_pre p = [].
Proof. destruct p; vm_compute; reflexivity. Qed.

Lemma name_v1_app p id : name_v1 p id = id ++ v1_suf p.
Proof. unfold name_v1. rewrite v1_pre_nil. reflexivity. Qed.

(** the suffixes of two different non-connector purposes never end one another (finite check on the
    regenerated constants) *)
Lemma v1_noclash p1 p2 :
  v1_connector p1 = false -> v1_connector p2 = false -> p1 <> p2 -> clash (v1_suf p1) (v1_suf p2) = false.
Proof.
  intros H1 H2 Hne.
  destruct p1, p2; try discriminate H1; try discriminate H2; try (exfalso; apply Hne; reflexivity);
    vm_compute; reflexivity.
Qed.

(** For ALL byte strings as ids (validity not even needed): apart from the legacy AcraConnector key pair,
    distinct (purpose, id) pairs have distinct v1 file names. *)
Theorem name_v1_injective :
  forall (p1 p2 : v1_purpose) (id1 id2 : bytes),
  v1_connector p1 = false -> v1_connector p2 = false ->
  name_v1 p1 id1 = name_v1 p2 id2 -> p1 = p2 /\ id1 = id2.
Proof.
  intros p1 p2 id1 id2 H1 H2 H. rewrite !name_v1_app in H.
  destruct (v1_purpose_eq_dec p1 p2) as [->|Hne].
  - split; [reflexivity|]. apply app_inv_tail in H. exact H.
  - apply app_suffix_clash in H. rewrite (v1_noclash p1 p2 H1 H2 Hne) in H. discriminate.
Qed.

Lemma v1_current_not_connector p : v1_current p = true -> v1_connector p = false.
Proof. destruct p; cbn; intros H; try reflexivity; discriminate. Qed.

(** the statement in the shape of DESIGN.md: valid ids, the purposes in use today *)
Corollary name_v1_injective_current :
  forall (p1 p2 : v1_purpose) (id1 id2 : bytes),
  valid_id id1 = true -> valid_id id2 = true -> v1_current p1 = true -> v1_current p2 = true ->
  name_v1 p1 id1 = name_v1 p2 id2 -> p1 = p2 /\ id1 = id2.
Proof.
  intros p1 p2 id1 id2 _ _ H1 H2. apply name_v1_injective; apply v1_current_not_connector; assumption.
Qed.

(** a per-client file never is one of the key store's global files (poison keys, audit log key) *)
Lemma v1_suf_not_global p :
  v1_connector p = false -> forallb (fun g => negb (ends_with (v1_suf p) g)) V1_GLOBALS = true.
Proof. destruct p; intros H; try discriminate H; vm_compute; reflexivity. Qed.

Theorem name_v1_not_global :
  forall (p : v1_purpose) (id : bytes), v1_connector p = false -> ~ In (name_v1 p id) V1_GLOBALS.
Proof.
  intros p id Hp Hin. pose proof (v1_suf_not_global p Hp) as Hall.
  rewrite forallb_forall in Hall. specialize (Hall _ Hin).
  rewrite name_v1_app, app_ends_with in Hall. discriminate.
Qed.

(** With the legacy connector key pair the map is NOT injective on valid ids: the connector private key
    of client "<x>_storage" is the file of the storage private key of client "<x>" (same for the public
    halves), and the connector key of a client named like the audit-log key file is that file. *)
Definition id_x : bytes := (hb 0x1616c696365%N) (* "alice" *).
Definition id_x_storage : bytes := Eval vm_compute in id_x ++ v1_suf StoragePriv.

Theorem name_v1_injective_refuted :
  exists p1 id1 p2 id2,
    valid_id id1 = true /\ valid_id id2 = true /\ (p1, id1) <> (p2, id2) /\
    name_v1 p1 id1 = name_v1 p2 id2.
Proof.
  exists ConnPriv, id_x_storage, StoragePriv, id_x.
  split; [vm_compute; reflexivity|]. split; [vm_compute; reflexivity|].
  split; [intros H; discriminate H|]. vm_compute. reflexivity.
Qed.

Theorem name_v1_public_refuted :
  exists id1 id2, valid_id id1 = true /\ valid_id id2 = true /\ id1 <> id2 /\
    name_v1 ConnPub id1 = name_v1 StoragePub id2.
Proof.
  exists id_x_storage, id_x.
  split; [vm_compute; reflexivity|]. split; [vm_compute; reflexivity|].
  split; [intros H; discriminate H|]. vm_compute. reflexivity.
Qed.

Definition id_logkey : bytes := Eval vm_compute in nth 3 V1_GLOBALS [].
Theorem name_v1_connector_hits_global :
  exists id, valid_id id = true /\ In (name_v1 ConnPriv id) V1_GLOBALS.
Proof.
  exists id_logkey. split; [vm_compute; reflexivity|].
  vm_compute. right. right. right. left. reflexivity.
Qed.

(** * keystore v2 *)

Lemma v2_pre_same p1 p2 : v2_pre p1 = v2_pre p2.
Proof. destruct p1, p2; vm_compute; reflexivity. Qed.

Lemma v2_noclash p1 p2 : p1 <> p2 -> clash (v2_suf p1) (v2_suf p2) = false.
Proof.
  intros Hne. destruct p1, p2; try (exfalso; apply Hne; reflexivity); vm_compute; reflexivity.
Qed.

(** on the whole modelled domain (ids that filepath.Join leaves alone — includes every valid id) *)
Theorem name_v2_injective :
  forall (p1 p2 : v2_purpose) (id1 id2 n : bytes),
  name_v2 p1 id1 = Some n -> name_v2 p2 id2 = Some n -> p1 = p2 /\ id1 = id2.
Proof.
  intros p1 p2 id1 id2 n H1 H2. unfold name_v2 in *.
  destruct (join_plain id1); [|discriminate]. destruct (join_plain id2); [|discriminate].
  inversion H1 as [E1]. inversion H2 as [E2]. clear H1 H2.
  rewrite <- E2 in E1. rewrite (v2_pre_same p1 p2) in E1. apply app_inv_head in E1.
  destruct (v2_purpose_eq_dec p1 p2) as [->|Hne].
  - split; [reflexivity|]. apply app_inv_tail in E1. exact E1.
  - apply app_suffix_clash in E1. rewrite (v2_noclash p1 p2 Hne) in E1. discriminate.
Qed.

Lemma name_v2_valid p id : valid_id id = true -> name_v2 p id = Some (v2_pre p ++ id ++ v2_suf p).
Proof. intros H. unfold name_v2. rewrite (valid_id_join_plain id H). reflexivity. Qed.

Corollary name_v2_injective_valid :
  forall (p1 p2 : v2_purpose) (id1 id2 : bytes),
  valid_id id1 = true -> valid_id id2 = true ->
  name_v2 p1 id1 = name_v2 p2 id2 -> p1 = p2 /\ id1 = id2.
Proof.
  intros p1 p2 id1 id2 V1 V2 H. rewrite (name_v2_valid p2 id2 V2) in H.
  eapply name_v2_injective; [exact H|]. apply name_v2_valid. exact V2.
Qed.

Lemma v2_pre_not_global p : forallb (fun g => negb (starts_with (v2_pre p) g)) V2_GLOBALS = true.
Proof. destruct p; vm_compute; reflexivity. Qed.

Theorem name_v2_not_global :
  forall (p : v2_purpose) (id n : bytes), name_v2 p id = Some n -> ~ In n V2_GLOBALS.
Proof.
  intros p id n H Hin. unfold name_v2 in H. destruct (join_plain id); [|discriminate].
  inversion H as [E]. pose proof (v2_pre_not_global p) as Hall.
  rewrite forallb_forall in Hall. specialize (Hall _ Hin).
  rewrite <- E, starts_with_app in Hall. discriminate.
Qed.

(** * Both formats, in the shape asked for by the property: "different clients get different keys' names" *)
Theorem name_injective :
  forall (id1 id2 : bytes), valid_id id1 = true -> valid_id id2 = true ->
  (forall p1 p2, v1_connector p1 = false -> v1_connector p2 = false ->
     name_v1 p1 id1 = name_v1 p2 id2 -> p1 = p2 /\ id1 = id2) /\
  (forall p1 p2, name_v2 p1 id1 = name_v2 p2 id2 -> p1 = p2 /\ id1 = id2).
Proof.
  intros id1 id2 V1 V2. split.
  - intros p1 p2. apply name_v1_injective.
  - intros p1 p2. apply name_v2_injective_valid; assumption.
Qed.

(** * Non-vacuity *)
Example valid_id_ex : valid_id id_x = true /\ valid_id id_x_storage = true.
Proof. split; vm_compute; reflexivity. Qed.
Example invalid_id_ex :
  valid_id (hb 0x161626364%N) = false (* "abcd": too short *) /\
  valid_id (hb 0x12e2e2f2e2e2f657463%N) = false (* "../../etc" *) /\
  valid_id (repeat_bytes x61 257) = false /\ valid_id (repeat_bytes x61 256) = true.
Proof. repeat split; vm_compute; reflexivity. Qed.
Example name_v1_premises_ex :
  v1_connector StorageSym = false /\ v1_connector Hmac = false /\
  name_v1 StorageSym id_x = name_v1 StorageSym id_x /\ name_v1 StorageSym id_x <> name_v1 Hmac id_x /\
  name_v1 StoragePriv id_x_storage <> name_v1 StorageSym id_x.
Proof. repeat split; try (vm_compute; reflexivity); intros H; vm_compute in H; discriminate H. Qed.
Example name_v2_premises_ex :
  exists n, name_v2 HmacRing id_x = Some n /\ n <> [] /\ name_v2 StorageRing id_x <> Some n /\
            name_v2 HmacRing (hb 0x1612f2e2e2f616c696365%N) = None (* "a/../alice": Join would clean it *).
Proof.
  eexists. split; [vm_compute; reflexivity|]. split; [discriminate|].
  split; [intros H; vm_compute in H; discriminate H| vm_compute; reflexivity].
Qed.
