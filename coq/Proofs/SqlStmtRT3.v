(** C13_statements, round trip, part 3: the cases of the mutual induction for the operator nodes of expressions
    (and / or / not / comparisons / between / is / binary / unary / collate). *)
From Acra Require Import Lib.Bytes Gen.Prec Gen.SqlWords Model.SqlStmt Model.SqlStmtParse
  Proofs.SqlStmtUnfold Proofs.SqlStmtFacts Proofs.SqlStmtEqns Proofs.SqlStmtHeads Proofs.SqlStmtRT1 Proofs.SqlStmtRT2.
From Coq Require Import Arith Lia.

Section RT.
Variable pg : bool.
Notation Cst := (Cst pg). Notation Ust := (Ust pg). Notation Ast := (Ast pg). Notation Pe := (Pe pg).
Notation Pxs := (Pxs pg). Notation Ssel := (Ssel pg). Notation Ist := (Ist pg).

Ltac KL := unfold K in *; lia.
Ltac fuel f := destruct f as [|f]; [KL|].

Lemma case_EAnd l r : Pe l -> Pe r -> Pe (EAnd l r).
Proof.
  intros [Cl _] [Cr _]. apply P_not_unary; [cbn [level]; precs| |exact I].
  intros Hwf min rest R a Hmin Hst Hk f Hf.
  rewrite wf_EAnd in Hwf. split_andb. leb_hyps.
  rewrite print_EAnd, need_EAnd in *. cbn [level rbound] in *. rewrite <- app_assoc. cbn [app].
  apply (Cl ltac:(assumption) min (TW W_and :: print pg r ++ rest) R (a + need r + 2)); [lia| | |KL].
  - apply stops_and. apply rbound_gt; [assumption|precs].
  - intros f0 Hf0. fuel f0. rewrite ploop_and.
    replace (L_AND <? min) with false by (ltb_false; lia).
    rewrite (Cr ltac:(assumption) (S L_AND) rest (Some (r, rest)) 1); [apply Hk; lia|lia| | |lia].
    + eapply stops_mono; [|exact Hst]. pose proof (rbound_gt r (S L_AND) ltac:(assumption) ltac:(precs)). lia.
    + intros f1 Hf1. fuel f1. apply ploop_stop. exact Hst.
Qed.

Lemma case_EOr l r : Pe l -> Pe r -> Pe (EOr l r).
Proof.
  intros [Cl _] [Cr _]. apply P_not_unary; [cbn [level]; precs| |exact I].
  intros Hwf min rest R a Hmin Hst Hk f Hf.
  rewrite wf_EOr in Hwf. split_andb. leb_hyps.
  rewrite print_EOr, need_EOr in *. cbn [level rbound] in *. rewrite <- app_assoc. cbn [app].
  apply (Cl ltac:(assumption) min (TW W_or :: print pg r ++ rest) R (a + need r + 2)); [lia| | |KL].
  - apply stops_or. apply rbound_gt; [assumption|precs].
  - intros f0 Hf0. fuel f0. rewrite ploop_or.
    replace (L_OR <? min) with false by (ltb_false; lia).
    rewrite (Cr ltac:(assumption) (S L_OR) rest (Some (r, rest)) 1); [apply Hk; lia|lia| | |lia].
    + eapply stops_mono; [|exact Hst]. pose proof (rbound_gt r (S L_OR) ltac:(assumption) ltac:(precs)). lia.
    + intros f1 Hf1. fuel f1. apply ploop_stop. exact Hst.
Qed.

Lemma tokprec_ne_not ts p : tokprec ts = Some p -> p <> L_NOT.
Proof.
  destruct ts as [|t ts]; [discriminate|]. cbn [tokprec].
  destruct (binop_of t) as [o|] eqn:E.
  - intros H. inversion H. precs.
  - destruct t as [| | | |p0|w|]; try discriminate.
    + destruct p0; try discriminate; intros H; inversion H; precs.
    + destruct w; try discriminate; intros H; inversion H; try precs.
      destruct ts as [|[| | | | |[]|] ?]; inversion H1; precs.
Qed.
Lemma stops_not_level rest : stopsb (S L_NOT) rest = true -> stopsb L_NOT rest = true.
Proof.
  intros H. unfold stopsb in *. destruct rest as [|t rest]; [reflexivity|].
  apply andb_prop in H as [H1 H2]. rewrite H1. cbn [andb].
  destruct (tokprec (t :: rest)) as [p|] eqn:E; [|reflexivity].
  pose proof (tokprec_ne_not _ _ E). apply Nat.ltb_lt in H2. apply Nat.ltb_lt. lia.
Qed.

Lemma case_ENot x : Pe x -> Pe (ENot x).
Proof.
  intros [Cx _]. apply P_not_unary; [cbn [level]; precs| |exact I].
  intros Hwf min rest R a Hmin Hst Hk f Hf.
  rewrite wf_ENot in Hwf. split_andb. leb_hyps.
  rewrite print_ENot, need_ENot in *. cbn [level rbound app] in *. fuel f.
  rewrite pexpr_not. replace (min <=? L_NOT) with true by (leb_true; lia).
  pose proof (stops_not_level rest Hst) as Hst'.
  rewrite (Cx ltac:(assumption) L_NOT rest (Some (x, rest)) 1); [apply Hk; KL|lia| | |KL].
  - eapply stops_mono; [|exact Hst']. pose proof (rbound_gt x L_NOT ltac:(assumption) ltac:(precs)). lia.
  - intros f1 Hf1. fuel f1. apply ploop_stop. exact Hst'.
Qed.

Lemma cmp_in_op o : is_in o = true -> (if cmp_neg o then CNotIn else CIn) = o.
Proof. destruct o; try discriminate; reflexivity. Qed.

Lemma sel_head q : starts_paren q = false -> exists r, print_sel pg q = TW W_select :: r.
Proof.
  induction q; cbn [starts_paren]; intros H; try discriminate.
  - rewrite print_sel_Select. eexists. reflexivity.
  - destruct (IHq1 H) as [r0 E]. rewrite print_sel_Union. rewrite E. eexists. reflexivity.
Qed.
Lemma starts_paren_not_paren q : starts_paren q = false -> is_paren q = false.
Proof. destruct q; try reflexivity. discriminate. Qed.
Lemma print_exprs_head xs rest : wf_exprs pg xs = true -> xs <> XNil ->
  exists t0 r, print_exprs pg xs ++ rest = t0 :: r /\ estart t0 = true.
Proof.
  destruct xs as [|x xs]; [congruence|]. intros Hwf _. rewrite wf_exprs_XCons in Hwf. split_andb.
  destruct (print_head pg x ltac:(assumption)) as [t0 [r [E Hs]]].
  destruct xs; [rewrite print_exprs_XCons|rewrite print_exprs_XCons2]; rewrite E; eexists; eexists; (split; [reflexivity|exact Hs]).
Qed.

(** a sub-select in parentheses: after '(' up to and including ')' *)
Lemma subq_ok q rest f :
  Ssel q -> wf_sel pg q = true -> starts_paren q = false -> S (S (need_sel q)) <= f ->
  psel pg f (print_sel pg q ++ TP PRParen :: rest) = Some (q, TP PRParen :: rest).
Proof.
  intros Sq Hwf Hp Hf.
  apply (Sq Hwf (TP PRParen :: rest) (Some (q, TP PRParen :: rest)) 1); [reflexivity| |lia].
  intros f0 Hf0. destruct f0; [lia|]. rewrite punion_S. cbn [expect_w].
  rewrite (starts_paren_not_paren q Hp). reflexivity.
Qed.

Lemma case_ECmp o l r : Pe l -> Pe r -> Pe (ECmp o l r).
Proof.
  intros [Cl _] [Cr [_ [_ Ir]]]. apply P_not_unary; [cbn [level]; precs| |exact I].
  intros Hwf min rest R a Hmin Hst Hk f Hf.
  rewrite wf_ECmp in Hwf. split_andb.
  assert (Hvl : L_VAL <= level l) by (apply is_v_level; assumption).
  rewrite print_ECmp, need_ECmp in *. cbn [level rbound] in *. rewrite <- !app_assoc.
  apply (Cl ltac:(assumption) min (cmp_toks o ++ print pg r ++ rest) R (a + need r + 4)); [precs| | |KL].
  - apply stops_cmp. apply rbound_gt; precs.
  - intros f0 Hf0. destruct f0 as [|[|f0]]; try KL. rewrite ploop_cmp.
    replace (L_CMP <? min) with false by (ltb_false; precs).
    replace (is_v l) with true by (symmetry; assumption).
    rewrite pcond_S.
    destruct (is_in o) eqn:Ein.
    + replace (cmp_kind o) with CKIn by (destruct o; try discriminate; reflexivity).
      rewrite (cmp_in_op o Ein).
      destruct r; try discriminate.
      * (* tuple *)
        split_andb. negb_hyps. rewrite print_ETuple. cbn [app]. rewrite expect_p_hit. rewrite <- app_assoc. cbn [app].
        cbn [SqlStmtRT1.Ist] in Ir. rewrite need_ETuple in *.
        assert (Hne : xs <> XNil) by (destruct xs; [discriminate|discriminate]).
        destruct (print_exprs_head xs (TP PRParen :: rest) ltac:(assumption) Hne) as [t0 [r0 [E Hs]]].
        rewrite E. rewrite (estart_head_w t0 r0 W_select Hs eq_refl). rewrite <- E.
        rewrite (Ir ltac:(assumption) Hne (TP PRParen :: rest)) by first [reflexivity | KL].
        rewrite expect_p_hit. apply Hk. KL.
      * (* sub-select *)
        split_andb. negb_hyps. rewrite print_ESubq. cbn [app]. rewrite expect_p_hit. rewrite <- app_assoc. cbn [app].
        cbn [SqlStmtRT1.Ist] in Ir. rewrite need_ESubq in *.
        destruct (sel_head q ltac:(assumption)) as [r0 E]. rewrite E. cbn [app]. rewrite head_w_hit.
        change (TW W_select :: r0 ++ TP PRParen :: rest) with ((TW W_select :: r0) ++ TP PRParen :: rest). rewrite <- E.
        rewrite (subq_ok q rest f0 Ir) by first [assumption | KL].
        rewrite expect_p_hit. apply Hk. KL.
    + split_andb.
      assert (Hvr : L_VAL <= level r) by (apply is_v_level; assumption).
      assert (Hpr : pval pg f0 L_VAL (print pg r ++ rest) = Some (r, rest)).
      { apply pval_of_C; try assumption; [| |KL].
        - eapply stops_mono; [|exact Hst]. pose proof (rbound_gt r L_VAL Hvr ltac:(precs)). precs.
        - eapply stops_mono; [|exact Hst]. precs. }
      destruct (is_like o) eqn:Elike.
      * assert (Eo : cmp_kind o = CKLike (is_ilike o) /\
                     (if is_ilike o then (if cmp_neg o then CNotILike else CILike) else (if cmp_neg o then CNotLike else CLike)) = o)
          by (destruct o; try discriminate; split; reflexivity).
        destruct Eo as [-> Eo]. rewrite Eo.
        replace (is_ilike o && negb pg) with false
          by (symmetry; match goal with H : negb (is_ilike o) || pg = true |- _ => destruct (is_ilike o), pg; try reflexivity; discriminate H end).
        rewrite Hpr.
        replace (expect_w W_escape rest) with (@None (list tok)); [apply Hk; KL|].
        symmetry. apply expect_w_miss. intros r' ->. cbn [stopsb glue negb andb tokprec binop_of] in Hst.
        apply Nat.ltb_lt in Hst. lia.
      * replace (cmp_kind o) with (CKSimple o) by (destruct o; try discriminate; reflexivity).
        rewrite Hpr. apply Hk. KL.
Qed.
End RT.
