(** C07 — key rings read by open handles (Model/RingStore.v): every read of the stored bytes is
    followed by the signature check of exactly those bytes, on every path of every operation, for
    every history and every adversary; what a pull accepts was signed by the key store for that
    path (or a MAC forgery is exhibited); an update through an open handle whose ring file was
    changed fails, writes nothing and leaves the handle as it was. *)
From Coq Require Import List NArith ZArith Bool Lia.
From Acra Require Import Lib.Bytes Lib.Outcome Gen.KsConsts Gen.KeyStates Model.Notary Model.RingStore Proofs.Notary.
Import ListNotations.

Section RingStoreProofs.
  Variable mac : bytes -> bytes -> bytes.
  Variable algs : list (bytes * bytes).
  Variable decode : bytes -> option ringv.

  Notation verify_ev := (verify_ev mac algs).
  Notation pull := (pull mac algs decode).
  Notation push := (push mac algs decode).
  Notation sync_write := (sync_write mac algs decode).
  Notation step := (step mac algs decode).
  Notation update := (update mac algs decode).
  Notation import_asn1 := (import_asn1 mac algs decode).

  (** the Verify calls made for a stored file of ring [p] *)
  Definition checks_of (p pl : bytes) (sg : list (bytes * bytes)) : list ev :=
    snd (verify_ev sg pl (ring_sig_ctx p) false).

  Lemma verify_ev_fst sigs pl ctx v :
    fst (verify_ev sigs pl ctx v) = verify_sigs mac algs sigs pl ctx v.
  Proof.
    revert v. induction sigs as [|[oid sg] r IH]; intros v; cbn [RingStore.verify_ev verify_sigs]; [reflexivity|].
    destruct (find_alg algs oid) as [key|]; [|apply IH].
    destruct (alg_verify mac key sg pl ctx); [|reflexivity].
    specialize (IH true). destruct (verify_ev r pl ctx true) as [x e]. exact IH.
  Qed.

  Lemma verify_ev_no_panic sigs pl ctx v : fst (verify_ev sigs pl ctx v) <> Panic.
  Proof.
    rewrite verify_ev_fst. revert v. induction sigs as [|[oid sg] r IH]; intros v; cbn [verify_sigs].
    - destruct v; discriminate.
    - destruct (find_alg algs oid); [|apply IH]. destruct (alg_verify mac b sg pl ctx); [apply IH| discriminate].
  Qed.

  Lemma verify_ev_err sigs pl ctx v e :
    fst (verify_ev sigs pl ctx v) = Err e -> e = E_NO_SIGNATURE \/ e = E_SIGNATURE.
  Proof.
    rewrite verify_ev_fst. revert v. induction sigs as [|[oid sg] r IH]; intros v; cbn [verify_sigs].
    - destruct v; [discriminate|]. intros [= <-]. left. reflexivity.
    - destruct (find_alg algs oid); [|apply IH]. destruct (alg_verify mac b sg pl ctx); [apply IH|].
      intros [= <-]. right. reflexivity.
  Qed.

  (** ---- 1. the grammar of what one operation does at its seams ---- *)
  Definition ev_is_check (e : ev) : bool := match e with ECheck _ _ _ _ => true | _ => false end.

  Inductive reads_verified : list ev -> Prop :=
  | rv_nil : reads_verified []
  | rv_none p rest : reads_verified rest -> reads_verified (EGet p None :: rest)
  | rv_garbage p : reads_verified [EGet p (Some SGarbage)]
  | rv_ok p pl sg rest :
      verify_ring mac algs sg p pl = Ok tt -> reads_verified rest ->
      reads_verified (EGet p (Some (SParsed pl sg)) :: checks_of p pl sg ++ rest)
  | rv_bad p pl sg :
      verify_ring mac algs sg p pl <> Ok tt ->
      reads_verified (EGet p (Some (SParsed pl sg)) :: checks_of p pl sg)
  | rv_sign c pl sg rest : reads_verified rest -> reads_verified (ESign c pl sg :: rest)
  | rv_put p pl sg rest : reads_verified rest -> reads_verified (EPut p pl sg :: rest).

  (** event lists after which the operation may go on *)
  Definition ext (pre : list ev) : Prop := forall rest, reads_verified rest -> reads_verified (pre ++ rest).

  Lemma ext_nil : ext [].
  Proof. intros rest H. exact H. Qed.
  Lemma ext_app a b : ext a -> ext b -> ext (a ++ b).
  Proof. intros Ha Hb rest H. rewrite <- app_assoc. apply Ha, Hb, H. Qed.
  Lemma ext_rv a : ext a -> reads_verified a.
  Proof. intros H. rewrite <- (app_nil_r a). apply H. constructor. Qed.

  Lemma pull_cases s p :
    let f := flookup p (files (fire s)) in
    match f with
    | None => pull s p = (fire s, Err E_NOTEXIST, [EGet p None])
    | Some SGarbage => pull s p = (fire s, Err E_PARSE, [EGet p (Some SGarbage)])
    | Some (SParsed pl sg) =>
        match verify_ring mac algs sg p pl with
        | Ok _ => pull s p = (add_accepted (fire s) p pl, of_option E_DECODE (decode pl),
                              EGet p (Some (SParsed pl sg)) :: checks_of p pl sg)
        | Err e => pull s p = (fire s, Err e, EGet p (Some (SParsed pl sg)) :: checks_of p pl sg)
        | Panic => False
        end
    end.
  Proof.
    cbv zeta. unfold RingStore.pull, bget.
    destruct (flookup p (files (fire s))) as [[pl sg|]|]; [|reflexivity|reflexivity].
    unfold checks_of, verify_ring. rewrite <- verify_ev_fst.
    pose proof (verify_ev_no_panic sg pl (ring_sig_ctx p) false) as Hnp.
    destruct (verify_ev sg pl (ring_sig_ctx p) false) as [r evs]. cbn [fst snd] in *.
    destruct r as [[]|e|]; [reflexivity|reflexivity|congruence].
  Qed.

  Lemma pull_ok_ext s p s1 v e : pull s p = (s1, Ok v, e) -> ext e.
  Proof.
    pose proof (pull_cases s p) as H. cbv zeta in H.
    destruct (flookup p (files (fire s))) as [[pl sg|]|]; [|rewrite H; discriminate|rewrite H; discriminate].
    destruct (verify_ring mac algs sg p pl) as [[]|x|] eqn:Hv; [|rewrite H; discriminate|contradiction].
    rewrite H. intros [= <- _ <-] rest Hr. cbn [app]. apply rv_ok; assumption.
  Qed.

  Lemma pull_err s p s1 x e :
    pull s p = (s1, Err x, e) ->
    (x = E_NOTEXIST /\ e = [EGet p None] /\ s1 = fire s) \/ (x <> E_NOTEXIST /\ reads_verified e).
  Proof.
    pose proof (pull_cases s p) as H. cbv zeta in H.
    destruct (flookup p (files (fire s))) as [[pl sg|]|].
    - destruct (verify_ring mac algs sg p pl) as [[]|y|] eqn:Hv; [| |contradiction]; rewrite H.
      + destruct (decode pl); cbn [of_option]; [discriminate|]. intros [= <- <- <-]. right. split; [discriminate|].
        rewrite <- (app_nil_r (checks_of p pl sg)). apply rv_ok; [exact Hv| constructor].
      + intros [= <- <- <-]. right. split.
        * unfold verify_ring in Hv. rewrite <- verify_ev_fst in Hv. apply verify_ev_err in Hv as [-> | ->]; discriminate.
        * apply rv_bad. rewrite Hv. discriminate.
    - rewrite H. intros [= <- <- <-]. right. split; [discriminate| constructor].
    - rewrite H. intros [= <- <- <-]. left. repeat split.
  Qed.

  Lemma pull_no_panic s p s1 e : pull s p <> (s1, Panic, e).
  Proof.
    pose proof (pull_cases s p) as H. cbv zeta in H.
    destruct (flookup p (files (fire s))) as [[pl sg|]|]; [|rewrite H; discriminate|rewrite H; discriminate].
    destruct (verify_ring mac algs sg p pl) as [[]|y|]; [| |contradiction]; rewrite H; [|discriminate].
    destruct (decode pl); discriminate.
  Qed.

  Lemma signs_ext c pl (sg : list (bytes * bytes)) rest :
    reads_verified rest -> reads_verified (map (fun a => ESign c pl (snd a)) sg ++ rest).
  Proof. intros H. induction sg as [|a r IH]; cbn [map app]; [exact H| apply rv_sign, IH]. Qed.

  Lemma push_ext s p v s2 r e : push s p v = (s2, r, e) -> ext e.
  Proof.
    unfold RingStore.push. destruct (enc s) as [|pl rest]; [intros [= _ _ <-]; apply ext_nil|].
    destruct (decode pl) as [v'|]; [|intros [= _ _ <-]; apply ext_nil].
    destruct (ringv_eqb v v'); [|intros [= _ _ <-]; apply ext_nil].
    intros [= _ _ <-] tail Ht. rewrite <- app_assoc. apply signs_ext. cbn [app]. apply rv_put, Ht.
  Qed.

  Lemma sync_write_rv s p ts s' r snap e : sync_write s p ts = (s', r, snap, e) -> reads_verified e.
  Proof.
    unfold RingStore.sync_write.
    destruct (pull s p) as [[s1 r1] e1] eqn:Hp. destruct r1 as [v|x|].
    - pose proof (pull_ok_ext _ _ _ _ _ Hp) as He1.
      destruct (apply_txs v ts) as [v'|y|].
      + destruct (push s1 p v') as [[s2 r2] e2] eqn:Hq. pose proof (push_ext _ _ _ _ _ _ Hq) as He2.
        destruct r2; intros [= _ _ _ <-]; apply ext_rv, ext_app; assumption.
      + intros [= _ _ _ <-]. apply ext_rv, He1.
      + intros [= _ _ _ <-]. apply ext_rv, He1.
    - intros [= _ _ _ <-]. apply pull_err in Hp as [(_ & -> & _)|(_ & H)]; [repeat constructor| exact H].
    - exfalso. exact (pull_no_panic _ _ _ _ Hp).
  Qed.

  Lemma update_rv s h hd ts val s' r e : update s h hd ts val = (s', r, e) -> reads_verified e.
  Proof.
    unfold RingStore.update. destruct (sync_write s (h_path hd) ts) as [[[s1 r1] snap] e1] eqn:Hs.
    intros [= _ _ <-]. exact (sync_write_rv _ _ _ _ _ _ _ Hs).
  Qed.

  Lemma import_rv s p ks cur pre s' r e :
    ext pre -> import_asn1 s p ks cur pre = (s', r, e) -> reads_verified e.
  Proof.
    intros Hpre. unfold RingStore.import_asn1. destruct (existsb has_no_data ks).
    - intros [= _ _ <-]. apply ext_rv, Hpre.
    - destruct (sync_write s p [TxSetKeys ks cur]) as [[[s1 r1] snap] e1] eqn:Hs.
      intros [= _ _ <-]. apply Hpre. exact (sync_write_rv _ _ _ _ _ _ _ Hs).
  Qed.

  Lemma ext_get_none p : ext [EGet p None].
  Proof. intros rest H. cbn [app]. apply rv_none, H. Qed.

  (** every operation: each Get that returns a signed file is followed by the Verify calls over
      exactly the bytes returned, and the operation goes on only if they succeeded *)
  Theorem step_reads_verified s o s' r e : step s o = (s', r, e) -> reads_verified e.
  Proof.
    destruct o as [h p|h p|p|h|h okd nd|h q|h q st|h q|p ks cur dec|n p c]; cbn [RingStore.step].
    - (* ROpenRW *)
      destruct (pull s p) as [[s1 r1] e1] eqn:Hp. destruct r1 as [v|x|].
      + intros [= _ _ <-]. apply ext_rv. exact (pull_ok_ext _ _ _ _ _ Hp).
      + apply pull_err in Hp as [(-> & -> & ->)|(Hx & H)].
        * cbn [N.eqb E_NOTEXIST Pos.eqb]. destruct (push (fire s) p empty_view) as [[s2 r2] e2] eqn:Hq.
          pose proof (push_ext _ _ _ _ _ _ Hq) as He2.
          destruct r2; intros [= _ _ <-]; apply ext_rv, (ext_app _ _ (ext_get_none p) He2).
        * destruct (N.eqb x E_NOTEXIST) eqn:E; [apply N.eqb_eq in E; contradiction|]. intros [= _ _ <-]. exact H.
      + exfalso. exact (pull_no_panic _ _ _ _ Hp).
    - (* ROpenRO *)
      destruct (pull s p) as [[s1 r1] e1] eqn:Hp. destruct r1 as [v|x|].
      + intros [= _ _ <-]. apply ext_rv. exact (pull_ok_ext _ _ _ _ _ Hp).
      + intros [= _ _ <-]. apply pull_err in Hp as [(_ & -> & _)|(_ & H)]; [repeat constructor| exact H].
      + exfalso. exact (pull_no_panic _ _ _ _ Hp).
    - (* RExport *)
      destruct (pull s p) as [[s1 r1] e1] eqn:Hp. destruct r1 as [v|x|].
      + intros [= _ _ <-]. apply ext_rv. exact (pull_ok_ext _ _ _ _ _ Hp).
      + intros [= _ _ <-]. apply pull_err in Hp as [(_ & -> & _)|(_ & H)]; [repeat constructor| exact H].
      + exfalso. exact (pull_no_panic _ _ _ _ Hp).
    - (* RObserve *)
      unfold with_handle. destruct (hlookup h (handles s)); intros [= _ _ <-]; constructor.
    - (* RAddKey *)
      unfold with_handle. destruct (hlookup h (handles s)) as [hd|]; [|intros [= _ _ <-]; constructor].
      destruct (negb okd || N.eqb nd 0); [intros [= _ _ <-]; constructor|]. apply update_rv.
    - (* RSetCurrent *)
      unfold with_handle. destruct (hlookup h (handles s)) as [hd|]; [|intros [= _ _ <-]; constructor].
      apply update_rv.
    - (* RSetState *)
      unfold with_handle. destruct (hlookup h (handles s)) as [hd|]; [|intros [= _ _ <-]; constructor].
      destruct (key_with (rv_keys (h_view hd)) q) as [k|]; [|intros [= _ _ <-]; constructor].
      destruct (transition_ok (vk_state k) st); [apply update_rv| intros [= _ _ <-]; constructor].
    - (* RDestroy *)
      unfold with_handle. destruct (hlookup h (handles s)) as [hd|]; [|intros [= _ _ <-]; constructor].
      destruct (key_with (rv_keys (h_view hd)) q) as [k|]; [|intros [= _ _ <-]; constructor].
      destruct (transition_ok (vk_state k) KEY_DESTROYED); [apply update_rv| intros [= _ _ <-]; constructor].
    - (* RImport *)
      destruct (pull s p) as [[s1 r1] e1] eqn:Hp. destruct r1 as [v|x|].
      + pose proof (pull_ok_ext _ _ _ _ _ Hp) as He1.
        destruct (N.eqb dec 0); [apply import_rv, He1|].
        destruct (N.eqb dec 1); intros [= _ _ <-]; apply ext_rv, He1.
      + apply pull_err in Hp as [(-> & -> & ->)|(Hx & H)].
        * cbn [N.eqb E_NOTEXIST Pos.eqb].
          destruct (pull (fire s) p) as [[s2 r2] e2] eqn:Hp2. destruct r2 as [v2|y|].
          -- apply import_rv. apply ext_app; [apply ext_get_none| exact (pull_ok_ext _ _ _ _ _ Hp2)].
          -- apply pull_err in Hp2 as [(-> & -> & ->)|(Hy & H2)].
             ++ cbn [N.eqb E_NOTEXIST Pos.eqb].
                destruct (push (fire (fire s)) p empty_view) as [[s3 r3] e3] eqn:Hq.
                pose proof (push_ext _ _ _ _ _ _ Hq) as He3.
                assert (Hpre : ext ([EGet p None] ++ [EGet p None] ++ e3)).
                { apply ext_app; [apply ext_get_none|]. apply ext_app; [apply ext_get_none| exact He3]. }
                destruct r3; [apply import_rv, Hpre | |]; intros [= _ _ <-]; apply ext_rv, Hpre.
             ++ destruct (N.eqb y E_NOTEXIST) eqn:E; [apply N.eqb_eq in E; contradiction|].
                intros [= _ _ <-]. cbn [app]. apply rv_none, H2.
          -- exfalso. exact (pull_no_panic _ _ _ _ Hp2).
        * destruct (N.eqb x E_NOTEXIST) eqn:E; [apply N.eqb_eq in E; contradiction|]. intros [= _ _ <-]. exact H.
      + exfalso. exact (pull_no_panic _ _ _ _ Hp).
    - (* RArm *)
      intros [= _ _ <-]. constructor.
  Qed.

  (** ... for every history, from every state, whatever the adversary arms *)
  Theorem every_read_verified s ops :
    Forall reads_verified (map o_evs (run_hist mac algs decode s ops)).
  Proof.
    revert s. induction ops as [|o r IH]; intros s; cbn [run_hist map]; [constructor|].
    constructor; [|apply IH].
    unfold step_o. destruct (step s o) as [[s' x] e] eqn:Hs. cbn [o_evs]. exact (step_reads_verified _ _ _ _ _ Hs).
  Qed.

  (** ---- 2. what a pull accepts was signed by the key store for that path ---- *)
  Definition acc_ok (sg : list bytes) (a : bytes * bytes) : Prop :=
    In (mac_input (ring_sig_ctx (fst a)) (snd a)) sg \/
    exists sigs sg0, incl sg0 sg /\ mac_forgery mac algs sigs sg0.

  Definition inv (s : rstate) : Prop := Forall (acc_ok (signed s)) (accepted s).

  Lemma acc_ok_mono sg sg' a : incl sg sg' -> acc_ok sg a -> acc_ok sg' a.
  Proof.
    intros Hi [H|(sigs & sg0 & H0 & Hf)]; [left; apply Hi, H|].
    right. exists sigs, sg0. split; [|exact Hf]. intros x Hx. apply Hi, H0, Hx.
  Qed.

  Lemma inv_mono s s' : incl (signed s) (signed s') -> accepted s' = accepted s -> inv s -> inv s'.
  Proof.
    unfold inv. intros Hi -> H. eapply Forall_impl; [|exact H]. intros a. apply acc_ok_mono, Hi.
  Qed.

  Lemma fire_ghost s : signed (fire s) = signed s /\ accepted (fire s) = accepted s.
  Proof. unfold fire. destruct (armed s) as [[[[|n] p] c]|]; split; reflexivity. Qed.

  Lemma pull_inv s p s1 r e : pull s p = (s1, r, e) -> inv s -> inv s1 /\ signed s1 = signed s.
  Proof.
    pose proof (pull_cases s p) as H. cbv zeta in H. destruct (fire_ghost s) as [Fs Fa].
    assert (Hfire : inv s -> inv (fire s)) by (apply inv_mono; [rewrite Fs; apply incl_refl| exact Fa]).
    destruct (flookup p (files (fire s))) as [[pl sg|]|].
    - destruct (verify_ring mac algs sg p pl) as [[]|y|] eqn:Hv; [| |contradiction]; rewrite H; intros [= <- _ _] Hi.
      + split; [|exact Fs]. unfold inv, add_accepted. cbn [accepted signed]. constructor; [|apply Hfire, Hi].
        destruct (ring_tamper_detected mac algs sg p pl (signed (fire s)) Hv) as [Hin|Hf].
        * left. exact Hin.
        * right. exists sg, (signed (fire s)). split; [apply incl_refl| exact Hf].
      + split; [apply Hfire, Hi| exact Fs].
    - rewrite H. intros [= <- _ _] Hi. split; [apply Hfire, Hi| exact Fs].
    - rewrite H. intros [= <- _ _] Hi. split; [apply Hfire, Hi| exact Fs].
  Qed.

  Lemma push_inv s p v s2 r e : push s p v = (s2, r, e) -> inv s -> inv s2 /\ incl (signed s) (signed s2).
  Proof.
    unfold RingStore.push. destruct (enc s) as [|pl rest]; [intros [= <- _ _] H; split; [exact H| apply incl_refl]|].
    destruct (decode pl) as [v'|]; [|intros [= <- _ _] H; split; [exact H| apply incl_refl]].
    destruct (ringv_eqb v v'); [|intros [= <- _ _] H; split; [exact H| apply incl_refl]].
    intros [= <- _ _] H. cbn [signed]. split; [|apply incl_tl, incl_refl].
    unfold inv. cbn [signed accepted]. eapply Forall_impl; [|exact H]. intros a. apply acc_ok_mono, incl_tl, incl_refl.
  Qed.

  Lemma set_handle_inv s h x : inv s -> inv (set_handle s h x).
  Proof. intros H. exact H. Qed.

  Lemma sync_write_inv s p ts s' r snap e :
    sync_write s p ts = (s', r, snap, e) -> inv s -> inv s' /\ incl (signed s) (signed s').
  Proof.
    unfold RingStore.sync_write. destruct (pull s p) as [[s1 r1] e1] eqn:Hp. intros Hs Hi.
    destruct (pull_inv _ _ _ _ _ Hp Hi) as [Hi1 Hs1].
    assert (Hdone : inv s1 /\ incl (signed s) (signed s1)) by (split; [exact Hi1| rewrite Hs1; apply incl_refl]).
    destruct r1 as [v|x|]; [|injection Hs as <- _ _ _; exact Hdone|injection Hs as <- _ _ _; exact Hdone].
    destruct (apply_txs v ts) as [v'|y|]; [|injection Hs as <- _ _ _; exact Hdone|injection Hs as <- _ _ _; exact Hdone].
    destruct (push s1 p v') as [[s2 r2] e2] eqn:Hq. destruct (push_inv _ _ _ _ _ _ Hq Hi1) as [Hi2 Hs2].
    assert (Hdone2 : inv s2 /\ incl (signed s) (signed s2)) by (split; [exact Hi2| rewrite <- Hs1; exact Hs2]).
    destruct r2; injection Hs as <- _ _ _; exact Hdone2.
  Qed.

  Lemma update_inv s h hd ts val s' r e :
    update s h hd ts val = (s', r, e) -> inv s -> inv s' /\ incl (signed s) (signed s').
  Proof.
    unfold RingStore.update. destruct (sync_write s (h_path hd) ts) as [[[s1 r1] snap] e1] eqn:Hs.
    intros [= <- _ _] Hi. destruct (sync_write_inv _ _ _ _ _ _ _ Hs Hi) as [H1 H2].
    destruct snap; split; assumption.
  Qed.

  Lemma import_inv s p ks cur pre s' r e :
    import_asn1 s p ks cur pre = (s', r, e) -> inv s -> inv s' /\ incl (signed s) (signed s').
  Proof.
    unfold RingStore.import_asn1. destruct (existsb has_no_data ks).
    - intros [= <- _ _] H. split; [exact H| apply incl_refl].
    - destruct (sync_write s p [TxSetKeys ks cur]) as [[[s1 r1] snap] e1] eqn:Hs.
      intros [= <- _ _] Hi. exact (sync_write_inv _ _ _ _ _ _ _ Hs Hi).
  Qed.

  Lemma step_inv s o s' r e : step s o = (s', r, e) -> inv s -> inv s' /\ incl (signed s) (signed s').
  Proof.
    assert (Hkeep : forall s0 : rstate, inv s0 -> inv s0 /\ incl (signed s0) (signed s0))
      by (intros s0 H; split; [exact H| apply incl_refl]).
    destruct o as [h p|h p|p|h|h okd nd|h q|h q st|h q|p ks cur dec|n p c]; cbn [RingStore.step].
    - destruct (pull s p) as [[s1 r1] e1] eqn:Hp. intros Hs Hi.
      destruct (pull_inv _ _ _ _ _ Hp Hi) as [Hi1 Hs1].
      assert (Hdone : inv s1 /\ incl (signed s) (signed s1)) by (split; [exact Hi1| rewrite Hs1; apply incl_refl]).
      destruct r1 as [v|x|]; [injection Hs as <- _ _; exact Hdone| |injection Hs as <- _ _; exact Hdone].
      destruct (N.eqb x E_NOTEXIST); [|injection Hs as <- _ _; exact Hdone].
      destruct (push s1 p empty_view) as [[s2 r2] e2] eqn:Hq. destruct (push_inv _ _ _ _ _ _ Hq Hi1) as [Hi2 Hs2].
      assert (Hdone2 : inv s2 /\ incl (signed s) (signed s2)) by (split; [exact Hi2| rewrite <- Hs1; exact Hs2]).
      destruct r2; injection Hs as <- _ _; exact Hdone2.
    - destruct (pull s p) as [[s1 r1] e1] eqn:Hp. intros Hs Hi.
      destruct (pull_inv _ _ _ _ _ Hp Hi) as [Hi1 Hs1].
      assert (Hdone : inv s1 /\ incl (signed s) (signed s1)) by (split; [exact Hi1| rewrite Hs1; apply incl_refl]).
      destruct r1; injection Hs as <- _ _; exact Hdone.
    - destruct (pull s p) as [[s1 r1] e1] eqn:Hp. intros Hs Hi.
      destruct (pull_inv _ _ _ _ _ Hp Hi) as [Hi1 Hs1].
      assert (Hdone : inv s1 /\ incl (signed s) (signed s1)) by (split; [exact Hi1| rewrite Hs1; apply incl_refl]).
      destruct r1; injection Hs as <- _ _; exact Hdone.
    - unfold with_handle. destruct (hlookup h (handles s)); intros [= <- _ _]; apply Hkeep.
    - unfold with_handle. destruct (hlookup h (handles s)) as [hd|]; [|intros [= <- _ _]; apply Hkeep].
      destruct (negb okd || N.eqb nd 0); [intros [= <- _ _]; apply Hkeep| apply update_inv].
    - unfold with_handle. destruct (hlookup h (handles s)) as [hd|]; [|intros [= <- _ _]; apply Hkeep].
      apply update_inv.
    - unfold with_handle. destruct (hlookup h (handles s)) as [hd|]; [|intros [= <- _ _]; apply Hkeep].
      destruct (key_with (rv_keys (h_view hd)) q) as [k|]; [|intros [= <- _ _]; apply Hkeep].
      destruct (transition_ok (vk_state k) st); [apply update_inv| intros [= <- _ _]; apply Hkeep].
    - unfold with_handle. destruct (hlookup h (handles s)) as [hd|]; [|intros [= <- _ _]; apply Hkeep].
      destruct (key_with (rv_keys (h_view hd)) q) as [k|]; [|intros [= <- _ _]; apply Hkeep].
      destruct (transition_ok (vk_state k) KEY_DESTROYED); [apply update_inv| intros [= <- _ _]; apply Hkeep].
    - destruct (pull s p) as [[s1 r1] e1] eqn:Hp. intros Hs Hi.
      destruct (pull_inv _ _ _ _ _ Hp Hi) as [Hi1 Hs1].
      assert (Hdone : inv s1 /\ incl (signed s) (signed s1)) by (split; [exact Hi1| rewrite Hs1; apply incl_refl]).
      destruct r1 as [v|x|]; [| |injection Hs as <- _ _; exact Hdone].
      + destruct (N.eqb dec 0).
        * destruct (import_inv _ _ _ _ _ _ _ _ Hs Hi1) as [A B]. split; [exact A| rewrite <- Hs1; exact B].
        * destruct (N.eqb dec 1); injection Hs as <- _ _; exact Hdone.
      + destruct (N.eqb x E_NOTEXIST); [|injection Hs as <- _ _; exact Hdone].
        destruct (pull s1 p) as [[s2 r2] e2] eqn:Hp2. destruct (pull_inv _ _ _ _ _ Hp2 Hi1) as [Hi2 Hs2].
        assert (Hdone2 : inv s2 /\ incl (signed s) (signed s2))
          by (split; [exact Hi2| rewrite Hs2, Hs1; apply incl_refl]).
        destruct r2 as [v2|y|]; [| |injection Hs as <- _ _; exact Hdone2].
        * destruct (import_inv _ _ _ _ _ _ _ _ Hs Hi2) as [A B]. split; [exact A| rewrite <- Hs1, <- Hs2; exact B].
        * destruct (N.eqb y E_NOTEXIST); [|injection Hs as <- _ _; exact Hdone2].
          destruct (push s2 p empty_view) as [[s3 r3] e3] eqn:Hq. destruct (push_inv _ _ _ _ _ _ Hq Hi2) as [Hi3 Hs3].
          assert (Hdone3 : inv s3 /\ incl (signed s) (signed s3))
            by (split; [exact Hi3| rewrite <- Hs1, <- Hs2; exact Hs3]).
          destruct r3; [|injection Hs as <- _ _; exact Hdone3|injection Hs as <- _ _; exact Hdone3].
          destruct (import_inv _ _ _ _ _ _ _ _ Hs Hi3) as [A B]. split; [exact A|].
          intros z Hz. apply B. destruct Hdone3 as [_ C]. apply C, Hz.
    - intros [= <- _ _] H. apply Hkeep in H. exact H.
  Qed.

  (** for every history from the empty store, whatever the adversary stores and whenever: every
      (path, payload) a pull ever accepted is a MAC input the key store itself signed — or a forgery *)
  Theorem accepted_were_signed tape ops :
    let s := final_st mac algs decode (rinit tape) ops in
    Forall (acc_ok (signed s)) (accepted s).
  Proof.
    cbv zeta. assert (H0 : inv (rinit tape)) by constructor.
    revert H0. generalize (rinit tape) as s. induction ops as [|o r IH]; intros s Hi; cbn [final_st]; [exact Hi|].
    apply IH. unfold step_o. destruct (step s o) as [[s' x] e] eqn:Hs. cbn [o_st].
    exact (proj1 (step_inv _ _ _ _ _ Hs Hi)).
  Qed.

  (** ---- 3. a changed ring file is detected by the next update of an OPEN handle ---- *)
  Definition writes_nothing (e : list ev) : Prop :=
    forall x, In x e -> match x with ESign _ _ _ | EPut _ _ _ => False | _ => True end.

  Lemma checks_write_nothing sigs pl ctx v : writes_nothing (snd (verify_ev sigs pl ctx v)).
  Proof.
    revert v. induction sigs as [|[oid sg] r IH]; intros v; cbn [RingStore.verify_ev]; [intros x []|].
    destruct (find_alg algs oid) as [key|]; [|apply IH].
    destruct (alg_verify mac key sg pl ctx).
    - specialize (IH true). destruct (verify_ev r pl ctx true) as [y e]. cbn [snd] in *.
      intros x [<-|Hx]; [exact I| apply IH, Hx].
    - intros x [<-|[]]. exact I.
  Qed.

  (** the stored file as the next Get will see it is not something the key store signed for this
      path: the update fails, nothing is signed or stored, files and the handle stay as they were *)
  Theorem open_handle_tamper_detected s h hd ts val pl sg :
    flookup (h_path hd) (files (fire s)) = Some (SParsed pl sg) ->
    ~ In (mac_input (ring_sig_ctx (h_path hd)) pl) (signed s) ->
    (exists x e, update s h hd ts val = (fire s, Err x, e) /\ writes_nothing e) \/
    mac_forgery mac algs sg (signed s).
  Proof.
    intros Hf Hn. pose proof (pull_cases s (h_path hd)) as H. cbv zeta in H. rewrite Hf in H.
    destruct (verify_ring mac algs sg (h_path hd) pl) as [[]|y|] eqn:Hv; [| |contradiction].
    - right. destruct (ring_tamper_detected mac algs sg (h_path hd) pl (signed s) Hv) as [Hin|Hfo]; [contradiction| exact Hfo].
    - left. unfold RingStore.update, RingStore.sync_write. rewrite H. exists y. eexists. split; [reflexivity|].
      intros x [<-|Hx]; [exact I|]. exact (checks_write_nothing _ _ _ _ x Hx).
  Qed.

  (** a file that does not parse: same conclusion, unconditionally *)
  Theorem open_handle_garbage_detected s h hd ts val :
    flookup (h_path hd) (files (fire s)) = Some SGarbage ->
    update s h hd ts val = (fire s, Err E_PARSE, [EGet (h_path hd) (Some SGarbage)]).
  Proof.
    intros Hf. pose proof (pull_cases s (h_path hd)) as H. cbv zeta in H. rewrite Hf in H.
    unfold RingStore.update, RingStore.sync_write. rewrite H. reflexivity.
  Qed.

  (** same for the reads of open / export / import: a pull of an unsigned file returns an error *)
  Theorem pull_rejects_unsigned s p pl sg :
    flookup p (files (fire s)) = Some (SParsed pl sg) ->
    ~ In (mac_input (ring_sig_ctx p) pl) (signed s) ->
    (exists x e, pull s p = (fire s, Err x, e) /\ writes_nothing e) \/ mac_forgery mac algs sg (signed s).
  Proof.
    intros Hf Hn. pose proof (pull_cases s p) as H. cbv zeta in H. rewrite Hf in H.
    destruct (verify_ring mac algs sg p pl) as [[]|y|] eqn:Hv; [| |contradiction].
    - right. destruct (ring_tamper_detected mac algs sg p pl (signed s) Hv) as [Hin|Hfo]; [contradiction| exact Hfo].
    - left. exists y. eexists. split; [exact H|].
      intros x [<-|Hx]; [exact I|]. exact (checks_write_nothing _ _ _ _ x Hx).
  Qed.
End RingStoreProofs.

Section HandleProofs.
  Variable mac : bytes -> bytes -> bytes.
  Variable algs : list (bytes * bytes).
  Variable decode : bytes -> option ringv.

  Notation pull := (pull mac algs decode).
  Notation push := (push mac algs decode).
  Notation sync_write := (sync_write mac algs decode).
  Notation step := (step mac algs decode).
  Notation update := (update mac algs decode).
  Notation import_asn1 := (import_asn1 mac algs decode).

  (** ---- 4. what a handle shows ---- *)
  (** the snapshot [v] of ring [p] is the decoded content of a payload that the key store signed
      for [p] or that a pull accepted for [p] *)
  Definition src_ok (s : rstate) (p : bytes) (v : ringv) : Prop :=
    exists pl, decode pl = Some v /\
      (In (mac_input (ring_sig_ctx p) pl) (signed s) \/ In (p, pl) (accepted s)).
  Definition hinv (s : rstate) : Prop :=
    forall h hd, hlookup h (handles s) = Some hd -> src_ok s (h_path hd) (h_view hd).
  Definition grow (s s' : rstate) : Prop :=
    incl (signed s) (signed s') /\ incl (accepted s) (accepted s').

  Lemma grow_refl s : grow s s.
  Proof. split; apply incl_refl. Qed.
  Lemma grow_trans a b c : grow a b -> grow b c -> grow a c.
  Proof. intros [A1 A2] [B1 B2]. split; eapply incl_tran; eassumption. Qed.
  Lemma src_ok_grow s s' p v : grow s s' -> src_ok s p v -> src_ok s' p v.
  Proof.
    intros [G1 G2] (pl & Hd & [H|H]); exists pl; (split; [exact Hd|]); [left; apply G1, H| right; apply G2, H].
  Qed.
  Lemma hinv_grow s s' : handles s' = handles s -> grow s s' -> hinv s -> hinv s'.
  Proof. intros Hh G H h hd Hl. rewrite Hh in Hl. eapply src_ok_grow; [exact G| exact (H h hd Hl)]. Qed.

  Lemma fire_same s : handles (fire s) = handles s /\ signed (fire s) = signed s /\ accepted (fire s) = accepted s.
  Proof. unfold fire. destruct (armed s) as [[[[|n] p] c]|]; repeat split. Qed.

  Lemma fire_grow s : grow s (fire s).
  Proof. destruct (fire_same s) as (_ & A & B). split; [rewrite A| rewrite B]; apply incl_refl. Qed.

  Lemma pull_h s p s1 r e :
    pull s p = (s1, r, e) ->
    handles s1 = handles s /\ grow s s1 /\ (forall v, r = Ok v -> src_ok s1 p v).
  Proof.
    pose proof (pull_cases mac algs decode s p) as H. cbv zeta in H.
    destruct (fire_same s) as (Fh & Fs & Fa). pose proof (fire_grow s) as Fg.
    destruct (flookup p (files (fire s))) as [[pl sg|]|].
    - destruct (verify_ring mac algs sg p pl) as [[]|y|] eqn:Hv; [| |contradiction]; rewrite H; intros [= <- <- _].
      + split; [exact Fh|]. split.
        * eapply grow_trans; [exact Fg|]. split; [apply incl_refl| apply incl_tl, incl_refl].
        * intros v Hd. exists pl. split; [destruct (decode pl); cbn [of_option] in Hd; congruence|].
          right. left. reflexivity.
      + split; [exact Fh|]. split; [exact Fg| discriminate].
    - rewrite H. intros [= <- <- _]. split; [exact Fh|]. split; [exact Fg| discriminate].
    - rewrite H. intros [= <- <- _]. split; [exact Fh|]. split; [exact Fg| discriminate].
  Qed.

  Lemma vkey_eqb_eq a b : vkey_eqb a b = true -> a = b.
  Proof.
    destruct a, b. unfold vkey_eqb. simpl. intros H.
    apply andb_prop in H as [H H3]. apply andb_prop in H as [H1 H2].
    apply Z.eqb_eq in H1. apply N.eqb_eq in H2. apply N.eqb_eq in H3. subst. reflexivity.
  Qed.
  Lemma vkeys_eqb_eq a b : vkeys_eqb a b = true -> a = b.
  Proof.
    revert b. induction a as [|x a IH]; intros [|y b]; cbn [vkeys_eqb]; try discriminate; [reflexivity|].
    intros H. apply andb_prop in H as [H1 H2]. apply vkey_eqb_eq in H1. apply IH in H2. subst. reflexivity.
  Qed.
  Lemma ringv_eqb_eq a b : ringv_eqb a b = true -> a = b.
  Proof.
    destruct a, b. unfold ringv_eqb. simpl. intros H. apply andb_prop in H as [H1 H2].
    apply vkeys_eqb_eq in H1. apply Z.eqb_eq in H2. subst. reflexivity.
  Qed.

  Lemma push_h s p v s2 r e :
    push s p v = (s2, r, e) ->
    handles s2 = handles s /\ grow s s2 /\ (r = Ok tt -> src_ok s2 p v).
  Proof.
    unfold RingStore.push.
    assert (Hfail : forall x, handles s = handles s /\ grow s s /\ (Err x = Ok tt -> src_ok s p v))
      by (intros x; split; [reflexivity|]; split; [apply grow_refl| discriminate]).
    destruct (enc s) as [|pl rest]; [intros [= <- <- _]; apply Hfail|].
    destruct (decode pl) as [v'|] eqn:Hd; [|intros [= <- <- _]; apply Hfail].
    destruct (ringv_eqb v v') eqn:He; [|intros [= <- <- _]; apply Hfail].
    apply ringv_eqb_eq in He. subst v'. intros [= <- _ _]. cbn [handles signed accepted].
    split; [reflexivity|]. split; [split; [apply incl_tl, incl_refl| apply incl_refl]|].
    intros _. exists pl. split; [exact Hd|]. left. left. reflexivity.
  Qed.

  Lemma sync_write_h s p ts s' r snap e :
    sync_write s p ts = (s', r, snap, e) ->
    handles s' = handles s /\ grow s s' /\ (forall v, snap = Some v -> src_ok s' p v).
  Proof.
    unfold RingStore.sync_write. destruct (pull s p) as [[s1 r1] e1] eqn:Hp.
    destruct (pull_h _ _ _ _ _ Hp) as (Hh1 & G1 & Hv1).
    destruct r1 as [v|x|]; [|intros [= <- _ <- _]; (split; [exact Hh1|]; split; [exact G1| discriminate])..].
    specialize (Hv1 v eq_refl).
    destruct (apply_txs v ts) as [v'|y|];
      [|intros [= <- _ <- _]; (split; [exact Hh1|]; split; [exact G1| intros w [= <-]; exact Hv1])..].
    destruct (push s1 p v') as [[s2 r2] e2] eqn:Hq. destruct (push_h _ _ _ _ _ _ Hq) as (Hh2 & G2 & Hv2).
    assert (G : grow s s2) by (eapply grow_trans; eassumption).
    assert (Hh : handles s2 = handles s) by (rewrite Hh2; exact Hh1).
    destruct r2 as [[]|z|]; intros [= <- _ <- _]; (split; [exact Hh|]; split; [exact G|]); intros w [= <-].
    - apply Hv2. reflexivity.
    - eapply src_ok_grow; [exact G2| exact Hv1].
    - eapply src_ok_grow; [exact G2| exact Hv1].
  Qed.

  Lemma hlookup_set s h x h' :
    hlookup h' (handles (set_handle s h x)) = if Nat.eqb h' h then Some x else hlookup h' (handles s).
  Proof. reflexivity. Qed.

  Lemma set_handle_hinv s h p v : hinv s -> src_ok s p v -> hinv (set_handle s h (mk_handle p v)).
  Proof.
    intros Hi Hs h' hd. rewrite hlookup_set. destruct (Nat.eqb h' h).
    - intros [= <-]. exact Hs.
    - intros Hl. exact (Hi h' hd Hl).
  Qed.

  Lemma update_h s h hd ts val s' r e :
    update s h hd ts val = (s', r, e) -> hinv s -> hinv s' /\ grow s s'.
  Proof.
    unfold RingStore.update. destruct (sync_write s (h_path hd) ts) as [[[s1 r1] snap] e1] eqn:Hs.
    destruct (sync_write_h _ _ _ _ _ _ _ Hs) as (Hh & G & Hv). intros [= <- _ _] Hi.
    pose proof (hinv_grow _ _ Hh G Hi) as Hi1.
    destruct snap as [v|]; [|split; assumption].
    split; [|exact G]. apply (set_handle_hinv s1 h (h_path hd) v Hi1). apply Hv. reflexivity.
  Qed.

  Lemma import_h s p ks cur pre s' r e :
    import_asn1 s p ks cur pre = (s', r, e) -> handles s' = handles s /\ grow s s'.
  Proof.
    unfold RingStore.import_asn1. destruct (existsb has_no_data ks).
    - intros [= <- _ _]. split; [reflexivity| apply grow_refl].
    - destruct (sync_write s p [TxSetKeys ks cur]) as [[[s1 r1] snap] e1] eqn:Hs.
      destruct (sync_write_h _ _ _ _ _ _ _ Hs) as (Hh & G & _). intros [= <- _ _]. split; assumption.
  Qed.

  Lemma step_h s o s' r e : step s o = (s', r, e) -> hinv s -> hinv s' /\ grow s s'.
  Proof.
    assert (Hkeep : hinv s -> hinv s /\ grow s s) by (intros H; split; [exact H| apply grow_refl]).
    destruct o as [h p|h p|p|h|h okd nd|h q|h q st|h q|p ks cur dec|n p c]; cbn [RingStore.step].
    - destruct (pull s p) as [[s1 r1] e1] eqn:Hp. destruct (pull_h _ _ _ _ _ Hp) as (Hh1 & G1 & Hv1).
      intros Hs Hi. pose proof (hinv_grow _ _ Hh1 G1 Hi) as Hi1.
      destruct r1 as [v|x|]; [| |injection Hs as <- _ _; split; assumption].
      + injection Hs as <- _ _. split; [|exact G1]. apply set_handle_hinv; [exact Hi1| apply Hv1; reflexivity].
      + destruct (N.eqb x E_NOTEXIST); [|injection Hs as <- _ _; split; assumption].
        destruct (push s1 p empty_view) as [[s2 r2] e2] eqn:Hq. destruct (push_h _ _ _ _ _ _ Hq) as (Hh2 & G2 & Hv2).
        pose proof (hinv_grow _ _ Hh2 G2 Hi1) as Hi2. assert (G : grow s s2) by (eapply grow_trans; eassumption).
        destruct r2 as [[]|y|]; injection Hs as <- _ _; (split; [|exact G]); [|exact Hi2..].
        apply set_handle_hinv; [exact Hi2| apply Hv2; reflexivity].
    - destruct (pull s p) as [[s1 r1] e1] eqn:Hp. destruct (pull_h _ _ _ _ _ Hp) as (Hh1 & G1 & Hv1).
      intros Hs Hi. pose proof (hinv_grow _ _ Hh1 G1 Hi) as Hi1.
      destruct r1 as [v|x|]; injection Hs as <- _ _; (split; [|exact G1]); [|exact Hi1..].
      apply set_handle_hinv; [exact Hi1| apply Hv1; reflexivity].
    - destruct (pull s p) as [[s1 r1] e1] eqn:Hp. destruct (pull_h _ _ _ _ _ Hp) as (Hh1 & G1 & Hv1).
      intros Hs Hi. pose proof (hinv_grow _ _ Hh1 G1 Hi) as Hi1.
      destruct r1; injection Hs as <- _ _; split; assumption.
    - unfold with_handle. destruct (hlookup h (handles s)); intros [= <- _ _]; apply Hkeep.
    - unfold with_handle. destruct (hlookup h (handles s)) as [hd|]; [|intros [= <- _ _]; apply Hkeep].
      destruct (negb okd || N.eqb nd 0); [intros [= <- _ _]; apply Hkeep| apply update_h].
    - unfold with_handle. destruct (hlookup h (handles s)) as [hd|]; [|intros [= <- _ _]; apply Hkeep].
      apply update_h.
    - unfold with_handle. destruct (hlookup h (handles s)) as [hd|]; [|intros [= <- _ _]; apply Hkeep].
      destruct (key_with (rv_keys (h_view hd)) q) as [k|]; [|intros [= <- _ _]; apply Hkeep].
      destruct (transition_ok (vk_state k) st); [apply update_h| intros [= <- _ _]; apply Hkeep].
    - unfold with_handle. destruct (hlookup h (handles s)) as [hd|]; [|intros [= <- _ _]; apply Hkeep].
      destruct (key_with (rv_keys (h_view hd)) q) as [k|]; [|intros [= <- _ _]; apply Hkeep].
      destruct (transition_ok (vk_state k) KEY_DESTROYED); [apply update_h| intros [= <- _ _]; apply Hkeep].
    - destruct (pull s p) as [[s1 r1] e1] eqn:Hp. destruct (pull_h _ _ _ _ _ Hp) as (Hh1 & G1 & _).
      intros Hs Hi. pose proof (hinv_grow _ _ Hh1 G1 Hi) as Hi1.
      destruct r1 as [v|x|]; [| |injection Hs as <- _ _; split; assumption].
      + destruct (N.eqb dec 0).
        * destruct (import_h _ _ _ _ _ _ _ _ Hs) as (Hh & G). split; [exact (hinv_grow _ _ Hh G Hi1)| eapply grow_trans; eassumption].
        * destruct (N.eqb dec 1); injection Hs as <- _ _; split; assumption.
      + destruct (N.eqb x E_NOTEXIST); [|injection Hs as <- _ _; split; assumption].
        destruct (pull s1 p) as [[s2 r2] e2] eqn:Hp2. destruct (pull_h _ _ _ _ _ Hp2) as (Hh2 & G2 & _).
        pose proof (hinv_grow _ _ Hh2 G2 Hi1) as Hi2. assert (G12 : grow s s2) by (eapply grow_trans; eassumption).
        destruct r2 as [v2|y|]; [| |injection Hs as <- _ _; split; assumption].
        * destruct (import_h _ _ _ _ _ _ _ _ Hs) as (Hh & G). split; [exact (hinv_grow _ _ Hh G Hi2)| eapply grow_trans; eassumption].
        * destruct (N.eqb y E_NOTEXIST); [|injection Hs as <- _ _; split; assumption].
          destruct (push s2 p empty_view) as [[s3 r3] e3] eqn:Hq. destruct (push_h _ _ _ _ _ _ Hq) as (Hh3 & G3 & _).
          pose proof (hinv_grow _ _ Hh3 G3 Hi2) as Hi3. assert (G13 : grow s s3) by (eapply grow_trans; eassumption).
          destruct r3; [|injection Hs as <- _ _; split; assumption..].
          destruct (import_h _ _ _ _ _ _ _ _ Hs) as (Hh & G). split; [exact (hinv_grow _ _ Hh G Hi3)| eapply grow_trans; eassumption].
    - intros [= <- _ _] Hi. split; [exact Hi| split; apply incl_refl].
  Qed.

  (** for every history from the empty store: the snapshot of EVERY handle is the decoded content
      of a payload the key store signed, or a pull accepted, for that handle's path *)
  Theorem handles_show_accepted tape ops :
    hinv (final_st mac algs decode (rinit tape) ops).
  Proof.
    assert (H0 : hinv (rinit tape)) by (intros h hd Hl; discriminate).
    revert H0. generalize (rinit tape) as s. induction ops as [|o r IH]; intros s Hi; cbn [final_st]; [exact Hi|].
    apply IH. unfold step_o. destruct (step s o) as [[s' x] e] eqn:Hs. cbn [o_st].
    exact (proj1 (step_h _ _ _ _ _ Hs Hi)).
  Qed.

  (** ... hence signed by the key store itself for that path, or a MAC forgery is exhibited *)
  Theorem handles_show_signed tape ops h hd :
    let s := final_st mac algs decode (rinit tape) ops in
    hlookup h (handles s) = Some hd ->
    exists pl, decode pl = Some (h_view hd) /\ acc_ok mac algs (signed s) (h_path hd, pl).
  Proof.
    cbv zeta. intros Hl. destruct (handles_show_accepted tape ops h hd Hl) as (pl & Hd & [H|H]).
    - exists pl. split; [exact Hd|]. left. exact H.
    - exists pl. split; [exact Hd|].
      pose proof (accepted_were_signed mac algs decode tape ops) as Ha. cbv zeta in Ha.
      rewrite Forall_forall in Ha. exact (Ha _ H).
  Qed.
End HandleProofs.

(** ---- witnesses (non-vacuity): a toy MAC and three payloads ---- *)
Definition w_mac (k m : bytes) : bytes := k ++ m.
Definition w_algs : list (bytes * bytes) := [([x01], [x4b])].
Definition w_p : bytes := [x72].
Definition w_pl0 : bytes := [x00].   (* empty ring *)
Definition w_pl1 : bytes := [x01].   (* one pre-active key *)
Definition w_pl2 : bytes := [x02].   (* that key current *)
Definition w_plX : bytes := [x03].   (* the adversary's payload: key 1 current, never signed *)
Definition w_k1 : vkey := mk_vkey 1 KEY_PREACTIVE 1.
Definition w_decode (pl : bytes) : option ringv :=
  if bytes_eqb pl w_pl0 then Some empty_view
  else if bytes_eqb pl w_pl1 then Some (mk_ringv [w_k1] V2_NOKEY)
  else if bytes_eqb pl w_pl2 then Some (mk_ringv [w_k1] 1)
  else if bytes_eqb pl w_plX then Some (mk_ringv [w_k1] 1)
  else None.
Definition w_tape : list bytes := [w_pl0; w_pl1; w_pl2].
Definition w_honest : list rop := [ROpenRW 0 w_p; RAddKey 0 true 1; RSetCurrent 0 1; RObserve 0].
(** the stored file is replaced (same signatures, other payload) while handle 0 is open *)
Definition w_tampered : list rop :=
  [ROpenRW 0 w_p; RAddKey 0 true 1; RArm 0 w_p (SParsed w_plX (sign_ring w_mac w_algs w_p w_pl1)); RSetCurrent 0 1; RObserve 0].

Definition w_results (ops : list rop) : list (res (list bytes)) :=
  map o_res (run_hist w_mac w_algs w_decode (rinit w_tape) ops).

Lemma w_honest_ok : forallb (fun r => is_ok r) (w_results w_honest) = true.
Proof. vm_compute. reflexivity. Qed.

Lemma w_tampered_detected :
  nth_error (w_results w_tampered) 3 = Some (Err E_SIGNATURE) /\
  nth_error (w_results w_tampered) 4 = Some (Ok (view_vals (mk_ringv [w_k1] V2_NOKEY))) /\
  length (signed (final_st w_mac w_algs w_decode (rinit w_tape) w_tampered)) = 2%nat.
Proof. vm_compute. repeat split. Qed.

(** the premises of [open_handle_tamper_detected] hold in the state before the update above *)
Lemma w_premises :
  let s := final_st w_mac w_algs w_decode (rinit w_tape)
             [ROpenRW 0 w_p; RAddKey 0 true 1; RArm 0 w_p (SParsed w_plX (sign_ring w_mac w_algs w_p w_pl1))] in
  flookup w_p (files (fire s)) = Some (SParsed w_plX (sign_ring w_mac w_algs w_p w_pl1)) /\
  ~ In (mac_input (ring_sig_ctx w_p) w_plX) (signed s).
Proof.
  vm_compute. split; [reflexivity|]. intros [H|[H|[]]]; discriminate.
Qed.
