(** Every store that a history of ring operations builds consists of rings as the export/import
    identity needs them (purpose = path, stored key data well-formed): invariant by induction over the
    history (C18 extension). *)
From Coq Require Import List NArith ZArith Bool Lia.
From Acra Require Import Lib.Bytes Lib.Outcome Crypto.Interface Gen.KsConsts Gen.X18Consts
  Model.KeyAtRest Model.DerV2Ext Model.KeyRingV2Ext Proofs.DerV2Ext Proofs.KeyRingV2Ext Proofs.ExportImportV2Ext.
Import ListNotations.

Section History.
  Variable C : crypto.
  Hypothesis HC : Correct C.

  Definition ring_ok (p : bytes) (r : ring) : Prop :=
    r_purpose r = p /\ wf_sring r /\ Forall single (r_keys r).
  Definition store_ok (b : backend) : Prop := forall p r, b_get p b = Some r -> ring_ok p r.

  (** operations as acra's own callers issue them: one format per key, key material far below 4 GiB *)
  Definition tiny (b : bytes) : Prop := (N.of_nat (length b) + 64 < MAXMSG)%N.
  Definition op_ok (o : rop) : Prop :=
    match o with
    | RAddKey _ _ _ ds => (length ds <= 1)%nat /\ Forall (fun d => tiny (kd_priv d) /\ tiny (kd_sym d)) ds
    | _ => True
    end.

  Lemma store_ok_src b p r : store_ok b -> b_get p b = Some r -> src_ring_ok b p.
  Proof. intros Hs Hg. destruct (Hs p r Hg) as [H1 [H2 H3]]. exists r. auto. Qed.

  Lemma ring_ok_put b p r : store_ok b -> ring_ok p r -> store_ok (b_put p r b).
  Proof.
    intros Hs [Hp [Hw Hsi]] q r' Hg. destruct (bytes_eqb q p) eqn:E.
    - apply bytes_eqb_eq in E. subst q. rewrite b_get_put_same in Hg. inversion Hg; subst.
      rewrite sorted_ring_single by exact Hsi. repeat split; assumption.
    - apply bytes_eqb_neq in E. rewrite b_get_put_other in Hg by exact E. now apply Hs.
  Qed.

  Lemma empty_ring_ok p : ring_ok p (empty_ring p).
  Proof. repeat split; constructor. Qed.

  Lemma open_rw_ok b p : store_ok b -> store_ok (fst (open_rw b p)) /\ ring_ok p (snd (open_rw b p)).
  Proof.
    intros Hs. unfold open_rw. destruct (b_get p b) as [r|] eqn:Eg; cbn [fst snd].
    - split; [exact Hs | now apply Hs].
    - split; [apply ring_ok_put; [exact Hs | apply empty_ring_ok] | apply empty_ring_ok].
  Qed.

  Lemma stored_small master ctx plain f : tiny plain -> stored_for C master ctx plain f -> small f.
  Proof.
    intros Ht [[_ ->]|[_ [n [Hn ->]]]]; unfold small, tiny in *.
    - cbn. unfold MAXMSG. lia.
    - rewrite (seal_len C HC) by exact Hn. unfold SEAL_OVERHEAD. lia.
  Qed.

  Lemma data_imported_wf master path seq d d' :
    tiny (kd_priv d) -> tiny (kd_sym d) -> data_imported C master path seq d d' -> wf_sdata d'.
  Proof.
    assert (Hne : FORMAT_KEYPAIR <> FORMAT_SYMMETRIC) by discriminate.
    intros Hp Hs [[Hf [_ [Hf' [_ [Hs' Hst]]]]] | [Hf [Hf' [Hp' [Hpr' Hst]]]]]; unfold wf_sdata.
    - split; [intros _; exact Hs'|]. split; [intros E; rewrite Hf', Hf in E; now destruct Hne|].
      split; [exact (stored_small _ _ _ _ Hp Hst)|]. rewrite Hs'. unfold small, MAXMSG. cbn. lia.
    - split; [intros E; rewrite Hf', Hf in E; symmetry in E; now destruct Hne|].
      split; [intros _; split; assumption|].
      split; [rewrite Hpr'; unfold small, MAXMSG; cbn; lia | exact (stored_small _ _ _ _ Hs Hst)].
  Qed.

  Lemma new_key_ok master path tape r since until ds k t :
    nonces_ok tape -> (length ds <= 1)%nat -> Forall (fun d => tiny (kd_priv d) /\ tiny (kd_sym d)) ds ->
    new_key C master path tape r since until ds = (Ok k, t) ->
    nonces_ok t /\ wf_skey k /\ single k.
  Proof.
    intros Hn Hl Ht H. unfold new_key in H.
    destruct (time_after since until); [discriminate|]. destruct (is_nil ds); [discriminate|].
    destruct (add_all C master path (next_seqnum r) tape ds []) as [x t0] eqn:Ea.
    destruct x as [ds'|e|]; cbn [bind] in H; inversion H; subst.
    destruct (add_all_ok C _ _ _ _ _ _ _ _ Hn Ea) as [Ht0 [ds'' [Hacc HF]]]. cbn [app] in Hacc. subst ds''.
    split; [exact Ht0|]. unfold wf_skey, single. cbn. split.
    - clear Ea Hl H. induction HF as [|d d' l l' Hd _ IH]; [constructor|].
      inversion Ht as [|? ? [Hp Hs] Ht']; subst. constructor; [eapply data_imported_wf; eassumption | now apply IH].
    - rewrite <- (Forall2_length _ _ _ HF). exact Hl.
  Qed.

  Lemma new_key_tape master path tape r since until ds x t :
    nonces_ok tape -> new_key C master path tape r since until ds = (x, t) -> nonces_ok t.
  Proof.
    intros Hn H. unfold new_key in H.
    destruct (time_after since until); [inversion H; now subst|]. destruct (is_nil ds); [inversion H; now subst|].
    destruct (add_all C master path (next_seqnum r) tape ds []) as [y t0] eqn:Ea. inversion H; subst. clear H.
    revert Ea Hn. generalize (@nil kdata). generalize tape. clear tape.
    induction ds as [|d ds IHd]; intros tape acc Ea Hn; cbn [add_all] in Ea.
    - inversion Ea; now subst.
    - destruct (add_key_data C master path (next_seqnum r) tape d acc) as [w t3] eqn:Ead.
      assert (Ht3 : nonces_ok t3).
      { unfold add_key_data in Ead.
        repeat match type of Ead with
               | (if ?c then _ else _) = _ => destruct c
               | (let (_, _) := ?e in _) = _ => let E := fresh "E" in destruct e eqn:E
               end; inversion Ead; subst; try assumption;
          eapply enc_field_tape; eauto. }
      destruct w; [eapply IHd; eauto | inversion Ea; now subst | inversion Ea; now subst].
  Qed.

  Lemma upd_last_forall (P : rkey -> Prop) f seq ks :
    (forall k, P k -> P (f k)) -> Forall P ks -> Forall P (upd_last f seq ks).
  Proof.
    intros Hf H. induction H as [|k r Hk Hr IH]; cbn [upd_last]; [constructor|].
    destruct (existsb (fun k' => (k_seq k' =? seq)%Z) r); [constructor; assumption|].
    destruct (k_seq k =? seq)%Z; constructor; auto.
  Qed.

  Lemma rstep_ok master s o :
    store_ok (h_b s) -> nonces_ok (h_tape s) -> op_ok o ->
    store_ok (h_b (fst (rstep C master s o))) /\ nonces_ok (h_tape (fst (rstep C master s o))).
  Proof.
    intros Hs Hn Ho. destruct o as [path since until ds|path seq|path seq st|path seq]; cbn [rstep].
    - destruct Ho as [Hl Ht].
      destruct (open_rw (h_b s) path) as [b1 r] eqn:Eo.
      destruct (open_rw_ok (h_b s) path Hs) as [Hb1 Hr]. rewrite Eo in Hb1, Hr. cbn [fst snd] in Hb1, Hr.
      destruct (new_key C master path (h_tape s) r since until ds) as [x t'] eqn:Ek.
      pose proof (new_key_tape _ _ _ _ _ _ _ _ _ Hn Ek) as Ht'.
      destruct x as [k|e|]; cbn [fst h_b h_tape]; try (split; assumption).
      destruct (ring_has r (k_seq k)); cbn [fst h_b h_tape]; [split; assumption|].
      split; [|exact Ht'].
      destruct (new_key_ok _ _ _ _ _ _ _ _ _ Hn Hl Ht Ek) as [_ [Hwk Hsk]].
      destruct Hr as [Hp [Hw Hsi]].
      apply ring_ok_put; [exact Hb1|]. repeat split; cbn; [exact Hp | |]; apply Forall_app; split; auto.
    - destruct (open_rw (h_b s) path) as [b1 r] eqn:Eo.
      destruct (open_rw_ok (h_b s) path Hs) as [Hb1 Hr]. rewrite Eo in Hb1, Hr. cbn [fst snd] in Hb1, Hr.
      destruct (((r_current r =? NOKEY)%Z || ring_has r (r_current r)) && ring_has r seq); cbn [fst h_b h_tape];
        [|split; assumption].
      split; [|exact Hn]. apply ring_ok_put; [exact Hb1|]. destruct Hr as [Hp [Hw Hsi]]. repeat split; assumption.
    - destruct (open_rw (h_b s) path) as [b1 r] eqn:Eo.
      destruct (open_rw_ok (h_b s) path Hs) as [Hb1 Hr]. rewrite Eo in Hb1, Hr. cbn [fst snd] in Hb1, Hr.
      destruct (last_state r seq) as [old|]; cbn [fst h_b h_tape]; [|split; assumption].
      destruct (transition_valid old st); cbn [fst h_b h_tape]; [|split; assumption].
      split; [|exact Hn]. apply ring_ok_put; [exact Hb1|]. destruct Hr as [Hp [Hw Hsi]].
      repeat split; cbn; [exact Hp | |]; apply upd_last_forall; auto.
    - destruct (open_rw (h_b s) path) as [b1 r] eqn:Eo.
      destruct (open_rw_ok (h_b s) path Hs) as [Hb1 Hr]. rewrite Eo in Hb1, Hr. cbn [fst snd] in Hb1, Hr.
      destruct (last_state r seq) as [old|]; cbn [fst h_b h_tape]; [|split; assumption].
      destruct (transition_valid old STATE_DESTROYED); cbn [fst h_b h_tape]; [|split; assumption].
      split; [|exact Hn]. apply ring_ok_put; [exact Hb1|]. destruct Hr as [Hp [Hw Hsi]].
      repeat split; cbn; [exact Hp | |]; apply upd_last_forall; auto.
      + intros k _. unfold wf_skey. cbn. constructor.
      + intros k _. unfold single. cbn. lia.
  Qed.

  (** invariant of every history *)
  Theorem history_store_ok master ops : forall s,
    store_ok (h_b s) -> nonces_ok (h_tape s) -> Forall op_ok ops ->
    store_ok (h_b (run_rops C master s ops)).
  Proof.
    unfold run_rops. induction ops as [|o r IH]; intros s Hs Hn Ho; cbn [fold_left]; [exact Hs|].
    inversion Ho; subst. destruct (rstep_ok master s o Hs Hn H1) as [Hs' Hn']. now apply IH.
  Qed.

  Lemma store_ok_empty : store_ok [].
  Proof. intros p r H. discriminate. Qed.

  Definition built (master : bytes) (tape : list bytes) (ops : list rop) : backend :=
    h_b (run_rops C master {| h_b := []; h_tape := tape |} ops).

  Theorem history_rings_ok master tape ops p r :
    nonces_ok tape -> Forall op_ok ops -> b_get p (built master tape ops) = Some r ->
    src_ring_ok (built master tape ops) p.
  Proof.
    intros Hn Ho Hg. eapply store_ok_src; [|exact Hg].
    apply history_store_ok; [apply store_ok_empty | exact Hn | exact Ho].
  Qed.

  (** the identity for every source history, every selection, every target back end *)
  Theorem export_import_identity_histories smaster stape sops mode paths rs tmaster deleg tb tape :
    nonces_ok stape -> Forall op_ok sops ->
    private_mode mode -> tmaster <> [] -> nonces_ok tape -> NoDup paths ->
    export_rings C smaster (built smaster stape sops) mode paths = Ok rs ->
    (always_imports deleg \/ Forall (fun p => b_get p tb = None) paths) ->
    let i := import_rings C tmaster deleg tb tape (sorted_rings rs) in
    im_res i = Ok tt ->
    (forall p, In p paths -> store_view C tmaster (im_b i) p = store_view C smaster (built smaster stape sops) p) /\
    (forall q, ~ In q paths -> b_get q (im_b i) = b_get q tb).
  Proof.
    intros Hsn Hso Hmode Htm Hn Hnd Hexp Hdel.
    apply (export_import_identity C HC smaster (built smaster stape sops) mode paths rs tmaster deleg tb tape);
      try assumption.
    pose proof (export_rings_private C _ _ _ _ _ Hmode Hexp) as HF.
    clear -HF Hsn Hso HC. induction HF as [|p pr ps prs Hp _ IH]; constructor; [|exact IH].
    unfold export_ring in Hp. destruct (b_get p (built smaster stape sops)) as [r|] eqn:Eg; [|discriminate].
    eapply history_rings_ok; eassumption.
  Qed.
End History.
