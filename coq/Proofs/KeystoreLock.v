(** Concurrent keystore handles (C17), general part: for ANY number of handles, ANY programs of
    operations and EVERY interleaving at the granularity of back-end calls,
      - a handle changes the storage only while it holds the exclusive lock, nobody else steps
        meanwhile, and what it sees under the lock is what it overwrites (lock scope);
      - a stored key ring only ever GROWS: its seqnums are extended, never dropped. In particular
        a ring file is never replaced by an empty ring once a key has been committed to it:
        OpenKeyRingRW creates a ring only under the exclusive lock after having re-read it.
    The proof is by a lock-discipline invariant over [gstep]: every operation's program is [safe]
    (outside a section it can only take a lock; inside an exclusive section, started from ANY
    storage - whatever the other handles did before the lock was granted - every call keeps [mono]). *)
From Acra Require Import Lib.Bytes Lib.Outcome Gen.KswConsts Model.KeystoreWrite Proofs.KeystoreWrite.
Local Open Scope Z_scope.

(** a stored, verifying ring stays stored and verifying, and its seqnums are only extended *)
Definition mono (st st' : storage) : Prop :=
  forall rid r, lookup (FRing rid) st = Some (CRing true r) ->
    exists r' ext, lookup (FRing rid) st' = Some (CRing true r') /\ seqs r' = seqs r ++ ext.

Definition is_lock_call (c : bcall) : bool :=
  match c with BLock | BUnlock | BRLock | BRUnlock => true | _ => false end.

Section Safe.
  Context {A : Type}.

  (** [safe p]: p runs with no lock held; [insec st p]: p runs inside an exclusive section and the
      storage is [st]; [inrd st p]: p runs inside a shared section and the storage is [st] *)
  Inductive safe : prog A -> Prop :=
  | safe_done a : safe (Done a)
  | safe_lock k : (forall st, insec st (k (Ok VUnit))) -> safe (Call BLock k)
  | safe_rlock k : (forall st, inrd st (k (Ok VUnit))) -> safe (Call BRLock k)
  with insec : storage -> prog A -> Prop :=
  | insec_unlock st k : safe (k (Ok VUnit)) -> insec st (Call BUnlock k)
  | insec_call st c k :
      is_lock_call c = false ->
      mono st (snd (do_call c st)) ->
      insec (snd (do_call c st)) (k (fst (do_call c st))) ->
      insec st (Call c k)
  with inrd : storage -> prog A -> Prop :=
  | inrd_unlock st k : safe (k (Ok VUnit)) -> inrd st (Call BRUnlock k)
  | inrd_call st c k :
      is_lock_call c = false ->
      snd (do_call c st) = st ->
      inrd st (k (fst (do_call c st))) ->
      inrd st (Call c k).
End Safe.

Scheme safe_mind := Minimality for safe Sort Prop
  with insec_mind := Minimality for insec Sort Prop
  with inrd_mind := Minimality for inrd Sort Prop.
Combined Scheme safe_insec_inrd_ind from safe_mind, insec_mind, inrd_mind.

(** * Seqnums are only extended by transactions (no well-formedness premise) *)
Lemma apply_tx_seqs r t r' t' : apply_tx r t = Ok (r', t') -> exists ext, seqs r' = seqs r ++ ext.
Proof.
  intro H. destruct t as [old new|s old new|k|s b]; cbn [apply_tx] in H.
  - destruct (negb (r_cur r =? old)); [discriminate|].
    destruct (negb (old =? KSW_NO_KEY) && _); [discriminate|].
    destruct (key_with_seqnum r new) as [kn|]; [|discriminate].
    inversion H; subst r' t'. exists []. rewrite app_nil_r. reflexivity.
  - destruct (key_with_seqnum r s) as [k|]; [|discriminate].
    destruct (negb (k_state k =? old)%N); [discriminate|].
    inversion H; subst r' t'. exists []. rewrite app_nil_r. apply upd_key_seqs. intro k0. reflexivity.
  - destruct (key_with_seqnum r (k_seq k)); [discriminate|].
    inversion H; subst r' t'. exists [k_seq k]. unfold seqs. cbn [r_keys]. rewrite map_app. reflexivity.
  - destruct (key_with_seqnum r s) as [k|]; [|discriminate].
    inversion H; subst r' t'. exists []. rewrite app_nil_r. apply upd_key_seqs. intro k0. reflexivity.
Qed.

Lemma apply_pending_seqs : forall log r ap r' log' ap',
  apply_pending r ap log = (r', log', ap', None) -> exists ext, seqs r' = seqs r ++ ext.
Proof.
  induction log as [|t log IH]; intros r ap r' log' ap' H; cbn [apply_pending] in H.
  - inversion H; subst. exists []. rewrite app_nil_r. reflexivity.
  - destruct (apply_tx r t) as [[r1 t1]|e|] eqn:Et; [|discriminate|discriminate].
    destruct (apply_tx_seqs r t r1 t1 Et) as [ext1 Hext1].
    destruct (IH r1 (t1 :: ap) r' log' ap' H) as [ext2 Hext2].
    exists (ext1 ++ ext2). rewrite Hext2, Hext1, app_assoc. reflexivity.
Qed.

Lemma mono_refl st : mono st st.
Proof. intros rid r H. exists r, []. rewrite app_nil_r. split; [exact H|reflexivity]. Qed.

Lemma mono_trans a b c : mono a b -> mono b c -> mono a c.
Proof.
  intros Hab Hbc rid r H.
  destruct (Hab rid r H) as (r1 & e1 & H1 & He1).
  destruct (Hbc rid r1 H1) as (r2 & e2 & H2 & He2).
  exists r2, (e1 ++ e2). split; [exact H2|]. rewrite He2, He1, app_assoc. reflexivity.
Qed.

(** no [FRing] entry changes *)
Lemma mono_frame st st' : (forall x, lookup (FRing x) st' = lookup (FRing x) st) -> mono st st'.
Proof. intros Heq rid r H. exists r, []. rewrite app_nil_r, Heq. split; [exact H|reflexivity]. Qed.

(** ring [rid] is replaced by an extension of what was stored, the others are untouched *)
Lemma mono_commit st st' rid r' :
  (forall x, lookup (FRing x) st' = if N.eqb x rid then Some (CRing true r') else lookup (FRing x) st) ->
  (forall r, lookup (FRing rid) st = Some (CRing true r) -> exists ext, seqs r' = seqs r ++ ext) ->
  mono st st'.
Proof.
  intros Heq Hext x r H. rewrite Heq. destruct (N.eqb_spec x rid) as [E|E].
  - subst x. destruct (Hext r H) as [ext He]. exists r', ext. split; [reflexivity|exact He].
  - exists r, []. rewrite app_nil_r. split; [exact H|reflexivity].
Qed.

(** * Composition *)
Lemma safe_bind_all {A B} (f : A -> prog B) (Hf : forall a, safe (f a)) :
  (forall p : prog A, safe p -> safe (pbind p f)) /\
  (forall st (p : prog A), insec st p -> insec st (pbind p f)) /\
  (forall st (p : prog A), inrd st p -> inrd st (pbind p f)).
Proof.
  apply (@safe_insec_inrd_ind A (fun p => safe (pbind p f)) (fun st p => insec st (pbind p f))
           (fun st p => inrd st (pbind p f))).
  - intro a. cbn [pbind]. apply Hf.
  - intros k _ IH. cbn [pbind]. apply safe_lock. exact IH.
  - intros k _ IH. cbn [pbind]. apply safe_rlock. exact IH.
  - intros st k _ IH. cbn [pbind]. apply insec_unlock. exact IH.
  - intros st c k Hc Hm _ IH. cbn [pbind]. apply insec_call; [exact Hc|exact Hm|exact IH].
  - intros st k _ IH. cbn [pbind]. apply inrd_unlock. exact IH.
  - intros st c k Hc Hm _ IH. cbn [pbind]. apply inrd_call; [exact Hc|exact Hm|exact IH].
Qed.

Lemma safe_bind {A B} (p : prog A) (f : A -> prog B) :
  safe p -> (forall a, safe (f a)) -> safe (pbind p f).
Proof. intros Hp Hf. apply (proj1 (safe_bind_all f Hf)). exact Hp. Qed.

Lemma insec_bind {A B} st (p : prog A) (f : A -> prog B) :
  insec st p -> (forall a, safe (f a)) -> insec st (pbind p f).
Proof. intros Hp Hf. apply (proj1 (proj2 (safe_bind_all f Hf))). exact Hp. Qed.

Lemma inrd_bind {A B} st (p : prog A) (f : A -> prog B) :
  inrd st p -> (forall a, safe (f a)) -> inrd st (pbind p f).
Proof. intros Hp Hf. apply (proj2 (proj2 (safe_bind_all f Hf))). exact Hp. Qed.

(** * Bodies of sections *)

(** the body of an exclusive section started at [st]: no lock call, every call keeps [mono];
    [Q] holds of the result and the storage at the end *)
Fixpoint body {A} (Q : A -> storage -> Prop) (p : prog A) (st : storage) : Prop :=
  match p with
  | Done a => Q a st
  | Call c k =>
      is_lock_call c = false /\ mono st (snd (do_call c st)) /\
      body Q (k (fst (do_call c st))) (snd (do_call c st))
  end.

(** the body of a shared section: no lock call, no call changes the storage *)
Fixpoint rbody {A} (p : prog A) (st : storage) : Prop :=
  match p with
  | Done a => True
  | Call c k =>
      is_lock_call c = false /\ snd (do_call c st) = st /\ rbody (k (fst (do_call c st))) st
  end.

Lemma body_bind {A B} (Q : A -> storage -> Prop) (Q' : B -> storage -> Prop) (p : prog A) (f : A -> prog B) :
  forall st, body Q p st -> (forall a st', Q a st' -> body Q' (f a) st') -> body Q' (pbind p f) st.
Proof.
  induction p as [a|c k IH]; intros st Hp Hf; cbn [pbind body] in *.
  - apply Hf. exact Hp.
  - destruct Hp as (H1 & H2 & H3). split; [exact H1|]. split; [exact H2|]. apply IH; [exact H3|exact Hf].
Qed.

Lemma body_weaken {A} (Q Q' : A -> storage -> Prop) (p : prog A) :
  forall st, (forall a st', Q a st' -> Q' a st') -> body Q p st -> body Q' p st.
Proof.
  induction p as [a|c k IH]; intros st HQ Hp; cbn [body] in *.
  - apply HQ. exact Hp.
  - destruct Hp as (H1 & H2 & H3). split; [exact H1|]. split; [exact H2|]. apply IH; [exact HQ|exact H3].
Qed.

Lemma body_insec {A B} (Q : A -> storage -> Prop) (p : prog A) (f : A -> prog B) :
  forall st, body Q p st -> (forall a st', Q a st' -> insec st' (f a)) -> insec st (pbind p f).
Proof.
  induction p as [a|c k IH]; intros st Hp Hf; cbn [pbind body] in *.
  - apply Hf. exact Hp.
  - destruct Hp as (H1 & H2 & H3). apply insec_call; [exact H1|exact H2|]. apply IH; [exact H3|exact Hf].
Qed.

Lemma rbody_inrd {A B} (p : prog A) (f : A -> prog B) :
  forall st, rbody p st -> (forall a, inrd st (f a)) -> inrd st (pbind p f).
Proof.
  induction p as [a|c k IH]; intros st Hp Hf; cbn [pbind rbody] in *.
  - apply Hf.
  - destruct Hp as (H1 & H2 & H3). apply inrd_call; [exact H1|exact H2|]. apply IH; [exact H3|exact Hf].
Qed.

(** the deferred unlock and the return *)
Lemma insec_tail {A} st (g : res bval -> A) : insec st (Call BUnlock (fun u => Done (g u))).
Proof. apply insec_unlock. apply safe_done. Qed.

Lemma inrd_tail {A} st (g : res bval -> A) : inrd st (Call BRUnlock (fun u => Done (g u))).
Proof. apply inrd_unlock. apply safe_done. Qed.

Lemma locked_safe {A} (dflt : A) (b : prog (res unit * A)) :
  (forall st, body (fun _ _ => True) b st) -> safe (locked BLock BUnlock dflt b).
Proof.
  intro Hb. unfold locked, call. cbn [pbind]. apply safe_lock. intro st.
  eapply body_insec; [apply Hb|]. intros ra st' _. cbn [pbind]. apply insec_tail.
Qed.

Lemma rlocked_safe {A} (dflt : A) (b : prog (res unit * A)) :
  (forall st, rbody b st) -> safe (locked BRLock BRUnlock dflt b).
Proof.
  intro Hb. unfold locked, call. cbn [pbind]. apply safe_rlock. intro st.
  eapply rbody_inrd; [apply Hb|]. intros ra. cbn [pbind]. apply inrd_tail.
Qed.

(** * The operations *)
Definition pull_res (o : option content) : res ring :=
  match o with
  | Some (CRing true r) => Ok r
  | Some _ => Err E_VERIFY
  | None => Err E_NOTEXIST
  end.

Lemma pull_body rid st :
  body (fun p st' => st' = st /\ p = pull_res (lookup (FRing rid) st)) (pull rid) st.
Proof.
  unfold pull, call. cbn [pbind body do_call fst snd is_lock_call].
  split; [reflexivity|]. split; [apply mono_refl|]. split; [reflexivity|].
  destruct (lookup (FRing rid) st) as [[[|] r|o w]|]; reflexivity.
Qed.

Lemma pull_rbody rid st : rbody (pull rid) st.
Proof.
  unfold pull, call. cbn [pbind rbody do_call fst snd is_lock_call].
  split; [reflexivity|]. split; [reflexivity|exact I].
Qed.

(** pushing [r'] over ring [rid] under the exclusive lock, when [r'] extends what is stored *)
Lemma push_body rid r' st :
  (forall r, lookup (FRing rid) st = Some (CRing true r) -> exists ext, seqs r' = seqs r ++ ext) ->
  body (fun _ _ => True) (push rid r') st.
Proof.
  intro Hext.
  assert (F1 : forall c, mono st (put (FRingNew rid) c st)).
  { intro c. apply mono_frame. intro x. apply lk_put_new. }
  assert (F2 : mono st (remove (FRingNew rid) st)).
  { apply mono_frame. intro x. apply lk_remove_new. }
  assert (F3 : forall c, mono (remove (FRingNew rid) st) (put (FRingNew rid) c (remove (FRingNew rid) st))).
  { intro c. apply mono_frame. intro x. apply lk_put_new. }
  unfold push, call. cbn [pbind body do_call is_lock_call].
  destruct (lookup (FRingNew rid) st) as [c0|] eqn:En; cbn [fst snd].
  - change (E_EXIST =? E_EXIST)%N with true. cbn [pbind body do_call is_lock_call]. rewrite En.
    cbn [fst snd pbind body do_call is_lock_call].
    rewrite !lk_new_remove. cbn [fst snd pbind body do_call is_lock_call err_of].
    rewrite !lk_new_put. cbn [fst snd pbind body do_call is_lock_call err_of].
    split; [reflexivity|]. split; [apply mono_refl|].
    split; [reflexivity|]. split; [exact F2|].
    split; [reflexivity|]. split; [apply F3|].
    split; [reflexivity|]. split; [|exact I].
    eapply mono_commit; [intro x; apply lk_rename|].
    intros r Hr. rewrite lk_put_new, lk_remove_new in Hr. apply Hext. exact Hr.
  - cbn [pbind body do_call is_lock_call]. rewrite !lk_new_put.
    cbn [fst snd pbind body do_call is_lock_call err_of].
    split; [reflexivity|]. split; [apply F1|].
    split; [reflexivity|]. split; [|exact I].
    eapply mono_commit; [intro x; apply lk_rename|].
    intros r Hr. rewrite lk_put_new in Hr. apply Hext. exact Hr.
Qed.

Lemma push_insec {B} rid r' st (f : res unit -> prog B) :
  (forall r, lookup (FRing rid) st = Some (CRing true r) -> exists ext, seqs r' = seqs r ++ ext) ->
  (forall w st', insec st' (f w)) -> insec st (pbind (push rid r') f).
Proof.
  intros Hext Hf. eapply body_insec; [apply push_body; exact Hext|]. intros w st' _. apply Hf.
Qed.

Lemma write_key_ring_safe' h : safe (write_key_ring h).
Proof.
  unfold write_key_ring. apply locked_safe. intro st.
  eapply body_bind; [apply pull_body|].
  intros p st' [-> ->].
  destruct (lookup (FRing (h_path h)) st) as [[[|] r|o w]|] eqn:El; cbn [pull_res body err_of]; try exact I.
  destruct (apply_pending r [] (h_log h)) as [[[r' log'] ap] [e|]] eqn:Eap; cbn [body]; [exact I|].
  eapply body_bind with (Q := fun _ _ => True).
  - apply push_body. intros r0 Hr0. rewrite El in Hr0. inversion Hr0; subst r0.
    eapply apply_pending_seqs. exact Eap.
  - intros w st' _. destruct w; cbn [body]; exact I.
Qed.

Lemma read_key_ring_safe' h : safe (read_key_ring h).
Proof.
  unfold read_key_ring. apply rlocked_safe. intro st.
  unfold pull, call. cbn [pbind rbody do_call fst snd is_lock_call].
  split; [reflexivity|]. split; [reflexivity|exact I].
Qed.

Lemma sync_key_ring_safe h : safe (sync_key_ring h).
Proof.
  unfold sync_key_ring. destruct (h_log h); [apply read_key_ring_safe'|apply write_key_ring_safe'].
Qed.

(** OpenKeyRingRW creates the ring only when the re-read UNDER THE EXCLUSIVE LOCK finds none *)
Lemma open_key_ring_rw_safe rid : safe (open_key_ring_rw rid).
Proof.
  unfold open_key_ring_rw. cbv zeta. apply locked_safe. intro st.
  eapply body_bind; [apply pull_body|].
  intros p st' [-> ->].
  destruct (lookup (FRing rid) st) as [[[|] r|o w]|] eqn:El; cbn [pull_res body].
  - exact I.
  - change (E_VERIFY =? E_NOTEXIST)%N with false. cbn [body]. exact I.
  - change (E_VERIFY =? E_NOTEXIST)%N with false. cbn [body]. exact I.
  - change (E_NOTEXIST =? E_NOTEXIST)%N with true. cbn iota.
    eapply body_bind with (Q := fun _ _ => True).
    + apply push_body. intros r0 Hr0. rewrite El in Hr0. discriminate.
    + intros w st' _. cbn [body]. exact I.
Qed.

Lemma with_txs_safe' h txs : safe (with_txs h txs).
Proof.
  unfold with_txs. cbv zeta. apply safe_bind; [apply sync_key_ring_safe|]. intro a. apply safe_done.
Qed.

Lemma ring_op_safe' h o : safe (ring_op h o).
Proof.
  unfold ring_op. destruct (prepare h o) as [[txs s]|e|]; try apply safe_done.
  apply safe_bind; [apply with_txs_safe'|]. intro a. apply safe_done.
Qed.

Lemma gen_key_safe' rid ord : safe (gen_key rid ord).
Proof.
  unfold gen_key. apply safe_bind; [apply open_key_ring_rw_safe|]. intro o.
  destruct (fst o) as [u|e|]; try apply safe_done.
  apply safe_bind; [apply ring_op_safe'|]. intro a.
  destruct (fst a) as [s|e|]; try apply safe_done.
  apply safe_bind; [apply ring_op_safe'|]. intro c. apply safe_done.
Qed.

Lemma destroy_current_safe rid : safe (destroy_current rid).
Proof.
  unfold destroy_current. apply safe_bind; [apply open_key_ring_rw_safe|]. intro o.
  destruct (fst o) as [u|e|]; try apply safe_done.
  destruct (current_key (snd o)) as [s|e|]; try apply safe_done.
  apply safe_bind; [apply ring_op_safe'|]. intro d. apply safe_done.
Qed.

Theorem hop_prog_safe hr o : safe (hop_prog hr o).
Proof.
  destruct o as [w|rid|rid ord|rid]; cbn [hop_prog].
  - destruct hr as [h|]; [|apply safe_done].
    apply safe_bind; [apply ring_op_safe'|]. intro r. apply safe_done.
  - apply safe_bind; [apply open_key_ring_rw_safe|]. intro r. apply safe_done.
  - apply safe_bind; [apply gen_key_safe'|]. intro r. apply safe_done.
  - apply safe_bind; [apply destroy_current_safe|]. intro r. apply safe_done.
Qed.

(** * The global invariant *)
Lemma safe_call_inv {A} c (k : res bval -> prog A) :
  safe (Call c k) ->
  (c = BLock /\ forall st, insec st (k (Ok VUnit))) \/ (c = BRLock /\ forall st, inrd st (k (Ok VUnit))).
Proof. intro H. inversion H; subst; [left|right]; split; solve [reflexivity|assumption]. Qed.

Lemma insec_call_inv {A} st c (k : res bval -> prog A) :
  insec st (Call c k) ->
  (c = BUnlock /\ safe (k (Ok VUnit))) \/
  (is_lock_call c = false /\ mono st (snd (do_call c st)) /\
   insec (snd (do_call c st)) (k (fst (do_call c st)))).
Proof.
  intro H. inversion H; subst; [left; split; solve [reflexivity|assumption]|right].
  split; [assumption|]. split; assumption.
Qed.

Lemma inrd_call_inv {A} st c (k : res bval -> prog A) :
  inrd st (Call c k) ->
  (c = BRUnlock /\ safe (k (Ok VUnit))) \/
  (is_lock_call c = false /\ snd (do_call c st) = st /\ inrd st (k (fst (do_call c st)))).
Proof.
  intro H. inversion H; subst; [left; split; solve [reflexivity|assumption]|right].
  split; [assumption|]. split; assumption.
Qed.

Lemma insec_is_call {A} st (p : prog A) : insec st p -> exists c k, p = Call c k.
Proof. intro H. inversion H; subst; eexists _, _; reflexivity. Qed.

Lemma inrd_is_call {A} st (p : prog A) : inrd st p -> exists c k, p = Call c k.
Proof. intro H. inversion H; subst; eexists _, _; reflexivity. Qed.

Lemma nolock_step i c l : is_lock_call c = false -> lock_step i c l = Some l.
Proof. intro H. destruct c; try discriminate H; destruct l; reflexivity. Qed.

Definition in_shared (i : nat) (hs : list nat) : bool := existsb (Nat.eqb i) hs.

Lemma in_shared_cons j i hs : in_shared j (i :: hs) = Nat.eqb j i || in_shared j hs.
Proof. reflexivity. Qed.

Lemma in_shared_remove_same i hs : in_shared i (remove_nat i hs) = false.
Proof.
  induction hs as [|j t IH]; cbn [remove_nat]; [reflexivity|].
  destruct (Nat.eqb i j) eqn:E; [exact IH|]. rewrite in_shared_cons, E, IH. reflexivity.
Qed.

Lemma in_shared_remove_other j i hs : j <> i -> in_shared j (remove_nat i hs) = in_shared j hs.
Proof.
  intro Hne. induction hs as [|x t IH]; cbn [remove_nat]; [reflexivity|].
  destruct (Nat.eqb_spec i x) as [E|E].
  - subst x. rewrite in_shared_cons, IH. destruct (Nat.eqb_spec j i); [contradiction|reflexivity].
  - rewrite !in_shared_cons, IH. reflexivity.
Qed.

(** what the program in progress of handle [i] must be, given who holds the lock *)
Definition role (st : storage) (l : lockst) (i : nat) (p : prog (res Z * option hring)) : Prop :=
  match l with
  | LFree => safe p
  | LExcl j => if Nat.eqb i j then insec st p else safe p
  | LShared hs => if in_shared i hs then inrd st p else safe p
  end.

Definition role_ok (st : storage) (l : lockst) (i : nat) (h : handle) : Prop :=
  match hd_cur (settled h) with
  | None => True
  | Some p => role st l i p
  end.

Definition lock_ne (l : lockst) : Prop := match l with LShared hs => hs <> [] | _ => True end.

Definition ginv (g : gstate) : Prop :=
  lock_ne (g_lock g) /\
  forall i h, nth_error (g_hs g) i = Some h -> role_ok (g_st g) (g_lock g) i h.

(** the definitions spelled out *)
Lemma role_ok_unfold st l i h :
  role_ok st l i h =
  match hd_cur (settled h) with
  | None => True
  | Some p =>
      match l with
      | LFree => safe p
      | LExcl j => if Nat.eqb i j then insec st p else safe p
      | LShared hs => if in_shared i hs then inrd st p else safe p
      end
  end.
Proof. reflexivity. Qed.

Lemma ginv_unfold g :
  ginv g =
  ((match g_lock g with LShared hs => hs <> [] | _ => True end) /\
   forall i h, nth_error (g_hs g) i = Some h -> role_ok (g_st g) (g_lock g) i h).
Proof. reflexivity. Qed.

(** ** settling: bookkeeping between operations keeps the role *)
Definition cur_safe (h : handle) : Prop :=
  match hd_cur h with None => True | Some p => safe p end.

Lemma settle_safe fuel : forall h, cur_safe h -> cur_safe (settle fuel h).
Proof.
  induction fuel as [|n IH]; intros h H; cbn [settle]; [exact H|].
  unfold cur_safe in H. destruct (hd_cur h) as [[[r hr]|c k]|] eqn:Ec.
  - apply IH. exact I.
  - unfold cur_safe. rewrite Ec. exact H.
  - destruct (hd_todo h) as [|o rest].
    + unfold cur_safe. rewrite Ec. exact I.
    + apply IH. unfold cur_safe. cbn [hd_cur]. apply hop_prog_safe.
Qed.

Lemma settled_safe h : cur_safe h -> cur_safe (settled h).
Proof. apply settle_safe. Qed.

Lemma settled_call h c k : hd_cur h = Some (Call c k) -> settled h = h.
Proof.
  intro H. unfold settled. destruct (2 * length (hd_todo h) + 2)%nat as [|n]; cbn [settle]; [reflexivity|].
  rewrite H. reflexivity.
Qed.

Lemma role_ok_new st l i hn p :
  hd_cur hn = Some p -> role st l i p -> role_ok st l i (settled hn).
Proof.
  intros Hc Hr.
  assert (Hsafe : safe p -> match hd_cur (settled (settled hn)) with None => True | Some q => safe q end).
  { intro Hp. apply (settled_safe (settled hn)), settled_safe. unfold cur_safe. rewrite Hc. exact Hp. }
  assert (Hcall : forall c k, p = Call c k -> hd_cur (settled (settled hn)) = Some p).
  { intros c k E. subst p. rewrite !(settled_call hn c k Hc). exact Hc. }
  unfold role_ok, role in *. destruct l as [|j|hs].
  - apply Hsafe. exact Hr.
  - destruct (Nat.eqb i j); [|apply Hsafe; exact Hr].
    destruct (insec_is_call _ _ Hr) as (c & k & E). rewrite (Hcall c k E). exact Hr.
  - destruct (in_shared i hs); [|apply Hsafe; exact Hr].
    destruct (inrd_is_call _ _ Hr) as (c & k & E). rewrite (Hcall c k E). exact Hr.
Qed.

(** ** one back-end call of handle [i] *)
Lemma role_step st l i c k l' :
  lock_ne l -> role st l i (Call c k) -> lock_step i c l = Some l' ->
  mono st (snd (do_call c st)) /\
  (l <> LExcl i -> snd (do_call c st) = st) /\
  lock_ne l' /\
  role (snd (do_call c st)) l' i (k (fst (do_call c st))) /\
  (forall j p, j <> i -> role st l j p -> role (snd (do_call c st)) l' j p).
Proof.
  intros Hne Hr Hl. destruct l as [|j0|hs]; cbn [role] in Hr.
  - (* the lock is free: the call takes it *)
    destruct (safe_call_inv c k Hr) as [[-> Hk]|[-> Hk]]; cbn [lock_step] in Hl; inversion Hl; subst l';
      cbn [do_call fst snd]; (split; [apply mono_refl|]); (split; [reflexivity|]).
    + split; [exact I|]. split.
      * cbn [role]. rewrite Nat.eqb_refl. apply Hk.
      * intros j p Hj Hp. cbn [role] in *. destruct (Nat.eqb_spec j i); [contradiction|exact Hp].
    + split; [discriminate|]. split.
      * cbn [role]. rewrite in_shared_cons, Nat.eqb_refl. cbn [orb]. apply Hk.
      * intros j p Hj Hp. cbn [role] in *. rewrite in_shared_cons.
        destruct (Nat.eqb_spec j i); [contradiction|]. cbn [orb in_shared existsb]. exact Hp.
  - destruct (Nat.eqb_spec i j0) as [E|E].
    + (* the holder of the exclusive lock *)
      subst j0. destruct (insec_call_inv st c k Hr) as [[-> Hk]|(Hc & Hm & Hk)].
      * cbn [lock_step] in Hl. inversion Hl; subst l'. cbn [do_call fst snd].
        split; [apply mono_refl|]. split; [reflexivity|]. split; [exact I|]. split; [exact Hk|].
        intros j p Hj Hp. cbn [role] in *. destruct (Nat.eqb_spec j i); [contradiction|exact Hp].
      * rewrite (nolock_step i c _ Hc) in Hl. inversion Hl; subst l'.
        split; [exact Hm|]. split; [intro Hx; congruence|]. split; [exact I|]. split.
        -- cbn [role]. rewrite Nat.eqb_refl. exact Hk.
        -- intros j p Hj Hp. cbn [role] in *. destruct (Nat.eqb_spec j i); [contradiction|exact Hp].
    + (* anybody else is blocked *)
      destruct (safe_call_inv c k Hr) as [[-> Hk]|[-> Hk]]; cbn [lock_step] in Hl; discriminate Hl.
  - destruct (in_shared i hs) eqn:Ei.
    + (* a holder of the shared lock *)
      destruct (inrd_call_inv st c k Hr) as [[-> Hk]|(Hc & Hm & Hk)].
      * cbn [lock_step] in Hl. inversion Hl; subst l'; clear Hl. cbn [do_call fst snd].
        split; [apply mono_refl|]. split; [reflexivity|].
        destruct (remove_nat i hs) as [|x t] eqn:Er.
        -- split; [exact I|]. split; [exact Hk|].
           intros j p Hj Hp. cbn [role] in *.
           rewrite <- (in_shared_remove_other j i hs Hj), Er in Hp. exact Hp.
        -- split; [discriminate|]. split.
           ++ cbn [role]. rewrite <- Er, in_shared_remove_same. exact Hk.
           ++ intros j p Hj Hp. cbn [role] in *.
              rewrite <- Er, (in_shared_remove_other j i hs Hj). exact Hp.
      * rewrite (nolock_step i c _ Hc) in Hl. inversion Hl; subst l'. rewrite Hm.
        split; [apply mono_refl|]. split; [reflexivity|]. split; [exact Hne|]. split.
        -- cbn [role]. rewrite Ei. exact Hk.
        -- intros j p Hj Hp. exact Hp.
    + (* not a holder: it can only take the shared lock *)
      destruct (safe_call_inv c k Hr) as [[-> Hk]|[-> Hk]]; cbn [lock_step] in Hl; [discriminate Hl|].
      inversion Hl; subst l'. cbn [do_call fst snd].
      split; [apply mono_refl|]. split; [reflexivity|]. split; [discriminate|]. split.
      * cbn [role]. rewrite in_shared_cons, Nat.eqb_refl. cbn [orb]. apply Hk.
      * intros j p Hj Hp. cbn [role] in *. rewrite in_shared_cons.
        destruct (Nat.eqb_spec j i); [contradiction|]. cbn [orb]. exact Hp.
Qed.

Lemma nth_set_same {A} (x y : A) : forall l i, nth_error (set_nth i x l) i = Some y -> y = x.
Proof.
  induction l as [|z t IH]; intros i H; destruct i as [|i']; cbn [set_nth nth_error] in H; try discriminate.
  - congruence.
  - apply (IH i'). exact H.
Qed.

Lemma nth_set_other {A} (x : A) : forall l i j, j <> i -> nth_error (set_nth i x l) j = nth_error l j.
Proof.
  induction l as [|z t IH]; intros i j Hne; destruct i as [|i']; cbn [set_nth]; try reflexivity.
  - destruct j as [|j']; [contradiction|reflexivity].
  - destruct j as [|j']; cbn [nth_error]; [reflexivity|]. apply IH. intro E. apply Hne. congruence.
Qed.

Theorem ginv_init st hs : (forall h, In h hs -> hd_cur h = None) -> ginv (mk_g st LFree hs).
Proof.
  intro H. split; [exact I|]. cbn [g_hs g_st g_lock]. intros i h Hn.
  unfold role_ok. cbn [role]. apply (settled_safe h). unfold cur_safe.
  rewrite (H h (nth_error_In _ _ Hn)). exact I.
Qed.

Theorem gstep_inv g i g' : ginv g -> gstep g i = Some g' -> ginv g' /\ mono (g_st g) (g_st g').
Proof.
  intros [Hne Hall] Hs. unfold gstep in Hs. cbv zeta in Hs.
  destruct (nth_error (g_hs g) i) as [h0|] eqn:En; [|discriminate].
  pose proof (Hall i h0 En) as Hr. unfold role_ok in Hr.
  destruct (hd_cur (settled h0)) as [[a|c k]|] eqn:Ec; try discriminate.
  destruct (lock_step i c (g_lock g)) as [l'|] eqn:El; [|discriminate].
  destruct (role_step _ _ _ _ _ _ Hne Hr El) as (Hm & _ & Hne' & Hri & Hro).
  destruct (do_call c (g_st g)) as [v st'] eqn:Ed. cbn [fst snd] in *.
  inversion Hs; subst g'; clear Hs. cbn [g_st]. split; [|exact Hm].
  split; cbn [g_lock g_st g_hs]; [exact Hne'|].
  intros j hj Hj. destruct (Nat.eq_dec j i) as [E|E].
  - subst j. apply nth_set_same in Hj. subst hj. eapply role_ok_new; [|exact Hri]. reflexivity.
  - rewrite nth_set_other in Hj by exact E. pose proof (Hall j hj Hj) as Hrj.
    unfold role_ok in *. destruct (hd_cur (settled hj)); [|exact I]. apply Hro; assumption.
Qed.

Lemma grun_mono_aux : forall sched g, ginv g -> ginv (grun g sched) /\ mono (g_st g) (g_st (grun g sched)).
Proof.
  induction sched as [|i rest IH]; intros g Hg; cbn [grun].
  - split; [exact Hg|apply mono_refl].
  - destruct (gstep g i) as [g'|] eqn:Es; [|apply IH; exact Hg].
    destruct (gstep_inv g i g' Hg Es) as [Hg' Hm].
    destruct (IH g' Hg') as [Hg'' Hm']. split; [exact Hg''|].
    eapply mono_trans; [exact Hm|exact Hm'].
Qed.

Theorem grun_mono g sched : ginv g -> ginv (grun g sched) /\ mono (g_st g) (g_st (grun g sched)).
Proof. apply grun_mono_aux. Qed.

(** while a handle holds the exclusive lock nobody else makes a back-end call *)
Theorem excl_blocks_others g i j : ginv g -> g_lock g = LExcl i -> j <> i -> gstep g j = None.
Proof.
  intros [Hne Hall] Hl Hj. unfold gstep. cbv zeta.
  destruct (nth_error (g_hs g) j) as [h0|] eqn:En; [|reflexivity].
  pose proof (Hall j h0 En) as Hr. unfold role_ok in Hr.
  destruct (hd_cur (settled h0)) as [[a|c k]|] eqn:Ec; try reflexivity.
  rewrite Hl in *. cbn [role] in Hr. destruct (Nat.eqb_spec j i); [contradiction|].
  destruct (safe_call_inv c k Hr) as [[-> Hk]|[-> Hk]]; reflexivity.
Qed.

(** the storage changes only by calls of the holder of the exclusive lock *)
Theorem only_lock_holder_writes g j g' :
  ginv g -> gstep g j = Some g' -> g_lock g <> LExcl j -> g_st g' = g_st g.
Proof.
  intros [Hne Hall] Hs Hx. unfold gstep in Hs. cbv zeta in Hs.
  destruct (nth_error (g_hs g) j) as [h0|] eqn:En; [|discriminate].
  pose proof (Hall j h0 En) as Hr. unfold role_ok in Hr.
  destruct (hd_cur (settled h0)) as [[a|c k]|] eqn:Ec; try discriminate.
  destruct (lock_step j c (g_lock g)) as [l'|] eqn:El; [|discriminate].
  destruct (role_step _ _ _ _ _ _ Hne Hr El) as (_ & Hsame & _).
  destruct (do_call c (g_st g)) as [v st'] eqn:Ed. cbn [fst snd] in *.
  inversion Hs; subst g'. cbn [g_st]. apply Hsame. exact Hx.
Qed.

(** * A committed key is never lost: the ring is never re-created over it *)
Lemma seqs_nonempty r r' ext : seqs r' = seqs r ++ ext -> r_keys r <> [] -> r_keys r' <> [].
Proof.
  unfold seqs. intros He Hr E. rewrite E in He. cbn [map] in He.
  destruct (r_keys r) as [|k t]; [apply Hr; reflexivity|]. cbn [map app] in He. discriminate He.
Qed.

Theorem creation_is_atomic st hs sched1 sched2 rid r :
  (forall h, In h hs -> hd_cur h = None) ->
  let g1 := grun (mk_g st LFree hs) sched1 in
  lookup (FRing rid) (g_st g1) = Some (CRing true r) -> r_keys r <> [] ->
  exists r' ext, lookup (FRing rid) (g_st (grun g1 sched2)) = Some (CRing true r') /\
                 seqs r' = seqs r ++ ext /\ r_keys r' <> [].
Proof.
  intros Hinit g1 Hl Hk.
  destruct (grun_mono _ sched1 (ginv_init st hs Hinit)) as [Hg1 _]. fold g1 in Hg1.
  destruct (grun_mono g1 sched2 Hg1) as [_ Hm].
  destruct (Hm rid r Hl) as (r' & ext & Hl' & He).
  exists r', ext. split; [exact Hl'|]. split; [exact He|].
  eapply seqs_nonempty; [exact He|exact Hk].
Qed.

(** * Non-vacuity: GenerateKey (handle 0) against OpenKeyRingRW (handle 1) on a missing ring *)
Definition ex_hs : list handle :=
  [mk_handle None [HGen 1 7] None []; mk_handle None [HOpen 1] None []].
Definition ex_g0 : gstate := mk_g [] LFree ex_hs.
Definition ex_key_ring : ring := mk_ring [mk_kent 1 KSW_PREACTIVE 7] 1.

Fixpoint ex_alt (n : nat) : list nat :=
  match n with O => [] | S n' => 1%nat :: O :: ex_alt n' end.

Lemma ex_init : forall h, In h ex_hs -> hd_cur h = None.
Proof. intros h [<-|[<-|[]]]; reflexivity. Qed.

(** handle 1 gets the lock first and creates the ring; handle 0 waits, then opens it (not
    re-creating it), adds the key and makes it current: both operations succeed *)
Example ex_interleaved :
  let g := grun ex_g0 (ex_alt 20) in
  lookup (FRing 1) (g_st g) = Some (CRing true ex_key_ring) /\ g_lock g = LFree /\
  map hd_out (g_hs g) = [[Ok 0]; [Ok 0]].
Proof. vm_compute. repeat split. Qed.

(** in the middle of that run handle 0 holds the exclusive lock and the other is blocked *)
Example ex_blocked :
  let g := grun ex_g0 (ex_alt 6) in
  g_lock g = LExcl 0 /\ gstep g 1 = None /\ ginv g.
Proof.
  cbv zeta. split; [vm_compute; reflexivity|]. split; [vm_compute; reflexivity|].
  apply grun_mono. apply ginv_init. exact ex_init.
Qed.

(** GenerateKey completes, THEN OpenKeyRingRW runs: the premises of [creation_is_atomic] hold at
    the intermediate state, and the key is still there afterwards *)
Example ex_open_after_gen :
  let g1 := grun ex_g0 (repeat O 15) in
  lookup (FRing 1) (g_st g1) = Some (CRing true ex_key_ring) /\ r_keys ex_key_ring <> [] /\
  lookup (FRing 1) (g_st (grun g1 (repeat 1%nat 5))) = Some (CRing true ex_key_ring) /\
  map hd_out (g_hs (grun g1 (repeat 1%nat 5))) = [[Ok 0]; [Ok 0]].
Proof. vm_compute. repeat split. discriminate. Qed.

Example ex_creation_is_atomic sched2 :
  exists r' ext,
    lookup (FRing 1) (g_st (grun (grun ex_g0 (repeat O 15)) sched2)) = Some (CRing true r') /\
    seqs r' = seqs ex_key_ring ++ ext /\ r_keys r' <> [].
Proof.
  apply (creation_is_atomic [] ex_hs (repeat O 15) sched2 1%N ex_key_ring ex_init).
  - vm_compute. reflexivity.
  - discriminate.
Qed.

