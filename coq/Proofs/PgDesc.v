(** Proofs about Model/PgDesc.v: RowDescription / ParameterDescription codecs, the type-OID rewrite, the dispatch of
    the database side, the start-up switch of the client side. *)
From Acra Require Import Lib.Bytes Lib.Outcome Lib.GoSlice Gen.WireConsts Gen.WireDescConsts Model.PgWire Model.PgDesc
  Proofs.PgWire Proofs.PgWireBind.
From Coq Require Import ZifyN ZifyNat ZifyBool.
Local Open Scope N_scope.

(** * reading fixed-width integers off an explicit concatenation *)
Lemma be_u32_app (h r : bytes) : length h = 4%nat -> be_u32 (h ++ r) = Ok (be_dec h).
Proof.
  intros H. unfold be_u32. rewrite (gindex_ok 3) by (rewrite ?len_app; unfold len; lia). cbn [Outcome.bind].
  rewrite <- H, firstn_app_len. reflexivity.
Qed.

Lemma be_u16_app (h r : bytes) : length h = 2%nat -> be_u16 (h ++ r) = Ok (be_dec h).
Proof.
  intros H. unfold be_u16. rewrite (gindex_ok 1) by (rewrite ?len_app; unfold len; lia). cbn [Outcome.bind].
  rewrite <- H, firstn_app_len. reflexivity.
Qed.

Lemma gslice_from_app_n (h t : bytes) (n : Z) : n = Z.of_nat (length h) -> gslice_from n (h ++ t) = Ok t.
Proof. intros ->. apply gslice_from_app. reflexivity. Qed.

(** * RowDescription: one field *)
Definition wf_fd (f : fielddesc) : Prop :=
  ~ In x00 (fd_name f) /\ fd_table f < 2^32 /\ fd_attr f < 2^16 /\ fd_type f < 2^32 /\ fd_size f < 2^16
  /\ fd_mod f < 2^32 /\ fd_format f < 2^16.

Lemma rd_fixed_app (name f1 f2 f3 f4 f5 f6 rest : bytes) :
  length f1 = 4%nat -> length f2 = 2%nat -> length f3 = 4%nat -> length f4 = 2%nat -> length f5 = 4%nat ->
  length f6 = 2%nat ->
  rd_fixed name (f1 ++ f2 ++ f3 ++ f4 ++ f5 ++ f6 ++ rest)
  = Ok (mk_fd name (be_dec f1) (be_dec f2) (be_dec f3) (be_dec f4) (be_dec f5) (be_dec f6), rest).
Proof.
  intros L1 L2 L3 L4 L5 L6. unfold rd_fixed.
  rewrite be_u32_app by exact L1. cbn [Outcome.bind]. rewrite gslice_from_app_n by lia. cbn [Outcome.bind].
  rewrite be_u16_app by exact L2. cbn [Outcome.bind]. rewrite gslice_from_app_n by lia. cbn [Outcome.bind].
  rewrite be_u32_app by exact L3. cbn [Outcome.bind]. rewrite gslice_from_app_n by lia. cbn [Outcome.bind].
  rewrite be_u16_app by exact L4. cbn [Outcome.bind]. rewrite gslice_from_app_n by lia. cbn [Outcome.bind].
  rewrite be_u32_app by exact L5. cbn [Outcome.bind]. rewrite gslice_from_app_n by lia. cbn [Outcome.bind].
  rewrite be_u16_app by exact L6. cbn [Outcome.bind]. rewrite gslice_from_app_n by lia. cbn [Outcome.bind].
  reflexivity.
Qed.

Lemma split18 (t : bytes) : (18 <= length t)%nat ->
  exists f1 f2 f3 f4 f5 f6 rest : bytes, t = f1 ++ f2 ++ f3 ++ f4 ++ f5 ++ f6 ++ rest /\
    length f1 = 4%nat /\ length f2 = 2%nat /\ length f3 = 4%nat /\ length f4 = 2%nat /\ length f5 = 4%nat /\
    length f6 = 2%nat.
Proof.
  intros H.
  destruct (split_at 4 t ltac:(lia)) as (f1 & t1 & -> & L1). rewrite app_length in H.
  destruct (split_at 2 t1 ltac:(lia)) as (f2 & t2 & -> & L2). rewrite app_length in H.
  destruct (split_at 4 t2 ltac:(lia)) as (f3 & t3 & -> & L3). rewrite app_length in H.
  destruct (split_at 2 t3 ltac:(lia)) as (f4 & t4 & -> & L4). rewrite app_length in H.
  destruct (split_at 4 t4 ltac:(lia)) as (f5 & t5 & -> & L5). rewrite app_length in H.
  destruct (split_at 2 t5 ltac:(lia)) as (f6 & t6 & -> & L6).
  exists f1, f2, f3, f4, f5, f6, t6. repeat split; assumption.
Qed.

Lemma fd_bytes_pieces (name f1 f2 f3 f4 f5 f6 : bytes) :
  length f1 = 4%nat -> length f2 = 2%nat -> length f3 = 4%nat -> length f4 = 2%nat -> length f5 = 4%nat ->
  length f6 = 2%nat ->
  fd_bytes (mk_fd name (be_dec f1) (be_dec f2) (be_dec f3) (be_dec f4) (be_dec f5) (be_dec f6))
  = name ++ [x00] ++ f1 ++ f2 ++ f3 ++ f4 ++ f5 ++ f6.
Proof.
  intros L1 L2 L3 L4 L5 L6. unfold fd_bytes, fd_fixed. cbn [fd_name fd_table fd_attr fd_type fd_size fd_mod fd_format].
  rewrite !be_enc_dec_4, !be_enc_dec_2 by assumption. reflexivity.
Qed.

Lemma wf_fd_pieces (name f1 f2 f3 f4 f5 f6 : bytes) : ~ In x00 name ->
  length f1 = 4%nat -> length f2 = 2%nat -> length f3 = 4%nat -> length f4 = 2%nat -> length f5 = 4%nat ->
  length f6 = 2%nat ->
  wf_fd (mk_fd name (be_dec f1) (be_dec f2) (be_dec f3) (be_dec f4) (be_dec f5) (be_dec f6)).
Proof.
  intros Hn L1 L2 L3 L4 L5 L6. unfold wf_fd. cbn [fd_name fd_table fd_attr fd_type fd_size fd_mod fd_format].
  pose proof (be_dec_4_lt f1 L1). pose proof (be_dec_2_lt f2 L2). pose proof (be_dec_4_lt f3 L3).
  pose proof (be_dec_2_lt f4 L4). pose proof (be_dec_4_lt f5 L5). pose proof (be_dec_2_lt f6 L6).
  repeat split; try assumption; lia.
Qed.

(** what one iteration does: an error, or exactly "name, 0, 18 bytes" cut off the front *)
Lemma rd_field_cases (t : bytes) :
  (exists e, rd_field t = Err e) \/
  exists f (rest : bytes), rd_field t = Ok (f, rest) /\ t = fd_bytes f ++ rest /\ wf_fd f.
Proof.
  unfold rd_field.
  destruct (read_cstring_cases t) as [[e He]|(a & r & Ht & Hn & He)]; rewrite He.
  { left. eexists. reflexivity. }
  destruct (Z.ltb_spec (len r) 18) as [Hs|Hs]. { left. eexists. reflexivity. }
  right. destruct (split18 r ltac:(unfold len in Hs; lia)) as (f1 & f2 & f3 & f4 & f5 & f6 & rest & -> & L1 & L2 & L3 & L4 & L5 & L6).
  rewrite rd_fixed_app by assumption. eexists. exists rest. split; [reflexivity|].
  split; [| apply wf_fd_pieces; assumption].
  rewrite fd_bytes_pieces by assumption. subst t. cbn [app]. repeat (rewrite <- app_assoc; cbn [app]). reflexivity.
Qed.

Lemma fd_fixed_length f : length (fd_fixed f) = 18%nat.
Proof. unfold fd_fixed. rewrite !app_length, !be_enc_length. reflexivity. Qed.

Lemma fd_bytes_length f : length (fd_bytes f) = (length (fd_name f) + 19)%nat.
Proof. unfold fd_bytes. rewrite !app_length, fd_fixed_length. cbn [length]. lia. Qed.

(** a field that is in range is read back from its encoding *)
Lemma rd_field_app (f : fielddesc) (rest : bytes) : wf_fd f -> rd_field (fd_bytes f ++ rest) = Ok (f, rest).
Proof.
  intros (Hn & H1 & H2 & H3 & H4 & H5 & H6). unfold rd_field, fd_bytes.
  replace ((fd_name f ++ [x00] ++ fd_fixed f) ++ rest) with (fd_name f ++ x00 :: (fd_fixed f ++ rest))
    by (rewrite <- app_assoc; reflexivity).
  rewrite read_cstring_app by exact Hn.
  destruct (Z.ltb_spec (len (fd_fixed f ++ rest)) 18) as [Hs|Hs].
  { rewrite len_app in Hs. unfold len in Hs. rewrite fd_fixed_length in Hs. lia. }
  unfold fd_fixed. rewrite <- !app_assoc.
  rewrite rd_fixed_app by apply be_enc_length.
  rewrite !be4_roundtrip, !be2_roundtrip by assumption. destruct f; reflexivity.
Qed.

(** * RowDescription: the loop *)
Definition fds_bytes (fs : list fielddesc) : bytes := concat (map fd_bytes fs).

Lemma rd_fields_inv (k : nat) : forall (t : bytes) fs rest, rd_fields k t = Ok (fs, rest) ->
  t = fds_bytes fs ++ rest /\ length fs = k /\ Forall wf_fd fs.
Proof.
  induction k as [|k IH]; intros t fs rest; cbn [rd_fields].
  - intros [= <- <-]. repeat split. constructor.
  - destruct (rd_field_cases t) as [[e He]|(f & r1 & He & Ht & Hw)]; rewrite He; cbn [Outcome.bind]; [discriminate|].
    destruct (rd_fields k r1) as [[fs' r2]| |] eqn:E; cbn [Outcome.bind]; try discriminate.
    intros [= <- <-]. destruct (IH r1 fs' r2 E) as (Hr & Hl & Hf).
    split; [| split; [cbn [length]; lia| constructor; assumption]].
    unfold fds_bytes. cbn [map concat]. rewrite <- app_assoc. fold (fds_bytes fs'). rewrite <- Hr. exact Ht.
Qed.

Lemma rd_fields_total (k : nat) : forall t : bytes, rd_fields k t <> Panic.
Proof.
  induction k as [|k IH]; intros t; cbn [rd_fields]; [discriminate|].
  destruct (rd_field_cases t) as [[e He]|(f & r1 & He & _ & _)]; rewrite He; cbn [Outcome.bind]; [discriminate|].
  specialize (IH r1). destruct (rd_fields k r1) as [[fs' r2]| |]; cbn [Outcome.bind]; [discriminate|discriminate|contradiction].
Qed.

Lemma rd_fields_app (fs : list fielddesc) : forall rest : bytes, Forall wf_fd fs ->
  rd_fields (length fs) (fds_bytes fs ++ rest) = Ok (fs, rest).
Proof.
  induction fs as [|f fs IH]; intros rest Hw; cbn [length rd_fields]; [reflexivity|].
  inversion Hw as [|? ? Hf Hw']; subst.
  unfold fds_bytes. cbn [map concat]. rewrite <- app_assoc. fold (fds_bytes fs).
  rewrite rd_field_app by exact Hf. cbn [Outcome.bind]. rewrite IH by exact Hw'. reflexivity.
Qed.

(** * RowDescription.Decode *)
Lemma be_u16_ge2 (src : bytes) : (2 <= length src)%nat ->
  exists h t : bytes, src = h ++ t /\ length h = 2%nat /\ be_u16 src = Ok (be_dec h) /\ gslice_from 2 src = Ok t.
Proof.
  intros H. destruct (split_at 2 src H) as (h & t & -> & L). exists h, t. split; [reflexivity|]. split; [exact L|].
  split; [apply be_u16_app, L| apply gslice_from_app_n; lia].
Qed.

Theorem rd_decode_rest_inv (src : bytes) fs rest : rd_decode_rest src = Ok (fs, rest) ->
  src = rd_payload fs ++ rest /\ Forall wf_fd fs /\ N.of_nat (length fs) < 65536.
Proof.
  unfold rd_decode_rest. destruct (Z.ltb_spec (len src) 2) as [Hs|Hs]; [discriminate|].
  destruct (be_u16_ge2 src ltac:(unfold len in Hs; lia)) as (h & t & -> & L & E1 & E2).
  rewrite E1, E2. cbn [Outcome.bind]. intros H. apply rd_fields_inv in H as (Ht & Hl & Hw).
  pose proof (be_dec_2_lt h L) as Hlt.
  split; [| split; [exact Hw| lia]].
  unfold rd_payload. fold (fds_bytes fs). rewrite Hl, N2Nat.id, be_enc_dec_2 by exact L.
  rewrite <- app_assoc, <- Ht. reflexivity.
Qed.

Theorem rd_decode_rest_app (fs : list fielddesc) (rest : bytes) :
  Forall wf_fd fs -> N.of_nat (length fs) < 65536 -> rd_decode_rest (rd_payload fs ++ rest) = Ok (fs, rest).
Proof.
  intros Hw Hl. unfold rd_decode_rest, rd_payload. fold (fds_bytes fs).
  destruct (Z.ltb_spec (len ((be_enc 2 (N.of_nat (length fs)) ++ fds_bytes fs) ++ rest)) 2) as [Hs|Hs].
  { rewrite !len_app in Hs. unfold len in Hs. rewrite be_enc_length in Hs. lia. }
  rewrite <- app_assoc. rewrite be_u16_app by apply be_enc_length. cbn [Outcome.bind].
  rewrite gslice_from_app_n by (rewrite be_enc_length; reflexivity). cbn [Outcome.bind].
  rewrite be2_roundtrip by exact Hl. rewrite Nat2N.id. apply rd_fields_app, Hw.
Qed.

Theorem rd_decode_rest_total (src : bytes) : rd_decode_rest src <> Panic.
Proof.
  unfold rd_decode_rest. destruct (Z.ltb_spec (len src) 2) as [Hs|Hs]; [discriminate|].
  destruct (be_u16_ge2 src ltac:(unfold len in Hs; lia)) as (h & t & -> & L & E1 & E2).
  rewrite E1, E2. cbn [Outcome.bind]. apply rd_fields_total.
Qed.

Theorem rd_decode_total (src : bytes) : rd_decode src <> Panic.
Proof.
  unfold rd_decode. pose proof (rd_decode_rest_total src) as H.
  destruct (rd_decode_rest src) as [[fs r]| |]; cbn [Outcome.bind]; [discriminate|discriminate|contradiction].
Qed.

Lemma rd_decode_ok (src : bytes) fs : rd_decode src = Ok fs -> exists rest, rd_decode_rest src = Ok (fs, rest).
Proof.
  unfold rd_decode. destruct (rd_decode_rest src) as [[fs' r]| |]; cbn [Outcome.bind]; try discriminate.
  intros [= <-]. exists r. reflexivity.
Qed.

Lemma fds_bytes_length_ge fs : (19 * length fs <= length (fds_bytes fs))%nat.
Proof.
  induction fs as [|f fs IH]; [cbn; lia|]. unfold fds_bytes in *. cbn [map concat length].
  rewrite app_length, fd_bytes_length. lia.
Qed.

Lemma rd_payload_length fs : length (rd_payload fs) = (2 + length (fds_bytes fs))%nat.
Proof. unfold rd_payload. fold (fds_bytes fs). rewrite app_length, be_enc_length. reflexivity. Qed.

(** allocation bound: the decoder keeps one field per 19+ bytes of input, whatever count is declared *)
Theorem rd_decode_bounded (src : bytes) fs : rd_decode src = Ok fs -> (2 + 19 * length fs <= length src)%nat.
Proof.
  intros H. apply rd_decode_ok in H as [rest H]. apply rd_decode_rest_inv in H as (-> & _ & _).
  rewrite app_length, rd_payload_length. pose proof (fds_bytes_length_ge fs). lia.
Qed.

(** * ParameterDescription *)
Definition oids_bytes (oids : list N) : bytes := concat (map (be_enc 4) oids).

Lemma pd_oids_shape : forall t : bytes,
  exists tail : bytes, t = oids_bytes (pd_oids t) ++ tail /\ (length tail < 4)%nat /\ Forall (fun o => o < 2^32) (pd_oids t).
Proof.
  fix IH 1. intros [|a [|b [|c [|d r]]]].
  - exists []. cbn. repeat split; [lia| constructor].
  - exists [a]. cbn. repeat split; [lia| constructor].
  - exists [a; b]. cbn. repeat split; [lia| constructor].
  - exists [a; b; c]. cbn. repeat split; [lia| constructor].
  - destruct (IH r) as (tail & Hr & Hl & Hf). exists tail. cbn [pd_oids]. unfold oids_bytes in *. cbn [map concat].
    split; [| split; [exact Hl|]].
    + rewrite (be_enc_dec_4 [a; b; c; d]) by reflexivity. cbn [app]. rewrite <- Hr. reflexivity.
    + constructor; [| exact Hf]. apply (be_dec_4_lt [a; b; c; d]). reflexivity.
Qed.

Lemma be_enc_4_shape o : exists a b c d, be_enc 4 o = [a; b; c; d].
Proof.
  pose proof (be_enc_length 4 o) as L. destruct (be_enc 4 o) as [|a [|b [|c [|d [|e r]]]]]; cbn in L; try lia.
  exists a, b, c, d. reflexivity.
Qed.

Lemma pd_oids_app (oids : list N) (tail : bytes) : Forall (fun o => o < 2^32) oids -> (length tail < 4)%nat ->
  pd_oids (oids_bytes oids ++ tail) = oids.
Proof.
  intros Hf Hl. induction oids as [|o oids IH].
  - cbn. destruct tail as [|a [|b [|c [|d r]]]]; cbn in Hl; try lia; reflexivity.
  - inversion Hf as [|? ? Ho Hf']; subst. unfold oids_bytes in *. cbn [map concat].
    destruct (be_enc_4_shape o) as (a & b & c & d & E). rewrite E. cbn [app pd_oids].
    rewrite IH by exact Hf'. rewrite <- E, be4_roundtrip by exact Ho. reflexivity.
Qed.

Lemma oids_bytes_length oids : length (oids_bytes oids) = (4 * length oids)%nat.
Proof.
  induction oids as [|o oids IH]; [reflexivity|]. unfold oids_bytes in *. cbn [map concat length].
  rewrite app_length, be_enc_length, IH. lia.
Qed.

Theorem pd_decode_total (src : bytes) : pd_decode src <> Panic.
Proof.
  unfold pd_decode. destruct (Z.ltb_spec (len src) 2) as [Hs|Hs]; [discriminate|].
  rewrite gslice_from_ok by (pose proof (len_nonneg src); lia). discriminate.
Qed.

(** accepted = two bytes (the declared count, ignored), the ids, at most 3 more bytes *)
Theorem pd_decode_inv (src : bytes) oids : pd_decode src = Ok oids ->
  exists c tail : bytes, src = c ++ oids_bytes oids ++ tail /\ length c = 2%nat /\ (length tail < 4)%nat
                         /\ Forall (fun o => o < 2^32) oids.
Proof.
  unfold pd_decode. destruct (Z.ltb_spec (len src) 2) as [Hs|Hs]; [discriminate|].
  destruct (split_at 2 src ltac:(unfold len in Hs; lia)) as (c & t & -> & L).
  rewrite gslice_from_app_n by lia. cbn [Outcome.bind]. intros [= <-].
  destruct (pd_oids_shape t) as (tail & Ht & Hl & Hf). exists c, tail. rewrite <- Ht. repeat split; assumption.
Qed.

Theorem pd_decode_app (oids : list N) : Forall (fun o => o < 2^32) oids -> pd_decode (pd_payload oids) = Ok oids.
Proof.
  intros Hf. unfold pd_decode, pd_payload. fold (oids_bytes oids).
  destruct (Z.ltb_spec (len (be_enc 2 (N.of_nat (length oids)) ++ oids_bytes oids)) 2) as [Hs|Hs].
  { rewrite len_app in Hs. unfold len in Hs. rewrite be_enc_length in Hs. lia. }
  rewrite gslice_from_app_n by (rewrite be_enc_length; reflexivity). cbn [Outcome.bind].
  rewrite <- (app_nil_r (oids_bytes oids)). rewrite pd_oids_app by (try exact Hf; cbn; lia). reflexivity.
Qed.

Theorem pd_decode_bounded (src : bytes) oids : pd_decode src = Ok oids -> (2 + 4 * length oids <= length src)%nat.
Proof.
  intros H. apply pd_decode_inv in H as (c & tail & -> & L & _ & _). rewrite !app_length, oids_bytes_length. lia.
Qed.

(** * the rewrite of the type ids *)
Definition rw_field (it : option setting) (f : fielddesc) : fielddesc :=
  match new_oid it with Some o => set_type f o | None => f end.
Fixpoint zip_rw (its : list (option setting)) (fs : list fielddesc) : list fielddesc :=
  match its, fs with
  | it :: its', f :: fs' => rw_field it f :: zip_rw its' fs'
  | _, _ => fs
  end.

Lemma rd_rewrite_fst its : forall fs, fst (rd_rewrite its fs) = zip_rw its fs.
Proof.
  induction its as [|it its IH]; intros [|f fs]; cbn [rd_rewrite zip_rw fst]; try reflexivity.
  specialize (IH fs). destruct (rd_rewrite its fs) as [r ch]. cbn [fst] in IH. unfold rw_field.
  destruct (new_oid it); cbn [fst]; rewrite IH; reflexivity.
Qed.

Lemma rd_rewrite_unchanged its : forall fs, snd (rd_rewrite its fs) = false -> zip_rw its fs = fs.
Proof.
  induction its as [|it its IH]; intros [|f fs]; cbn [rd_rewrite zip_rw snd]; try reflexivity.
  specialize (IH fs). destruct (rd_rewrite its fs) as [r ch]. cbn [snd] in IH. unfold rw_field.
  destruct (new_oid it); cbn [snd]; [discriminate|]. intros H. rewrite IH by exact H. reflexivity.
Qed.

Lemma rd_rewrite_none its : forall fs, Forall (fun it => new_oid it = None) its -> rd_rewrite its fs = (fs, false).
Proof.
  induction its as [|it its IH]; intros [|f fs] H; cbn [rd_rewrite]; try reflexivity.
  inversion H as [|? ? H1 H2]; subst. rewrite IH by exact H2. rewrite H1. reflexivity.
Qed.

Lemma zip_rw_length its : forall fs, length (zip_rw its fs) = length fs.
Proof. induction its as [|it its IH]; intros [|f fs]; cbn [zip_rw length]; try reflexivity. rewrite IH. reflexivity. Qed.

Lemma nth_nil_none {A} i : nth i (@nil (option A)) None = None.
Proof. destruct i; reflexivity. Qed.

Lemma zip_rw_nth its : forall fs i f, nth_error fs i = Some f ->
  nth_error (zip_rw its fs) i = Some (rw_field (nth i its None) f).
Proof.
  induction its as [|it its IH]; intros fs i f H.
  - rewrite nth_nil_none. destruct fs; exact H.
  - destruct fs as [|g fs]; [destruct i; discriminate|]. destruct i as [|i]; cbn [zip_rw nth nth_error] in *.
    + injection H as <-. reflexivity.
    + apply IH, H.
Qed.

Lemma oids_small : forallb (fun x => x <? 2^32) PG_DESC_TYPE_OIDS = true.
Proof. vm_compute. reflexivity. Qed.

Lemma new_oid_range it o : new_oid it = Some o -> In o PG_DESC_TYPE_OIDS /\ o < 2^32.
Proof.
  unfold new_oid, map_oid. destruct it as [st|]; [|discriminate]. destruct (has_type_aware st); [|discriminate].
  destruct (existsb (N.eqb (s_dtid st)) PG_DESC_TYPE_OIDS) eqn:E; [|discriminate]. intros [= <-].
  apply existsb_exists in E as (x & Hin & Hx). apply N.eqb_eq in Hx. subst x. split; [exact Hin|].
  pose proof oids_small as Hs. rewrite forallb_forall in Hs. specialize (Hs _ Hin). lia.
Qed.

(** every field except the type id keeps its value; the type id changes only where the code decides to *)
Lemma rw_field_spec it f :
  fd_name (rw_field it f) = fd_name f /\ fd_table (rw_field it f) = fd_table f /\ fd_attr (rw_field it f) = fd_attr f
  /\ fd_size (rw_field it f) = fd_size f /\ fd_mod (rw_field it f) = fd_mod f /\ fd_format (rw_field it f) = fd_format f
  /\ (new_oid it = None -> rw_field it f = f)
  /\ (forall o, new_oid it = Some o -> fd_type (rw_field it f) = o /\ In o PG_DESC_TYPE_OIDS).
Proof.
  unfold rw_field. destruct (new_oid it) as [o|] eqn:E; cbn [set_type fd_name fd_table fd_attr fd_type fd_size fd_mod fd_format].
  - do 6 (split; [reflexivity|]). split; [discriminate|]. intros o' [= <-]. split; [reflexivity|]. apply (new_oid_range it), E.
  - do 6 (split; [reflexivity|]). split; [reflexivity|]. discriminate.
Qed.

Lemma rw_field_wf it f : wf_fd f -> wf_fd (rw_field it f).
Proof.
  intros (Hn & H1 & H2 & H3 & H4 & H5 & H6). unfold rw_field. destruct (new_oid it) as [o|] eqn:E; [|repeat split; assumption].
  apply new_oid_range in E as [_ Ho]. unfold wf_fd. cbn [set_type fd_name fd_table fd_attr fd_type fd_size fd_mod fd_format].
  repeat split; assumption.
Qed.

Lemma zip_rw_wf its : forall fs, Forall wf_fd fs -> Forall wf_fd (zip_rw its fs).
Proof.
  induction its as [|it its IH]; intros [|f fs] H; cbn [zip_rw]; try exact H.
  inversion H; subst. constructor; [apply rw_field_wf; assumption| apply IH; assumption].
Qed.

Lemma rw_field_bytes_length it f : length (fd_bytes (rw_field it f)) = length (fd_bytes f).
Proof. rewrite !fd_bytes_length. destruct (rw_field_spec it f) as (-> & _). reflexivity. Qed.

Lemma zip_rw_bytes_length its : forall fs, length (fds_bytes (zip_rw its fs)) = length (fds_bytes fs).
Proof.
  induction its as [|it its IH]; intros [|f fs]; cbn [zip_rw]; try reflexivity.
  unfold fds_bytes in *. cbn [map concat]. rewrite !app_length, rw_field_bytes_length, IH. reflexivity.
Qed.

Lemma desc_encode_guard_cases n pl : desc_encode_guard n pl = Ok pl \/ exists e, desc_encode_guard n pl = Err e.
Proof.
  unfold desc_encode_guard. destruct (65535 <? N.of_nat n); [right; eexists; reflexivity|].
  destruct (PGPROTO3_MAX_BODY <? 4 + N.of_nat (length pl)); [right; eexists; reflexivity| left; reflexivity].
Qed.

Lemma reencode_cases fixed p changed n pl p' : reencode fixed p changed (desc_encode_guard n pl) = Ok p' ->
  p' = p \/ (changed = true /\ p' = put_desc fixed p pl).
Proof.
  unfold reencode. destruct changed; [| intros [= <-]; left; reflexivity].
  destruct (desc_encode_guard_cases n pl) as [E|[e E]]; rewrite E; intros [= <-]; [right; split; reflexivity| left; reflexivity].
Qed.

Lemma reencode_total fixed p changed n pl : reencode fixed p changed (desc_encode_guard n pl) <> Panic.
Proof.
  unfold reencode. destruct changed; [|discriminate].
  destruct (desc_encode_guard_cases n pl) as [E|[e E]]; rewrite E; discriminate.
Qed.

(** handleRowDescription, ALL settings and ALL packets: the packet goes out as it came, or it is the re-encoding of
    the decoded fields with only type ids replaced: declared length = actual length, the payload parses back into
    exactly the rewritten fields with nothing left over, same number of fields, field [i] is [rw_field (items[i])] of
    the original field [i] (see [rw_field_spec]), and the size is the original size minus ignored trailing bytes *)
Theorem pg_rowdesc_rewrite_wf items p p' : handle_row_description items p = Ok p' ->
  p' = p \/
  exists its fs (rest : bytes),
    items = Some its /\ rd_decode_rest (p_desc p) = Ok (fs, rest) /\ length its = length fs /\
    p' = mk_packet (p_type p) (packet_length_buf (N.of_nat (length (rd_payload (zip_rw its fs))))) (rd_payload (zip_rw its fs)) /\
    rd_decode_rest (rd_payload (zip_rw its fs)) = Ok (zip_rw its fs, []) /\
    length (zip_rw its fs) = length fs /\
    (forall i f, nth_error fs i = Some f -> nth_error (zip_rw its fs) i = Some (rw_field (nth i its None) f)) /\
    (length (rd_payload (zip_rw its fs)) + length rest = length (p_desc p))%nat.
Proof.
  unfold handle_row_description, handle_row_description_with.
  destruct items as [its|]; [| intros [= <-]; left; reflexivity].
  destruct (rd_decode (p_desc p)) as [fs| |] eqn:E; [| intros [= <-]; left; reflexivity| discriminate].
  destruct (Nat.eqb_spec (length its) (length fs)) as [Hl|Hl]; [| intros [= <-]; left; reflexivity].
  pose proof (rd_rewrite_fst its fs) as Hf. destruct (rd_rewrite its fs) as [fs' ch]. cbn [fst] in Hf. subst fs'.
  unfold rd_encode. intros H. apply reencode_cases in H as [->|[_ ->]]; [left; reflexivity|]. right.
  apply rd_decode_ok in E as [rest E]. exists its, fs, rest.
  pose proof (rd_decode_rest_inv _ _ _ E) as (Hsrc & Hw & Hc).
  split; [reflexivity|]. split; [exact E|]. split; [exact Hl|]. split; [reflexivity|].
  split. { rewrite <- (app_nil_r (rd_payload (zip_rw its fs))). apply rd_decode_rest_app; [apply zip_rw_wf, Hw| rewrite zip_rw_length; exact Hc]. }
  split; [apply zip_rw_length|]. split; [apply zip_rw_nth|].
  rewrite Hsrc, app_length, !rd_payload_length, zip_rw_bytes_length. reflexivity.
Qed.

Theorem handle_row_description_with_total fixed items p : handle_row_description_with fixed items p <> Panic.
Proof.
  unfold handle_row_description_with. destruct items as [its|]; [|discriminate].
  pose proof (rd_decode_total (p_desc p)) as T. destruct (rd_decode (p_desc p)) as [fs| |]; [|discriminate|contradiction].
  destruct (length its =? length fs)%nat; [|discriminate]. destruct (rd_rewrite its fs) as [fs' ch].
  apply reencode_total.
Qed.

(** no setting asks for a type: the packet is not touched *)
Theorem pg_rowdesc_untyped_identity its p :
  Forall (fun it => new_oid it = None) its -> handle_row_description (Some its) p = Ok p.
Proof.
  intros H. unfold handle_row_description, handle_row_description_with.
  pose proof (rd_decode_total (p_desc p)) as T. destruct (rd_decode (p_desc p)) as [fs| |]; [|reflexivity|contradiction].
  destruct (length its =? length fs)%nat; [|reflexivity]. rewrite rd_rewrite_none by exact H. reflexivity.
Qed.

(** ** ParameterDescription *)
Definition rw_oid (it : option setting) (o : N) : N := match new_oid it with Some n => n | None => o end.
Fixpoint zip_rw_oids (its : list (option setting)) (oids : list N) : list N :=
  match oids with
  | [] => []
  | o :: r => rw_oid (hd None its) o :: zip_rw_oids (tl its) r
  end.

Lemma pd_rewrite_fst oids : forall its, fst (pd_rewrite its oids) = zip_rw_oids its oids.
Proof.
  induction oids as [|o oids IH]; intros its; cbn [pd_rewrite zip_rw_oids fst]; [reflexivity|].
  specialize (IH (tl its)). destruct (pd_rewrite (tl its) oids) as [r ch]. cbn [fst] in IH. unfold rw_oid.
  destruct (new_oid (hd None its)); cbn [fst]; rewrite IH; reflexivity.
Qed.

Lemma pd_rewrite_none oids : forall its, Forall (fun it => new_oid it = None) its -> pd_rewrite its oids = (oids, false).
Proof.
  induction oids as [|o oids IH]; intros its H; cbn [pd_rewrite]; [reflexivity|].
  rewrite IH by (destruct its; [constructor| inversion H; assumption]).
  destruct its as [|it its]; cbn [hd]; [reflexivity|]. inversion H as [|? ? H1 _]. rewrite H1. reflexivity.
Qed.

Lemma zip_rw_oids_length oids : forall its, length (zip_rw_oids its oids) = length oids.
Proof. induction oids as [|o oids IH]; intros its; cbn [zip_rw_oids length]; [reflexivity|]. rewrite IH. reflexivity. Qed.

Lemma nth_tl {A} i (l : list (option A)) : nth i (tl l) None = nth (S i) l None.
Proof. destruct l; [destruct i; reflexivity| reflexivity]. Qed.

Lemma zip_rw_oids_nth oids : forall its i o, nth_error oids i = Some o ->
  nth_error (zip_rw_oids its oids) i = Some (rw_oid (nth i its None) o).
Proof.
  induction oids as [|x oids IH]; intros its i o H; [destruct i; discriminate|].
  destruct i as [|i]; cbn [zip_rw_oids nth_error] in *.
  - injection H as <-. destruct its; reflexivity.
  - rewrite (IH (tl its) i o H), nth_tl. reflexivity.
Qed.

Lemma zip_rw_oids_range oids : forall its, Forall (fun o => o < 2^32) oids -> Forall (fun o => o < 2^32) (zip_rw_oids its oids).
Proof.
  induction oids as [|x oids IH]; intros its H; cbn [zip_rw_oids]; [constructor|]. inversion H; subst.
  constructor; [| apply IH; assumption]. unfold rw_oid. destruct (new_oid (hd None its)) eqn:E; [|assumption].
  apply new_oid_range in E as [_ E]. exact E.
Qed.

Lemma pd_payload_length oids : length (pd_payload oids) = (2 + 4 * length oids)%nat.
Proof. unfold pd_payload. fold (oids_bytes oids). rewrite app_length, be_enc_length, oids_bytes_length. reflexivity. Qed.

(** handleParameterDescription, ALL settings and ALL packets: untouched, or the re-encoding of the ids actually
    present (the declared count becomes their number) with declared length = actual length, parsing back into exactly
    the rewritten ids; id [i] is the original or the setting's; a message whose count was right keeps its size *)
Theorem pg_paramdesc_rewrite_wf items p p' : handle_parameter_description items p = Ok p' ->
  p' = p \/
  exists its oids,
    items = Some its /\ pd_decode (p_desc p) = Ok oids /\
    p' = mk_packet (p_type p) (packet_length_buf (N.of_nat (length (pd_payload (zip_rw_oids its oids))))) (pd_payload (zip_rw_oids its oids)) /\
    pd_decode (pd_payload (zip_rw_oids its oids)) = Ok (zip_rw_oids its oids) /\
    length (zip_rw_oids its oids) = length oids /\
    (forall i o, nth_error oids i = Some o -> nth_error (zip_rw_oids its oids) i = Some (rw_oid (nth i its None) o)) /\
    (length (pd_payload (zip_rw_oids its oids)) <= length (p_desc p))%nat /\
    (p_desc p = pd_payload oids -> length (pd_payload (zip_rw_oids its oids)) = length (p_desc p)).
Proof.
  unfold handle_parameter_description, handle_parameter_description_with.
  destruct items as [its|]; [| intros [= <-]; left; reflexivity].
  destruct (pd_decode (p_desc p)) as [oids| |] eqn:E; [| intros [= <-]; left; reflexivity| discriminate].
  pose proof (pd_rewrite_fst oids its) as Hf. destruct (pd_rewrite its oids) as [oids' ch]. cbn [fst] in Hf. subst oids'.
  unfold pd_encode. intros H. apply reencode_cases in H as [->|[_ ->]]; [left; reflexivity|]. right.
  exists its, oids. pose proof (pd_decode_inv _ _ E) as (c & tail & Hsrc & Lc & Lt & Hr).
  split; [reflexivity|]. split; [reflexivity|]. split; [reflexivity|].
  split; [apply pd_decode_app, zip_rw_oids_range, Hr|]. split; [apply zip_rw_oids_length|]. split; [apply zip_rw_oids_nth|].
  rewrite !pd_payload_length, zip_rw_oids_length. split.
  - rewrite Hsrc, !app_length, oids_bytes_length. lia.
  - intros ->. rewrite pd_payload_length. reflexivity.
Qed.

Theorem handle_parameter_description_with_total fixed items p : handle_parameter_description_with fixed items p <> Panic.
Proof.
  unfold handle_parameter_description_with. destruct items as [its|]; [|discriminate].
  pose proof (pd_decode_total (p_desc p)) as T. destruct (pd_decode (p_desc p)) as [oids| |]; [|discriminate|contradiction].
  destruct (pd_rewrite its oids) as [oids' ch]. apply reencode_total.
Qed.

Theorem pg_paramdesc_untyped_identity its p :
  Forall (fun it => new_oid it = None) its -> handle_parameter_description (Some its) p = Ok p.
Proof.
  intros H. unfold handle_parameter_description, handle_parameter_description_with.
  pose proof (pd_decode_total (p_desc p)) as T. destruct (pd_decode (p_desc p)) as [oids| |]; [|reflexivity|contradiction].
  rewrite pd_rewrite_none by exact H. reflexivity.
Qed.

(** ** the code as found kept the length field of the message read *)
Definition stale_items : option (list (option setting)) := Some [Some (mk_setting true false false 23)].
Definition stale_packet : packet :=
  mk_packet PG_ROWDESC_TYPE (be_enc 4 32) (rd_payload [mk_fd [x61] 0 0 25 65535 4294967295 0] ++ hb 0x1787878787878).
Definition stale_result : packet :=
  Eval vm_compute in match handle_row_description_old stale_items stale_packet with Ok p => p | _ => stale_packet end.
Definition stale_par_packet : packet := mk_packet PG_PARAMDESC_TYPE (be_enc 4 13) (pd_payload [25] ++ hb 0x1090909).
Definition stale_par_result : packet :=
  Eval vm_compute in match handle_parameter_description_old stale_items stale_par_packet with Ok p => p | _ => stale_par_packet end.

Theorem pg_rowdesc_stale_length_old_refuted : exists items p p',
  Z.of_nat (length (p_desc p)) = data_length (p_lenbuf p) /\
  handle_row_description_old items p = Ok p' /\ Z.of_nat (length (p_desc p')) <> data_length (p_lenbuf p').
Proof. exists stale_items, stale_packet, stale_result. split; [vm_compute; reflexivity|]. split; [vm_compute; reflexivity| vm_compute; discriminate]. Qed.

Theorem pg_paramdesc_stale_length_old_refuted : exists items p p',
  Z.of_nat (length (p_desc p)) = data_length (p_lenbuf p) /\
  handle_parameter_description_old items p = Ok p' /\ Z.of_nat (length (p_desc p')) <> data_length (p_lenbuf p').
Proof. exists stale_items, stale_par_packet, stale_par_result. split; [vm_compute; reflexivity|]. split; [vm_compute; reflexivity| vm_compute; discriminate]. Qed.

(** the same inputs through the fixed code *)
Example pg_rowdesc_stale_length_fixed :
  exists p', handle_row_description stale_items stale_packet = Ok p' /\ Z.of_nat (length (p_desc p')) = data_length (p_lenbuf p')
             /\ p' <> stale_packet.
Proof. eexists. split; [vm_compute; reflexivity|]. split; [vm_compute; reflexivity| discriminate]. Qed.

(** * the database side: every other message type *)
Theorem pg_db_relay_identity ri pi row s p rest :
  read_msg s = Ok (p, rest) -> db_rewritten_type (p_type p) = false -> p_type p <> PG_WITHOUT_MESSAGE_TYPE ->
  exists sent, db_step ri pi row s = Ok (sent, rest) /\ sent ++ rest = s.
Proof.
  intros H Ht H0. unfold db_step. rewrite H. cbn [Outcome.bind]. unfold handle_database_packet.
  unfold db_rewritten_type in Ht. apply Bool.orb_false_elim in Ht as [Ht E3]. apply Bool.orb_false_elim in Ht as [E1 E2].
  rewrite E1, E2, E3. cbn [Outcome.bind]. eexists. split; [reflexivity|]. apply pg_relay_identity; assumption.
Qed.

Theorem handle_database_packet_total ri pi row p :
  (forall q, row q <> Panic) -> handle_database_packet ri pi row p <> Panic.
Proof.
  intros Hrow. unfold handle_database_packet.
  destruct (byte_eqb (p_type p) PG_DATAROW_TYPE); [apply Hrow|].
  destruct (byte_eqb (p_type p) PG_ROWDESC_TYPE); [apply handle_row_description_with_total|].
  destruct (byte_eqb (p_type p) PG_PARAMDESC_TYPE); [apply handle_parameter_description_with_total| discriminate].
Qed.

Theorem db_step_total ri pi row s : (forall q, row q <> Panic) -> db_step ri pi row s <> Panic.
Proof.
  intros Hrow. unfold db_step. pose proof (wire_pg_read_msg_total s) as T.
  destruct (read_msg s) as [[p rest]| |]; cbn [Outcome.bind]; [|discriminate|contradiction].
  pose proof (handle_database_packet_total ri pi row p Hrow) as T2.
  destruct (handle_database_packet ri pi row p); cbn [Outcome.bind]; [discriminate|discriminate|contradiction].
Qed.

(** a description goes out as one well-framed message followed by the untouched rest of the stream *)
Theorem pg_db_desc_step_framed ri pi row s p rest sent rest' :
  read_msg s = Ok (p, rest) -> p_type p = PG_ROWDESC_TYPE \/ p_type p = PG_PARAMDESC_TYPE ->
  db_step ri pi row s = Ok (sent, rest') ->
  rest' = rest /\ exists payload, sent = frame (p_type p) payload /\ (length payload <= length (p_desc p))%nat.
Proof.
  intros H Ht. unfold db_step. rewrite H. cbn [Outcome.bind].
  destruct (handle_database_packet ri pi row p) as [p'| |] eqn:E; cbn [Outcome.bind]; try discriminate.
  intros [= <- <-]. split; [reflexivity|].
  assert (Hd : byte_eqb (p_type p) PG_DATAROW_TYPE = false) by (destruct Ht as [-> | ->]; vm_compute; reflexivity).
  assert (H0 : p_type p <> PG_WITHOUT_MESSAGE_TYPE) by (destruct Ht as [-> | ->]; vm_compute; discriminate).
  pose proof (read_msg_inv _ _ _ H) as (Hs & Hlb & Hdl).
  assert (Hsame : marshal p = frame (p_type p) (p_desc p)).
  { unfold marshal, frame. destruct (byte_eqb (p_type p) PG_WITHOUT_MESSAGE_TYPE) eqn:E0; [apply byte_eqb_eq in E0; contradiction|].
    cbn [app]. f_equal. f_equal. unfold packet_length_buf, data_length in *.
    rewrite <- (be_enc_dec_4 (p_lenbuf p)) at 1 by exact Hlb. f_equal.
    pose proof (be_dec_4_lt (p_lenbuf p) Hlb). change PG_LENGTH_BUF_SIZE with 4 in *. lia. }
  unfold handle_database_packet in E. rewrite Hd in E.
  destruct (byte_eqb (p_type p) PG_ROWDESC_TYPE) eqn:ET.
  - apply pg_rowdesc_rewrite_wf in E as [->|(its & fs & r & _ & _ & _ & -> & _ & _ & _ & Hlen)].
    + exists (p_desc p). split; [exact Hsame|]. lia.
    + exists (rd_payload (zip_rw its fs)). split; [apply pg_frame_marshal, H0|]. lia.
  - destruct Ht as [Ht|Ht]; [rewrite Ht, byte_eqb_refl in ET; discriminate|].
    rewrite Ht, byte_eqb_refl in E.
    apply pg_paramdesc_rewrite_wf in E as [->|(its & oids & _ & _ & -> & _ & _ & _ & Hlen & _)].
    + exists (p_desc p). split; [exact Hsame|]. lia.
    + exists (pd_payload (zip_rw_oids its oids)). split; [apply pg_frame_marshal, H0|]. exact Hlen.
Qed.

(** * the client side: start-up message first, general messages afterwards *)
Lemma client_relay_started f : forall s, fst (client_relay f true s) = relay f s.
Proof.
  induction f as [|f IH]; intros s; cbn [client_relay relay]; [reflexivity|].
  unfold read_client. destruct (read_msg s) as [[p rest]| |]; cbn [Outcome.bind fst]; try reflexivity.
  specialize (IH rest). destruct (client_relay f true rest) as [o n]. cbn [fst] in *. rewrite IH. reflexivity.
Qed.

Theorem pg_client_stream_identity s p rest ms fuel :
  read_startup s = Ok (p, rest) -> rest = frames ms -> Forall wf_msg ms -> (length ms < fuel)%nat ->
  fst (client_relay (S fuel) false s) = s.
Proof.
  intros H Hr Hw Hf. cbn [client_relay]. unfold read_client. rewrite H. cbn [Outcome.bind].
  pose proof (client_relay_started fuel rest) as Hc. destruct (client_relay fuel true rest) as [o n]. cbn [fst] in *.
  rewrite Hc, Hr, pg_relay_stream by assumption. rewrite <- Hr. apply pg_startup_identity, H.
Qed.

Theorem read_client_total started s : read_client started s <> Panic.
Proof.
  unfold read_client. destruct started.
  - pose proof (wire_pg_read_msg_total s) as T. destruct (read_msg s) as [[p r]| |]; cbn [Outcome.bind]; [discriminate|discriminate|contradiction].
  - pose proof (wire_pg_read_startup_total s) as T. destruct (read_startup s) as [[p r]| |]; cbn [Outcome.bind]; [discriminate|discriminate|contradiction].
Qed.

(** only a start-up message opens a client connection: a general message first is refused, whatever follows *)
Theorem read_client_first_is_startup s p rest st :
  read_client false s = Ok (p, rest, st) -> read_startup s = Ok (p, rest) /\ st = true /\ p_type p = PG_WITHOUT_MESSAGE_TYPE.
Proof.
  unfold read_client. destruct (read_startup s) as [[p' r']| |] eqn:E; cbn [Outcome.bind]; try discriminate.
  intros [= <- <- <-]. split; [reflexivity|]. split; [reflexivity|].
  unfold read_startup in E. destruct (read_n 8 s) as [[h s1]| |]; cbn [Outcome.bind] in E; try discriminate.
  destruct (_ || _ || _ || _); [|discriminate]. destruct (_ <? _)%Z; [discriminate|].
  destruct (read_n _ s1) as [[d s2]| |]; cbn [Outcome.bind] in E; try discriminate. injection E as <- _. reflexivity.
Qed.

(** the first answer of the database *)
Theorem pg_db_first_identity s sent rest :
  db_first s = Ok (sent, rest) -> hd_byte s <> PG_WITHOUT_MESSAGE_TYPE -> sent ++ rest = s.
Proof.
  unfold db_first. destruct (read_n 1 s) as [[t s1]| |] eqn:E1; cbn [Outcome.bind]; try discriminate.
  apply read_n_inv in E1 as [Hs L1].
  destruct (_ || _). { intros [= <- <-] _. symmetry. exact Hs. }
  destruct (read_msg s) as [[p r]| |] eqn:E; cbn [Outcome.bind]; try discriminate.
  intros [= <- <-] H0. apply pg_relay_identity; [exact E|].
  apply read_msg_inv in E as (Hs' & _). rewrite Hs' in H0. exact H0.
Qed.

Theorem db_first_total s : db_first s <> Panic.
Proof.
  unfold db_first. pose proof (read_n_not_panic 1 s) as T1. destruct (read_n 1 s) as [[t s1]| |]; cbn [Outcome.bind]; [|discriminate|contradiction].
  destruct (_ || _); [discriminate|]. pose proof (wire_pg_read_msg_total s) as T.
  destruct (read_msg s) as [[p r]| |]; cbn [Outcome.bind]; [discriminate|discriminate|contradiction].
Qed.

(** * what the start-up reader accepts and refuses *)
(** what readStartupPacket accepts, for ALL streams: 4 length bytes, one of the four request codes (the three fixed
    requests with their exact length), exactly as many further bytes as the length field declares *)
Theorem pg_startup_accepts s p rest : read_startup s = Ok (p, rest) ->
  exists lb code d : bytes,
    s = lb ++ code ++ d ++ rest /\ length lb = 4%nat /\ length code = 4%nat /\
    p = mk_packet PG_WITHOUT_MESSAGE_TYPE lb (code ++ d) /\
    (code = PG_STARTUP_REQUEST \/ lb ++ code = PG_SSL_REQUEST_HEADER \/ lb ++ code = PG_CANCEL_REQUEST_HEADER
     \/ lb ++ code = PG_GSSENC_REQUEST_HEADER) /\
    Z.of_nat (length (code ++ d)) = data_length lb.
Proof.
  unfold read_startup.
  destruct (read_n 8 s) as [[h s1]| |] eqn:E1; cbn [Outcome.bind]; try discriminate.
  destruct (bytes_eqb (skipn 4 h) PG_STARTUP_REQUEST || bytes_eqb h PG_SSL_REQUEST_HEADER
            || bytes_eqb h PG_CANCEL_REQUEST_HEADER || bytes_eqb h PG_GSSENC_REQUEST_HEADER) eqn:EC; [|discriminate].
  destruct (data_length (firstn 4 h) - 4 <? 0)%Z eqn:EL; [discriminate|].
  destruct (read_n (data_length (firstn 4 h) - 4) s1) as [[d s2]| |] eqn:E2; cbn [Outcome.bind]; try discriminate.
  intros H. injection H as <- <-. apply read_n_inv in E1 as [-> L8]. apply read_n_inv in E2 as [-> Ld].
  exists (firstn 4 h), (skipn 4 h), d.
  assert (L4 : length (firstn 4 h) = 4%nat) by (rewrite firstn_length; lia).
  assert (L4' : length (skipn 4 h) = 4%nat) by (rewrite skipn_length; lia).
  split. { rewrite (app_assoc (firstn 4 h)), firstn_skipn. reflexivity. }
  split; [exact L4|]. split; [exact L4'|]. split; [reflexivity|]. split.
  - rewrite firstn_skipn. repeat (apply Bool.orb_true_iff in EC as [EC|EC]); apply bytes_eqb_eq in EC; auto.
  - rewrite app_length, L4', Ld. apply Z.ltb_ge in EL. lia.
Qed.

(** anything else in the first eight bytes is refused: no general message, no other request code *)
Theorem pg_startup_rejects (h s1 : bytes) : length h = 8%nat ->
  skipn 4 h <> PG_STARTUP_REQUEST -> h <> PG_SSL_REQUEST_HEADER -> h <> PG_CANCEL_REQUEST_HEADER -> h <> PG_GSSENC_REQUEST_HEADER ->
  read_startup (h ++ s1) = Err E_UNSUPPORTED.
Proof.
  intros L H1 H2 H3 H4. unfold read_startup. rewrite read_n_app by lia. cbn [Outcome.bind].
  apply bytes_eqb_neq in H1, H2, H3, H4. rewrite H1, H2, H3, H4. reflexivity.
Qed.
