(** C13_statements: what the printed form of a well-formed node STARTS with (the parser decides by its first
    tokens), identifiers through print and back, finite facts about the generated keyword classes. *)
From Acra Require Import Lib.Bytes Gen.Prec Gen.SqlWords Model.SqlStmt Model.SqlStmtParse Proofs.SqlStmtUnfold Proofs.SqlStmtFacts.
From Coq Require Import Arith Lia.

Lemma mem_bytes_In v l : mem_bytes v l = true -> In v l.
Proof.
  induction l as [|x l IH]; [discriminate|]. cbn [mem_bytes]. intros H. apply Bool.orb_true_iff in H as [H|H].
  - left. apply bytes_eqb_eq. exact H.
  - right. apply IH. exact H.
Qed.

(* ---------- finite facts about the generated keyword classes ---------- *)
(** tokens that may start an expression *)
Definition nonstart (w : word) : bool :=
  match w with
  | W_select | W_from | W_where | W_group | W_by | W_having | W_order | W_limit | W_union | W_all | W_distinct
  | W_as | W_on | W_using | W_join | W_straight_join | W_natural | W_insert | W_ignore | W_into | W_update | W_set
  | W_delete | W_returning | W_and | W_or | W_is | W_between | W_in | W_like | W_ilike | W_escape | W_regexp | W_div
  | W_when | W_then | W_else | W_end | W_collate | W_asc | W_desc | W_nulls | W_first | W_last | W_for | W_lock => true
  | _ => false
  end.
Definition estart (t : tok) : bool :=
  match t with
  | TLit _ _ | TId _ | TDq _ | TKw _ => true
  | TCast _ => false
  | TP p => match p with PMinus | PPlus | PTilde | PBang | PLParen => true | _ => false end
  | TW w => negb (nonstart w)
  end.

(** keyword-named functions: the token of the name starts an atom, is no other atom head, and names the function *)
Definition fkw_names : list bytes := FUNC_KW_ARGS ++ FUNC_KW_NOARGS ++ NON_RESERVED ++ FUNC_KW_OPT.
Definition fkw_ok (pg : bool) (n : bytes) : bool :=
  match fname_class n with
  | Some cls =>
      negb (is_keyword n) ||
      (estart (kw_tok n) &&
       match atom_head pg (kw_tok n :: TP PLParen :: []) with
       | AHKwFunc n' cls' [] => bytes_eqb n n' && N.eqb cls cls'
       | _ => false
       end &&
       match kw_tok n with TW W_not | TP _ | TLit _ _ | TId _ | TDq _ | TCast _ => false | _ => true end &&
       match un_head [kw_tok n] with None => true | Some _ => false end)
  | None => true
  end.
Lemma fkw_all pg : forallb (fkw_ok pg) fkw_names = true.
Proof. destruct pg; vm_compute; reflexivity. Qed.

Lemma fname_class_kw_in n cls : fname_class n = Some cls -> is_keyword n = true -> In n fkw_names /\ lower n = n.
Proof.
  unfold fname_class. intros H Hk. rewrite Hk in H.
  destruct (bytes_eqb (lower n) n) eqn:El; cbn [negb] in H; [|discriminate].
  apply bytes_eqb_eq in El. split; [|exact El]. unfold fkw_names.
  destruct (mem_bytes n FUNC_KW_ARGS) eqn:E1; [apply in_or_app; left; apply mem_bytes_In; exact E1|].
  destruct (mem_bytes n FUNC_KW_NOARGS) eqn:E2; [apply in_or_app; right; apply in_or_app; left; apply mem_bytes_In; exact E2|].
  destruct (mem_bytes n NON_RESERVED) eqn:E3; [do 2 (apply in_or_app; right); apply in_or_app; left; apply mem_bytes_In; exact E3|].
  destruct (mem_bytes n FUNC_KW_OPT) eqn:E4; [do 3 (apply in_or_app; right); apply mem_bytes_In; exact E4|discriminate].
Qed.

(** interval units / convert types are keyword tokens without a word constructor that name themselves *)
Definition unit_ok (u : bytes) : bool :=
  match raw_tok u with
  | TKw u' => bytes_eqb u u' && match is_unit_tok (TKw u) with Some u'' => bytes_eqb u u'' | None => false end
  | _ => false
  end.
Lemma units_all : forallb unit_ok INTERVAL_UNITS = true. Proof. vm_compute. reflexivity. Qed.
Lemma unit_tok u : mem_bytes u INTERVAL_UNITS = true -> raw_tok u = TKw u /\ is_unit_tok (TKw u) = Some u.
Proof.
  intros H. apply mem_bytes_In in H. pose proof (proj1 (forallb_forall _ _) units_all u H) as Hu.
  unfold unit_ok in Hu. destruct (raw_tok u) as [| | | | | |u']; try discriminate Hu.
  apply andb_prop in Hu as [H1 H2]. apply bytes_eqb_eq in H1. subst u'.
  destruct (is_unit_tok (TKw u)) as [u''|]; [|discriminate H2]. apply bytes_eqb_eq in H2. subst u''. split; reflexivity.
Qed.

Definition ctype_names : list bytes := CONVERT_TYPES_PLAIN ++ CONVERT_TYPES_LEN ++ CONVERT_TYPES_DEC.
Definition ctname_ok (ty : bytes) : bool :=
  match kw_name (raw_tok ty) with Some ty' => bytes_eqb ty ty' | None => false end.
Lemma ctnames_all : forallb ctname_ok ctype_names = true. Proof. vm_compute. reflexivity. Qed.
Lemma ctype_class_name ty cls : ctype_class ty = Some cls -> kw_name (raw_tok ty) = Some ty.
Proof.
  unfold ctype_class. intros H.
  assert (Hin : In ty ctype_names).
  { unfold ctype_names.
    destruct (mem_bytes ty CONVERT_TYPES_PLAIN) eqn:E1; [apply in_or_app; left; apply mem_bytes_In; exact E1|].
    destruct (mem_bytes ty CONVERT_TYPES_LEN) eqn:E2; [apply in_or_app; right; apply in_or_app; left; apply mem_bytes_In; exact E2|].
    destruct (mem_bytes ty CONVERT_TYPES_DEC) eqn:E3; [do 2 (apply in_or_app; right); apply mem_bytes_In; exact E3|discriminate]. }
  pose proof (proj1 (forallb_forall _ _) ctnames_all ty Hin) as Hc. unfold ctname_ok in Hc.
  destruct (kw_name (raw_tok ty)) as [ty'|]; [|discriminate Hc]. apply bytes_eqb_eq in Hc. subst. reflexivity.
Qed.

Section Heads.
Variable pg : bool.

(* ---------- identifiers ---------- *)
Lemma id_chars_not_bad v : id_chars v = true -> bad_chars pg (is_dbsys v) true v = false.
Proof.
  destruct v as [|c v]; [discriminate|]. cbn [id_chars]. intros H. apply andb_prop in H as [Hc Hv].
  cbn [bad_chars]. rewrite Hc. cbn [negb andb orb].
  generalize (is_dbsys (c :: v)). intros b. induction v as [|d v IH]; [reflexivity|].
  cbn [forallb] in Hv. apply andb_prop in Hv as [Hd Hv]. cbn [bad_chars].
  rewrite (IH Hv). rewrite Bool.orb_false_r. apply Bool.orb_true_iff in Hd as [Hd|Hd].
  - rewrite Hd. reflexivity.
  - rewrite Hd. cbn [negb]. rewrite Bool.andb_false_r. reflexivity.
Qed.

Lemma plain_not_escaped v : plain_ident v = true -> must_escape pg v = false.
Proof.
  unfold plain_ident, must_escape. intros H. apply andb_prop in H as [H _]. apply andb_prop in H as [Hc Hk].
  rewrite (id_chars_not_bad v Hc). apply Bool.negb_true_iff in Hk. rewrite Hk. reflexivity.
Qed.

Lemma plain_id_tok v : plain_ident v = true -> id_tok pg (Id QNone v) = TId v.
Proof.
  intros H. cbn [id_tok]. rewrite (plain_not_escaped v H).
  unfold plain_ident in H. apply andb_prop in H as [_ H].
  destruct (bytes_eqb (lower v) x_dual) eqn:E; [|reflexivity].
  cbn [negb orb] in H. apply bytes_eqb_eq in H. subst v. reflexivity.
Qed.

(** an unquoted name that is well-formed in its dialect prints as ID with its own spelling *)
Lemma unq_id_tok v : wf_unq pg v = true -> id_tok pg (Id QNone v) = TId v.
Proof.
  unfold wf_unq. intros H. apply andb_prop in H as [_ H]. destruct pg eqn:Epg.
  - rewrite <- Epg. apply plain_id_tok. exact H.
  - apply Bool.orb_true_iff in H as [H|H].
    + cbn [id_tok]. unfold must_escape.
      destruct (id_chars v) eqn:Ec.
      * cbn [andb negb] in H. rewrite Bool.negb_involutive in H. rewrite H. rewrite Bool.orb_true_r. reflexivity.
      * assert (Hb : bad_chars false (is_dbsys v) true v = true \/ bad_chars false (is_dbsys v) true v = false)
          by (destruct (bad_chars false (is_dbsys v) true v); auto).
        destruct Hb as [Hb|Hb]; rewrite Hb; [reflexivity|].
        cbn [orb]. destruct (is_keyword v); [reflexivity|].
        (* bare although id_chars fails: only the empty name or @@-names with carats; dual is neither *)
        destruct (bytes_eqb (lower v) x_dual) eqn:Ed; [|reflexivity].
        exfalso. apply bytes_eqb_eq in Ed.
        assert (Hl : length v = 4) by (rewrite <- (map_length lower_byte v); fold (lower v); rewrite Ed; reflexivity).
        destruct v as [|c1 [|c2 [|c3 [|c4 [|? ?]]]]]; try discriminate Hl.
        unfold lower in Ed. cbn [map] in Ed. inversion Ed as [[H1 H2 H3 H4]].
        assert (L : forall c d, lower_byte c = d -> is_letter d = true -> is_letter c = true).
        { intros c d <-. destruct c; vm_compute; intros Hd; first [reflexivity | discriminate Hd]. }
        cbn [id_chars forallb] in Ec.
        rewrite (L c1 _ H1 eq_refl), (L c2 _ H2 eq_refl), (L c3 _ H3 eq_refl), (L c4 _ H4 eq_refl) in Ec.
        discriminate Ec.
    + rewrite <- Epg. apply plain_id_tok. exact H.
Qed.

Lemma wf_id_tok i : wf_id pg i = true -> tok_id pg (id_tok pg i) = Some i.
Proof.
  destruct i as [[| |] v]; cbn [wf_id]; intros H; [|..|discriminate].
  - rewrite (unq_id_tok v H). reflexivity.
  - apply andb_prop in H as [H _]. apply andb_prop in H as [H _]. cbn [id_tok tok_id]. rewrite H. reflexivity.
Qed.
Lemma wf_alias_tok i : wf_alias pg i = true -> tok_alias (id_tok pg i) = Some i.
Proof.
  destruct i as [[| |] v]; cbn [wf_alias]; intros H.
  - rewrite (unq_id_tok v H). reflexivity.
  - reflexivity.
  - cbn [id_tok tok_alias]. rewrite N.eqb_refl. reflexivity.
Qed.
Lemma wf_talias_tok i : wf_talias pg i = true -> tok_talias pg (id_tok pg i) = Some i.
Proof.
  destruct i as [[| |] v]; cbn [wf_talias]; intros H.
  - cbn [wf_alias] in H. rewrite (unq_id_tok v H). reflexivity.
  - apply andb_prop in H as [H _]. cbn [id_tok tok_talias]. rewrite H. reflexivity.
  - cbn [id_tok tok_talias tok_alias]. rewrite N.eqb_refl. reflexivity.
Qed.

(** the token of a well-formed sql_id / table_id: ID or (PostgreSQL) DOUBLE_QUOTE_STRING *)
Lemma wf_id_tok_shape i : wf_id pg i = true ->
  (exists v, id_tok pg i = TId v /\ i = Id QNone v) \/ (exists v, id_tok pg i = TDq v /\ i = Id QDq v /\ pg = true).
Proof.
  destruct i as [[| |] v]; cbn [wf_id]; intros H; [|..|discriminate].
  - left. exists v. rewrite (unq_id_tok v H). split; reflexivity.
  - right. exists v. apply andb_prop in H as [H _]. apply andb_prop in H as [H _]. repeat split. exact H.
Qed.

Lemma id_nonempty i : wf_id pg i = true -> id_empty i = false.
Proof.
  destruct i as [[| |] [|c v]]; cbn [wf_id wf_unq nonempty id_empty andb]; intros H; try reflexivity; try discriminate H.
  apply andb_prop in H as [H _]. apply andb_prop in H as [_ H]. discriminate H.
Qed.
Lemma alias_nonempty i : wf_alias pg i = true -> id_empty i = false.
Proof.
  destruct i as [[| |] [|c v]]; cbn [wf_alias wf_unq nonempty id_empty andb]; intros H; try reflexivity; try discriminate H.
Qed.
Lemma talias_nonempty i : wf_talias pg i = true -> id_empty i = false.
Proof.
  destruct i as [[| |] v]; cbn [wf_talias]; intros H; try (apply alias_nonempty; exact H).
  apply andb_prop in H as [_ H]. apply alias_nonempty; exact H.
Qed.

(** raw names *)
Lemma rawid_tok v : wf_rawid v = true -> raw_tok v = TId v.
Proof.
  unfold wf_rawid, plain_ident, raw_tok. intros H. apply andb_prop in H as [H _]. apply andb_prop in H as [_ H].
  apply Bool.negb_true_iff in H. rewrite H. reflexivity.
Qed.

Lemma estart_id_tok i : wf_id pg i = true -> estart (id_tok pg i) = true.
Proof. intros H. destruct (wf_id_tok_shape i H) as [[v [-> _]]|[v [-> _]]]; reflexivity. Qed.

(** consequences of [estart] for the classifiers of the parser *)
Lemma estart_not_w t r w : estart t = true -> nonstart w = true -> expect_w w (t :: r) = None.
Proof.
  intros Ht Hw. apply expect_w_miss. intros r' E. inversion E; subst. cbn [estart] in Ht. rewrite Hw in Ht. discriminate Ht.
Qed.
Lemma estart_head_w t r w : estart t = true -> nonstart w = true -> head_w w (t :: r) = false.
Proof. intros Ht Hw. unfold head_w. rewrite (estart_not_w t r w Ht Hw). reflexivity. Qed.
Lemma estart_not_rparen t r : estart t = true -> expect_p PRParen (t :: r) = None.
Proof. intros Ht. apply expect_p_miss. intros r' E. inversion E; subst. discriminate Ht. Qed.
Lemma estart_not_comma t r : estart t = true -> expect_p PComma (t :: r) = None.
Proof. intros Ht. apply expect_p_miss. intros r' E. inversion E; subst. discriminate Ht. Qed.
End Heads.
