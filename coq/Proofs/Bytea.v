From Acra Require Import Lib.Bytes Lib.Outcome Model.Bytea.
From Coq Require Import ZifyN ZifyNat ZifyBool.
Local Open Scope N_scope.

(** * Elementary facts *)

Lemma printable_lt c : is_printable c = true -> c < 128.
Proof. unfold is_printable. intros Hp. lia. Qed.

Lemma printable_not_control c : is_printable c = true -> is_control c = false.
Proof. unfold is_printable, is_control. intros Hp. lia. Qed.

Lemma b2n_bs : b2n (n2b BACKSLASH) = 92.
Proof. vm_compute. reflexivity. Qed.

Lemma b2n_x : b2n (n2b 120) = 120.
Proof. vm_compute. reflexivity. Qed.

(** the 1/2/4 bytes EncodeToOctal emits for one input byte *)
Definition chunk (b : byte) : bytes :=
  if b2n b =? BACKSLASH then [n2b BACKSLASH; n2b BACKSLASH]
  else if negb (is_printable (b2n b)) then octal_of (b2n b)
  else [b].

Lemma encode_octal_cons b r : encode_octal (b :: r) = chunk b ++ encode_octal r.
Proof. reflexivity. Qed.

Lemma b2n_digit k : k < 8 -> b2n (n2b (48 + k)) = 48 + k.
Proof. intros Hk. rewrite b2n_n2b. apply N.mod_small. lia. Qed.

Lemma octal_digit_printable k : k < 8 -> is_printable (b2n (n2b (48 + k))) = true.
Proof. intros Hk. rewrite b2n_digit by exact Hk. unfold is_printable. lia. Qed.

Lemma chunk_printable b : Forall (fun x => is_printable (b2n x) = true) (chunk b).
Proof.
  unfold chunk. pose proof (b2n_lt b) as Hb.
  assert (is_printable (b2n (n2b BACKSLASH)) = true) as Hbs by (vm_compute; reflexivity).
  destruct (b2n b =? BACKSLASH) eqn:Ebs.
  - apply Forall_cons; [exact Hbs|]. apply Forall_cons; [exact Hbs|]. apply Forall_nil.
  - destruct (is_printable (b2n b)) eqn:Ep; cbn [negb].
    + apply Forall_cons; [exact Ep| apply Forall_nil].
    + unfold octal_of.
      apply Forall_cons; [exact Hbs|].
      apply Forall_cons; [apply octal_digit_printable; lia|].
      apply Forall_cons; [apply octal_digit_printable; lia|].
      apply Forall_cons; [apply octal_digit_printable; lia|].
      apply Forall_nil.
Qed.

Theorem encode_octal_printable d : Forall (fun b => is_printable (b2n b) = true) (encode_octal d).
Proof.
  induction d as [|b r IH].
  - constructor.
  - rewrite encode_octal_cons. apply Forall_app. split; [apply chunk_printable| exact IH].
Qed.

(** * []rune conversion of an ASCII string *)

Lemma decode_rune_ascii b r : b2n b < 128 -> decode_rune (b :: r) = (b2n b, 1%nat).
Proof.
  intros Hb. unfold decode_rune.
  replace (b2n b <? 128) with true by lia. reflexivity.
Qed.

Lemma runes_of_ascii s : forall f, (length s <= f)%nat ->
  Forall (fun b => b2n b < 128) s -> runes_of f s = map b2n s.
Proof.
  induction s as [|b r IH]; intros f Hlen Hall.
  - destruct f; reflexivity.
  - destruct f as [|f]; [cbn [length] in Hlen; lia|].
    inversion Hall as [|b' r' Hb Hr]; subst.
    cbn [runes_of]. rewrite decode_rune_ascii by exact Hb.
    cbn [skipn map]. f_equal. apply IH; [cbn [length] in Hlen; lia| exact Hr].
Qed.

Lemma to_runes_ascii s : Forall (fun b => b2n b < 128) s -> to_runes s = map b2n s.
Proof. intros Hall. unfold to_runes. apply runes_of_ascii; [lia| exact Hall]. Qed.

Lemma to_runes_encode_octal d : to_runes (encode_octal d) = map b2n (encode_octal d).
Proof.
  apply to_runes_ascii. eapply Forall_impl; [|apply encode_octal_printable].
  intros a Ha. apply printable_lt. exact Ha.
Qed.

(** * Rune level decoding *)

Lemma dor_cons ch r :
  decode_octal_runes (ch :: r) =
  if is_control ch then Err E_OCTAL
  else if negb (ch =? BACKSLASH) then do o <- decode_octal_runes r; Ok (encode_rune ch ++ o)
  else match r with
       | [] => Err E_OCTAL
       | c1 :: r1 =>
           if c1 =? BACKSLASH then do o <- decode_octal_runes r1; Ok (n2b BACKSLASH :: o)
           else match r1 with
                | c2 :: c3 :: r3 =>
                    if is_octal_digit c1 && is_octal_digit c2 && is_octal_digit c3
                    then do o <- decode_octal_runes r3;
                         Ok (n2b ((c1 - 48) * 64 + (c2 - 48) * 8 + (c3 - 48)) :: o)
                    else Err E_OCTAL
                | _ => Err E_OCTAL
                end
       end.
Proof. reflexivity. Qed.

Lemma dor_bs t :
  decode_octal_runes (92 :: 92 :: t) = do o <- decode_octal_runes t; Ok (n2b 92 :: o).
Proof. rewrite dor_cons. reflexivity. Qed.

Lemma dor_oct a1 a2 a3 t :
  is_octal_digit a1 = true -> is_octal_digit a2 = true -> is_octal_digit a3 = true ->
  decode_octal_runes (92 :: a1 :: a2 :: a3 :: t) =
  do o <- decode_octal_runes t; Ok (n2b ((a1 - 48) * 64 + (a2 - 48) * 8 + (a3 - 48)) :: o).
Proof.
  intros H1 H2 H3. rewrite dor_cons.
  change (is_control 92) with false. change (92 =? BACKSLASH) with true.
  cbv beta iota. cbn [negb].
  replace (a1 =? BACKSLASH) with false by (unfold is_octal_digit, BACKSLASH in *; lia).
  rewrite H1, H2, H3. reflexivity.
Qed.

Lemma dor_plain c t :
  is_printable c = true -> c <> 92 ->
  decode_octal_runes (c :: t) = do o <- decode_octal_runes t; Ok (n2b c :: o).
Proof.
  intros Hp Hne. rewrite dor_cons.
  rewrite (printable_not_control c Hp).
  replace (c =? BACKSLASH) with false by (unfold BACKSLASH; lia).
  cbn [negb]. unfold encode_rune.
  replace (c <? 128) with true by (apply printable_lt in Hp; lia).
  reflexivity.
Qed.

Lemma dor_chunk b t :
  decode_octal_runes (map b2n (chunk b) ++ t) = do o <- decode_octal_runes t; Ok (b :: o).
Proof.
  unfold chunk. pose proof (b2n_lt b) as Hb.
  destruct (b2n b =? BACKSLASH) eqn:Ebs.
  - cbn [map app]. rewrite b2n_bs, dor_bs.
    replace (n2b 92) with b; [reflexivity|].
    rewrite <- (n2b_b2n b). f_equal. unfold BACKSLASH in Ebs. lia.
  - destruct (is_printable (b2n b)) eqn:Ep; cbn [negb].
    + cbn [map app]. rewrite dor_plain; [|exact Ep| unfold BACKSLASH in Ebs; lia].
      rewrite n2b_b2n. reflexivity.
    + unfold octal_of. cbn [map app]. rewrite b2n_bs.
      rewrite !b2n_digit by lia.
      rewrite dor_oct by (unfold is_octal_digit; lia).
      replace ((48 + b2n b / 64 - 48) * 64 + (48 + b2n b / 8 mod 8 - 48) * 8 + (48 + b2n b mod 8 - 48))
        with (b2n b) by lia.
      rewrite n2b_b2n. reflexivity.
Qed.

Lemma dor_encode_octal d : decode_octal_runes (map b2n (encode_octal d)) = Ok d.
Proof.
  induction d as [|b r IH]; [reflexivity|].
  rewrite encode_octal_cons, map_app, dor_chunk, IH. reflexivity.
Qed.

Theorem bytea_octal_roundtrip d : decode_octal (encode_octal d) = Ok d.
Proof. unfold decode_octal. rewrite to_runes_encode_octal. apply dor_encode_octal. Qed.

(** * Hex *)

Lemma from_hex_digit k : k < 16 -> from_hex_char (b2n (hex_digit k)) = Some k.
Proof.
  intros Hk. unfold hex_digit. rewrite b2n_n2b. unfold from_hex_char.
  destruct (k <? 10) eqn:E.
  - rewrite N.mod_small by lia.
    replace ((48 <=? 48 + k) && (48 + k <=? 57)) with true by lia.
    f_equal. lia.
  - rewrite N.mod_small by lia.
    replace ((48 <=? 87 + k) && (87 + k <=? 57)) with false by lia.
    replace ((97 <=? 87 + k) && (87 + k <=? 102)) with true by lia.
    f_equal. lia.
Qed.

Lemma hex_roundtrip d : hex_decode (hex_encode d) = Ok d.
Proof.
  induction d as [|b r IH]; [reflexivity|].
  pose proof (b2n_lt b) as Hb.
  cbn [hex_encode hex_decode].
  rewrite !from_hex_digit by lia. rewrite IH. cbn [bind].
  replace (b2n b / 16 * 16 + b2n b mod 16) with (b2n b) by lia.
  rewrite n2b_b2n. reflexivity.
Qed.

Theorem bytea_hex_roundtrip d : decode_escaped (pg_encode_hex d) = Ok d.
Proof.
  unfold decode_escaped, pg_encode_hex. rewrite b2n_bs, b2n_x.
  change ((92 =? BACKSLASH) && (120 =? 120)) with true. cbv beta iota.
  apply hex_roundtrip.
Qed.

(** * DecodeEscaped on the octal form *)

Lemma cons2_inv {A} (x y a b : A) l r : x :: y :: l = a :: b :: r -> x = a /\ y = b.
Proof. intros H. injection H as H1 H2 H3. split; assumption. Qed.

Lemma encode_octal_head d a b r :
  encode_octal d = a :: b :: r -> (b2n a =? BACKSLASH) && (b2n b =? 120) = false.
Proof.
  destruct d as [|x d']; [discriminate|].
  rewrite encode_octal_cons. unfold chunk. pose proof (b2n_lt x) as Hx.
  destruct (b2n x =? BACKSLASH) eqn:Ebs.
  - cbn [app]. intros H. injection H as Ha Hb Hr. subst a b.
    vm_compute. reflexivity.
  - destruct (is_printable (b2n x)) eqn:Ep; cbn [negb].
    + cbn [app]. intros H. injection H as Ha Hr. subst a.
      rewrite Ebs. reflexivity.
    + unfold octal_of. cbn [app]. intros H. apply cons2_inv in H as [Ha Hb]. subst a b.
      rewrite b2n_digit by lia. rewrite b2n_bs. unfold BACKSLASH. lia.
Qed.

Theorem bytea_escaped_octal_roundtrip d : decode_escaped (encode_octal d) = Ok d.
Proof.
  unfold decode_escaped.
  destruct (encode_octal d) as [|a [|b r]] eqn:E.
  - rewrite <- E, bytea_octal_roundtrip. reflexivity.
  - rewrite <- E, bytea_octal_roundtrip. reflexivity.
  - rewrite (encode_octal_head d a b r E).
    rewrite <- E, bytea_octal_roundtrip. reflexivity.
Qed.

(** * Totality on arbitrary wire input *)

Lemma bind_not_panic {A B} (r : res A) (f : A -> res B) :
  r <> Panic -> (forall x, f x <> Panic) -> bind r f <> Panic.
Proof.
  intros Hr Hf. destruct r as [a|e|]; cbn [bind]; [apply Hf| discriminate| exfalso; apply Hr; reflexivity].
Qed.

Lemma dor_total_n n : forall t, (length t <= n)%nat -> decode_octal_runes t <> Panic.
Proof.
  induction n as [|n IH]; intros t Hlen.
  - destruct t as [|ch r]; [discriminate| cbn [length] in Hlen; lia].
  - destruct t as [|ch r]; [discriminate|]. cbn [length] in Hlen.
    rewrite dor_cons.
    destruct (is_control ch); [discriminate|].
    destruct (negb (ch =? BACKSLASH)).
    { apply bind_not_panic; [apply IH; lia| intros x; discriminate]. }
    destruct r as [|c1 r1]; [discriminate|]. cbn [length] in Hlen.
    destruct (c1 =? BACKSLASH).
    { apply bind_not_panic; [apply IH; lia| intros x; discriminate]. }
    destruct r1 as [|c2 [|c3 r3]]; try discriminate. cbn [length] in Hlen.
    destruct (is_octal_digit c1 && is_octal_digit c2 && is_octal_digit c3); [|discriminate].
    apply bind_not_panic; [apply IH; lia| intros x; discriminate].
Qed.

Lemma dor_total t : decode_octal_runes t <> Panic.
Proof. apply (dor_total_n (length t)). lia. Qed.

Theorem wire_decode_octal_total d : decode_octal d <> Panic.
Proof. unfold decode_octal. apply dor_total. Qed.

Lemma hex_decode_total_n n : forall d, (length d <= n)%nat -> hex_decode d <> Panic.
Proof.
  induction n as [|n IH]; intros d Hlen.
  - destruct d as [|p r]; [discriminate| cbn [length] in Hlen; lia].
  - destruct d as [|p [|q r]]; try discriminate. cbn [length] in Hlen.
    cbn [hex_decode].
    destruct (from_hex_char (b2n p)) as [a|]; [|discriminate].
    destruct (from_hex_char (b2n q)) as [b|]; [|discriminate].
    apply bind_not_panic; [apply IH; lia| intros x; discriminate].
Qed.

Theorem wire_hex_decode_total d : hex_decode d <> Panic.
Proof. apply (hex_decode_total_n (length d)). lia. Qed.

Theorem wire_decode_escaped_total d : decode_escaped d <> Panic.
Proof.
  unfold decode_escaped.
  destruct d as [|a [|b r]].
  - destruct (decode_octal []); discriminate.
  - destruct (decode_octal [a]); discriminate.
  - destruct ((b2n a =? BACKSLASH) && (b2n b =? 120)).
    + apply wire_hex_decode_total.
    + destruct (decode_octal (a :: b :: r)); discriminate.
Qed.

Example bytea_roundtrip_nonvacuous :
  decode_octal (encode_octal (hb 0x1005c27ff41e29c93)) = Ok (hb 0x1005c27ff41e29c93)
  /\ decode_escaped (pg_encode_hex (hb 0x1005c27ff41e29c93)) = Ok (hb 0x1005c27ff41e29c93)
  /\ exists x, decode_octal x = Err E_OCTAL.
Proof.
  split; [vm_compute; reflexivity|].
  split; [vm_compute; reflexivity|].
  exists [n2b 92]. vm_compute. reflexivity.
Qed.
