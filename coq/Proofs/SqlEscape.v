(** C13: string-literal text round trip (sqltypes.encodeBytesSQL then Tokenizer.scanString). *)
From Acra Require Import Lib.Bytes Gen.Prec Model.SqlExpr.

Definition not_quote_head (s : bytes) : Prop :=
  match s with [] => True | d :: _ => byte_eqb d x_quote = false end.

Definition esc_check (c : byte) : bool :=
  match assoc_byte SQL_ENCODE_MAP c with
  | Some e => negb (is_x e) &&
              match assoc_byte SQL_DECODE_MAP e with Some c' => byte_eqb c' c | None => false end
  | None => negb (byte_eqb c x_bslash) && negb (byte_eqb c x_quote)
  end.
Lemma esc_check_all c : esc_check c = true.
Proof. destruct c; vm_compute; reflexivity. Qed.

Lemma enc_some c e :
  assoc_byte SQL_ENCODE_MAP c = Some e ->
  is_x e = false /\ assoc_byte SQL_DECODE_MAP e = Some c.
Proof.
  intros H. pose proof (esc_check_all c) as K. unfold esc_check in K. rewrite H in K.
  apply Bool.andb_true_iff in K. destruct K as [K1 K2].
  split; [apply Bool.negb_true_iff; exact K1|].
  destruct (assoc_byte SQL_DECODE_MAP e) as [c'|]; [|discriminate K2].
  apply byte_eqb_eq in K2. subst c'. reflexivity.
Qed.

Lemma enc_none c :
  assoc_byte SQL_ENCODE_MAP c = None ->
  byte_eqb c x_bslash = false /\ byte_eqb c x_quote = false.
Proof.
  intros H. pose proof (esc_check_all c) as K. unfold esc_check in K. rewrite H in K.
  apply Bool.andb_true_iff in K. destruct K as [K1 K2].
  split; apply Bool.negb_true_iff; assumption.
Qed.

Lemma bslash_eqb : byte_eqb x_bslash x_bslash = true. Proof. reflexivity. Qed.
Lemma quote_not_bslash : byte_eqb x_quote x_bslash = false. Proof. reflexivity. Qed.
Lemma quote_eqb : byte_eqb x_quote x_quote = true. Proof. reflexivity. Qed.

Lemma scan_escape_body (v : bytes) : forall (first : bool) (acc rest : bytes),
  not_quote_head rest ->
  scan_string first acc (escape_body v ++ x_quote :: rest) = Some (acc ++ v, rest).
Proof.
  induction v as [|c v IH]; intros first acc rest Hrest.
  - cbn [escape_body app scan_string]. rewrite quote_not_bslash, quote_eqb.
    rewrite app_nil_r. destruct rest as [|d s2]; [reflexivity|].
    cbn [not_quote_head] in Hrest. rewrite Hrest. reflexivity.
  - cbn [escape_body]. destruct (assoc_byte SQL_ENCODE_MAP c) as [e|] eqn:E.
    + destruct (enc_some _ _ E) as [Hx Hd].
      cbn [app scan_string]. rewrite bslash_eqb, Hx, Bool.andb_false_r, Hd.
      rewrite IH by exact Hrest. rewrite <- app_assoc. reflexivity.
    + destruct (enc_none _ E) as [Hb Hq].
      cbn [app scan_string]. rewrite Hb, Hq.
      rewrite IH by exact Hrest. rewrite <- app_assoc. reflexivity.
Qed.

(** unescaping the printed form of a string literal gives the original bytes and stops exactly
    after the closing quote — for ALL byte strings and any following text not starting with a quote *)
Theorem escape_roundtrip (v rest : bytes) :
  not_quote_head rest ->
  decode_sql (encode_sql v ++ rest) = Some (v, rest).
Proof.
  intros H. unfold decode_sql, encode_sql. cbn [app]. rewrite quote_eqb.
  rewrite <- app_assoc. cbn [app]. unfold enc_body.
  destruct v as [|c [|d v']]; try apply (scan_escape_body _ true [] rest H).
  destruct (byte_eqb c x_bslash && byte_eqb d x78) eqn:E; [|apply (scan_escape_body _ true [] rest H)].
  apply Bool.andb_true_iff in E. destruct E as [Ec Ed].
  apply byte_eqb_eq in Ec. apply byte_eqb_eq in Ed. subst c d.
  cbn [app scan_string]. rewrite bslash_eqb.
  change (true && is_x x78) with true. cbv iota.
  apply (scan_escape_body v' false [x_bslash; x78] rest H).
Qed.

(** the printed body never contains an unescaped quote or a "\x" pair: every backslash is followed
    by one of the escape letters of the table *)
Lemma escape_body_app a b : escape_body (a ++ b) = escape_body a ++ escape_body b.
Proof.
  induction a as [|c a IH]; [reflexivity|]. cbn [app escape_body].
  destruct (assoc_byte SQL_ENCODE_MAP c); cbn [app]; rewrite IH; reflexivity.
Qed.
