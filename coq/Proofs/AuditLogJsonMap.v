(** Go maps as sorted association lists (Model/AuditLogJson.v): the byte order is a strict total order;
    get/set/delete laws; sorted lists are determined by their lookups; insertion keeps them sorted. *)
From Acra Require Import Lib.Bytes Lib.Outcome Gen.AuditLogConsts Model.AuditLog Model.AuditLogJsonNum Model.AuditLogJson.
From Coq Require Import ZifyN ZifyNat ZifyBool.

(** * sort.Strings order on byte strings *)
Lemma bytes_ltb_irrefl (a : bytes) : bytes_ltb a a = false.
Proof.
  induction a as [|x a IH]; cbn [bytes_ltb]; [reflexivity|].
  rewrite N.ltb_irrefl. exact IH.
Qed.

Lemma bytes_ltb_trans : forall a b c : bytes, bytes_ltb a b = true -> bytes_ltb b c = true -> bytes_ltb a c = true.
Proof.
  induction a as [|x a IH]; intros [|y b] [|z c] H1 H2; cbn [bytes_ltb] in *; try discriminate; try reflexivity.
  destruct (N.ltb_spec (b2n x) (b2n y)) as [Lxy|Lxy].
  - destruct (N.ltb_spec (b2n y) (b2n z)) as [Lyz|Lyz].
    + destruct (N.ltb_spec (b2n x) (b2n z)); [reflexivity| lia].
    + destruct (N.ltb_spec (b2n z) (b2n y)) as [L|L]; [discriminate|].
      destruct (N.ltb_spec (b2n x) (b2n z)); [reflexivity| lia].
  - destruct (N.ltb_spec (b2n y) (b2n x)) as [L|L]; [discriminate|].
    destruct (N.ltb_spec (b2n y) (b2n z)) as [Lyz|Lyz].
    + destruct (N.ltb_spec (b2n x) (b2n z)); [reflexivity| lia].
    + destruct (N.ltb_spec (b2n z) (b2n y)) as [L2|L2]; [discriminate|].
      destruct (N.ltb_spec (b2n x) (b2n z)) as [L3|L3]; [reflexivity|].
      destruct (N.ltb_spec (b2n z) (b2n x)) as [L4|L4]; [lia|].
      eapply IH; eassumption.
Qed.

Lemma bytes_ltb_total : forall a b : bytes, bytes_ltb a b = false -> a <> b -> bytes_ltb b a = true.
Proof.
  induction a as [|x a IH]; intros [|y b] H N; cbn [bytes_ltb] in *; try congruence.
  destruct (N.ltb_spec (b2n x) (b2n y)) as [L|L]; [discriminate|].
  destruct (N.ltb_spec (b2n y) (b2n x)) as [L2|L2]; [reflexivity|].
  assert (x = y) by (apply b2n_inj; lia). subst y.
  apply IH; [exact H| congruence].
Qed.

Lemma bytes_ltb_asym (a b : bytes) : bytes_ltb a b = true -> bytes_ltb b a = false.
Proof.
  intros H. destruct (bytes_ltb b a) eqn:E; [|reflexivity].
  pose proof (bytes_ltb_trans _ _ _ H E) as T. rewrite bytes_ltb_irrefl in T. discriminate.
Qed.

Lemma bytes_ltb_neq (a b : bytes) : bytes_ltb a b = true -> bytes_eqb a b = false.
Proof.
  intros H. apply bytes_eqb_neq. intros ->. rewrite bytes_ltb_irrefl in H. discriminate.
Qed.

Lemma bytes_eqb_sym (a b : bytes) : bytes_eqb a b = bytes_eqb b a.
Proof.
  destruct (bytes_eqb a b) eqn:E.
  - apply bytes_eqb_eq in E. subst. symmetry. apply bytes_eqb_refl.
  - symmetry. apply bytes_eqb_neq. apply bytes_eqb_neq in E. congruence.
Qed.

Section AssocLaws.
  Context {A : Type}.
  Implicit Types (m : list (bytes * A)) (k : bytes) (v : A).

  Definition keys_gt k m : Prop := Forall (fun kv => bytes_ltb k (fst kv) = true) m.   (* k below every key *)
  Definition keys_lt k m : Prop := Forall (fun kv => bytes_ltb (fst kv) k = true) m.   (* k above every key *)

  Lemma ssorted_cons k v m : ssorted ((k, v) :: m) = true <-> keys_gt k m /\ ssorted m = true.
  Proof.
    cbn [ssorted]. rewrite andb_true_iff, forallb_forall. unfold keys_gt. rewrite Forall_forall. tauto.
  Qed.

  (** ** lookups *)
  Lemma aget_adel k k' m : aget k' (adel k m) = if bytes_eqb k' k then None else aget k' m.
  Proof.
    induction m as [|[k1 v1] m IH]; cbn [adel aget].
    - destruct (bytes_eqb k' k); reflexivity.
    - destruct (bytes_eqb k k1) eqn:E1.
      + apply bytes_eqb_eq in E1. subst k1. rewrite IH. destruct (bytes_eqb k' k); reflexivity.
      + cbn [aget]. rewrite IH. destruct (bytes_eqb k' k1) eqn:E2; [|reflexivity].
        apply bytes_eqb_eq in E2. subst k1. rewrite (bytes_eqb_sym k' k), E1. reflexivity.
  Qed.

  Lemma aget_gt_none k m : keys_gt k m -> aget k m = None.
  Proof.
    induction 1 as [|[k1 v1] m H _ IH]; cbn [aget]; [reflexivity|].
    cbn [fst] in H. rewrite (bytes_ltb_neq _ _ H). exact IH.
  Qed.

  Lemma aget_ains k v k' m : aget k m = None ->
    aget k' (ains k v m) = if bytes_eqb k' k then Some v else aget k' m.
  Proof.
    induction m as [|[k1 v1] m IH]; intros HN; cbn [ains aget].
    - reflexivity.
    - cbn [aget] in HN. destruct (bytes_eqb k k1) eqn:E1; [discriminate|].
      destruct (bytes_ltb k k1); cbn [aget].
      + reflexivity.
      + rewrite (IH HN). destruct (bytes_eqb k' k1) eqn:E2; [|reflexivity].
        apply bytes_eqb_eq in E2. subst k1. rewrite (bytes_eqb_sym k' k), E1. reflexivity.
  Qed.

  Lemma aget_adel_same k m : aget k (adel k m) = None.
  Proof. rewrite aget_adel, bytes_eqb_refl. reflexivity. Qed.

  Lemma aget_aset k v k' m : aget k' (aset k v m) = if bytes_eqb k' k then Some v else aget k' m.
  Proof.
    unfold aset. rewrite aget_ains by apply aget_adel_same. rewrite aget_adel.
    destruct (bytes_eqb k' k); reflexivity.
  Qed.

  (** ** every element property survives *)
  Lemma Forall_adel (P : bytes * A -> Prop) k m : Forall P m -> Forall P (adel k m).
  Proof.
    induction 1 as [|[k1 v1] m H _ IH]; cbn [adel]; [constructor|].
    destruct (bytes_eqb k k1); [exact IH| constructor; assumption].
  Qed.
  Lemma Forall_ains (P : bytes * A -> Prop) k v m : P (k, v) -> Forall P m -> Forall P (ains k v m).
  Proof.
    intros Hk. induction 1 as [|[k1 v1] m H HF IH]; cbn [ains]; [constructor; [exact Hk| constructor]|].
    destruct (bytes_ltb k k1); constructor; try assumption. constructor; assumption.
  Qed.
  Lemma Forall_aset (P : bytes * A -> Prop) k v m : P (k, v) -> Forall P m -> Forall P (aset k v m).
  Proof. intros Hk HF. apply Forall_ains; [exact Hk| apply Forall_adel; exact HF]. Qed.

  (** ** sortedness *)
  Lemma ssorted_adel k m : ssorted m = true -> ssorted (adel k m) = true.
  Proof.
    induction m as [|[k1 v1] m IH]; intros H; cbn [adel]; [reflexivity|].
    apply ssorted_cons in H as [HG HS]. destruct (bytes_eqb k k1); [exact (IH HS)|].
    apply ssorted_cons. split; [apply Forall_adel; exact HG| exact (IH HS)].
  Qed.

  Lemma keys_gt_trans k k1 m : bytes_ltb k k1 = true -> keys_gt k1 m -> keys_gt k m.
  Proof.
    intros L H. unfold keys_gt in *. eapply Forall_impl; [|exact H].
    intros kv H1. eapply bytes_ltb_trans; eassumption.
  Qed.

  Lemma ssorted_ains k v m : ssorted m = true -> aget k m = None -> ssorted (ains k v m) = true.
  Proof.
    induction m as [|[k1 v1] m IH]; intros HS HN; cbn [ains].
    - reflexivity.
    - cbn [aget] in HN. destruct (bytes_eqb k k1) eqn:E1; [discriminate|].
      pose proof HS as HS0. apply ssorted_cons in HS as [HG HS].
      destruct (bytes_ltb k k1) eqn:L.
      + apply ssorted_cons. split; [|exact HS0].
        constructor; [exact L| eapply keys_gt_trans; eassumption].
      + apply ssorted_cons. split; [|exact (IH HS HN)].
        apply Forall_ains; [|exact HG]. cbn [fst].
        apply bytes_ltb_total; [exact L|]. apply bytes_eqb_neq. exact E1.
  Qed.

  Lemma ssorted_aset k v m : ssorted m = true -> ssorted (aset k v m) = true.
  Proof. intros H. apply ssorted_ains; [apply ssorted_adel; exact H| apply aget_adel_same]. Qed.

  (** ** a sorted list is determined by its lookups *)
  Lemma ssorted_ext : forall m1 m2, ssorted m1 = true -> ssorted m2 = true ->
    (forall k, aget k m1 = aget k m2) -> m1 = m2.
  Proof.
    induction m1 as [|[k1 v1] m1 IH]; intros [|[k2 v2] m2] S1 S2 HE.
    - reflexivity.
    - specialize (HE k2). cbn [aget] in HE. rewrite bytes_eqb_refl in HE. discriminate.
    - specialize (HE k1). cbn [aget] in HE. rewrite bytes_eqb_refl in HE. discriminate.
    - apply ssorted_cons in S1 as [G1 S1]. apply ssorted_cons in S2 as [G2 S2].
      assert (k1 = k2) as ->.
      { destruct (bytes_eqb k1 k2) eqn:E; [apply bytes_eqb_eq; exact E|]. exfalso.
        pose proof (HE k1) as H1. pose proof (HE k2) as H2. cbn [aget] in H1, H2.
        rewrite bytes_eqb_refl in H1. rewrite E in H1. rewrite (bytes_eqb_sym k2 k1), E, bytes_eqb_refl in H2.
        destruct (bytes_ltb k1 k2) eqn:L.
        - rewrite (aget_gt_none k1 m2) in H1; [discriminate|]. eapply keys_gt_trans; eassumption.
        - assert (bytes_ltb k2 k1 = true) as L2 by (apply bytes_ltb_total; [exact L| apply bytes_eqb_neq; exact E]).
          rewrite (aget_gt_none k2 m1) in H2; [discriminate|]. eapply keys_gt_trans; eassumption. }
      pose proof (HE k2) as H0. cbn [aget] in H0. rewrite bytes_eqb_refl in H0. inversion H0; subst v2.
      f_equal. apply IH; try assumption. intros k. specialize (HE k). cbn [aget] in HE.
      destruct (bytes_eqb k k2) eqn:E; [|exact HE].
      apply bytes_eqb_eq in E. subst k. rewrite (aget_gt_none k2 m1 G1), (aget_gt_none k2 m2 G2). reflexivity.
  Qed.

  (** ** inserting above every key appends *)
  Lemma adel_absent k m : keys_lt k m -> adel k m = m.
  Proof.
    induction 1 as [|[k1 v1] m H _ IH]; cbn [adel]; [reflexivity|]. cbn [fst] in H.
    rewrite (bytes_eqb_sym k k1), (bytes_ltb_neq _ _ H), IH. reflexivity.
  Qed.
  Lemma ains_above k v m : keys_lt k m -> ains k v m = m ++ [(k, v)].
  Proof.
    induction 1 as [|[k1 v1] m H _ IH]; cbn [ains app]; [reflexivity|]. cbn [fst] in H.
    rewrite (bytes_ltb_asym _ _ H), IH. reflexivity.
  Qed.
  Lemma aset_above k v m : keys_lt k m -> aset k v m = m ++ [(k, v)].
  Proof. intros H. unfold aset. rewrite (adel_absent k m H). apply ains_above. exact H. Qed.

  Lemma ssorted_app_lt : forall acc k v r, ssorted (acc ++ (k, v) :: r) = true -> keys_lt k acc.
  Proof.
    induction acc as [|[k1 v1] acc IH]; intros k v r H; [constructor|].
    cbn [app] in H. apply ssorted_cons in H as [HG HS]. constructor.
    - cbn [fst]. unfold keys_gt in HG. rewrite Forall_forall in HG. apply (HG (k, v)). apply in_or_app. right. left. reflexivity.
    - exact (IH _ _ _ HS).
  Qed.

  Lemma has_key_false k m : has_key k m = false <-> aget k m = None.
  Proof. unfold has_key. destruct (aget k m); split; congruence. Qed.
End AssocLaws.
